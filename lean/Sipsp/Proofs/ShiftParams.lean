/-
  Sipsp.Proofs.ShiftParams — position independence (property C11) of SkipQuoted, ParseTokenParam, ParseAllURIParams and
  ParseAllURIHdrs, and the C17 decomposition under every chunk schedule (C17 + C02).

  Setting as in Sipsp.Proofs.Shift: the text `t` is parsed at its own start (buffer `t`, offset `o`) and behind
  `k = pre.size` arbitrary bytes (buffer `pre ++ t`, offset `k + o`), with `pre.size + t.size ≤ 65535`.

  THE TRANSLATION `shTp k p` of a token-parameter object (state and panic flag unchanged; `shTp k {} = {}`):
  * `all`, `name`: moved by `k` (`shF`) in every state in which the parser has set them (`spTpLive`: all states but the
    initial and the error state).  This cannot be a "zero = unset" convention: a name that starts at buffer offset 0
    and has not been extended yet is the field ⟨0, 0⟩ (`PField.set i i` is an EMPTY field at a real position).  In the
    initial / error state the two fields are dead values: the zero field stays zero, anything else is moved (`shO`).
  * `val`: `Offs = 0` means "no value" (`shP`): unchanged then, moved by `k` otherwise, in every state.  This is
    unambiguous because a value never starts at buffer offset 0 (invariant `SpTpPos`: in the state "find value" the
    position is ≥ 1; in the states "value" / "quoted value" `val.Offs ≥ 1`), kept by every continuing step
    (`spTpStep_pos`) and re-established at every MoreBytes exit.  A stale value of the previous parameter (the object
    returned with MoreValues keeps its fields when it is passed in again) is translated the same way on both sides.
  `shPl k` / `shHl k` translate every slot and the scratch element of a list with `shTp k`; `n`, the type mask, the
  parameter types, the panic flag and the capacity are unchanged.

  PROVED (every flag combination incl. `POptInputEndF` / `POptTokSpTermF`, all 11 states, no bound but the 16-bit limit):
  * `skipQuoted_shift`.
  * `spTpStep_shift` (every loop step commutes with the translation; finishing steps up to `spTpNz`),
    `spTpEOH_shift`, `spTpMoreBytes_shift`, `spTpLWS_shift`; `spRunLoop_shiftN2` (generic loop theorem for two
    machines: the token-parameter machine carries the start offset of the call, which is moved too).
  * EXPORT C11 `parseTokenParam_shiftN`: for every legitimate object (`SpTpEntry o p` = `SrTpIn o p` of SafeRest +
    `SpTpPos o p`; `SpTpEntry.new`: new objects at every offset) the call on `pre ++ t` at `k + o` from `shTp k p`
    returns offset + k, the same verdict and the translated object — compared up to `spTpNz`, which blanks `all` /
    `name` of an object in the ERROR state.
  * EXPORT C11 `parseTokenParam_shift` (plain equation `= shRes k (shTp k) (…)` after OK / MoreValues / end of header /
    MoreBytes, object passed in not in the error state), `parseTokenParam_shift_of_state` (… whenever the run on `t`
    does not end in the error state), `parseTokenParam_shift_new`, `parseTokenParam_shift_any` (every verdict: offset
    + k, same verdict, state, panic flag; value moved), `parseTokenParam_good_state`, `parseTokenParam_shiftEntry`
    (after MoreBytes the returned object is legitimate at the returned offset: the theorems apply to resumed calls).
  * EXPORT C11 `parseAllURIParams_shift`, `parseAllURIHdrs_shift` (+ `uriParamsLoop_shift`, `uriHdrsLoop_shift`): plain
    equations, every verdict (on an error the wrapper zeroes the element in progress), for every legitimate list
    (`SpPlEntry` / `SpHlEntry`: fields end at or before the offset, unused slots zero, element in progress legitimate
    and not failed); `…_shift_new` (new lists of any capacity), `…_shift_reset` (reset lists, `shPl_reset`),
    `…_shiftEntry` (suspended lists: legitimacy re-established after MoreBytes); `shPl_scalars`, `shPl_get`,
    `shUp_meaning`, `shHl_scalars`, `shHl_get`, `shTp_name_get?` (the moved name denotes the same bytes, hence the
    same parameter type).
  * EXPORT C17 `tokparam_any_schedule`, `gparam_any_schedule`, `uri_param_list_any_schedule`,
    `uri_hdr_list_any_schedule`: for every growing schedule of prefixes whose last buffer `B` holds the parameter /
    the list of the grammar (`GParam` / `GList`), the chain of resumed calls returns the C17 decomposition of ONE call
    on `B` (via `spOneShotRun_stable`: one-shot results are stable under appended bytes).  Without `POptInputEndF`
    (the hypothesis of the C02 schedule theorems).

  NOT proved / not true:
  * the plain equation is FALSE after an error verdict for any translation that is a function of the returned object
    alone: `a\x01` and `\x01` at offset 0 both return state error with `all = name = ⟨0,0⟩`, while behind `xyz` the
    first returns `all = name = ⟨3,0⟩` (name started, not yet extended) and the second ⟨0,0⟩ (tests below).  Go callers
    do not read the fields after an error and the list wrappers zero the element.
  * objects that violate `SpTpPos` (hand-made: e.g. state "value" with `val.Offs = 0`) are not covered.
-/
import Sipsp.Proofs.ShiftNA
import Sipsp.Proofs.SafeRest
import Sipsp.Proofs.ParamSpec

namespace Sipsp

def spTpLive : TPState → Bool
  | .init | .err => false
  | _ => true

/-- [EXPORT C11] the token-parameter object moved by `k` (see the file header) -/
def shTp (k : Nat) (p : PTokParam) : PTokParam :=
  { p with all := if spTpLive p.state then shF k p.all else shO k p.all,
           name := if spTpLive p.state then shF k p.name else shO k p.name,
           val := shP k p.val }

def spTpNz (p : PTokParam) : PTokParam := if p.state = .err then { p with all := {}, name := {} } else p

theorem shTp_state (k : Nat) (p : PTokParam) : (shTp k p).state = p.state := rfl
theorem shTp_pnc (k : Nat) (p : PTokParam) : (shTp k p).pnc = p.pnc := rfl
theorem shTp_new (k : Nat) : shTp k {} = {} := rfl

theorem shTp_st (k : Nat) (p : PTokParam) (s : TPState) (h : spTpLive s = spTpLive p.state) :
    { shTp k p with state := s } = shTp k { p with state := s } := by
  simp only [shTp, h]

theorem shTp_st_err (k : Nat) (p : PTokParam) :
    spTpNz { shTp k p with state := .err } = spTpNz (shTp k { p with state := .err }) := by
  simp only [shTp, spTpNz, ↓reduceIte]

theorem shTp_sna (k : Nat) (p : PTokParam) (i : Nat) (s : TPState) (hs : spTpLive s = true) (h : k + i ≤ 65535) :
    { shTp k p with state := s, name := PField.set (k + i) (k + i), all := PField.set (k + i) (k + i) } =
      shTp k { p with state := s, name := PField.set i i, all := PField.set i i } := by
  simp only [shTp, hs, ↓reduceIte, set_shift k i i h]

theorem shTp_extName (k : Nat) (p : PTokParam) (e : Nat) (hl : spTpLive p.state = true) (h : k + e ≤ 65535)
    (ho : p.name.offs ≤ e) : (shTp k p).extName (k + e) = shTp k (p.extName e) := by
  simp only [shTp, hl, ↓reduceIte, PTokParam.extName, extend_shift k p.name e h ho, extendPanics_shift]

theorem shTp_extAll (k : Nat) (p : PTokParam) (e : Nat) (hl : spTpLive p.state = true) (h : k + e ≤ 65535)
    (ho : p.all.offs ≤ e) : (shTp k p).extAll (k + e) = shTp k (p.extAll e) := by
  simp only [shTp, hl, ↓reduceIte, PTokParam.extAll, extend_shift k p.all e h ho, extendPanics_shift]

theorem shTp_extVal (k : Nat) (p : PTokParam) (e : Nat) (h : k + e ≤ 65535)
    (ho : p.val.offs ≤ e) (h0 : p.val.offs ≠ 0) : (shTp k p).extVal (k + e) = shTp k (p.extVal e) := by
  simp only [shTp, PTokParam.extVal, shP_extend k p.val e h ho h0, shP_extendPanics]
  rfl

theorem shTp_setVal (k : Nat) (p : PTokParam) (i : Nat) (h : k + i ≤ 65535) (h1 : 1 ≤ i) :
    { shTp k p with val := PField.set (k + i) (k + i) } = shTp k { p with val := PField.set i i } := by
  have : shP k (PField.set i i) = shF k (PField.set i i) := by
    unfold shP; rw [if_neg]; unfold PField.set trunc16; simp only; omega
  simp only [shTp, this, set_shift k i i h]

structure SpTpPos (i : Nat) (p : PTokParam) : Prop where
  fv : p.state = .fVal → 1 ≤ i
  vo : p.state = .val ∨ p.state = .quotedVal → 1 ≤ p.val.offs

theorem spTpEOH_shift (k : Nat) (p : PTokParam) (n crl : Nat) :
    resN spTpNz (tpEOH (shTp k p) (k + n) crl) = resN spTpNz (shResD k (fun _ => shTp k) (tpEOH p n crl)) := by
  unfold tpEOH
  rw [shTp_state]
  cases hst : p.state <;> simp only [resN, shResD, Nat.add_assoc]
  all_goals first
    | rw [shTp_st k p _ (by rw [hst]; rfl)]
    | rw [shTp_st_err]

theorem spTp_extNA (k : Nat) (p : PTokParam) (i j : Nat) (hl : spTpLive p.state = true) (hS : SrTpIn i p)
    (hij : i ≤ j) (hj : k + j ≤ 65535) :
    ((shTp k p).extName (k + i)).extAll (k + j) = shTp k ((p.extName i).extAll j) := by
  have h1 : p.name.offs + p.name.len ≤ i := hS.name
  have h2 : p.all.offs + p.all.len ≤ i := hS.all
  rw [shTp_extName k p i hl (by omega) (by omega)]
  exact shTp_extAll k (p.extName i) j hl hj (by show p.all.offs ≤ j; omega)

theorem spTp_extVA (k : Nat) (p : PTokParam) (i : Nat) (hl : spTpLive p.state = true) (hS : SrTpIn i p)
    (hv : 1 ≤ p.val.offs) (hj : k + i ≤ 65535) :
    ((shTp k p).extVal (k + i)).extAll (k + i) = shTp k ((p.extVal i).extAll i) := by
  have h1 : p.val.offs + p.val.len ≤ i := hS.val
  have h2 : p.all.offs + p.all.len ≤ i := hS.all
  rw [shTp_extVal k p i hj (by omega) (by omega)]
  exact shTp_extAll k (p.extVal i) i hl hj (by show p.all.offs ≤ i; omega)

theorem spTpMoreBytes_shift (pre t : Buf) (flags : Nat) (p : PTokParam) (i : Nat) (hfit : pre.size + t.size ≤ 65535)
    (hi : i ≤ t.size) (hS : SrTpIn i p) (hP : SpTpPos i p) :
    resN spTpNz (tpMoreBytes (pre ++ t) flags (shTp pre.size p) (pre.size + i)) =
      resN spTpNz (shResD pre.size (fun _ => shTp pre.size) (tpMoreBytes t flags p i)) := by
  unfold tpMoreBytes
  rw [shTp_state, Array.size_append]
  split
  · cases hst : p.state <;> simp only
    case name =>
      rw [spTp_extNA pre.size p i i (by rw [hst]; rfl) hS (Nat.le_refl _) (by omega)]
      exact spTpEOH_shift _ _ _ _
    case val =>
      rw [spTp_extVA pre.size p i (by rw [hst]; rfl) hS (hP.vo (Or.inl hst)) (by omega)]
      exact spTpEOH_shift _ _ _ _
    all_goals first
      | exact spTpEOH_shift _ _ _ _
      | rfl
  · rfl
theorem spStepOfRes (k : Nat) (r' r : Nat × Err × PTokParam)
    (h : resN spTpNz r' = resN spTpNz (shResD k (fun _ => shTp k) r)) :
    stepN spTpNz (stepOfRes r') = stepN spTpNz (shStepD k (shTp k) (fun _ => shTp k) (stepOfRes r)) := by
  rcases r' with ⟨a, b, c⟩
  rcases r with ⟨a2, b2, c2⟩
  simp only [resN, shResD, Prod.mk.injEq] at h
  obtain ⟨rfl, rfl, h3⟩ := h
  simp only [stepOfRes, stepN, shStepD, h3]

theorem spTpLWS_shift (pre t : Buf) (flags i : Nat) (p : PTokParam) (upd upd' : PTokParam → PTokParam)
    (hfit : pre.size + t.size ≤ 65535) (hi : i ≤ t.size) (hS : SrTpIn i p) (hP : SpTpPos i p)
    (hu : upd' (shTp pre.size p) = shTp pre.size (upd p)) :
    stepN spTpNz (tpLWS (pre ++ t) flags (pre.size + i) (shTp pre.size p) upd') =
      stepN spTpNz (shStepD pre.size (shTp pre.size) (fun _ => shTp pre.size) (tpLWS t flags i p upd)) := by
  unfold tpLWS
  rw [skipLWS_shift]
  rcases hq : skipLWS t i flags with ⟨n, crl, e⟩
  cases e <;> simp only [hu]
  case moreBytes => exact spStepOfRes _ _ _ (spTpMoreBytes_shift pre t flags p i hfit hi hS hP)
  case eoh => exact spStepOfRes _ _ _ (spTpEOH_shift _ _ _ _)
  all_goals rfl
theorem spC (k i : Nat) (X Y : PTokParam) (h : X = shTp k Y) :
    stepN spTpNz (.cont (k + i) X) = stepN spTpNz (shStepD k (shTp k) (fun _ => shTp k) (.cont i Y)) := by
  subst h; rfl

theorem spD (k i : Nat) (e : Err) (X Y : PTokParam) (h : spTpNz X = spTpNz (shTp k Y)) :
    stepN spTpNz (.done (k + i) e X) = stepN spTpNz (shStepD k (shTp k) (fun _ => shTp k) (.done i e Y)) := by
  simp only [stepN, shStepD, h]

theorem spTp_extNA_st (k : Nat) (p : PTokParam) (i j : Nat) (s : TPState) (hl : spTpLive p.state = true)
    (hs : spTpLive s = true) (hS : SrTpIn i p) (hij : i ≤ j) (hj : k + j ≤ 65535) :
    { ((shTp k p).extName (k + i)).extAll (k + j) with state := s } =
      shTp k { (p.extName i).extAll j with state := s } := by
  rw [spTp_extNA k p i j hl hS hij hj]
  exact shTp_st k _ s (by rw [hs]; exact hl.symm)

theorem spTp_extVA_st (k : Nat) (p : PTokParam) (i : Nat) (s : TPState) (hl : spTpLive p.state = true)
    (hs : spTpLive s = true) (hS : SrTpIn i p) (hv : 1 ≤ p.val.offs) (hj : k + i ≤ 65535) :
    { ((shTp k p).extVal (k + i)).extAll (k + i) with state := s } =
      shTp k { (p.extVal i).extAll i with state := s } := by
  rw [spTp_extVA k p i hl hS hv hj]
  exact shTp_st k _ s (by rw [hs]; exact hl.symm)

theorem spTp_setVA_st (k : Nat) (p : PTokParam) (i : Nat) (s : TPState) (hl : spTpLive p.state = true)
    (hs : spTpLive s = true) (hS : SrTpIn i p) (h1 : 1 ≤ i) (hj : k + i ≤ 65535) :
    { ({ shTp k p with val := PField.set (k + i) (k + i) } : PTokParam).extAll (k + i) with state := s } =
      shTp k { ({ p with val := PField.set i i } : PTokParam).extAll i with state := s } := by
  have h2 : p.all.offs + p.all.len ≤ i := hS.all
  rw [shTp_setVal k p i hj h1]
  have e := shTp_extAll k { p with val := PField.set i i } i hl hj (by show p.all.offs ≤ i; omega)
  simp only [e]
  exact shTp_st k _ s (by rw [hs]; exact hl.symm)

theorem spTp_setV_st (k : Nat) (p : PTokParam) (i : Nat) (s : TPState) (hl : spTpLive p.state = true)
    (hs : spTpLive s = true) (h1 : 1 ≤ i) (hj : k + i ≤ 65535) :
    { shTp k p with val := PField.set (k + i) (k + i), state := s } =
      shTp k { p with val := PField.set i i, state := s } := by
  have := shTp_st k { p with val := PField.set i i } s (by rw [hs]; exact hl.symm)
  rw [← shTp_setVal k p i hj h1] at this
  exact this

theorem spTpSpTermEq_shift (k o0 i : Nat) (p : PTokParam) (hl : spTpLive p.state = true) :
    stepN spTpNz (tpSpTermEq (k + o0) (k + i) (shTp k p)) =
      stepN spTpNz (shStepD k (shTp k) (fun _ => shTp k) (tpSpTermEq o0 i p)) := by
  unfold tpSpTermEq
  rw [shTp_st k p .fin (by rw [hl]; rfl)]
  by_cases h : i ≥ o0 + 1
  · rw [if_pos h, if_pos (by omega)]
    have : k + i - 1 = k + (i - 1) := by omega
    rw [this]; rfl
  · rw [if_neg h, if_neg (by omega)]; rfl

theorem spTpSpTermSep_shift (pre t : Buf) (o0 i : Nat) (p : PTokParam) (hl : spTpLive p.state = true) :
    stepN spTpNz (tpSpTermSep (pre ++ t) (pre.size + o0) (pre.size + i) (shTp pre.size p)) =
      stepN spTpNz (shStepD pre.size (shTp pre.size) (fun _ => shTp pre.size) (tpSpTermSep t o0 i p)) := by
  unfold tpSpTermSep
  simp only
  rw [shTp_st pre.size p .fin (by rw [hl]; rfl)]
  by_cases h : i ≥ o0 + 1
  · rw [if_pos h, if_pos (by omega)]
    have e1 : pre.size + i - 1 = pre.size + (i - 1) := by omega
    rw [e1, get?_shift]
    cases t[i - 1]? with
    | none => rfl
    | some c => simp only; split <;> rfl
  · rw [if_neg h, if_neg (by omega)]; rfl
theorem spSqStep_shift (pre t : Buf) (i : Nat) (c : UInt8) :
    sqStep (pre ++ t) (pre.size + i) c () = shStep pre.size id (sqStep t i c ()) := by
  unfold sqStep
  rw [get?_shift1]
  by_cases h1 : (c == 34) = true
  · simp only [h1, ↓reduceIte, shStep]; rfl
  · simp only [h1, Bool.false_eq_true, ↓reduceIte]
    by_cases h2 : (c == 92) = true
    · simp only [h2, ↓reduceIte]
      cases t[i + 1]? with
      | none => rfl
      | some c1 =>
        simp only
        split
        · rfl
        · simp only [shStep, id]; rw [Nat.add_assoc]
    · simp only [h2, Bool.false_eq_true, ↓reduceIte]
      split
      · rfl
      · split
        · rfl
        · simp only [shStep, id]; rw [Nat.add_assoc]

/-- [EXPORT C11] **SkipQuoted is position independent** -/
theorem skipQuoted_shift (pre t : Buf) (i : Nat) :
    skipQuoted (pre ++ t) (pre.size + i) = (pre.size + (skipQuoted t i).1, (skipQuoted t i).2) := by
  unfold skipQuoted
  have := runLoop_shift sqMachine pre t id (fun _ _ => True) (fun _ _ _ _ _ _ _ _ _ => trivial)
    (fun i c st _ _ => spSqStep_shift pre t i c) (fun i st _ _ => rfl) i () trivial
  simp only [id] at this
  rw [this]
  rfl

theorem spBeq1 : (TPState.init == TPState.fNxt) = false := by decide
theorem spBeq2 : (TPState.initNxtVal == TPState.fNxt) = false := by decide
theorem spBeq3 : (TPState.fNxt == TPState.fNxt) = true := by decide

theorem spIte (k : Nat) (cnd : Prop) [Decidable cnd] (a b a' b' : Step PTokParam)
    (h1 : stepN spTpNz a = stepN spTpNz (shStepD k (shTp k) (fun _ => shTp k) a'))
    (h2 : stepN spTpNz b = stepN spTpNz (shStepD k (shTp k) (fun _ => shTp k) b')) :
    stepN spTpNz (if cnd then a else b) =
      stepN spTpNz (shStepD k (shTp k) (fun _ => shTp k) (if cnd then a' else b')) := by
  split <;> assumption

theorem spTpStep_shift (flags o0 : Nat) (pre t : Buf) (i : Nat) (c : UInt8) (p : PTokParam) (hb : t[i]? = some c)
    (hfit : pre.size + t.size ≤ 65535) (hS : SrTpSafe t o0 i p) (hP : SpTpPos i p) :
    stepN spTpNz (tpStep flags (pre.size + o0) (pre ++ t) (pre.size + i) c (shTp pre.size p)) =
      stepN spTpNz (shStepD pre.size (shTp pre.size) (fun _ => shTp pre.size) (tpStep flags o0 t i c p)) := by
  have hlt := get?_lt hb
  have hf := hS.fl
  have hi : i ≤ t.size := hS.hi
  have hk : pre.size + i ≤ 65535 := by omega
  have hk1 : pre.size + (i + 1) ≤ 65535 := by omega
  have hii : i ≤ i := Nat.le_refl i
  have his : i ≤ i + 1 := Nat.le_succ i
  unfold tpStep
  simp only [shTp_state, Nat.add_assoc]
  cases hst : p.state <;> simp only
  case quotedVal =>
    rw [skipQuoted_shift]
    rcases hq : skipQuoted t i with ⟨n, e⟩
    have h2 := skipQuoted_range t i (by omega) hq
    have hv := hP.vo (Or.inr hst)
    cases e <;> simp only
    case moreBytes =>
      exact spStepOfRes _ _ _ (spTpMoreBytes_shift pre t flags p n hfit h2.2 (hf.mono h2.1)
        ⟨(fun h => by rw [hst] at h; cases h), fun _ => hv⟩)
    case ok =>
      rw [spTp_extVA pre.size p n (by rw [hst]; rfl) (hf.mono h2.1) hv (by omega)]
      exact spC _ _ _ _ (shTp_st _ _ _ (by show _ = spTpLive p.state; rw [hst]; rfl))
    case eoh => exact spStepOfRes _ _ _ (spTpEOH_shift _ _ _ _)
    all_goals rfl
  case err => exact spC _ _ _ _ rfl
  case fin => exact spC _ _ _ _ rfl
  all_goals
    by_cases hl : isLWSch c = true
    · simp only [hl, ↓reduceIte]
      first
        | exact spTpLWS_shift pre t flags i p id id hfit hi hf hP rfl
        | exact spTpLWS_shift pre t flags i p _ _ hfit hi hf hP
            (spTp_extNA_st _ _ _ _ _ (by rw [hst]; rfl) rfl hf hii hk)
        | exact spTpLWS_shift pre t flags i p _ _ hfit hi hf hP
            (spTp_extVA_st _ _ _ _ (by rw [hst]; rfl) rfl hf (hP.vo (Or.inl hst)) hk)
    · simp only [hl, Bool.false_eq_true, ↓reduceIte]
      try simp only [spBeq1, spBeq2, spBeq3, Bool.false_and, Bool.true_and, Bool.false_eq_true, ↓reduceIte]
      repeat' (with_reducible apply spIte)
      all_goals first
        | exact spC _ _ _ _ rfl
        | exact spC _ _ _ _ (shTp_st _ _ _ (by rw [hst]; rfl))
        | exact spC _ _ _ _ (shTp_sna _ _ _ _ rfl hk)
        | exact spC _ _ _ _ (spTp_extNA_st _ _ _ _ _ (by rw [hst]; rfl) rfl hf (by omega) (by omega))
        | exact spC _ _ _ _ (spTp_extVA_st _ _ _ _ (by rw [hst]; rfl) rfl hf (hP.vo (Or.inl hst)) hk)
        | exact spC _ _ _ _ (spTp_setVA_st _ _ _ _ (by rw [hst]; rfl) rfl hf (hP.fv hst) hk)
        | exact spD _ _ _ _ _ (congrArg spTpNz (shTp_st _ _ _ (by rw [hst]; rfl)))
        | exact spD _ _ _ _ _ (congrArg spTpNz (spTp_extNA_st _ _ _ _ _ (by rw [hst]; rfl) rfl hf (by omega) (by omega)))
        | exact spD _ _ _ _ _ (congrArg spTpNz (spTp_extVA_st _ _ _ _ (by rw [hst]; rfl) rfl hf (hP.vo (Or.inl hst)) hk))
        | exact spD _ _ _ _ _ (congrArg spTpNz (spTp_setV_st _ _ _ _ (by rw [hst]; rfl) rfl (hP.fv hst) hk))
        | exact spD _ _ _ _ _ (shTp_st_err _ _)
        | exact spTpSpTermEq_shift _ _ _ _ (by rw [hst]; rfl)
        | exact spTpSpTermSep_shift _ _ _ _ _ (by rw [hst]; rfl)

theorem SpTpPos.mono {i j : Nat} {p : PTokParam} (h : SpTpPos i p) (hij : i ≤ j) : SpTpPos j p :=
  ⟨fun hs => by have := h.fv hs; omega, h.vo⟩

theorem SpTpPos.new (i : Nat) : SpTpPos i {} :=
  ⟨(fun h => nomatch h), fun h => h.elim (fun h => nomatch h) (fun h => nomatch h)⟩

def spIsMB : Err → Bool
  | .moreBytes => true
  | _ => false

/-- what a finishing step guarantees for the position invariant: a MoreBytes exit returns a legitimate object -/
def SpTpPosT (o : Nat) (e : Err) (q : PTokParam) : Prop := spIsMB e = false ∨ SpTpPos o q

theorem spTpEOH_posT (p : PTokParam) (n crl : Nat) :
    SpTpPosT (tpEOH p n crl).1 (tpEOH p n crl).2.1 (tpEOH p n crl).2.2 := by
  unfold tpEOH; split <;> exact Or.inl rfl

theorem spTpMoreBytes_posT (b : Buf) (flags : Nat) (p : PTokParam) (i : Nat) (hP : SpTpPos i p) :
    SpTpPosT (tpMoreBytes b flags p i).1 (tpMoreBytes b flags p i).2.1 (tpMoreBytes b flags p i).2.2 := by
  unfold tpMoreBytes
  split
  · split
    all_goals first
      | exact spTpEOH_posT _ _ _
      | exact Or.inr hP
      | exact Or.inl rfl
  · exact Or.inr hP

theorem spTpLWS_pos (b : Buf) (flags i : Nat) (p : PTokParam) (upd : PTokParam → PTokParam) (hP : SpTpPos i p)
    (hu : ∀ n, i ≤ n → SpTpPos n (upd p)) :
    StepAll2 SpTpPos SpTpPosT (tpLWS b flags i p upd) := by
  unfold tpLWS
  rcases hsk : skipLWS b i flags with ⟨n, crl, e⟩
  have hr := skipLWS_range b i flags hsk
  cases e <;> simp only [stepOfRes]
  case moreBytes => exact spTpMoreBytes_posT b flags p i hP
  case ok => exact hu n hr.1
  case eoh => exact spTpEOH_posT _ _ _
  all_goals exact Or.inl rfl

theorem spSetOffs (i : Nat) (h1 : 1 ≤ i) (h2 : i ≤ 65535) : 1 ≤ (PField.set i i).offs := by
  unfold PField.set trunc16; simp only; omega

def spIsFVal : TPState → Bool
  | .fVal => true
  | _ => false
def spIsV : TPState → Bool
  | .val | .quotedVal => true
  | _ => false

theorem spPos_vac (n : Nat) (q : PTokParam) (h1 : spIsFVal q.state = false) (h2 : spIsV q.state = false) :
    SpTpPos n q := by
  refine ⟨fun h => ?_, fun h => ?_⟩
  · rw [h] at h1; cases h1
  · rcases h with h | h <;> rw [h] at h2 <;> cases h2

theorem spPos_fv (n : Nat) (q : PTokParam) (h2 : spIsV q.state = false) (hn : 1 ≤ n) : SpTpPos n q := by
  refine ⟨fun _ => hn, fun h => ?_⟩
  rcases h with h | h <;> rw [h] at h2 <;> cases h2

theorem spPos_v (n : Nat) (q : PTokParam) (h1 : spIsFVal q.state = false) (hv : 1 ≤ q.val.offs) : SpTpPos n q := by
  refine ⟨fun h => ?_, fun _ => hv⟩
  rw [h] at h1; cases h1

theorem spTpStep_pos (flags o0 : Nat) (b : Buf) (i : Nat) (c : UInt8) (p : PTokParam) (hb : b[i]? = some c)
    (hfit : b.size ≤ 65535) (hP : SpTpPos i p) :
    StepAll2 SpTpPos SpTpPosT (tpStep flags o0 b i c p) := by
  have hlt := get?_lt hb
  have hi5 : i ≤ 65535 := by omega
  unfold tpStep
  simp only
  cases hst : p.state <;> simp only
  case quotedVal =>
    rcases hq : skipQuoted b i with ⟨n, e⟩
    have h2 := skipQuoted_range b i (by omega) hq
    cases e <;> simp only [stepOfRes]
    case ok => exact spPos_vac _ _ rfl rfl
    case moreBytes => exact spTpMoreBytes_posT b flags p n (hP.mono h2.1)
    case eoh => exact spTpEOH_posT _ _ _
    all_goals exact Or.inl rfl
  case err => exact hP.mono (Nat.le_succ i)
  case fin => exact hP.mono (Nat.le_succ i)
  all_goals
    by_cases hl : isLWSch c = true
    · simp only [hl, ↓reduceIte]
      first
        | exact spTpLWS_pos b flags i p id hP (fun n hn => hP.mono hn)
        | exact spTpLWS_pos b flags i p _ hP (fun n hn => spPos_vac _ _ rfl rfl)
    · simp only [hl, Bool.false_eq_true, ↓reduceIte]
      repeat' split
      all_goals first
        | exact Or.inl rfl
        | exact hP.mono (Nat.le_succ i)
        | exact spPos_vac _ _ rfl rfl
        | exact spPos_fv _ _ rfl (Nat.succ_le_succ (Nat.zero_le i))
        | exact spPos_v _ _ rfl (spSetOffs i (hP.fv hst) hi5)
        | (unfold tpSpTermEq; split <;> exact Or.inl rfl)
        | (unfold tpSpTermSep; simp only; repeat' split
           all_goals exact Or.inl rfl)

/-! ### a verdict other than an error never leaves the object in the error state -/

def spNotErr : TPState → Bool
  | .err => false
  | _ => true

/-- the verdicts after which the object is meaningful: OK, MoreValues, end of header, MoreBytes -/
def spGoodV : Err → Bool
  | .ok | .moreValues | .eoh | .moreBytes => true
  | _ => false

def SpNoErrT (_ : Nat) (e : Err) (q : PTokParam) : Prop := spGoodV e = false ∨ spNotErr q.state = true

theorem spTpEOH_noerr (p : PTokParam) (n crl : Nat) (hS : spNotErr p.state = true) :
    SpNoErrT (tpEOH p n crl).1 (tpEOH p n crl).2.1 (tpEOH p n crl).2.2 := by
  unfold tpEOH; split <;> first | exact Or.inl rfl | exact Or.inr rfl | exact Or.inr hS

theorem spTpMoreBytes_noerr (b : Buf) (flags : Nat) (p : PTokParam) (i : Nat) (hS : spNotErr p.state = true) :
    SpNoErrT (tpMoreBytes b flags p i).1 (tpMoreBytes b flags p i).2.1 (tpMoreBytes b flags p i).2.2 := by
  unfold tpMoreBytes
  split
  · split
    all_goals first
      | exact spTpEOH_noerr _ _ _ hS
      | exact Or.inr hS
      | exact Or.inl rfl
  · exact Or.inr hS

theorem spTpLWS_noerr (b : Buf) (flags i : Nat) (p : PTokParam) (upd : PTokParam → PTokParam)
    (hS : spNotErr p.state = true) (hu : spNotErr (upd p).state = true) :
    StepAll2 (fun _ q => spNotErr q.state = true) SpNoErrT (tpLWS b flags i p upd) := by
  unfold tpLWS
  rcases hsk : skipLWS b i flags with ⟨n, crl, e⟩
  cases e <;> simp only [stepOfRes]
  case moreBytes => exact spTpMoreBytes_noerr b flags p i hS
  case ok => exact hu
  case eoh => exact spTpEOH_noerr _ _ _ hu
  all_goals first | exact Or.inl rfl | exact Or.inr hu

theorem spTpStep_noerr (flags o0 : Nat) (b : Buf) (i : Nat) (c : UInt8) (p : PTokParam)
    (hS : spNotErr p.state = true) :
    StepAll2 (fun _ q => spNotErr q.state = true) SpNoErrT (tpStep flags o0 b i c p) := by
  unfold tpStep
  simp only
  cases hst : p.state <;> simp only
  case quotedVal =>
    rcases hq : skipQuoted b i with ⟨n, e⟩
    cases e <;> simp only [stepOfRes]
    case ok => rfl
    case moreBytes => exact spTpMoreBytes_noerr b flags p n hS
    case eoh => exact spTpEOH_noerr _ _ _ hS
    all_goals first | exact Or.inl rfl | exact Or.inr hS
  case err => rw [hst] at hS; cases hS
  case fin => exact hS
  all_goals
    by_cases hl : isLWSch c = true
    · simp only [hl, ↓reduceIte]
      first
        | exact spTpLWS_noerr b flags i p id hS hS
        | exact spTpLWS_noerr b flags i p _ hS rfl
    · simp only [hl, Bool.false_eq_true, ↓reduceIte]
      repeat' split
      all_goals first
        | exact Or.inl rfl
        | exact Or.inr rfl
        | exact hS
        | rfl
        | (unfold tpSpTermEq; split <;> exact Or.inr rfl)
        | (unfold tpSpTermSep; simp only; repeat' split
           all_goals exact Or.inr rfl)

/-! ### generic loop theorem, two machines (the token-parameter machine depends on the start offset of the call) -/

theorem spRunLoop_shiftN2 {σ : Type} (m m' : Machine σ) (pre t : Buf) (sh : σ → σ) (shD : Err → σ → σ) (nz : σ → σ)
    (Inv : Nat → σ → Prop)
    (hinv : ∀ i c st i' st', t[i]? = some c → Inv i st → m.step t i c st = .cont i' st' → i < i' → Inv i' st')
    (hprog : ∀ i c st i' st', t[i]? = some c → Inv i st → m.step t i c st = .cont i' st' → i < i')
    (hstep : ∀ i c st, t[i]? = some c → Inv i st →
      stepN nz (m'.step (pre ++ t) (pre.size + i) c (sh st)) = stepN nz (shStepD pre.size sh shD (m.step t i c st)))
    (heob : ∀ i st, t[i]? = none → Inv i st →
      resN nz (m'.eob (pre ++ t) (pre.size + i) (sh st)) = resN nz (shResD pre.size shD (m.eob t i st)))
    (i : Nat) (st : σ) (hI : Inv i st) :
    resN nz (runLoop m' (pre ++ t) (pre.size + i) (sh st)) = resN nz (shResD pre.size shD (runLoop m t i st)) := by
  induction hk : t.size - i using Nat.strongRecOn generalizing i st with
  | _ k ih =>
    cases hb : t[i]? with
    | none =>
      rw [runLoop_none m st hb, runLoop_none m' (sh st) (by rw [get?_shift]; exact hb)]
      exact heob i st hb hI
    | some c =>
      have hbB : (pre ++ t)[pre.size + i]? = some c := by rw [get?_shift]; exact hb
      have hs := hstep i c st hb hI
      cases hq : m.step t i c st with
      | done o e st' =>
        rw [hq] at hs
        rw [runLoop_done m hb hq]
        cases hqB : m'.step (pre ++ t) (pre.size + i) c (sh st) with
        | cont i2 st2 => rw [hqB] at hs; simp only [stepN, shStepD] at hs; cases hs
        | done o2 e2 st2 =>
          rw [hqB] at hs
          simp only [stepN, shStepD, Step.done.injEq] at hs
          obtain ⟨rfl, rfl, h3⟩ := hs
          rw [runLoop_done m' hbB hqB]
          simp only [resN, shResD]
          rw [h3]
      | cont i' st' =>
        rw [hq] at hs
        have hlt : i < i' := hprog i c st i' st' hb hI hq
        simp only [stepN, shStepD] at hs
        cases hqB : m'.step (pre ++ t) (pre.size + i) c (sh st) with
        | done o2 e2 st2 => rw [hqB] at hs; simp only at hs; cases hs
        | cont i2 st2 =>
          rw [hqB] at hs
          simp only [Step.cont.injEq] at hs
          obtain ⟨rfl, rfl⟩ := hs
          rw [runLoop_cont m hb hq, runLoop_cont m' hbB hqB, if_pos hlt, if_pos (by omega)]
          have := get?_lt hb
          exact ih (t.size - i') (by omega) i' st' (hinv i c st i' st' hb hI hq hlt) rfl

/-! ### ParseTokenParam -/

/-- legitimate argument of ParseTokenParam at offset `o` for the shift theorem -/
def SpTpEntry (o : Nat) (p : PTokParam) : Prop := SrTpIn o p ∧ SpTpPos o p

theorem SpTpEntry.new (o : Nat) : SpTpEntry o {} := ⟨SrTpIn.new o, SpTpPos.new o⟩

/-- [EXPORT C11] **ParseTokenParam is position independent**, every verdict: offset + k, same verdict, translated object (after an error verdict `all` / `name` are not compared: `spTpNz`) -/
theorem parseTokenParam_shiftN (pre t : Buf) (o : Nat) (p : PTokParam) (flags : Nat)
    (hfit : pre.size + t.size ≤ 65535) (ho : o ≤ t.size) (hE : SpTpEntry o p) :
    resN spTpNz (parseTokenParam (pre ++ t) (pre.size + o) (shTp pre.size p) flags) =
      resN spTpNz (shRes pre.size (shTp pre.size) (parseTokenParam t o p flags)) := by
  unfold parseTokenParam
  rw [shTp_state]
  split
  · rfl
  · exact spRunLoop_shiftN2 (tpMachine flags o) (tpMachine flags (pre.size + o)) pre t (shTp pre.size) (fun _ => shTp pre.size) spTpNz
      (fun i q => SrTpSafe t o i q ∧ SpTpPos i q)
      (fun i c q i' q' hb hI hs hlt => by
        have h1 := srTpStep_safe flags o t i c q hb hI.1
        have h2 := spTpStep_pos flags o t i c q hb (by omega) hI.2
        change tpStep flags o t i c q = _ at hs
        rw [hs] at h1 h2
        exact ⟨h1, h2⟩)
      (fun i c q i' q' hb _ hs => tp_progress flags o t i c q i' q' hb hs)
      (fun i c q hb hI => spTpStep_shift flags o pre t i c q hb hfit hI.1 hI.2)
      (fun i q _ hI => spTpMoreBytes_shift pre t flags q i hfit hI.1.hi hI.1.fl hI.2)
      o p ⟨⟨Nat.le_refl _, ho, hE.1⟩, hE.2⟩

theorem spTpNz_id {p : PTokParam} (h : p.state ≠ .err) : spTpNz p = p := by
  unfold spTpNz; rw [if_neg h]

theorem spTpNz_state (p : PTokParam) : (spTpNz p).state = p.state := by
  unfold spTpNz; split <;> rfl

theorem spNotErr_ne {s : TPState} (h : spNotErr s = true) : s ≠ .err := by
  intro hh; rw [hh] at h; cases h

theorem spNotErr_of_ne {s : TPState} (h : s ≠ .err) : spNotErr s = true := by
  cases s <;> first | rfl | exact absurd rfl h

/-- [EXPORT C11] after OK / MoreValues / end of header / MoreBytes the returned object is not in the error state (given that the
    object passed in was not) -/
theorem parseTokenParam_good_state (b : Buf) (o : Nat) (p : PTokParam) (flags : Nat) (hs : p.state ≠ .err)
    (hg : spGoodV (parseTokenParam b o p flags).2.1 = true) : (parseTokenParam b o p flags).2.2.state ≠ .err := by
  have key : SpNoErrT (parseTokenParam b o p flags).1 (parseTokenParam b o p flags).2.1
      (parseTokenParam b o p flags).2.2 := by
    unfold parseTokenParam
    split
    · exact Or.inr (spNotErr_of_ne hs)
    · exact runLoop_safe2 (tpMachine flags o) b (fun _ q => spNotErr q.state = true) SpNoErrT (tp_progress flags o)
        (fun i c st _ hS => spTpStep_noerr flags o b i c st hS)
        (fun i st hS => spTpMoreBytes_noerr b flags st i hS) o p (spNotErr_of_ne hs)
  rcases key with h | h
  · rw [hg] at h; cases h
  · exact spNotErr_ne h

/-- [EXPORT C11] the plain form: whenever the run on `t` does not end in the error state -/
theorem parseTokenParam_shift_of_state (pre t : Buf) (o : Nat) (p : PTokParam) (flags : Nat)
    (hfit : pre.size + t.size ≤ 65535) (ho : o ≤ t.size) (hE : SpTpEntry o p)
    (hne : (parseTokenParam t o p flags).2.2.state ≠ .err) :
    parseTokenParam (pre ++ t) (pre.size + o) (shTp pre.size p) flags =
      shRes pre.size (shTp pre.size) (parseTokenParam t o p flags) := by
  have h := parseTokenParam_shiftN pre t o p flags hfit ho hE
  rcases hr : parseTokenParam t o p flags with ⟨o1, e1, p1⟩
  rcases hr' : parseTokenParam (pre ++ t) (pre.size + o) (shTp pre.size p) flags with ⟨o2, e2, p2⟩
  rw [hr] at h hne
  rw [hr'] at h
  simp only [resN, shRes, Prod.mk.injEq] at h
  obtain ⟨h1, h2, h3⟩ := h
  have hs1 : (shTp pre.size p1).state ≠ .err := hne
  rw [spTpNz_id hs1] at h3
  have hs2 : p2.state ≠ .err := by
    rw [← spTpNz_state p2, h3]; exact hs1
  rw [spTpNz_id hs2] at h3
  simp only [shRes, h1, h2, h3]

/-- [EXPORT C11] **ParseTokenParam is position independent** (every flag combination, every legitimate object): after OK /
    MoreValues / end of header / MoreBytes the call behind `pre` returns the offset moved by `k = pre.size`, the same
    verdict and the translated object -/
theorem parseTokenParam_shift (pre t : Buf) (o : Nat) (p : PTokParam) (flags : Nat)
    (hfit : pre.size + t.size ≤ 65535) (ho : o ≤ t.size) (hE : SpTpEntry o p) (hs : p.state ≠ .err)
    (hg : spGoodV (parseTokenParam t o p flags).2.1 = true) :
    parseTokenParam (pre ++ t) (pre.size + o) (shTp pre.size p) flags =
      shRes pre.size (shTp pre.size) (parseTokenParam t o p flags) :=
  parseTokenParam_shift_of_state pre t o p flags hfit ho hE (parseTokenParam_good_state t o p flags hs hg)

/-- [EXPORT C11] … from a new object, at any start offset -/
theorem parseTokenParam_shift_new (pre t : Buf) (o : Nat) (flags : Nat)
    (hfit : pre.size + t.size ≤ 65535) (ho : o ≤ t.size) (hg : spGoodV (parseTokenParam t o {} flags).2.1 = true) :
    parseTokenParam (pre ++ t) (pre.size + o) {} flags =
      shRes pre.size (shTp pre.size) (parseTokenParam t o {} flags) :=
  parseTokenParam_shift pre t o {} flags hfit ho (SpTpEntry.new o) (fun h => nomatch h) hg

/-- [EXPORT C11] every verdict (errors included): offset moved by `k`, same verdict, same state and panic flag, value field moved
    unless absent; after an error only `all` / `name` are not compared -/
theorem parseTokenParam_shift_any (pre t : Buf) (o : Nat) (p : PTokParam) (flags : Nat)
    (hfit : pre.size + t.size ≤ 65535) (ho : o ≤ t.size) (hE : SpTpEntry o p) :
    (parseTokenParam (pre ++ t) (pre.size + o) (shTp pre.size p) flags).1 =
      pre.size + (parseTokenParam t o p flags).1 ∧
    (parseTokenParam (pre ++ t) (pre.size + o) (shTp pre.size p) flags).2.1 = (parseTokenParam t o p flags).2.1 ∧
    (parseTokenParam (pre ++ t) (pre.size + o) (shTp pre.size p) flags).2.2.state =
      (parseTokenParam t o p flags).2.2.state ∧
    (parseTokenParam (pre ++ t) (pre.size + o) (shTp pre.size p) flags).2.2.pnc =
      (parseTokenParam t o p flags).2.2.pnc ∧
    (parseTokenParam (pre ++ t) (pre.size + o) (shTp pre.size p) flags).2.2.val =
      shP pre.size (parseTokenParam t o p flags).2.2.val := by
  have h := parseTokenParam_shiftN pre t o p flags hfit ho hE
  rcases hr : parseTokenParam t o p flags with ⟨o1, e1, p1⟩
  rcases hr' : parseTokenParam (pre ++ t) (pre.size + o) (shTp pre.size p) flags with ⟨o2, e2, p2⟩
  rw [hr, hr'] at h
  simp only [resN, shRes, Prod.mk.injEq] at h
  obtain ⟨h1, h2, h3⟩ := h
  refine ⟨h1, h2, ?_, ?_, ?_⟩
  · have := congrArg PTokParam.state h3
    rw [spTpNz_state, spTpNz_state] at this; exact this
  · have := congrArg PTokParam.pnc h3
    have e : ∀ q : PTokParam, (spTpNz q).pnc = q.pnc := by intro q; unfold spTpNz; split <;> rfl
    rw [e, e] at this; exact this
  · have := congrArg PTokParam.val h3
    have e : ∀ q : PTokParam, (spTpNz q).val = q.val := by intro q; unfold spTpNz; split <;> rfl
    rw [e, e] at this; exact this

/-- [EXPORT C11] after MoreBytes the returned object is a legitimate argument at the returned offset (so the theorems apply to
    the resumed call as well) -/
theorem parseTokenParam_shiftEntry (b : Buf) (o : Nat) (p : PTokParam) (flags : Nat) (hfit : b.size ≤ 65535)
    (ho : o ≤ b.size) (hE : SpTpEntry o p) (hm : (parseTokenParam b o p flags).2.1 = .moreBytes) :
    SpTpEntry (parseTokenParam b o p flags).1 (parseTokenParam b o p flags).2.2 := by
  have h1 := (parseTokenParam_safe b o p flags ho hE.1).tight (Or.inl (by rw [hm]; decide))
  have key : SpTpPosT (parseTokenParam b o p flags).1 (parseTokenParam b o p flags).2.1
      (parseTokenParam b o p flags).2.2 := by
    unfold parseTokenParam
    split
    · exact Or.inl rfl
    · exact runLoop_safe2 (tpMachine flags o) b SpTpPos SpTpPosT (tp_progress flags o)
        (fun i c st hb hS => spTpStep_pos flags o b i c st hb hfit hS)
        (fun i st hS => spTpMoreBytes_posT b flags st i hS) o p hE.2
  rcases key with h | h
  · rw [hm] at h; cases h
  · exact ⟨h1, h⟩

/-! ### the URI parameter list -/

def shUp (k : Nat) (u : URIParam) : URIParam := { u with param := shTp k u.param }

/-- [EXPORT C11] **the URI-parameter list moved by `k`**: every slot and the scratch element moved with `shTp k`; count, type
    mask and panic flag unchanged -/
def shPl (k : Nat) (l : URIParamsLst) : URIParamsLst :=
  { l with params := l.params.map (shUp k), tmp := shUp k l.tmp }

theorem shUp_new (k : Nat) : shUp k {} = {} := rfl

theorem shPl_new (k m : Nat) :
    shPl k ({ params := Array.replicate m {} } : URIParamsLst) = { params := Array.replicate m {} } := by
  unfold shPl
  simp only [Array.map_replicate, shUp_new]

theorem shPl_cur (k : Nat) (l : URIParamsLst) : (shPl k l).cur = shUp k l.cur := by
  unfold URIParamsLst.cur shPl
  simp only [Array.size_map]
  split
  · rename_i h; simp [h]
  · rfl

theorem shPl_setCur (k : Nat) (l : URIParamsLst) (u : URIParam) :
    (shPl k l).setCur (shUp k u) = shPl k (l.setCur u) := by
  unfold URIParamsLst.setCur shPl
  simp only [Array.size_map]
  split
  · simp only [Array.set!_eq_setIfInBounds, Array.map_setIfInBounds]
  · rfl

theorem shPl_next (k : Nat) (l : URIParamsLst) (tp : PTokParam) (ty : Nat) :
    (shPl k l).next (shTp k tp) ty = shPl k (l.next tp ty) := by
  have h := shPl_setCur k l { param := tp, t := ty }
  have e : shUp k { param := tp, t := ty } = { param := shTp k tp, t := ty } := rfl
  rw [e] at h
  unfold URIParamsLst.next
  rw [h]
  have hs : (shPl k l).params.size = l.params.size := by unfold shPl; simp only [Array.size_map]
  have hn : (shPl k l).n = l.n := rfl
  rw [hs, hn]
  split <;> rfl


def shPlRes (k : Nat) (r : Nat × Nat × Err × URIParamsLst) : Nat × Nat × Err × URIParamsLst :=
  (k + r.1, r.2.1, r.2.2.1, shPl k r.2.2.2)

/-- legitimate argument of ParseAllURIParams at offset `o` for the shift theorem: fields end at or before `o`
    (`SrPlIn`), unused slots are zero (`plClean`), and the element in progress is a legitimate, non-failed
    token-parameter object -/
structure SpPlEntry (o : Nat) (l : URIParamsLst) : Prop where
  inb : SrPlIn o l
  clean : plClean l
  pos : SpTpPos o l.cur.param
  ne : l.cur.param.state ≠ .err

/-- [EXPORT C11] the name of a translated object denotes the same bytes -/
theorem shTp_name_get? (pre t : Buf) (p : PTokParam) (hin : p.name.inside t.size) (hfit : pre.size + t.size ≤ 65535) :
    (shTp pre.size p).name.get? (pre ++ t) = p.name.get? t := by
  show (if spTpLive p.state then shF pre.size p.name else shO pre.size p.name).get? (pre ++ t) = _
  split
  · exact get?_shiftF pre t p.name hin hfit
  · exact get?_shO pre t p.name hin hfit

/-- [EXPORT C11] the loop of ParseAllURIParams (any option word, any value counter) commutes with the shift -/
theorem uriParamsLoop_shift (pre t : Buf) (flags : Nat) (hfit : pre.size + t.size ≤ 65535) (offs : Nat)
    (l : URIParamsLst) (vNo : Nat) (ho : offs ≤ t.size) (hE : SpPlEntry offs l) :
    uriParamsLoop (pre ++ t) (pre.size + offs) (shPl pre.size l) flags vNo =
      shPlRes pre.size (uriParamsLoop t offs l flags vNo) := by
  revert ho hE
  induction offs, l, vNo using uriParamsLoop_induct t flags with
  | step offs l vNo ih =>
    intro ho hE
    have hcur : (shPl pre.size l).cur.param = shTp pre.size l.cur.param := by rw [shPl_cur]; rfl
    have hcur2 : ∀ q : PTokParam, ({ (shPl pre.size l).cur with param := shTp pre.size q } : URIParam) =
        shUp pre.size { l.cur with param := q } := by intro q; rw [shPl_cur]; rfl
    rcases hp : parseTokenParam t offs l.cur.param flags with ⟨next, e1, tp⟩
    have hT := parseTokenParam_safe t offs l.cur.param flags ho hE.inb.cur
    rw [hp] at hT
    have hlo : offs ≤ next := hT.lo
    have hhi : next ≤ t.size := hT.hi
    have hout : SrTpIn t.size tp := hT.out
    have htight : e1 ≠ .ok → SrTpIn next tp := fun hne => hT.tight (Or.inl hne)
    obtain ⟨nm, hnm⟩ := field_get?_some t tp.name hout.name (by omega)
    have hnm' : (shTp pre.size tp).name.get? (pre ++ t) = some nm := by
      rw [shTp_name_get? pre t tp hout.name hfit]; exact hnm
    have hgood : spGoodV e1 = true →
        parseTokenParam (pre ++ t) (pre.size + offs) (shPl pre.size l).cur.param flags =
          (pre.size + next, e1, shTp pre.size tp) := by
      intro hg
      have hx := parseTokenParam_shift pre t offs l.cur.param flags hfit ho ⟨hE.inb.cur, hE.pos⟩ hE.ne
        (by rw [hp]; exact hg)
      rw [hp] at hx; rw [hcur]; exact hx
    by_cases hm : e1 = .moreBytes
    · subst hm
      rw [uriParamsLoop_eq_more hp, uriParamsLoop_eq_more (hgood rfl), hcur2, shPl_setCur]; rfl
    by_cases hv : e1 = .moreValues
    · subst hv
      rw [uriParamsLoop_mv hp hnm, uriParamsLoop_mv (hgood rfl) hnm', shPl_next]
      have hst : (shPl pre.size l).cur.param.state = l.cur.param.state := by rw [hcur]; rfl
      have hst2 : (shPl pre.size (l.next tp (uriParamResolve nm))).cur.param.state =
          (l.next tp (uriParamResolve nm)).cur.param.state := by rw [shPl_cur]; rfl
      rw [hst, hst2, Array.size_append]
      by_cases hg : next ≤ t.size ∧ (offs < next ∨ (offs = next ∧ l.cur.param.state = .fNxt ∧
          (l.next tp (uriParamResolve nm)).cur.param.state ≠ .fNxt))
      · rw [if_pos hg, if_pos ⟨by omega, hg.2.elim (fun h => Or.inl (by omega)) (fun h => Or.inr ⟨by omega, h.2⟩)⟩]
        have hn := (hE.inb.mono hlo).next tp (uriParamResolve nm) (htight (by decide))
        have hc := plClean_next tp (uriParamResolve nm) hE.clean
        exact ih next tp nm hp hnm hg hhi ⟨hn, hc.1, by rw [hc.2]; exact SpTpPos.new _, by rw [hc.2]; decide⟩
      · rw [if_neg hg, if_neg (fun h => hg ⟨by omega, h.2.elim (fun h => Or.inl (by omega))
          (fun h => Or.inr ⟨by omega, h.2⟩)⟩)]
        rfl
    by_cases hk : e1 = .ok
    · subst hk
      rw [uriParamsLoop_eq_last hp (Or.inl rfl) hnm, uriParamsLoop_eq_last (hgood rfl) (Or.inl rfl) hnm', shPl_next]; rfl
    by_cases he : e1 = .eoh
    · subst he
      rw [uriParamsLoop_eq_last hp (Or.inr rfl) hnm, uriParamsLoop_eq_last (hgood rfl) (Or.inr rfl) hnm', shPl_next]; rfl
    · have hany := parseTokenParam_shift_any pre t offs l.cur.param flags hfit ho ⟨hE.inb.cur, hE.pos⟩
      rw [hp, ← hcur] at hany
      rcases hp' : parseTokenParam (pre ++ t) (pre.size + offs) (shPl pre.size l).cur.param flags with ⟨a, b, c⟩
      rw [hp'] at hany
      obtain ⟨h1, h2, -⟩ := hany
      simp only at h1 h2
      subst h1 h2
      rw [uriParamsLoop_err hp hk hv he hm, uriParamsLoop_err hp' hk hv he hm]
      have := shPl_setCur pre.size l {}
      rw [shUp_new] at this
      rw [this]; rfl


/-- [EXPORT C11] **ParseAllURIParams is position independent** (every flag combination, any capacity, every legitimate list) -/
theorem parseAllURIParams_shift (pre t : Buf) (offs : Nat) (l : URIParamsLst) (flags : Nat)
    (hfit : pre.size + t.size ≤ 65535) (ho : offs ≤ t.size) (hE : SpPlEntry offs l) :
    parseAllURIParams (pre ++ t) (pre.size + offs) (shPl pre.size l) flags =
      shPlRes pre.size (parseAllURIParams t offs l flags) :=
  uriParamsLoop_shift pre t _ hfit offs l 0 ho hE

theorem spPl_cur_new (m : Nat) : ({ params := Array.replicate m {} } : URIParamsLst).cur = {} := by
  unfold URIParamsLst.cur
  split
  · rename_i h; simp only [Array.size_replicate] at h; simp [h]
  · rfl

theorem SpPlEntry.new (o m : Nat) : SpPlEntry o ({ params := Array.replicate m {} } : URIParamsLst) :=
  ⟨srPlIn_new o m, (plOK_new #[] m).2, by rw [spPl_cur_new]; exact SpTpPos.new o, by rw [spPl_cur_new]; decide⟩

/-- [EXPORT C11] … from a new list of any capacity -/
theorem parseAllURIParams_shift_new (pre t : Buf) (offs m : Nat) (flags : Nat)
    (hfit : pre.size + t.size ≤ 65535) (ho : offs ≤ t.size) :
    parseAllURIParams (pre ++ t) (pre.size + offs) { params := Array.replicate m {} } flags =
      shPlRes pre.size (parseAllURIParams t offs { params := Array.replicate m {} } flags) := by
  have := parseAllURIParams_shift pre t offs _ flags hfit ho (SpPlEntry.new offs m)
  rw [shPl_new] at this; exact this

theorem spPl_reset_get {l : URIParamsLst} (h : plClean l) (j : Nat) (hj : j < l.params.size) :
    l.reset.params[j]! = {} := by
  show (clearUpToP l.params {} l.n)[j]! = {}
  rw [clearUpToP_get _ _ _ _ hj]
  split
  · rfl
  · exact h.1 j (by omega) hj

theorem spPl_reset_cur {l : URIParamsLst} (h : plClean l) : l.reset.cur = {} := by
  have hsz : l.reset.params.size = l.params.size := clearUpToP_size _ _ _
  unfold URIParamsLst.cur
  split
  · rename_i hin
    rw [hsz] at hin
    have : l.reset.n = 0 := rfl
    rw [this] at hin ⊢
    exact spPl_reset_get h 0 hin
  · rfl

theorem SpPlEntry.reset (o : Nat) {l : URIParamsLst} (h : plClean l) : SpPlEntry o l.reset :=
  ⟨srPlIn_reset_clean o h, (plOK_reset #[] h).1.2, by rw [spPl_reset_cur h]; exact SpTpPos.new o,
    by rw [spPl_reset_cur h]; decide⟩

/-- a reset list holds only zero elements: the translation leaves it unchanged -/
theorem shPl_reset (k : Nat) {l : URIParamsLst} (h : plClean l) : shPl k l.reset = l.reset := by
  have hsz : l.reset.params.size = l.params.size := clearUpToP_size _ _ _
  have hp : l.reset.params.map (shUp k) = l.reset.params := by
    apply Array.ext
    · simp only [Array.size_map]
    · intro j h1 h2
      rw [Array.getElem_map]
      have hj : j < l.params.size := by rw [← hsz]; exact h2
      have := spPl_reset_get h j hj
      rw [getElem!_pos l.reset.params j h2] at this
      rw [this]; rfl
  show ({ l.reset with params := l.reset.params.map (shUp k), tmp := shUp k l.reset.tmp } : URIParamsLst) = l.reset
  rw [hp]; rfl

/-- [EXPORT C11] … from a reset list (whatever it held before, e.g. fields of another buffer) -/
theorem parseAllURIParams_shift_reset (pre t : Buf) (offs : Nat) (l : URIParamsLst) (flags : Nat)
    (hfit : pre.size + t.size ≤ 65535) (ho : offs ≤ t.size) (hc : plClean l) :
    parseAllURIParams (pre ++ t) (pre.size + offs) l.reset flags =
      shPlRes pre.size (parseAllURIParams t offs l.reset flags) := by
  have := parseAllURIParams_shift pre t offs _ flags hfit ho (SpPlEntry.reset offs hc)
  rw [shPl_reset _ hc] at this; exact this

/-- [EXPORT C11] after MoreBytes the returned list is a legitimate argument at the returned offset -/
theorem uriParamsLoop_shiftEntry (b : Buf) (flags : Nat) (hfit : b.size ≤ 65535) (offs : Nat) (l : URIParamsLst)
    (vNo : Nat) (ho : offs ≤ b.size) (hE : SpPlEntry offs l)
    (hm : (uriParamsLoop b offs l flags vNo).2.2.1 = .moreBytes) :
    SpPlEntry (uriParamsLoop b offs l flags vNo).1 (uriParamsLoop b offs l flags vNo).2.2.2 := by
  revert ho hE hm
  induction offs, l, vNo using uriParamsLoop_induct b flags with
  | step offs l vNo ih =>
    intro ho hE hm
    have hsafe := uriParamsLoop_safe b flags hfit offs l vNo ho hE.inb
    rcases hp : parseTokenParam b offs l.cur.param flags with ⟨next, e1, tp⟩
    have hT := parseTokenParam_safe b offs l.cur.param flags ho hE.inb.cur
    rw [hp] at hT
    obtain ⟨nm, hnm⟩ := field_get?_some b tp.name hT.out.name hfit
    by_cases hmb : e1 = .moreBytes
    · subst hmb
      have hent := parseTokenParam_shiftEntry b offs l.cur.param flags hfit ho ⟨hE.inb.cur, hE.pos⟩ (by rw [hp])
      have hgs := parseTokenParam_good_state b offs l.cur.param flags hE.ne (by rw [hp]; rfl)
      rw [hp] at hent hgs
      have hin := hsafe.tight (by rw [hm]; decide)
      rw [uriParamsLoop_eq_more hp] at hin ⊢
      exact ⟨hin, plClean_setCur _ hE.clean, by rw [pSetCur_cur]; exact hent.2, by rw [pSetCur_cur]; exact hgs⟩
    by_cases hv : e1 = .moreValues
    · subst hv
      rw [uriParamsLoop_mv hp hnm] at hm ⊢
      split
      · rename_i hg
        rw [if_pos hg] at hm
        have hn := (hE.inb.mono hT.lo).next tp (uriParamResolve nm) (hT.tight (Or.inl (fun hh => nomatch hh)))
        have hc := plClean_next tp (uriParamResolve nm) hE.clean
        exact ih next tp nm hp hnm hg hT.hi ⟨hn, hc.1, by rw [hc.2]; exact SpTpPos.new _, by rw [hc.2]; decide⟩ hm
      · rename_i hg; rw [if_neg hg] at hm; cases hm
    by_cases hk : e1 = .ok
    · subst hk; rw [uriParamsLoop_eq_last hp (Or.inl rfl) hnm] at hm; cases hm
    by_cases he : e1 = .eoh
    · subst he; rw [uriParamsLoop_eq_last hp (Or.inr rfl) hnm] at hm; cases hm
    · rw [uriParamsLoop_err hp hk hv he hmb] at hm; exact absurd hm hmb

/-- [EXPORT C11] after MoreBytes the list returned by ParseAllURIParams is a legitimate argument at the returned offset -/
theorem parseAllURIParams_shiftEntry (b : Buf) (offs : Nat) (l : URIParamsLst) (flags : Nat) (hfit : b.size ≤ 65535)
    (ho : offs ≤ b.size) (hE : SpPlEntry offs l) (hm : (parseAllURIParams b offs l flags).2.2.1 = .moreBytes) :
    SpPlEntry (parseAllURIParams b offs l flags).1 (parseAllURIParams b offs l flags).2.2.2 :=
  uriParamsLoop_shiftEntry b _ hfit offs l 0 ho hE hm

/-- [EXPORT C11] what a caller reads from the moved list: counts, type mask, panic flag, capacity are identical -/
theorem shPl_scalars (k : Nat) (l : URIParamsLst) :
    (shPl k l).n = l.n ∧ (shPl k l).types = l.types ∧ (shPl k l).pnc = l.pnc ∧
    (shPl k l).params.size = l.params.size ∧ (shPl k l).pNo = l.pNo ∧ (shPl k l).more = l.more ∧
    (shPl k l).isEmpty = l.isEmpty := by
  refine ⟨rfl, rfl, rfl, Array.size_map .., ?_, ?_, rfl⟩
  · unfold URIParamsLst.pNo shPl; simp only [Array.size_map]
  · unfold URIParamsLst.more shPl; simp only [Array.size_map]

/-- [EXPORT C11] slot `j` of the moved list is the moved slot `j` (same parameter type) -/
theorem shPl_get (k : Nat) (l : URIParamsLst) (j : Nat) :
    (shPl k l).params[j]? = (l.params[j]?).map (shUp k) := by
  show (l.params.map (shUp k))[j]? = _
  rw [Array.getElem?_map]

/-- [EXPORT C11] what the translation does to a stored element: the parameter type is unchanged; in every state in which the
    parser has set them (`spTpLive`: all but the initial and the error state) `all` and `name` are moved by `k`; the
    value is moved unless absent (`Offs = 0`); state and panic flag are unchanged -/
theorem shUp_meaning (k : Nat) (u : URIParam) (hl : spTpLive u.param.state = true) :
    (shUp k u).t = u.t ∧ (shUp k u).param.all = ⟨u.param.all.offs + k, u.param.all.len⟩ ∧
    (shUp k u).param.name = ⟨u.param.name.offs + k, u.param.name.len⟩ ∧
    (shUp k u).param.val = (if u.param.val.offs = 0 then u.param.val else ⟨u.param.val.offs + k, u.param.val.len⟩) ∧
    (shUp k u).param.state = u.param.state ∧ (shUp k u).param.pnc = u.param.pnc := by
  refine ⟨rfl, ?_, ?_, rfl, rfl, rfl⟩
  · show (if spTpLive u.param.state then shF k u.param.all else shO k u.param.all) = _
    rw [if_pos hl]; rfl
  · show (if spTpLive u.param.state then shF k u.param.name else shO k u.param.name) = _
    rw [if_pos hl]; rfl


/-! ### the URI header list -/

/-- [EXPORT C11] **the URI-header list moved by `k`**: every slot and the scratch element moved with `shTp k`; count unchanged -/
def shHl (k : Nat) (l : URIHdrsLst) : URIHdrsLst :=
  { l with hdrs := l.hdrs.map (shTp k), tmp := shTp k l.tmp }

theorem shHl_new (k m : Nat) :
    shHl k ({ hdrs := Array.replicate m {} } : URIHdrsLst) = { hdrs := Array.replicate m {} } := by
  unfold shHl
  simp only [Array.map_replicate, shTp_new]

theorem shHl_cur (k : Nat) (l : URIHdrsLst) : (shHl k l).cur = shTp k l.cur := by
  unfold URIHdrsLst.cur shHl
  simp only [Array.size_map]
  split
  · rename_i h; simp [h]
  · rfl

theorem shHl_setCur (k : Nat) (l : URIHdrsLst) (u : PTokParam) :
    (shHl k l).setCur (shTp k u) = shHl k (l.setCur u) := by
  unfold URIHdrsLst.setCur shHl
  simp only [Array.size_map]
  split
  · simp only [Array.set!_eq_setIfInBounds, Array.map_setIfInBounds]
  · rfl

theorem shHl_next (k : Nat) (l : URIHdrsLst) (tp : PTokParam) :
    (shHl k l).next (shTp k tp) = shHl k (l.next tp) := by
  have h := shHl_setCur k l tp
  unfold URIHdrsLst.next
  rw [h]
  have hs : (shHl k l).hdrs.size = l.hdrs.size := by unfold shHl; simp only [Array.size_map]
  have hn : (shHl k l).n = l.n := rfl
  rw [hs, hn]
  split <;> rfl

def shHlRes (k : Nat) (r : Nat × Nat × Err × URIHdrsLst) : Nat × Nat × Err × URIHdrsLst :=
  (k + r.1, r.2.1, r.2.2.1, shHl k r.2.2.2)

/-- legitimate argument of ParseAllURIHdrs at offset `o` for the shift theorem -/
structure SpHlEntry (o : Nat) (l : URIHdrsLst) : Prop where
  inb : SrHlIn o l
  clean : hlClean l
  pos : SpTpPos o l.cur
  ne : l.cur.state ≠ .err

/-- [EXPORT C11] the loop of ParseAllURIHdrs commutes with the shift -/
theorem uriHdrsLoop_shift (pre t : Buf) (flags : Nat) (hfit : pre.size + t.size ≤ 65535) (offs : Nat)
    (l : URIHdrsLst) (vNo : Nat) (ho : offs ≤ t.size) (hE : SpHlEntry offs l) :
    uriHdrsLoop (pre ++ t) (pre.size + offs) (shHl pre.size l) flags vNo =
      shHlRes pre.size (uriHdrsLoop t offs l flags vNo) := by
  revert ho hE
  induction offs, l, vNo using uriHdrsLoop_induct t flags with
  | step offs l vNo ih =>
    intro ho hE
    have hcur : (shHl pre.size l).cur = shTp pre.size l.cur := shHl_cur _ _
    rcases hp : parseTokenParam t offs l.cur flags with ⟨next, e1, tp⟩
    have hT := parseTokenParam_safe t offs l.cur flags ho hE.inb.cur
    rw [hp] at hT
    have hlo : offs ≤ next := hT.lo
    have hhi : next ≤ t.size := hT.hi
    have htight : e1 ≠ .ok → SrTpIn next tp := fun hne => hT.tight (Or.inl hne)
    have hgood : spGoodV e1 = true →
        parseTokenParam (pre ++ t) (pre.size + offs) (shHl pre.size l).cur flags =
          (pre.size + next, e1, shTp pre.size tp) := by
      intro hg
      have hx := parseTokenParam_shift pre t offs l.cur flags hfit ho ⟨hE.inb.cur, hE.pos⟩ hE.ne
        (by rw [hp]; exact hg)
      rw [hp] at hx; rw [hcur]; exact hx
    by_cases hm : e1 = .moreBytes
    · subst hm
      rw [uriHdrsLoop_eq_more hp, uriHdrsLoop_eq_more (hgood rfl), shHl_setCur]; rfl
    by_cases hv : e1 = .moreValues
    · subst hv
      rw [uriHdrsLoop_mv hp, uriHdrsLoop_mv (hgood rfl), shHl_next]
      have hst : (shHl pre.size l).cur.state = l.cur.state := by rw [hcur]; rfl
      have hst2 : (shHl pre.size (l.next tp)).cur.state = (l.next tp).cur.state := by rw [shHl_cur]; rfl
      rw [hst, hst2, Array.size_append]
      by_cases hg : next ≤ t.size ∧ (offs < next ∨ (offs = next ∧ l.cur.state = .fNxt ∧
          (l.next tp).cur.state ≠ .fNxt))
      · rw [if_pos hg, if_pos ⟨by omega, hg.2.elim (fun h => Or.inl (by omega)) (fun h => Or.inr ⟨by omega, h.2⟩)⟩]
        have hn := (hE.inb.mono hlo).next tp (htight (fun hh => nomatch hh))
        have hc := hlClean_next tp hE.clean
        exact ih next tp hp hg hhi ⟨hn, hc.1, by rw [hc.2]; exact SpTpPos.new _, by rw [hc.2]; decide⟩
      · rw [if_neg hg, if_neg (fun h => hg ⟨by omega, h.2.elim (fun h => Or.inl (by omega))
          (fun h => Or.inr ⟨by omega, h.2⟩)⟩)]
        rfl
    by_cases hk : e1 = .ok
    · subst hk
      rw [uriHdrsLoop_eq_last hp (Or.inl rfl), uriHdrsLoop_eq_last (hgood rfl) (Or.inl rfl), shHl_next]; rfl
    by_cases he : e1 = .eoh
    · subst he
      rw [uriHdrsLoop_eq_last hp (Or.inr rfl), uriHdrsLoop_eq_last (hgood rfl) (Or.inr rfl), shHl_next]; rfl
    · have hany := parseTokenParam_shift_any pre t offs l.cur flags hfit ho ⟨hE.inb.cur, hE.pos⟩
      rw [hp, ← hcur] at hany
      rcases hp' : parseTokenParam (pre ++ t) (pre.size + offs) (shHl pre.size l).cur flags with ⟨a, b, c⟩
      rw [hp'] at hany
      obtain ⟨h1, h2, -⟩ := hany
      simp only at h1 h2
      subst h1 h2
      rw [uriHdrsLoop_err hp hk hv he hm, uriHdrsLoop_err hp' hk hv he hm]
      have := shHl_setCur pre.size l {}
      rw [shTp_new] at this
      rw [this]; rfl

/-- [EXPORT C11] **ParseAllURIHdrs is position independent** (every flag combination, any capacity, every legitimate list) -/
theorem parseAllURIHdrs_shift (pre t : Buf) (offs : Nat) (l : URIHdrsLst) (flags : Nat)
    (hfit : pre.size + t.size ≤ 65535) (ho : offs ≤ t.size) (hE : SpHlEntry offs l) :
    parseAllURIHdrs (pre ++ t) (pre.size + offs) (shHl pre.size l) flags =
      shHlRes pre.size (parseAllURIHdrs t offs l flags) :=
  uriHdrsLoop_shift pre t _ hfit offs l 0 ho hE

theorem spHl_cur_new (m : Nat) : ({ hdrs := Array.replicate m {} } : URIHdrsLst).cur = {} := by
  unfold URIHdrsLst.cur
  split
  · rename_i h; simp only [Array.size_replicate] at h; simp [h]
  · rfl

theorem SpHlEntry.new (o m : Nat) : SpHlEntry o ({ hdrs := Array.replicate m {} } : URIHdrsLst) :=
  ⟨srHlIn_new o m, hlClean_new m, by rw [spHl_cur_new]; exact SpTpPos.new o, by rw [spHl_cur_new]; decide⟩

/-- [EXPORT C11] … from a new list of any capacity -/
theorem parseAllURIHdrs_shift_new (pre t : Buf) (offs m : Nat) (flags : Nat)
    (hfit : pre.size + t.size ≤ 65535) (ho : offs ≤ t.size) :
    parseAllURIHdrs (pre ++ t) (pre.size + offs) { hdrs := Array.replicate m {} } flags =
      shHlRes pre.size (parseAllURIHdrs t offs { hdrs := Array.replicate m {} } flags) := by
  have := parseAllURIHdrs_shift pre t offs _ flags hfit ho (SpHlEntry.new offs m)
  rw [shHl_new] at this; exact this

theorem spHl_reset_get {l : URIHdrsLst} (h : hlClean l) (j : Nat) (hj : j < l.hdrs.size) :
    l.reset.hdrs[j]! = {} := by
  show (clearUpToP l.hdrs {} l.n)[j]! = {}
  rw [clearUpToP_get _ _ _ _ hj]
  split
  · rfl
  · exact h.1 j (by omega) hj

theorem SpHlEntry.reset (o : Nat) {l : URIHdrsLst} (h : hlClean l) : SpHlEntry o l.reset := by
  have hr := hlClean_reset h
  exact ⟨srHlIn_reset_clean o h, hr.1, by rw [hr.2.2]; exact SpTpPos.new o, by rw [hr.2.2]; decide⟩

theorem shHl_reset (k : Nat) {l : URIHdrsLst} (h : hlClean l) : shHl k l.reset = l.reset := by
  have hsz : l.reset.hdrs.size = l.hdrs.size := clearUpToP_size _ _ _
  have hp : l.reset.hdrs.map (shTp k) = l.reset.hdrs := by
    apply Array.ext
    · simp only [Array.size_map]
    · intro j h1 h2
      rw [Array.getElem_map]
      have hj : j < l.hdrs.size := by rw [← hsz]; exact h2
      have := spHl_reset_get h j hj
      rw [getElem!_pos l.reset.hdrs j h2] at this
      rw [this]; rfl
  show ({ l.reset with hdrs := l.reset.hdrs.map (shTp k), tmp := shTp k l.reset.tmp } : URIHdrsLst) = l.reset
  rw [hp]; rfl

/-- [EXPORT C11] … from a reset list -/
theorem parseAllURIHdrs_shift_reset (pre t : Buf) (offs : Nat) (l : URIHdrsLst) (flags : Nat)
    (hfit : pre.size + t.size ≤ 65535) (ho : offs ≤ t.size) (hc : hlClean l) :
    parseAllURIHdrs (pre ++ t) (pre.size + offs) l.reset flags =
      shHlRes pre.size (parseAllURIHdrs t offs l.reset flags) := by
  have := parseAllURIHdrs_shift pre t offs _ flags hfit ho (SpHlEntry.reset offs hc)
  rw [shHl_reset _ hc] at this; exact this

/-- [EXPORT C11] after MoreBytes the returned list is a legitimate argument at the returned offset -/
theorem uriHdrsLoop_shiftEntry (b : Buf) (flags : Nat) (hfit : b.size ≤ 65535) (offs : Nat) (l : URIHdrsLst)
    (vNo : Nat) (ho : offs ≤ b.size) (hE : SpHlEntry offs l)
    (hm : (uriHdrsLoop b offs l flags vNo).2.2.1 = .moreBytes) :
    SpHlEntry (uriHdrsLoop b offs l flags vNo).1 (uriHdrsLoop b offs l flags vNo).2.2.2 := by
  revert ho hE hm
  induction offs, l, vNo using uriHdrsLoop_induct b flags with
  | step offs l vNo ih =>
    intro ho hE hm
    have hsafe := uriHdrsLoop_safe b flags offs l vNo ho hE.inb
    rcases hp : parseTokenParam b offs l.cur flags with ⟨next, e1, tp⟩
    have hT := parseTokenParam_safe b offs l.cur flags ho hE.inb.cur
    rw [hp] at hT
    by_cases hmb : e1 = .moreBytes
    · subst hmb
      have hent := parseTokenParam_shiftEntry b offs l.cur flags hfit ho ⟨hE.inb.cur, hE.pos⟩ (by rw [hp])
      have hgs := parseTokenParam_good_state b offs l.cur flags hE.ne (by rw [hp]; rfl)
      rw [hp] at hent hgs
      have hin := hsafe.tight (by rw [hm]; decide)
      rw [uriHdrsLoop_eq_more hp] at hin ⊢
      exact ⟨hin, hlClean_setCur _ hE.clean, by rw [hSetCur_cur]; exact hent.2, by rw [hSetCur_cur]; exact hgs⟩
    by_cases hv : e1 = .moreValues
    · subst hv
      rw [uriHdrsLoop_mv hp] at hm ⊢
      split
      · rename_i hg
        rw [if_pos hg] at hm
        have hn := (hE.inb.mono hT.lo).next tp (hT.tight (Or.inl (fun hh => nomatch hh)))
        have hc := hlClean_next tp hE.clean
        exact ih next tp hp hg hT.hi ⟨hn, hc.1, by rw [hc.2]; exact SpTpPos.new _, by rw [hc.2]; decide⟩ hm
      · rename_i hg; rw [if_neg hg] at hm; cases hm
    by_cases hk : e1 = .ok
    · subst hk; rw [uriHdrsLoop_eq_last hp (Or.inl rfl)] at hm; cases hm
    by_cases he : e1 = .eoh
    · subst he; rw [uriHdrsLoop_eq_last hp (Or.inr rfl)] at hm; cases hm
    · rw [uriHdrsLoop_err hp hk hv he hmb] at hm; exact absurd hm hmb

/-- [EXPORT C11] after MoreBytes the list returned by ParseAllURIHdrs is a legitimate argument at the returned offset -/
theorem parseAllURIHdrs_shiftEntry (b : Buf) (offs : Nat) (l : URIHdrsLst) (flags : Nat) (hfit : b.size ≤ 65535)
    (ho : offs ≤ b.size) (hE : SpHlEntry offs l) (hm : (parseAllURIHdrs b offs l flags).2.2.1 = .moreBytes) :
    SpHlEntry (parseAllURIHdrs b offs l flags).1 (parseAllURIHdrs b offs l flags).2.2.2 :=
  uriHdrsLoop_shiftEntry b _ hfit offs l 0 ho hE hm

/-- [EXPORT C11] counts and capacity of the moved header list are identical -/
theorem shHl_scalars (k : Nat) (l : URIHdrsLst) :
    (shHl k l).n = l.n ∧ (shHl k l).hdrs.size = l.hdrs.size ∧ (shHl k l).hNo = l.hNo ∧
    (shHl k l).more = l.more ∧ (shHl k l).isEmpty = l.isEmpty := by
  refine ⟨rfl, Array.size_map .., ?_, ?_, rfl⟩
  · unfold URIHdrsLst.hNo shHl; simp only [Array.size_map]
  · unfold URIHdrsLst.more shHl; simp only [Array.size_map]

/-- [EXPORT C11] slot `j` of the moved header list is the moved slot `j` -/
theorem shHl_get (k : Nat) (l : URIHdrsLst) (j : Nat) :
    (shHl k l).hdrs[j]? = (l.hdrs[j]?).map (shTp k) := by
  show (l.hdrs.map (shTp k))[j]? = _
  rw [Array.getElem?_map]

/-! ## EXPORT C17 — the decomposition of a parameter list holds for every chunk schedule -/

theorem spGrowing_mem {b : Buf} {rest : List Buf} (hg : Growing (b :: rest)) : ∀ x ∈ rest, ∃ s, x = b ++ s := by
  induction rest generalizing b with
  | nil => intro x hx; cases hx
  | cons b' r ih =>
    intro x hx
    obtain ⟨⟨s1, hs1⟩, hg'⟩ := hg
    rcases List.mem_cons.mp hx with rfl | hx
    · exact ⟨s1, hs1⟩
    · obtain ⟨s2, hs2⟩ := ih hg' x hx
      exact ⟨s1 ++ s2, by rw [hs2, hs1, Array.append_assoc]⟩

theorem spGrowing_tail {b : Buf} {rest : List Buf} (hg : Growing (b :: rest)) : Growing rest := by
  cases rest with
  | nil => trivial
  | cons b' r => exact hg.2

/-- fresh one-shot calls on growing prefixes, for a parser whose definitive results do not change when bytes are
    appended: the result is that of ONE call on the last buffer -/
theorem spOneShotRun_stable {σ : Type} (P : Parser σ) (o : Nat) (st : σ) (l : List Buf) (hne : l ≠ [])
    (hg : Growing l)
    (hst : ∀ b ∈ l, ∀ s, (P b o st).2.1 ≠ .moreBytes → P (b ++ s) o st = P b o st) :
    oneShotRun P o st l = P (l.getLast hne) o st := by
  induction l with
  | nil => exact absurd rfl hne
  | cons b rest ih =>
    cases rest with
    | nil => rfl
    | cons b' rest' =>
      have hlast : (b :: b' :: rest').getLast hne = (b' :: rest').getLast (by simp) := List.getLast_cons (by simp)
      have htail := ih (by simp) (spGrowing_tail hg) (fun x hx => hst x (List.mem_cons_of_mem _ hx))
      by_cases hb : (P b o st).2.1 = .moreBytes
      · rcases hp : P b o st with ⟨o1, e1, s1⟩
        rw [hp] at hb
        simp only at hb
        subst hb
        simp only [oneShotRun, hp]
        rw [hlast]; exact htail
      · obtain ⟨s, hs⟩ := spGrowing_mem hg _ (List.getLast_mem (l := b' :: rest') (by simp))
        rw [hlast, hs, hst b List.mem_cons_self s hb]
        rcases hp : P b o st with ⟨o1, e1, s1⟩
        rw [hp] at hb
        simp only [oneShotRun, hp]
        cases e1 <;> first | rfl | exact absurd rfl hb


theorem URIParamsLst.Fresh.sp_plOK {l : URIParamsLst} (h : l.Fresh) (b : Buf) : plOK b l := by
  refine ⟨by rw [h.cur]; exact tpOK_new b, fun k h1 h2 => ?_, fun _ => h.2⟩
  have : l.params[k]? = some l.params[k] := Array.getElem?_eq_getElem h2
  rw [getElem!_def, this]
  exact h.1 k _ (by omega) this

theorem URIHdrsLst.Fresh.sp_hlClean {l : URIHdrsLst} (h : l.Fresh) : hlClean l := by
  refine ⟨fun k h1 h2 => ?_, fun _ => h.2⟩
  have : l.hdrs[k]? = some l.hdrs[k] := Array.getElem?_eq_getElem h2
  rw [getElem!_def, this]
  exact h.1 k _ (by omega) this

theorem spGrowing_head_le {bs : List Buf} (hg : Growing bs) {o : Nat} (ho : ∀ b ∈ bs.head?, o ≤ b.size) :
    ∀ b ∈ bs, o ≤ b.size := by
  cases bs with
  | nil => intro b hb; cases hb
  | cons b0 rest =>
    intro b hb
    have h0 : o ≤ b0.size := ho b0 (by simp)
    rcases List.mem_cons.mp hb with rfl | hb
    · exact h0
    · obtain ⟨s, hs⟩ := spGrowing_mem hg b hb
      rw [hs, Array.size_append]; omega

/-- [EXPORT C17] **C17 for every chunk schedule, ParseTokenParam**: whatever result ONE call on the complete buffer
    `B` (the last of the growing prefixes) gives — in particular the decompositions of C17 (`param_token_value`,
    `param_no_value`, `param_quoted_value`, …, the rejections) — is what the chain of resumed calls returns, however
    the input was cut into pieces -/
theorem tokparam_any_schedule (flags : Nat) (hf : hasFlag flags POptInputEndF = false) (o : Nat) (p : PTokParam)
    (bs : List Buf) (hne : bs ≠ []) (hg : Growing bs) {o' : Nat} {e : Err} {p' : PTokParam}
    (hr : parseTokenParam (bs.getLast hne) o p flags = (o', e, p')) :
    resumeRun (fun b o p => parseTokenParam b o p flags) o p bs = (o', e, p') := by
  rw [parseTokenParam_schedule flags hf o p bs hg,
    spOneShotRun_stable (fun b o p => parseTokenParam b o p flags) o p bs hne hg
      (fun b _ s hb => by
        rcases hp : parseTokenParam b o p flags with ⟨o1, e1, p1⟩
        simp only [hp] at hb ⊢
        exact parseTokenParam_stable b s o p flags hf hp hb)]
  exact hr

/-- [EXPORT C17] … for a parameter of the grammar (`GParam`: no value / token / quoted / empty value, any white space and empty
    items, any ending), from a new object -/
theorem gparam_any_schedule (flags : Nat) (hf : hasFlag flags POptInputEndF = false) (o o' : Nat) (e : Err)
    (tp : PTokParam) (bs : List Buf) (hne : bs ≠ []) (hg : Growing bs) (hfit : (bs.getLast hne).size ≤ 65535)
    (H : GParam (bs.getLast hne) flags o o' e tp) :
    resumeRun (fun b o p => parseTokenParam b o p flags) o {} bs = (o', e, tp) :=
  tokparam_any_schedule flags hf o {} bs hne hg (H.parse hfit)

/-- [EXPORT C17] **C17 for every chunk schedule, ParseAllURIParams**: the complete buffer `B` (last of the growing prefixes)
    holds a parameter list of the grammar; the chain of resumed calls on ANY schedule of prefixes returns the offset
    and verdict of the list end, the values counted over all calls add up to the number of parameters, parameter `i`
    is stored with the type of its name in slot `n + i`, the type flags are accumulated -/
theorem uri_param_list_any_schedule (flags o o' : Nat) (e : Err) (tps : List PTokParam) (bs : List Buf)
    (hne : bs ≠ []) (hg : Growing bs) (hf : hasFlag flags POptInputEndF = false)
    (hfit : (bs.getLast hne).size ≤ 65535) (ho : ∀ b ∈ bs.head?, o ≤ b.size)
    (H : GList (bs.getLast hne) (flags ||| POptParamSemiSepF) o tps o' e) (l : URIParamsLst) (hl : l.Fresh) :
    ∃ r, resumeRun (uriParamsParser flags) o (0, l) bs = (o', e, (tps.length, r)) ∧
      r.n = l.n + tps.length ∧
      r.types = tps.foldl (fun a tp => a ||| uriParamResolve (nameOf (bs.getLast hne) tp)) l.types ∧
      r.params.size = l.params.size ∧ r.pnc = l.pnc ∧
      (∀ i tp, tps[i]? = some tp → l.n + i < l.params.size →
        r.params[l.n + i]? = some { param := tp, t := uriParamResolve (nameOf (bs.getLast hne) tp) }) ∧
      (∀ j, j < l.n → r.params[j]? = l.params[j]?) := by
  have hall := spGrowing_head_le hg ho
  have hone : parseAllURIParams (bs.getLast hne) o l flags =
      (o', tps.length, e, (tps.map (typed (bs.getLast hne))).foldl URIParamsLst.push l) := by
    unfold parseAllURIParams
    rw [uriParamsLoop_seq (H.paramSeq hfit) l 0 hl, Nat.zero_add, List.length_map]
  refine ⟨(tps.map (typed (bs.getLast hne))).foldl URIParamsLst.push l, ?_, ?_, ?_, foldl_push_size _ l,
    foldl_push_pnc _ l, ?_, fun j hj => foldl_push_get_lt _ l j hj⟩
  · rw [parseAllURIParams_schedule flags hf o l bs hg (fun b hb => ⟨hl.sp_plOK b, ho b hb⟩),
      spOneShotRun_stable (uriParamsParser flags) o (0, l) bs hne hg
        (fun b hb s hv => by
          rcases hp : parseAllURIParams b o l flags with ⟨o1, n1, e1, l1⟩
          have hv' : e1 ≠ .moreBytes := by
            unfold uriParamsParser at hv; simp only [hp] at hv; exact hv
          have := parseAllURIParams_stable b s o l flags hf (hl.sp_plOK b) (hall b hb) hp hv'
          unfold uriParamsParser
          simp only [hp, this])]
    unfold uriParamsParser
    simp only [hone, Nat.zero_add]
  · rw [foldl_push_n, List.length_map]
  · rw [foldl_push_types, List.foldl_map]; rfl
  · intro i tp hi hc
    exact foldl_push_get _ l i _ (by rw [List.getElem?_map, hi]; rfl) hc

/-- [EXPORT C17] **C17 for every chunk schedule, ParseAllURIHdrs** (separator '&') -/
theorem uri_hdr_list_any_schedule (flags o o' : Nat) (e : Err) (tps : List PTokParam) (bs : List Buf)
    (hne : bs ≠ []) (hg : Growing bs) (hf : hasFlag flags POptInputEndF = false)
    (hfit : (bs.getLast hne).size ≤ 65535) (ho : ∀ b ∈ bs.head?, o ≤ b.size)
    (H : GList (bs.getLast hne) (flags ||| POptParamAmpSepF ||| POptTokURIHdrF) o tps o' e) (l : URIHdrsLst)
    (hl : l.Fresh) :
    ∃ r, resumeRun (uriHdrsParser flags) o (0, l) bs = (o', e, (tps.length, r)) ∧
      r.n = l.n + tps.length ∧ r.hdrs.size = l.hdrs.size ∧
      (∀ i tp, tps[i]? = some tp → l.n + i < l.hdrs.size → r.hdrs[l.n + i]? = some tp) ∧
      (∀ j, j < l.n → r.hdrs[j]? = l.hdrs[j]?) := by
  have hall := spGrowing_head_le hg ho
  have hone : parseAllURIHdrs (bs.getLast hne) o l flags = (o', tps.length, e, tps.foldl URIHdrsLst.push l) := by
    unfold parseAllURIHdrs
    rw [uriHdrsLoop_seq (H.hdrSeq hfit) l 0 hl, Nat.zero_add]
  refine ⟨tps.foldl URIHdrsLst.push l, ?_, foldl_hpush_n _ l, foldl_hpush_size _ l,
    fun i x hi hc => foldl_hpush_get _ l i x hi hc, fun j hj => foldl_hpush_get_lt _ l j hj⟩
  rw [parseAllURIHdrs_schedule flags hf o l bs hg (fun b hb => ⟨hl.sp_hlClean, ho b hb⟩),
    spOneShotRun_stable (uriHdrsParser flags) o (0, l) bs hne hg
      (fun b hb s hv => by
        rcases hp : parseAllURIHdrs b o l flags with ⟨o1, n1, e1, l1⟩
        have hv' : e1 ≠ .moreBytes := by
          unfold uriHdrsParser at hv; simp only [hp] at hv; exact hv
        have := parseAllURIHdrs_stable b s o l flags hf hl.sp_hlClean (hall b hb) hp hv'
        unfold uriHdrsParser
        simp only [hp, this])]
  unfold uriHdrsParser
  simp only [hone, Nat.zero_add]

/-! ### tests / non-vacuity (closed computations, `decide +kernel`) -/

/-- test: an instance of `parseTokenParam_shift_new` by evaluation (junk `xyz`, text `a=b;c`) -/
example : parseTokenParam (#[120, 121, 122] ++ "a=b;c".toUTF8.data) 3 {} 0 =
    shRes 3 (shTp 3) (parseTokenParam "a=b;c".toUTF8.data 0 {} 0) := by decide +kernel
/-- non-vacuity: the hypotheses of `parseTokenParam_shift_new` hold for it -/
example : spGoodV (parseTokenParam "a=b;c".toUTF8.data 0 {} 0).2.1 = true := by decide +kernel
/-- test: quoted value, white space, the space terminator, end-of-input option (flags 4 + 8) -/
example : parseTokenParam (#[120, 121] ++ "a = \"q\" c".toUTF8.data) 2 {} 12 =
    shRes 2 (shTp 2) (parseTokenParam "a = \"q\" c".toUTF8.data 0 {} 12) := by decide +kernel
/-- non-vacuity of `parseTokenParam_shiftEntry` / a suspended object: `a=b ` with the space terminator is suspended
    in state "value" at offset 3; the returned object is a legitimate argument there -/
example : SpTpEntry 3 (parseTokenParam "a=b ".toUTF8.data 0 {} POptTokSpTermF).2.2 := by
  have h := parseTokenParam_shiftEntry "a=b ".toUTF8.data 0 {} POptTokSpTermF (by decide) (by decide)
    (SpTpEntry.new 0) (by decide +kernel)
  have e : (parseTokenParam "a=b ".toUTF8.data 0 {} POptTokSpTermF).1 = 3 := by decide +kernel
  rw [e] at h; exact h
/-- test: the resumed call behind junk, from the translated suspended object -/
example : parseTokenParam (#[120, 121, 122] ++ "a=b c".toUTF8.data) (3 + 3)
      (shTp 3 (parseTokenParam "a=b ".toUTF8.data 0 {} POptTokSpTermF).2.2) POptTokSpTermF =
    shRes 3 (shTp 3) (parseTokenParam "a=b c".toUTF8.data 3 (parseTokenParam "a=b ".toUTF8.data 0 {} POptTokSpTermF).2.2
      POptTokSpTermF) := by decide +kernel
/-- test: WHY the error state is compared up to `spTpNz`.  `a\x01` and `\x01` return the same object at offset 0 … -/
example : (parseTokenParam #[97, 1] 0 {} 0).2.2 = (parseTokenParam #[1] 0 {} 0).2.2 := by decide +kernel
/-- … but different ones behind `xyz` (name started at 3 and not extended / name never started) -/
example : (parseTokenParam #[120, 121, 122, 97, 1] 3 {} 0).2.2.name = ⟨3, 0⟩ ∧
    (parseTokenParam #[120, 121, 122, 1] 3 {} 0).2.2.name = ⟨0, 0⟩ := by decide +kernel
/-- test: ParseAllURIParams behind junk, capacity 1, suspended in the third parameter (counts, verdict, the stored
    slot, the element in progress) -/
example :
    (parseAllURIParams (#[120, 121] ++ "lr;transport=udp;x=1".toUTF8.data) 2 { params := Array.replicate 1 {} } 0).1 = 2 + 20 ∧
    (parseAllURIParams (#[120, 121] ++ "lr;transport=udp;x=1".toUTF8.data) 2 { params := Array.replicate 1 {} } 0).2.1 = 2 ∧
    (parseAllURIParams (#[120, 121] ++ "lr;transport=udp;x=1".toUTF8.data) 2 { params := Array.replicate 1 {} } 0).2.2.1 =
      .moreBytes ∧
    (parseAllURIParams (#[120, 121] ++ "lr;transport=udp;x=1".toUTF8.data) 2 { params := Array.replicate 1 {} } 0).2.2.2.params =
      (shPl 2 (parseAllURIParams "lr;transport=udp;x=1".toUTF8.data 0 { params := Array.replicate 1 {} } 0).2.2.2).params ∧
    (parseAllURIParams (#[120, 121] ++ "lr;transport=udp;x=1".toUTF8.data) 2 { params := Array.replicate 1 {} } 0).2.2.2.tmp =
      (shPl 2 (parseAllURIParams "lr;transport=udp;x=1".toUTF8.data 0 { params := Array.replicate 1 {} } 0).2.2.2).tmp := by
  decide +kernel
/-- test: ParseAllURIHdrs behind junk -/
example :
    (parseAllURIHdrs (#[120] ++ "a=1&b=2&c".toUTF8.data) 1 { hdrs := Array.replicate 2 {} } 0).2.2.2.hdrs =
      (shHl 1 (parseAllURIHdrs "a=1&b=2&c".toUTF8.data 0 { hdrs := Array.replicate 2 {} } 0).2.2.2).hdrs := by
  decide +kernel

/-- non-vacuity of `uri_param_list_any_schedule`: `a;?x` in URI-parameter mode (flags 64; the wrapper adds ';': 80),
    delivered as `a`, `a;`, `a;?x`: one parameter, verdict OK at the terminator (offset 2), counted once -/
example : ∃ r, resumeRun (uriParamsParser 64) 0 (0, { params := Array.replicate 4 {} })
    ["a".toUTF8.data, "a;".toUTF8.data, "a;?x".toUTF8.data] = (2, .ok, (1, r)) ∧ r.n = 1 := by
  have hsep : tpSep (64 ||| POptParamSemiSepF) = 59 := by decide
  have hterm : tpTerm (64 ||| POptParamSemiSepF) = 63 := by decide
  have H : GList "a;?x".toUTF8.data (64 ||| POptParamSemiSepF) 0
      [{ name := ⟨0, 1⟩, all := ⟨0, 1⟩, state := .fin }] 2 .ok := by
    refine GList.last 0 2 .ok _ ?_ (Or.inl rfl)
    refine GParam.noValue 0 0 0 1 2 .ok .fin (Pad.nil 0) (Lws.nil 0) ?_ (by decide) ?_
    · intro k h1 h2
      have : k = 0 := by omega
      subst this
      exact ⟨97, by decide, by decide, by decide, by decide⟩
    · exact Ending.sep 1 1 2 .ok .fin (Lws.nil 1) (by rw [hsep]; decide)
        (AfterSep.term 2 2 2 (Pad.nil 2) (Lws.nil 2) (by rw [hterm]; decide) (by rw [hterm]; decide))
  obtain ⟨r, h1, h2, _⟩ := uri_param_list_any_schedule 64 0 2 .ok _
    ["a".toUTF8.data, "a;".toUTF8.data, "a;?x".toUTF8.data] (by simp)
    ⟨⟨";".toUTF8.data, by decide⟩, ⟨"?x".toUTF8.data, by decide⟩, trivial⟩ (by decide) (by decide)
    (fun b hb => by simp at hb; subst hb; decide) H { params := Array.replicate 4 {} }
    (by
      refine ⟨fun i x _ hx => ?_, rfl⟩
      rw [Array.getElem?_replicate] at hx
      split at hx
      · cases hx; rfl
      · cases hx)
  exact ⟨r, h1, h2⟩

end Sipsp
