/-
  Sipsp.Proofs.ShiftParams — position independence (C11) of ParseTokenParam and of the URI parameter / header list
  wrappers (work in progress header, replaced at the end).
-/
import Sipsp.Proofs.ShiftNA
import Sipsp.Proofs.SafeRest

namespace Sipsp

/-! ### SkipQuoted -/

theorem spSqStep_shift (pre t : Buf) (i : Nat) (c : UInt8) :
    sqStep (pre ++ t) (pre.size + i) c () = shStep pre.size id (sqStep t i c ()) := by
  unfold sqStep
  rw [get?_shift1]
  by_cases h1 : (c == 34) = true
  · simp only [h1, ↓reduceIte, shStep]; rfl
  · simp only [h1, Bool.false_eq_true, ↓reduceIte]
    by_cases h2 : (c == 92) = true
    · simp only [h2, ↓reduceIte]
      cases t[i + 1]? with
      | none => rfl
      | some c1 =>
        simp only
        split
        · rfl
        · simp only [shStep, id]; rw [Nat.add_assoc]
    · simp only [h2, Bool.false_eq_true, ↓reduceIte]
      split
      · rfl
      · split
        · rfl
        · simp only [shStep, id]; rw [Nat.add_assoc]

/-- **SkipQuoted is position independent** -/
theorem skipQuoted_shift (pre t : Buf) (i : Nat) :
    skipQuoted (pre ++ t) (pre.size + i) = (pre.size + (skipQuoted t i).1, (skipQuoted t i).2) := by
  unfold skipQuoted
  have := runLoop_shift sqMachine pre t id (fun _ _ => True) (fun _ _ _ _ _ _ _ _ _ => trivial)
    (fun i c st _ _ => spSqStep_shift pre t i c) (fun i st _ _ => rfl) i () trivial
  simp only [id] at this
  rw [this]
  rfl

end Sipsp
