/-
  Sipsp.Proofs.MsgL1 — L1 (no premature verdict) for ParseSIPMsg.
-/
import Sipsp.Proofs.HeadersL1

namespace Sipsp

/-! ### ParseFLine, OK: the returned offset lies in [start, len(buf)] -/

def FlRange (b : Buf) (i : Nat) (r : Nat × Err × PFLine) : Prop := r.2.1 = .ok → i ≤ r.1 ∧ r.1 ≤ b.size

theorem flCRLF_range (b : Buf) (i : Nat) (pl : PFLine) : FlRange b i (flCRLF b i pl) := by
  unfold flCRLF
  rcases hs : skipCRLF b i with ⟨n, crl, e⟩
  have := skipCRLF_range hs
  cases e <;> simp only <;> intro hq <;> first | cases hq | skip
  have h3 := this.2.2.1 rfl
  exact ⟨this.1, h3.1⟩

theorem flReqVer_range (b : Buf) (i : Nat) (pl : PFLine) : FlRange b i (flReqVer b i pl) := by
  unfold flReqVer
  have hge := skipToken_ge b i
  simp only
  split
  · intro hq; cases hq
  · split
    · intro hq; cases hq
    · split
      · intro hq; cases hq
      · intro hq
        have := flCRLF_range b (skipToken b i) _ hq
        exact ⟨by omega, this.2⟩

theorem flReqURI_range (b : Buf) (i : Nat) (pl : PFLine) : FlRange b i (flReqURI b i pl) := by
  unfold flReqURI
  have hge := skipToken_ge b i
  simp only
  split
  · intro hq; cases hq
  · split
    · intro hq; cases hq
    · split
      · intro hq; cases hq
      · intro hq
        have := flReqVer_range b (skipToken b i + 1) _ hq
        exact ⟨by omega, this.2⟩

theorem flReqMethod_range (b : Buf) (i : Nat) (pl : PFLine) : FlRange b i (flReqMethod b i pl) := by
  unfold flReqMethod
  have hge := skipToken_ge b i
  simp only
  split
  · intro hq; cases hq
  · split
    · intro hq; cases hq
    · split
      · intro hq; cases hq
      · split
        · intro hq; cases hq
        · intro hq
          have := flReqURI_range b (skipToken b i + 1) _ hq
          exact ⟨by omega, this.2⟩

theorem flRplReason_range (b : Buf) (i : Nat) (pl : PFLine) : FlRange b i (flRplReason b i pl) := by
  unfold flRplReason skipLine
  have hge := skipToEOL_ge b i
  rcases hs : skipCRLF b (skipToEOL b i) with ⟨n, crl, e⟩
  have := skipCRLF_range hs
  cases e <;> simp only <;> intro hq <;> first | cases hq | skip
  have h3 := this.2.2.1 rfl
  exact ⟨by omega, h3.1⟩

theorem flReply_range (b : Buf) (i0 l : Nat) (pl : PFLine) : FlRange b i0 (flReply b i0 l pl) := by
  unfold flReply
  simp only
  split
  · split
    · intro hq; cases hq
    · intro hq
      have := flRplReason_range b (i0 + l + 4) _ hq
      exact ⟨by omega, this.2⟩
  · intro hq; cases hq

/-- **ParseFLine, OK** -/
theorem parseFLine_range (b : Buf) (o : Nat) (pl : PFLine) (ho : o ≤ b.size) : FlRange b o (parseFLine b o pl) := by
  unfold parseFLine
  cases pl.state <;> simp only
  case init =>
    split
    · intro hq; cases hq
    · split
      · exact flReply_range b o _ pl
      · exact flReqMethod_range b o _
  case reqMethod => exact flReqMethod_range b o pl
  case reqURI => exact flReqURI_range b o pl
  case reqVer => exact flReqVer_range b o pl
  case crlf => exact flCRLF_range b o pl
  case rplReason => exact flRplReason_range b o pl
  all_goals (intro _; exact ⟨Nat.le_refl _, ho⟩)

/-! ### the message parser -/

/-- what a caller may legitimately pass to ParseSIPMsg with buffer `b` and offset `o`: a message object that is
    new (after Init/Reset) or was returned by an earlier call on a prefix of `b` together with `o` -/
def msgOK (b : Buf) (o : Nat) (m : PSIPMsg) : Prop :=
  o ≤ b.size ∧ flOK m.fl ∧ hlsOK b m.hl ∧ hvOK b o m.pv

theorem setBufs_app (m : PSIPMsg) (b s : Buf) (o : Nat) (ho : o ≤ b.size) : m.setBufs (b ++ s) o = m.setBufs b o := by
  unfold PSIPMsg.setBufs
  have h1 : decide (o > (b ++ s).size) = false := by rw [Array.size_append]; simp; omega
  have h2 : decide (o > b.size) = false := by simp; omega
  rw [h1, h2]

theorem msgEnd_app (m : PSIPMsg) (b s : Buf) (o : Nat) (ho : o ≤ b.size) : msgEnd m (b ++ s) o = msgEnd m b o := by
  unfold msgEnd
  simp only [setBufs_app _ b s o ho]

/-- the body of the result extends to the end of the buffer by definition: no Content-Length, and neither
    "skip body" nor "Content-Length required" was requested (the exemption stated in the property) -/
def bodyToEnd (flags : Nat) (m : PSIPMsg) : Prop :=
  hasFlag flags SIPMsgSkipBodyF = false ∧ m.pv.clen.parsed = false ∧ hasFlag flags SIPMsgCLenReqF = false

theorem msgBody_stable (b s : Buf) (o : Nat) (m : PSIPMsg) (flags : Nat) (ho : o ≤ b.size)
    (hnf : hasFlag flags SIPMsgNoMoreDataF = false) (hx : ¬ bodyToEnd flags m)
    (he : (msgBody b o m flags).2.1 ≠ .moreBytes) : msgBody (b ++ s) o m flags = msgBody b o m flags := by
  unfold msgBody at he ⊢
  simp only at he ⊢
  by_cases h1 : hasFlag flags SIPMsgSkipBodyF = true
  · simp only [h1, ↓reduceIte]
    split
    · rw [setBufs_app _ b s o ho]
    · rw [msgEnd_app _ b s o ho]
  · simp only [h1, Bool.false_eq_true, ↓reduceIte] at he ⊢
    by_cases h2 : m.pv.clen.parsed = true
    · simp only [h2, ↓reduceIte] at he ⊢
      by_cases h3 : o + m.pv.clen.uiVal > b.size
      · simp only [h3, ↓reduceIte, hnf, Bool.false_eq_true] at he
        exact absurd rfl he
      · have h3' : ¬ o + m.pv.clen.uiVal > (b ++ s).size := by rw [Array.size_append]; omega
        simp only [h3, h3', ↓reduceIte]
        rw [msgEnd_app _ b s _ (by omega)]
    · simp only [h2, Bool.false_eq_true, ↓reduceIte] at he ⊢
      by_cases h4 : hasFlag flags SIPMsgCLenReqF = true
      · simp only [h4, ↓reduceIte]
        rw [msgEnd_app _ b s o ho]
      · exfalso
        apply hx
        exact ⟨by simpa using h1, by simpa using h2, by simpa using h4⟩

theorem msgErr_stable (m : PSIPMsg) (o : Nat) (e : Err) (flags : Nat) (he : e ≠ .moreBytes) :
    msgErr m o e flags = (o, e, { m with state := .err }) := by
  unfold msgErr
  have : (e != .moreBytes) = true := by simpa using he
  rw [if_pos this]

theorem msgErr_more (m : PSIPMsg) (o : Nat) (flags : Nat) (hnf : hasFlag flags SIPMsgNoMoreDataF = false) :
    msgErr m o .moreBytes flags = (o, .moreBytes, m) := by
  unfold msgErr
  simp [hnf]

theorem msgErr_verdict (m : PSIPMsg) (o : Nat) (e : Err) (flags : Nat)
    (hnf : hasFlag flags SIPMsgNoMoreDataF = false) : (msgErr m o e flags).2.1 = e := by
  by_cases he : e = .moreBytes
  · subst he; rw [msgErr_more m o flags hnf]
  · rw [msgErr_stable m o e flags he]

theorem hvOK_getD {b : Buf} {o : Nat} {hb : Option PHdrVals} {pv : PHdrVals} (h1 : hbOK b o hb) (h2 : hvOK b o pv) :
    hvOK b o (hb.getD pv) := by
  cases hb with
  | none => exact h2
  | some hv => exact h1

/-- the values object after the header section is the one the body section looks at -/
theorem msgHeaders_stable (b s : Buf) (o : Nat) (m : PSIPMsg) (flags : Nat) (ho : o ≤ b.size)
    (hok1 : hlsOK b m.hl) (hok2 : hvOK b o m.pv)
    (hnf : hasFlag flags SIPMsgNoMoreDataF = false)
    (hx : ¬ bodyToEnd flags (msgHeaders b o m flags).2.2)
    (he : (msgHeaders b o m flags).2.1 ≠ .moreBytes) :
    msgHeaders (b ++ s) o m flags = msgHeaders b o m flags := by
  unfold msgHeaders at he hx ⊢
  rcases hp : parseHeaders b o m.hl (some m.pv) with ⟨o1, e1, hl1, hb1⟩
  rw [hp] at he hx
  by_cases hm : e1 = .moreBytes
  · subst hm
    simp only at he
    rw [msgErr_verdict _ _ _ _ hnf] at he
    exact absurd rfl he
  · rw [parseHeaders_stable b s o m.hl (some m.pv) hok1 hok2 hp hm]
    cases e1 <;> simp only at he hx ⊢
    -- OK: the body section
    have hpost := parseHeaders_post b o m.hl (some m.pv) hok1 hok2 hp
    refine msgBody_stable b s o1 _ flags hpost.1 hnf ?_ he
    intro hbe
    apply hx
    -- msgBody does not change pv
    unfold msgBody
    simp only
    obtain ⟨h1, h2, h3⟩ := hbe
    simp only [h1, Bool.false_eq_true, ↓reduceIte]
    have h2' : (hb1.getD m.pv).clen.parsed = false := h2
    simp only [h2', Bool.false_eq_true, ↓reduceIte, h3]
    exact ⟨h1, h2', h3⟩

theorem msgFLine_stable (b s : Buf) (o : Nat) (m : PSIPMsg) (flags : Nat) (hok : msgOK b o m)
    (hfit : b.size ≤ 65535) (hnf : hasFlag flags SIPMsgNoMoreDataF = false)
    (hx : ¬ bodyToEnd flags (msgFLine b o m flags).2.2)
    (he : (msgFLine b o m flags).2.1 ≠ .moreBytes) :
    msgFLine (b ++ s) o m flags = msgFLine b o m flags := by
  obtain ⟨ho, hfl, hls, hvs⟩ := hok
  unfold msgFLine at he hx ⊢
  rcases hp : parseFLine b o m.fl with ⟨o1, e1, fl1⟩
  rw [hp] at he hx
  by_cases hm : e1 = .moreBytes
  · subst hm
    simp only at he
    rw [msgErr_verdict _ _ _ _ hnf] at he
    exact absurd rfl he
  · rw [parseFLine_stable b s o m.fl hfl hfit hp hm]
    cases e1 <;> simp only at he hx ⊢
    have hrg := parseFLine_range b o m.fl ho
    rw [hp] at hrg
    have hrg' := hrg rfl
    exact msgHeaders_stable b s o1 _ flags hrg'.2 hls (hvOK_mono hvs hrg'.1 hrg'.2) hnf hx he

/-- **L1 for ParseSIPMsg**: a verdict other than MoreBytes — success or any error — with its offset and the whole
    message object is unchanged by any bytes appended later. Exemptions (as in the property): the no-more-data
    flag, and the body extent of a message without Content-Length (`bodyToEnd`). Within the documented 65,535
    byte limit. -/
theorem parseSIPMsg_stable (b s : Buf) (o : Nat) (m : PSIPMsg) (flags : Nat) (hok : msgOK b o m)
    (hfit : b.size ≤ 65535) (hnf : hasFlag flags SIPMsgNoMoreDataF = false)
    {o' : Nat} {e : Err} {m' : PSIPMsg} (hr : parseSIPMsg b o m flags = (o', e, m'))
    (he : e ≠ .moreBytes) (hx : ¬ bodyToEnd flags m') :
    parseSIPMsg (b ++ s) o m flags = (o', e, m') := by
  rw [← hr]
  have he' : (parseSIPMsg b o m flags).2.1 ≠ .moreBytes := by rw [hr]; exact he
  have hx' : ¬ bodyToEnd flags (parseSIPMsg b o m flags).2.2 := by rw [hr]; exact hx
  unfold parseSIPMsg at he' hx' ⊢
  cases hst : m.state <;> simp only [hst] at he' hx' ⊢
  case init => exact msgFLine_stable b s o _ flags hok hfit hnf hx' he'
  case fline => exact msgFLine_stable b s o m flags hok hfit hnf hx' he'
  case headers => exact msgHeaders_stable b s o m flags hok.1 hok.2.2.1 hok.2.2.2 hnf hx' he'
  case body => exact msgBody_stable b s o m flags hok.1 hnf (by
      intro hbe; apply hx'
      unfold msgBody; simp only
      obtain ⟨h1, h2, h3⟩ := hbe
      simp only [h1, Bool.false_eq_true, ↓reduceIte, h2, h3]
      exact ⟨h1, h2, h3⟩) he'

/-! ### objects a caller starts from -/

/-- a message object initialised with `Init` (any previous contents; caller-supplied arrays of any capacity whose
    elements are zero values, or none) is legitimate for every buffer and every offset inside it -/
theorem msgOK_init (b : Buf) (o : Nat) (ho : o ≤ b.size) (m : PSIPMsg) (len kh kc : Nat)
    (hdrs : Option Unit) (cts : Option Unit) :
    msgOK b o (m.init len (hdrs.map fun _ => Array.replicate kh {}) (cts.map fun _ => Array.replicate kc {})) := by
  have hH : ∀ (H : Array Hdr), (∀ k, k < H.size → H[k]! = {}) →
      hlsOK b ({ hdrs := H } : HdrLst) := by
    intro H hH
    exact ⟨fun k _ hk => by rw [hH k hk]; exact hdrOK_new b, hdrOK_new b⟩
  have hV : ∀ (V : Array PFromBody), (∀ k, k < V.size → V[k]! = {}) →
      ctOK b o ({ vals := V } : PContacts) := by
    intro V hV
    exact ⟨fun k _ hk => by rw [hV k hk]; exact naOK_new b o ho, naOK_new b o ho⟩
  have hrepH : ∀ n k, k < (Array.replicate n ({} : Hdr)).size → (Array.replicate n ({} : Hdr))[k]! = {} := by
    intro n k hk; simp at hk; simp [hk]
  have hrepV : ∀ n k, k < (Array.replicate n ({} : PFromBody)).size →
      (Array.replicate n ({} : PFromBody))[k]! = {} := by
    intro n k hk; simp at hk; simp [hk]
  refine ⟨ho, by simp [PSIPMsg.init, PSIPMsg.reset, flOK], ?_, ?_⟩
  · cases hdrs with
    | none => exact hH _ (hrepH 10)
    | some _ => exact hH _ (hrepH kh)
  · refine ⟨naOK_new b o ho, naOK_new b o ho, Or.inr ⟨ho, by simp [PSIPMsg.init, PSIPMsg.reset],
      by simp [PSIPMsg.init, PSIPMsg.reset]⟩, ?_, ?_⟩
    · cases cts with
      | none => exact hV _ (hrepV 10)
      | some _ => exact hV _ (hrepV kc)
    · refine ⟨fun k _ hk => ?_, naOK_new b o ho⟩
      have hk' : k < 2 := hk
      have : k = 0 ∨ k = 1 := by omega
      rcases this with rfl | rfl <;> exact naOK_new b o ho

/-- legitimacy does not depend on bytes appended later -/
theorem msgOK_grows {b : Buf} (s : Buf) {o : Nat} {m : PSIPMsg} (h : msgOK b o m) : msgOK (b ++ s) o m :=
  ⟨by rw [Array.size_append]; have := h.1; omega, h.2.1, hlsOK_grows s h.2.2.1, hvOK_grows s h.2.2.2⟩

end Sipsp
