/-
  Sipsp.Proofs.NameAddrPost — post-conditions of ParseNameAddrPVal: a value that is complete (OK or
  MoreValues) leaves the object in the final state, and the returned offset lies strictly after the start
  and inside the buffer (so the callers' loops over values advance and stay inside the buffer).
-/
import Sipsp.Proofs.NameAddrL1b

namespace Sipsp

theorem skipLWS_verdicts (b : Buf) (i flags : Nat) {n crl : Nat} {e : Err}
    (h : skipLWS b i flags = (n, crl, e)) :
    e = .ok ∨ e = .eoh ∨ e = .noCR ∨ e = .moreBytes := by
  fun_induction skipLWS b i flags with
  | case1 i hb => cases h; simp
  | case2 i c hb hws ih => exact ih h
  | case3 i c hb hws hcr n' crl' hs hb2 hfl => cases h; simp
  | case4 i c hb hws hcr n' crl' hs hb2 hfl => cases h; simp
  | case5 i c hb hws hcr n' crl' hs c2 hb2 hws2 ih => exact ih h
  | case6 i c hb hws hcr n' crl' hs c2 hb2 hws2 => cases h; simp
  | case7 i c hb hws hcr n' crl' e' hne hs =>
    cases h
    rcases skipCRLF_verdicts hs with h1 | h1 | h1 <;> simp [h1]
  | case8 i c hb hws hcr => cases h; simp

/-- a complete value: the verdicts after which the object holds a finished value -/
def Err.complete (e : Err) : Prop := e = .ok ∨ e = .moreValues

theorem naEOH_complete (h : Nat) (b : Buf) (pf : PFromBody) (i n crl : Nat) (r : Err)
    (hc : Err.complete (naEOH h b pf i n crl r).2.1) :
    (naEOH h b pf i n crl r).2.2.state = .fin := by
  unfold naEOH at hc ⊢
  cases hst : pf.state <;> simp only [hst] at hc ⊢
  all_goals first
    | rfl
    | (exfalso; rcases hc with hc | hc <;> cases hc)

theorem naEOH_fst (h : Nat) (b : Buf) (pf : PFromBody) (i n crl : Nat) (r : Err) :
    (naEOH h b pf i n crl r).1 = n + crl := by
  unfold naEOH
  cases pf.state <;> rfl

/-- post-condition of a finishing step -/
def NaPost (b : Buf) (i o : Nat) (e : Err) (st' : PFromBody) : Prop :=
  (Err.complete e → st'.state = .fin ∧ i < o ∧ o ≤ b.size) ∧ e ≠ .empty

theorem NaPost.of_err {b : Buf} {i o : Nat} {e : Err} {st' : PFromBody} (h1 : e ≠ .ok) (h2 : e ≠ .moreValues)
    (h3 : e ≠ .empty) : NaPost b i o e st' := by
  refine ⟨fun hc => ?_, h3⟩
  rcases hc with hc | hc
  · exact absurd hc h1
  · exact absurd hc h2

theorem naEOH_ne_empty (h : Nat) (b : Buf) (pf : PFromBody) (i n crl : Nat) (r : Err) (hr : r ≠ .empty) :
    (naEOH h b pf i n crl r).2.1 ≠ .empty := by
  unfold naEOH
  cases pf.state <;> simp only [naFinish] <;> first | exact hr | decide

theorem naMoreValues_post (h : Nat) (b : Buf) (pf : PFromBody) (i : Nat) {c : UInt8} (hb : b[i]? = some c)
    {o : Nat} {e : Err} {st' : PFromBody} (hs : naMoreValues h b pf i = .done o e st') : NaPost b i o e st' := by
  unfold naMoreValues at hs
  simp only [Step.done.injEq] at hs
  obtain ⟨rfl, rfl, rfl⟩ := hs
  refine ⟨fun hc => ?_, naEOH_ne_empty h b pf i i 1 _ (by decide)⟩
  have := get?_lt hb
  exact ⟨naEOH_complete h b pf i i 1 _ hc, by rw [naEOH_fst]; omega, by rw [naEOH_fst]; omega⟩

theorem naCommaAfterWS_post (h : Nat) (b : Buf) (pf : PFromBody) (i k : Nat) {c : UInt8} (hb : b[i]? = some c)
    {o : Nat} {e : Err} {st' : PFromBody} (hs : naCommaAfterWS h b pf i k = .done o e st') :
    NaPost b i o e st' := by
  unfold naCommaAfterWS at hs
  split at hs
  · simp only [Step.done.injEq] at hs
    obtain ⟨rfl, rfl, rfl⟩ := hs
    refine ⟨fun hc => ?_, naEOH_ne_empty h b pf k i 1 _ (by decide)⟩
    have := get?_lt hb
    exact ⟨naEOH_complete h b pf k i 1 _ hc, by rw [naEOH_fst]; omega, by rw [naEOH_fst]; omega⟩
  · cases hs; exact NaPost.of_err (by decide) (by decide) (by decide)

/-- the end-of-header exit taken from a white-space site -/
theorem naEOH_site_post (h : Nat) (b : Buf) (pf : PFromBody) (i k n crl : Nat)
    (hsk : skipLWS b i 0 = (n, crl, .eoh)) {o : Nat} {e : Err} {st' : PFromBody}
    (hr : naEOH h b pf k n crl .ok = (o, e, st')) : NaPost b i o e st' := by
  refine ⟨fun hc => ?_, by have := naEOH_ne_empty h b pf k n crl .ok (by decide); rw [hr] at this; exact this⟩
  have hrg := skipLWS_eoh_range b i 0 hsk (by decide)
  have h1 := naEOH_complete h b pf k n crl .ok (by rw [hr]; exact hc)
  have h2 := naEOH_fst h b pf k n crl .ok
  rw [hr] at h1 h2
  simp only at h1 h2
  exact ⟨h1, by omega, by omega⟩

theorem naLWS_post (h : Nat) (b : Buf) (i : Nat) (pf : PFromBody)
    {o : Nat} {e : Err} {st' : PFromBody} (hs : naLWS h b i pf = .done o e st') : NaPost b i o e st' := by
  unfold naLWS lwsStd at hs
  rcases hsk : skipLWS b i 0 with ⟨n, crl, e1⟩
  rw [hsk] at hs
  have hv := skipLWS_verdicts b i 0 hsk
  rcases hv with rfl | rfl | rfl | rfl <;> simp only at hs
  · cases hs
  · simp only [Step.done.injEq] at hs
    obtain ⟨rfl, rfl, rfl⟩ := hs
    exact naEOH_site_post h b pf i i n crl hsk rfl
  · cases hs; exact NaPost.of_err (by decide) (by decide) (by decide)
  · cases hs; exact NaPost.of_err (by decide) (by decide) (by decide)

theorem naStepA_post (h : Nat) (b : Buf) (i : Nat) (c : UInt8) (pf : PFromBody) (hb : b[i]? = some c)
    {o : Nat} {e : Err} {st' : PFromBody} (hs : naStepA h b i c pf = .done o e st') : NaPost b i o e st' := by
  unfold naStepA at hs
  repeat' (split at hs)
  all_goals first
    | exact naLWS_post h b i _ hs
    | exact naMoreValues_post h b _ i hb hs
    | (cases hs <;> exact NaPost.of_err (by decide) (by decide) (by decide))

theorem naStepQ_post (h : Nat) (b : Buf) (i : Nat) (c : UInt8) (pf : PFromBody)
    {o : Nat} {e : Err} {st' : PFromBody} (hs : naStepQ h b i c pf = .done o e st') : NaPost b i o e st' := by
  unfold naStepQ at hs
  repeat' (split at hs)
  all_goals first
    | exact naLWS_post h b i _ hs
    | (cases hs <;> exact NaPost.of_err (by decide) (by decide) (by decide))

theorem naStepU_post (b : Buf) (i : Nat) (c : UInt8) (pf : PFromBody)
    {o : Nat} {e : Err} {st' : PFromBody} (hs : naStepU i c pf = .done o e st') : NaPost b i o e st' := by
  unfold naStepU at hs
  repeat' (split at hs)
  all_goals (cases hs <;> exact NaPost.of_err (by decide) (by decide) (by decide))

theorem naStepUF_post (h : Nat) (b : Buf) (i : Nat) (c : UInt8) (pf : PFromBody) (hb : b[i]? = some c)
    {o : Nat} {e : Err} {st' : PFromBody} (hs : naStepUF h b i c pf = .done o e st') : NaPost b i o e st' := by
  unfold naStepUF at hs
  repeat' (split at hs)
  all_goals first
    | exact naLWS_post h b i _ hs
    | exact naMoreValues_post h b _ i hb hs
    | (cases hs <;> exact NaPost.of_err (by decide) (by decide) (by decide))

theorem naStepStar_post (h : Nat) (b : Buf) (i : Nat) (c : UInt8) (pf : PFromBody)
    {o : Nat} {e : Err} {st' : PFromBody} (hs : naStepStar h b i c pf = .done o e st') : NaPost b i o e st' := by
  unfold naStepStar at hs
  split at hs
  · exact naLWS_post h b i _ hs
  · cases hs <;> exact NaPost.of_err (by decide) (by decide) (by decide)

/-- the white-space sites of the parameter name / value states -/
theorem naPV_site_post (h : Nat) (b : Buf) (i : Nat) (pf pf1 : PFromBody)
    {o : Nat} {e : Err} {st' : PFromBody}
    (hs : (match skipLWS b i 0 with
      | (_, _, .moreBytes) => Step.done i .moreBytes pf.saveS
      | (n, _, .ok) => .cont n pf1
      | (n, crl, .eoh) => let r := naEOH h b pf1 i n crl .ok; .done r.1 r.2.1 r.2.2
      | (n, _, e) => .done n e pf1) = .done o e st') : NaPost b i o e st' := by
  rcases hsk : skipLWS b i 0 with ⟨n, crl, e1⟩
  rw [hsk] at hs
  have hv := skipLWS_verdicts b i 0 hsk
  rcases hv with rfl | rfl | rfl | rfl <;> simp only at hs
  · cases hs
  · simp only [Step.done.injEq] at hs
    obtain ⟨rfl, rfl, rfl⟩ := hs
    exact naEOH_site_post h b pf1 i i n crl hsk rfl
  · cases hs <;> exact NaPost.of_err (by decide) (by decide) (by decide)
  · cases hs <;> exact NaPost.of_err (by decide) (by decide) (by decide)

theorem naStepP_post (h : Nat) (b : Buf) (i : Nat) (c : UInt8) (pf : PFromBody) (hb : b[i]? = some c)
    {o : Nat} {e : Err} {st' : PFromBody} (hs : naStepP h b i c pf = .done o e st') : NaPost b i o e st' := by
  unfold naStepP at hs
  split at hs
  · exact naPV_site_post h b i pf _ hs
  · repeat' (split at hs)
    all_goals first
      | exact naMoreValues_post h b _ i hb hs
      | (cases hs <;> exact NaPost.of_err (by decide) (by decide) (by decide))

theorem naStepV_post (h : Nat) (b : Buf) (i : Nat) (c : UInt8) (pf : PFromBody) (hb : b[i]? = some c)
    {o : Nat} {e : Err} {st' : PFromBody} (hs : naStepV h b i c pf = .done o e st') : NaPost b i o e st' := by
  unfold naStepV at hs
  split at hs
  · rcases hsk : skipLWS b i 0 with ⟨n, crl, e1⟩
    rw [hsk] at hs
    have hv := skipLWS_verdicts b i 0 hsk
    rcases hv with rfl | rfl | rfl | rfl <;> simp only at hs
    · cases hs
    · simp only [Step.done.injEq] at hs
      obtain ⟨rfl, rfl, rfl⟩ := hs
      exact naEOH_site_post h b _ i i n crl hsk rfl
    · cases hs; exact NaPost.of_err (by decide) (by decide) (by decide)
    · cases hs; exact NaPost.of_err (by decide) (by decide) (by decide)
  · repeat' (split at hs)
    all_goals first
      | exact naMoreValues_post h b _ i hb hs
      | (cases hs <;> exact NaPost.of_err (by decide) (by decide) (by decide))

theorem naStepPE_post (h : Nat) (b : Buf) (i : Nat) (c : UInt8) (pf : PFromBody) (hb : b[i]? = some c)
    {o : Nat} {e : Err} {st' : PFromBody} (hs : naStepPE h b i c pf = .done o e st') : NaPost b i o e st' := by
  unfold naStepPE at hs
  repeat' (split at hs)
  all_goals first
    | exact naCommaAfterWS_post h b _ i _ hb hs
    | (cases hs <;> exact NaPost.of_err (by decide) (by decide) (by decide))

theorem naStepVE_post (h : Nat) (b : Buf) (i : Nat) (c : UInt8) (pf : PFromBody) (hb : b[i]? = some c)
    {o : Nat} {e : Err} {st' : PFromBody} (hs : naStepVE h b i c pf = .done o e st') : NaPost b i o e st' := by
  unfold naStepVE at hs
  repeat' (split at hs)
  all_goals first
    | exact naCommaAfterWS_post h b _ i _ hb hs
    | (cases hs <;> exact NaPost.of_err (by decide) (by decide) (by decide))

theorem naStep_post (h : Nat) (b : Buf) (i : Nat) (c : UInt8) (pf : PFromBody) (hb : b[i]? = some c)
    {o : Nat} {e : Err} {st' : PFromBody} (hs : naStep h b i c pf = .done o e st') : NaPost b i o e st' := by
  unfold naStep at hs
  split at hs
  all_goals first
    | exact naStepA_post h b i c pf hb hs
    | exact naStepQ_post h b i c pf hs
    | exact naStepU_post b i c pf hs
    | exact naStepUF_post h b i c pf hb hs
    | exact naStepP_post h b i c pf hb hs
    | exact naStepPE_post h b i c pf hb hs
    | exact naStepV_post h b i c pf hb hs
    | exact naStepVE_post h b i c pf hb hs
    | exact naStepStar_post h b i c pf hs
    | (cases hs <;> exact NaPost.of_err (by decide) (by decide) (by decide))

/-- **post-condition of ParseNameAddrPVal**: after OK / MoreValues the object is final; unless it already was
    final on entry, the returned offset is strictly after the start and inside the buffer -/
theorem parseNameAddrPVal_post (h : Nat) (b : Buf) (o : Nat) (pf : PFromBody)
    {o' : Nat} {e : Err} {pf' : PFromBody} (hr : parseNameAddrPVal h b o pf = (o', e, pf'))
    (hc : Err.complete e) : pf'.state = .fin ∧ (pf.state ≠ .fin → o < o' ∧ o' ≤ b.size) := by
  unfold parseNameAddrPVal at hr
  split at hr
  · rename_i hf; cases hr; exact ⟨hf, fun hn => absurd hf hn⟩
  · simp only [Prod.mk.injEq] at hr
    obtain ⟨rfl, rfl, rfl⟩ := hr
    have key := runLoop_inv (naMachine h) b (fun i _ => o ≤ i)
      (fun r => Err.complete r.2.1 → r.2.2.state = .fin ∧ o < r.1 ∧ r.1 ≤ b.size)
      (by
        intro i c st i' st' _ hP _
        refine ⟨fun hlt => by omega, fun _ hq => ?_⟩
        rcases hq with hq | hq <;> cases hq)
      (by
        intro i c st o1 e1 st1 hb hP hs
        intro hq
        have := (naStep_post h b i c st hb hs).1 hq
        exact ⟨this.1, by omega, this.2.2⟩)
      (by
        intro i st _ _ hq
        simp only [naMachine] at hq
        rcases hq with hq | hq <;> cases hq)
      o _ (Nat.le_refl _) hc
    refine ⟨?_, fun _ => key.2⟩
    unfold naExit
    split <;> exact key.1

/-- ParseNameAddrPVal never returns the "empty line" verdict -/
theorem parseNameAddrPVal_ne_empty (h : Nat) (b : Buf) (o : Nat) (pf : PFromBody) :
    (parseNameAddrPVal h b o pf).2.1 ≠ .empty := by
  unfold parseNameAddrPVal
  split
  · intro hh; cases hh
  · simp only
    exact runLoop_inv (naMachine h) b (fun _ _ => True) (fun r => r.2.1 ≠ .empty)
      (by intro i c st i' st' _ _ _; exact ⟨fun _ => trivial, fun _ hh => by cases hh⟩)
      (by intro i c st o1 e1 st1 hb _ hs; exact (naStep_post h b i c st hb hs).2)
      (by intro i st _ _; simp [naMachine]) o _ trivial

end Sipsp
