/-
  Sipsp.Proofs.CallID — L1 (no premature verdict) and L2 (resumption) for ParseCallIDVal,
  plus progress (the loop artefact never fires).
-/
import Sipsp.Proofs.LwsSite

namespace Sipsp

theorem ciEOH_indep (st : PCallIDBody) (hs : st.state ≠ .found) (j j' n crl : Nat) :
    ciEOH st j n crl = ciEOH st j' n crl := by
  unfold ciEOH; cases h : st.state <;> simp_all

theorem ciEOH_ne_more (st : PCallIDBody) (i n crl : Nat) : (ciEOH st i n crl).2.1 ≠ Err.moreBytes := by
  unfold ciEOH; cases st.state <;> simp

theorem ciStep_lws (b : Buf) (j : Nat) (c : UInt8) (st : PCallIDBody) (hl : isLWSch c = true)
    (hs : st.state = .init ∨ st.state = .fend) : ciStep b j c st = lwsStd b j st ciEOH id := by
  unfold ciStep; rw [if_pos hl]
  rcases hs with h | h <;> rw [h]

theorem ci_stepStable (b s : Buf) : StepStable ciMachine b s := by
  intro i c st hb hne
  show ciStep (b ++ s) i c st = ciStep b i c st
  have hne' : ∀ o st', ciStep b i c st ≠ .done o .moreBytes st' := hne
  by_cases hl : isLWSch c = true
  · cases hst : st.state <;> simp only [ciStep, hl, hst, if_true] at hne' ⊢ <;>
      first | rfl | exact lwsStd_stable b s i _ ciEOH id hne'
  · simp only [ciStep, hl, Bool.false_eq_true, if_false]

theorem ci_eobMore (b : Buf) : EobMore ciMachine b := fun _ _ => rfl

theorem ci_eobRestart (b s : Buf) : EobRestart ciMachine b s := by
  intro i st o st' _ h
  cases h; rfl

theorem ci_stepRestart (b s : Buf) : StepRestart ciMachine b s := by
  intro i c st o st' hb hs
  change ciStep b i c st = .done o .moreBytes st' at hs
  rw [runLoop_eq_runStep ciMachine st (get?_app hb)]
  show runLoop ciMachine (b ++ s) o st' = runStep ciMachine (b ++ s) i (ciStep (b ++ s) i c st)
  unfold ciStep at hs ⊢
  by_cases hl : isLWSch c = true
  · rw [if_pos hl] at hs ⊢
    -- every suspending branch is `lwsStd b i st1 ciEOH id` for a state st1 in init/fend
    have key : ∀ st1 : PCallIDBody, (st1.state = .init ∨ st1.state = .fend) →
        lwsStd b i st1 ciEOH id = .done o .moreBytes st' →
        runLoop ciMachine (b ++ s) o st' = runStep ciMachine (b ++ s) i (lwsStd (b ++ s) i st1 ciEOH id) := by
      intro st1 hst1 hl1
      unfold lwsStd at hl1
      rcases hsk : skipLWS b i 0 with ⟨n, crl, e⟩
      rw [hsk] at hl1
      cases e with
      | moreBytes =>
        simp only [Step.done.injEq, true_and] at hl1
        obtain ⟨rfl, rfl⟩ := hl1
        exact lwsStd_restart ciMachine b s i n crl st1 ciEOH id hb hl hsk rfl
          (fun j c' _ hl' => ciStep_lws _ j c' st1 hl' hst1)
          (ciEOH_indep st1 (by rcases hst1 with h | h <;> rw [h] <;> simp))
          (fun _ => rfl)
      | eoh =>
        exfalso
        have hne := ciEOH_ne_more st1 i n crl
        simp only at hl1
        injection hl1 with _ h2 _
        exact hne h2
      | _ => cases hl1
    cases hst : st.state <;> rw [hst] at hs <;> simp only at hs ⊢
    · exact key st (Or.inl hst) hs
    · exact key _ (Or.inr rfl) hs
    · exact key st (Or.inr hst) hs
    · cases hs
  · rw [if_neg hl] at hs
    cases hst : st.state <;> rw [hst] at hs <;> cases hs

theorem ci_progress : Progress ciMachine := by
  intro b i c st i' st' hb hs
  change ciStep b i c st = .cont i' st' at hs
  unfold ciStep at hs
  by_cases hl : isLWSch c = true
  · rw [if_pos hl] at hs
    have key : ∀ st1 : PCallIDBody, lwsStd b i st1 ciEOH id = .cont i' st' → i < i' := by
      intro st1 h1
      unfold lwsStd at h1
      rcases hsk : skipLWS b i 0 with ⟨n, crl, e⟩
      rw [hsk] at h1
      cases e <;> simp only at h1 <;> cases h1
      exact skipLWS_ok_gt b i 0 hb hl hsk
    cases hst : st.state <;> rw [hst] at hs <;> simp only at hs
    · exact key _ hs
    · exact key _ hs
    · exact key _ hs
    · cases hs; omega
  · rw [if_neg hl] at hs
    cases hst : st.state <;> rw [hst] at hs <;> cases hs <;> omega

end Sipsp

namespace Sipsp

/-- a suspended Call-ID object is not in the final state -/
theorem ci_more_not_fin (b : Buf) (i : Nat) (st : PCallIDBody) (h0 : st.state ≠ .fin) :
    (runLoop ciMachine b i st).2.1 = Err.moreBytes → (runLoop ciMachine b i st).2.2.state ≠ .fin := by
  apply runLoop_inv ciMachine b (fun _ st => st.state ≠ .fin)
    (fun r => r.2.1 = Err.moreBytes → r.2.2.state ≠ CIState.fin)
  · intro i c st i' st' hb hP hs
    refine ⟨fun _ => ?_, fun _ h => by cases h⟩
    change ciStep b i c st = .cont i' st' at hs
    unfold ciStep at hs
    have key : ∀ st1 : PCallIDBody, st1.state ≠ .fin → lwsStd b i st1 ciEOH id = .cont i' st' → st'.state ≠ .fin := by
      intro st1 h1 hl
      unfold lwsStd at hl
      rcases hsk : skipLWS b i 0 with ⟨n, crl, e⟩
      rw [hsk] at hl
      cases e <;> simp only at hl <;> cases hl
      exact h1
    split at hs
    · cases hst : st.state <;> rw [hst] at hs <;> simp only at hs
      · exact key _ (by rw [hst]; simp) hs
      · exact key _ (by simp) hs
      · exact key _ (by rw [hst]; simp) hs
      · exact absurd hst hP
    · cases hst : st.state <;> rw [hst] at hs <;> cases hs <;> simp_all
  · intro i c st o e st' hb hP hs hm
    simp only at hm; subst hm
    change ciStep b i c st = .done o .moreBytes st' at hs
    unfold ciStep at hs
    have key : ∀ st1 : PCallIDBody, st1.state ≠ .fin → lwsStd b i st1 ciEOH id = .done o .moreBytes st' → st'.state ≠ .fin := by
      intro st1 h1 hl
      unfold lwsStd at hl
      rcases hsk : skipLWS b i 0 with ⟨n, crl, e⟩
      rw [hsk] at hl
      cases e with
      | moreBytes => simp only [Step.done.injEq, true_and] at hl; obtain ⟨_, rfl⟩ := hl; exact h1
      | eoh =>
        exfalso
        have hne := ciEOH_ne_more st1 i n crl
        simp only at hl
        injection hl with _ h2 _
        exact hne h2
      | _ => cases hl
    split at hs
    · cases hst : st.state <;> rw [hst] at hs <;> simp only at hs
      · exact key _ (by rw [hst]; simp) hs
      · exact key _ (by simp) hs
      · exact key _ (by rw [hst]; simp) hs
      · cases hs
    · cases hst : st.state <;> rw [hst] at hs <;> cases hs
  · intro i st _ hP _; exact hP
  · exact h0

/-- **L1 for ParseCallIDVal** -/
theorem parseCallIDVal_stable (b s : Buf) (o : Nat) (st : PCallIDBody) {o' : Nat} {e : Err} {st' : PCallIDBody}
    (h : parseCallIDVal b o st = (o', e, st')) (he : e ≠ .moreBytes) :
    parseCallIDVal (b ++ s) o st = (o', e, st') := by
  unfold parseCallIDVal at h ⊢
  split
  · rename_i hf; rw [if_pos hf] at h; exact h
  · rename_i hf; rw [if_neg hf] at h
    exact runLoop_stable ciMachine b s (ci_stepStable b s) (ci_eobMore b) o st h he

/-- **L2 for ParseCallIDVal** -/
theorem parseCallIDVal_resume (b s : Buf) (o : Nat) (st : PCallIDBody) {o' : Nat} {st' : PCallIDBody}
    (h : parseCallIDVal b o st = (o', Err.moreBytes, st')) :
    parseCallIDVal (b ++ s) o' st' = parseCallIDVal (b ++ s) o st := by
  unfold parseCallIDVal at h ⊢
  by_cases hf : st.state = .fin
  · rw [if_pos hf] at h; cases h
  · rw [if_neg hf] at h
    have hnf := ci_more_not_fin b o st hf (by rw [h])
    rw [h] at hnf
    rw [if_neg hnf, if_neg hf]
    exact runLoop_resume ciMachine b s (ci_stepStable b s) (ci_stepRestart b s) (ci_eobRestart b s) o st h

end Sipsp
