/-
  Sipsp.Proofs.ParamSound — SOUNDNESS of ParseTokenParam and of the list wrappers ParseAllURIParams /
  ParseAllURIHdrs (property C17; the converse of `Sipsp.Proofs.ParamSpec`), for EVERY buffer within the 65,535-byte
  limit, EVERY start offset and EVERY option word (the end-of-input option `POptInputEndF` included), on a new
  object / a list object in its reset state.

  The description of what is accepted (all positions are offsets into the buffer; `Lws`, `Pad`, `PRun`, `Ending`,
  `AfterSep`, `QBody`, `EndTail` are the predicates of `ParamSpec`):
  * `PSParam b flags p o o' e p'` — after skipped empty items (`Pad`) and linear white space (`Lws`) either
      - `empty`: the end of the header / input (`PSEnd`): `EOH`, the object is returned untouched, or
      - `named`: a name `[n0, n1)` whose first byte is any allowed byte other than the separator and whose other
        bytes are allowed bytes other than separator and terminator, followed by `PSAfterName`:
  * `PSAfterName` — the parameter ends (`PSClose`), or `[LWS] =` and `PSValue`;
  * `PSValue` — `[LWS]` and a token value + `PSClose`, a quoted value (opening quote, `QBody`) + `PSClose`, the
    separator (EMPTY value recorded, then `AfterSep`), the terminator (EMPTY value recorded, `OK`), or the end of the
    header / input (NO value recorded, `EOH`);
  * `PSClose` — one of the `Ending`s of `ParamSpec` (separator + what follows it, terminator, end of header / input),
    or with `POptTokSpTermF` linear white space + the first byte of a new token (`OK`, offset of the LAST white-space
    byte), or with the same option a new token right after the closing quote (`OK`, offset of the token).
  Each constructor states the offset, the verdict and the COMPLETE object reported (name, value, `all`, state).

  Proved:
  * `parseTokenParam_sound`   : `parseTokenParam b o {} flags = (o', e, p')` with `e` ∈ {OK, MoreValues, EOH}
                                ⇒ `PSParam b flags {} o o' e p'`.
  * `parseTokenParam_complete`: the converse (every `PSParam` is reported exactly as described); hence
  * `tokparam_ok_iff`         : (call = (o', e, p') ∧ e accepting) ↔ `PSParam b flags {} o o' e p'`.
  * `GParam.psParam`          : every `GParam` of `ParamSpec` is a `PSParam`;
    `PSParam.ps_gparam_or_extra`: every `PSParam` is a `GParam` OR one of four documented shapes outside that grammar
    (nothing parsed at the end of the header / input; a name whose first byte is the terminator — only when the
    terminator is an allowed byte; the white-space terminator; `name =` before the terminator / end of header).
    So the statement "accepted iff `GParam`" is FALSE for the model as it is; witnesses in the tests at the end.
  * `tokparam_fields`         : an accepted call either parsed nothing (`EOH`, untouched object) or reports a
    NON-EMPTY name inside the buffer at / after the start offset, all of whose bytes satisfy `tokAllowedChar`;
    `all` starts at the name and covers it; no wrap-around flag; the value is empty, an unquoted non-empty run of
    allowed bytes (none the separator / terminator) or a complete quoted string (`PSValDesc`).
  * `tokparam_charset`        : the property's `charset` clause — no byte outside the documented set (`docAllowed`)
    in the name, nor in the value outside quotes.
  * `ps_skipQuoted_qbody`     : what `SkipQuoted` accepts is a `QBody` (converse of `skipQuoted_of_qbody`);
    `ps_skipLWS_ok_lws`, `ps_skipLWS_eoh`, `ps_skipLWS_more`: what `skipLWS` skips is `Lws`, and where it stops.
  * `parseAllURIParams_ok_iff`, `parseAllURIHdrs_ok_iff` (and the loop forms `ps_uriParamsLoop`, `ps_uriHdrsLoop`):
    on a list object in its reset state (`Fresh`) the wrapper returns `OK` / `EOH` iff the text is a `PSList` (items
    reported `MoreValues`, the last one `OK` / `EOH`); then offset and verdict are those of the list end, the count
    is the number of items, and the list object is the fold of `push` over the items (URI parameters: each with the
    type of its name) — so every stored element is the corresponding item.
  * `PSList.ps_named_or_empty`: every item of an accepted list has a non-empty name, EXCEPT that an empty list
    (only empty items / white space up to the end of the header or input) is reported as ONE phantom item with an
    untouched object (N = 1, empty name), verdict `EOH`; this is the only place where it occurs.
  * `PSParam.ps_more_range`, `PSParam.ps_more_char`: `MoreValues` moves the offset forward, to a byte inside the
    buffer that can start a name.

  NOT proved here: calls on objects that are not new (resumed calls: C02 / `ShiftParams`); which error verdict a
  rejected text gets (only: a text that is not a `PSParam` is not accepted); list objects that are not in their
  reset state.
-/
import Sipsp.Proofs.ParamSpec
import Sipsp.Proofs.UriListsL

namespace Sipsp

/-! ### lexical layer: what `skipCRLF` / `skipLWS` accept -/

/-- a line end accepted by `skipCRLF` is one of the three forms of `Eol` -/
theorem ps_skipCRLF_eol {b : Buf} {i n crl : Nat} (h : skipCRLF b i = (n, crl, .ok)) : Eol b i n ∧ crl = n - i := by
  unfold skipCRLF at h
  cases h1 : b[i+1]? with
  | none =>
    rw [h1] at h
    simp only at h
    split at h
    · split at h <;> cases h
    · cases h
  | some c1 =>
    rw [h1] at h
    simp only at h
    split at h
    · cases h
    · rename_i c0 h0
      split at h
      · rename_i hc0
        have e0 : c0 = 13 := by simpa using hc0
        subst e0
        split at h
        · rename_i hc1
          have e1 : c1 = 10 := by simpa using hc1
          subst e1
          cases h
          exact ⟨Eol.crlf i h0 h1, by omega⟩
        · rename_i hc1
          cases h
          exact ⟨Eol.cr i c1 h0 h1 (by simpa using hc1), by omega⟩
      · split at h
        · rename_i hc0
          have e0 : c0 = 10 := by simpa using hc0
          subst e0
          cases h
          exact ⟨Eol.lf i c1 h0 h1, by omega⟩
        · cases h

theorem Lws.ps_trans {b : Buf} {i j k : Nat} (h1 : Lws b i j) (h2 : Lws b j k) : Lws b i k := by
  induction h1 with
  | nil i => exact h2
  | ws i n c hc hw _ ih => exact Lws.ws i k c hc hw (ih h2)
  | fold i e n c2 he hc hw _ ih => exact Lws.fold i e k c2 he hc hw (ih h2)

/-- everything `skipLWS` skips before it stops with `OK` is linear white space -/
theorem ps_skipLWS_ok_lws (b : Buf) (i flags : Nat) {n crl : Nat} (h : skipLWS b i flags = (n, crl, .ok)) :
    Lws b i n := by
  fun_induction skipLWS b i flags with
  | case1 i hb => cases h
  | case2 i c hb hws ih => exact Lws.ws i n c hb hws (ih h)
  | case3 i c hb hws hcr n' crl' hs hb2 hfl => cases h
  | case4 i c hb hws hcr n' crl' hs hb2 hfl => cases h
  | case5 i c hb hws hcr n' crl' hs c2 hb2 hws2 ih =>
    exact Lws.fold i n' n c2 (ps_skipCRLF_eol hs).1 hb2 hws2 (ih h)
  | case6 i c hb hws hcr n' crl' hs c2 hb2 hws2 => cases h
  | case7 i c hb hws hcr n' crl' e' hne hs => cases h; exact (hne rfl).elim
  | case8 i c hb hws hcr => cases h; exact Lws.nil _

/-- the end of the header / of the input at `q`, with the two numbers `endOfHdr` is called with: a line end that is
    not a fold (`n = q`, `crl` = its length), or — end-of-input option — the end of the input (`n = len(buf)`,
    `crl = 0`) -/
inductive PSEnd (b : Buf) (flags : Nat) : Nat → Nat → Nat → Prop
  | eoh (q e : Nat) (c2 : UInt8) : Eol b q e → b[e]? = some c2 → isWS c2 = false → PSEnd b flags q q (e - q)
  | inputEnd (q : Nat) : hasFlag flags POptInputEndF = true → EndTail b q → PSEnd b flags q b.size 0

theorem ps_skipLWS_eoh (b : Buf) (i flags : Nat) {n crl : Nat} (h : skipLWS b i flags = (n, crl, .eoh)) :
    ∃ q, Lws b i q ∧ PSEnd b flags q n crl := by
  fun_induction skipLWS b i flags with
  | case1 i hb => cases h
  | case2 i c hb hws ih =>
    obtain ⟨q, h1, h2⟩ := ih h
    exact ⟨q, Lws.ws i q c hb hws h1, h2⟩
  | case3 i c hb hws hcr n' crl' hs hb2 hfl =>
    cases h
    have he := (ps_skipCRLF_eol hs).1
    refine ⟨i, Lws.nil i, ?_⟩
    cases he with
    | crlf h0 h1 =>
      have h3 := get?_lt h1
      have h4 := get?_none_ge hb2
      have : i + 2 = b.size := by omega
      rw [this]
      exact PSEnd.inputEnd i hfl (EndTail.crlf i h0 h1 hb2)
    | cr c1 h0 h1 _ => rw [h1] at hb2; cases hb2
    | lf c1 h0 h1 => rw [h1] at hb2; cases hb2
  | case4 i c hb hws hcr n' crl' hs hb2 hfl => cases h
  | case5 i c hb hws hcr n' crl' hs c2 hb2 hws2 ih =>
    obtain ⟨q, h1, h2⟩ := ih h
    exact ⟨q, Lws.fold i n' q c2 (ps_skipCRLF_eol hs).1 hb2 hws2 h1, h2⟩
  | case6 i c hb hws hcr n' crl' hs c2 hb2 hws2 =>
    cases h
    obtain ⟨he, hcrl⟩ := ps_skipCRLF_eol hs
    rw [hcrl]
    exact ⟨_, Lws.nil _, PSEnd.eoh _ n' c2 he hb2 (by simpa using hws2)⟩
  | case7 i c hb hws hcr n' crl' e' hne hs =>
    cases h
    have := skipCRLF_verdicts hs
    simp at this
  | case8 i c hb hws hcr => cases h

theorem ps_skipLWS_more (b : Buf) (i flags : Nat) {n crl : Nat} (h : skipLWS b i flags = (n, crl, .moreBytes))
    (hf : hasFlag flags POptInputEndF = true) : ∃ q, Lws b i q ∧ EndTail b q := by
  fun_induction skipLWS b i flags with
  | case1 i hb => exact ⟨i, Lws.nil i, EndTail.none i hb⟩
  | case2 i c hb hws ih =>
    obtain ⟨q, h1, h2⟩ := ih h
    exact ⟨q, Lws.ws i q c hb hws h1, h2⟩
  | case3 i c hb hws hcr n' crl' hs hb2 hfl => cases h
  | case4 i c hb hws hcr n' crl' hs hb2 hfl => rw [hf] at hfl; exact absurd rfl hfl
  | case5 i c hb hws hcr n' crl' hs c2 hb2 hws2 ih =>
    obtain ⟨q, h1, h2⟩ := ih h
    exact ⟨q, Lws.fold i n' q c2 (ps_skipCRLF_eol hs).1 hb2 hws2 h1, h2⟩
  | case6 i c hb hws hcr n' crl' hs c2 hb2 hws2 => cases h
  | case7 i c hb hws hcr n' crl' e' hne hs =>
    cases h
    have hp := skipCRLF_moreBytes_pos hs
    refine ⟨i, Lws.nil i, EndTail.one i c hb hcr ?_⟩
    unfold skipCRLF at hs
    cases h1 : b[i+1]? with
    | none => rfl
    | some c1 =>
      rw [h1, hb] at hs
      simp only at hs
      repeat' (split at hs)
      all_goals cases hs
  | case8 i c hb hws hcr => cases h

/-! ### inversion of the loop driver and of the white-space pattern -/

/-- the verdicts with which ParseTokenParam reports a parameter -/
def PSAcc (e : Err) : Prop := e = .ok ∨ e = .moreValues ∨ e = .eoh

theorem PSAcc.ne_lbug {e : Err} (h : PSAcc e) : e ≠ .lbug := by
  rcases h with h | h | h <;> (rw [h]; decide)

theorem ps_runLoop_some {σ : Type} (m : Machine σ) {b : Buf} {i : Nat} {c : UInt8} {st st' : σ} {o : Nat} {e : Err}
    (hb : b[i]? = some c) (hr : runLoop m b i st = (o, e, st')) (he : e ≠ .lbug) :
    m.step b i c st = .done o e st' ∨
      ∃ i' st1, m.step b i c st = .cont i' st1 ∧ i < i' ∧ runLoop m b i' st1 = (o, e, st') := by
  cases hs : m.step b i c st with
  | done o1 e1 st1 =>
    rw [runLoop_done m hb hs] at hr
    cases hr; exact Or.inl rfl
  | cont i' st1 =>
    rw [runLoop_cont m hb hs] at hr
    by_cases hlt : i < i'
    · rw [if_pos hlt] at hr
      exact Or.inr ⟨i', st1, rfl, hlt, hr⟩
    · rw [if_neg hlt] at hr
      cases hr; exact absurd rfl he

theorem ps_runLoop_done {σ : Type} (m : Machine σ) {b : Buf} {i : Nat} {c : UInt8} {st st' st1 : σ} {o o1 : Nat}
    {e e1 : Err} (hb : b[i]? = some c) (hs : m.step b i c st = .done o1 e1 st1)
    (hr : runLoop m b i st = (o, e, st')) : o1 = o ∧ e1 = e ∧ st1 = st' := by
  rw [runLoop_done m hb hs] at hr
  cases hr; exact ⟨rfl, rfl, rfl⟩

theorem ps_runLoop_cont {σ : Type} (m : Machine σ) {b : Buf} {i i' : Nat} {c : UInt8} {st st' st1 : σ} {o : Nat}
    {e : Err} (hb : b[i]? = some c) (hs : m.step b i c st = .cont i' st1)
    (hr : runLoop m b i st = (o, e, st')) (he : e ≠ .lbug) : i < i' ∧ runLoop m b i' st1 = (o, e, st') := by
  rw [runLoop_cont m hb hs] at hr
  by_cases hlt : i < i'
  · rw [if_pos hlt] at hr; exact ⟨hlt, hr⟩
  · rw [if_neg hlt] at hr; cases hr; exact absurd rfl he

theorem ps_tpEOH_open {p p' : PTokParam} {n crl o : Nat} {e : Err} (h : p.state.isOpen)
    (hr : tpEOH p n crl = (o, e, p')) : n + crl = o ∧ .eoh = e ∧ { p with state := .fin } = p' := by
  rw [tpEOH_open h] at hr
  cases hr; exact ⟨rfl, rfl, rfl⟩

theorem ps_tpEOH_init {p p' : PTokParam} {n crl o : Nat} {e : Err} (h : p.state = .init ∨ p.state = .initNxtVal)
    (hr : tpEOH p n crl = (o, e, p')) : n + crl = o ∧ .eoh = e ∧ p = p' := by
  unfold tpEOH at hr
  rcases h with h | h <;> (simp only [h] at hr; cases hr; exact ⟨rfl, rfl, rfl⟩)

theorem PSEnd.ending {b : Buf} {flags i q n crl : Nat} (hl : Lws b i q) (h : PSEnd b flags q n crl) :
    Ending b flags i (n + crl) .eoh .fin := by
  cases h with
  | eoh e c2 he h2 hw =>
    have := he.gt
    have e1 : q + (e - q) = e := by omega
    rw [e1]
    exact Ending.eoh i q e c2 hl he h2 hw
  | inputEnd hf he => exact Ending.inputEnd i q hf hl he

theorem PSEnd.afterSep {b : Buf} {flags i t q n crl : Nat} (hp : Pad b (tpSep flags) i t) (hl : Lws b t q)
    (h : PSEnd b flags q n crl) : AfterSep b flags i (n + crl) .eoh .fin := by
  cases h with
  | eoh e c2 he h2 hw =>
    have := he.gt
    have e1 : q + (e - q) = e := by omega
    rw [e1]
    exact AfterSep.eoh i t q e c2 hp hl he h2 hw
  | inputEnd hf he => exact AfterSep.inputEnd i t q hf hp hl he

section inv
variable {flags offs : Nat} {b : Buf}

/-- **the white-space pattern, inverted**: the loop stands on a white-space / line-end byte in a state that runs
    `tpLWS`; an accepting result means: linear white space up to a byte of another kind where the loop continues with
    the updated object, or linear white space up to the end of the header / input. -/
theorem ps_lws {i : Nat} {c : UInt8} {p p' : PTokParam} {upd : PTokParam → PTokParam} {o' : Nat} {e : Err}
    (hb : b[i]? = some c) (hstep : tpStep flags offs b i c p = tpLWS b flags i p upd)
    (hmb : hasFlag flags POptInputEndF = true → tpMoreBytes b flags p i = tpEOH (upd p) b.size 0)
    (hr : runLoop (tpMachine flags offs) b i p = (o', e, p')) (ha : PSAcc e) :
    (∃ n c', Lws b i n ∧ i < n ∧ b[n]? = some c' ∧ isLWSch c' = false ∧
        runLoop (tpMachine flags offs) b n (upd p) = (o', e, p')) ∨
    (∃ q n crl, Lws b i q ∧ PSEnd b flags q n crl ∧ tpEOH (upd p) n crl = (o', e, p')) := by
  rcases hsk : skipLWS b i flags with ⟨n, crl, r⟩
  rcases skipLWS_verdicts b i flags hsk with rfl | rfl | rfl | rfl
  · -- OK
    have hs : (tpMachine flags offs).step b i c p = .cont n (upd p) := hstep.trans (tpLWS_ok p upd hsk)
    obtain ⟨hlt, hr'⟩ := ps_runLoop_cont _ hb hs hr ha.ne_lbug
    obtain ⟨_, c', hc', hl'⟩ := skipLWS_ok b i flags hsk
    exact Or.inl ⟨n, c', ps_skipLWS_ok_lws b i flags hsk, hlt, hc', hl', hr'⟩
  · -- EOH
    have hs : (tpMachine flags offs).step b i c p =
        .done (tpEOH (upd p) n crl).1 (tpEOH (upd p) n crl).2.1 (tpEOH (upd p) n crl).2.2 :=
      hstep.trans (tpLWS_eoh p upd hsk)
    obtain ⟨h1, h2, h3⟩ := ps_runLoop_done _ hb hs hr
    obtain ⟨q, hq, hend⟩ := ps_skipLWS_eoh b i flags hsk
    refine Or.inr ⟨q, n, crl, hq, hend, ?_⟩
    rw [← h1, ← h2, ← h3]
  · -- NoCR
    have hs : (tpMachine flags offs).step b i c p = .done n .noCR (upd p) := by
      refine hstep.trans ?_
      unfold tpLWS; rw [hsk]
    obtain ⟨_, h2, _⟩ := ps_runLoop_done _ hb hs hr
    rcases ha with h | h | h <;> (rw [h] at h2; cases h2)
  · -- MoreBytes
    have hs : (tpMachine flags offs).step b i c p =
        .done (tpMoreBytes b flags p i).1 (tpMoreBytes b flags p i).2.1 (tpMoreBytes b flags p i).2.2 :=
      hstep.trans (tpLWS_more p upd hsk)
    obtain ⟨h1, h2, h3⟩ := ps_runLoop_done _ hb hs hr
    by_cases hf : hasFlag flags POptInputEndF = true
    · obtain ⟨q, hq, hend⟩ := ps_skipLWS_more b i flags hsk hf
      refine Or.inr ⟨q, b.size, 0, hq, PSEnd.inputEnd q hf hend, ?_⟩
      rw [← hmb hf, ← h1, ← h2, ← h3]
    · exfalso
      unfold tpMoreBytes at h2
      rw [if_neg hf] at h2
      rcases ha with h | h | h <;> (rw [h] at h2; cases h2)

/-- the end of the buffer, inverted: an accepting result needs the end-of-input option -/
theorem ps_eob {i : Nat} {p p' : PTokParam} {o' : Nat} {e : Err} (hb : b[i]? = none)
    (hr : runLoop (tpMachine flags offs) b i p = (o', e, p')) (ha : PSAcc e) :
    hasFlag flags POptInputEndF = true ∧ tpMoreBytes b flags p i = (o', e, p') := by
  rw [runLoop_none (tpMachine flags offs) p hb] at hr
  change tpMoreBytes b flags p i = (o', e, p') at hr
  refine ⟨?_, hr⟩
  by_cases hf : hasFlag flags POptInputEndF = true
  · exact hf
  · exfalso
    unfold tpMoreBytes at hr
    rw [if_neg hf] at hr
    cases hr
    rcases ha with h | h | h <;> cases h

theorem ps_pchar {c : UInt8} (ha : tokAllowedChar c flags = true) (hs : (c == tpSep flags) = false)
    (ht : (c == tpTerm flags && tpTerm flags != 0) = false) : PChar flags c := by
  refine ⟨ha, by simpa using hs, ?_⟩
  intro hc
  have h0 : c = 0 := by
    rw [← hc] at ht
    simpa using ht
  rw [h0] at ha
  unfold tokAllowedChar at ha
  simp at ha

theorem ps_not_true {x : Bool} (h : ¬ x = true) : x = false := by
  cases x
  · rfl
  · exact absurd rfl h

theorem PSAcc.not_badChar {P : Prop} {e : Err} (h : PSAcc e) (h2 : e = .badChar) : P := by
  subst h2
  rcases h with h | h | h <;> cases h

/-! ### after a separator -/

theorem ps_pad_lws_prepend {sep : UInt8} {i n t u : Nat} (h1 : Lws b i n) (hp : Pad b sep n t) (h2 : Lws b t u) :
    ∃ t', Pad b sep i t' ∧ Lws b t' u := by
  cases hp with
  | nil => exact ⟨i, Pad.nil i, h1.ps_trans h2⟩
  | item i' s n' hl hs rest => exact ⟨t, Pad.item i s t (h1.ps_trans hl) hs rest, h2⟩

theorem AfterSep.ps_prepend {i n o : Nat} {e : Err} {st : TPState} (h : AfterSep b flags n o e st)
    (h1 : Lws b i n) : AfterSep b flags i o e st := by
  cases h with
  | more t u c hp hl hc ha hs ht =>
    obtain ⟨t', hp', hl'⟩ := ps_pad_lws_prepend h1 hp hl
    exact AfterSep.more i t' o c hp' hl' hc ha hs ht
  | term t u hp hl hc hne =>
    obtain ⟨t', hp', hl'⟩ := ps_pad_lws_prepend h1 hp hl
    exact AfterSep.term i t' o hp' hl' hc hne
  | eoh t q e' c2 hp hl he h2 hw =>
    obtain ⟨t', hp', hl'⟩ := ps_pad_lws_prepend h1 hp hl
    exact AfterSep.eoh i t' q o c2 hp' hl' he h2 hw
  | inputEnd t q hf hp hl he =>
    obtain ⟨t', hp', hl'⟩ := ps_pad_lws_prepend h1 hp hl
    exact AfterSep.inputEnd i t' q hf hp' hl' he

theorem AfterSep.ps_cons_sep {i o : Nat} {e : Err} {st : TPState} (h : AfterSep b flags (i + 1) o e st)
    (hs : b[i]? = some (tpSep flags)) : AfterSep b flags i o e st := by
  cases h with
  | more t u c hp hl hc ha hs' ht =>
    exact AfterSep.more i t o c (Pad.item i i t (Lws.nil i) hs hp) hl hc ha hs' ht
  | term t u hp hl hc hne => exact AfterSep.term i t o (Pad.item i i t (Lws.nil i) hs hp) hl hc hne
  | eoh t q e' c2 hp hl he h2 hw => exact AfterSep.eoh i t q o c2 (Pad.item i i t (Lws.nil i) hs hp) hl he h2 hw
  | inputEnd t q hf hp hl he => exact AfterSep.inputEnd i t q hf (Pad.item i i t (Lws.nil i) hs hp) hl he

/-- **after a separator, inverted**: an accepting result from the state after a separator is one of the four
    shapes of `AfterSep`; only the state of the object changes -/
theorem ps_afterSep (flags offs : Nat) (b : Buf) {o' : Nat} {e : Err} {p' : PTokParam} :
    ∀ (k i : Nat) (p : PTokParam), b.size - i = k → p.state = .fNxt →
      runLoop (tpMachine flags offs) b i p = (o', e, p') → PSAcc e →
      ∃ st, AfterSep b flags i o' e st ∧ p' = { p with state := st } := by
  intro k
  induction k using Nat.strongRecOn with
  | _ k ih =>
    intro i p hk hst hr ha
    have hstart : p.state.isStart := Or.inr (Or.inr hst)
    have hopen : p.state.isOpen := Or.inl hst
    cases hb : b[i]? with
    | none =>
      obtain ⟨hf, hm⟩ := ps_eob hb hr ha
      rw [tpMoreBytes_end_id flags b hf (Or.inl hstart) i] at hm
      obtain ⟨h1, h2, h3⟩ := ps_tpEOH_open hopen hm
      subst h1 h2 h3
      exact ⟨.fin, (PSEnd.inputEnd i hf (EndTail.none i hb)).afterSep (Pad.nil i) (Lws.nil i), rfl⟩
    | some c =>
      have hlt := get?_lt hb
      by_cases hl : isLWSch c = true
      · rcases ps_lws hb (tpStep_start_lws hstart hl)
          (fun hf => tpMoreBytes_end_id flags b hf (Or.inl hstart) i) hr ha with
          ⟨n, c', hln, hin, hc', hl', hr'⟩ | ⟨q, n, crl, hlq, hend, hr'⟩
        · obtain ⟨st, hA, hp'⟩ := ih (b.size - n) (by omega) n p rfl hst hr' ha
          exact ⟨st, hA.ps_prepend hln, hp'⟩
        · obtain ⟨h1, h2, h3⟩ := ps_tpEOH_open (p := p) hopen hr'
          subst h1 h2 h3
          exact ⟨.fin, hend.afterSep (Pad.nil i) hlq, rfl⟩
      · have hl' := ps_not_true hl
        by_cases hs : (c == tpSep flags) = true
        · have hstep : (tpMachine flags offs).step b i c p = .cont (i + 1) p := tpStep_start_sep hstart hl' hs
          obtain ⟨_, hr'⟩ := ps_runLoop_cont _ hb hstep hr ha.ne_lbug
          obtain ⟨st, hA, hp'⟩ := ih (b.size - (i + 1)) (by omega) (i + 1) p rfl hst hr' ha
          have hc : c = tpSep flags := by simpa using hs
          rw [hc] at hb
          exact ⟨st, hA.ps_cons_sep hb, hp'⟩
        · have hs' := ps_not_true hs
          by_cases ht : (c == tpTerm flags && tpTerm flags != 0) = true
          · have hstep : (tpMachine flags offs).step b i c p = .done i .ok { p with state := .fin } :=
              tpStep_fNxt_term hst hl' hs' ht
            obtain ⟨h1, h2, h3⟩ := ps_runLoop_done _ hb hstep hr
            subst h1 h2 h3
            have hc : c = tpTerm flags ∧ tpTerm flags ≠ 0 := by simpa using ht
            rw [hc.1] at hb
            exact ⟨.fin, AfterSep.term i i i (Pad.nil i) (Lws.nil i) hb hc.2, rfl⟩
          · have ht' := ps_not_true ht
            by_cases hal : tokAllowedChar c flags = true
            · have hstep : (tpMachine flags offs).step b i c p =
                  .done i .moreValues { p with state := .initNxtVal } := tpStep_fNxt_char hst hl' hs' ht' hal
              obtain ⟨h1, h2, h3⟩ := ps_runLoop_done _ hb hstep hr
              subst h1 h2 h3
              obtain ⟨_, h5, h6⟩ := ps_pchar hal hs' ht'
              exact ⟨.initNxtVal, AfterSep.more i i i c (Pad.nil i) (Lws.nil i) hb hal h5 h6, rfl⟩
            · have hstep : (tpMachine flags offs).step b i c p = .done i .badChar { p with state := .err } :=
                tpStep_fNxt_bad hst hl' hs' ht' (ps_not_true hal)
              obtain ⟨_, h2, _⟩ := ps_runLoop_done _ hb hstep hr
              exact ha.not_badChar h2.symm

/-! ### the end of a parameter -/

/-- how a parameter ends after its name / value at `j`, as ParseTokenParam sees it: one of the `Ending`s of the
    grammar (separator, terminator, end of the header / input), or — with the white-space terminator
    `POptTokSpTermF` — linear white space and the first byte of a new token (`OK`, offset of the LAST white-space
    byte), or — same option — a new token directly after the closing quote of a quoted value (`OK`, offset of the
    token) -/
inductive PSClose (b : Buf) (flags : Nat) : Nat → Nat → Err → TPState → Prop
  | ending (j o : Nat) (e : Err) (st : TPState) : Ending b flags j o e st → PSClose b flags j o e st
  | spterm (j u : Nat) (c : UInt8) : hasFlag flags POptTokSpTermF = true → Lws b j u → j < u → b[u]? = some c →
      PChar flags c → PSClose b flags j (u - 1) .ok .fin
  | sptermQ (j : Nat) (c : UInt8) : hasFlag flags POptTokSpTermF = true → b[j - 1]? = some 34 → b[j]? = some c →
      PChar flags c → PSClose b flags j j .ok .fin

/-- the offset reported by the white-space terminator in the state after a value -/
def psSpOff (b : Buf) (n : Nat) : Nat :=
  match b[n - 1]? with
  | some c => if isLWSch c then n - 1 else n
  | none => n

theorem ps_spTermSep {n : Nat} (p : PTokParam) (hoff : offs + 1 ≤ n) :
    tpSpTermSep b offs n p = .done (psSpOff b n) .ok { p with state := .fin } := by
  unfold tpSpTermSep psSpOff
  simp only
  rw [if_pos hoff]
  cases b[n - 1]? with
  | none => rfl
  | some c =>
    simp only
    split <;> rfl

/-- a byte that is not white space in one of the two states after a name / value (and is not the `=` that may
    follow a name): terminator, separator, or — white-space terminator — the first byte of a new token -/
theorem ps_closed_char {n : Nat} {c : UInt8} {p p' : PTokParam} {o' : Nat} {e : Err}
    (hst : p.state = .fEq ∨ p.state = .fSep) (hb : b[n]? = some c) (hl : isLWSch c = false)
    (h61 : p.state = .fEq → (c == 61) = false) (hoff : offs + 1 ≤ n)
    (hr : runLoop (tpMachine flags offs) b n p = (o', e, p')) (ha : PSAcc e) :
    (c = tpTerm flags ∧ tpTerm flags ≠ 0 ∧ o' = n ∧ e = .ok ∧ p' = { p with state := .fin }) ∨
    (c = tpSep flags ∧ ∃ st, AfterSep b flags (n + 1) o' e st ∧ p' = { p with state := st }) ∨
    (hasFlag flags POptTokSpTermF = true ∧ PChar flags c ∧ e = .ok ∧ p' = { p with state := .fin } ∧
      o' = if p.state = .fEq then n - 1 else psSpOff b n) := by
  have hlt := get?_lt hb
  by_cases ht : (c == tpTerm flags && tpTerm flags != 0) = true
  · have hc : c = tpTerm flags ∧ tpTerm flags ≠ 0 := by simpa using ht
    have hb' := hb
    rw [hc.1] at hb'
    have hstep : (tpMachine flags offs).step b n (tpTerm flags) p = .done n .ok { p with state := .fin } :=
      tpStep_closed_term flags offs b hst hc.2
    obtain ⟨h1, h2, h3⟩ := ps_runLoop_done _ hb' hstep hr
    exact Or.inl ⟨hc.1, hc.2, h1.symm, h2.symm, h3.symm⟩
  · have ht' := ps_not_true ht
    by_cases hs : (c == tpSep flags) = true
    · have hc : c = tpSep flags := by simpa using hs
      have hb' := hb
      rw [hc] at hb'
      have hstep : (tpMachine flags offs).step b n (tpSep flags) p = .cont (n + 1) { p with state := .fNxt } :=
        tpStep_closed_sep flags offs b hst
      obtain ⟨_, hr'⟩ := ps_runLoop_cont _ hb' hstep hr ha.ne_lbug
      obtain ⟨st, hA, hp'⟩ := ps_afterSep flags offs b _ (n + 1) _ rfl rfl hr' ha
      exact Or.inr (Or.inl ⟨hc, st, hA, hp'⟩)
    · have hs' := ps_not_true hs
      by_cases hal : tokAllowedChar c flags = true
      · by_cases hsp : hasFlag flags POptTokSpTermF = true
        · refine Or.inr (Or.inr ?_)
          rcases hst with h | h
          · have hstep : (tpMachine flags offs).step b n c p = .done (n - 1) .ok { p with state := .fin } := by
              show tpStep flags offs b n c p = _
              rw [tpStep_fEq_char h hl (h61 h) ht' hs' hal, if_pos hsp]
              unfold tpSpTermEq
              rw [if_pos hoff]
            obtain ⟨h1, h2, h3⟩ := ps_runLoop_done _ hb hstep hr
            refine ⟨hsp, ps_pchar hal hs' ht', h2.symm, h3.symm, ?_⟩
            rw [if_pos h]; exact h1.symm
          · have hstep : (tpMachine flags offs).step b n c p =
                .done (psSpOff b n) .ok { p with state := .fin } := by
              show tpStep flags offs b n c p = _
              rw [tpStep_fSep_char h hl ht' hs' hal, if_pos hsp]
              exact ps_spTermSep p hoff
            obtain ⟨h1, h2, h3⟩ := ps_runLoop_done _ hb hstep hr
            refine ⟨hsp, ps_pchar hal hs' ht', h2.symm, h3.symm, ?_⟩
            rw [if_neg (by rw [h]; decide)]; exact h1.symm
        · exfalso
          have hstep : (tpMachine flags offs).step b n c p = .done n .badChar { p with state := .err } := by
            show tpStep flags offs b n c p = _
            rcases hst with h | h
            · rw [tpStep_fEq_char h hl (h61 h) ht' hs' hal, if_neg hsp]
            · rw [tpStep_fSep_char h hl ht' hs' hal, if_neg hsp]
          obtain ⟨_, h2, _⟩ := ps_runLoop_done _ hb hstep hr
          exact ha.not_badChar h2.symm
      · exfalso
        have hstep : (tpMachine flags offs).step b n c p = .done n .badChar { p with state := .err } := by
          rcases hst with h | h
          · exact tpStep_fEq_bad h hl (h61 h) ht' hs' (ps_not_true hal)
          · exact tpStep_fSep_bad h hl ht' hs' (ps_not_true hal)
        obtain ⟨_, h2, _⟩ := ps_runLoop_done _ hb hstep hr
        exact ha.not_badChar h2.symm

theorem ps_spOff_ws {n : Nat} {c : UInt8} (h : b[n - 1]? = some c) (hw : isWS c = true) : psSpOff b n = n - 1 := by
  unfold psSpOff
  rw [h]
  simp only [ws_lws hw, if_true]

theorem ps_spOff_quote {n : Nat} (h : b[n - 1]? = some 34) : psSpOff b n = n := by
  unfold psSpOff
  rw [h]
  rfl

/-- the same with the linear white space `[j, n)` between the end `j` of the name / value and the byte -/
theorem ps_closed_at {j n : Nat} {c : UInt8} {p p' : PTokParam} {o' : Nat} {e : Err}
    (hst : p.state = .fEq ∨ p.state = .fSep) (hlw : Lws b j n) (hb : b[n]? = some c) (hl : isLWSch c = false)
    (h61 : p.state = .fEq → (c == 61) = false) (hoff : offs + 1 ≤ n)
    (hjn : j < n ∨ (j = n ∧ p.state = .fSep ∧ b[n - 1]? = some 34))
    (hr : runLoop (tpMachine flags offs) b n p = (o', e, p')) (ha : PSAcc e) :
    ∃ st, PSClose b flags j o' e st ∧ p' = { p with state := st } := by
  rcases ps_closed_char hst hb hl h61 hoff hr ha with ⟨hc, hne, h1, h2, h3⟩ | ⟨hc, st, hA, h3⟩ |
      ⟨hsp, hpc, h2, h3, h1⟩
  · rw [h1, h2]
    rw [hc] at hb
    exact ⟨.fin, PSClose.ending _ _ _ _ (Ending.term j n hlw hb hne), h3⟩
  · rw [hc] at hb
    exact ⟨st, PSClose.ending _ _ _ _ (Ending.sep j n o' e st hlw hb hA), h3⟩
  · rw [h2]
    refine ⟨.fin, ?_, h3⟩
    rcases hjn with hjn | ⟨hjn, hfs, hq⟩
    · obtain ⟨cl, hcl, hwl⟩ := hlw.last hjn
      have : o' = n - 1 := by
        rw [h1]
        split
        · rfl
        · exact ps_spOff_ws hcl hwl
      rw [this]
      exact PSClose.spterm j n c hsp hlw hjn hb hpc
    · have : o' = n := by
        rw [h1, if_neg (by rw [hfs]; decide)]
        exact ps_spOff_quote hq
      rw [this, hjn]
      exact PSClose.sptermQ n c hsp hq hb hpc

theorem PSEnd.close {i q n crl : Nat} (hl : Lws b i q) (h : PSEnd b flags q n crl) :
    PSClose b flags i (n + crl) .eoh .fin := PSClose.ending _ _ _ _ (h.ending hl)

/-- **the state after a complete value, inverted** (reached after the closing quote of a quoted value) -/
theorem ps_fSep {i : Nat} {p p' : PTokParam} {o' : Nat} {e : Err} (hst : p.state = .fSep) (hoff : offs + 1 ≤ i)
    (hq : b[i - 1]? = some 34)
    (hr : runLoop (tpMachine flags offs) b i p = (o', e, p')) (ha : PSAcc e) :
    ∃ st, PSClose b flags i o' e st ∧ p' = { p with state := st } := by
  have hopen : p.state.isOpen := Or.inr (Or.inr (Or.inr (Or.inr (Or.inr hst))))
  cases hb : b[i]? with
  | none =>
    obtain ⟨hf, hm⟩ := ps_eob hb hr ha
    rw [tpMoreBytes_end_id flags b hf (Or.inr (Or.inl hst)) i] at hm
    obtain ⟨h1, h2, h3⟩ := ps_tpEOH_open hopen hm
    subst h1 h2 h3
    exact ⟨.fin, (PSEnd.inputEnd i hf (EndTail.none i hb)).close (Lws.nil i), rfl⟩
  | some c =>
    by_cases hl : isLWSch c = true
    · rcases ps_lws hb (tpStep_fSep_lws hst hl)
        (fun hf => tpMoreBytes_end_id flags b hf (Or.inr (Or.inl hst)) i) hr ha with
        ⟨n, c', hln, hin, hc', hl', hr'⟩ | ⟨q, n, crl, hlq, hend, hr'⟩
      · exact ps_closed_at (Or.inr hst) hln hc' hl' (fun h => by rw [hst] at h; cases h) (by omega)
          (Or.inl hin) hr' ha
      · obtain ⟨h1, h2, h3⟩ := ps_tpEOH_open (p := p) hopen hr'
        subst h1 h2 h3
        exact ⟨.fin, hend.close hlq, rfl⟩
    · exact ps_closed_at (Or.inr hst) (Lws.nil i) hb (ps_not_true hl) (fun h => by rw [hst] at h; cases h) hoff
        (Or.inr ⟨rfl, hst, hq⟩) hr ha

/-! ### token values -/

theorem ps_extVal_obj (p : PTokParam) (i : Nat) (h1 : p.val.offs ≤ i) (h2 : p.all.offs ≤ i) (hi : i ≤ 65535) :
    (p.extVal i).extAll i =
      { p with val := ⟨p.val.offs, i - p.val.offs⟩, all := ⟨p.all.offs, i - p.all.offs⟩ } := by
  rw [extAll_eq (p.extVal i) i (by exact h2) hi, extVal_eq p i h1 hi]

theorem PRun.ps_cons {i j : Nat} {c : UInt8} (hb : b[i]? = some c) (hc : PChar flags c)
    (h : PRun b flags (i + 1) j) : PRun b flags i j := by
  intro k h1 h2
  by_cases hk : k = i
  · subst hk; exact ⟨c, hb, hc⟩
  · exact h k (by omega) h2

/-- **a token value, inverted**: from a position inside an unquoted value the loop walks over name / value bytes
    up to some `v1` where the parameter ends in one of the ways of `PSClose`; the value and `all` are extended to
    `v1` -/
theorem ps_val (flags offs : Nat) (b : Buf) (hfit : b.size ≤ 65535) {o' : Nat} {e : Err} {p' : PTokParam} :
    ∀ (k i : Nat) (p : PTokParam), b.size - i = k → i ≤ b.size → p.state = .val → p.val.offs ≤ i →
      p.all.offs ≤ i → offs + 1 ≤ i → runLoop (tpMachine flags offs) b i p = (o', e, p') → PSAcc e →
      ∃ v1 st, i ≤ v1 ∧ PRun b flags i v1 ∧ PSClose b flags v1 o' e st ∧
        p' = { p with val := ⟨p.val.offs, v1 - p.val.offs⟩, all := ⟨p.all.offs, v1 - p.all.offs⟩, state := st } := by
  intro k
  induction k using Nat.strongRecOn with
  | _ k ih =>
    intro i p hk hi hst hv hall hoff hr ha
    have hobj := ps_extVal_obj p i hv hall (by omega)
    have hopen : ((p.extVal i).extAll i).state.isOpen := Or.inr (Or.inr (Or.inr (Or.inr (Or.inl hst))))
    have hempty : PRun b flags i i := fun k h1 h2 => by omega
    cases hb : b[i]? with
    | none =>
      obtain ⟨hf, hm⟩ := ps_eob hb hr ha
      unfold tpMoreBytes at hm
      rw [if_pos hf] at hm
      simp only [hst] at hm
      obtain ⟨h1, h2, h3⟩ := ps_tpEOH_open hopen hm
      subst h1 h2 h3
      refine ⟨i, .fin, Nat.le_refl _, hempty, (PSEnd.inputEnd i hf (EndTail.none i hb)).close (Lws.nil i), ?_⟩
      rw [hobj]
    | some c =>
      have hlt := get?_lt hb
      by_cases hl : isLWSch c = true
      · rcases ps_lws (upd := fun p => { (p.extVal i).extAll i with state := .fSep }) hb (tpStep_val_lws hst hl)
          (by
            intro hf
            unfold tpMoreBytes
            rw [if_pos hf]
            simp only [hst]
            rw [tpEOH_open (p := (p.extVal i).extAll i) hopen,
              tpEOH_open (p := { (p.extVal i).extAll i with state := .fSep })
                (Or.inr (Or.inr (Or.inr (Or.inr (Or.inr rfl)))))]) hr ha with
          ⟨n, c', hln, hin, hc', hl', hr'⟩ | ⟨q, n, crl, hlq, hend, hr'⟩
        · obtain ⟨st, hC, hp'⟩ := ps_closed_at (p := { (p.extVal i).extAll i with state := .fSep }) (Or.inr rfl) hln
            hc' hl' (fun h => by cases h) (by omega) (Or.inl hin) hr' ha
          refine ⟨i, st, Nat.le_refl _, hempty, hC, ?_⟩
          rw [hp', hobj]
        · obtain ⟨h1, h2, h3⟩ := ps_tpEOH_open (p := { (p.extVal i).extAll i with state := .fSep })
            (Or.inr (Or.inr (Or.inr (Or.inr (Or.inr rfl))))) hr'
          subst h1 h2 h3
          refine ⟨i, .fin, Nat.le_refl _, hempty, hend.close hlq, ?_⟩
          rw [hobj]
      · have hl' := ps_not_true hl
        by_cases ht : (c == tpTerm flags && tpTerm flags != 0) = true
        · have hstep : (tpMachine flags offs).step b i c p = .done i .ok { (p.extVal i).extAll i with state := .fin } :=
            tpStep_val_term hst hl' ht
          obtain ⟨h1, h2, h3⟩ := ps_runLoop_done _ hb hstep hr
          have hc : c = tpTerm flags ∧ tpTerm flags ≠ 0 := by simpa using ht
          rw [hc.1] at hb
          refine ⟨i, .fin, Nat.le_refl _, hempty, ?_, ?_⟩
          · rw [← h1, ← h2]
            exact PSClose.ending _ _ _ _ (Ending.term i i (Lws.nil i) hb hc.2)
          · rw [← h3, hobj]
        · have ht' := ps_not_true ht
          by_cases hs : (c == tpSep flags) = true
          · have hstep : (tpMachine flags offs).step b i c p =
                .cont (i + 1) { (p.extVal i).extAll i with state := .fNxt } := tpStep_val_sep hst hl' ht' hs
            obtain ⟨_, hr'⟩ := ps_runLoop_cont _ hb hstep hr ha.ne_lbug
            obtain ⟨st, hA, hp'⟩ := ps_afterSep flags offs b _ (i + 1) _ rfl rfl hr' ha
            have hc : c = tpSep flags := by simpa using hs
            rw [hc] at hb
            refine ⟨i, st, Nat.le_refl _, hempty,
              PSClose.ending _ _ _ _ (Ending.sep i i o' e st (Lws.nil i) hb hA), ?_⟩
            rw [hp', hobj]
          · have hs' := ps_not_true hs
            by_cases hal : tokAllowedChar c flags = true
            · have hstep : (tpMachine flags offs).step b i c p = .cont (i + 1) p :=
                tpStep_val_char hst hl' ht' hs' hal
              obtain ⟨_, hr'⟩ := ps_runLoop_cont _ hb hstep hr ha.ne_lbug
              obtain ⟨v1, st, h1, h2, h3, h4⟩ := ih (b.size - (i + 1)) (by omega) (i + 1) p rfl (by omega) hst
                (by omega) (by omega) (by omega) hr' ha
              exact ⟨v1, st, by omega, h2.ps_cons hb (ps_pchar hal hs' ht'), h3, h4⟩
            · exfalso
              have hstep : (tpMachine flags offs).step b i c p = .done i .badChar { p with state := .err } :=
                tpStep_val_bad hst hl' ht' hs' (ps_not_true hal)
              obtain ⟨_, h2, _⟩ := ps_runLoop_done _ hb hstep hr
              exact ha.not_badChar h2.symm

/-! ### quoted strings -/

/-- **`SkipQuoted`, inverted**: what it accepts is a well-formed quoted-string body (plain bytes, escape pairs,
    the closing quote) -/
theorem ps_qbody (b : Buf) {n : Nat} {u : Unit} :
    ∀ (k i : Nat), b.size - i = k → runLoop sqMachine b i () = (n, .ok, u) → QBody b i n := by
  intro k
  induction k using Nat.strongRecOn with
  | _ k ih =>
    intro i hk hr
    cases hb : b[i]? with
    | none =>
      rw [runLoop_none sqMachine () hb] at hr
      simp only [sqMachine, Prod.mk.injEq] at hr
      exact absurd hr.2.1 (by decide)
    | some c =>
      have hlt := get?_lt hb
      have hs := ps_runLoop_some sqMachine hb hr (by decide)
      change (sqStep b i c () = _ ∨ ∃ i' st1, sqStep b i c () = _ ∧ _) at hs
      unfold sqStep at hs
      by_cases h34 : (c == 34) = true
      · simp only [h34, ↓reduceIte] at hs
        rcases hs with hs | ⟨i', st1, hs, _⟩
        · cases hs
          have : c = 34 := by simpa using h34
          rw [this] at hb
          exact QBody.close i hb
        · cases hs
      · simp only [h34, Bool.false_eq_true, ↓reduceIte] at hs
        by_cases h92 : (c == 92) = true
        · simp only [h92, ↓reduceIte] at hs
          have e92 : c = 92 := by simpa using h92
          rw [e92] at hb
          cases h1 : b[i + 1]? with
          | none =>
            rw [h1] at hs
            rcases hs with hs | ⟨i', st1, hs, _⟩ <;> cases hs
          | some c1 =>
            rw [h1] at hs
            simp only at hs
            by_cases hcr : isCRLFch c1 = true
            · simp only [hcr, ↓reduceIte] at hs
              rcases hs with hs | ⟨i', st1, hs, _⟩ <;> cases hs
            · simp only [hcr, Bool.false_eq_true, ↓reduceIte] at hs
              rcases hs with hs | ⟨i', st1, hs, hlt', hr'⟩
              · cases hs
              · cases hs
                have := get?_lt h1
                exact QBody.esc i n c1 hb h1 (ps_not_true hcr) (ih (b.size - (i + 2)) (by omega) (i + 2) rfl hr')
        · simp only [h92, Bool.false_eq_true, ↓reduceIte] at hs
          by_cases h3 : (c == 10 || c == 13 || c == 127) = true
          · simp only [h3, ↓reduceIte] at hs
            rcases hs with hs | ⟨i', st1, hs, _⟩ <;> cases hs
          · simp only [h3, Bool.false_eq_true, ↓reduceIte] at hs
            by_cases h4 : (decide (c < 33) && c != 32 && c != 9) = true
            · simp only [h4, ↓reduceIte] at hs
              rcases hs with hs | ⟨i', st1, hs, _⟩ <;> cases hs
            · simp only [h4, Bool.false_eq_true, ↓reduceIte] at hs
              rcases hs with hs | ⟨i', st1, hs, hlt', hr'⟩
              · cases hs
              · cases hs
                have hq : QPlain c := by
                  have h3' := ps_not_true h3
                  have h4' := ps_not_true h4
                  simp only [Bool.or_eq_false_iff, beq_eq_false_iff_ne, ne_eq] at h3'
                  refine ⟨by simpa using h34, by simpa using h92, h3'.1.1, h3'.1.2, h3'.2, ?_⟩
                  intro hc
                  simp only [hc, decide_true, Bool.true_and, Bool.and_eq_false_iff, bne_eq_false_iff_eq] at h4'
                  exact h4'
                exact QBody.plain i n c hb hq (ih (b.size - (i + 1)) (by omega) (i + 1) rfl hr')

theorem ps_skipQuoted_qbody {b : Buf} {i n : Nat} (h : skipQuoted b i = (n, .ok)) : QBody b i n := by
  unfold skipQuoted at h
  rcases hr : runLoop sqMachine b i () with ⟨o, e, u⟩
  rw [hr] at h
  simp only [Prod.mk.injEq] at h
  obtain ⟨rfl, rfl⟩ := h
  exact ps_qbody b _ i rfl hr

/-- the step inside a quoted value, inverted: `SkipQuoted` found the closing quote and the loop continues after
    it in the state after a value -/
theorem ps_quoted_step {i : Nat} {c : UInt8} {p p' : PTokParam} {o' : Nat} {e : Err} (hst : p.state = .quotedVal)
    (hb : b[i]? = some c) (hr : runLoop (tpMachine flags offs) b i p = (o', e, p')) (ha : PSAcc e) :
    ∃ qe, skipQuoted b i = (qe, .ok) ∧ i < qe ∧
      runLoop (tpMachine flags offs) b qe { (p.extVal qe).extAll qe with state := .fSep } = (o', e, p') := by
  rcases hq : skipQuoted b i with ⟨qe, r⟩
  by_cases hok : r = .ok
  · subst hok
    have hstep : (tpMachine flags offs).step b i c p = .cont qe { (p.extVal qe).extAll qe with state := .fSep } :=
      tpStep_quoted_ok hst hq
    obtain ⟨hlt, hr'⟩ := ps_runLoop_cont _ hb hstep hr ha.ne_lbug
    exact ⟨qe, rfl, hlt, hr'⟩
  · exfalso
    have hs := ps_runLoop_some (tpMachine flags offs) hb hr ha.ne_lbug
    change (tpStep flags offs b i c p = _ ∨ ∃ i' st1, tpStep flags offs b i c p = _ ∧ _) at hs
    unfold tpStep at hs
    simp only [hst] at hs
    rw [hq] at hs
    cases r
    case ok => exact hok rfl
    case moreBytes =>
      simp only [stepOfRes] at hs
      have hm : (tpMoreBytes b flags p qe).2.1 = .moreBytes := by
        unfold tpMoreBytes
        split
        · simp only [hst]
        · rfl
      rcases hs with hs | ⟨i', st1, hs, _⟩
      · simp only [Step.done.injEq] at hs
        rw [hs.2.1] at hm
        rcases ha with h | h | h <;> (rw [h] at hm; cases hm)
      · cases hs
    case eoh =>
      simp only [stepOfRes] at hs
      have hm : (tpEOH p qe 0).2.1 = .bug := by
        unfold tpEOH
        simp only [hst]
      rcases hs with hs | ⟨i', st1, hs, _⟩
      · simp only [Step.done.injEq] at hs
        rw [hs.2.1] at hm
        rcases ha with h | h | h <;> (rw [h] at hm; cases hm)
      · cases hs
    case moreValues => exact skipQuoted_ne_moreValues b i hq
    all_goals
      simp only at hs
      rcases hs with hs | ⟨i', st1, hs, _⟩
      · simp only [Step.done.injEq] at hs
        rcases ha with h | h | h <;> (rw [h] at hs; cases hs.2.1)
      · cases hs

/-! ### after `=` -/

/-- what follows the `=` of a parameter (`i` is the offset after the `=`, `p` the object at that point; the last
    three arguments are the offset, verdict and object reported): optional linear white space and then
    * a token value `[v0, v1)` and the end of the parameter,
    * a quoted value: opening quote at `v0`, body and closing quote up to `qe`, and the end of the parameter,
    * the separator: an EMPTY value recorded at the separator, and what follows the separator,
    * the terminator: an EMPTY value recorded at the terminator; `all` keeps the end it had,
    * the end of the header / input: NO value recorded. -/
inductive PSValue (b : Buf) (flags : Nat) (p : PTokParam) : Nat → Nat → Err → PTokParam → Prop
  | token (i v0 v1 o : Nat) (e : Err) (st : TPState) : Lws b i v0 → PRun b flags v0 v1 → v0 < v1 →
      PSClose b flags v1 o e st →
      PSValue b flags p i o e { p with val := ⟨v0, v1 - v0⟩, all := ⟨p.all.offs, v1 - p.all.offs⟩, state := st }
  | quoted (i v0 qe o : Nat) (e : Err) (st : TPState) : Lws b i v0 → b[v0]? = some 34 → QBody b (v0 + 1) qe →
      PSClose b flags qe o e st →
      PSValue b flags p i o e { p with val := ⟨v0, qe - v0⟩, all := ⟨p.all.offs, qe - p.all.offs⟩, state := st }
  | emptySep (i s o : Nat) (e : Err) (st : TPState) : Lws b i s → b[s]? = some (tpSep flags) →
      AfterSep b flags (s + 1) o e st →
      PSValue b flags p i o e { p with val := ⟨s, 0⟩, all := ⟨p.all.offs, s - p.all.offs⟩, state := st }
  | emptyTerm (i u : Nat) : Lws b i u → b[u]? = some (tpTerm flags) → tpTerm flags ≠ 0 →
      PSValue b flags p i u .ok { p with val := ⟨u, 0⟩, state := .fin }
  | noValue (i q n crl : Nat) : Lws b i q → PSEnd b flags q n crl →
      PSValue b flags p i (n + crl) .eoh { p with state := .fin }

theorem ps_fVal_obj (p : PTokParam) (n : Nat) (h : p.all.offs ≤ n) (hn : n ≤ 65535) :
    ({ p with val := PField.set n n }).extAll n = { p with val := ⟨n, 0⟩, all := ⟨p.all.offs, n - p.all.offs⟩ } := by
  rw [set_self n hn, extAll_eq _ n (by exact h) hn]

/-- a byte that is not white space in the state after `=` -/
theorem ps_fVal_char (hfit : b.size ≤ 65535) {i n : Nat} {c : UInt8} {p p' : PTokParam} {o' : Nat} {e : Err}
    (hst : p.state = .fVal) (hlw : Lws b i n) (hall : p.all.offs ≤ i) (hoff : offs + 1 ≤ i)
    (hb : b[n]? = some c) (hl : isLWSch c = false)
    (hr : runLoop (tpMachine flags offs) b n p = (o', e, p')) (ha : PSAcc e) : PSValue b flags p i o' e p' := by
  have hlt := get?_lt hb
  have hin := hlw.le
  have hobj := ps_fVal_obj p n (by omega) (by omega)
  by_cases h34 : (c == 34) = true
  · have e34 : c = 34 := by simpa using h34
    have hstep : (tpMachine flags offs).step b n c p =
        .cont (n + 1) { ({ p with val := PField.set n n }).extAll n with state := .quotedVal } :=
      tpStep_fVal_quote hst hl h34
    rw [hobj] at hstep
    obtain ⟨_, hr1⟩ := ps_runLoop_cont _ hb hstep hr ha.ne_lbug
    rw [e34] at hb
    cases hb1 : b[n + 1]? with
    | none =>
      exfalso
      obtain ⟨hf, hm⟩ := ps_eob hb1 hr1 ha
      unfold tpMoreBytes at hm
      rw [if_pos hf] at hm
      simp only at hm
      cases hm
      rcases ha with h | h | h <;> cases h
    | some c1 =>
      obtain ⟨qe, hq, hlt', hr2⟩ := ps_quoted_step rfl hb1 hr1 ha
      have hle := skipQuoted_ok_le b (n + 1) hq
      have hprev := (skipQuoted_ok_prev b (n + 1) hq).1
      rw [extAll_eq _ qe (by show p.all.offs ≤ qe; omega) (by omega),
        extVal_eq _ qe (by show n ≤ qe; omega) (by omega)] at hr2
      obtain ⟨st, hC, hp'⟩ := ps_fSep rfl (by omega) hprev hr2 ha
      rw [hp']
      exact PSValue.quoted i n qe o' e st hlw hb (ps_skipQuoted_qbody hq) hC
  · have h34' := ps_not_true h34
    by_cases ht : (c == tpTerm flags && tpTerm flags != 0) = true
    · have hstep : (tpMachine flags offs).step b n c p =
          .done n .ok { p with val := PField.set n n, state := .fin } := tpStep_fVal_term hst hl h34' ht
      obtain ⟨h1, h2, h3⟩ := ps_runLoop_done _ hb hstep hr
      have hc : c = tpTerm flags ∧ tpTerm flags ≠ 0 := by simpa using ht
      rw [hc.1] at hb
      rw [← h1, ← h2, ← h3, set_self n (by omega)]
      exact PSValue.emptyTerm i n hlw hb hc.2
    · have ht' := ps_not_true ht
      by_cases hs : (c == tpSep flags) = true
      · have hstep : (tpMachine flags offs).step b n c p =
            .cont (n + 1) { ({ p with val := PField.set n n }).extAll n with state := .fNxt } :=
          tpStep_fVal_sep hst hl h34' ht' hs
        rw [hobj] at hstep
        obtain ⟨_, hr'⟩ := ps_runLoop_cont _ hb hstep hr ha.ne_lbug
        obtain ⟨st, hA, hp'⟩ := ps_afterSep flags offs b _ (n + 1) _ rfl rfl hr' ha
        have hc : c = tpSep flags := by simpa using hs
        rw [hc] at hb
        rw [hp']
        exact PSValue.emptySep i n o' e st hlw hb hA
      · have hs' := ps_not_true hs
        by_cases hal : tokAllowedChar c flags = true
        · have hstep : (tpMachine flags offs).step b n c p =
              .cont (n + 1) { ({ p with val := PField.set n n }).extAll n with state := .val } :=
            tpStep_fVal_char hst hl h34' ht' hs' hal
          rw [hobj] at hstep
          obtain ⟨_, hr'⟩ := ps_runLoop_cont _ hb hstep hr ha.ne_lbug
          obtain ⟨v1, st, h1, h2, h3, h4⟩ := ps_val flags offs b hfit _ (n + 1)
            { p with val := ⟨n, 0⟩, all := ⟨p.all.offs, n - p.all.offs⟩, state := .val } rfl (by omega) rfl
            (by show n ≤ n + 1; omega) (by show p.all.offs ≤ n + 1; omega) (by omega) hr' ha
          rw [h4]
          exact PSValue.token i n v1 o' e st hlw (h2.ps_cons hb (ps_pchar hal hs' ht')) (by omega) h3
        · exfalso
          have hstep : (tpMachine flags offs).step b n c p = .done n .badChar { p with state := .err } :=
            tpStep_fVal_bad hst hl h34' ht' hs' (ps_not_true hal)
          obtain ⟨_, h2, _⟩ := ps_runLoop_done _ hb hstep hr
          exact ha.not_badChar h2.symm

/-- **the state after `=`, inverted** -/
theorem ps_fVal (hfit : b.size ≤ 65535) {i : Nat} {p p' : PTokParam} {o' : Nat} {e : Err}
    (hst : p.state = .fVal) (hall : p.all.offs ≤ i) (hoff : offs + 1 ≤ i)
    (hr : runLoop (tpMachine flags offs) b i p = (o', e, p')) (ha : PSAcc e) : PSValue b flags p i o' e p' := by
  have hopen : p.state.isOpen := Or.inr (Or.inr (Or.inr (Or.inl hst)))
  cases hb : b[i]? with
  | none =>
    obtain ⟨hf, hm⟩ := ps_eob hb hr ha
    rw [tpMoreBytes_end_id flags b hf (Or.inr (Or.inr (Or.inl hst))) i] at hm
    obtain ⟨h1, h2, h3⟩ := ps_tpEOH_open hopen hm
    rw [← h1, ← h2, ← h3]
    exact PSValue.noValue i i b.size 0 (Lws.nil i) (PSEnd.inputEnd i hf (EndTail.none i hb))
  | some c =>
    by_cases hl : isLWSch c = true
    · rcases ps_lws hb (tpStep_fVal_lws hst hl)
        (fun hf => tpMoreBytes_end_id flags b hf (Or.inr (Or.inr (Or.inl hst))) i) hr ha with
        ⟨n, c', hln, hin, hc', hl', hr'⟩ | ⟨q, n, crl, hlq, hend, hr'⟩
      · exact ps_fVal_char hfit hst hln hall hoff hc' hl' hr' ha
      · obtain ⟨h1, h2, h3⟩ := ps_tpEOH_open (p := p) hopen hr'
        rw [← h1, ← h2, ← h3]
        exact PSValue.noValue i q n crl hlq hend
    · exact ps_fVal_char hfit hst (Lws.nil i) hall hoff hb (ps_not_true hl) hr ha

/-! ### names -/

/-- the object after `name [LWS] =` (`n1` end of the name, `q` offset of the `=`): `all` ends after the `=` when it
    follows the name directly, and at the end of the name otherwise -/
def psAfterEq (p : PTokParam) (n1 q : Nat) : PTokParam :=
  { p with name := ⟨p.name.offs, n1 - p.name.offs⟩, all := ⟨p.all.offs, (if n1 = q then q + 1 else n1) - p.all.offs⟩, state := .fVal }

/-- what follows the name that ends at `n1` (`p` is the object while the name is being read): the parameter ends
    there (no value), or optional linear white space, `=` and what follows it -/
inductive PSAfterName (b : Buf) (flags : Nat) (p : PTokParam) : Nat → Nat → Err → PTokParam → Prop
  | close (n1 o : Nat) (e : Err) (st : TPState) : PSClose b flags n1 o e st →
      PSAfterName b flags p n1 o e
        { p with name := ⟨p.name.offs, n1 - p.name.offs⟩, all := ⟨p.all.offs, n1 - p.all.offs⟩, state := st }
  | value (n1 q o : Nat) (e : Err) (p' : PTokParam) : Lws b n1 q → b[q]? = some 61 →
      PSValue b flags (psAfterEq p n1 q) (q + 1) o e p' → PSAfterName b flags p n1 o e p'

theorem ps_extName_obj (p : PTokParam) (i j : Nat) (h1 : p.name.offs ≤ i) (h2 : p.all.offs ≤ j) (hi : i ≤ 65535)
    (hj : j ≤ 65535) :
    (p.extName i).extAll j =
      { p with name := ⟨p.name.offs, i - p.name.offs⟩, all := ⟨p.all.offs, j - p.all.offs⟩ } := by
  rw [extAll_eq (p.extName i) j (by exact h2) hj, extName_eq p i h1 hi]

/-- **a name, inverted**: from a position inside a name the loop walks over name bytes up to some `n1`, where
    the parameter ends or its value follows -/
theorem ps_name (flags offs : Nat) (b : Buf) (hfit : b.size ≤ 65535) {o' : Nat} {e : Err} {p' : PTokParam} :
    ∀ (k i : Nat) (p : PTokParam), b.size - i = k → i ≤ b.size → p.state = .name → p.name.offs ≤ i →
      p.all.offs ≤ i → offs + 1 ≤ i → runLoop (tpMachine flags offs) b i p = (o', e, p') → PSAcc e →
      ∃ n1, i ≤ n1 ∧ PRun b flags i n1 ∧ PSAfterName b flags p n1 o' e p' := by
  intro k
  induction k using Nat.strongRecOn with
  | _ k ih =>
    intro i p hk hi hst hv hall hoff hr ha
    have hobj := ps_extName_obj p i i hv hall (by omega) (by omega)
    have hopen : ((p.extName i).extAll i).state.isOpen := Or.inr (Or.inl hst)
    have hempty : PRun b flags i i := fun k h1 h2 => by omega
    cases hb : b[i]? with
    | none =>
      obtain ⟨hf, hm⟩ := ps_eob hb hr ha
      unfold tpMoreBytes at hm
      rw [if_pos hf] at hm
      simp only [hst] at hm
      obtain ⟨h1, h2, h3⟩ := ps_tpEOH_open hopen hm
      refine ⟨i, Nat.le_refl _, hempty, ?_⟩
      rw [← h1, ← h2, ← h3, hobj]
      exact PSAfterName.close i _ _ _ ((PSEnd.inputEnd i hf (EndTail.none i hb)).close (Lws.nil i))
    | some c =>
      have hlt := get?_lt hb
      by_cases hl : isLWSch c = true
      · rcases ps_lws (upd := fun p => { (p.extName i).extAll i with state := .fEq }) hb (tpStep_name_lws hst hl)
          (by
            intro hf
            unfold tpMoreBytes
            rw [if_pos hf]
            simp only [hst]
            rw [tpEOH_open (p := (p.extName i).extAll i) hopen,
              tpEOH_open (p := { (p.extName i).extAll i with state := .fEq })
                (Or.inr (Or.inr (Or.inl rfl)))]) hr ha with
          ⟨n, c', hln, hin, hc', hl', hr'⟩ | ⟨q, n, crl, hlq, hend, hr'⟩
        · refine ⟨i, Nat.le_refl _, hempty, ?_⟩
          have hn := get?_lt hc'
          by_cases h61 : (c' == 61) = true
          · have e61 : c' = 61 := by simpa using h61
            have hstep : (tpMachine flags offs).step b n c' { (p.extName i).extAll i with state := .fEq } =
                .cont (n + 1) { (p.extName i).extAll i with state := .fVal } :=
              tpStep_fEq_eq (p := { (p.extName i).extAll i with state := .fEq }) rfl hl' h61
            obtain ⟨_, hr2⟩ := ps_runLoop_cont _ hc' hstep hr' ha.ne_lbug
            have hX : { (p.extName i).extAll i with state := .fVal } = psAfterEq p i n := by
              rw [hobj]
              unfold psAfterEq
              rw [if_neg (by omega)]
            rw [hX] at hr2
            have hV := ps_fVal hfit (p := psAfterEq p i n) rfl (by show p.all.offs ≤ n + 1; omega) (by omega) hr2 ha
            rw [e61] at hc'
            exact PSAfterName.value i n o' e p' hln hc' hV
          · obtain ⟨st, hC, hp'⟩ := ps_closed_at (p := { (p.extName i).extAll i with state := .fEq }) (Or.inl rfl)
              hln hc' hl' (fun _ => ps_not_true h61) (by omega) (Or.inl hin) hr' ha
            rw [hp', hobj]
            exact PSAfterName.close i o' e st hC
        · obtain ⟨h1, h2, h3⟩ := ps_tpEOH_open (p := { (p.extName i).extAll i with state := .fEq })
            (Or.inr (Or.inr (Or.inl rfl))) hr'
          refine ⟨i, Nat.le_refl _, hempty, ?_⟩
          rw [← h1, ← h2, ← h3, hobj]
          exact PSAfterName.close i _ _ _ (hend.close hlq)
      · have hl' := ps_not_true hl
        by_cases h61 : (c == 61) = true
        · have e61 : c = 61 := by simpa using h61
          have hstep : (tpMachine flags offs).step b i c p =
              .cont (i + 1) { (p.extName i).extAll (i + 1) with state := .fVal } := tpStep_name_eq hst hl' h61
          obtain ⟨_, hr2⟩ := ps_runLoop_cont _ hb hstep hr ha.ne_lbug
          have hX : { (p.extName i).extAll (i + 1) with state := .fVal } = psAfterEq p i i := by
            rw [ps_extName_obj p i (i + 1) hv (by omega) (by omega) (by omega)]
            unfold psAfterEq
            rw [if_pos rfl]
          rw [hX] at hr2
          have hV := ps_fVal hfit (p := psAfterEq p i i) rfl (by show p.all.offs ≤ i + 1; omega) (by omega) hr2 ha
          rw [e61] at hb
          exact ⟨i, Nat.le_refl _, hempty, PSAfterName.value i i o' e p' (Lws.nil i) hb hV⟩
        · have h61' := ps_not_true h61
          by_cases ht : (c == tpTerm flags && tpTerm flags != 0) = true
          · have hstep : (tpMachine flags offs).step b i c p =
                .done i .ok { (p.extName i).extAll i with state := .fin } := tpStep_name_term hst hl' h61' ht
            obtain ⟨h1, h2, h3⟩ := ps_runLoop_done _ hb hstep hr
            have hc : c = tpTerm flags ∧ tpTerm flags ≠ 0 := by simpa using ht
            rw [hc.1] at hb
            refine ⟨i, Nat.le_refl _, hempty, ?_⟩
            rw [← h1, ← h2, ← h3, hobj]
            exact PSAfterName.close i _ _ _ (PSClose.ending _ _ _ _ (Ending.term i i (Lws.nil i) hb hc.2))
          · have ht' := ps_not_true ht
            by_cases hs : (c == tpSep flags) = true
            · have hstep : (tpMachine flags offs).step b i c p =
                  .cont (i + 1) { (p.extName i).extAll i with state := .fNxt } :=
                tpStep_name_sep hst hl' h61' ht' hs
              obtain ⟨_, hr'⟩ := ps_runLoop_cont _ hb hstep hr ha.ne_lbug
              obtain ⟨st, hA, hp'⟩ := ps_afterSep flags offs b _ (i + 1) _ rfl rfl hr' ha
              have hc : c = tpSep flags := by simpa using hs
              rw [hc] at hb
              refine ⟨i, Nat.le_refl _, hempty, ?_⟩
              rw [hp', hobj]
              exact PSAfterName.close i _ _ _
                (PSClose.ending _ _ _ _ (Ending.sep i i o' e st (Lws.nil i) hb hA))
            · have hs' := ps_not_true hs
              by_cases hal : tokAllowedChar c flags = true
              · have hstep : (tpMachine flags offs).step b i c p = .cont (i + 1) p :=
                  tpStep_name_char hst hl' h61' ht' hs' hal
                obtain ⟨_, hr'⟩ := ps_runLoop_cont _ hb hstep hr ha.ne_lbug
                obtain ⟨n1, h1, h2, h3⟩ := ih (b.size - (i + 1)) (by omega) (i + 1) p rfl (by omega) hst
                  (by omega) (by omega) (by omega) hr' ha
                exact ⟨n1, by omega, h2.ps_cons hb (ps_pchar hal hs' ht'), h3⟩
              · exfalso
                have hstep : (tpMachine flags offs).step b i c p = .done i .badChar { p with state := .err } :=
                  tpStep_name_bad hst hl' h61' ht' hs' (ps_not_true hal)
                obtain ⟨_, h2, _⟩ := ps_runLoop_done _ hb hstep hr
                exact ha.not_badChar h2.symm

/-! ### the start of a parameter; one call -/

/-- the object once the first byte of the name has been read at `n0` -/
def psNamed (p : PTokParam) (n0 : Nat) : PTokParam := { p with state := .name, name := ⟨n0, 0⟩, all := ⟨n0, 0⟩ }

/-- **everything ParseTokenParam accepts** from offset `o` with an object `p` in its initial state (the last three
    arguments are the offset, verdict and object reported): after skipped empty items and linear white space
    * `empty`: the end of the header / input — `EOH`, the object is returned as it was (nothing parsed);
    * `named`: a name `[n0, n1)` — its first byte any allowed byte but the separator (at the start of a call the
      terminator is not special), the others allowed bytes other than separator and terminator — and what follows
      it (`PSAfterName`). -/
inductive PSParam (b : Buf) (flags : Nat) (p : PTokParam) : Nat → Nat → Err → PTokParam → Prop
  | empty (o t q n crl : Nat) : Pad b (tpSep flags) o t → Lws b t q → PSEnd b flags q n crl →
      PSParam b flags p o (n + crl) .eoh p
  | named (o t n0 n1 o' : Nat) (c0 : UInt8) (e : Err) (p' : PTokParam) : Pad b (tpSep flags) o t → Lws b t n0 →
      b[n0]? = some c0 → tokAllowedChar c0 flags = true → c0 ≠ tpSep flags → PRun b flags (n0 + 1) n1 → n0 < n1 →
      PSAfterName b flags (psNamed p n0) n1 o' e p' → PSParam b flags p o o' e p'

theorem PSParam.ps_prepend {p p' : PTokParam} {i n o : Nat} {e : Err} (h : PSParam b flags p n o e p')
    (h1 : Lws b i n) : PSParam b flags p i o e p' := by
  cases h with
  | empty t q n' crl hp hl hend =>
    obtain ⟨t', hp', hl'⟩ := ps_pad_lws_prepend h1 hp hl
    exact PSParam.empty i t' q n' crl hp' hl' hend
  | named t n0 n1 o'' c0 e' p'' hp hl hb ha hs hrun hlt hA =>
    obtain ⟨t', hp', hl'⟩ := ps_pad_lws_prepend h1 hp hl
    exact PSParam.named i t' n0 n1 o c0 e p' hp' hl' hb ha hs hrun hlt hA

theorem PSParam.ps_cons_sep {p p' : PTokParam} {i o : Nat} {e : Err} (h : PSParam b flags p (i + 1) o e p')
    (hs : b[i]? = some (tpSep flags)) : PSParam b flags p i o e p' := by
  cases h with
  | empty t q n' crl hp hl hend => exact PSParam.empty i t q n' crl (Pad.item i i t (Lws.nil i) hs hp) hl hend
  | named t n0 n1 o'' c0 e' p'' hp hl hb ha hs' hrun hlt hA =>
    exact PSParam.named i t n0 n1 o c0 e p' (Pad.item i i t (Lws.nil i) hs hp) hl hb ha hs' hrun hlt hA

/-- **the start of a parameter, inverted** -/
theorem ps_start (flags offs : Nat) (b : Buf) (hfit : b.size ≤ 65535) {o' : Nat} {e : Err} {p' : PTokParam} :
    ∀ (k i : Nat) (p : PTokParam), b.size - i = k → (p.state = .init ∨ p.state = .initNxtVal) → offs ≤ i →
      runLoop (tpMachine flags offs) b i p = (o', e, p') → PSAcc e → PSParam b flags p i o' e p' := by
  intro k
  induction k using Nat.strongRecOn with
  | _ k ih =>
    intro i p hk hst hoff hr ha
    have hstart : p.state.isStart := by
      rcases hst with h | h
      · exact Or.inl h
      · exact Or.inr (Or.inl h)
    cases hb : b[i]? with
    | none =>
      obtain ⟨hf, hm⟩ := ps_eob hb hr ha
      rw [tpMoreBytes_end_id flags b hf (Or.inl hstart) i] at hm
      obtain ⟨h1, h2, h3⟩ := ps_tpEOH_init hst hm
      rw [← h1, ← h2, ← h3]
      exact PSParam.empty i i i b.size 0 (Pad.nil i) (Lws.nil i) (PSEnd.inputEnd i hf (EndTail.none i hb))
    | some c =>
      have hlt := get?_lt hb
      by_cases hl : isLWSch c = true
      · rcases ps_lws hb (tpStep_start_lws hstart hl)
          (fun hf => tpMoreBytes_end_id flags b hf (Or.inl hstart) i) hr ha with
          ⟨n, c', hln, hin, hc', hl', hr'⟩ | ⟨q, n, crl, hlq, hend, hr'⟩
        · exact (ih (b.size - n) (by omega) n p rfl hst (by omega) hr' ha).ps_prepend hln
        · obtain ⟨h1, h2, h3⟩ := ps_tpEOH_init (p := p) hst hr'
          rw [← h1, ← h2, ← h3]
          exact PSParam.empty i i q n crl (Pad.nil i) hlq hend
      · have hl' := ps_not_true hl
        by_cases hs : (c == tpSep flags) = true
        · have hstep : (tpMachine flags offs).step b i c p = .cont (i + 1) p := tpStep_start_sep hstart hl' hs
          obtain ⟨_, hr'⟩ := ps_runLoop_cont _ hb hstep hr ha.ne_lbug
          have hc : c = tpSep flags := by simpa using hs
          rw [hc] at hb
          exact (ih (b.size - (i + 1)) (by omega) (i + 1) p rfl hst (by omega) hr' ha).ps_cons_sep hb
        · have hs' := ps_not_true hs
          by_cases hal : tokAllowedChar c flags = true
          · have hstep : (tpMachine flags offs).step b i c p = .cont (i + 1) (psNamed p i) := by
              have := tpStep_init_char (flags := flags) (offs := offs) (b := b) (i := i) hst hl' hs' hal
              rw [set_self i (by omega)] at this
              exact this
            obtain ⟨_, hr'⟩ := ps_runLoop_cont _ hb hstep hr ha.ne_lbug
            obtain ⟨n1, h1, h2, h3⟩ := ps_name flags offs b hfit _ (i + 1) (psNamed p i) rfl (by omega) rfl
              (by show i ≤ i + 1; omega) (by show i ≤ i + 1; omega) (by omega) hr' ha
            exact PSParam.named i i i n1 o' c e p' (Pad.nil i) (Lws.nil i) hb hal (by simpa using hs') h2
              (by omega) h3
          · exfalso
            have hstep : (tpMachine flags offs).step b i c p = .done i .badChar { p with state := .err } :=
              tpStep_start_bad hst hl' hs' (ps_not_true hal)
            obtain ⟨_, h2, _⟩ := ps_runLoop_done _ hb hstep hr
            exact ha.not_badChar h2.symm

end inv

/-- **SOUNDNESS of ParseTokenParam** (every buffer within the 65,535-byte limit, every offset, every option word —
    the end-of-input option included —, a new object): a result with verdict OK / MoreValues / EOH is one of the
    parameters described by `PSParam` -/
theorem parseTokenParam_sound {b : Buf} {flags o o' : Nat} {e : Err} {p' : PTokParam} (hfit : b.size ≤ 65535)
    (h : parseTokenParam b o {} flags = (o', e, p')) (ha : PSAcc e) : PSParam b flags {} o o' e p' := by
  rw [parseTokenParam_run flags b o {} (by decide)] at h
  exact ps_start flags o b hfit _ o {} rfl (Or.inl rfl) (Nat.le_refl _) h ha

/-! ### the converse: ParseTokenParam reports every `PSParam` exactly as described -/

section compl
variable (flags offs : Nat) (b : Buf)

theorem ps_close_name {n1 o : Nat} {e : Err} {st : TPState} (p : PTokParam) (hst : p.state = .name)
    (h1 : p.name.offs ≤ n1) (h2 : p.all.offs ≤ n1) (hj : n1 ≤ 65535) (hoff : offs + 1 ≤ n1)
    (hprev : ∃ c, b[n1 - 1]? = some c ∧ tokAllowedChar c flags = true) (H : PSClose b flags n1 o e st) :
    runLoop (tpMachine flags offs) b n1 p =
      (o, e, { p with name := ⟨p.name.offs, n1 - p.name.offs⟩, all := ⟨p.all.offs, n1 - p.all.offs⟩, state := st }) := by
  cases H with
  | ending o' e' st' hE => exact tp_name_ending flags offs b p hst h1 h2 hj hE
  | spterm u c hsp hl hlt hc hpc =>
    rw [tp_spterm flags offs b n1 u p (fun p => { (p.extName n1).extAll n1 with state := .fEq }) (Or.inl rfl)
        (fun c hc => tpStep_name_lws hst hc) hsp hl hlt (by omega) hc hpc,
      extAll_eq _ n1 (by exact h2) hj, extName_eq _ n1 h1 hj]
  | sptermQ c hsp hq hc hpc =>
    exfalso
    obtain ⟨c0, h0, ha0⟩ := hprev
    rw [hq] at h0
    cases h0
    rw [not_allowed_34] at ha0
    cases ha0

theorem ps_close_val {v1 o : Nat} {e : Err} {st : TPState} (p : PTokParam) (hst : p.state = .val)
    (h1 : p.val.offs ≤ v1) (h2 : p.all.offs ≤ v1) (hj : v1 ≤ 65535) (hoff : offs + 1 ≤ v1)
    (hprev : ∃ c, b[v1 - 1]? = some c ∧ tokAllowedChar c flags = true) (H : PSClose b flags v1 o e st) :
    runLoop (tpMachine flags offs) b v1 p =
      (o, e, { p with val := ⟨p.val.offs, v1 - p.val.offs⟩, all := ⟨p.all.offs, v1 - p.all.offs⟩, state := st }) := by
  cases H with
  | ending o' e' st' hE => exact tp_val_ending flags offs b p hst h1 h2 hj hE
  | spterm u c hsp hl hlt hc hpc =>
    rw [tp_spterm flags offs b v1 u p (fun p => { (p.extVal v1).extAll v1 with state := .fSep }) (Or.inr rfl)
        (fun c hc => tpStep_val_lws hst hc) hsp hl hlt (by omega) hc hpc,
      extAll_eq _ v1 (by exact h2) hj, extVal_eq _ v1 h1 hj]
  | sptermQ c hsp hq hc hpc =>
    exfalso
    obtain ⟨c0, h0, ha0⟩ := hprev
    rw [hq] at h0
    cases h0
    rw [not_allowed_34] at ha0
    cases ha0

theorem ps_close_fSep {j o : Nat} {e : Err} {st : TPState} (p : PTokParam) (hst : p.state = .fSep)
    (hoff : offs + 1 ≤ j) (H : PSClose b flags j o e st) :
    runLoop (tpMachine flags offs) b j p = (o, e, { p with state := st }) := by
  cases H with
  | ending o' e' st' hE => exact tp_fSep_ending flags offs b p hst hE
  | spterm u c hsp hl hlt hc hpc =>
    exact tp_spterm flags offs b j u p id (Or.inr hst) (fun c hc => tpStep_fSep_lws hst hc) hsp hl hlt (by omega)
      hc hpc
  | sptermQ c hsp hq hc hpc =>
    have hf := hpc.facts
    have hstep : (tpMachine flags offs).step b j c p = .done j .ok { p with state := .fin } := by
      show tpStep flags offs b j c p = _
      rw [tpStep_fSep_char hst hf.hl hf.ht hf.hs hpc.1, if_pos hsp, ps_spTermSep p hoff, ps_spOff_quote hq]
    rw [runLoop_done (tpMachine flags offs) hc hstep]

theorem PSValue.run (hfit : b.size ≤ 65535) {p p' : PTokParam} {i o : Nat} {e : Err} (hst : p.state = .fVal)
    (ha : p.all.offs ≤ i) (hoff : offs + 1 ≤ i) (H : PSValue b flags p i o e p') :
    runLoop (tpMachine flags offs) b i p = (o, e, p') := by
  cases H with
  | token v0 v1 o' e' st hl hr hv hC =>
    have hle := hl.le
    have hsz := hr.le_size hv
    obtain ⟨c, hc, hpc⟩ := hr v0 (Nat.le_refl _) hv
    have hf := hpc.facts
    have hstep : (tpMachine flags offs).step b v0 c p =
        .cont (v0 + 1) { p with val := ⟨v0, 0⟩, all := ⟨p.all.offs, v0 - p.all.offs⟩, state := .val } := by
      have := tpStep_fVal_char (flags := flags) (offs := offs) (b := b) (i := v0) hst hf.hl hf.h34 hf.ht hf.hs hpc.1
      rw [ps_fVal_obj p v0 (by omega) (by omega)] at this
      exact this
    obtain ⟨cl, hcl, hpl⟩ := hr (v1 - 1) (by omega) (by omega)
    rw [tp_fVal_lws flags offs b hl hc hf.hl p hst, runLoop_cont (tpMachine flags offs) hc hstep, if_pos (by omega),
      tp_val_run flags offs b (by omega) (fun k h1 h2 => hr k (by omega) h2) _ rfl,
      ps_close_val flags offs b _ rfl (by show v0 ≤ v1; omega) (by show p.all.offs ≤ v1; omega) (by omega) (by omega)
        ⟨cl, hcl, hpl.1⟩ hC]
  | quoted v0 qe o' e' st hl h34 hqb hC =>
    have hle := hl.le
    have hq := skipQuoted_of_qbody hqb
    have hgt := skipQuoted_ok_gt b (v0 + 1) hq
    have hle' := skipQuoted_ok_le b (v0 + 1) hq
    obtain ⟨c1, hc1⟩ := skipQuoted_ok_first b (v0 + 1) hq
    have hstep : (tpMachine flags offs).step b v0 34 p =
        .cont (v0 + 1) { p with val := ⟨v0, 0⟩, all := ⟨p.all.offs, v0 - p.all.offs⟩, state := .quotedVal } := by
      have := tpStep_fVal_quote (flags := flags) (offs := offs) (b := b) (i := v0) (c := 34) hst (by decide) (by decide)
      rw [ps_fVal_obj p v0 (by omega) (by omega)] at this
      exact this
    have hstep2 : (tpMachine flags offs).step b (v0 + 1) c1
        { p with val := ⟨v0, 0⟩, all := ⟨p.all.offs, v0 - p.all.offs⟩, state := .quotedVal } =
        .cont qe { p with val := ⟨v0, qe - v0⟩, all := ⟨p.all.offs, qe - p.all.offs⟩, state := .fSep } := by
      have := tpStep_quoted_ok (flags := flags) (offs := offs) (c := c1)
        (p := { p with val := ⟨v0, 0⟩, all := ⟨p.all.offs, v0 - p.all.offs⟩, state := .quotedVal }) rfl hq
      rw [extAll_eq _ qe (by show p.all.offs ≤ qe; omega) (by omega),
        extVal_eq _ qe (by show v0 ≤ qe; omega) (by omega)] at this
      exact this
    rw [tp_fVal_lws flags offs b hl h34 (by decide) p hst, runLoop_cont (tpMachine flags offs) h34 hstep,
      if_pos (by omega), runLoop_cont (tpMachine flags offs) hc1 hstep2, if_pos hgt,
      ps_close_fSep flags offs b _ rfl (by omega) hC]
  | emptySep s o' e' st hl hs hA =>
    have hle := hl.le
    rw [tp_fVal_lws flags offs b hl hs (sep_facts flags).hl p hst,
      tp_empty_sep flags offs b hfit p hst (by omega) hs hA]
  | emptyTerm u hl hu hne =>
    rw [tp_fVal_lws flags offs b hl hu (term_facts flags hne).hl p hst, tp_empty_term flags offs b hfit p hst hu hne]
  | noValue q n crl hl hend =>
    cases hend with
    | eoh e2 c2 he h2 hw =>
      rw [tp_empty_eoh flags offs b p hst hl he h2 hw]
      have := he.gt
      have e1 : q + (e2 - q) = e2 := by omega
      rw [e1]
    | inputEnd hf he => rw [tp_empty_end flags offs b p hst hf hl he]; rfl

theorem PSAfterName.run (hfit : b.size ≤ 65535) {p p' : PTokParam} {n1 o : Nat} {e : Err} (hst : p.state = .name)
    (h1 : p.name.offs ≤ n1) (h2 : p.all.offs ≤ n1) (hj : n1 ≤ b.size) (hoff : offs + 1 ≤ n1)
    (hprev : ∃ c, b[n1 - 1]? = some c ∧ tokAllowedChar c flags = true) (H : PSAfterName b flags p n1 o e p') :
    runLoop (tpMachine flags offs) b n1 p = (o, e, p') := by
  cases H with
  | close o' e' st hC => exact ps_close_name flags offs b p hst h1 h2 (by omega) hoff hprev hC
  | value q o' e' p'' hl h61 hV =>
    have hq := get?_lt h61
    have hle := hl.le
    rw [tp_name_eq flags offs b p hst h1 h2 (by omega) hl h61]
    exact PSValue.run flags offs b hfit (p := psAfterEq p n1 q) rfl (by show p.all.offs ≤ q + 1; omega) (by omega) hV

theorem PSParam.run (hfit : b.size ≤ 65535) {p p' : PTokParam} {o o' : Nat} {e : Err}
    (hst : p.state = .init ∨ p.state = .initNxtVal) (hoff : offs ≤ o) (H : PSParam b flags p o o' e p') :
    runLoop (tpMachine flags offs) b o p = (o', e, p') := by
  have hstart : p.state.isStart := by
    rcases hst with h | h
    · exact Or.inl h
    · exact Or.inr (Or.inl h)
  have hinit : ∀ n crl, tpEOH p n crl = (n + crl, .eoh, p) := by
    intro n crl
    unfold tpEOH
    rcases hst with h | h <;> simp only [h]
  cases H with
  | empty t q n crl hp hl hend =>
    rw [tp_pad flags offs b hp p hstart]
    cases hend with
    | eoh e2 c2 he h2 hw =>
      rw [tp_lws_eoh flags offs b hl he h2 hw p id (fun c hc => tpStep_start_lws hstart hc)]
      exact hinit q (e2 - q)
    | inputEnd hf he =>
      rw [tp_lws_end flags offs b hl he hf p id (fun c hc => tpStep_start_lws hstart hc)
        (tpMoreBytes_end_id flags b hf (Or.inl hstart) t)]
      exact hinit b.size 0
  | named t n0 n1 o2 c0 e2 p2 hp hl hb hal hs hrun hlt hA =>
    have hcl := allowed_not_lws hal
    have hsz : n1 ≤ b.size := by
      by_cases h : n0 + 1 < n1
      · exact hrun.le_size h
      · have := get?_lt hb; omega
    have hple := hp.le
    have hlle := hl.le
    have h1 : runLoop (tpMachine flags offs) b t p = runLoop (tpMachine flags offs) b n0 p := by
      by_cases hlt' : t < n0
      · exact tp_lws_ok flags offs b hl hlt' hb hcl p id (fun c hc => tpStep_start_lws hstart hc)
      · have : t = n0 := by omega
        subst this; rfl
    have hstep : (tpMachine flags offs).step b n0 c0 p = .cont (n0 + 1) (psNamed p n0) := by
      have := tpStep_init_char (flags := flags) (offs := offs) (b := b) (i := n0) hst hcl (by simpa using hs) hal
      rw [set_self n0 (by have := get?_lt hb; omega)] at this
      exact this
    have hprev : ∃ c, b[n1 - 1]? = some c ∧ tokAllowedChar c flags = true := by
      by_cases h : n0 + 1 < n1
      · obtain ⟨c, hc, hpc⟩ := hrun (n1 - 1) (by omega) (by omega)
        exact ⟨c, hc, hpc.1⟩
      · have : n1 - 1 = n0 := by omega
        rw [this]; exact ⟨c0, hb, hal⟩
    rw [tp_pad flags offs b hp p hstart, h1, runLoop_cont (tpMachine flags offs) hb hstep, if_pos (by omega),
      tp_name_run flags offs b (by omega) hrun (psNamed p n0) rfl]
    exact PSAfterName.run flags offs b hfit (p := psNamed p n0) rfl (by show n0 ≤ n1; omega) (by show n0 ≤ n1; omega)
      hsz (by omega) hprev hA

end compl

/-- **COMPLETENESS for the same description**: ParseTokenParam reports every `PSParam` exactly as described -/
theorem parseTokenParam_complete {b : Buf} {flags o o' : Nat} {e : Err} {p' : PTokParam} (hfit : b.size ≤ 65535)
    (H : PSParam b flags {} o o' e p') : parseTokenParam b o {} flags = (o', e, p') := by
  rw [parseTokenParam_run flags b o {} (by decide)]
  exact PSParam.run flags o b hfit (Or.inl rfl) (Nat.le_refl _) H

/-! ### the verdicts of the description; the equivalence -/

theorem AfterSep.ps_acc {b : Buf} {flags i o : Nat} {e : Err} {st : TPState} (h : AfterSep b flags i o e st) :
    PSAcc e := by
  cases h with
  | more => exact Or.inr (Or.inl rfl)
  | term => exact Or.inl rfl
  | eoh => exact Or.inr (Or.inr rfl)
  | inputEnd => exact Or.inr (Or.inr rfl)

theorem Ending.ps_acc {b : Buf} {flags i o : Nat} {e : Err} {st : TPState} (h : Ending b flags i o e st) :
    PSAcc e := by
  cases h with
  | sep s o' e' st' _ _ hA => exact hA.ps_acc
  | term => exact Or.inl rfl
  | eoh => exact Or.inr (Or.inr rfl)
  | inputEnd => exact Or.inr (Or.inr rfl)

theorem PSClose.ps_acc {b : Buf} {flags i o : Nat} {e : Err} {st : TPState} (h : PSClose b flags i o e st) :
    PSAcc e := by
  cases h with
  | ending o' e' st' hE => exact hE.ps_acc
  | spterm => exact Or.inl rfl
  | sptermQ => exact Or.inl rfl

theorem PSValue.ps_acc {b : Buf} {flags i o : Nat} {e : Err} {p p' : PTokParam} (h : PSValue b flags p i o e p') :
    PSAcc e := by
  cases h with
  | token v0 v1 o' e' st _ _ _ hC => exact hC.ps_acc
  | quoted v0 qe o' e' st _ _ _ hC => exact hC.ps_acc
  | emptySep s o' e' st _ _ hA => exact hA.ps_acc
  | emptyTerm => exact Or.inl rfl
  | noValue => exact Or.inr (Or.inr rfl)

theorem PSAfterName.ps_acc {b : Buf} {flags i o : Nat} {e : Err} {p p' : PTokParam}
    (h : PSAfterName b flags p i o e p') : PSAcc e := by
  cases h with
  | close o' e' st hC => exact hC.ps_acc
  | value q o' e' p'' _ _ hV => exact hV.ps_acc

theorem PSParam.ps_acc {b : Buf} {flags i o : Nat} {e : Err} {p p' : PTokParam} (h : PSParam b flags p i o e p') :
    PSAcc e := by
  cases h with
  | empty => exact Or.inr (Or.inr rfl)
  | named t n0 n1 o2 c0 e2 p2 _ _ _ _ _ _ _ hA => exact hA.ps_acc

/-- **ParseTokenParam accepts exactly the parameters of `PSParam`, and reports them exactly as described**: for every
    buffer within the 65,535-byte limit, every offset and every option word (end-of-input option included), on a
    new object -/
theorem tokparam_ok_iff {b : Buf} {flags o o' : Nat} {e : Err} {p' : PTokParam} (hfit : b.size ≤ 65535) :
    (parseTokenParam b o {} flags = (o', e, p') ∧ PSAcc e) ↔ PSParam b flags {} o o' e p' :=
  ⟨fun h => parseTokenParam_sound hfit h.1 h.2, fun H => ⟨parseTokenParam_complete hfit H, H.ps_acc⟩⟩

/-- every parameter of the grammar of `ParamSpec` is one of `PSParam` -/
theorem GParam.psParam {b : Buf} {flags o o' : Nat} {e : Err} {tp : PTokParam} (hfit : b.size ≤ 65535)
    (H : GParam b flags o o' e tp) : PSParam b flags {} o o' e tp := by
  refine parseTokenParam_sound hfit (H.parse hfit) ?_
  cases H with
  | noValue t n0 n1 o'' e' st _ _ _ _ hE => exact hE.ps_acc
  | token t n0 n1 q v0 v1 o'' e' st _ _ _ _ _ _ _ _ _ hE => exact hE.ps_acc
  | quoted t n0 n1 q v0 qe o'' e' st _ _ _ _ _ _ _ _ _ hE => exact hE.ps_acc
  | emptyVal t n0 n1 q s o'' e' st _ _ _ _ _ _ _ _ hA => exact hA.ps_acc

/-! ### the character set of an accepted parameter -/

/-- what a value field can be: empty, an unquoted run of name / value bytes, or a complete quoted string (opening
    quote, body in which every quote is escaped, closing quote) -/
def PSValDesc (b : Buf) (flags : Nat) (v : PField) : Prop :=
  v.len = 0 ∨ (0 < v.len ∧ PRun b flags v.offs (v.offs + v.len)) ∨
    (b[v.offs]? = some 34 ∧ QBody b (v.offs + 1) (v.offs + v.len))

theorem PSValue.ps_fields {b : Buf} {flags i o : Nat} {e : Err} {p p' : PTokParam} (h : PSValue b flags p i o e p')
    (hv : p.val.len = 0) (ha : p.all.offs + p.all.len ≤ i) :
    p'.name = p.name ∧ p'.pnc = p.pnc ∧ p'.all.offs = p.all.offs ∧ p.all.len ≤ p'.all.len ∧
      PSValDesc b flags p'.val := by
  cases h with
  | token v0 v1 o' e' st hl hr hlt hC =>
    have := hl.le
    refine ⟨rfl, rfl, rfl, by show p.all.len ≤ v1 - p.all.offs; omega, Or.inr (Or.inl ⟨by show 0 < v1 - v0; omega, ?_⟩)⟩
    show PRun b flags v0 (v0 + (v1 - v0))
    have e1 : v0 + (v1 - v0) = v1 := by omega
    rw [e1]; exact hr
  | quoted v0 qe o' e' st hl h34 hq hC =>
    have := hl.le
    have := hq.lt
    refine ⟨rfl, rfl, rfl, by show p.all.len ≤ qe - p.all.offs; omega, Or.inr (Or.inr ⟨h34, ?_⟩)⟩
    show QBody b (v0 + 1) (v0 + (qe - v0))
    have e1 : v0 + (qe - v0) = qe := by omega
    rw [e1]; exact hq
  | emptySep s o' e' st hl hs hA =>
    have := hl.le
    exact ⟨rfl, rfl, rfl, by show p.all.len ≤ s - p.all.offs; omega, Or.inl rfl⟩
  | emptyTerm u hl hu hne => exact ⟨rfl, rfl, rfl, Nat.le_refl _, Or.inl rfl⟩
  | noValue q n crl hl hend => exact ⟨rfl, rfl, rfl, Nat.le_refl _, Or.inl hv⟩

theorem PSAfterName.ps_fields {b : Buf} {flags n0 n1 o : Nat} {e : Err} {p' : PTokParam}
    (h : PSAfterName b flags (psNamed {} n0) n1 o e p') (hlt : n0 < n1) :
    p'.name = ⟨n0, n1 - n0⟩ ∧ p'.pnc = false ∧ p'.all.offs = n0 ∧ n1 - n0 ≤ p'.all.len ∧ PSValDesc b flags p'.val := by
  cases h with
  | close o' e' st hC => exact ⟨rfl, rfl, rfl, Nat.le_refl _, Or.inl rfl⟩
  | value q o' e' p'' hl h61 hV =>
    have hle := hl.le
    obtain ⟨h1, h2, h3, h4, h5⟩ := hV.ps_fields rfl (by
      show n0 + ((if n1 = q then q + 1 else n1) - n0) ≤ q + 1
      split <;> omega)
    refine ⟨h1, h2, h3, Nat.le_trans ?_ h4, h5⟩
    show n1 - n0 ≤ (if n1 = q then q + 1 else n1) - n0
    split <;> omega

/-- **the fields of an accepted parameter**: nothing was parsed (`EOH`, the object is untouched: the empty list
    item at the end of the header / input), or the name is a non-empty run of allowed bytes inside the buffer at or
    after the start offset, `all` starts with the name and covers it, and the value is empty, an unquoted run of
    allowed bytes (none of them separator or terminator), or a complete quoted string -/
theorem tokparam_fields {b : Buf} {flags o o' : Nat} {e : Err} {p' : PTokParam} (hfit : b.size ≤ 65535)
    (h : parseTokenParam b o {} flags = (o', e, p')) (ha : PSAcc e) :
    (p' = {} ∧ e = .eoh) ∨
    (0 < p'.name.len ∧ o ≤ p'.name.offs ∧ p'.name.offs + p'.name.len ≤ b.size ∧
      (∀ k, p'.name.offs ≤ k → k < p'.name.offs + p'.name.len → ∃ c, b[k]? = some c ∧ tokAllowedChar c flags = true) ∧
      p'.all.offs = p'.name.offs ∧ p'.name.len ≤ p'.all.len ∧ p'.pnc = false ∧ PSValDesc b flags p'.val) := by
  have H := parseTokenParam_sound hfit h ha
  cases H with
  | empty t q n crl hp hl hend => exact Or.inl ⟨rfl, rfl⟩
  | named t n0 n1 o2 c0 e2 p2 hp hl hb hal hs hrun hlt hA =>
    right
    obtain ⟨h1, h2, h3, h4, h5⟩ := hA.ps_fields hlt
    have hple := hp.le
    have hlle := hl.le
    have hsz : n1 ≤ b.size := by
      by_cases h : n0 + 1 < n1
      · exact hrun.le_size h
      · have := get?_lt hb; omega
    rw [h1, h3]
    refine ⟨by show 0 < n1 - n0; omega, by show o ≤ n0; omega, by show n0 + (n1 - n0) ≤ b.size; omega, ?_, rfl, h4,
      h2, h5⟩
    intro k hk1 hk2
    have hk1' : n0 ≤ k := hk1
    have hk2' : k < n0 + (n1 - n0) := hk2
    by_cases hk : k = n0
    · rw [hk]; exact ⟨c0, hb, hal⟩
    · obtain ⟨c, hc, hpc⟩ := hrun k (by omega) (by omega)
      exact ⟨c, hc, hpc.1⟩

/-- **charset**: an accepted parameter never contains a byte outside the documented set (`docAllowed`: letters,
    digits, `-_.!~*'()`, `%`, `[]/:+$`, plus `&` in URI-parameter mode and `?` otherwise) in its name or — outside
    quotes — in its value -/
theorem tokparam_charset {b : Buf} {flags o o' : Nat} {e : Err} {p' : PTokParam} (hfit : b.size ≤ 65535)
    (h : parseTokenParam b o {} flags = (o', e, p')) (ha : PSAcc e) :
    (∀ k, p'.name.offs ≤ k → k < p'.name.offs + p'.name.len →
      ∃ c, b[k]? = some c ∧ docAllowed c (hasFlag flags POptTokURIParamF) = true) ∧
    ((∀ k, p'.val.offs ≤ k → k < p'.val.offs + p'.val.len →
      ∃ c, b[k]? = some c ∧ docAllowed c (hasFlag flags POptTokURIParamF) = true) ∨
     (b[p'.val.offs]? = some 34 ∧ QBody b (p'.val.offs + 1) (p'.val.offs + p'.val.len))) := by
  rcases tokparam_fields hfit h ha with ⟨h1, _⟩ | ⟨_, _, _, h4, _, _, _, h8⟩
  · subst h1
    refine ⟨fun k h1 h2 => ?_, Or.inl (fun k h1 h2 => ?_)⟩
    · have h1' : 0 ≤ k := h1
      have h2' : k < 0 + 0 := h2
      omega
    · have h1' : 0 ≤ k := h1
      have h2' : k < 0 + 0 := h2
      omega
  · refine ⟨fun k h1 h2 => ?_, ?_⟩
    · obtain ⟨c, hc, hal⟩ := h4 k h1 h2
      exact ⟨c, hc, by rw [← tokAllowedChar_doc]; exact hal⟩
    · rcases h8 with h8 | ⟨_, h8⟩ | h8
      · exact Or.inl (fun k h1 h2 => by omega)
      · refine Or.inl (fun k h1 h2 => ?_)
        obtain ⟨c, hc, hpc⟩ := h8 k h1 h2
        exact ⟨c, hc, by rw [← tokAllowedChar_doc]; exact hpc.1⟩
      · exact Or.inr h8

/-! ### `MoreValues` moves forward -/

theorem PSClose.ps_more_range {b : Buf} {flags j o : Nat} {st : TPState} (H : PSClose b flags j o .moreValues st) :
    j < o ∧ o < b.size := by
  cases H with
  | ending o' e' st' hE => exact hE.more_range

theorem PSValue.ps_more_range {b : Buf} {flags i o : Nat} {p p' : PTokParam}
    (H : PSValue b flags p i o .moreValues p') : i < o ∧ o < b.size := by
  cases H with
  | token v0 v1 o' e' st hl hr hlt hC =>
    have := hl.le; have := hC.ps_more_range; omega
  | quoted v0 qe o' e' st hl h34 hq hC =>
    have := hl.le; have := hq.lt; have := hC.ps_more_range; omega
  | emptySep s o' e' st hl hs hA =>
    have := hl.le; have := hA.more_range; omega

theorem PSParam.ps_more_range {b : Buf} {flags o o' : Nat} {p p' : PTokParam}
    (H : PSParam b flags p o o' .moreValues p') : o < o' ∧ o' < b.size := by
  cases H with
  | named t n0 n1 o2 c0 e2 p2 hp hl hb hal hs hrun hlt hA =>
    have := hp.le
    have := hl.le
    cases hA with
    | close o3 e3 st hC => have := hC.ps_more_range; omega
    | value q o3 e3 p3 hlq h61 hV => have := hlq.le; have := hV.ps_more_range; omega

/-! ### the list wrappers, inverted -/

/-- a list of parameters as the list wrappers accept it: every item but the last is a `PSParam` reported with
    `MoreValues`, the last one is reported with `OK` or `EOH` -/
inductive PSList (b : Buf) (flags : Nat) : Nat → List PTokParam → Nat → Err → Prop
  | last (o o' : Nat) (e : Err) (tp : PTokParam) : PSParam b flags {} o o' e tp → (e = .ok ∨ e = .eoh) →
      PSList b flags o [tp] o' e
  | cons (o next : Nat) (tp : PTokParam) (rest : List PTokParam) (o' : Nat) (e : Err) :
      PSParam b flags {} o next .moreValues tp → PSList b flags next rest o' e → PSList b flags o (tp :: rest) o' e

theorem ps_name_get {b : Buf} {flags o o' : Nat} {e : Err} {tp : PTokParam} (hfit : b.size ≤ 65535)
    (h : parseTokenParam b o {} flags = (o', e, tp)) (ha : PSAcc e) : tp.name.get? b = some (nameOf b tp) := by
  have hin : tp.name.offs + tp.name.len ≤ b.size := by
    rcases tokparam_fields hfit h ha with ⟨h1, _⟩ | ⟨_, _, h3, _⟩
    · subst h1
      show 0 + 0 ≤ b.size
      omega
    · exact h3
  exact field_get? b tp.name.offs tp.name.len hin hfit

theorem ps_not_acc {e : Err} (h : ¬ PSAcc e) : (e == .ok || e == .moreValues || e == .eoh) = false := by
  cases e <;> first
    | rfl
    | exact absurd (Or.inl rfl) h
    | exact absurd (Or.inr (Or.inl rfl)) h
    | exact absurd (Or.inr (Or.inr rfl)) h

theorem ps_uriParamsLoop_err (b : Buf) (o : Nat) (l : URIParamsLst) (flags vNo next : Nat) (e : Err)
    (tp : PTokParam) (hp : parseTokenParam b o l.cur.param flags = (next, e, tp)) (hna : ¬ PSAcc e) :
    (uriParamsLoop b o l flags vNo).2.2.1 = e := by
  rw [uriParamsLoop]
  simp only [hp, ps_not_acc hna, Bool.false_eq_true, ↓reduceIte]
  split <;> rfl

theorem ps_uriHdrsLoop_err (b : Buf) (o : Nat) (l : URIHdrsLst) (flags vNo next : Nat) (e : Err)
    (tp : PTokParam) (hp : parseTokenParam b o l.cur flags = (next, e, tp)) (hna : ¬ PSAcc e) :
    (uriHdrsLoop b o l flags vNo).2.2.1 = e := by
  rw [uriHdrsLoop]
  simp only [hp, ps_not_acc hna, Bool.false_eq_true, ↓reduceIte]
  split <;> rfl

/-- **the loop of ParseAllURIParams, inverted**: a run on a list object in its reset state that ends with `OK` /
    `EOH` went over a `PSList`, counted each item and pushed each of them with the type of its name -/
theorem ps_uriParamsLoop {b : Buf} {flags : Nat} (hfit : b.size ≤ 65535) {o' n : Nat} {e : Err} {r : URIParamsLst}
    (he : e = .ok ∨ e = .eoh) :
    ∀ (k o : Nat) (l : URIParamsLst) (vNo : Nat), b.size - o = k → l.Fresh →
      uriParamsLoop b o l flags vNo = (o', n, e, r) →
      ∃ tps, PSList b flags o tps o' e ∧ n = vNo + tps.length ∧
        r = (tps.map (typed b)).foldl URIParamsLst.push l := by
  intro k
  induction k using Nat.strongRecOn with
  | _ k ih =>
    intro o l vNo hk hf h
    have hcur : l.cur.param = {} := by rw [hf.cur]
    rcases hp : parseTokenParam b o {} flags with ⟨next, e1, tp⟩
    have hp' : parseTokenParam b o l.cur.param flags = (next, e1, tp) := by rw [hcur]; exact hp
    by_cases ha : PSAcc e1
    · have hP := parseTokenParam_sound hfit hp ha
      have hnm := ps_name_get hfit hp ha
      rcases ha with h1 | h1 | h1
      · subst h1
        rw [uriParamsLoop_last b o l flags vNo next .ok tp _ hp' (Or.inl rfl) hnm] at h
        cases h
        exact ⟨[tp], PSList.last _ _ _ _ hP (Or.inl rfl), rfl, rfl⟩
      · subst h1
        obtain ⟨hlt, hle⟩ := hP.ps_more_range
        rw [uriParamsLoop_more b o l flags vNo next tp _ hp' hnm hlt (by omega)] at h
        obtain ⟨tps, h1, h2, h3⟩ := ih (b.size - next) (by omega) next _ (vNo + 1) rfl (hf.push _) h
        refine ⟨tp :: tps, PSList.cons o next tp tps o' e hP h1, ?_, ?_⟩
        · rw [h2, List.length_cons]; omega
        · rw [h3]; rfl
      · subst h1
        rw [uriParamsLoop_last b o l flags vNo next .eoh tp _ hp' (Or.inr rfl) hnm] at h
        cases h
        exact ⟨[tp], PSList.last _ _ _ _ hP (Or.inr rfl), rfl, rfl⟩
    · exfalso
      have := ps_uriParamsLoop_err b o l flags vNo next e1 tp hp' ha
      rw [h] at this
      simp only at this
      rcases he with h1 | h1 <;> (rw [h1] at this; rw [← this] at ha)
      · exact ha (Or.inl rfl)
      · exact ha (Or.inr (Or.inr rfl))

/-- **the loop of ParseAllURIHdrs, inverted** -/
theorem ps_uriHdrsLoop {b : Buf} {flags : Nat} (hfit : b.size ≤ 65535) {o' n : Nat} {e : Err} {r : URIHdrsLst}
    (he : e = .ok ∨ e = .eoh) :
    ∀ (k o : Nat) (l : URIHdrsLst) (vNo : Nat), b.size - o = k → l.Fresh →
      uriHdrsLoop b o l flags vNo = (o', n, e, r) →
      ∃ tps, PSList b flags o tps o' e ∧ n = vNo + tps.length ∧ r = tps.foldl URIHdrsLst.push l := by
  intro k
  induction k using Nat.strongRecOn with
  | _ k ih =>
    intro o l vNo hk hf h
    have hcur : l.cur = {} := hf.cur
    rcases hp : parseTokenParam b o {} flags with ⟨next, e1, tp⟩
    have hp' : parseTokenParam b o l.cur flags = (next, e1, tp) := by rw [hcur]; exact hp
    by_cases ha : PSAcc e1
    · have hP := parseTokenParam_sound hfit hp ha
      rcases ha with h1 | h1 | h1
      · subst h1
        rw [uriHdrsLoop_last b o l flags vNo next .ok tp hp' (Or.inl rfl)] at h
        cases h
        exact ⟨[tp], PSList.last _ _ _ _ hP (Or.inl rfl), rfl, rfl⟩
      · subst h1
        obtain ⟨hlt, hle⟩ := hP.ps_more_range
        rw [uriHdrsLoop_more b o l flags vNo next tp hp' hlt (by omega)] at h
        obtain ⟨tps, h1, h2, h3⟩ := ih (b.size - next) (by omega) next _ (vNo + 1) rfl (hf.push _) h
        refine ⟨tp :: tps, PSList.cons o next tp tps o' e hP h1, ?_, ?_⟩
        · rw [h2, List.length_cons]; omega
        · rw [h3]; rfl
      · subst h1
        rw [uriHdrsLoop_last b o l flags vNo next .eoh tp hp' (Or.inr rfl)] at h
        cases h
        exact ⟨[tp], PSList.last _ _ _ _ hP (Or.inr rfl), rfl, rfl⟩
    · exfalso
      have := ps_uriHdrsLoop_err b o l flags vNo next e1 tp hp' ha
      rw [h] at this
      simp only at this
      rcases he with h1 | h1 <;> (rw [h1] at this; rw [← this] at ha)
      · exact ha (Or.inl rfl)
      · exact ha (Or.inr (Or.inr rfl))

theorem PSList.ps_paramSeq {b : Buf} {flags o o' : Nat} {e : Err} {tps : List PTokParam} (hfit : b.size ≤ 65535)
    (H : PSList b flags o tps o' e) : ParamSeq b flags o (tps.map (typed b)) o' e := by
  induction H with
  | last o o' e tp hg he =>
    have hp := parseTokenParam_complete hfit hg
    exact ParamSeq.last o o' e tp _ hp he (ps_name_get hfit hp hg.ps_acc)
  | cons o next tp rest o' e hg _ ih =>
    have hp := parseTokenParam_complete hfit hg
    have hr := hg.ps_more_range
    exact ParamSeq.cons o next tp _ _ o' e hp (ps_name_get hfit hp hg.ps_acc) hr.1 (by omega) ih

theorem PSList.ps_hdrSeq {b : Buf} {flags o o' : Nat} {e : Err} {tps : List PTokParam} (hfit : b.size ≤ 65535)
    (H : PSList b flags o tps o' e) : HdrSeq b flags o tps o' e := by
  induction H with
  | last o o' e tp hg he => exact HdrSeq.last o o' e tp (parseTokenParam_complete hfit hg) he
  | cons o next tp rest o' e hg _ ih =>
    have hr := hg.ps_more_range
    exact HdrSeq.cons o next tp _ o' e (parseTokenParam_complete hfit hg) hr.1 (by omega) ih

theorem PSList.ps_verdict {b : Buf} {flags o o' : Nat} {e : Err} {tps : List PTokParam}
    (H : PSList b flags o tps o' e) : e = .ok ∨ e = .eoh := by
  induction H with
  | last o o' e tp hg he => exact he
  | cons o next tp rest o' e hg _ ih => exact ih

/-- **ParseAllURIParams accepts exactly the lists of `PSList`** (on a list object in its reset state; separator ';'
    added by the wrapper): it returns `OK` / `EOH` iff the text is such a list, and then the offset and verdict are
    those of the list end, every item is counted and pushed, in order, with the type of its name -/
theorem parseAllURIParams_ok_iff {b : Buf} {flags o o' n : Nat} {e : Err} {r : URIParamsLst} (hfit : b.size ≤ 65535)
    (l : URIParamsLst) (hl : l.Fresh) :
    (parseAllURIParams b o l flags = (o', n, e, r) ∧ (e = .ok ∨ e = .eoh)) ↔
      ∃ tps, PSList b (flags ||| POptParamSemiSepF) o tps o' e ∧ n = tps.length ∧
        r = (tps.map (typed b)).foldl URIParamsLst.push l := by
  constructor
  · rintro ⟨h, he⟩
    unfold parseAllURIParams at h
    obtain ⟨tps, h1, h2, h3⟩ := ps_uriParamsLoop hfit he _ o l 0 rfl hl h
    exact ⟨tps, h1, by omega, h3⟩
  · rintro ⟨tps, h1, h2, h3⟩
    refine ⟨?_, h1.ps_verdict⟩
    unfold parseAllURIParams
    rw [uriParamsLoop_seq (h1.ps_paramSeq hfit) l 0 hl, h2, h3, List.length_map, Nat.zero_add]

/-- **ParseAllURIHdrs accepts exactly the lists of `PSList`** (separator '&') -/
theorem parseAllURIHdrs_ok_iff {b : Buf} {flags o o' n : Nat} {e : Err} {r : URIHdrsLst} (hfit : b.size ≤ 65535)
    (l : URIHdrsLst) (hl : l.Fresh) :
    (parseAllURIHdrs b o l flags = (o', n, e, r) ∧ (e = .ok ∨ e = .eoh)) ↔
      ∃ tps, PSList b (flags ||| POptParamAmpSepF ||| POptTokURIHdrF) o tps o' e ∧ n = tps.length ∧
        r = tps.foldl URIHdrsLst.push l := by
  constructor
  · rintro ⟨h, he⟩
    unfold parseAllURIHdrs at h
    obtain ⟨tps, h1, h2, h3⟩ := ps_uriHdrsLoop hfit he _ o l 0 rfl hl h
    exact ⟨tps, h1, by omega, h3⟩
  · rintro ⟨tps, h1, h2, h3⟩
    refine ⟨?_, h1.ps_verdict⟩
    unfold parseAllURIHdrs
    rw [uriHdrsLoop_seq (h1.ps_hdrSeq hfit) l 0 hl, h2, h3, Nat.zero_add]

/-! ### the empty list: one phantom parameter, and only there -/

theorem AfterSep.ps_more_char {b : Buf} {flags i o : Nat} {st : TPState} (H : AfterSep b flags i o .moreValues st) :
    ∃ c, b[o]? = some c ∧ PChar flags c := by
  cases H with
  | more t u c hp hl hc ha hs ht => exact ⟨c, hc, ha, hs, ht⟩

theorem PSClose.ps_more_char {b : Buf} {flags j o : Nat} {st : TPState} (H : PSClose b flags j o .moreValues st) :
    ∃ c, b[o]? = some c ∧ PChar flags c := by
  cases H with
  | ending o' e' st' hE =>
    cases hE with
    | sep s o'' e'' st'' hl hs hA => exact hA.ps_more_char

theorem PSParam.ps_more_char {b : Buf} {flags o o' : Nat} {p p' : PTokParam}
    (H : PSParam b flags p o o' .moreValues p') : ∃ c, b[o']? = some c ∧ PChar flags c := by
  cases H with
  | named t n0 n1 o2 c0 e2 p2 hp hl hb hal hs hrun hlt hA =>
    cases hA with
    | close o3 e3 st hC => exact hC.ps_more_char
    | value q o3 e3 p3 hlq h61 hV =>
      cases hV with
      | token v0 v1 o4 e4 st _ _ _ hC => exact hC.ps_more_char
      | quoted v0 qe o4 e4 st _ _ _ hC => exact hC.ps_more_char
      | emptySep s o4 e4 st _ _ hA => exact hA.ps_more_char

/-- a parameter is either named (non-empty name) or the phantom of the empty list: nothing but empty items and
    white space up to the end of the header / input, reported `EOH` with an untouched object -/
theorem PSParam.ps_named_or_empty {b : Buf} {flags o o' : Nat} {e : Err} {tp : PTokParam}
    (H : PSParam b flags {} o o' e tp) :
    0 < tp.name.len ∨ (tp = {} ∧ e = .eoh ∧ ∃ t q n crl, Pad b (tpSep flags) o t ∧ Lws b t q ∧
      PSEnd b flags q n crl ∧ o' = n + crl) := by
  cases H with
  | empty t q n crl hp hl hend => exact Or.inr ⟨rfl, rfl, t, q, n, crl, hp, hl, hend, rfl⟩
  | named t n0 n1 o2 c0 e2 p2 hp hl hb hal hs hrun hlt hA =>
    left
    rw [(hA.ps_fields hlt).1]
    show 0 < n1 - n0
    omega

/-- where a parameter can start (a byte of a name) the parameter is a named one -/
theorem PSParam.ps_named_at {b : Buf} {flags o o' : Nat} {e : Err} {tp : PTokParam} {c : UInt8}
    (H : PSParam b flags {} o o' e tp) (hb : b[o]? = some c) (hc : PChar flags c) : 0 < tp.name.len := by
  rcases H.ps_named_or_empty with h | ⟨_, _, t, q, n, crl, hp, hl, hend, _⟩
  · exact h
  · exfalso
    have hcl := hc.facts.hl
    have key : ∀ s, Lws b o s → s = o := by
      intro s hls
      by_cases hlt : o < s
      · obtain ⟨c1, h1, h2⟩ := hls.first hlt
        rw [hb] at h1; cases h1
        rw [hcl] at h2; cases h2
      · have := hls.le; omega
    cases hp with
    | nil =>
      have := key q hl
      subst this
      cases hend with
      | eoh e2 c2 he h2 hw =>
        obtain ⟨c1, h1, _, _, h4⟩ := he.first
        rw [hb] at h1; cases h1
        rw [hcl] at h4; cases h4
      | inputEnd hf he =>
        have := he.first hb
        rw [hcl] at this; cases this
    | item i' s n' hls hs rest =>
      have := key s hls
      subst this
      rw [hb] at hs
      cases hs
      exact hc.2.1 rfl

theorem PSList.ps_named_at {b : Buf} {flags o o' : Nat} {e : Err} {tps : List PTokParam}
    (H : PSList b flags o tps o' e) : (∃ c, b[o]? = some c ∧ PChar flags c) → ∀ tp ∈ tps, 0 < tp.name.len := by
  induction H with
  | last o o' e tp hg he =>
    rintro ⟨c, hb, hc⟩ tp' hmem
    simp only [List.mem_singleton] at hmem
    subst hmem
    exact hg.ps_named_at hb hc
  | cons o next tp rest o' e hg _ ih =>
    rintro ⟨c, hb, hc⟩ tp' hmem
    simp only [List.mem_cons] at hmem
    rcases hmem with hmem | hmem
    · subst hmem; exact hg.ps_named_at hb hc
    · exact ih hg.ps_more_char tp' hmem

/-- **the phantom parameter of the empty list**: in a list accepted by the wrappers every item has a non-empty
    name — except that an EMPTY list (only empty items / white space up to the end of the header or input) is
    reported as ONE item with an untouched object (empty name), verdict `EOH` -/
theorem PSList.ps_named_or_empty {b : Buf} {flags o o' : Nat} {e : Err} {tps : List PTokParam}
    (H : PSList b flags o tps o' e) :
    (∀ tp ∈ tps, 0 < tp.name.len) ∨
    (tps = [{}] ∧ e = .eoh ∧ ∃ t q n crl, Pad b (tpSep flags) o t ∧ Lws b t q ∧ PSEnd b flags q n crl ∧
      o' = n + crl) := by
  induction H with
  | last o o' e tp hg he =>
    rcases hg.ps_named_or_empty with h | ⟨h1, h2, h3⟩
    · left
      intro tp' hmem
      simp only [List.mem_singleton] at hmem
      subst hmem; exact h
    · right
      subst h1
      exact ⟨rfl, h2, h3⟩
  | cons o next tp rest o' e hg hrest _ =>
    left
    intro tp' hmem
    simp only [List.mem_cons] at hmem
    rcases hmem with hmem | hmem
    · subst hmem
      rcases hg.ps_named_or_empty with h | ⟨_, h2, _⟩
      · exact h
      · cases h2
    · exact hrest.ps_named_at hg.ps_more_char tp' hmem

/-! ### what is accepted beyond the grammar `GParam` of `ParamSpec` -/

/-- **an accepted parameter is a `GParam` or one of four documented shapes outside that grammar**:
    (a) nothing parsed: the empty item at the end of the header / input (`EOH`, untouched object);
    (b) a name whose FIRST byte is the terminator — possible only when the terminator is an allowed byte, i.e. `?`
        with `POptTokQmTermF` outside URI-parameter mode (at the start of a call the terminator is not special);
    (c) the white-space terminator `POptTokSpTermF` ended the parameter (`OK`);
    (d) `name =` followed by the terminator (empty value recorded there, `OK`) or by the end of the header / input
        (no value recorded, `EOH`). -/
theorem PSParam.ps_gparam_or_extra {b : Buf} {flags o o' : Nat} {e : Err} {p' : PTokParam}
    (H : PSParam b flags {} o o' e p') :
    GParam b flags o o' e p' ∨
    (p' = {} ∧ e = .eoh) ∨
    (tokAllowedChar (tpTerm flags) flags = true ∧ b[p'.name.offs]? = some (tpTerm flags) ∧ 0 < p'.name.len) ∨
    (hasFlag flags POptTokSpTermF = true ∧ e = .ok) ∨
    (p'.val.len = 0 ∧ (e = .ok ∨ e = .eoh) ∧ ∃ q, b[q]? = some 61 ∧ p'.name.offs + p'.name.len ≤ q ∧ q < o') := by
  cases H with
  | empty t q n crl hp hl hend => exact Or.inr (Or.inl ⟨rfl, rfl⟩)
  | named t n0 n1 o2 c0 e2 p2 hp hl hb hal hs hrun hlt hA =>
    by_cases hct : c0 = tpTerm flags
    · subst hct
      refine Or.inr (Or.inr (Or.inl ⟨hal, ?_, ?_⟩))
      · rw [(hA.ps_fields hlt).1]; exact hb
      · rw [(hA.ps_fields hlt).1]
        show 0 < n1 - n0
        omega
    · have hrun' : PRun b flags n0 n1 := hrun.ps_cons hb ⟨hal, hs, hct⟩
      cases hA with
      | close o3 e3 st hC =>
        cases hC with
        | ending o4 e4 st4 hE => exact Or.inl (GParam.noValue o t n0 n1 o' e st hp hl hrun' hlt hE)
        | spterm u c hsp _ _ _ _ => exact Or.inr (Or.inr (Or.inr (Or.inl ⟨hsp, rfl⟩)))
        | sptermQ c hsp _ _ _ => exact Or.inr (Or.inr (Or.inr (Or.inl ⟨hsp, rfl⟩)))
      | value q o3 e3 p3 hlq h61 hV =>
        have hq := hlq.le
        cases hV with
        | token v0 v1 o4 e4 st hlv hrv hv hC =>
          cases hC with
          | ending o5 e5 st5 hE =>
            exact Or.inl (GParam.token o t n0 n1 q v0 v1 o' e st hp hl hrun' hlt hlq h61 hlv hrv hv hE)
          | spterm u c hsp _ _ _ _ => exact Or.inr (Or.inr (Or.inr (Or.inl ⟨hsp, rfl⟩)))
          | sptermQ c hsp _ _ _ => exact Or.inr (Or.inr (Or.inr (Or.inl ⟨hsp, rfl⟩)))
        | quoted v0 qe o4 e4 st hlv h34 hqb hC =>
          cases hC with
          | ending o5 e5 st5 hE =>
            exact Or.inl (GParam.quoted o t n0 n1 q v0 qe o' e st hp hl hrun' hlt hlq h61 hlv h34 hqb hE)
          | spterm u c hsp _ _ _ _ => exact Or.inr (Or.inr (Or.inr (Or.inl ⟨hsp, rfl⟩)))
          | sptermQ c hsp _ _ _ => exact Or.inr (Or.inr (Or.inr (Or.inl ⟨hsp, rfl⟩)))
        | emptySep s o4 e4 st hlv hs' hA' =>
          exact Or.inl (GParam.emptyVal o t n0 n1 q s o' e st hp hl hrun' hlt hlq h61 hlv hs' hA')
        | emptyTerm u hlv hu hne =>
          have := hlv.le
          refine Or.inr (Or.inr (Or.inr (Or.inr ⟨rfl, Or.inl rfl, q, h61, ?_, by omega⟩)))
          show n0 + (n1 - n0) ≤ q
          omega
        | noValue q' n crl hlv hend =>
          have := hlv.le
          refine Or.inr (Or.inr (Or.inr (Or.inr ⟨rfl, Or.inr rfl, q, h61, ?_, ?_⟩)))
          · show n0 + (n1 - n0) ≤ q
            omega
          · cases hend with
            | eoh e6 c6 he _ _ => have := he.gt; omega
            | inputEnd hf he => have := get?_lt h61; omega

/-! ### tests on concrete inputs / the hypotheses are satisfiable -/

/-- non-vacuity of `parseTokenParam_complete` / `tokparam_ok_iff` (right to left): `a;b` is a `PSParam` built by
    hand, and the theorem gives the result of the call -/
example : parseTokenParam "a;b".toUTF8.data 0 {} 0 =
    (2, .moreValues, { name := ⟨0, 1⟩, all := ⟨0, 1⟩, state := .initNxtVal }) := by
  refine parseTokenParam_complete (by decide) ?_
  refine PSParam.named 0 0 0 1 2 97 .moreValues _ (Pad.nil 0) (Lws.nil 0) (by decide) (by decide) (by decide)
    (fun k h1 h2 => by omega) (by decide) ?_
  refine PSAfterName.close 1 2 .moreValues .initNxtVal (PSClose.ending _ _ _ _ ?_)
  exact Ending.sep 1 1 2 .moreValues .initNxtVal (Lws.nil 1) (by decide)
    (AfterSep.more 2 2 2 98 (Pad.nil 2) (Lws.nil 2) (by decide) (by decide) (by decide) (by decide))

/-- test (evaluation of the model) / non-vacuity of `parseTokenParam_sound` and `tokparam_ok_iff` (left to right):
    the result of a call on a text with empty items, folds, a quoted value with an escape and the terminator is a
    `PSParam` -/
example : PSParam ";; Tag \r\n = \"x\\\"y\" ?z".toUTF8.data 88 {} 0 19 .ok
    { name := ⟨3, 3⟩, val := ⟨12, 6⟩, all := ⟨3, 15⟩, state := .fin } :=
  (tokparam_ok_iff (by decide)).1 ⟨by decide +kernel, Or.inl rfl⟩

/-- tests: the four shapes accepted outside the grammar `GParam` (see `PSParam.ps_gparam_or_extra`).
    (a) nothing but a line end: `EOH`, untouched object -/
example : parseTokenParam "\r\nX".toUTF8.data 0 {} 0 = (2, .eoh, {}) := by decide +kernel
/-- (b) option word 2 = `POptTokQmTermF`: the leading `?` (the terminator) starts a name -/
example : parseTokenParam "?a;b".toUTF8.data 0 {} 2 =
    (3, .moreValues, { name := ⟨0, 2⟩, all := ⟨0, 2⟩, state := .initNxtVal }) := by decide +kernel
/-- (c) option word 4 = `POptTokSpTermF`: a token after white space ends the parameter at the last white-space
    byte; a token directly after a closing quote ends it at the token -/
example : parseTokenParam "a=b c".toUTF8.data 0 {} 4 =
    (3, .ok, { name := ⟨0, 1⟩, val := ⟨2, 1⟩, all := ⟨0, 3⟩, state := .fin }) := by decide +kernel
example : parseTokenParam "a=\"b\"c".toUTF8.data 0 {} 4 =
    (5, .ok, { name := ⟨0, 1⟩, val := ⟨2, 3⟩, all := ⟨0, 5⟩, state := .fin }) := by decide +kernel
/-- (d) `name=` and the terminator: an empty value at the terminator; `name =` and the end of the header: no
    value, and `all` does not include the `=` that follows white space -/
example : parseTokenParam "a=?x".toUTF8.data 0 {} 2 =
    (2, .ok, { name := ⟨0, 1⟩, val := ⟨2, 0⟩, all := ⟨0, 2⟩, state := .fin }) := by decide +kernel
example : parseTokenParam "a =\r\nX".toUTF8.data 0 {} 0 =
    (5, .eoh, { name := ⟨0, 1⟩, all := ⟨0, 1⟩, state := .fin }) := by decide +kernel

/-- test: the phantom parameter of the empty list (`PSList.ps_named_or_empty`): option word 72 = URI-parameter
    mode + end-of-input option, empty input: ONE value is counted, verdict `EOH` -/
example : (parseAllURIParams "".toUTF8.data 0 { params := Array.replicate 4 {} } 72).2.1 = 1 ∧
    (parseAllURIParams "".toUTF8.data 0 { params := Array.replicate 4 {} } 72).2.2.1 = .eoh := by decide +kernel

/-- non-vacuity of `parseAllURIParams_ok_iff` (left to right): the accepted text `a=b;lr` is a `PSList` -/
example : ∃ tps, PSList "a=b;lr".toUTF8.data (72 ||| POptParamSemiSepF) 0 tps 6 .eoh ∧ tps.length = 2 := by
  have hfresh : ({ params := Array.replicate 4 {} } : URIParamsLst).Fresh := by
    refine ⟨fun i x _ hx => ?_, rfl⟩
    rw [Array.getElem?_replicate] at hx
    split at hx
    · cases hx; rfl
    · cases hx
  rcases hr : parseAllURIParams "a=b;lr".toUTF8.data 0 { params := Array.replicate 4 {} } 72 with ⟨o', n, e, r⟩
  have h1 : o' = 6 := by
    have : (parseAllURIParams "a=b;lr".toUTF8.data 0 { params := Array.replicate 4 {} } 72).1 = 6 := by
      decide +kernel
    rw [hr] at this; exact this
  have h2 : n = 2 := by
    have : (parseAllURIParams "a=b;lr".toUTF8.data 0 { params := Array.replicate 4 {} } 72).2.1 = 2 := by
      decide +kernel
    rw [hr] at this; exact this
  have h3 : e = .eoh := by
    have : (parseAllURIParams "a=b;lr".toUTF8.data 0 { params := Array.replicate 4 {} } 72).2.2.1 = .eoh := by
      decide +kernel
    rw [hr] at this; exact this
  subst h1 h2 h3
  obtain ⟨tps, hL, hn, _⟩ := (parseAllURIParams_ok_iff (by decide) _ hfresh).1 ⟨hr, Or.inr rfl⟩
  exact ⟨tps, hL, hn.symm⟩

end Sipsp
