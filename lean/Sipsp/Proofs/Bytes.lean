/-
  Sipsp.Proofs.Bytes — list-level facts: CmpEq is equality of lower-cased names.
-/
import Sipsp.Proofs.EqFold

namespace Sipsp

theorem cmpEqAux_iff (a b : List UInt8) : cmpEqAux a b = true ↔ lowerL a = lowerL b := by
  induction a generalizing b with
  | nil => cases b <;> simp [cmpEqAux, lowerL]
  | cons v vs ih =>
    cases b with
    | nil => simp [cmpEqAux, lowerL]
    | cons w ws =>
      simp only [cmpEqAux, Bool.and_eq_true, ih, eqFold_iff, lowerL, List.map_cons, List.cons.injEq, beq_iff_eq]

theorem lowerL_length (a : List UInt8) : (lowerL a).length = a.length := by simp [lowerL]

/-- `bytescase.CmpEq(name, e)` is equality of the lower-cased byte strings. -/
theorem cmpEqL_iff (name : Buf) (e : List UInt8) : cmpEqL name e = true ↔ lowerL name.toList = lowerL e := by
  unfold cmpEqL
  rw [Bool.and_eq_true, cmpEqAux_iff]
  constructor
  · exact fun h => h.2
  · intro h
    refine ⟨?_, h⟩
    have := congrArg List.length h
    simp only [lowerL_length] at this
    simpa using this

theorem cmpEq_iff (a b : Buf) : cmpEq a b = true ↔ lowerL a.toList = lowerL b.toList := by
  unfold cmpEq
  rw [Bool.and_eq_true, cmpEqAux_iff]
  constructor
  · exact fun h => h.2
  · intro h
    refine ⟨?_, h⟩
    have := congrArg List.length h
    simp only [lowerL_length] at this
    simpa using this

theorem cmpEq_refl (a : Buf) : cmpEq a a = true := (cmpEq_iff a a).2 rfl
theorem cmpEq_symm (a b : Buf) : cmpEq a b = cmpEq b a := by
  rw [Bool.eq_iff_iff, cmpEq_iff, cmpEq_iff]; exact eq_comm

theorem bytesEqL_iff (a : Buf) (l : List UInt8) : bytesEqL a l = true ↔ a.toList = l := by
  simp [bytesEqL]

end Sipsp
