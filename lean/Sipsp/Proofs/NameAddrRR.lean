/-
  Sipsp.Proofs.NameAddrRR — the resumption law of ParseNameAddrPVal in the form used by its callers.
-/
import Sipsp.Proofs.NameAddrL2
import Sipsp.Proofs.NameAddrPost
import Sipsp.Proofs.Schedule

namespace Sipsp

/-- after MoreBytes the object is not final (the next call will really continue parsing) -/
theorem parseNameAddrPVal_more_notfin (h : Nat) (b : Buf) (o : Nat) (pf : PFromBody) (hok : naOK b o pf)
    {o' : Nat} {pf' : PFromBody} (hr : parseNameAddrPVal h b o pf = (o', Err.moreBytes, pf')) :
    pf'.state ≠ .fin := by
  unfold parseNameAddrPVal at hr
  split at hr
  · cases hr
  · rename_i hf
    rcases hok with hok | hok
    · exact absurd hok hf
    · simp only at hr
      rcases hrl : runLoop (naMachine h) b o { pf with s := pf.soffs, soffs := 0 } with ⟨o1, e1, p1⟩
      rw [hrl] at hr
      simp only [Prod.mk.injEq] at hr
      obtain ⟨rfl, rfl, rfl⟩ := hr
      have hI2 : naInv2 b o { pf with s := pf.soffs, soffs := 0 } := ⟨hok, rfl⟩
      exact (na_more_inv h b o _ hI2 hf hrl).2.1

/-- after MoreBytes the returned offset lies in [start, len(buf)] -/
theorem parseNameAddrPVal_more_range (h : Nat) (b : Buf) (o : Nat) (pf : PFromBody) (hok : naOK b o pf)
    {o' : Nat} {pf' : PFromBody} (hr : parseNameAddrPVal h b o pf = (o', Err.moreBytes, pf')) :
    o ≤ o' ∧ o' ≤ b.size := by
  unfold parseNameAddrPVal at hr
  split at hr
  · cases hr
  · rename_i hf
    rcases hok with hok | hok
    · exact absurd hok hf
    · simp only at hr
      rcases hrl : runLoop (naMachine h) b o { pf with s := pf.soffs, soffs := 0 } with ⟨o1, e1, p1⟩
      rw [hrl] at hr
      simp only [Prod.mk.injEq] at hr
      obtain ⟨rfl, rfl, rfl⟩ := hr
      have hI2 : naInv2 b o { pf with s := pf.soffs, soffs := 0 } := ⟨hok, rfl⟩
      refine ⟨?_, (na_more_inv h b o _ hI2 hf hrl).1.1⟩
      have key := runLoop_inv (naMachine h) b (fun j _ => o ≤ j) (fun r => r.2.1 = .moreBytes → o ≤ r.1)
        (by
          intro i c st i' st' _ hP _
          exact ⟨fun hlt => by omega, fun _ hq => by cases hq⟩)
        (by
          intro i c st o2 e2 st2 hb hP hs hq
          subst hq
          change naStep h b i c st = .done o2 .moreBytes st2 at hs
          rcases naStep_suspend h b i c st hs with ⟨rfl, _⟩ | ⟨_, st1, _, _, h3, _⟩
          · exact hP
          · unfold naLWS lwsStd at h3
            rcases hsk : skipLWS b i 0 with ⟨n, crl, e⟩
            rw [hsk] at h3
            have hrg := skipLWS_range b i 0 hsk
            cases e <;> simp only at h3
            case moreBytes => simp only [Step.done.injEq] at h3; omega
            case eoh =>
              exfalso
              have hne := naEOH_ne_more h b st1 i n crl .ok (by simp)
              simp only [Step.done.injEq] at h3
              exact hne h3.2.1
            all_goals cases h3)
        (by
          intro i st _ hP _
          simp only [naMachine]; exact hP)
        o { pf with s := pf.soffs, soffs := 0 } (Nat.le_refl _)
      rw [hrl] at key
      exact key rfl

/-- **L2 for ParseNameAddrPVal, relational form** -/
theorem parseNameAddrPVal_resumeR (t : Nat) (b s : Buf) (o : Nat) (pf : PFromBody) (hok : naOK b o pf)
    {o' : Nat} {pf' : PFromBody} (hr : parseNameAddrPVal t b o pf = (o', Err.moreBytes, pf')) :
    RR PFromBody.obs (parseNameAddrPVal t (b ++ s) o' pf') (parseNameAddrPVal t (b ++ s) o pf) ∧
      naOK (b ++ s) o' pf' ∧ pf'.state ≠ .fin := by
  obtain ⟨r, k, h1, h2, h3⟩ := parseNameAddrPVal_resume t b s o pf hok hr
  refine ⟨?_, h3, parseNameAddrPVal_more_notfin t b o pf hok hr⟩
  have hne := parseNameAddrPVal_ne_empty t (b ++ s) o pf
  rw [h1] at hne
  rw [h1, h2]
  refine ⟨rfl, rfl, fun hg => ?_, naExit_obs _ _ _ _⟩
  rcases hg with hg | hg | hg | hg
  · exact naExit_nonerr _ _ _ _ (Or.inl hg)
  · exact naExit_nonerr _ _ _ _ (Or.inr (Or.inl hg))
  · exact naExit_nonerr _ _ _ _ (Or.inr (Or.inr hg))
  · exact absurd hg hne

end Sipsp
