/-
  Sipsp.Proofs.UriCmpLaws — laws of the URI comparison functions (property C15):
  byte comparisons (bytesEq / cmpEq), URICmpShort, the parameter-list and header-list
  comparisons, URICmp, URIParseCmp.
-/
import Sipsp.Model.URI
import Sipsp.Proofs.Bytes

namespace Sipsp

/-! ### byte comparisons -/

/-- "equal up to ASCII letter case": the lower-cased byte strings coincide. -/
def CaseEq (a c : Buf) : Prop := lowerL a.toList = lowerL c.toList

theorem CaseEq.refl (a : Buf) : CaseEq a a := rfl
theorem CaseEq.symm {a c : Buf} (h : CaseEq a c) : CaseEq c a := Eq.symm h
theorem CaseEq.trans {a c d : Buf} (h : CaseEq a c) (h' : CaseEq c d) : CaseEq a d := Eq.trans h h'

theorem cmpEq_iff_caseEq (a c : Buf) : cmpEq a c = true ↔ CaseEq a c := cmpEq_iff a c

theorem cmpEq_trans {a c d : Buf} (h : cmpEq a c = true) (h' : cmpEq c d = true) : cmpEq a d = true :=
  (cmpEq_iff a d).2 (((cmpEq_iff a c).1 h).trans ((cmpEq_iff c d).1 h'))

theorem cmpEq_symm' {a c : Buf} (h : cmpEq a c = true) : cmpEq c a = true := by
  rw [cmpEq_symm]; exact h

/-- `cmpEq` only looks at the lower-cased strings (left argument). -/
theorem cmpEq_congr_left {a a' : Buf} (h : CaseEq a a') (c : Buf) : cmpEq a c = cmpEq a' c := by
  rw [Bool.eq_iff_iff, cmpEq_iff, cmpEq_iff]
  unfold CaseEq at h
  rw [h]

theorem cmpEq_congr_right {c c' : Buf} (h : CaseEq c c') (a : Buf) : cmpEq a c = cmpEq a c' := by
  rw [cmpEq_symm a c, cmpEq_symm a c']; exact cmpEq_congr_left h a

theorem cmpEq_congr {a a' c c' : Buf} (h : CaseEq a a') (h' : CaseEq c c') : cmpEq a c = cmpEq a' c' := by
  rw [cmpEq_congr_left h, cmpEq_congr_right h']

theorem bytesEq_iff (a c : Buf) : bytesEq a c = true ↔ a = c := by
  unfold bytesEq
  rw [beq_iff_eq]
  constructor
  · intro h; exact Array.ext' h
  · intro h; rw [h]

theorem bytesEq_refl (a : Buf) : bytesEq a a = true := (bytesEq_iff a a).2 rfl

theorem bytesEq_symm (a c : Buf) : bytesEq a c = bytesEq c a := by
  rw [Bool.eq_iff_iff, bytesEq_iff, bytesEq_iff]; exact eq_comm

theorem cmpEq_of_bytesEq {a c : Buf} (h : bytesEq a c = true) : cmpEq a c = true := by
  rw [(bytesEq_iff a c).1 h]; exact cmpEq_refl c

/-- ASCII upper-casing (only used to state that `cmpEq` ignores letter case). -/
def upperB (c : UInt8) : UInt8 := if 97 ≤ c ∧ c ≤ 122 then c - 32 else c

theorem lowerB_upperB_nat : ∀ a, a < 256 → lowerB (upperB (UInt8.ofNat a)) = lowerB (UInt8.ofNat a) := by
  decide +kernel

theorem lowerB_lowerB_nat : ∀ a, a < 256 → lowerB (lowerB (UInt8.ofNat a)) = lowerB (UInt8.ofNat a) := by
  decide +kernel

theorem lowerB_upperB (c : UInt8) : lowerB (upperB c) = lowerB c := by
  have h := lowerB_upperB_nat c.toNat (UInt8.toNat_lt c)
  simpa using h

theorem lowerB_lowerB (c : UInt8) : lowerB (lowerB c) = lowerB c := by
  have h := lowerB_lowerB_nat c.toNat (UInt8.toNat_lt c)
  simpa using h

/-- re-casing a string byte by byte (each byte lower-cased, upper-cased or kept, as `sel` says)
    gives a `CaseEq` string. -/
def recase (sel : Nat → Bool × Bool) (a : Buf) : Buf :=
  (a.toList.zipIdx.map (fun ci => if (sel ci.2).1 then lowerB ci.1 else if (sel ci.2).2 then upperB ci.1 else ci.1)).toArray

theorem lowerL_recase_aux (sel : Nat → Bool × Bool) (l : List UInt8) (k : Nat) :
    lowerL ((l.zipIdx k).map (fun ci => if (sel ci.2).1 then lowerB ci.1 else if (sel ci.2).2 then upperB ci.1 else ci.1))
      = lowerL l := by
  induction l generalizing k with
  | nil => rfl
  | cons c cs ih =>
    simp only [List.zipIdx_cons, List.map_cons, lowerL] at ih ⊢
    rw [ih (k + 1)]
    congr 1
    by_cases h1 : (sel k).1 = true
    · simp only [h1, ↓reduceIte, lowerB_lowerB]
    · by_cases h2 : (sel k).2 = true
      · simp only [h1, h2, Bool.false_eq_true, ↓reduceIte, lowerB_upperB]
      · simp only [h1, h2, Bool.false_eq_true, ↓reduceIte]

theorem caseEq_recase (sel : Nat → Bool × Bool) (a : Buf) : CaseEq (recase sel a) a := by
  unfold CaseEq recase
  exact lowerL_recase_aux sel a.toList 0

/-- `cmpEq` ignores ASCII letter case: any byte-wise re-casing of either side leaves the verdict unchanged. -/
theorem cmpEq_recase (s1 s2 : Nat → Bool × Bool) (a c : Buf) :
    cmpEq (recase s1 a) (recase s2 c) = cmpEq a c :=
  cmpEq_congr (caseEq_recase s1 a) (caseEq_recase s2 c)

/-! ### skip flags -/

/-- every skip flag set in `f` is also set in `g` -/
structure FlagsLe (f g : Nat) : Prop where
  port : hasFlag f URICmpSkipPort = true → hasFlag g URICmpSkipPort = true
  scheme : hasFlag f URICmpSkipScheme = true → hasFlag g URICmpSkipScheme = true
  user : hasFlag f URICmpSkipUser = true → hasFlag g URICmpSkipUser = true
  pass : hasFlag f URICmpSkipPass = true → hasFlag g URICmpSkipPass = true
  params : hasFlag f URICmpSkipParams = true → hasFlag g URICmpSkipParams = true
  headers : hasFlag f URICmpSkipHeaders = true → hasFlag g URICmpSkipHeaders = true

theorem hasFlag_mono {f g : Nat} (h : f &&& g = f) (x : Nat) (hx : hasFlag f x = true) : hasFlag g x = true := by
  unfold hasFlag at hx ⊢
  rw [bne_iff_ne] at hx ⊢
  intro h0
  apply hx
  rw [← h, Nat.and_assoc, h0, Nat.and_zero]

theorem FlagsLe.of_and {f g : Nat} (h : f &&& g = f) : FlagsLe f g :=
  ⟨hasFlag_mono h _, hasFlag_mono h _, hasFlag_mono h _, hasFlag_mono h _, hasFlag_mono h _, hasFlag_mono h _⟩

/-! ### URICmpShort -/

/-- one `&&` operand of URICmpShort that reads two fields -/
def cmpFields (skip : Bool) (eq : Buf → Buf → Bool) (x y : Option Buf) : Option Bool :=
  if skip then some true
  else match x, y with
    | some x, some y => some (eq x y)
    | _, _ => none

theorem uriCmpShort_eq (u1 : PsipURI) (b1 : Buf) (u2 : PsipURI) (b2 : Buf) (f : Nat) :
    uriCmpShort u1 b1 u2 b2 f =
      if !(hasFlag f URICmpSkipScheme || u1.uriType == u2.uriType) then some false
      else if !(hasFlag f URICmpSkipPort || u1.portNo == u2.portNo) then some false
      else match cmpFields (hasFlag f URICmpSkipUser) bytesEq (u1.user.get? b1) (u2.user.get? b2) with
        | none => none
        | some false => some false
        | some true =>
          match cmpFields (hasFlag f URICmpSkipPass) bytesEq (u1.pass.get? b1) (u2.pass.get? b2) with
          | none => none
          | some false => some false
          | some true => cmpFields false cmpEq (u1.host.get? b1) (u2.host.get? b2) := by
  unfold uriCmpShort cmpFields
  rfl

theorem cmpFields_true_iff (s : Bool) (eq : Buf → Buf → Bool) (x y : Option Buf) :
    cmpFields s eq x y = some true ↔ (s = true ∨ ∃ a c, x = some a ∧ y = some c ∧ eq a c = true) := by
  unfold cmpFields
  cases s
  · cases x with
    | none => simp
    | some a =>
      cases y with
      | none => simp
      | some c => simp
  · simp

theorem cmpFields_symm (s : Bool) (eq : Buf → Buf → Bool) (hs : ∀ a c, eq a c = eq c a) (x y : Option Buf) :
    cmpFields s eq x y = cmpFields s eq y x := by
  unfold cmpFields
  cases s
  · cases x <;> cases y <;> simp [hs]
  · rfl

theorem cmpFields_refl (s : Bool) (eq : Buf → Buf → Bool) (hr : ∀ a, eq a a = true) (a : Buf) :
    cmpFields s eq (some a) (some a) = some true := by
  unfold cmpFields
  cases s <;> simp [hr]

/-- what a verdict "equal" of URICmpShort means -/
theorem uriCmpShort_true_iff (u1 : PsipURI) (b1 : Buf) (u2 : PsipURI) (b2 : Buf) (f : Nat) :
    uriCmpShort u1 b1 u2 b2 f = some true ↔
      (hasFlag f URICmpSkipScheme = true ∨ u1.uriType = u2.uriType) ∧
      (hasFlag f URICmpSkipPort = true ∨ u1.portNo = u2.portNo) ∧
      (hasFlag f URICmpSkipUser = true ∨ ∃ a c, u1.user.get? b1 = some a ∧ u2.user.get? b2 = some c ∧ a = c) ∧
      (hasFlag f URICmpSkipPass = true ∨ ∃ a c, u1.pass.get? b1 = some a ∧ u2.pass.get? b2 = some c ∧ a = c) ∧
      (∃ a c, u1.host.get? b1 = some a ∧ u2.host.get? b2 = some c ∧ CaseEq a c) := by
  rw [uriCmpShort_eq]
  by_cases h1 : (hasFlag f URICmpSkipScheme || u1.uriType == u2.uriType) = true
  · have h1' : hasFlag f URICmpSkipScheme = true ∨ u1.uriType = u2.uriType := by
      simpa using h1
    by_cases h2 : (hasFlag f URICmpSkipPort || u1.portNo == u2.portNo) = true
    · have h2' : hasFlag f URICmpSkipPort = true ∨ u1.portNo = u2.portNo := by
        simpa using h2
      simp only [h1, h2, Bool.not_true, Bool.false_eq_true, ↓reduceIte]
      rcases hu : cmpFields (hasFlag f URICmpSkipUser) bytesEq (u1.user.get? b1) (u2.user.get? b2) with _ | _ | _
      · have := mt (cmpFields_true_iff _ _ _ _).2 (by rw [hu]; simp)
        simp only [bytesEq_iff] at this
        simp only [this, false_and, and_false]
        simp
      · have := mt (cmpFields_true_iff _ _ _ _).2 (by rw [hu]; simp)
        simp only [bytesEq_iff] at this
        simp only [this, false_and, and_false]
        simp
      · have hu' := (cmpFields_true_iff _ _ _ _).1 hu
        simp only [bytesEq_iff] at hu'
        rcases hp : cmpFields (hasFlag f URICmpSkipPass) bytesEq (u1.pass.get? b1) (u2.pass.get? b2) with _ | _ | _
        · have := mt (cmpFields_true_iff _ _ _ _).2 (by rw [hp]; simp)
          simp only [bytesEq_iff] at this
          simp only [this, false_and, and_false]
          simp
        · have := mt (cmpFields_true_iff _ _ _ _).2 (by rw [hp]; simp)
          simp only [bytesEq_iff] at this
          simp only [this, false_and, and_false]
          simp
        · have hp' := (cmpFields_true_iff _ _ _ _).1 hp
          simp only [bytesEq_iff] at hp'
          simp only [cmpFields_true_iff, Bool.false_eq_true, false_or, cmpEq_iff_caseEq]
          exact ⟨fun h => ⟨h1', h2', hu', hp', h⟩, fun h => h.2.2.2.2⟩
    · have h2' : ¬ (hasFlag f URICmpSkipPort = true ∨ u1.portNo = u2.portNo) := by
        simpa using h2
      simp only [h1, h2, Bool.not_true, Bool.not_false, Bool.false_eq_true, ↓reduceIte]
      simp only [h2', false_and, and_false]
      simp
  · have h1' : ¬ (hasFlag f URICmpSkipScheme = true ∨ u1.uriType = u2.uriType) := by
      simpa using h1
    simp only [h1, Bool.not_false, ↓reduceIte]
    simp only [h1', false_and]
    simp

/-- FLAG MONOTONICITY for URICmpShort: ignoring more components keeps the verdict "equal"
    (in particular the run with more flags does not panic). -/
theorem uriCmpShort_mono {f g : Nat} (hfg : FlagsLe f g) (u1 : PsipURI) (b1 : Buf) (u2 : PsipURI) (b2 : Buf)
    (h : uriCmpShort u1 b1 u2 b2 f = some true) : uriCmpShort u1 b1 u2 b2 g = some true := by
  rw [uriCmpShort_true_iff] at h ⊢
  obtain ⟨h1, h2, h3, h4, h5⟩ := h
  exact ⟨h1.imp hfg.scheme id, h2.imp hfg.port id, h3.imp hfg.user id, h4.imp hfg.pass id, h5⟩

/-- URICmpShort is symmetric for ALL inputs, panics included. -/
theorem uriCmpShort_symm (u1 : PsipURI) (b1 : Buf) (u2 : PsipURI) (b2 : Buf) (f : Nat) :
    uriCmpShort u1 b1 u2 b2 f = uriCmpShort u2 b2 u1 b1 f := by
  rw [uriCmpShort_eq, uriCmpShort_eq]
  rw [cmpFields_symm _ bytesEq bytesEq_symm (u1.user.get? b1), cmpFields_symm _ bytesEq bytesEq_symm (u1.pass.get? b1),
    cmpFields_symm _ cmpEq cmpEq_symm (u1.host.get? b1)]
  have e1 : (u1.uriType == u2.uriType) = (u2.uriType == u1.uriType) := by
    rw [Bool.eq_iff_iff, beq_iff_eq, beq_iff_eq]; exact eq_comm
  have e2 : (u1.portNo == u2.portNo) = (u2.portNo == u1.portNo) := by
    rw [Bool.eq_iff_iff, beq_iff_eq, beq_iff_eq]; exact eq_comm
  rw [e1, e2]

/-- URICmpShort is reflexive when user, password and host lie inside the buffer. -/
theorem uriCmpShort_refl (u : PsipURI) (b : Buf) (f : Nat)
    (hu : (u.user.get? b).isSome) (hp : (u.pass.get? b).isSome) (hh : (u.host.get? b).isSome) :
    uriCmpShort u b u b f = some true := by
  rw [uriCmpShort_true_iff]
  obtain ⟨x, hx⟩ := Option.isSome_iff_exists.1 hu
  obtain ⟨y, hy⟩ := Option.isSome_iff_exists.1 hp
  obtain ⟨z, hz⟩ := Option.isSome_iff_exists.1 hh
  exact ⟨Or.inr rfl, Or.inr rfl, Or.inr ⟨x, x, hx, hx, rfl⟩, Or.inr ⟨y, y, hy, hy, rfl⟩, ⟨z, z, hz, hz, CaseEq.refl z⟩⟩

/-! ### URICmp -/

/-- the parameter stage of URICmp (evaluated only when not skipped and everything before was equal) -/
def uriCmpParamsPart (u1 : PsipURI) (b1 : Buf) (u2 : PsipURI) (b2 : Buf) : Option Bool :=
  match u1.params.get? b1, u2.params.get? b2 with
  | some p1, some p2 => (uriParamsEq p1 0 p2 0).map (·.1)
  | _, _ => none

/-- the header stage of URICmp -/
def uriCmpHdrsPart (u1 : PsipURI) (b1 : Buf) (u2 : PsipURI) (b2 : Buf) : Option Bool :=
  match u1.headers.get? b1, u2.headers.get? b2 with
  | some h1, some h2 => (uriHdrsEq h1 0 h2 0).map (·.1)
  | _, _ => none

theorem uriCmp_eq (u1 : PsipURI) (b1 : Buf) (u2 : PsipURI) (b2 : Buf) (f : Nat) :
    uriCmp u1 b1 u2 b2 f =
      match uriCmpShort u1 b1 u2 b2 f with
      | none => none
      | some r0 =>
        match (if r0 && !hasFlag f URICmpSkipParams then uriCmpParamsPart u1 b1 u2 b2 else some r0) with
        | none => none
        | some r1 => if r1 && !hasFlag f URICmpSkipHeaders then uriCmpHdrsPart u1 b1 u2 b2 else some r1 := by
  unfold uriCmp uriCmpParamsPart uriCmpHdrsPart
  rfl

/-- what a verdict "equal" of URICmp means: the short comparison says equal, and each of the
    parameter / header stages is either skipped or says equal. -/
theorem uriCmp_true_iff (u1 : PsipURI) (b1 : Buf) (u2 : PsipURI) (b2 : Buf) (f : Nat) :
    uriCmp u1 b1 u2 b2 f = some true ↔
      uriCmpShort u1 b1 u2 b2 f = some true ∧
      (hasFlag f URICmpSkipParams = true ∨ uriCmpParamsPart u1 b1 u2 b2 = some true) ∧
      (hasFlag f URICmpSkipHeaders = true ∨ uriCmpHdrsPart u1 b1 u2 b2 = some true) := by
  rw [uriCmp_eq]
  rcases uriCmpShort u1 b1 u2 b2 f with _ | _ | _
  · simp
  · simp
  · cases hasFlag f URICmpSkipParams
    · rcases uriCmpParamsPart u1 b1 u2 b2 with _ | _ | _
      · simp
      · simp
      · cases hasFlag f URICmpSkipHeaders <;> simp
    · cases hasFlag f URICmpSkipHeaders <;> simp

/-- FLAG MONOTONICITY for URICmp. -/
theorem uriCmp_mono {f g : Nat} (hfg : FlagsLe f g) (u1 : PsipURI) (b1 : Buf) (u2 : PsipURI) (b2 : Buf)
    (h : uriCmp u1 b1 u2 b2 f = some true) : uriCmp u1 b1 u2 b2 g = some true := by
  rw [uriCmp_true_iff] at h ⊢
  obtain ⟨h1, h2, h3⟩ := h
  exact ⟨uriCmpShort_mono hfg u1 b1 u2 b2 h1, h2.imp hfg.params id, h3.imp hfg.headers id⟩

/-! ### fields equal up to case -/

/-- both fields can be read from their buffers and the bytes are equal up to ASCII case -/
def FEq (f1 : PField) (b1 : Buf) (f2 : PField) (b2 : Buf) : Prop :=
  ∃ x y, f1.get? b1 = some x ∧ f2.get? b2 = some y ∧ CaseEq x y

theorem FEq.symm {f1 : PField} {b1 : Buf} {f2 : PField} {b2 : Buf} (h : FEq f1 b1 f2 b2) : FEq f2 b2 f1 b1 := by
  obtain ⟨x, y, h1, h2, h3⟩ := h
  exact ⟨y, x, h2, h1, h3.symm⟩

theorem FEq.trans {f1 : PField} {b1 : Buf} {f2 : PField} {b2 : Buf} {f3 : PField} {b3 : Buf}
    (h : FEq f1 b1 f2 b2) (h' : FEq f2 b2 f3 b3) : FEq f1 b1 f3 b3 := by
  obtain ⟨x, y, h1, h2, h3⟩ := h
  obtain ⟨y', z, h4, h5, h6⟩ := h'
  rw [h2] at h4; cases h4
  exact ⟨x, z, h1, h5, h3.trans h6⟩

theorem FEq.refl {f : PField} {b : Buf} (h : (f.get? b).isSome) : FEq f b f b := by
  obtain ⟨x, hx⟩ := Option.isSome_iff_exists.1 h
  exact ⟨x, x, hx, hx, CaseEq.refl x⟩

theorem FEq.left {f1 : PField} {b1 : Buf} {f2 : PField} {b2 : Buf} (h : FEq f1 b1 f2 b2) : FEq f1 b1 f1 b1 :=
  h.trans h.symm

theorem cmpEq_iff_FEq {f1 : PField} {b1 : Buf} {f2 : PField} {b2 : Buf} {x y : Buf}
    (h1 : f1.get? b1 = some x) (h2 : f2.get? b2 = some y) : cmpEq x y = true ↔ FEq f1 b1 f2 b2 := by
  rw [cmpEq_iff_caseEq]
  constructor
  · intro h; exact ⟨x, y, h1, h2, h⟩
  · rintro ⟨x', y', h1', h2', h⟩
    rw [h1] at h1'; rw [h2] at h2'; cases h1'; cases h2'; exact h

/-! ### URIParamsLstEq -/

/-- name and value of a parameter lie inside its buffer -/
def ParamIn (b : Buf) (p : URIParam) : Prop := (p.param.name.get? b).isSome ∧ (p.param.val.get? b).isSome

/-- two parameters are "the same parameter": same type and, for the type `other`, names equal up to case -/
def PMatch (b1 : Buf) (p1 : URIParam) (b2 : Buf) (p2 : URIParam) : Prop :=
  p1.t = p2.t ∧ (p1.t = URIParamOtherF → FEq p1.param.name b1 p2.param.name b2)

/-- the values are equal up to case -/
def PValEq (b1 : Buf) (p1 : URIParam) (b2 : Buf) (p2 : URIParam) : Prop :=
  FEq p1.param.val b1 p2.param.val b2

theorem PMatch.symm {b1 : Buf} {p1 : URIParam} {b2 : Buf} {p2 : URIParam} (h : PMatch b1 p1 b2 p2) :
    PMatch b2 p2 b1 p1 :=
  ⟨h.1.symm, fun ho => (h.2 (h.1.trans ho)).symm⟩

theorem PMatch.trans {b1 : Buf} {p1 : URIParam} {b2 : Buf} {p2 : URIParam} {b3 : Buf} {p3 : URIParam}
    (h : PMatch b1 p1 b2 p2) (h' : PMatch b2 p2 b3 p3) : PMatch b1 p1 b3 p3 :=
  ⟨h.1.trans h'.1, fun ho => (h.2 ho).trans (h'.2 (h.1.symm.trans ho))⟩

theorem PMatch.refl {b : Buf} {p : URIParam} (h : ParamIn b p) : PMatch b p b p :=
  ⟨rfl, fun _ => FEq.refl h.1⟩

theorem PValEq.symm {b1 : Buf} {p1 : URIParam} {b2 : Buf} {p2 : URIParam} (h : PValEq b1 p1 b2 p2) :
    PValEq b2 p2 b1 p1 := FEq.symm h

/-- no two parameters of the list are "the same parameter" (no duplicate names) -/
def ParamsNoDup (b : Buf) (l : List URIParam) : Prop := l.Pairwise (fun p q => ¬ PMatch b p b q)

/-- the inner loop: with the second list inside its buffer and free of duplicates, the loop does not panic and
    says "continue" exactly when every parameter of the second list that is the same parameter has the same value -/
theorem paramsEqInner_spec (p1 : URIParam) (b1 b2 : Buf) (h1 : ParamIn b1 p1) :
    ∀ (l2 : List URIParam), (∀ p ∈ l2, ParamIn b2 p) → ParamsNoDup b2 l2 →
      ∃ r, paramsEqInner p1 b1 b2 l2 = some r ∧
        (r = true ↔ ∀ p2 ∈ l2, PMatch b1 p1 b2 p2 → PValEq b1 p1 b2 p2) := by
  intro l2
  induction l2 with
  | nil => intro _ _; exact ⟨true, rfl, by simp⟩
  | cons p2 rest ih =>
    intro hin hnd
    have hin2 : ParamIn b2 p2 := hin p2 (List.mem_cons_self)
    have hinr : ∀ p ∈ rest, ParamIn b2 p := fun p hp => hin p (List.mem_cons_of_mem _ hp)
    have hnd' := List.pairwise_cons.1 hnd
    obtain ⟨r, hr, hrs⟩ := ih hinr hnd'.2
    obtain ⟨n1, hn1⟩ := Option.isSome_iff_exists.1 h1.1
    obtain ⟨v1, hv1⟩ := Option.isSome_iff_exists.1 h1.2
    obtain ⟨n2, hn2⟩ := Option.isSome_iff_exists.1 hin2.1
    obtain ⟨v2, hv2⟩ := Option.isSome_iff_exists.1 hin2.2
    -- the two possible outcomes at `p2`
    have hit : PMatch b1 p1 b2 p2 →
        (cmpEq v1 v2 = true ↔ ∀ q ∈ p2 :: rest, PMatch b1 p1 b2 q → PValEq b1 p1 b2 q) := by
      intro hm
      constructor
      · intro hc q hq hmq
        rcases List.mem_cons.1 hq with rfl | hq
        · exact (cmpEq_iff_FEq hv1 hv2).1 hc
        · exact absurd (hm.symm.trans hmq) (hnd'.1 q hq)
      · intro hall
        exact (cmpEq_iff_FEq hv1 hv2).2 (hall p2 List.mem_cons_self hm)
    have miss : ¬ PMatch b1 p1 b2 p2 →
        (r = true ↔ ∀ q ∈ p2 :: rest, PMatch b1 p1 b2 q → PValEq b1 p1 b2 q) := by
      intro hm
      rw [hrs]
      constructor
      · intro hall q hq hmq
        rcases List.mem_cons.1 hq with rfl | hq
        · exact absurd hmq hm
        · exact hall q hq hmq
      · intro hall q hq hmq
        exact hall q (List.mem_cons_of_mem _ hq) hmq
    unfold paramsEqInner
    by_cases ht : (p1.t == p2.t) = true
    · have ht' : p1.t = p2.t := by simpa using ht
      simp only [ht, ↓reduceIte]
      by_cases ho : (p1.t != URIParamOtherF) = true
      · have ho' : p1.t ≠ URIParamOtherF := by simpa using ho
        simp only [ho, ↓reduceIte, hv1, hv2]
        exact ⟨_, rfl, hit ⟨ht', fun h => absurd h ho'⟩⟩
      · have ho' : p1.t = URIParamOtherF := by simpa using ho
        simp only [ho, Bool.false_eq_true, ↓reduceIte, hn1, hn2]
        by_cases hc : cmpEq n1 n2 = true
        · simp only [hc, hv1, hv2]
          exact ⟨_, rfl, hit ⟨ht', fun _ => (cmpEq_iff_FEq hn1 hn2).1 hc⟩⟩
        · have hc' : cmpEq n1 n2 = false := by simpa using hc
          simp only [hc']
          exact ⟨r, hr, miss (fun hm => hc ((cmpEq_iff_FEq hn1 hn2).2 (hm.2 ho')))⟩
    · have ht' : ¬ p1.t = p2.t := by simpa using ht
      simp only [ht, Bool.false_eq_true, ↓reduceIte]
      exact ⟨r, hr, miss (fun hm => ht' hm.1)⟩

theorem paramsEqOuter_spec (b1 b2 : Buf) (l2 : List URIParam) (hin2 : ∀ p ∈ l2, ParamIn b2 p)
    (hnd2 : ParamsNoDup b2 l2) :
    ∀ (l1 : List URIParam), (∀ p ∈ l1, ParamIn b1 p) →
      ∃ r, paramsEqOuter b1 b2 l2 l1 = some r ∧
        (r = true ↔ ∀ p1 ∈ l1, ∀ p2 ∈ l2, PMatch b1 p1 b2 p2 → PValEq b1 p1 b2 p2) := by
  intro l1
  induction l1 with
  | nil => intro _; exact ⟨true, rfl, by simp⟩
  | cons p1 rest ih =>
    intro hin1
    obtain ⟨r, hr, hrs⟩ := ih (fun p hp => hin1 p (List.mem_cons_of_mem _ hp))
    obtain ⟨ri, hri, hris⟩ := paramsEqInner_spec p1 b1 b2 (hin1 p1 List.mem_cons_self) l2 hin2 hnd2
    unfold paramsEqOuter
    rw [hri]
    cases ri with
    | false =>
      refine ⟨false, rfl, ?_⟩
      constructor
      · intro h; cases h
      · intro hall
        exact hris.2 (hall p1 List.mem_cons_self)
    | true =>
      refine ⟨r, hr, ?_⟩
      rw [hrs]
      constructor
      · intro hall q hq
        rcases List.mem_cons.1 hq with rfl | hq
        · exact hris.1 rfl
        · exact hall q hq
      · intro hall q hq
        exact hall q (List.mem_cons_of_mem _ hq)

/-- the parameters the comparison looks at: `l.Params[0 : l.PNo()]` -/
def URIParamsLst.plist (l : URIParamsLst) : List URIParam := (l.params.toList).take l.pNo

/-- user, ttl, method and maddr must be present in both URIs or in neither -/
def uriParamsBMask : Nat := URIParamUserF ||| URIParamTTLF ||| URIParamMethodF ||| URIParamMaddrF

/-- the declarative meaning of URIParamsLstEq: same presence mask, and any parameter present in both lists
    has the same value (up to case) -/
def ParamsAgree (l1 : URIParamsLst) (b1 : Buf) (l2 : URIParamsLst) (b2 : Buf) : Prop :=
  (l1.types &&& uriParamsBMask) = (l2.types &&& uriParamsBMask) ∧
  ∀ p1 ∈ l1.plist, ∀ p2 ∈ l2.plist, PMatch b1 p1 b2 p2 → PValEq b1 p1 b2 p2

theorem ParamsAgree.symm {l1 : URIParamsLst} {b1 : Buf} {l2 : URIParamsLst} {b2 : Buf}
    (h : ParamsAgree l1 b1 l2 b2) : ParamsAgree l2 b2 l1 b1 :=
  ⟨h.1.symm, fun p2 hp2 p1 hp1 hm => (h.2 p1 hp1 p2 hp2 hm.symm).symm⟩

/-- URIParamsLstEq decides `ParamsAgree` and does not panic, when the fields of both lists lie inside their
    buffers and the second list has no duplicate parameter. -/
theorem uriParamsLstEq_spec (l1 : URIParamsLst) (b1 : Buf) (l2 : URIParamsLst) (b2 : Buf)
    (hin1 : ∀ p ∈ l1.plist, ParamIn b1 p) (hin2 : ∀ p ∈ l2.plist, ParamIn b2 p)
    (hnd2 : ParamsNoDup b2 l2.plist) :
    ∃ r, uriParamsLstEq l1 b1 l2 b2 = some r ∧ (r = true ↔ ParamsAgree l1 b1 l2 b2) := by
  obtain ⟨r, hr, hrs⟩ := paramsEqOuter_spec b1 b2 l2.plist hin2 hnd2 l1.plist hin1
  unfold uriParamsLstEq ParamsAgree
  by_cases hm : (l1.types &&& uriParamsBMask) = (l2.types &&& uriParamsBMask)
  · have hm' : ((l1.types &&& (URIParamUserF ||| URIParamTTLF ||| URIParamMethodF ||| URIParamMaddrF)) !=
        (l2.types &&& (URIParamUserF ||| URIParamTTLF ||| URIParamMethodF ||| URIParamMaddrF))) = false := by
      simpa [uriParamsBMask] using hm
    simp only [hm', Bool.false_eq_true, ↓reduceIte]
    refine ⟨r, hr, ?_⟩
    rw [hrs]
    exact ⟨fun h => ⟨hm, h⟩, fun h => h.2⟩
  · have hm' : ((l1.types &&& (URIParamUserF ||| URIParamTTLF ||| URIParamMethodF ||| URIParamMaddrF)) !=
        (l2.types &&& (URIParamUserF ||| URIParamTTLF ||| URIParamMethodF ||| URIParamMaddrF))) = true := by
      simpa [uriParamsBMask] using hm
    simp only [hm', ↓reduceIte]
    refine ⟨false, rfl, ?_⟩
    constructor
    · intro h; cases h
    · intro h; exact absurd h.1 hm

/-- the presence mask alone (no hypotheses): a verdict "equal" implies equal user/ttl/method/maddr presence bits -/
theorem uriParamsLstEq_true_mask (l1 : URIParamsLst) (b1 : Buf) (l2 : URIParamsLst) (b2 : Buf)
    (h : uriParamsLstEq l1 b1 l2 b2 = some true) :
    (l1.types &&& uriParamsBMask) = (l2.types &&& uriParamsBMask) := by
  unfold uriParamsLstEq at h
  by_cases hm : (l1.types &&& uriParamsBMask) = (l2.types &&& uriParamsBMask)
  · exact hm
  · have hm' : ((l1.types &&& (URIParamUserF ||| URIParamTTLF ||| URIParamMethodF ||| URIParamMaddrF)) !=
        (l2.types &&& (URIParamUserF ||| URIParamTTLF ||| URIParamMethodF ||| URIParamMaddrF))) = true := by
      simpa [uriParamsBMask] using hm
    simp only [hm', ↓reduceIte] at h
    cases h

/-- SYMMETRY of URIParamsLstEq (both lists inside their buffers and free of duplicates). -/
theorem uriParamsLstEq_symm (l1 : URIParamsLst) (b1 : Buf) (l2 : URIParamsLst) (b2 : Buf)
    (hin1 : ∀ p ∈ l1.plist, ParamIn b1 p) (hin2 : ∀ p ∈ l2.plist, ParamIn b2 p)
    (hnd1 : ParamsNoDup b1 l1.plist) (hnd2 : ParamsNoDup b2 l2.plist) :
    uriParamsLstEq l1 b1 l2 b2 = uriParamsLstEq l2 b2 l1 b1 := by
  obtain ⟨r, hr, hrs⟩ := uriParamsLstEq_spec l1 b1 l2 b2 hin1 hin2 hnd2
  obtain ⟨r', hr', hrs'⟩ := uriParamsLstEq_spec l2 b2 l1 b1 hin2 hin1 hnd1
  rw [hr, hr']
  congr 1
  rw [Bool.eq_iff_iff, hrs, hrs']
  exact ⟨ParamsAgree.symm, ParamsAgree.symm⟩

/-- REFLEXIVITY of URIParamsLstEq (list inside its buffer and free of duplicates; without the second
    hypothesis it is false: `x=1;x=2`). -/
theorem uriParamsLstEq_refl (l : URIParamsLst) (b : Buf)
    (hin : ∀ p ∈ l.plist, ParamIn b p) (hnd : ParamsNoDup b l.plist) :
    uriParamsLstEq l b l b = some true := by
  obtain ⟨r, hr, hrs⟩ := uriParamsLstEq_spec l b l b hin hin hnd
  rw [hr]
  congr 1
  rw [hrs]
  refine ⟨rfl, ?_⟩
  intro p1 hp1 p2 hp2 hm
  -- two matching members of a duplicate-free list are the same member
  have key : ∀ (l : List URIParam), ParamsNoDup b l → ∀ p ∈ l, ∀ q ∈ l, PMatch b p b q → p = q := by
    intro l
    induction l with
    | nil => intro _ p hp; cases hp
    | cons a t ih =>
      intro hnd p hp q hq hm
      have hc := List.pairwise_cons.1 hnd
      rcases List.mem_cons.1 hp with hpa | hpt
      · rcases List.mem_cons.1 hq with hqa | hqt
        · rw [hpa, hqa]
        · rw [hpa] at hm; exact absurd hm (hc.1 q hqt)
      · rcases List.mem_cons.1 hq with hqa | hqt
        · rw [hqa] at hm; exact absurd hm.symm (hc.1 p hpt)
        · exact ih hc.2 p hpt q hqt hm
  have := key l.plist hnd p1 hp1 p2 hp2 hm
  subst this
  exact FEq.refl (hin p1 hp1).2

/-! #### order and letter case of the parameters -/

/-- `p` (in `b`) and `p'` (in `b'`) are the same parameter written with possibly different letter case -/
def PSame (b : Buf) (p : URIParam) (b' : Buf) (p' : URIParam) : Prop :=
  p.t = p'.t ∧ FEq p.param.name b p'.param.name b' ∧ FEq p.param.val b p'.param.val b'

theorem PSame.symm {b : Buf} {p : URIParam} {b' : Buf} {p' : URIParam} (h : PSame b p b' p') : PSame b' p' b p :=
  ⟨h.1.symm, h.2.1.symm, h.2.2.symm⟩

theorem PSame.refl {b : Buf} {p : URIParam} (h : ParamIn b p) : PSame b p b p :=
  ⟨rfl, FEq.refl h.1, FEq.refl h.2⟩

theorem PSame.paramIn {b : Buf} {p : URIParam} {b' : Buf} {p' : URIParam} (h : PSame b p b' p') : ParamIn b p := by
  obtain ⟨_, ⟨x, _, hx, _, _⟩, ⟨y, _, hy, _, _⟩⟩ := h
  exact ⟨by rw [hx]; rfl, by rw [hy]; rfl⟩

theorem PSame.pmatch {b : Buf} {p : URIParam} {b' : Buf} {p' : URIParam} (h : PSame b p b' p') : PMatch b p b' p' :=
  ⟨h.1, fun _ => h.2.1⟩

theorem PSame.match_iff {b : Buf} {p : URIParam} {b' : Buf} {p' : URIParam} (h : PSame b p b' p')
    (c : Buf) (q : URIParam) : PMatch b p c q ↔ PMatch b' p' c q :=
  ⟨fun hm => h.pmatch.symm.trans hm, fun hm => h.pmatch.trans hm⟩

theorem PSame.valEq_iff {b : Buf} {p : URIParam} {b' : Buf} {p' : URIParam} (h : PSame b p b' p')
    (c : Buf) (q : URIParam) : PValEq b p c q ↔ PValEq b' p' c q :=
  ⟨fun hm => h.2.2.symm.trans hm, fun hm => h.2.2.trans hm⟩

/-- the two lists contain the same parameters, up to order and letter case -/
def ParamsSim (b : Buf) (l : List URIParam) (b' : Buf) (l' : List URIParam) : Prop :=
  (∀ p ∈ l, ∃ p' ∈ l', PSame b p b' p') ∧ (∀ p' ∈ l', ∃ p ∈ l, PSame b p b' p')

theorem ParamsSim.in_left {b : Buf} {l : List URIParam} {b' : Buf} {l' : List URIParam}
    (h : ParamsSim b l b' l') : ∀ p ∈ l, ParamIn b p := fun p hp => by
  obtain ⟨p', _, hs⟩ := h.1 p hp
  exact hs.paramIn

theorem ParamsSim.in_right {b : Buf} {l : List URIParam} {b' : Buf} {l' : List URIParam}
    (h : ParamsSim b l b' l') : ∀ p ∈ l', ParamIn b' p := fun p hp => by
  obtain ⟨p', _, hs⟩ := h.2 p hp
  exact hs.symm.paramIn

/-- a permutation of a list inside its buffer is "the same parameters" -/
theorem ParamsSim.of_perm {b : Buf} {l l' : List URIParam} (hp : l.Perm l') (hin : ∀ p ∈ l, ParamIn b p) :
    ParamsSim b l b l' :=
  ⟨fun p h => ⟨p, hp.mem_iff.1 h, PSame.refl (hin p h)⟩,
   fun p h => ⟨p, hp.mem_iff.2 h, PSame.refl (hin p (hp.mem_iff.2 h))⟩⟩

theorem paramsAgree_congr {l1 l1' l2 l2' : URIParamsLst} {b1 b1' b2 b2' : Buf}
    (ht1 : l1.types = l1'.types) (ht2 : l2.types = l2'.types)
    (hs1 : ParamsSim b1 l1.plist b1' l1'.plist) (hs2 : ParamsSim b2 l2.plist b2' l2'.plist)
    (h : ParamsAgree l1 b1 l2 b2) : ParamsAgree l1' b1' l2' b2' := by
  refine ⟨by rw [← ht1, ← ht2]; exact h.1, ?_⟩
  intro p1' hp1' p2' hp2' hm
  obtain ⟨p1, hp1, hs1'⟩ := hs1.2 p1' hp1'
  obtain ⟨p2, hp2, hs2'⟩ := hs2.2 p2' hp2'
  have hm' : PMatch b1 p1 b2 p2 := (hs1'.pmatch.trans hm).trans hs2'.pmatch.symm
  have hv := h.2 p1 hp1 p2 hp2 hm'
  exact (hs1'.2.2.symm.trans hv).trans hs2'.2.2

/-- ORDER AND LETTER CASE: replacing either list by one with the same parameters up to order and letter case
    (of names of `other` parameters and of all values) leaves the verdict unchanged. -/
theorem uriParamsLstEq_congr (l1 l1' l2 l2' : URIParamsLst) (b1 b1' b2 b2' : Buf)
    (ht1 : l1.types = l1'.types) (ht2 : l2.types = l2'.types)
    (hs1 : ParamsSim b1 l1.plist b1' l1'.plist) (hs2 : ParamsSim b2 l2.plist b2' l2'.plist)
    (hnd2 : ParamsNoDup b2 l2.plist) (hnd2' : ParamsNoDup b2' l2'.plist) :
    uriParamsLstEq l1 b1 l2 b2 = uriParamsLstEq l1' b1' l2' b2' := by
  obtain ⟨r, hr, hrs⟩ := uriParamsLstEq_spec l1 b1 l2 b2 hs1.in_left hs2.in_left hnd2
  obtain ⟨r', hr', hrs'⟩ := uriParamsLstEq_spec l1' b1' l2' b2' hs1.in_right hs2.in_right hnd2'
  rw [hr, hr']
  congr 1
  rw [Bool.eq_iff_iff, hrs, hrs']
  constructor
  · exact paramsAgree_congr ht1 ht2 hs1 hs2
  · exact paramsAgree_congr ht1.symm ht2.symm ⟨fun p hp => by
        obtain ⟨q, hq, h⟩ := hs1.2 p hp; exact ⟨q, hq, h.symm⟩, fun p hp => by
        obtain ⟨q, hq, h⟩ := hs1.1 p hp; exact ⟨q, hq, h.symm⟩⟩ ⟨fun p hp => by
        obtain ⟨q, hq, h⟩ := hs2.2 p hp; exact ⟨q, hq, h.symm⟩, fun p hp => by
        obtain ⟨q, hq, h⟩ := hs2.1 p hp; exact ⟨q, hq, h.symm⟩⟩

theorem ParamsNoDup.perm {b : Buf} {l l' : List URIParam} (hp : l.Perm l') (h : ParamsNoDup b l) :
    ParamsNoDup b l' :=
  (hp.pairwise_iff (fun {x y} (hxy : ¬ PMatch b x b y) (hyx : PMatch b y b x) => hxy hyx.symm)).1 h

/-- ORDER: permuting the parameters of either list leaves the verdict unchanged. -/
theorem uriParamsLstEq_perm (l1 l1' l2 l2' : URIParamsLst) (b1 b2 : Buf)
    (ht1 : l1.types = l1'.types) (ht2 : l2.types = l2'.types)
    (hp1 : l1.plist.Perm l1'.plist) (hp2 : l2.plist.Perm l2'.plist)
    (hin1 : ∀ p ∈ l1.plist, ParamIn b1 p) (hin2 : ∀ p ∈ l2.plist, ParamIn b2 p)
    (hnd2 : ParamsNoDup b2 l2.plist) :
    uriParamsLstEq l1 b1 l2 b2 = uriParamsLstEq l1' b1 l2' b2 :=
  uriParamsLstEq_congr l1 l1' l2 l2' b1 b1 b2 b2 ht1 ht2 (ParamsSim.of_perm hp1 hin1) (ParamsSim.of_perm hp2 hin2)
    hnd2 (hnd2.perm hp2)

/-! ### URIHdrsLstEq -/

/-- name and value of a URI header lie inside its buffer -/
def HdrIn (b : Buf) (h : PTokParam) : Prop := (h.name.get? b).isSome ∧ (h.val.get? b).isSome

/-- same header name (up to case) and same value (up to case) -/
def HSame (b1 : Buf) (h1 : PTokParam) (b2 : Buf) (h2 : PTokParam) : Prop :=
  FEq h1.name b1 h2.name b2 ∧ FEq h1.val b1 h2.val b2

theorem HSame.symm {b1 : Buf} {h1 : PTokParam} {b2 : Buf} {h2 : PTokParam} (h : HSame b1 h1 b2 h2) :
    HSame b2 h2 b1 h1 := ⟨h.1.symm, h.2.symm⟩

theorem HSame.trans {b1 : Buf} {h1 : PTokParam} {b2 : Buf} {h2 : PTokParam} {b3 : Buf} {h3 : PTokParam}
    (h : HSame b1 h1 b2 h2) (h' : HSame b2 h2 b3 h3) : HSame b1 h1 b3 h3 := ⟨h.1.trans h'.1, h.2.trans h'.2⟩

theorem HSame.refl {b : Buf} {h : PTokParam} (hin : HdrIn b h) : HSame b h b h := ⟨FEq.refl hin.1, FEq.refl hin.2⟩

theorem HSame.hdrIn {b1 : Buf} {h1 : PTokParam} {b2 : Buf} {h2 : PTokParam} (h : HSame b1 h1 b2 h2) : HdrIn b1 h1 := by
  obtain ⟨⟨x, _, hx, _, _⟩, ⟨y, _, hy, _, _⟩⟩ := h
  exact ⟨by rw [hx]; rfl, by rw [hy]; rfl⟩

/-- no two headers of the list have the same name (up to case) -/
def HdrsNoDup (b : Buf) (l : List PTokParam) : Prop := l.Pairwise (fun p q => ¬ FEq p.name b q.name b)

/-- the inner loop: "found" exactly when the second list has a header with the same name and value -/
theorem hdrsEqInner_spec (h1 : PTokParam) (b1 b2 : Buf) (hin1 : HdrIn b1 h1) :
    ∀ (l2 : List PTokParam), (∀ h ∈ l2, HdrIn b2 h) → HdrsNoDup b2 l2 →
      ∃ r, hdrsEqInner h1 b1 b2 l2 = some r ∧ (r = true ↔ ∃ h2 ∈ l2, HSame b1 h1 b2 h2) := by
  intro l2
  induction l2 with
  | nil => intro _ _; exact ⟨false, rfl, by simp⟩
  | cons h2 rest ih =>
    intro hin hnd
    have hin2 : HdrIn b2 h2 := hin h2 List.mem_cons_self
    have hnd' := List.pairwise_cons.1 hnd
    obtain ⟨r, hr, hrs⟩ := ih (fun h hh => hin h (List.mem_cons_of_mem _ hh)) hnd'.2
    obtain ⟨n1, hn1⟩ := Option.isSome_iff_exists.1 hin1.1
    obtain ⟨v1, hv1⟩ := Option.isSome_iff_exists.1 hin1.2
    obtain ⟨n2, hn2⟩ := Option.isSome_iff_exists.1 hin2.1
    obtain ⟨v2, hv2⟩ := Option.isSome_iff_exists.1 hin2.2
    unfold hdrsEqInner
    simp only [hn1, hn2]
    by_cases hc : cmpEq n1 n2 = true
    · have hN : FEq h1.name b1 h2.name b2 := (cmpEq_iff_FEq hn1 hn2).1 hc
      simp only [hc, ↓reduceIte, hv1, hv2]
      refine ⟨_, rfl, ?_⟩
      constructor
      · intro hv
        exact ⟨h2, List.mem_cons_self, hN, (cmpEq_iff_FEq hv1 hv2).1 hv⟩
      · rintro ⟨q, hq, hs⟩
        rcases List.mem_cons.1 hq with hqa | hqt
        · rw [hqa] at hs
          exact (cmpEq_iff_FEq hv1 hv2).2 hs.2
        · exact absurd (hN.symm.trans hs.1) (hnd'.1 q hqt)
    · have hc' : cmpEq n1 n2 = false := by simpa using hc
      simp only [hc', Bool.false_eq_true, ↓reduceIte]
      refine ⟨r, hr, ?_⟩
      rw [hrs]
      constructor
      · rintro ⟨q, hq, hs⟩
        exact ⟨q, List.mem_cons_of_mem _ hq, hs⟩
      · rintro ⟨q, hq, hs⟩
        rcases List.mem_cons.1 hq with hqa | hqt
        · rw [hqa] at hs
          exact absurd ((cmpEq_iff_FEq hn1 hn2).2 hs.1) hc
        · exact ⟨q, hqt, hs⟩

theorem hdrsEqOuter_spec (b1 b2 : Buf) (l2 : List PTokParam) (hin2 : ∀ h ∈ l2, HdrIn b2 h)
    (hnd2 : HdrsNoDup b2 l2) :
    ∀ (l1 : List PTokParam), (∀ h ∈ l1, HdrIn b1 h) →
      ∃ r, hdrsEqOuter b1 b2 l2 l1 = some r ∧ (r = true ↔ ∀ h1 ∈ l1, ∃ h2 ∈ l2, HSame b1 h1 b2 h2) := by
  intro l1
  induction l1 with
  | nil => intro _; exact ⟨true, rfl, by simp⟩
  | cons h1 rest ih =>
    intro hin1
    obtain ⟨r, hr, hrs⟩ := ih (fun p hp => hin1 p (List.mem_cons_of_mem _ hp))
    obtain ⟨ri, hri, hris⟩ := hdrsEqInner_spec h1 b1 b2 (hin1 h1 List.mem_cons_self) l2 hin2 hnd2
    unfold hdrsEqOuter
    rw [hri]
    cases ri with
    | false =>
      refine ⟨false, rfl, ?_⟩
      constructor
      · intro h; cases h
      · intro hall
        exact hris.2 (hall h1 List.mem_cons_self)
    | true =>
      refine ⟨r, hr, ?_⟩
      rw [hrs]
      constructor
      · intro hall q hq
        rcases List.mem_cons.1 hq with hqa | hqt
        · rw [hqa]; exact hris.1 rfl
        · exact hall q hqt
      · intro hall q hq
        exact hall q (List.mem_cons_of_mem _ hq)

/-- the counting argument: if every header of a duplicate-free list has a counterpart in a list of the same
    length, then every header of that list has a counterpart in the first -/
theorem hdrs_cover_symm (b1 b2 : Buf) :
    ∀ (l1 l2 : List PTokParam), l1.length = l2.length → HdrsNoDup b1 l1 →
      (∀ h1 ∈ l1, ∃ h2 ∈ l2, HSame b1 h1 b2 h2) → ∀ h2 ∈ l2, ∃ h1 ∈ l1, HSame b2 h2 b1 h1 := by
  intro l1
  induction l1 with
  | nil =>
    intro l2 hlen _ _ h2 hh2
    have : l2 = [] := List.eq_nil_of_length_eq_zero hlen.symm
    rw [this] at hh2; cases hh2
  | cons a t ih =>
    intro l2 hlen hnd hcov
    have hnd' := List.pairwise_cons.1 hnd
    obtain ⟨a2, ha2, hsa⟩ := hcov a List.mem_cons_self
    obtain ⟨s, u, hl2⟩ := List.append_of_mem ha2
    subst hl2
    have hlen' : t.length = (s ++ u).length := by
      simp only [List.length_cons, List.length_append] at hlen ⊢
      omega
    have hcov' : ∀ h1 ∈ t, ∃ h2 ∈ s ++ u, HSame b1 h1 b2 h2 := by
      intro h1 hh1
      obtain ⟨h2, hh2, hs⟩ := hcov h1 (List.mem_cons_of_mem _ hh1)
      rcases List.mem_append.1 hh2 with hh2 | hh2
      · exact ⟨h2, List.mem_append.2 (Or.inl hh2), hs⟩
      · rcases List.mem_cons.1 hh2 with hh2 | hh2
        · rw [hh2] at hs
          exact absurd (hsa.1.trans hs.1.symm) (hnd'.1 h1 hh1)
        · exact ⟨h2, List.mem_append.2 (Or.inr hh2), hs⟩
    have hrec := ih (s ++ u) hlen' hnd'.2 hcov'
    intro h2 hh2
    have hcase : h2 = a2 ∨ h2 ∈ s ++ u := by
      rcases List.mem_append.1 hh2 with hh2 | hh2
      · exact Or.inr (List.mem_append.2 (Or.inl hh2))
      · rcases List.mem_cons.1 hh2 with hh2 | hh2
        · exact Or.inl hh2
        · exact Or.inr (List.mem_append.2 (Or.inr hh2))
    rcases hcase with hh2 | hh2
    · rw [hh2]; exact ⟨a, List.mem_cons_self, hsa.symm⟩
    · obtain ⟨h1, hh1, hs⟩ := hrec h2 hh2
      exact ⟨h1, List.mem_cons_of_mem _ hh1, hs⟩

/-- the headers the comparison looks at: `l.Hdrs[0 : l.HNo()]` -/
def URIHdrsLst.hlist (l : URIHdrsLst) : List PTokParam := (l.hdrs.toList).take l.hNo

theorem URIHdrsLst.hlist_length (l : URIHdrsLst) : l.hlist.length = l.hNo := by
  unfold URIHdrsLst.hlist URIHdrsLst.hNo
  simp only [List.length_take, Array.length_toList]
  split <;> omega

/-- the declarative meaning of URIHdrsLstEq: same number of headers, and every header of the first list
    occurs in the second with the same name and value (up to case) -/
def HdrsAgree (l1 : URIHdrsLst) (b1 : Buf) (l2 : URIHdrsLst) (b2 : Buf) : Prop :=
  l1.hNo = l2.hNo ∧ ∀ h1 ∈ l1.hlist, ∃ h2 ∈ l2.hlist, HSame b1 h1 b2 h2

theorem HdrsAgree.symm {l1 : URIHdrsLst} {b1 : Buf} {l2 : URIHdrsLst} {b2 : Buf}
    (hnd1 : HdrsNoDup b1 l1.hlist) (h : HdrsAgree l1 b1 l2 b2) : HdrsAgree l2 b2 l1 b1 :=
  ⟨h.1.symm, hdrs_cover_symm b1 b2 l1.hlist l2.hlist (by rw [l1.hlist_length, l2.hlist_length]; exact h.1) hnd1 h.2⟩

/-- URIHdrsLstEq decides `HdrsAgree` and does not panic, when the fields of both lists lie inside their buffers
    and the second list has no duplicate header name. -/
theorem uriHdrsLstEq_spec (l1 : URIHdrsLst) (b1 : Buf) (l2 : URIHdrsLst) (b2 : Buf)
    (hin1 : ∀ h ∈ l1.hlist, HdrIn b1 h) (hin2 : ∀ h ∈ l2.hlist, HdrIn b2 h)
    (hnd2 : HdrsNoDup b2 l2.hlist) :
    ∃ r, uriHdrsLstEq l1 b1 l2 b2 = some r ∧ (r = true ↔ HdrsAgree l1 b1 l2 b2) := by
  obtain ⟨r, hr, hrs⟩ := hdrsEqOuter_spec b1 b2 l2.hlist hin2 hnd2 l1.hlist hin1
  unfold uriHdrsLstEq HdrsAgree
  by_cases hn : l1.hNo = l2.hNo
  · have hn' : (l1.hNo != l2.hNo) = false := by simpa using hn
    simp only [hn', Bool.false_eq_true, ↓reduceIte]
    refine ⟨r, hr, ?_⟩
    rw [hrs]
    exact ⟨fun h => ⟨hn, h⟩, fun h => h.2⟩
  · have hn' : (l1.hNo != l2.hNo) = true := by simpa using hn
    simp only [hn', ↓reduceIte]
    refine ⟨false, rfl, ?_⟩
    constructor
    · intro h; cases h
    · intro h; exact absurd h.1 hn

/-- SYMMETRY of URIHdrsLstEq. -/
theorem uriHdrsLstEq_symm (l1 : URIHdrsLst) (b1 : Buf) (l2 : URIHdrsLst) (b2 : Buf)
    (hin1 : ∀ h ∈ l1.hlist, HdrIn b1 h) (hin2 : ∀ h ∈ l2.hlist, HdrIn b2 h)
    (hnd1 : HdrsNoDup b1 l1.hlist) (hnd2 : HdrsNoDup b2 l2.hlist) :
    uriHdrsLstEq l1 b1 l2 b2 = uriHdrsLstEq l2 b2 l1 b1 := by
  obtain ⟨r, hr, hrs⟩ := uriHdrsLstEq_spec l1 b1 l2 b2 hin1 hin2 hnd2
  obtain ⟨r', hr', hrs'⟩ := uriHdrsLstEq_spec l2 b2 l1 b1 hin2 hin1 hnd1
  rw [hr, hr']
  congr 1
  rw [Bool.eq_iff_iff, hrs, hrs']
  exact ⟨HdrsAgree.symm hnd1, HdrsAgree.symm hnd2⟩

/-- REFLEXIVITY of URIHdrsLstEq (false without the no-duplicate hypothesis: `a=1&a=2`). -/
theorem uriHdrsLstEq_refl (l : URIHdrsLst) (b : Buf)
    (hin : ∀ h ∈ l.hlist, HdrIn b h) (hnd : HdrsNoDup b l.hlist) :
    uriHdrsLstEq l b l b = some true := by
  obtain ⟨r, hr, hrs⟩ := uriHdrsLstEq_spec l b l b hin hin hnd
  rw [hr]
  congr 1
  rw [hrs]
  exact ⟨rfl, fun h hh => ⟨h, hh, HSame.refl (hin h hh)⟩⟩

/-- the two lists contain the same headers, up to order and letter case of names and values -/
def HdrsSim (b : Buf) (l : List PTokParam) (b' : Buf) (l' : List PTokParam) : Prop :=
  (∀ h ∈ l, ∃ h' ∈ l', HSame b h b' h') ∧ (∀ h' ∈ l', ∃ h ∈ l, HSame b h b' h')

theorem HdrsSim.symm {b : Buf} {l : List PTokParam} {b' : Buf} {l' : List PTokParam} (h : HdrsSim b l b' l') :
    HdrsSim b' l' b l :=
  ⟨fun p hp => by obtain ⟨q, hq, hs⟩ := h.2 p hp; exact ⟨q, hq, hs.symm⟩,
   fun p hp => by obtain ⟨q, hq, hs⟩ := h.1 p hp; exact ⟨q, hq, hs.symm⟩⟩

theorem HdrsSim.in_left {b : Buf} {l : List PTokParam} {b' : Buf} {l' : List PTokParam}
    (h : HdrsSim b l b' l') : ∀ p ∈ l, HdrIn b p := fun p hp => by
  obtain ⟨p', _, hs⟩ := h.1 p hp
  exact hs.hdrIn

theorem HdrsSim.of_perm {b : Buf} {l l' : List PTokParam} (hp : l.Perm l') (hin : ∀ p ∈ l, HdrIn b p) :
    HdrsSim b l b l' :=
  ⟨fun p h => ⟨p, hp.mem_iff.1 h, HSame.refl (hin p h)⟩,
   fun p h => ⟨p, hp.mem_iff.2 h, HSame.refl (hin p (hp.mem_iff.2 h))⟩⟩

theorem hdrsAgree_congr {l1 l1' l2 l2' : URIHdrsLst} {b1 b1' b2 b2' : Buf}
    (hn1 : l1.hNo = l1'.hNo) (hn2 : l2.hNo = l2'.hNo)
    (hs1 : HdrsSim b1 l1.hlist b1' l1'.hlist) (hs2 : HdrsSim b2 l2.hlist b2' l2'.hlist)
    (h : HdrsAgree l1 b1 l2 b2) : HdrsAgree l1' b1' l2' b2' := by
  refine ⟨by rw [← hn1, ← hn2]; exact h.1, ?_⟩
  intro h1' hh1'
  obtain ⟨h1, hh1, hs1'⟩ := hs1.2 h1' hh1'
  obtain ⟨h2, hh2, hs⟩ := h.2 h1 hh1
  obtain ⟨h2', hh2', hs2'⟩ := hs2.1 h2 hh2
  exact ⟨h2', hh2', (hs1'.symm.trans hs).trans hs2'⟩

/-- ORDER AND LETTER CASE of the headers: replacing either list by one with the same number of headers and the
    same headers up to order and letter case leaves the verdict unchanged. -/
theorem uriHdrsLstEq_congr (l1 l1' l2 l2' : URIHdrsLst) (b1 b1' b2 b2' : Buf)
    (hn1 : l1.hNo = l1'.hNo) (hn2 : l2.hNo = l2'.hNo)
    (hs1 : HdrsSim b1 l1.hlist b1' l1'.hlist) (hs2 : HdrsSim b2 l2.hlist b2' l2'.hlist)
    (hnd2 : HdrsNoDup b2 l2.hlist) (hnd2' : HdrsNoDup b2' l2'.hlist) :
    uriHdrsLstEq l1 b1 l2 b2 = uriHdrsLstEq l1' b1' l2' b2' := by
  obtain ⟨r, hr, hrs⟩ := uriHdrsLstEq_spec l1 b1 l2 b2 hs1.in_left hs2.in_left hnd2
  obtain ⟨r', hr', hrs'⟩ := uriHdrsLstEq_spec l1' b1' l2' b2' hs1.symm.in_left hs2.symm.in_left hnd2'
  rw [hr, hr']
  congr 1
  rw [Bool.eq_iff_iff, hrs, hrs']
  exact ⟨hdrsAgree_congr hn1 hn2 hs1 hs2, hdrsAgree_congr hn1.symm hn2.symm hs1.symm hs2.symm⟩

theorem HdrsNoDup.perm {b : Buf} {l l' : List PTokParam} (hp : l.Perm l') (h : HdrsNoDup b l) : HdrsNoDup b l' := by
  unfold HdrsNoDup at h ⊢
  refine (hp.pairwise_iff (R := fun p q => ¬ FEq p.name b q.name b) ?_).1 h
  intro x y hxy hyx
  exact hxy hyx.symm

/-- ORDER: permuting the headers of either list leaves the verdict unchanged. -/
theorem uriHdrsLstEq_perm (l1 l1' l2 l2' : URIHdrsLst) (b1 b2 : Buf)
    (hp1 : l1.hlist.Perm l1'.hlist) (hp2 : l2.hlist.Perm l2'.hlist)
    (hin1 : ∀ p ∈ l1.hlist, HdrIn b1 p) (hin2 : ∀ p ∈ l2.hlist, HdrIn b2 p)
    (hnd2 : HdrsNoDup b2 l2.hlist) :
    uriHdrsLstEq l1 b1 l2 b2 = uriHdrsLstEq l1' b1 l2' b2 :=
  uriHdrsLstEq_congr l1 l1' l2 l2' b1 b1 b2 b2
    (by rw [← l1.hlist_length, ← l1'.hlist_length]; exact hp1.length_eq)
    (by rw [← l2.hlist_length, ← l2'.hlist_length]; exact hp2.length_eq)
    (HdrsSim.of_perm hp1 hin1) (HdrsSim.of_perm hp2 hin2) hnd2 (hnd2.perm hp2)

/-! ### URIParamsEq / URIHdrsEq: parse both strings, then compare the lists -/

/-- what URIParamsEq does with one of its strings: ParseAllURIParams into a fresh 100-element list -/
def uriParamsParse (pb : Buf) (o : Nat) : Err × URIParamsLst :=
  let r := parseAllURIParams pb o { params := Array.replicate 100 {} } (POptTokURIParamF ||| POptInputEndF)
  (r.2.2.1, r.2.2.2)

/-- what URIHdrsEq does with one of its strings -/
def uriHdrsParse (hb : Buf) (o : Nat) : Err × URIHdrsLst :=
  let r := parseAllURIHdrs hb o { hdrs := Array.replicate 100 {} } (POptTokURIHdrF ||| POptInputEndF)
  (r.2.2.1, r.2.2.2)

/-- URIParamsEq agrees with parsing each string separately and comparing the lists. -/
theorem uriParamsEq_eq (b1 : Buf) (o1 : Nat) (b2 : Buf) (o2 : Nat) :
    uriParamsEq b1 o1 b2 o2 =
      if (uriParamsParse b1 o1).2.pnc then none
      else if !errOkOrEOH (uriParamsParse b1 o1).1 then some (false, (uriParamsParse b1 o1).1)
      else if (uriParamsParse b2 o2).2.pnc then none
      else if !errOkOrEOH (uriParamsParse b2 o2).1 then some (false, (uriParamsParse b2 o2).1)
      else (uriParamsLstEq (uriParamsParse b1 o1).2 b1 (uriParamsParse b2 o2).2 b2).map (fun r => (r, Err.ok)) := by
  unfold uriParamsEq uriParamsParse
  rfl

/-- URIHdrsEq agrees with parsing each string separately and comparing the lists. -/
theorem uriHdrsEq_eq (b1 : Buf) (o1 : Nat) (b2 : Buf) (o2 : Nat) :
    uriHdrsEq b1 o1 b2 o2 =
      if !errOkOrEOH (uriHdrsParse b1 o1).1 then some (false, (uriHdrsParse b1 o1).1)
      else if !errOkOrEOH (uriHdrsParse b2 o2).1 then some (false, (uriHdrsParse b2 o2).1)
      else (uriHdrsLstEq (uriHdrsParse b1 o1).2 b1 (uriHdrsParse b2 o2).2 b2).map (fun r => (r, Err.ok)) := by
  unfold uriHdrsEq uriHdrsParse
  rfl

/-- a parameter string is well formed for comparison: parsing it does not panic and, if it parses, all the
    parameters lie inside the string and no parameter occurs twice -/
structure ParamsWf (pb : Buf) (o : Nat) : Prop where
  nopanic : (uriParamsParse pb o).2.pnc = false
  inbuf : errOkOrEOH (uriParamsParse pb o).1 = true → ∀ p ∈ (uriParamsParse pb o).2.plist, ParamIn pb p
  nodup : errOkOrEOH (uriParamsParse pb o).1 = true → ParamsNoDup pb (uriParamsParse pb o).2.plist

/-- a header string is well formed for comparison -/
structure HdrsWf (hb : Buf) (o : Nat) : Prop where
  inbuf : errOkOrEOH (uriHdrsParse hb o).1 = true → ∀ h ∈ (uriHdrsParse hb o).2.hlist, HdrIn hb h
  nodup : errOkOrEOH (uriHdrsParse hb o).1 = true → HdrsNoDup hb (uriHdrsParse hb o).2.hlist

/-- SYMMETRY of the verdict of URIParamsEq. -/
theorem uriParamsEq_symm (b1 : Buf) (o1 : Nat) (b2 : Buf) (o2 : Nat) (w1 : ParamsWf b1 o1) (w2 : ParamsWf b2 o2) :
    (uriParamsEq b1 o1 b2 o2).map (·.1) = (uriParamsEq b2 o2 b1 o1).map (·.1) := by
  rw [uriParamsEq_eq, uriParamsEq_eq]
  simp only [w1.nopanic, w2.nopanic, Bool.false_eq_true, ↓reduceIte]
  by_cases h1 : errOkOrEOH (uriParamsParse b1 o1).1 = true
  · by_cases h2 : errOkOrEOH (uriParamsParse b2 o2).1 = true
    · simp only [h1, h2, Bool.not_true, Bool.false_eq_true, ↓reduceIte]
      rw [uriParamsLstEq_symm _ b1 _ b2 (w1.inbuf h1) (w2.inbuf h2) (w1.nodup h1) (w2.nodup h2)]
    · simp only [h1, h2, Bool.not_true, Bool.not_false, Bool.false_eq_true, ↓reduceIte, Option.map_some]
  · by_cases h2 : errOkOrEOH (uriParamsParse b2 o2).1 = true
    · simp only [h1, h2, Bool.not_true, Bool.not_false, Bool.false_eq_true, ↓reduceIte, Option.map_some]
    · simp only [h1, h2, Bool.not_false, ↓reduceIte, Option.map_some]

/-- REFLEXIVITY of URIParamsEq for a well-formed string that parses. -/
theorem uriParamsEq_refl (b : Buf) (o : Nat) (w : ParamsWf b o) (hok : errOkOrEOH (uriParamsParse b o).1 = true) :
    uriParamsEq b o b o = some (true, Err.ok) := by
  rw [uriParamsEq_eq]
  simp only [w.nopanic, hok, Bool.not_true, Bool.false_eq_true, ↓reduceIte]
  rw [uriParamsLstEq_refl _ b (w.inbuf hok) (w.nodup hok)]
  rfl

/-- SYMMETRY of the verdict of URIHdrsEq. -/
theorem uriHdrsEq_symm (b1 : Buf) (o1 : Nat) (b2 : Buf) (o2 : Nat) (w1 : HdrsWf b1 o1) (w2 : HdrsWf b2 o2) :
    (uriHdrsEq b1 o1 b2 o2).map (·.1) = (uriHdrsEq b2 o2 b1 o1).map (·.1) := by
  rw [uriHdrsEq_eq, uriHdrsEq_eq]
  by_cases h1 : errOkOrEOH (uriHdrsParse b1 o1).1 = true
  · by_cases h2 : errOkOrEOH (uriHdrsParse b2 o2).1 = true
    · simp only [h1, h2, Bool.not_true, Bool.false_eq_true, ↓reduceIte]
      rw [uriHdrsLstEq_symm _ b1 _ b2 (w1.inbuf h1) (w2.inbuf h2) (w1.nodup h1) (w2.nodup h2)]
    · simp only [h1, h2, Bool.not_true, Bool.not_false, Bool.false_eq_true, ↓reduceIte, Option.map_some]
  · by_cases h2 : errOkOrEOH (uriHdrsParse b2 o2).1 = true
    · simp only [h1, h2, Bool.not_true, Bool.not_false, Bool.false_eq_true, ↓reduceIte, Option.map_some]
    · simp only [h1, h2, Bool.not_false, ↓reduceIte, Option.map_some]

/-- REFLEXIVITY of URIHdrsEq for a well-formed string that parses. -/
theorem uriHdrsEq_refl (b : Buf) (o : Nat) (w : HdrsWf b o) (hok : errOkOrEOH (uriHdrsParse b o).1 = true) :
    uriHdrsEq b o b o = some (true, Err.ok) := by
  rw [uriHdrsEq_eq]
  simp only [hok, Bool.not_true, Bool.false_eq_true, ↓reduceIte]
  rw [uriHdrsLstEq_refl _ b (w.inbuf hok) (w.nodup hok)]
  rfl

/-! ### URICmp: reflexive and symmetric -/

/-- a parsed URI is well formed for comparison: user, password, host, parameter string and header string lie
    inside the buffer, and the parameter / header strings are well formed -/
structure URIWf (u : PsipURI) (b : Buf) : Prop where
  user : (u.user.get? b).isSome
  pass : (u.pass.get? b).isSome
  host : (u.host.get? b).isSome
  params : ∃ pb, u.params.get? b = some pb ∧ ParamsWf pb 0
  headers : ∃ hb, u.headers.get? b = some hb ∧ HdrsWf hb 0

/-- … and moreover its parameter and header strings parse (what reflexivity needs) -/
structure URIGood (u : PsipURI) (b : Buf) : Prop where
  user : (u.user.get? b).isSome
  pass : (u.pass.get? b).isSome
  host : (u.host.get? b).isSome
  params : ∃ pb, u.params.get? b = some pb ∧ ParamsWf pb 0 ∧ errOkOrEOH (uriParamsParse pb 0).1 = true
  headers : ∃ hb, u.headers.get? b = some hb ∧ HdrsWf hb 0 ∧ errOkOrEOH (uriHdrsParse hb 0).1 = true

theorem URIGood.wf {u : PsipURI} {b : Buf} (g : URIGood u b) : URIWf u b :=
  ⟨g.user, g.pass, g.host, by obtain ⟨pb, h, w, _⟩ := g.params; exact ⟨pb, h, w⟩,
   by obtain ⟨hb, h, w, _⟩ := g.headers; exact ⟨hb, h, w⟩⟩

theorem uriCmpParamsPart_symm (u1 : PsipURI) (b1 : Buf) (u2 : PsipURI) (b2 : Buf) (w1 : URIWf u1 b1) (w2 : URIWf u2 b2) :
    uriCmpParamsPart u1 b1 u2 b2 = uriCmpParamsPart u2 b2 u1 b1 := by
  obtain ⟨p1, hp1, wp1⟩ := w1.params
  obtain ⟨p2, hp2, wp2⟩ := w2.params
  unfold uriCmpParamsPart
  simp only [hp1, hp2]
  exact uriParamsEq_symm p1 0 p2 0 wp1 wp2

theorem uriCmpHdrsPart_symm (u1 : PsipURI) (b1 : Buf) (u2 : PsipURI) (b2 : Buf) (w1 : URIWf u1 b1) (w2 : URIWf u2 b2) :
    uriCmpHdrsPart u1 b1 u2 b2 = uriCmpHdrsPart u2 b2 u1 b1 := by
  obtain ⟨p1, hp1, wp1⟩ := w1.headers
  obtain ⟨p2, hp2, wp2⟩ := w2.headers
  unfold uriCmpHdrsPart
  simp only [hp1, hp2]
  exact uriHdrsEq_symm p1 0 p2 0 wp1 wp2

/-- SYMMETRY of URICmp, for every flag value. -/
theorem uriCmp_symm (u1 : PsipURI) (b1 : Buf) (u2 : PsipURI) (b2 : Buf) (f : Nat) (w1 : URIWf u1 b1) (w2 : URIWf u2 b2) :
    uriCmp u1 b1 u2 b2 f = uriCmp u2 b2 u1 b1 f := by
  rw [uriCmp_eq, uriCmp_eq, uriCmpShort_symm u1 b1 u2 b2, uriCmpParamsPart_symm u1 b1 u2 b2 w1 w2,
    uriCmpHdrsPart_symm u1 b1 u2 b2 w1 w2]

/-- REFLEXIVITY of URICmp, for every flag value. -/
theorem uriCmp_refl (u : PsipURI) (b : Buf) (f : Nat) (w : URIGood u b) : uriCmp u b u b f = some true := by
  rw [uriCmp_true_iff]
  refine ⟨uriCmpShort_refl u b f w.user w.pass w.host, Or.inr ?_, Or.inr ?_⟩
  · obtain ⟨p, hp, wp, hok⟩ := w.params
    unfold uriCmpParamsPart
    simp only [hp]
    rw [uriParamsEq_refl p 0 wp hok]
    rfl
  · obtain ⟨p, hp, wp, hok⟩ := w.headers
    unfold uriCmpHdrsPart
    simp only [hp]
    rw [uriHdrsEq_refl p 0 wp hok]
    rfl

/-! ### URIParseCmp -/

/-- URIParseCmp agrees with parsing each URI separately and calling URICmp; it hands back exactly the two parsed
    URIs. -/
theorem uriParseCmp_ok (raw1 raw2 : Buf) (f : Nat) {o1 o2 : Nat} {u1 u2 : PsipURI}
    (h1 : parseURI raw1 {} = (UErr.none, o1, u1, false)) (h2 : parseURI raw2 {} = (UErr.none, o2, u2, false)) :
    uriParseCmp raw1 raw2 f = (uriCmp u1 raw1 u2 raw2 f).map (fun r => (r, UErr.none, 0, some u1, some u2)) := by
  unfold uriParseCmp
  rw [h1, h2]
  rfl

/-- first URI rejected: verdict false, its error, index 0, nothing handed back (the second is not parsed) -/
theorem uriParseCmp_err1 (raw1 raw2 : Buf) (f : Nat) {e1 : UErr} {o1 : Nat} {u1 : PsipURI}
    (h1 : parseURI raw1 {} = (e1, o1, u1, false)) (he : e1 ≠ UErr.none) :
    uriParseCmp raw1 raw2 f = some (false, e1, 0, none, none) := by
  unfold uriParseCmp
  rw [h1]
  have : (e1 != UErr.none) = true := by simpa using he
  simp only [Bool.false_eq_true, ↓reduceIte, this]

/-- second URI rejected: verdict false, its error, index 1, only the first parsed URI handed back -/
theorem uriParseCmp_err2 (raw1 raw2 : Buf) (f : Nat) {e2 : UErr} {o1 o2 : Nat} {u1 u2 : PsipURI}
    (h1 : parseURI raw1 {} = (UErr.none, o1, u1, false)) (h2 : parseURI raw2 {} = (e2, o2, u2, false))
    (he : e2 ≠ UErr.none) :
    uriParseCmp raw1 raw2 f = some (false, e2, 1, some u1, none) := by
  unfold uriParseCmp
  rw [h1, h2]
  have : (e2 != UErr.none) = true := by simpa using he
  simp only [Bool.false_eq_true, ↓reduceIte, this, bne_self_eq_false]

/-! ### decision procedures for the hypotheses (used for the non-vacuity examples / tests) -/

def feqB (f1 : PField) (b1 : Buf) (f2 : PField) (b2 : Buf) : Bool :=
  match f1.get? b1, f2.get? b2 with
  | some x, some y => cmpEq x y
  | _, _ => false

theorem feqB_iff (f1 : PField) (b1 : Buf) (f2 : PField) (b2 : Buf) : feqB f1 b1 f2 b2 = true ↔ FEq f1 b1 f2 b2 := by
  unfold feqB
  rcases h1 : f1.get? b1 with _ | x
  · simp only [Bool.false_eq_true, false_iff]
    rintro ⟨x, y, hx, _, _⟩
    rw [h1] at hx; cases hx
  · rcases h2 : f2.get? b2 with _ | y
    · simp only [Bool.false_eq_true, false_iff]
      rintro ⟨x, y, _, hy, _⟩
      rw [h2] at hy; cases hy
    · exact cmpEq_iff_FEq h1 h2

instance (f1 : PField) (b1 : Buf) (f2 : PField) (b2 : Buf) : Decidable (FEq f1 b1 f2 b2) :=
  decidable_of_iff _ (feqB_iff f1 b1 f2 b2)

instance (b : Buf) (p : URIParam) : Decidable (ParamIn b p) :=
  inferInstanceAs (Decidable ((p.param.name.get? b).isSome = true ∧ (p.param.val.get? b).isSome = true))

instance (b1 : Buf) (p1 : URIParam) (b2 : Buf) (p2 : URIParam) : Decidable (PMatch b1 p1 b2 p2) :=
  inferInstanceAs (Decidable (p1.t = p2.t ∧ (p1.t = URIParamOtherF → FEq p1.param.name b1 p2.param.name b2)))

instance (b1 : Buf) (p1 : URIParam) (b2 : Buf) (p2 : URIParam) : Decidable (PValEq b1 p1 b2 p2) :=
  inferInstanceAs (Decidable (FEq p1.param.val b1 p2.param.val b2))

instance (b1 : Buf) (p1 : URIParam) (b2 : Buf) (p2 : URIParam) : Decidable (PSame b1 p1 b2 p2) :=
  inferInstanceAs (Decidable (p1.t = p2.t ∧ FEq p1.param.name b1 p2.param.name b2 ∧ FEq p1.param.val b1 p2.param.val b2))

instance (b : Buf) (l : List URIParam) : Decidable (ParamsNoDup b l) :=
  inferInstanceAs (Decidable (l.Pairwise (fun p q => ¬ PMatch b p b q)))

instance (b : Buf) (l : List URIParam) (b' : Buf) (l' : List URIParam) : Decidable (ParamsSim b l b' l') :=
  inferInstanceAs (Decidable ((∀ p ∈ l, ∃ p' ∈ l', PSame b p b' p') ∧ (∀ p' ∈ l', ∃ p ∈ l, PSame b p b' p')))

instance (b : Buf) (h : PTokParam) : Decidable (HdrIn b h) :=
  inferInstanceAs (Decidable ((h.name.get? b).isSome = true ∧ (h.val.get? b).isSome = true))

instance (b1 : Buf) (h1 : PTokParam) (b2 : Buf) (h2 : PTokParam) : Decidable (HSame b1 h1 b2 h2) :=
  inferInstanceAs (Decidable (FEq h1.name b1 h2.name b2 ∧ FEq h1.val b1 h2.val b2))

instance (b : Buf) (l : List PTokParam) : Decidable (HdrsNoDup b l) :=
  inferInstanceAs (Decidable (l.Pairwise (fun p q => ¬ FEq p.name b q.name b)))

instance (b : Buf) (l : List PTokParam) (b' : Buf) (l' : List PTokParam) : Decidable (HdrsSim b l b' l') :=
  inferInstanceAs (Decidable ((∀ h ∈ l, ∃ h' ∈ l', HSame b h b' h') ∧ (∀ h' ∈ l', ∃ h ∈ l, HSame b h b' h')))

/-! ### letter case and order at the level of whole URIs -/

/-- `u` (in `b`) and `u'` (in `b'`) have the same short part: same scheme type and port number, the same user and
    password bytes, hosts equal up to letter case -/
structure ShortSame (u : PsipURI) (b : Buf) (u' : PsipURI) (b' : Buf) : Prop where
  scheme : u.uriType = u'.uriType
  port : u.portNo = u'.portNo
  user : u.user.get? b = u'.user.get? b'
  pass : u.pass.get? b = u'.pass.get? b'
  host : FEq u.host b u'.host b'

theorem cmpFields_host_congr {x x' y y' : Buf} (h1 : CaseEq x x') (h2 : CaseEq y y') :
    cmpFields false cmpEq (some x) (some y) = cmpFields false cmpEq (some x') (some y') := by
  unfold cmpFields
  simp only [Bool.false_eq_true, ↓reduceIte]
  rw [cmpEq_congr h1 h2]

/-- HOST LETTER CASE (and nothing else of the short part matters beyond scheme type, port number, user and
    password bytes): URICmpShort gives the same verdict on URIs with the same short part. -/
theorem uriCmpShort_congr (u1 : PsipURI) (b1 : Buf) (u1' : PsipURI) (b1' : Buf) (u2 : PsipURI) (b2 : Buf)
    (u2' : PsipURI) (b2' : Buf) (f : Nat) (s1 : ShortSame u1 b1 u1' b1') (s2 : ShortSame u2 b2 u2' b2') :
    uriCmpShort u1 b1 u2 b2 f = uriCmpShort u1' b1' u2' b2' f := by
  rw [uriCmpShort_eq, uriCmpShort_eq, s1.scheme, s2.scheme, s1.port, s2.port, s1.user, s2.user, s1.pass, s2.pass]
  obtain ⟨x, x', hx, hx', hxx⟩ := s1.host
  obtain ⟨y, y', hy, hy', hyy⟩ := s2.host
  rw [hx, hx', hy, hy', cmpFields_host_congr hxx hyy]

/-- USER is compared case-sensitively: "equal" without the skip flag means identical user bytes. -/
theorem uriCmpShort_true_user (u1 : PsipURI) (b1 : Buf) (u2 : PsipURI) (b2 : Buf) (f : Nat)
    (h : uriCmpShort u1 b1 u2 b2 f = some true) (hf : hasFlag f URICmpSkipUser = false) :
    ∃ a, u1.user.get? b1 = some a ∧ u2.user.get? b2 = some a := by
  have := ((uriCmpShort_true_iff u1 b1 u2 b2 f).1 h).2.2.1
  rcases this with h' | ⟨a, c, h1, h2, rfl⟩
  · rw [hf] at h'; cases h'
  · exact ⟨a, h1, h2⟩

/-- PASSWORD is compared case-sensitively. -/
theorem uriCmpShort_true_pass (u1 : PsipURI) (b1 : Buf) (u2 : PsipURI) (b2 : Buf) (f : Nat)
    (h : uriCmpShort u1 b1 u2 b2 f = some true) (hf : hasFlag f URICmpSkipPass = false) :
    ∃ a, u1.pass.get? b1 = some a ∧ u2.pass.get? b2 = some a := by
  have := ((uriCmpShort_true_iff u1 b1 u2 b2 f).1 h).2.2.2.1
  rcases this with h' | ⟨a, c, h1, h2, rfl⟩
  · rw [hf] at h'; cases h'
  · exact ⟨a, h1, h2⟩

/-- two parameter strings parse (without panic) to the same parameters up to order and letter case -/
structure ParamsStrSim (pb : Buf) (pb' : Buf) : Prop where
  nopanic : (uriParamsParse pb 0).2.pnc = false
  nopanic' : (uriParamsParse pb' 0).2.pnc = false
  ok : errOkOrEOH (uriParamsParse pb 0).1 = true
  ok' : errOkOrEOH (uriParamsParse pb' 0).1 = true
  types : (uriParamsParse pb 0).2.types = (uriParamsParse pb' 0).2.types
  sim : ParamsSim pb (uriParamsParse pb 0).2.plist pb' (uriParamsParse pb' 0).2.plist

/-- two header strings parse to the same headers up to order and letter case -/
structure HdrsStrSim (hb : Buf) (hb' : Buf) : Prop where
  ok : errOkOrEOH (uriHdrsParse hb 0).1 = true
  ok' : errOkOrEOH (uriHdrsParse hb' 0).1 = true
  count : (uriHdrsParse hb 0).2.hNo = (uriHdrsParse hb' 0).2.hNo
  sim : HdrsSim hb (uriHdrsParse hb 0).2.hlist hb' (uriHdrsParse hb' 0).2.hlist

theorem uriParamsEq_congr (b1 b1' b2 b2' : Buf) (s1 : ParamsStrSim b1 b1') (s2 : ParamsStrSim b2 b2')
    (hnd2 : ParamsNoDup b2 (uriParamsParse b2 0).2.plist) (hnd2' : ParamsNoDup b2' (uriParamsParse b2' 0).2.plist) :
    uriParamsEq b1 0 b2 0 = uriParamsEq b1' 0 b2' 0 := by
  rw [uriParamsEq_eq, uriParamsEq_eq]
  simp only [s1.nopanic, s1.nopanic', s2.nopanic, s2.nopanic', s1.ok, s1.ok', s2.ok, s2.ok', Bool.not_true,
    Bool.false_eq_true, ↓reduceIte]
  rw [uriParamsLstEq_congr _ _ _ _ b1 b1' b2 b2' s1.types s2.types s1.sim s2.sim hnd2 hnd2']

theorem uriHdrsEq_congr (b1 b1' b2 b2' : Buf) (s1 : HdrsStrSim b1 b1') (s2 : HdrsStrSim b2 b2')
    (hnd2 : HdrsNoDup b2 (uriHdrsParse b2 0).2.hlist) (hnd2' : HdrsNoDup b2' (uriHdrsParse b2' 0).2.hlist) :
    uriHdrsEq b1 0 b2 0 = uriHdrsEq b1' 0 b2' 0 := by
  rw [uriHdrsEq_eq, uriHdrsEq_eq]
  simp only [s1.ok, s1.ok', s2.ok, s2.ok', Bool.not_true, Bool.false_eq_true, ↓reduceIte]
  rw [uriHdrsLstEq_congr _ _ _ _ b1 b1' b2 b2' s1.count s2.count s1.sim s2.sim hnd2 hnd2']

/-- `u'` (in `b'`) is `u` (in `b`) re-written: same short part, and the parameter and header strings parse to the
    same parameters / headers up to order and letter case, without duplicates -/
structure URISame (u : PsipURI) (b : Buf) (u' : PsipURI) (b' : Buf) : Prop where
  short : ShortSame u b u' b'
  params : ∃ pb pb', u.params.get? b = some pb ∧ u'.params.get? b' = some pb' ∧ ParamsStrSim pb pb' ∧
    ParamsNoDup pb (uriParamsParse pb 0).2.plist ∧ ParamsNoDup pb' (uriParamsParse pb' 0).2.plist
  headers : ∃ hb hb', u.headers.get? b = some hb ∧ u'.headers.get? b' = some hb' ∧ HdrsStrSim hb hb' ∧
    HdrsNoDup hb (uriHdrsParse hb 0).2.hlist ∧ HdrsNoDup hb' (uriHdrsParse hb' 0).2.hlist

/-- LETTER CASE AND ORDER: URICmp gives the same answer (for every flag value) when either URI is replaced by a
    re-written one: other letter case of scheme, host, parameter names and values, header names and values; other
    order of the parameters and of the headers. -/
theorem uriCmp_congr (u1 : PsipURI) (b1 : Buf) (u1' : PsipURI) (b1' : Buf) (u2 : PsipURI) (b2 : Buf)
    (u2' : PsipURI) (b2' : Buf) (f : Nat) (s1 : URISame u1 b1 u1' b1') (s2 : URISame u2 b2 u2' b2') :
    uriCmp u1 b1 u2 b2 f = uriCmp u1' b1' u2' b2' f := by
  rw [uriCmp_eq, uriCmp_eq, uriCmpShort_congr u1 b1 u1' b1' u2 b2 u2' b2' f s1.short s2.short]
  have hp : uriCmpParamsPart u1 b1 u2 b2 = uriCmpParamsPart u1' b1' u2' b2' := by
    obtain ⟨p1, p1', h1, h1', ss1, _, _⟩ := s1.params
    obtain ⟨p2, p2', h2, h2', ss2, n2, n2'⟩ := s2.params
    unfold uriCmpParamsPart
    simp only [h1, h1', h2, h2']
    rw [uriParamsEq_congr p1 p1' p2 p2' ss1 ss2 n2 n2']
  have hh : uriCmpHdrsPart u1 b1 u2 b2 = uriCmpHdrsPart u1' b1' u2' b2' := by
    obtain ⟨p1, p1', h1, h1', ss1, _, _⟩ := s1.headers
    obtain ⟨p2, p2', h2, h2', ss2, n2, n2'⟩ := s2.headers
    unfold uriCmpHdrsPart
    simp only [h1, h1', h2, h2']
    rw [uriHdrsEq_congr p1 p1' p2 p2' ss1 ss2 n2 n2']
  rw [hp, hh]

/-! ### the presence mask -/

/-- the `types` bit set of a list says which of user / ttl / method / maddr occur among its parameters -/
def TypesOk (l : URIParamsLst) : Prop :=
  ∀ x ∈ [URIParamUserF, URIParamTTLF, URIParamMethodF, URIParamMaddrF],
    ((l.types &&& x) ≠ 0 ↔ ∃ p ∈ l.plist, p.t = x)

theorem bmask_and (t x : Nat) (hx : x ∈ [URIParamUserF, URIParamTTLF, URIParamMethodF, URIParamMaddrF]) :
    (t &&& uriParamsBMask) &&& x = t &&& x := by
  have : uriParamsBMask &&& x = x := by
    simp only [List.mem_cons, List.not_mem_nil, or_false] at hx
    rcases hx with rfl | rfl | rfl | rfl <;> decide
  rw [Nat.and_assoc, this]

/-- PRESENCE: a verdict "equal" of URIParamsLstEq means that each of user, ttl, method, maddr occurs in both
    lists or in neither. -/
theorem uriParamsLstEq_true_presence (l1 : URIParamsLst) (b1 : Buf) (l2 : URIParamsLst) (b2 : Buf)
    (h : uriParamsLstEq l1 b1 l2 b2 = some true) (t1 : TypesOk l1) (t2 : TypesOk l2) :
    ∀ x ∈ [URIParamUserF, URIParamTTLF, URIParamMethodF, URIParamMaddrF],
      ((∃ p ∈ l1.plist, p.t = x) ↔ (∃ p ∈ l2.plist, p.t = x)) := by
  intro x hx
  have hm := uriParamsLstEq_true_mask l1 b1 l2 b2 h
  have hm' : (l1.types &&& x) = (l2.types &&& x) := by
    rw [← bmask_and l1.types x hx, ← bmask_and l2.types x hx, hm]
  rw [← t1 x hx, ← t2 x hx, hm']

/-- and conversely a difference in presence forces the verdict "different" (no panic): the mask test comes first -/
theorem uriParamsLstEq_mask_ne (l1 : URIParamsLst) (b1 : Buf) (l2 : URIParamsLst) (b2 : Buf)
    (h : (l1.types &&& uriParamsBMask) ≠ (l2.types &&& uriParamsBMask)) :
    uriParamsLstEq l1 b1 l2 b2 = some false := by
  unfold uriParamsLstEq
  have hm' : ((l1.types &&& (URIParamUserF ||| URIParamTTLF ||| URIParamMethodF ||| URIParamMaddrF)) !=
      (l2.types &&& (URIParamUserF ||| URIParamTTLF ||| URIParamMethodF ||| URIParamMaddrF))) = true := by
    simpa [uriParamsBMask] using h
  simp only [hm', ↓reduceIte]

instance (l : URIParamsLst) : Decidable (TypesOk l) :=
  inferInstanceAs (Decidable (∀ x ∈ [URIParamUserF, URIParamTTLF, URIParamMethodF, URIParamMaddrF],
    ((l.types &&& x) ≠ 0 ↔ ∃ p ∈ l.plist, p.t = x)))

theorem uriParseCmp_eq (raw1 raw2 : Buf) (f : Nat) :
    uriParseCmp raw1 raw2 f =
      if (parseURI raw1 {}).2.2.2 = true then none
      else if ((parseURI raw1 {}).1 != UErr.none) = true then some (false, (parseURI raw1 {}).1, 0, none, none)
      else if (parseURI raw2 {}).2.2.2 = true then none
      else if ((parseURI raw2 {}).1 != UErr.none) = true then
        some (false, (parseURI raw2 {}).1, 1, some (parseURI raw1 {}).2.2.1, none)
      else (uriCmp (parseURI raw1 {}).2.2.1 raw1 (parseURI raw2 {}).2.2.1 raw2 f).map
        (fun r => (r, UErr.none, 0, some (parseURI raw1 {}).2.2.1, some (parseURI raw2 {}).2.2.1)) := by
  unfold uriParseCmp
  rfl

/-- FLAG MONOTONICITY for URIParseCmp: the whole result (verdict "equal", error, index, both parsed URIs) is kept
    when more components are ignored. -/
theorem uriParseCmp_mono {f g : Nat} (hfg : FlagsLe f g) (raw1 raw2 : Buf) {e : UErr} {i : Nat}
    {r1 r2 : Option PsipURI} (h : uriParseCmp raw1 raw2 f = some (true, e, i, r1, r2)) :
    uriParseCmp raw1 raw2 g = some (true, e, i, r1, r2) := by
  rw [uriParseCmp_eq] at h ⊢
  by_cases c1 : (parseURI raw1 {}).2.2.2 = true
  · simp only [c1, ↓reduceIte] at h; cases h
  · simp only [c1, Bool.false_eq_true, ↓reduceIte] at h ⊢
    by_cases c2 : ((parseURI raw1 {}).1 != UErr.none) = true
    · simp only [c2, ↓reduceIte] at h; cases h
    · simp only [c2, Bool.false_eq_true, ↓reduceIte] at h ⊢
      by_cases c3 : (parseURI raw2 {}).2.2.2 = true
      · simp only [c3, ↓reduceIte] at h; cases h
      · simp only [c3, Bool.false_eq_true, ↓reduceIte] at h ⊢
        by_cases c4 : ((parseURI raw2 {}).1 != UErr.none) = true
        · simp only [c4, ↓reduceIte] at h; cases h
        · simp only [c4, Bool.false_eq_true, ↓reduceIte] at h ⊢
          rcases hc : uriCmp (parseURI raw1 {}).2.2.1 raw1 (parseURI raw2 {}).2.2.1 raw2 f with _ | r
          · rw [hc] at h; cases h
          · rw [hc] at h
            simp only [Option.map_some, Option.some.injEq, Prod.mk.injEq] at h
            obtain ⟨hr, he, hi, hr1, hr2⟩ := h
            subst hr he hi hr1 hr2
            rw [uriCmp_mono hfg _ raw1 _ raw2 hc]
            rfl

/-! ### letter case of the scheme (ParseURI, URIParseCmp) -/

theorem uriLoop_congr (b b' : Buf) (k : Nat) (h : ∀ j, k ≤ j → b'[j]? = b[j]?) :
    ∀ (i : Nat) (σ : UState), k ≤ i → uriLoop b' i σ = uriLoop b i σ := by
  intro i σ
  fun_induction uriLoop b i σ with
  | case1 i σ hb =>
    intro hk
    rw [uriLoop]
    split
    · rfl
    · rename_i c hc
      rw [h i hk, hb] at hc; cases hc
  | case2 i σ c hb σ' hs ih =>
    intro hk
    rw [uriLoop]
    split
    · rename_i hc
      rw [h i hk, hb] at hc; cases hc
    · rename_i c' hc
      rw [h i hk, hb] at hc; cases hc
      simp only [hs]
      exact ih (by omega)
  | case3 i σ c hb e p σ' hs =>
    intro hk
    rw [uriLoop]
    split
    · rename_i hc
      rw [h i hk, hb] at hc; cases hc
    · rename_i c' hc
      rw [h i hk, hb] at hc; cases hc
      simp only [hs]

theorem or4 (X Y Z W X' Y' Z' W' : Nat) :
    (X ||| Y ||| Z ||| W) ||| (X' ||| Y' ||| Z' ||| W') = (X ||| X') ||| (Y ||| Y') ||| (Z ||| Z') ||| (W ||| W') := by
  ac_rfl

theorem sch_or_gen (x y z w c : Nat) :
    ((x <<< 24) ||| (y <<< 16) ||| (z <<< 8) ||| w) ||| ((c <<< 24) ||| (c <<< 16) ||| (c <<< 8) ||| c) =
      (((x ||| c) <<< 24) ||| ((y ||| c) <<< 16) ||| ((z ||| c) <<< 8) ||| (w ||| c)) := by
  rw [Nat.shiftLeft_or_distrib, Nat.shiftLeft_or_distrib, Nat.shiftLeft_or_distrib]
  exact or4 _ _ _ _ _ _ _ _

theorem sch_or (x y z w : Nat) :
    ((x <<< 24) ||| (y <<< 16) ||| (z <<< 8) ||| w) ||| 0x20202020 =
      (((x ||| 0x20) <<< 24) ||| ((y ||| 0x20) <<< 16) ||| ((z ||| 0x20) <<< 8) ||| (w ||| 0x20)) := by
  have h := sch_or_gen x y z w 0x20
  have hc : ((0x20 <<< 24) ||| (0x20 <<< 16) ||| (0x20 <<< 8) ||| 0x20 : Nat) = 0x20202020 := by decide
  rw [hc] at h
  exact h
/-- the 32-bit word ParseURI builds from the first four bytes -/
theorem sch_congr {a0 a1 a2 a3 c0 c1 c2 c3 : UInt8}
    (h0 : a0 ||| 0x20 = c0 ||| 0x20) (h1 : a1 ||| 0x20 = c1 ||| 0x20) (h2 : a2 ||| 0x20 = c2 ||| 0x20)
    (h3 : a3 ||| 0x20 = c3 ||| 0x20) :
    ((a3.toNat <<< 24) ||| (a2.toNat <<< 16) ||| (a1.toNat <<< 8) ||| a0.toNat) ||| 0x20202020 =
    ((c3.toNat <<< 24) ||| (c2.toNat <<< 16) ||| (c1.toNat <<< 8) ||| c0.toNat) ||| 0x20202020 := by
  have e0 := congrArg UInt8.toNat h0
  have e1 := congrArg UInt8.toNat h1
  have e2 := congrArg UInt8.toNat h2
  have e3 := congrArg UInt8.toNat h3
  simp only [UInt8.toNat_or] at e0 e1 e2 e3
  have k : (0x20 : UInt8).toNat = 0x20 := by decide
  rw [k] at e0 e1 e2 e3
  rw [sch_or, sch_or, e0, e1, e2, e3]

/-- SCHEME LETTER CASE: ParseURI gives the same result on two strings of the same length that agree from the fifth
    byte on and whose first four bytes agree up to bit 0x20 (in particular: up to the case of ASCII letters). -/
theorem parseURI_scheme_case (raw raw' : Buf) (pu : PsipURI) (hsz : raw'.size = raw.size)
    (hlo : ∀ j, j < 4 → ∀ c c', raw[j]? = some c → raw'[j]? = some c' → c' ||| 0x20 = c ||| 0x20)
    (hhi : ∀ j, 4 ≤ j → raw'[j]? = raw[j]?) :
    parseURI raw' pu = parseURI raw pu := by
  by_cases hlen : 5 ≤ raw.size
  · have g : ∀ j, j < 5 → ∃ c, raw[j]? = some c := fun j hj =>
      ⟨raw[j]'(by omega), Array.getElem?_eq_getElem (by omega)⟩
    have g' : ∀ j, j < 5 → ∃ c, raw'[j]? = some c := fun j hj =>
      ⟨raw'[j]'(by omega), Array.getElem?_eq_getElem (by omega)⟩
    obtain ⟨c0, hc0⟩ := g 0 (by omega)
    obtain ⟨c1, hc1⟩ := g 1 (by omega)
    obtain ⟨c2, hc2⟩ := g 2 (by omega)
    obtain ⟨c3, hc3⟩ := g 3 (by omega)
    obtain ⟨c4, hc4⟩ := g 4 (by omega)
    obtain ⟨a0, ha0⟩ := g' 0 (by omega)
    obtain ⟨a1, ha1⟩ := g' 1 (by omega)
    obtain ⟨a2, ha2⟩ := g' 2 (by omega)
    obtain ⟨a3, ha3⟩ := g' 3 (by omega)
    have ha4 : raw'[4]? = some c4 := by rw [hhi 4 (by omega), hc4]
    have hs := sch_congr (hlo 0 (by omega) c0 a0 hc0 ha0) (hlo 1 (by omega) c1 a1 hc1 ha1)
      (hlo 2 (by omega) c2 a2 hc2 ha2) (hlo 3 (by omega) c3 a3 hc3 ha3)
    have l4 : ∀ σ, uriLoop raw' (3 + 1) σ = uriLoop raw (3 + 1) σ := fun σ =>
      uriLoop_congr raw raw' 4 hhi (3 + 1) σ (by omega)
    have l5 : ∀ σ, uriLoop raw' (4 + 1) σ = uriLoop raw (4 + 1) σ := fun σ =>
      uriLoop_congr raw raw' 4 hhi (4 + 1) σ (by omega)
    unfold parseURI
    simp only [hc0, hc1, hc2, hc3, hc4, ha0, ha1, ha2, ha3, ha4, hs, l4, l5]
  · have n4 : raw[4]? = none := Array.getElem?_eq_none (by omega)
    have n4' : raw'[4]? = none := Array.getElem?_eq_none (by omega)
    unfold parseURI
    rw [n4, n4', hsz]
    rcases raw[0]? with _ | _ <;> rcases raw[1]? with _ | _ <;> rcases raw[2]? with _ | _ <;>
      rcases raw[3]? with _ | _ <;> rcases raw'[0]? with _ | _ <;> rcases raw'[1]? with _ | _ <;>
      rcases raw'[2]? with _ | _ <;> rcases raw'[3]? with _ | _ <;> rfl

/-- the same with hypotheses that can be checked by computation -/
theorem parseURI_scheme_case' (raw raw' : Buf) (pu : PsipURI) (hsz : raw'.size = raw.size)
    (hlo : ∀ j, j < 4 → (raw'[j]?).map (· ||| 0x20) = (raw[j]?).map (· ||| 0x20))
    (hhi : raw'.toList.drop 4 = raw.toList.drop 4) :
    parseURI raw' pu = parseURI raw pu := by
  apply parseURI_scheme_case raw raw' pu hsz
  · intro j hj c c' hc hc'
    have := hlo j hj
    rw [hc, hc'] at this
    simpa using this
  · intro j hj
    have e : ∀ (b : Buf), b[j]? = (b.toList.drop 4)[j - 4]? := by
      intro b
      rw [List.getElem?_drop, Array.getElem?_toList]
      congr 1
      omega
    rw [e raw, e raw', hhi]


/-- a field that starts after the scheme (or is empty) reads the same bytes from two buffers of the same length that
    agree from the fifth byte on -/
theorem get?_after_scheme (raw raw' : Buf) (hsz : raw'.size = raw.size) (hhi : ∀ j, 4 ≤ j → raw'[j]? = raw[j]?)
    (p : PField) (hp : 4 ≤ p.offs ∨ p.endT ≤ p.offs) : p.get? raw' = p.get? raw := by
  unfold PField.get?
  rw [hsz]
  by_cases hc : p.offs ≤ p.endT ∧ p.endT ≤ raw.size
  · simp only [hc, and_self, ↓reduceIte, Option.some.injEq]
    apply Array.ext_getElem?
    intro i
    rw [Array.getElem?_extract, Array.getElem?_extract, hsz]
    by_cases hi : i < min p.endT raw.size - p.offs
    · simp only [hi, ↓reduceIte]
      rcases hp with hp | hp
      · exact hhi _ (by omega)
      · omega
    · simp only [hi, ↓reduceIte]
  · simp only [hc, ↓reduceIte]

/-- all fields URICmp reads start after the scheme (or are empty) -/
structure AfterScheme (u : PsipURI) : Prop where
  user : 4 ≤ u.user.offs ∨ u.user.endT ≤ u.user.offs
  pass : 4 ≤ u.pass.offs ∨ u.pass.endT ≤ u.pass.offs
  host : 4 ≤ u.host.offs ∨ u.host.endT ≤ u.host.offs
  params : 4 ≤ u.params.offs ∨ u.params.endT ≤ u.params.offs
  headers : 4 ≤ u.headers.offs ∨ u.headers.endT ≤ u.headers.offs

instance (u : PsipURI) : Decidable (AfterScheme u) :=
  decidable_of_iff ((4 ≤ u.user.offs ∨ u.user.endT ≤ u.user.offs) ∧ (4 ≤ u.pass.offs ∨ u.pass.endT ≤ u.pass.offs) ∧
    (4 ≤ u.host.offs ∨ u.host.endT ≤ u.host.offs) ∧ (4 ≤ u.params.offs ∨ u.params.endT ≤ u.params.offs) ∧
    (4 ≤ u.headers.offs ∨ u.headers.endT ≤ u.headers.offs))
    ⟨fun ⟨a, b, c, d, e⟩ => ⟨a, b, c, d, e⟩, fun ⟨a, b, c, d, e⟩ => ⟨a, b, c, d, e⟩⟩

/-- URICmp does not look at the first four bytes of the buffers -/
theorem uriCmp_buf_congr (u1 : PsipURI) (raw1 raw1' : Buf) (u2 : PsipURI) (raw2 raw2' : Buf) (f : Nat)
    (hsz1 : raw1'.size = raw1.size) (hhi1 : ∀ j, 4 ≤ j → raw1'[j]? = raw1[j]?) (a1 : AfterScheme u1)
    (hsz2 : raw2'.size = raw2.size) (hhi2 : ∀ j, 4 ≤ j → raw2'[j]? = raw2[j]?) (a2 : AfterScheme u2) :
    uriCmp u1 raw1' u2 raw2' f = uriCmp u1 raw1 u2 raw2 f := by
  unfold uriCmp uriCmpShort
  rw [get?_after_scheme raw1 raw1' hsz1 hhi1 _ a1.user, get?_after_scheme raw1 raw1' hsz1 hhi1 _ a1.pass,
    get?_after_scheme raw1 raw1' hsz1 hhi1 _ a1.host, get?_after_scheme raw1 raw1' hsz1 hhi1 _ a1.params,
    get?_after_scheme raw1 raw1' hsz1 hhi1 _ a1.headers,
    get?_after_scheme raw2 raw2' hsz2 hhi2 _ a2.user, get?_after_scheme raw2 raw2' hsz2 hhi2 _ a2.pass,
    get?_after_scheme raw2 raw2' hsz2 hhi2 _ a2.host, get?_after_scheme raw2 raw2' hsz2 hhi2 _ a2.params,
    get?_after_scheme raw2 raw2' hsz2 hhi2 _ a2.headers]

/-- two raw strings that differ at most in bit 0x20 of the first four bytes (e.g. letter case of the scheme) -/
structure SchemeCaseVariant (raw raw' : Buf) : Prop where
  size : raw'.size = raw.size
  lo : ∀ j, j < 4 → (raw'[j]?).map (· ||| 0x20) = (raw[j]?).map (· ||| 0x20)
  hi : raw'.toList.drop 4 = raw.toList.drop 4

instance (raw raw' : Buf) : Decidable (SchemeCaseVariant raw raw') :=
  decidable_of_iff (raw'.size = raw.size ∧ (∀ j, j < 4 → (raw'[j]?).map (· ||| 0x20) = (raw[j]?).map (· ||| 0x20)) ∧
    raw'.toList.drop 4 = raw.toList.drop 4)
    ⟨fun ⟨a, b, c⟩ => ⟨a, b, c⟩, fun ⟨a, b, c⟩ => ⟨a, b, c⟩⟩

theorem SchemeCaseVariant.hi' {raw raw' : Buf} (v : SchemeCaseVariant raw raw') : ∀ j, 4 ≤ j → raw'[j]? = raw[j]? := by
  intro j hj
  have e : ∀ (b : Buf), b[j]? = (b.toList.drop 4)[j - 4]? := by
    intro b
    rw [List.getElem?_drop, Array.getElem?_toList]
    congr 1
    omega
  rw [e raw, e raw', v.hi]

theorem SchemeCaseVariant.parse {raw raw' : Buf} (v : SchemeCaseVariant raw raw') (pu : PsipURI) :
    parseURI raw' pu = parseURI raw pu := parseURI_scheme_case' raw raw' pu v.size v.lo v.hi

/-- SCHEME LETTER CASE for the raw-string entry point: the complete result of URIParseCmp (verdict, error, parsed
    URIs) is the same when the scheme of either string is written in another letter case. -/
theorem uriParseCmp_scheme_case (raw1 raw1' raw2 raw2' : Buf) (f : Nat)
    (v1 : SchemeCaseVariant raw1 raw1') (v2 : SchemeCaseVariant raw2 raw2')
    (a1 : AfterScheme (parseURI raw1 {}).2.2.1) (a2 : AfterScheme (parseURI raw2 {}).2.2.1) :
    uriParseCmp raw1' raw2' f = uriParseCmp raw1 raw2 f := by
  rw [uriParseCmp_eq, uriParseCmp_eq, v1.parse, v2.parse,
    uriCmp_buf_congr _ raw1 raw1' _ raw2 raw2' f v1.size v1.hi' a1 v2.size v2.hi' a2]


end Sipsp
