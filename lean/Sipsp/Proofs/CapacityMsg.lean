/-
  Sipsp.Proofs.CapacityMsg — capacity independence of ParseHeaders and ParseSIPMsg.
-/
import Sipsp.Proofs.CapacityHl
import Sipsp.Proofs.MsgL2

namespace Sipsp

/-! ### the header list -/

def HlsClean (hl : HdrLst) : Prop :=
  (∀ k, hl.n < k → k < hl.hdrs.size → hl.hdrs[k]! = {}) ∧ (hl.n < hl.hdrs.size → hl.hdr = {})

/-- two header lists (possibly different capacities) that went through the same parse -/
structure HlsRel (l1 l2 : HdrLst) : Prop where
  n : l1.n = l2.n
  pflags : l1.pflags = l2.pflags
  h : l1.h = l2.h
  cur : l1.cur = l2.cur
  agree : ∀ k, k < l1.n → k < l1.hdrs.size → k < l2.hdrs.size → l1.hdrs[k]! = l2.hdrs[k]!
  clean1 : HlsClean l1
  clean2 : HlsClean l2

/-- after the header section: counts, flags, first-of-type shortcuts and the stored prefix -/
structure HlsDone (l1 l2 : HdrLst) : Prop where
  n : l1.n = l2.n
  pflags : l1.pflags = l2.pflags
  h : l1.h = l2.h
  agree : ∀ k, k < l1.n → k < l1.hdrs.size → k < l2.hdrs.size → l1.hdrs[k]! = l2.hdrs[k]!

theorem hlSetCur_get_n (hl : HdrLst) (h : Hdr) (hin : hl.n < hl.hdrs.size) : (hl.setCur h).hdrs[hl.n]! = h := by
  have := hlSetCur_cur hl h
  unfold HdrLst.cur at this
  rw [hlSetCur_n, hlSetCur_size, if_pos hin] at this
  exact this

theorem hlSetCur_scalars (hl : HdrLst) (h : Hdr) : (hl.setCur h).pflags = hl.pflags ∧ (hl.setCur h).h = hl.h := by
  unfold HdrLst.setCur; split <;> exact ⟨rfl, rfl⟩

theorem setHdr_h_congr (l1 l2 : HdrLst) (nh : Hdr) (h : l1.h = l2.h) : (l1.setHdr nh).h = (l2.setHdr nh).h := by
  unfold HdrLst.setHdr
  rw [h]
  repeat' split
  all_goals first | rfl | (simp_all)

theorem setHdr_pflags (hl : HdrLst) (nh : Hdr) : (hl.setHdr nh).pflags = hl.pflags := by
  unfold HdrLst.setHdr; repeat' split
  all_goals rfl

theorem accept_pflags (hl : HdrLst) (h : Hdr) : (hl.accept h).pflags = (hl.pflags ||| (1 <<< h.type)) % 65536 := by
  unfold HdrLst.accept; dsimp only; split <;> simp only [setHdr_pflags]

theorem accept_h_congr (l1 l2 : HdrLst) (nh : Hdr) (h : l1.h = l2.h) : (l1.accept nh).h = (l2.accept nh).h := by
  unfold HdrLst.accept; dsimp only
  have := setHdr_h_congr { l1 with pflags := (l1.pflags ||| (1 <<< nh.type)) % 65536 }
    { l2 with pflags := (l2.pflags ||| (1 <<< nh.type)) % 65536 } nh h
  split <;> split <;> exact this

/-- the list after one more accepted header -/
theorem HlsRel.next {l1 l2 : HdrLst} (hR : HlsRel l1 l2) (h : Hdr) :
    HlsRel ((l1.setCur h).accept h) ((l2.setCur h).accept h) := by
  have key : ∀ l : HdrLst, HlsClean l → HlsClean ((l.setCur h).accept h) ∧ ((l.setCur h).accept h).cur = {} := by
    intro l hc
    have hn : ((l.setCur h).accept h).n = l.n + 1 := by rw [accept_n, hlSetCur_n]
    have hs : ((l.setCur h).accept h).hdrs.size = l.hdrs.size := by rw [accept_hdrs, hlSetCur_size]
    have hk : ∀ k, l.n < k → k < l.hdrs.size → ((l.setCur h).accept h).hdrs[k]! = {} := by
      intro k h1 h2; rw [accept_hdrs, hlSetCur_ne l h k (by omega)]; exact hc.1 k h1 h2
    have hh : l.n + 1 ≥ l.hdrs.size ∨ True → ((l.setCur h).accept h).hdr = {} := by
      intro _
      rw [accept_hdr, hlSetCur_n, hlSetCur_size]
      split
      · rename_i hin; rw [hlSetCur_hdr_in l h hin]; exact hc.2 hin
      · rfl
    refine ⟨⟨fun k h1 h2 => ?_, fun _ => hh (Or.inr trivial)⟩, ?_⟩
    · rw [hn] at h1; rw [hs] at h2; exact hk k (by omega) h2
    · unfold HdrLst.cur
      rw [hn, hs]
      split
      · rename_i hin; exact hk _ (by omega) hin
      · exact hh (Or.inr trivial)
  have k1 := key l1 hR.clean1
  have k2 := key l2 hR.clean2
  have s1 := hlSetCur_scalars l1 h
  have s2 := hlSetCur_scalars l2 h
  refine ⟨by rw [accept_n, accept_n, hlSetCur_n, hlSetCur_n, hR.n],
    by rw [accept_pflags, accept_pflags, s1.1, s2.1, hR.pflags],
    accept_h_congr _ _ h (by rw [s1.2, s2.2, hR.h]), by rw [k1.2, k2.2], ?_, k1.1, k2.1⟩
  intro k hk h1 h2
  rw [accept_n, hlSetCur_n] at hk
  rw [accept_hdrs, hlSetCur_size] at h1 h2
  rw [accept_hdrs, accept_hdrs]
  by_cases hkn : k = l1.n
  · subst hkn
    rw [hlSetCur_get_n l1 h h1]
    have : l1.n = l2.n := hR.n
    rw [this] at h2 ⊢
    rw [hlSetCur_get_n l2 h h2]
  · rw [hlSetCur_ne l1 h k (by omega), hlSetCur_ne l2 h k (by rw [← hR.n]; omega)]
    exact hR.agree k (by omega) h1 h2

theorem HlsRel.setCur {l1 l2 : HdrLst} (hR : HlsRel l1 l2) (h : Hdr) : HlsRel (l1.setCur h) (l2.setCur h) := by
  have s1 := hlSetCur_scalars l1 h
  have s2 := hlSetCur_scalars l2 h
  have key : ∀ l : HdrLst, HlsClean l → HlsClean (l.setCur h) := by
    intro l hc
    refine ⟨fun k h1 h2 => ?_, fun h1 => ?_⟩
    · rw [hlSetCur_n] at h1; rw [hlSetCur_size] at h2
      rw [hlSetCur_ne l h k (by omega)]; exact hc.1 k h1 h2
    · rw [hlSetCur_n, hlSetCur_size] at h1
      rw [hlSetCur_hdr_in l h h1]; exact hc.2 h1
  refine ⟨by rw [hlSetCur_n, hlSetCur_n, hR.n], by rw [s1.1, s2.1, hR.pflags], by rw [s1.2, s2.2, hR.h],
    by rw [hlSetCur_cur, hlSetCur_cur], ?_, key l1 hR.clean1, key l2 hR.clean2⟩
  intro k hk h1 h2
  rw [hlSetCur_n] at hk
  rw [hlSetCur_size] at h1 h2
  rw [hlSetCur_ne l1 h k (by omega), hlSetCur_ne l2 h k (by rw [← hR.n]; omega)]
  exact hR.agree k hk h1 h2

theorem HlsRel.done {l1 l2 : HdrLst} (hR : HlsRel l1 l2) : HlsDone l1 l2 := ⟨hR.n, hR.pflags, hR.h, hR.agree⟩

/-- **ParseHeaders does the same whatever the capacities** (the first run starts from a legitimate state) -/
theorem parseHeaders_rel (b : Buf) (offs : Nat) (l1 l2 : HdrLst) (hb1 hb2 : Option PHdrVals)
    (hR : HlsRel l1 l2) (hV : HbRel hb1 hb2) (hok1 : hlsOK b l1) (hok2 : hbOK b offs hb1) (hpe : hlsPend l1 hb1)
    (ho : offs ≤ b.size) :
    (parseHeaders b offs l1 hb1).1 = (parseHeaders b offs l2 hb2).1 ∧
    (parseHeaders b offs l1 hb1).2.1 = (parseHeaders b offs l2 hb2).2.1 ∧
    ((parseHeaders b offs l1 hb1).2.1 = .ok →
      HlsDone (parseHeaders b offs l1 hb1).2.2.1 (parseHeaders b offs l2 hb2).2.2.1 ∧
      HbRel (parseHeaders b offs l1 hb1).2.2.2 (parseHeaders b offs l2 hb2).2.2.2) ∧
    ((parseHeaders b offs l1 hb1).2.1 = .moreBytes →
      HlsRel (parseHeaders b offs l1 hb1).2.2.1 (parseHeaders b offs l2 hb2).2.2.1 ∧
      HbRel (parseHeaders b offs l1 hb1).2.2.2 (parseHeaders b offs l2 hb2).2.2.2) := by
  induction hk : b.size - offs using Nat.strongRecOn generalizing offs l1 l2 hb1 hb2 with
  | _ k ih =>
    rw [parseHeaders.eq_1 b offs l1 hb1, parseHeaders.eq_1 b offs l2 hb2]
    by_cases hlt : offs < b.size
    · rw [if_pos hlt, if_pos hlt, ← hR.cur]
      have hrel := parseHdrLine_rel b offs l1.cur hb1 hb2 hV
      have hI : hlOK b offs l1.cur hb1 := ⟨by omega, hlsOK_cur hok1, hok2⟩
      rcases hp1 : parseHdrLine b offs l1.cur hb1 with ⟨n1, e1, g1, v1⟩
      rcases hp2 : parseHdrLine b offs l1.cur hb2 with ⟨n2, e2, g2, v2⟩
      rw [hp1, hp2] at hrel
      obtain ⟨r1, r2, r3, r4⟩ := hrel
      simp only at r1 r2 r3 r4
      subst r1; subst r2; subst r3
      cases e1 <;> simp only
      case ok =>
        have hpost := parseHdrLine_post b offs l1.cur hb1 hI hp1 (Or.inl rfl)
        by_cases hg : offs < n1
        · rw [if_pos hg, if_pos hg]
          exact ih (b.size - n1) (by omega) n1 _ _ v1 v2 (hR.next g1) r4.to_rel (hlsOK_next g1 hok1) hpost.2
            (hlsPend_next g1 v1 hpe) hpost.1 rfl
        · rw [if_neg hg, if_neg hg]
          exact ⟨(by first | rfl | trivial), (by first | rfl | trivial), (fun hh => by cases hh), (fun hh => by cases hh)⟩
      case empty =>
        have hv : HbRel v1 v2 := by
          cases v1 <;> cases v2 <;> first | trivial | (exact r4.elim) | skip
          obtain ⟨c2, h1, h2, _⟩ := r4
          exact ⟨c2, h1, h2 (Or.inr rfl)⟩
        have hn : (decide (l1.n > 0)) = (decide (l2.n > 0)) := by rw [hR.n]
        by_cases hpos : l1.n > 0
        · rw [if_pos hpos, if_pos (by rw [← hR.n]; exact hpos)]
          exact ⟨(by first | rfl | trivial), (by first | rfl | trivial), fun _ => ⟨(hR.setCur g1).done, hv⟩, (fun hh => by cases hh)⟩
        · rw [if_neg hpos, if_neg (by rw [← hR.n]; exact hpos)]
          exact ⟨(by first | rfl | trivial), (by first | rfl | trivial), (fun hh => by cases hh), (fun hh => by cases hh)⟩
      case moreBytes =>
        obtain ⟨_, _, hpeN, _, _⟩ := parseHdrLine_resume b #[] offs l1.cur hb1 hI hpe.1 hp1
        exact ⟨(by first | rfl | trivial), (by first | rfl | trivial), (fun hh => by cases hh),
          fun _ => ⟨hR.setCur g1, HbOut.to_rel_more rfl r4 hpeN⟩⟩
      all_goals exact ⟨(by first | rfl | trivial), (by first | rfl | trivial), (fun hh => by cases hh), (fun hh => by cases hh)⟩
    · rw [if_neg hlt, if_neg hlt]
      exact ⟨(by first | rfl | trivial), (by first | rfl | trivial), (fun hh => by cases hh), fun _ => ⟨hR, hV⟩⟩

/-! ### the message -/

/-- the second message object is the first one with other (related) capacity-dependent parts -/
def MsgRel (m1 m2 : PSIPMsg) : Prop :=
  ∃ hl2 c2, m2 = { m1 with hl := hl2, pv := { m1.pv with contacts := c2 } } ∧
    (HlsRel m1.hl hl2 ∨ (m1.state = .body ∧ HlsDone m1.hl hl2)) ∧ CtW m1.pv.contacts c2

def MsgDone (m1 m2 : PSIPMsg) : Prop :=
  ∃ hl2 c2, m2 = { m1 with hl := hl2, pv := { m1.pv with contacts := c2 } } ∧ HlsDone m1.hl hl2 ∧ CtW m1.pv.contacts c2

/-- the parts of the message parser that do not look at the header list or the contacts -/
def frame (hl2 : HdrLst) (c2 : PContacts) (m : PSIPMsg) : PSIPMsg :=
  { m with hl := hl2, pv := { m.pv with contacts := c2 } }

theorem msgErr_frame (hl2 : HdrLst) (c2 : PContacts) (m : PSIPMsg) (o : Nat) (e : Err) (flags : Nat) :
    msgErr (frame hl2 c2 m) o e flags =
      ((msgErr m o e flags).1, (msgErr m o e flags).2.1, frame hl2 c2 (msgErr m o e flags).2.2) := by
  unfold msgErr frame
  split
  · rfl
  · split <;> rfl

theorem msgBody_frame (hl2 : HdrLst) (c2 : PContacts) (b : Buf) (m : PSIPMsg) (o : Nat) (flags : Nat) :
    msgBody b o (frame hl2 c2 m) flags =
      ((msgBody b o m flags).1, (msgBody b o m flags).2.1, frame hl2 c2 (msgBody b o m flags).2.2) := by
  unfold msgBody msgEnd PSIPMsg.setBufs frame
  simp only
  repeat' split
  all_goals rfl

theorem msgBody_more_pv (b : Buf) (o : Nat) (m : PSIPMsg) (flags : Nat) {o' : Nat} {m' : PSIPMsg}
    (h : msgBody b o m flags = (o', Err.moreBytes, m')) : m'.hl = m.hl ∧ m'.pv = m.pv ∧ m'.state = m.state := by
  obtain ⟨_, rfl, _⟩ := msgBody_resume b #[] o m flags flags h
  exact ⟨rfl, rfl, rfl⟩

theorem msgBody_done_pv (b : Buf) (o : Nat) (m : PSIPMsg) (flags : Nat) :
    (msgBody b o m flags).2.2.hl = m.hl ∧ (msgBody b o m flags).2.2.pv = m.pv := by
  unfold msgBody msgEnd PSIPMsg.setBufs
  simp only
  repeat' split
  all_goals exact ⟨rfl, rfl⟩

/-- what the message parser does with related results of ParseHeaders -/
theorem afterHeaders_rel (b : Buf) (m1 : PSIPMsg) (hl2 : HdrLst) (c2 : PContacts) (flags : Nat)
    (rA rB : Nat × Err × HdrLst × Option PHdrVals)
    (hsA : rA.2.2.2.isSome = true) (hsB : rB.2.2.2.isSome = true)
    (h1 : rA.1 = rB.1) (h2 : rA.2.1 = rB.2.1)
    (h3 : rA.2.1 = .ok → HlsDone rA.2.2.1 rB.2.2.1 ∧ HbRel rA.2.2.2 rB.2.2.2)
    (h4 : rA.2.1 = .moreBytes → HlsRel rA.2.2.1 rB.2.2.1 ∧ HbRel rA.2.2.2 rB.2.2.2) :
    (afterHeaders b m1 flags rA).1 = (afterHeaders b (frame hl2 c2 m1) flags rB).1 ∧
    (afterHeaders b m1 flags rA).2.1 = (afterHeaders b (frame hl2 c2 m1) flags rB).2.1 ∧
    ((afterHeaders b m1 flags rA).2.1 = .moreBytes →
      MsgRel (afterHeaders b m1 flags rA).2.2 (afterHeaders b (frame hl2 c2 m1) flags rB).2.2) ∧
    ((afterHeaders b m1 flags rA).2.1 = .ok →
      MsgDone (afterHeaders b m1 flags rA).2.2 (afterHeaders b (frame hl2 c2 m1) flags rB).2.2) := by
  obtain ⟨o1, e1, hlA, hbA⟩ := rA
  obtain ⟨o2, e2, hlB, hbB⟩ := rB
  simp only at hsA hsB h1 h2 h3 h4
  subst h1; subst h2
  cases hbA with
  | none => cases hsA
  | some vA =>
  cases hbB with
  | none => cases hsB
  | some vB =>
  unfold afterHeaders
  by_cases hok : e1 = .ok
  · subst hok
    simp only [Option.getD_some]
    obtain ⟨hd, ⟨cB, hvB, hcB⟩⟩ := h3 rfl
    subst hvB
    have hfr : ({ frame hl2 c2 m1 with hl := hlB, pv := { vA with contacts := cB }, state := MsgState.body } : PSIPMsg) =
        frame hlB cB { m1 with hl := hlA, pv := vA, state := .body } := rfl
    rw [hfr, msgBody_frame]
    have hpv := msgBody_done_pv b o1 { m1 with hl := hlA, pv := vA, state := .body } flags
    refine ⟨rfl, rfl, fun hm => ?_, fun _ => ?_⟩
    · refine ⟨hlB, cB, rfl, ?_, ?_⟩
      · rw [hpv.1]
        right
        have := msgBody_more_pv b o1 { m1 with hl := hlA, pv := vA, state := .body } flags
          (show _ = (_, Err.moreBytes, _) from Prod.ext rfl (Prod.ext hm rfl))
        exact ⟨this.2.2, hd⟩
      · rw [hpv.2]; exact hcB
    · refine ⟨hlB, cB, rfl, ?_, ?_⟩
      · rw [hpv.1]; exact hd
      · rw [hpv.2]; exact hcB
  · have hne : (e1 == Err.ok) = false := by cases e1 <;> first | rfl | exact absurd rfl hok
    by_cases hmore : e1 = .moreBytes
    · subst hmore
      simp only [Option.getD_some]
      obtain ⟨hr, ⟨cB, hvB, hcB⟩⟩ := h4 rfl
      subst hvB
      have hfr : ({ frame hl2 c2 m1 with hl := hlB, pv := { vA with contacts := cB } } : PSIPMsg) =
          frame hlB cB { m1 with hl := hlA, pv := vA } := rfl
      rw [hfr, msgErr_frame]
      rcases hx : msgErr { m1 with hl := hlA, pv := vA } o1 Err.moreBytes flags with ⟨ox, ex, mx⟩
      refine ⟨rfl, rfl, fun hm => ?_, fun hh => ?_⟩
      · simp only at hm
        subst hm
        obtain ⟨_, _, hmm⟩ := msgErr_more_inv _ _ _ _ hx
        subst hmm
        exact ⟨hlB, cB, rfl, Or.inl hr, hcB⟩
      · exfalso
        simp only at hh
        unfold msgErr at hx
        simp only [bne_self_eq_false, Bool.false_eq_true, ↓reduceIte] at hx
        split at hx <;> (cases hx; cases hh)
    · simp only [Option.getD_some]
      have hfr : ∀ v : PHdrVals, ({ frame hl2 c2 m1 with hl := hlB, pv := v } : PSIPMsg) =
          { ({ m1 with hl := hlB, pv := v } : PSIPMsg) with hl := hlB } := fun _ => rfl
      cases e1 <;> first | exact absurd rfl hok | exact absurd rfl hmore | skip
      all_goals
        rw [msgErr_stable _ _ _ _ (by decide), msgErr_stable _ _ _ _ (by decide)]
        exact ⟨rfl, rfl, (fun hh => by cases hh), (fun hh => by cases hh)⟩

/-- the conclusion shared by the sections of the message parser -/
def MsgOut (r1 r2 : Nat × Err × PSIPMsg) : Prop :=
  r1.1 = r2.1 ∧ r1.2.1 = r2.2.1 ∧ (r1.2.1 = .moreBytes → MsgRel r1.2.2 r2.2.2) ∧ (r1.2.1 = .ok → MsgDone r1.2.2 r2.2.2)

theorem msgHeaders_rel (b : Buf) (o : Nat) (m1 : PSIPMsg) (hl2 : HdrLst) (c2 : PContacts) (flags : Nat)
    (hH : HlsRel m1.hl hl2) (hC : CtW m1.pv.contacts c2)
    (hok1 : hlsOK b m1.hl) (hok2 : hvOK b o m1.pv) (hpe : hlsPend m1.hl (some m1.pv)) (ho : o ≤ b.size) :
    MsgOut (msgHeaders b o m1 flags) (msgHeaders b o (frame hl2 c2 m1) flags) := by
  rw [msgHeaders_eq, msgHeaders_eq]
  have hV : HbRel (some m1.pv) (some { m1.pv with contacts := c2 }) := ⟨c2, rfl, hC⟩
  have hrel := parseHeaders_rel b o m1.hl hl2 (some m1.pv) (some { m1.pv with contacts := c2 }) hH hV hok1 hok2 hpe ho
  exact afterHeaders_rel b m1 hl2 c2 flags _ _ (parseHeaders_isSome b o m1.hl m1.pv)
    (parseHeaders_isSome b o hl2 { m1.pv with contacts := c2 }) hrel.1 hrel.2.1 hrel.2.2.1 hrel.2.2.2

theorem msgFLine_rel (b : Buf) (o : Nat) (m1 : PSIPMsg) (hl2 : HdrLst) (c2 : PContacts) (flags : Nat)
    (hH : HlsRel m1.hl hl2) (hC : CtW m1.pv.contacts c2)
    (hok1 : hlsOK b m1.hl) (hok2 : hvOK b o m1.pv) (hpe : hlsPend m1.hl (some m1.pv)) (ho : o ≤ b.size) :
    MsgOut (msgFLine b o m1 flags) (msgFLine b o (frame hl2 c2 m1) flags) := by
  unfold msgFLine
  show MsgOut _ (match parseFLine b o m1.fl with
    | (o', .ok, fl) => msgHeaders b o' { frame hl2 c2 m1 with fl := fl, state := .headers } flags
    | (o', e, fl) => msgErr { frame hl2 c2 m1 with fl := fl } o' e flags)
  have hrg := parseFLine_range b o m1.fl ho
  rcases hp : parseFLine b o m1.fl with ⟨o1, e1, fl1⟩
  rw [hp] at hrg
  by_cases hok : e1 = .ok
  · subst hok
    simp only
    have hrg' := hrg rfl
    exact msgHeaders_rel b o1 { m1 with fl := fl1, state := .headers } hl2 c2 flags hH hC hok1
      (hvOK_mono hok2 hrg'.1 hrg'.2) hpe hrg'.2
  · have hfr : ({ frame hl2 c2 m1 with fl := fl1 } : PSIPMsg) = frame hl2 c2 { m1 with fl := fl1 } := rfl
    cases e1 <;> first | exact absurd rfl hok | skip
    all_goals
      simp only
      rw [hfr, msgErr_frame]
      refine ⟨rfl, rfl, fun hm => ?_, fun hh => ?_⟩
      · rcases hx : msgErr { m1 with fl := fl1 } o1 _ flags with ⟨ox, ex, mx⟩
        rw [hx] at hm
        simp only at hm
        subst hm
        obtain ⟨_, _, hmm⟩ := msgErr_more_inv _ _ _ _ hx
        subst hmm
        exact ⟨hl2, c2, rfl, Or.inl hH, hC⟩
      · exfalso
        rcases hx : msgErr { m1 with fl := fl1 } o1 _ flags with ⟨ox, ex, mx⟩
        rw [hx] at hh
        simp only at hh
        subst hh
        unfold msgErr at hx
        split at hx
        · cases hx
        · split at hx <;> cases hx

/-- **ParseSIPMsg does the same whatever the capacities of the caller's arrays** -/
theorem parseSIPMsg_rel (b : Buf) (o : Nat) (m1 m2 : PSIPMsg) (flags : Nat) (hR : MsgRel m1 m2)
    (hok : msgOK2 b o m1) : MsgOut (parseSIPMsg b o m1 flags) (parseSIPMsg b o m2 flags) := by
  obtain ⟨hl2, c2, rfl, hH, hC⟩ := hR
  obtain ⟨ho, _, hrest⟩ := hok
  have hm2 : ({ m1 with hl := hl2, pv := { m1.pv with contacts := c2 } } : PSIPMsg) = frame hl2 c2 m1 := rfl
  rw [hm2]
  cases hst : m1.state
  case init =>
    obtain ⟨h1, h2, h3⟩ := hrest (by rw [hst]; decide)
    have hH' : HlsRel m1.hl hl2 := by
      rcases hH with hH | hH
      · exact hH
      · rw [hst] at hH; cases hH.1
    have e1 : parseSIPMsg b o m1 flags = msgFLine b o { m1 with offs := o, state := .fline } flags := by
      unfold parseSIPMsg; rw [hst]
    have e2 : parseSIPMsg b o (frame hl2 c2 m1) flags =
        msgFLine b o (frame hl2 c2 { m1 with offs := o, state := .fline }) flags := by
      unfold parseSIPMsg; rw [show (frame hl2 c2 m1).state = m1.state from rfl, hst]; rfl
    rw [e1, e2]
    exact msgFLine_rel b o _ hl2 c2 flags hH' hC h1 h2 h3 ho
  case fline =>
    obtain ⟨h1, h2, h3⟩ := hrest (by rw [hst]; decide)
    have hH' : HlsRel m1.hl hl2 := by
      rcases hH with hH | hH
      · exact hH
      · rw [hst] at hH; cases hH.1
    rw [parseSIPMsg_fline _ _ _ _ hst, parseSIPMsg_fline _ _ _ _ (show (frame hl2 c2 m1).state = .fline from hst)]
    exact msgFLine_rel b o m1 hl2 c2 flags hH' hC h1 h2 h3 ho
  case headers =>
    obtain ⟨h1, h2, h3⟩ := hrest (by rw [hst]; decide)
    have hH' : HlsRel m1.hl hl2 := by
      rcases hH with hH | hH
      · exact hH
      · rw [hst] at hH; cases hH.1
    rw [parseSIPMsg_headers _ _ _ _ hst, parseSIPMsg_headers _ _ _ _ (show (frame hl2 c2 m1).state = .headers from hst)]
    exact msgHeaders_rel b o m1 hl2 c2 flags hH' hC h1 h2 h3 ho
  case body =>
    rw [parseSIPMsg_body _ _ _ _ hst, parseSIPMsg_body _ _ _ _ (show (frame hl2 c2 m1).state = .body from hst),
      msgBody_frame]
    have hpv := msgBody_done_pv b o m1 flags
    have hD : HlsDone m1.hl hl2 := by
      rcases hH with hH | hH
      · exact hH.done
      · exact hH.2
    refine ⟨rfl, rfl, fun hm => ?_, fun _ => ?_⟩
    · have := msgBody_more_pv b o m1 flags (show _ = (_, Err.moreBytes, _) from Prod.ext rfl (Prod.ext hm rfl))
      refine ⟨hl2, c2, rfl, Or.inr ⟨by rw [this.2.2]; exact hst, by rw [hpv.1]; exact hD⟩, by rw [hpv.2]; exact hC⟩
    · exact ⟨hl2, c2, rfl, by rw [hpv.1]; exact hD, by rw [hpv.2]; exact hC⟩
  all_goals
    (have e1 : parseSIPMsg b o m1 flags = msgErr m1 o .bug flags := by unfold parseSIPMsg; rw [hst]
     have e2 : parseSIPMsg b o (frame hl2 c2 m1) flags = msgErr (frame hl2 c2 m1) o .bug flags := by
       unfold parseSIPMsg; rw [show (frame hl2 c2 m1).state = m1.state from rfl, hst]
     rw [e1, e2, msgErr_frame, msgErr_stable _ _ _ _ (by decide)]
     exact ⟨rfl, rfl, (fun hh => by cases hh), (fun hh => by cases hh)⟩)

/-! ### from Init, under every chunk schedule -/

theorem HlsRel_new (k1 k2 : Nat) :
    HlsRel ({ hdrs := Array.replicate k1 {} } : HdrLst) ({ hdrs := Array.replicate k2 {} } : HdrLst) := by
  have hcur : ∀ k, (({ hdrs := Array.replicate k {} } : HdrLst)).cur = {} := by
    intro k; unfold HdrLst.cur; split
    · rename_i h; simp at h; simp [h]
    · rfl
  have hclean : ∀ k, HlsClean ({ hdrs := Array.replicate k {} } : HdrLst) := by
    intro k
    refine ⟨fun j _ hj => ?_, fun _ => rfl⟩
    simp at hj; simp [hj]
  exact ⟨rfl, rfl, rfl, by rw [hcur k1, hcur k2], (fun k hk => by cases hk), hclean k1, hclean k2⟩

/-- two Init calls with different capacities (and whatever the objects held before) give related objects -/
theorem MsgRel_init (m0 m0' : PSIPMsg) (len : Nat) (kh1 kc1 kh2 kc2 : Nat) (hd1 ct1 hd2 ct2 : Option Unit) :
    MsgRel (m0.init len (hd1.map fun _ => Array.replicate kh1 {}) (ct1.map fun _ => Array.replicate kc1 {}))
      (m0'.init len (hd2.map fun _ => Array.replicate kh2 {}) (ct2.map fun _ => Array.replicate kc2 {})) := by
  refine ⟨{ hdrs := (hd2.map fun _ => Array.replicate kh2 {}).getD (Array.replicate 10 {}) },
    { vals := (ct2.map fun _ => Array.replicate kc2 {}).getD (Array.replicate 10 {}) }, rfl, Or.inl ?_, ?_⟩
  · cases hd1 <;> cases hd2 <;> exact HlsRel_new _ _
  · cases ct1 <;> cases ct2 <;> exact CtW_new _ _

/-- **capacity independence under every chunk schedule**: two chains of resumed calls, on message objects that
    differ only in the capacities given to Init, return the same offset and verdict, and related objects -/
theorem capacity_schedule (flags : Nat) (o : Nat) (m1 m2 : PSIPMsg) (l : List Buf) (hg : Growing l)
    (hfit : ∀ x ∈ l, x.size ≤ 65535) (hR : MsgRel m1 m2) (h0 : ∀ b ∈ l.head?, msgOK2 b o m1) (hne : l ≠ []) :
    MsgOut (resumeRun (fun b o m => parseSIPMsg b o m flags) o m1 l)
      (resumeRun (fun b o m => parseSIPMsg b o m flags) o m2 l) := by
  induction l generalizing o m1 m2 with
  | nil => exact absurd rfl hne
  | cons b rest ih =>
    have hI : msgOK2 b o m1 := h0 b (by simp)
    have hrel := parseSIPMsg_rel b o m1 m2 flags hR hI
    cases rest with
    | nil => exact hrel
    | cons b' rest' =>
      simp only [resumeRun]
      rcases hp1 : parseSIPMsg b o m1 flags with ⟨o1, e1, s1⟩
      rcases hp2 : parseSIPMsg b o m2 flags with ⟨o2, e2, s2⟩
      rw [hp1, hp2] at hrel
      obtain ⟨r1, r2, r3, r4⟩ := hrel
      simp only at r1 r2 r3 r4
      subst r1; subst r2
      by_cases hm : e1 = .moreBytes
      · subst hm
        simp only
        obtain ⟨s', hs'⟩ := growing_ext hg b' List.mem_cons_self
        have hres := parseSIPMsg_resume b s' o m1 flags flags hI (hfit b List.mem_cons_self) hp1
        exact ih o1 s1 s2 (growing_tail hg) (fun x hx => hfit x (List.mem_cons_of_mem _ hx)) (r3 rfl)
          (by intro x hx; simp at hx; subst hx; rw [hs']; exact hres.2.1) (by simp)
      · cases e1 <;> first | exact absurd rfl hm | exact ⟨rfl, rfl, r3, r4⟩

/-- what two related message objects have in common after a successful parse -/
theorem MsgDone.observables {m1 m2 : PSIPMsg} (h : MsgDone m1 m2) :
    m1.fl = m2.fl ∧ m1.body = m2.body ∧ m1.bufLen = m2.bufLen ∧ m1.rawOffs = m2.rawOffs ∧ m1.rawLen = m2.rawLen ∧
    m1.state = m2.state ∧
    -- header list: total count, type flags, first-of-type shortcuts, stored prefix, "more" indicator
    m1.hl.n = m2.hl.n ∧ m1.hl.pflags = m2.hl.pflags ∧ (∀ t, m1.hl.getHdr t = m2.hl.getHdr t) ∧
    (∀ k, k < m1.hl.n → k < m1.hl.hdrs.size → k < m2.hl.hdrs.size → m1.hl.hdrs[k]! = m2.hl.hdrs[k]!) ∧
    -- header values
    m1.pv.from_ = m2.pv.from_ ∧ m1.pv.to = m2.pv.to ∧ m1.pv.callid = m2.pv.callid ∧ m1.pv.cseq = m2.pv.cseq ∧
    m1.pv.clen = m2.pv.clen ∧ m1.pv.expires = m2.pv.expires ∧ m1.pv.pais = m2.pv.pais ∧
    -- contacts: total count, header count, expires summary, stored prefix
    m1.pv.contacts.n = m2.pv.contacts.n ∧ m1.pv.contacts.hNo = m2.pv.contacts.hNo ∧
    m1.pv.maxExpires = m2.pv.maxExpires ∧ m1.pv.contacts.minExpires = m2.pv.contacts.minExpires ∧
    (∀ k, k < m1.pv.contacts.n → k < m1.pv.contacts.vals.size → k < m2.pv.contacts.vals.size →
      m1.pv.contacts.vals[k]! = m2.pv.contacts.vals[k]!) := by
  obtain ⟨hl2, c2, rfl, hH, hC⟩ := h
  obtain ⟨a1, a2, a3, a4, a5, a6, a7⟩ := wrap_scalars m1.pv.contacts
  obtain ⟨b1, b2, b3, b4, b5, b6, b7⟩ := wrap_scalars c2
  have hn : m1.pv.contacts.n = c2.n := by rw [← a1, ← b1]; exact hC.n
  have hmx : m1.pv.contacts.maxExpires = c2.maxExpires := by rw [← a4, ← b4]; exact hC.maxE
  refine ⟨rfl, rfl, rfl, rfl, rfl, rfl, hH.n, hH.pflags, ?_, hH.agree, rfl, rfl, rfl, rfl, rfl, rfl, rfl,
    hn, by rw [← a3, ← b3]; exact hC.hNo, ?_, by rw [← a5, ← b5]; exact hC.minE, ?_⟩
  · intro t; unfold HdrLst.getHdr; rw [hH.h]
  · unfold PHdrVals.maxExpires PContacts.parsed
    simp only [hn, hmx]
  · intro k hk h1 h2
    have := hC.agree k (by rw [a1]; exact hk) (by rw [a2]; exact h1) (by rw [b2]; exact h2)
    rw [a2, b2] at this; exact this

end Sipsp
