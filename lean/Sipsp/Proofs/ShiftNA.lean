/-
  Sipsp.Proofs.ShiftNA — position independence (property C11) of ParseNameAddrPVal (From / To / Contact / PAI values).

  Setting as in Sipsp.Proofs.Shift: the text `t` is parsed at its own start (buffer `t`, offset `o`) and after
  `k = pre.size` arbitrary bytes (buffer `pre ++ t`, offset `k + o`), with `pre.size + t.size ≤ 65535`.

  THE TRANSLATION. `shNa k pf` is the name-addr object `pf` moved by `k`:
  * URI (`uriSet`), value (`vSet`) and the saved restart offset `soffs` (`sPos`) are moved in exactly the automaton
    states in which they are set (the restart offset is a position in the states reached through a bare URI / display
    name and is the constant 0 in the states reached through `<uri>;`);
  * display name, tag, parameter list (`shO`, `shP`), the four name / value positions of the parameter being parsed
    and the parameter-error offset (`shZ`) follow the Go convention "zero value = not set": 0 stays 0, anything else
    is moved by `k`. This is unambiguous because a set one is never 0 (invariant `NaPos`: outside the initial state the
    current position is ≥ 1, so a parameter can never start at buffer position 0 — the `Params.Offs == 0` sentinel of
    the Go code is therefore harmless for texts that start at offset 0);
  * numbers (q, expires), flags, type, state, parameter error and the panic flag are unchanged; `shNa k {} = {}`.
  Inside the loop the restart offset lives in the local `s`: `shL` is the same translation with `s` in place of
  `soffs`; `shDn` is the translation of an object returned by a finishing step.

  PROVED (all inputs, all 33 states, no size bound other than the 16-bit limit):
  * `naStepA_shift` … `naStepVE_shift`, `naStep_shift`: every group of the loop body commutes with the translation:
    same kind of step, position / returned offset moved by `k`, same verdict, object translated. Finishing steps are
    compared up to the local `s` (`stepN clrS`): the end-of-header code moves to the final state without touching `s`,
    which the call then discards (`naExit` clears it), so no function of the final state alone can say whether that
    dead value was a position. `naEOH_shift`: the end-of-header code, `setFromParamVal_shift`: storing a parameter.
  * `na_posCont`: the invariant `NaPos` is kept by every continuing step (with `na_safeCont` of SafeNA).
  * `naLoop_shift` (through the generic `runLoop_shiftN`) and the main theorem
    `parseNameAddrPVal_shift : parseNameAddrPVal h (pre ++ t) (k + o) (shNa k pf) = shResNa k pf (parseNameAddrPVal h t o pf)`
    for every legitimate object (`NaShiftEntry`: finished, or satisfying the loop invariants once the restart offset is
    loaded; `NaShiftEntry_new`: a new object at any offset `o ≤ t.size` is one; `parseNameAddrPVal_shiftEntry`: so is
    the object returned with MoreBytes, hence `parseNameAddrPVal_shift_resume` for the resumed call).
    `shResNa` = offset moved by `k`, same verdict, object `shNa k`; only after an ERROR verdict the restart offset of
    the result is the stale one of the object passed in (Go never wrote it), i.e. it is moved as in the entry object.
  * corollaries: `parseNameAddrPVal_shift_wrote` (the plain `shRes k (shNa k)` form after OK / MoreValues / MoreBytes),
    `parseNameAddrPVal_shift_fields` (any verdict: everything but `soffs`), `parseNameAddrPVal_shift_new`,
    `parseNameAddrPVal_shift_reported` / `_bytes` (what a caller sees after a complete value: fields moved by `k`,
    numbers and flags unchanged, same bytes denoted).
  NOT proved / not true: the plain form `= shRes k (shNa k) (…)` is FALSE after error verdicts for any translation
  that is a function of the returned object alone (witness among the tests below: `a <b<` → BadChar in state `uri` with
  the never-written restart offset 0 in both runs, while the same state after `a <b` + MoreBytes carries a real saved
  position); this concerns only that internal, stale field.
-/
import Sipsp.Proofs.Shift
import Sipsp.Proofs.ShiftFLine
import Sipsp.Proofs.SafeNALo
import Sipsp.Proofs.ProgressNA
import Sipsp.Proofs.NameAddrPost

namespace Sipsp

variable {σ : Type}

/-! ### generic loop theorem with a separate translation of final states, up to a normalisation -/

/-- normalise the object of a finishing step -/
def stepN (nz : σ → σ) : Step σ → Step σ
  | .cont i st => .cont i st
  | .done o e st => .done o e (nz st)

def resN (nz : σ → σ) (r : Nat × Err × σ) : Nat × Err × σ := (r.1, r.2.1, nz r.2.2)

/-- shifted image of a step: `sh` on continuing states, `shD e` on a state returned with verdict `e` -/
def shStepD (k : Nat) (sh : σ → σ) (shD : Err → σ → σ) : Step σ → Step σ
  | .cont i st => .cont (k + i) (sh st)
  | .done o e st => .done (k + o) e (shD e st)

def shResD (k : Nat) (shD : Err → σ → σ) (r : Nat × Err × σ) : Nat × Err × σ := (k + r.1, r.2.1, shD r.2.1 r.2.2)

theorem runLoop_shiftN (m : Machine σ) (pre t : Buf) (sh : σ → σ) (shD : Err → σ → σ) (nz : σ → σ)
    (Inv : Nat → σ → Prop)
    (hinv : ∀ i c st i' st', t[i]? = some c → Inv i st → m.step t i c st = .cont i' st' → i < i' → Inv i' st')
    (hprog : ∀ i c st i' st', t[i]? = some c → Inv i st → m.step t i c st = .cont i' st' → i < i')
    (hstep : ∀ i c st, t[i]? = some c → Inv i st →
      stepN nz (m.step (pre ++ t) (pre.size + i) c (sh st)) = stepN nz (shStepD pre.size sh shD (m.step t i c st)))
    (heob : ∀ i st, t[i]? = none → Inv i st →
      resN nz (m.eob (pre ++ t) (pre.size + i) (sh st)) = resN nz (shResD pre.size shD (m.eob t i st)))
    (i : Nat) (st : σ) (hI : Inv i st) :
    resN nz (runLoop m (pre ++ t) (pre.size + i) (sh st)) = resN nz (shResD pre.size shD (runLoop m t i st)) := by
  induction hk : t.size - i using Nat.strongRecOn generalizing i st with
  | _ k ih =>
    cases hb : t[i]? with
    | none =>
      rw [runLoop_none m st hb, runLoop_none m (sh st) (by rw [get?_shift]; exact hb)]
      exact heob i st hb hI
    | some c =>
      have hbB : (pre ++ t)[pre.size + i]? = some c := by rw [get?_shift]; exact hb
      have hs := hstep i c st hb hI
      cases hq : m.step t i c st with
      | done o e st' =>
        rw [hq] at hs
        rw [runLoop_done m hb hq]
        cases hqB : m.step (pre ++ t) (pre.size + i) c (sh st) with
        | cont i2 st2 => rw [hqB] at hs; simp only [stepN, shStepD] at hs; cases hs
        | done o2 e2 st2 =>
          rw [hqB] at hs
          simp only [stepN, shStepD, Step.done.injEq] at hs
          obtain ⟨rfl, rfl, h3⟩ := hs
          rw [runLoop_done m hbB hqB]
          simp only [resN, shResD]
          rw [h3]
      | cont i' st' =>
        rw [hq] at hs
        have hlt : i < i' := hprog i c st i' st' hb hI hq
        simp only [stepN, shStepD] at hs
        cases hqB : m.step (pre ++ t) (pre.size + i) c (sh st) with
        | done o2 e2 st2 => rw [hqB] at hs; simp only at hs; cases hs
        | cont i2 st2 =>
          rw [hqB] at hs
          simp only [Step.cont.injEq] at hs
          obtain ⟨rfl, rfl⟩ := hs
          rw [runLoop_cont m hb hq, runLoop_cont m hbB hqB, if_pos hlt, if_pos (by omega)]
          have := get?_lt hb
          exact ih (t.size - i') (by omega) i' st' (hinv i c st i' st' hb hI hq hlt) rfl

/-! ### moved positions and fields with "zero = not set" -/

/-- a position where 0 means "not set" -/
def shZ (k x : Nat) : Nat := if x = 0 then 0 else k + x

/-- a field whose zero value means "not set" -/
def shO (k : Nat) (f : PField) : PField := if f.offs = 0 ∧ f.len = 0 then f else shF k f

/-- the parameter list: `Offs == 0` means "not set" (the test the Go code itself uses) -/
def shP (k : Nat) (f : PField) : PField := if f.offs = 0 then f else shF k f

theorem shZ_zero (k : Nat) : shZ k 0 = 0 := rfl
theorem shZ_pos (k x : Nat) (h : 1 ≤ x) : shZ k x = k + x := by unfold shZ; rw [if_neg (by omega)]
theorem shZ_pos' (k x : Nat) (h : x ≠ 0) : shZ k x = k + x := by unfold shZ; rw [if_neg h]

theorem shZ_lt (k a b : Nat) : (shZ k a < shZ k b) ↔ a < b := by
  unfold shZ; split <;> split <;> omega

theorem shZ_eq (k a b : Nat) : (shZ k a = shZ k b) ↔ a = b := by
  unfold shZ; split <;> split <;> omega

theorem trunc16_shZ (k x : Nat) (h : k + x ≤ 65535) : trunc16 (shZ k x) = shZ k (trunc16 x) := by
  unfold shZ trunc16
  by_cases hx : x = 0
  · subst hx; rfl
  · rw [if_neg hx, Nat.mod_eq_of_lt (a := x) (by omega), if_neg hx, Nat.mod_eq_of_lt (by omega)]

theorem shO_zero (k : Nat) : shO k {} = {} := rfl
theorem shP_zero (k : Nat) : shP k {} = {} := rfl

theorem shO_set (k s e : Nat) (h1 : s < e) (h2 : k + e ≤ 65535) :
    PField.set (k + s) (k + e) = shO k (PField.set s e) := by
  rw [set_shift k s e (by omega)]
  unfold shO
  rw [if_neg]
  intro hh
  have := hh.2
  unfold PField.set trunc16 at this
  simp only at this
  rw [Nat.mod_eq_of_lt (by omega)] at this
  omega

theorem shO_set' (k s e : Nat) (h1 : s < e) (h2 : k + e ≤ 65535) :
    shO k (PField.set s e) = shF k (PField.set s e) := by
  rw [← shO_set k s e h1 h2, set_shift k s e (by omega)]

theorem slice?_shift (pre t : Buf) (a b : Nat) : slice? (pre ++ t) (pre.size + a) (pre.size + b) = slice? t a b := by
  unfold slice?
  by_cases h : a ≤ b ∧ b ≤ t.size
  · rw [if_pos h, if_pos ⟨by omega, by rw [Array.size_append]; omega⟩, extract_shift]
  · rw [if_neg h, if_neg (by rw [Array.size_append]; omega)]

/-! ### the translation of a name-addr object -/

/-- states in which the local `s` (and so the saved restart offset) holds a position -/
def sPos : FBState → Bool
  | .name | .nameOrURI | .nameOrURIEnd | .quoted | .uri | .uriFound | .star
  | .newPossibleParam | .possibleParamName | .possibleParamNameEnd | .newPossibleVal | .possibleVal
  | .possibleValEnd | .quotedPossibleVal => true
  | _ => false

/-- states in which the URI field is set -/
def uriSet : FBState → Bool
  | .nameOrURIEnd | .uriFound | .newPossibleParam | .possibleParamName | .possibleParamNameEnd
  | .newParam | .paramName | .paramNameEnd | .newParamVal | .paramVal | .paramValEnd
  | .newPossibleVal | .possibleVal | .possibleValEnd | .quotedVal | .quotedPossibleVal | .fin => true
  | _ => false

/-- states in which the value field is set: all but the initial one (and the ten unused tag states) -/
def vSet : FBState → Bool
  | .init | .tagT | .tagA | .tagG | .tagEq | .tagVal | .pTagT | .pTagA | .pTagG | .pTagEq | .pTagVal => false
  | _ => true

def shS (k : Nat) (st : FBState) (x : Nat) : Nat := if sPos st then k + x else x

/-- the part of the translation common to an object between calls and inside the loop -/
def shB (k : Nat) (pf : PFromBody) : PFromBody :=
  { pf with name := shO k pf.name, uri := if uriSet pf.state then shF k pf.uri else pf.uri, tag := shO k pf.tag,
            params := shP k pf.params, v := if vSet pf.state then shF k pf.v else pf.v,
            errOffs := shZ k pf.errOffs, pstart := shZ k pf.pstart, pend := shZ k pf.pend,
            vstart := shZ k pf.vstart, vend := shZ k pf.vend }

/-- **the name-addr object moved by `k`** (as seen by callers: the local `s` is 0, the restart offset is saved) -/
def shNa (k : Nat) (pf : PFromBody) : PFromBody := { shB k pf with soffs := shS k pf.state pf.soffs }

/-- the object inside the loop (the restart offset lives in the local `s`) -/
def shL (k : Nat) (pf : PFromBody) : PFromBody := { shB k pf with s := shS k pf.state pf.s }

/-- the object returned by a finishing step: after `moreBytes:` the restart offset has been saved -/
def shDn (k : Nat) (e : Err) (pf : PFromBody) : PFromBody :=
  if e = .moreBytes then { shL k pf with soffs := shS k pf.state pf.soffs } else shL k pf

def clrS (pf : PFromBody) : PFromBody := { pf with s := 0 }

theorem shNa_new (k : Nat) : shNa k {} = {} := rfl
theorem shL_state (k : Nat) (pf : PFromBody) : (shL k pf).state = pf.state := rfl
theorem shNa_state (k : Nat) (pf : PFromBody) : (shNa k pf).state = pf.state := rfl

theorem shP_extend (k : Nat) (f : PField) (e : Nat) (h : k + e ≤ 65535) (ho : f.offs ≤ e) (h0 : f.offs ≠ 0) :
    (shP k f).extend (k + e) = shP k (f.extend e) := by
  unfold shP
  rw [if_neg h0, extend_shift k f e h ho]
  have : (f.extend e).offs = f.offs := rfl
  rw [this, if_neg h0]

theorem shP_extendPanics (k : Nat) (f : PField) (e : Nat) : (shP k f).extendPanics (k + e) = f.extendPanics e := by
  unfold shP
  split
  · rename_i h0
    unfold PField.extendPanics
    rw [h0]
    exact decide_eq_decide.mpr ⟨fun h => by omega, fun h => by omega⟩
  · exact extendPanics_shift k f e

theorem shP_offs_eq_zero (k : Nat) (f : PField) : ((shP k f).offs == 0) = (f.offs == 0) := by
  unfold shP
  split
  · rfl
  · rename_i h0
    have : (shF k f).offs = f.offs + k := rfl
    rw [this]
    have h1 : (f.offs == 0) = false := by simpa using h0
    rw [h1]
    simp; omega

/-- unfold the translation and the field updates, normalise positions to `k + _`, move the updates -/
macro "na_simp" hst:ident : tactic =>
  `(tactic| simp (disch := omega) only [shL, shB, shS, shDn, $hst:ident, sPos, uriSet, vSet, PFromBody.setURI,
      PFromBody.setName, PFromBody.setV, PFromBody.extV, PFromBody.extParams, PFromBody.resetUPT, PFromBody.saveS,
      Nat.add_assoc, set_shift, setPanics_shift, extend_shift, extendPanics_shift, shP_extendPanics, shP_extend,
      shO_zero, shP_zero, shO_set', shZ_pos, ↓reduceIte, Bool.false_eq_true, reduceCtorEq])

/-! ### storing a parameter value -/

theorem setQ_shL (k : Nat) (pf : PFromBody) (val : List UInt8) (h1 : k + pf.vstart ≤ 65535) (h2 : k + pf.vend ≤ 65535) :
    setQ (shL k pf) val = shL k (setQ pf val) := by
  unfold setQ
  dsimp only
  repeat' split
  all_goals simp only [shL, shB, trunc16_shZ _ _ h1, trunc16_shZ _ _ h2]

theorem setExpires_shL (k : Nat) (pf : PFromBody) (val : List UInt8) :
    setExpires (shL k pf) val = shL k (setExpires pf val) := by
  unfold setExpires
  rcases pUInt64Val val with ⟨a, b⟩
  rfl

theorem clearPV_shL (k : Nat) (pf : PFromBody) : (shL k pf).clearPV = shL k pf.clearPV := rfl

theorem setFromParamVal_shift (pre t : Buf) (pf : PFromBody) (hfit : pre.size + t.size ≤ 65535)
    (hp : pf.pstart < pf.pend → pf.pstart ≠ 0) (hv : pf.vstart < pf.vend → pf.vstart ≠ 0)
    (hb1 : pf.vstart ≤ t.size) (hb2 : pf.vend ≤ t.size) :
    setFromParamVal (pre ++ t) (shL pre.size pf) = shL pre.size (setFromParamVal t pf) := by
  have e1 : (shL pre.size pf).pstart = shZ pre.size pf.pstart := rfl
  have e2 : (shL pre.size pf).pend = shZ pre.size pf.pend := rfl
  have e3 : (shL pre.size pf).vstart = shZ pre.size pf.vstart := rfl
  have e4 : (shL pre.size pf).vend = shZ pre.size pf.vend := rfl
  have c1 : decide (shZ pre.size pf.pstart < shZ pre.size pf.pend) = decide (pf.pstart < pf.pend) :=
    decide_eq_decide.mpr (shZ_lt _ _ _)
  have c2 : decide (shZ pre.size pf.vstart < shZ pre.size pf.vend) = decide (pf.vstart < pf.vend) :=
    decide_eq_decide.mpr (shZ_lt _ _ _)
  have c3 : (shZ pre.size pf.vstart == shZ pre.size pf.vend) = (pf.vstart == pf.vend) := by
    rw [Bool.eq_iff_iff]; simp only [beq_iff_eq]; exact shZ_eq _ _ _
  unfold setFromParamVal
  rw [e1, e2, e3, e4, c1, c2, c3]
  by_cases d1 : (decide (pf.pstart < pf.pend) && decide (pf.vstart < pf.vend)) = true
  · rw [if_pos d1, if_pos d1]
    simp only [Bool.and_eq_true, decide_eq_true_eq] at d1
    rw [shZ_pos' _ _ (hp d1.1), shZ_pos _ pf.pend (by omega), shZ_pos' _ _ (hv d1.2), shZ_pos _ pf.vend (by omega),
      slice?_shift, slice?_shift]
    cases slice? t pf.pstart pf.pend <;> cases slice? t pf.vstart pf.vend <;> try simp only
    · rfl
    · rfl
    · rfl
    · repeat' split
      · simp only [PFromBody.clearPV, shL, shB, shZ_zero]
        rw [shO_set _ _ _ d1.2 (by omega)]
        rfl
      · rw [setExpires_shL]; rfl
      · rw [setQ_shL _ _ _ (by omega) (by omega)]; rfl
      · rfl
      · rfl
  · rw [if_neg d1, if_neg d1]
    by_cases d2 : (decide (pf.pstart < pf.pend) && pf.vstart == pf.vend) = true
    · rw [if_pos d2, if_pos d2]
      simp only [Bool.and_eq_true, decide_eq_true_eq] at d2
      rw [shZ_pos' _ _ (hp d2.1), shZ_pos _ pf.pend (by omega), slice?_shift]
      cases slice? t pf.pstart pf.pend <;> simp only
      · rfl
      · split <;> rfl
    · rw [if_neg d2, if_neg d2]
      simp only [PFromBody.clearPV, shL, shB, shZ_zero, trunc16_shZ _ _ (show pre.size + pf.vstart ≤ 65535 by omega)]
      rfl

/-! ### label `endOfHdr` -/

theorem extV_shL (k : Nat) (pf : PFromBody) (e : Nat) (hv : vSet pf.state = true) (h1 : k + e ≤ 65535)
    (h2 : pf.v.offs ≤ e) : (shL k pf).extV (k + e) = shL k (pf.extV e) := by
  simp (disch := omega) only [shL, shB, PFromBody.extV, hv, ↓reduceIte, extend_shift, extendPanics_shift]
  rfl

theorem extParams_shL (k : Nat) (pf : PFromBody) (e : Nat) (h0 : pf.params.offs ≠ 0) (h1 : k + e ≤ 65535)
    (h2 : pf.params.offs ≤ e) : (shL k pf).extParams (k + e) = shL k (pf.extParams e) := by
  simp (disch := first | omega | assumption) only [shL, shB, PFromBody.extParams, shP_extend, shP_extendPanics]
  rfl

theorem finish_shL (k h : Nat) (p : PFromBody) (hu : uriSet p.state = true) (hv : vSet p.state = true) :
    clrS { shL k p with state := .fin, soffs := 0, type := h } = clrS (shL k { p with state := .fin, soffs := 0, type := h }) := by
  simp only [clrS, shL, shB, hu, hv, ↓reduceIte]
  simp only [uriSet, vSet, ↓reduceIte]

theorem naEOHParamName_state (b : Buf) (pf : PFromBody) (e : Nat) : (naEOHParamName b pf e).state = pf.state := by
  unfold naEOHParamName
  simp only [PFromBody.extV, PFromBody.extParams]
  repeat' split
  all_goals first | rfl | (rw [setFromParamVal_state])

theorem naEOHVal_state (b : Buf) (pf : PFromBody) (e : Nat) : (naEOHVal b pf e).state = pf.state := by
  unfold naEOHVal
  simp only [PFromBody.extV, PFromBody.extParams, setFromParamVal_state]

def eohP1 (pf : PFromBody) (i : Nat) : PFromBody :=
  if pf.state == .paramName || pf.state == .possibleParamName then { pf with pend := i } else pf
def eohP2 (b : Buf) (pf : PFromBody) : PFromBody := if pf.pstart < pf.pend then setFromParamVal b pf else pf
def eohP3 (pf : PFromBody) (i : Nat) : PFromBody := if pf.params.offs != 0 then pf.extParams i else pf

theorem naEOHParamName_eq (b : Buf) (pf : PFromBody) (i : Nat) :
    naEOHParamName b pf i = (eohP3 (eohP2 b (eohP1 pf i)) i).extV i := rfl

theorem eohP1_shift (k : Nat) (pf : PFromBody) (e : Nat) (he1 : 1 ≤ e) : eohP1 (shL k pf) (k + e) = shL k (eohP1 pf e) := by
  unfold eohP1
  rw [shL_state]
  split
  · simp only [shL, shB, shZ_pos _ _ he1]
  · rfl

theorem eohP1_props (pf : PFromBody) (e : Nat) :
    (eohP1 pf e).state = pf.state ∧ (eohP1 pf e).v = pf.v ∧ (eohP1 pf e).params = pf.params ∧
    (eohP1 pf e).vstart = pf.vstart ∧ (eohP1 pf e).vend = pf.vend ∧ (eohP1 pf e).pstart = pf.pstart ∧
    ((eohP1 pf e).pend = pf.pend ∨ (pf.state = .paramName ∨ pf.state = .possibleParamName)) := by
  unfold eohP1
  split
  · rename_i hc
    refine ⟨rfl, rfl, rfl, rfl, rfl, rfl, Or.inr ?_⟩
    simpa using hc
  · exact ⟨rfl, rfl, rfl, rfl, rfl, rfl, Or.inl rfl⟩

theorem eohP2_shift (pre t : Buf) (pf : PFromBody) (hfit : pre.size + t.size ≤ 65535)
    (hp : pf.pstart < pf.pend → pf.pstart ≠ 0) (hv : pf.vstart < pf.vend → pf.vstart ≠ 0)
    (hb1 : pf.vstart ≤ t.size) (hb2 : pf.vend ≤ t.size) :
    eohP2 (pre ++ t) (shL pre.size pf) = shL pre.size (eohP2 t pf) := by
  unfold eohP2
  have e1 : (shL pre.size pf).pstart = shZ pre.size pf.pstart := rfl
  have e2 : (shL pre.size pf).pend = shZ pre.size pf.pend := rfl
  rw [e1, e2]
  by_cases hc : pf.pstart < pf.pend
  · rw [if_pos hc, if_pos ((shZ_lt _ _ _).mpr hc)]
    exact setFromParamVal_shift pre t pf hfit hp hv hb1 hb2
  · rw [if_neg hc, if_neg (fun hh => hc ((shZ_lt _ _ _).mp hh))]

theorem eohP2_props (b : Buf) (pf : PFromBody) :
    (eohP2 b pf).state = pf.state ∧ (eohP2 b pf).v = pf.v ∧ (eohP2 b pf).params = pf.params := by
  unfold eohP2
  split
  · have := setFromParamVal_vp b pf
    exact ⟨setFromParamVal_state b pf, this.1, this.2⟩
  · exact ⟨rfl, rfl, rfl⟩

theorem eohP3_shift (k : Nat) (pf : PFromBody) (e : Nat) (h1 : k + e ≤ 65535) (h2 : pf.params.offs ≤ e) :
    eohP3 (shL k pf) (k + e) = shL k (eohP3 pf e) := by
  unfold eohP3
  have e3 : (shL k pf).params = shP k pf.params := rfl
  have c0 : ((shP k pf.params).offs != 0) = (pf.params.offs != 0) := by
    unfold bne; rw [shP_offs_eq_zero]
  rw [e3, c0]
  by_cases hc : (pf.params.offs != 0) = true
  · rw [if_pos hc, if_pos hc]
    exact extParams_shL _ _ _ (by simpa using hc) h1 h2
  · rw [if_neg hc, if_neg hc]

theorem eohP3_props (pf : PFromBody) (e : Nat) : (eohP3 pf e).state = pf.state ∧ (eohP3 pf e).v = pf.v := by
  unfold eohP3
  split <;> exact ⟨rfl, rfl⟩

theorem naEOHParamName_shift (pre t : Buf) (pf : PFromBody) (e : Nat) (hfit : pre.size + t.size ≤ 65535)
    (he1 : 1 ≤ e) (he : e ≤ t.size) (hvs : vSet pf.state = true) (hvo : pf.v.offs ≤ e) (hpo : pf.params.offs ≤ e)
    (hA : (pf.state = .paramName ∨ pf.state = .possibleParamName) → pf.pstart ≠ 0)
    (g1 : pf.pend ≠ 0 → pf.pstart ≠ 0) (g2 : pf.vend ≠ 0 → pf.vstart ≠ 0)
    (hb1 : pf.vstart ≤ t.size) (hb2 : pf.vend ≤ t.size) :
    naEOHParamName (pre ++ t) (shL pre.size pf) (pre.size + e) = shL pre.size (naEOHParamName t pf e) := by
  rw [naEOHParamName_eq, naEOHParamName_eq, eohP1_shift _ _ _ he1]
  obtain ⟨q1, q2, q3, q4, q5, q6, q7⟩ := eohP1_props pf e
  rw [eohP2_shift pre t _ hfit
    (fun hh => by
      rw [q6]
      rcases q7 with q7 | q7
      · rw [q6, q7] at hh; exact g1 (by omega)
      · exact hA q7)
    (fun hh => by rw [q4]; rw [q4, q5] at hh; exact g2 (by omega))
    (by rw [q4]; exact hb1) (by rw [q5]; exact hb2)]
  obtain ⟨r1, r2, r3⟩ := eohP2_props t (eohP1 pf e)
  rw [eohP3_shift _ _ _ (by omega) (by rw [r3, q3]; exact hpo)]
  obtain ⟨s1, s2⟩ := eohP3_props (eohP2 t (eohP1 pf e)) e
  exact extV_shL _ _ _ (by rw [s1, r1, q1]; exact hvs) (by omega) (by rw [s2, r2, q2]; exact hvo)

theorem naEOHVal_shift (pre t : Buf) (pf : PFromBody) (e : Nat) (hfit : pre.size + t.size ≤ 65535)
    (he1 : 1 ≤ e) (he : e ≤ t.size) (hvs : vSet pf.state = true) (hvo : pf.v.offs ≤ e) (hpo : pf.params.offs ≤ e)
    (hp0 : pf.params.offs ≠ 0) (g1 : pf.pend ≠ 0 → pf.pstart ≠ 0) (g2 : pf.vstart ≠ 0) (hb1 : pf.vstart ≤ t.size) :
    naEOHVal (pre ++ t) (shL pre.size pf) (pre.size + e) = shL pre.size (naEOHVal t pf e) := by
  unfold naEOHVal
  have a1 : ({ shL pre.size pf with vend := pre.size + e } : PFromBody) = shL pre.size { pf with vend := e } := by
    simp only [shL, shB, shZ_pos _ _ he1]
  rw [a1, setFromParamVal_shift pre t { pf with vend := e } hfit (fun hh => g1 (by show pf.pend ≠ 0; have h' : pf.pstart < pf.pend := hh; omega)) (fun _ => g2) hb1 he]
  have sv := setFromParamVal_vp t { pf with vend := e }
  have ss := setFromParamVal_state t { pf with vend := e }
  rw [extParams_shL _ _ _ (by rw [sv.2]; exact hp0) (by omega) (by rw [sv.2]; exact hpo)]
  exact extV_shL _ _ _ (by show vSet (setFromParamVal t _).state = true; rw [ss]; exact hvs) (by omega)
    (by show (setFromParamVal t _).v.offs ≤ e; rw [sv.1]; exact hvo)

theorem shDn_ne (k : Nat) (e : Err) (pf : PFromBody) (he : e ≠ .moreBytes) : shDn k e pf = shL k pf := by
  unfold shDn; rw [if_neg he]

theorem fin_res (k h n crl : Nat) (r : Err) (hr : r ≠ .moreBytes) (X Y : PFromBody)
    (hXY : clrS { X with state := .fin, soffs := 0, type := h } = clrS (shL k { Y with state := .fin, soffs := 0, type := h })) :
    resN clrS (naFinish h X (k + n) crl r) = resN clrS (shResD k (shDn k) (naFinish h Y n crl r)) := by
  unfold naFinish resN shResD
  simp only
  rw [shDn_ne _ _ _ hr, hXY, Nat.add_assoc]

theorem fin_res' (k h n crl : Nat) (r : Err) (hr : r ≠ .moreBytes) (X Y : PFromBody) (hXY : X = shL k Y)
    (hu : uriSet Y.state = true) (hv : vSet Y.state = true) :
    resN clrS (naFinish h X (k + n) crl r) = resN clrS (shResD k (shDn k) (naFinish h Y n crl r)) := by
  subst hXY
  exact fin_res k h n crl r hr _ _ (finish_shL k h Y hu hv)

/-- facts about positions being set (lower bounds), see `NaPos` -/
structure NaLo (pf : PFromBody) : Prop where
  hA : (pf.state = .paramName ∨ pf.state = .possibleParamName) → pf.pstart ≠ 0
  g1 : pf.pend ≠ 0 → pf.pstart ≠ 0
  g2 : pf.vend ≠ 0 → pf.vstart ≠ 0

theorem naEOH_shift (h : Nat) (pre t : Buf) (pf : PFromBody) (i e n crl : Nat) (r : Err) (hr : r ≠ .moreBytes)
    (hfit : pre.size + t.size ≤ 65535) (hI : NaCore t i pf) (he : e ≤ i) (he1 : pf.state ≠ .init → 1 ≤ e)
    (hv : pf.v.offs ≤ e) (hp : pf.params.offs ≤ e) (hs : pf.state = .nameOrURI → pf.s ≤ e)
    (hL : NaLo pf)
    (hV : (pf.state = .newParamVal ∨ pf.state = .newPossibleVal ∨ pf.state = .paramVal ∨ pf.state = .possibleVal ∨
           pf.state = .paramValEnd ∨ pf.state = .possibleValEnd) → pf.params.offs ≠ 0 ∧ pf.vstart ≠ 0)
    (hb1 : pf.vstart ≤ t.size) :
    resN clrS (naEOH h (pre ++ t) (shL pre.size pf) (pre.size + e) (pre.size + n) crl r) =
      resN clrS (shResD pre.size (shDn pre.size) (naEOH h t pf e n crl r)) := by
  have hi := hI.hi
  have hve := hI.vend
  unfold naEOH
  rw [shL_state]
  cases hst : pf.state <;> simp only
  case uriFound => exact fin_res' _ _ _ _ _ hr _ _ rfl (by rw [hst]; rfl) (by rw [hst]; rfl)
  case nameOrURIEnd => exact fin_res' _ _ _ _ _ hr _ _ rfl (by rw [hst]; rfl) (by rw [hst]; rfl)
  case nameOrURI =>
    have := hs hst
    have := he1 (by rw [hst]; decide)
    refine fin_res _ _ _ _ _ hr _ _ ?_
    simp only [clrS]
    na_simp hst
  case star =>
    refine fin_res _ _ _ _ _ hr _ _ ?_
    simp only [clrS]
    na_simp hst
  case newParam =>
    have h1 := he1 (by rw [hst]; decide)
    refine fin_res' _ _ _ _ _ hr _ _ (naEOHParamName_shift pre t pf e hfit h1 (by omega) (by rw [hst]; rfl) hv hp hL.hA hL.g1 hL.g2 hb1 (by omega)) ?_ ?_
    · rw [naEOHParamName_state, hst]; rfl
    · rw [naEOHParamName_state, hst]; rfl
  case paramNameEnd =>
    have h1 := he1 (by rw [hst]; decide)
    refine fin_res' _ _ _ _ _ hr _ _ (naEOHParamName_shift pre t pf e hfit h1 (by omega) (by rw [hst]; rfl) hv hp hL.hA hL.g1 hL.g2 hb1 (by omega)) ?_ ?_
    · rw [naEOHParamName_state, hst]; rfl
    · rw [naEOHParamName_state, hst]; rfl
  case newPossibleParam =>
    have h1 := he1 (by rw [hst]; decide)
    refine fin_res' _ _ _ _ _ hr _ _ (naEOHParamName_shift pre t pf e hfit h1 (by omega) (by rw [hst]; rfl) hv hp hL.hA hL.g1 hL.g2 hb1 (by omega)) ?_ ?_
    · rw [naEOHParamName_state, hst]; rfl
    · rw [naEOHParamName_state, hst]; rfl
  case possibleParamNameEnd =>
    have h1 := he1 (by rw [hst]; decide)
    refine fin_res' _ _ _ _ _ hr _ _ (naEOHParamName_shift pre t pf e hfit h1 (by omega) (by rw [hst]; rfl) hv hp hL.hA hL.g1 hL.g2 hb1 (by omega)) ?_ ?_
    · rw [naEOHParamName_state, hst]; rfl
    · rw [naEOHParamName_state, hst]; rfl
  case paramName =>
    have h1 := he1 (by rw [hst]; decide)
    refine fin_res' _ _ _ _ _ hr _ _ (naEOHParamName_shift pre t pf e hfit h1 (by omega) (by rw [hst]; rfl) hv hp hL.hA hL.g1 hL.g2 hb1 (by omega)) ?_ ?_
    · rw [naEOHParamName_state, hst]; rfl
    · rw [naEOHParamName_state, hst]; rfl
  case possibleParamName =>
    have h1 := he1 (by rw [hst]; decide)
    refine fin_res' _ _ _ _ _ hr _ _ (naEOHParamName_shift pre t pf e hfit h1 (by omega) (by rw [hst]; rfl) hv hp hL.hA hL.g1 hL.g2 hb1 (by omega)) ?_ ?_
    · rw [naEOHParamName_state, hst]; rfl
    · rw [naEOHParamName_state, hst]; rfl
  case paramValEnd =>
    have h1 := he1 (by rw [hst]; decide)
    have hV' := hV (by simp [hst])
    have sv := setFromParamVal_vp t pf
    have ss := setFromParamVal_state t pf
    refine fin_res' _ _ _ _ _ hr _ _ ?_ ?_ ?_
    · rw [setFromParamVal_shift pre t pf hfit (fun hh => hL.g1 (by omega)) (fun _ => hV'.2) hb1 (by omega),
        extParams_shL _ _ _ (by rw [sv.2]; exact hV'.1) (by omega) (by rw [sv.2]; exact hp)]
      exact extV_shL _ _ _ (by show vSet (setFromParamVal t pf).state = true; rw [ss, hst]; rfl) (by omega)
        (by show (setFromParamVal t pf).v.offs ≤ e; rw [sv.1]; exact hv)
    · show uriSet (setFromParamVal t pf).state = true; rw [ss, hst]; rfl
    · show vSet (setFromParamVal t pf).state = true; rw [ss, hst]; rfl
  case possibleValEnd =>
    have h1 := he1 (by rw [hst]; decide)
    have hV' := hV (by simp [hst])
    have sv := setFromParamVal_vp t pf
    have ss := setFromParamVal_state t pf
    refine fin_res' _ _ _ _ _ hr _ _ ?_ ?_ ?_
    · rw [setFromParamVal_shift pre t pf hfit (fun hh => hL.g1 (by omega)) (fun _ => hV'.2) hb1 (by omega),
        extParams_shL _ _ _ (by rw [sv.2]; exact hV'.1) (by omega) (by rw [sv.2]; exact hp)]
      exact extV_shL _ _ _ (by show vSet (setFromParamVal t pf).state = true; rw [ss, hst]; rfl) (by omega)
        (by show (setFromParamVal t pf).v.offs ≤ e; rw [sv.1]; exact hv)
    · show uriSet (setFromParamVal t pf).state = true; rw [ss, hst]; rfl
    · show vSet (setFromParamVal t pf).state = true; rw [ss, hst]; rfl
  case newParamVal =>
    have h1 := he1 (by rw [hst]; decide)
    have hV' := hV (by simp [hst])
    refine fin_res' _ _ _ _ _ hr _ _ (Eq.trans ?_ (naEOHVal_shift pre t { pf with state := .newParamVal, vstart := e } e hfit h1 (by omega) rfl hv hp hV'.1 hL.g1 (by show e ≠ 0; omega) (by show e ≤ t.size; omega))) ?_ ?_
    · congr 1
      simp only [shL, shB, shZ_pos _ _ h1, hst]
    · rw [naEOHVal_state]; rfl
    · rw [naEOHVal_state]; rfl
  case newPossibleVal =>
    have h1 := he1 (by rw [hst]; decide)
    have hV' := hV (by simp [hst])
    refine fin_res' _ _ _ _ _ hr _ _ (Eq.trans ?_ (naEOHVal_shift pre t { pf with state := .newPossibleVal, vstart := e } e hfit h1 (by omega) rfl hv hp hV'.1 hL.g1 (by show e ≠ 0; omega) (by show e ≤ t.size; omega))) ?_ ?_
    · congr 1
      simp only [shL, shB, shZ_pos _ _ h1, hst]
    · rw [naEOHVal_state]; rfl
    · rw [naEOHVal_state]; rfl
  case paramVal =>
    have h1 := he1 (by rw [hst]; decide)
    have hV' := hV (by simp [hst])
    refine fin_res' _ _ _ _ _ hr _ _ (naEOHVal_shift pre t pf e hfit h1 (by omega) (by rw [hst]; rfl) hv hp hV'.1 hL.g1 hV'.2 hb1) ?_ ?_
    · rw [naEOHVal_state, hst]; rfl
    · rw [naEOHVal_state, hst]; rfl
  case possibleVal =>
    have h1 := he1 (by rw [hst]; decide)
    have hV' := hV (by simp [hst])
    refine fin_res' _ _ _ _ _ hr _ _ (naEOHVal_shift pre t pf e hfit h1 (by omega) (by rw [hst]; rfl) hv hp hV'.1 hL.g1 hV'.2 hb1) ?_ ?_
    · rw [naEOHVal_state, hst]; rfl
    · rw [naEOHVal_state, hst]; rfl
  all_goals
    simp only [resN, shResD]
    rw [shDn_ne _ _ _ (by decide), Nat.add_assoc]


/-! ### the loop invariant on set positions, white space and `moreValues` -/

/-- states in which a parameter name has been started -/
def pStarted : FBState → Bool
  | .paramName | .possibleParamName | .paramNameEnd | .possibleParamNameEnd | .newParamVal | .newPossibleVal
  | .paramVal | .possibleVal | .paramValEnd | .possibleValEnd | .quotedVal | .quotedPossibleVal => true
  | _ => false

/-- states in which a parameter value has been started -/
def vStarted : FBState → Bool
  | .newParamVal | .newPossibleVal | .paramVal | .possibleVal | .paramValEnd | .possibleValEnd
  | .quotedVal | .quotedPossibleVal => true
  | _ => false

/-- "set positions are not zero": what makes the Go convention "0 = not set" unambiguous -/
structure NaPos (i : Nat) (pf : PFromBody) : Prop where
  pos : pf.state ≠ .init → 1 ≤ i
  sLt : (pf.state = .name ∨ pf.state = .nameOrURI ∨ pf.state = .nameOrURIEnd ∨ pf.state = .quoted) → pf.s < i
  started : pStarted pf.state = true → pf.params.offs ≠ 0 ∧ pf.pstart ≠ 0
  vstarted : vStarted pf.state = true → pf.vstart ≠ 0
  vsLe : pf.vstart ≤ i
  g1 : pf.pend ≠ 0 → pf.pstart ≠ 0
  g2 : pf.vend ≠ 0 → pf.vstart ≠ 0

theorem NaPos.lo {i : Nat} {pf : PFromBody} (h : NaPos i pf) : NaLo pf :=
  ⟨fun hh => (h.started (by rcases hh with hh | hh <;> rw [hh] <;> rfl)).2, h.g1, h.g2⟩

theorem NaPos.hV {i : Nat} {pf : PFromBody} (h : NaPos i pf) :
    (pf.state = .newParamVal ∨ pf.state = .newPossibleVal ∨ pf.state = .paramVal ∨ pf.state = .possibleVal ∨
      pf.state = .paramValEnd ∨ pf.state = .possibleValEnd) → pf.params.offs ≠ 0 ∧ pf.vstart ≠ 0 := by
  intro hh
  refine ⟨(h.started ?_).1, h.vstarted ?_⟩ <;> rcases hh with hh | hh | hh | hh | hh | hh <;> rw [hh] <;> rfl

theorem done_of_res (k : Nat) (r' r : Nat × Err × PFromBody)
    (h : resN clrS r' = resN clrS (shResD k (shDn k) r)) :
    stepN clrS (.done r'.1 r'.2.1 r'.2.2) = stepN clrS (shStepD k (shL k) (shDn k) (.done r.1 r.2.1 r.2.2)) := by
  simp only [resN, shResD, Prod.mk.injEq] at h
  simp only [stepN, shStepD, h.1, h.2.1, h.2.2]

theorem saveS_shift (k : Nat) (pf : PFromBody) : (shL k pf).saveS = shDn k .moreBytes pf.saveS := by
  unfold shDn; rw [if_pos rfl]; rfl

/-- the end-of-header code run at the current position -/
theorem naEOH_shift_here (h : Nat) (pre t : Buf) (pf : PFromBody) (i n crl : Nat) (r : Err) (hr : r ≠ .moreBytes)
    (hfit : pre.size + t.size ≤ 65535) (hS : NaSafe t i pf) (hP : NaPos i pf) :
    resN clrS (naEOH h (pre ++ t) (shL pre.size pf) (pre.size + i) (pre.size + n) crl r) =
      resN clrS (shResD pre.size (shDn pre.size) (naEOH h t pf i n crl r)) :=
  naEOH_shift h pre t pf i i n crl r hr hfit hS.toNaCore (Nat.le_refl _) hP.pos hS.toNaCore.voffs hS.params.1
    (fun _ => hS.s) hP.lo hP.hV (by have := hP.vsLe; have := hS.hi; omega)

theorem naLWS_shift' (h : Nat) (pre t : Buf) (i : Nat) (pf : PFromBody)
    (heoh : ∀ n crl, resN clrS (naEOH h (pre ++ t) (shL pre.size pf) (pre.size + i) (pre.size + n) crl .ok) =
      resN clrS (shResD pre.size (shDn pre.size) (naEOH h t pf i n crl .ok))) :
    stepN clrS (naLWS h (pre ++ t) (pre.size + i) (shL pre.size pf)) =
      stepN clrS (shStepD pre.size (shL pre.size) (shDn pre.size) (naLWS h t i pf)) := by
  unfold naLWS lwsStd
  rw [skipLWS_shift]
  rcases hq : skipLWS t i 0 with ⟨n, crl, e⟩
  cases e <;> simp only
  case eoh => exact done_of_res _ _ _ (heoh n crl)
  case moreBytes => simp only [shStepD]; rw [saveS_shift]
  case ok => rfl
  all_goals
    simp only [shStepD]
    rw [shDn_ne _ _ _ (by decide)]

theorem naLWS_shift (h : Nat) (pre t : Buf) (i : Nat) (pf : PFromBody) (hfit : pre.size + t.size ≤ 65535)
    (hS : NaSafe t i pf) (hP : NaPos i pf) :
    stepN clrS (naLWS h (pre ++ t) (pre.size + i) (shL pre.size pf)) =
      stepN clrS (shStepD pre.size (shL pre.size) (shDn pre.size) (naLWS h t i pf)) :=
  naLWS_shift' h pre t i pf (fun n crl => naEOH_shift_here h pre t pf i n crl .ok (by decide) hfit hS hP)

/-- the end-of-header code in the two states in which it only finishes the object -/
theorem naEOH_shift_fin (h : Nat) (pre t : Buf) (pf : PFromBody) (e n crl : Nat) (r : Err) (hr : r ≠ .moreBytes)
    (hst : pf.state = .uriFound ∨ pf.state = .nameOrURIEnd) :
    resN clrS (naEOH h (pre ++ t) (shL pre.size pf) (pre.size + e) (pre.size + n) crl r) =
      resN clrS (shResD pre.size (shDn pre.size) (naEOH h t pf e n crl r)) := by
  unfold naEOH
  rw [shL_state]
  rcases hst with hst | hst <;> rw [hst] <;> simp only <;>
    exact fin_res' _ _ _ _ _ hr _ _ rfl (by rw [hst]; rfl) (by rw [hst]; rfl)

theorem naMoreValues_shift (h : Nat) (pre t : Buf) (i : Nat) (pf : PFromBody) (hfit : pre.size + t.size ≤ 65535)
    (hS : NaSafe t i pf) (hP : NaPos i pf) :
    stepN clrS (naMoreValues h (pre ++ t) (shL pre.size pf) (pre.size + i)) =
      stepN clrS (shStepD pre.size (shL pre.size) (shDn pre.size) (naMoreValues h t pf i)) := by
  unfold naMoreValues
  exact done_of_res _ _ _ (naEOH_shift_here h pre t pf i i 1 .moreValues (by decide) hfit hS hP)

theorem naStepA_shift (h : Nat) (pre t : Buf) (i : Nat) (c : UInt8) (pf : PFromBody)
    (hg : pf.state = .init ∨ pf.state = .name ∨ pf.state = .nameOrURI ∨ pf.state = .nameOrURIEnd)
    (hb : t[i]? = some c) (hfit : pre.size + t.size ≤ 65535) (hS : NaSafe t i pf) (hP : NaPos i pf) :
    stepN clrS (naStepA h (pre ++ t) (pre.size + i) c (shL pre.size pf)) =
      stepN clrS (shStepD pre.size (shL pre.size) (shDn pre.size) (naStepA h t i c pf)) := by
  have hlt := get?_lt hb
  have hs := hS.s
  have hv : pf.v.offs ≤ i := hS.toNaCore.voffs
  have hsl : pf.state ≠ .init → pf.s < i := by
    intro hn
    rcases hg with hg | hg | hg | hg
    · exact absurd hg hn
    · exact hP.sLt (Or.inl hg)
    · exact hP.sLt (Or.inr (Or.inl hg))
    · exact hP.sLt (Or.inr (Or.inr (Or.inl hg)))
  unfold naStepA
  simp only [shL_state]
  by_cases hl : isLWSch c = true
  · simp only [hl, ↓reduceIte]
    by_cases h2 : (pf.state == .nameOrURI) = true
    · have hst : pf.state = .nameOrURI := by simpa using h2
      simp only [h2, ↓reduceIte]
      have e1 : ({ ((shL pre.size pf).setURI (shL pre.size pf).s (pre.size + i)).extV (pre.size + i) with state := FBState.nameOrURIEnd } : PFromBody) = shL pre.size { (pf.setURI pf.s i).extV i with state := .nameOrURIEnd } := by
        na_simp hst
      rw [e1]
      exact naLWS_shift' h pre t i _ (fun n crl => naEOH_shift_fin h pre t _ i n crl .ok (by decide) (Or.inr rfl))
    · simp only [h2, Bool.false_eq_true, ↓reduceIte]
      exact naLWS_shift h pre t i pf hfit hS hP
  · simp only [hl, Bool.false_eq_true, ↓reduceIte]
    by_cases c1 : (c == 44) = true
    · simp only [c1, ↓reduceIte]
      split
      · exact naMoreValues_shift h pre t i pf hfit hS hP
      · simp only [stepN, shStepD]; rw [Nat.add_assoc]
    · simp only [c1, Bool.false_eq_true, ↓reduceIte]
      rcases hg with hst | hst | hst | hst
      all_goals
        simp only [hst, beq_iff_eq, bne_iff_ne, reduceCtorEq, ne_eq, not_true_eq_false, not_false_eq_true, ↓reduceIte]
        repeat' split
        all_goals
          simp only [stepN, shStepD]
          first
            | rw [shDn_ne _ _ _ (by decide)]
            | (have hsl' := hsl (by rw [hst]; decide)
               na_simp hst)
            | na_simp hst


/-! ### the invariant on set positions is preserved -/

theorem NaPos.mono {i j : Nat} {pf : PFromBody} (h : NaPos i pf) (hij : i ≤ j) : NaPos j pf :=
  ⟨fun hh => by have := h.pos hh; omega, fun hh => by have := h.sLt hh; omega, h.started, h.vstarted,
   by have := h.vsLe; omega, h.g1, h.g2⟩

/-- closes the seven fields of `NaPos j X` for an updated object `X` whose state is a constructor -/
macro "pos_tac" : tactic =>
  `(tactic| (refine ⟨?_, ?_, ?_, ?_, ?_, ?_, ?_⟩ <;>
      (try simp only [pStarted, vStarted, ne_eq, reduceCtorEq, not_false_eq_true, not_true_eq_false, false_or, or_false,
        or_self, false_implies, forall_const, Bool.false_eq_true, true_implies, imp_self, implies_true,
        PFromBody.setURI, PFromBody.setName, PFromBody.setV, PFromBody.extV, PFromBody.extParams,
        PFromBody.resetUPT]) <;>
      first
        | done
        | assumption
        | omega
        | (intro hh; first | assumption | omega | exact absurd hh (by assumption))
        | (refine ⟨?_, ?_⟩ <;> first | assumption | omega)))

/-- specialise the state-dependent parts of the invariant to the state `hst` -/
macro "pos_hyps" hst:ident p1:ident p2:ident p3:ident p4:ident : tactic =>
  `(tactic| simp only [$hst:ident, pStarted, vStarted, ne_eq, reduceCtorEq, not_false_eq_true, not_true_eq_false,
      forall_const, false_or, or_false, or_self, or_true, true_or, false_implies, Bool.false_eq_true, true_implies]
      at $p1:ident $p2:ident $p3:ident $p4:ident)

theorem naLWS_cont_eq (h : Nat) (b : Buf) (i : Nat) (pf : PFromBody) {i' : Nat} {st' : PFromBody}
    (hs : naLWS h b i pf = .cont i' st') : st' = pf ∧ i ≤ i' := by
  unfold naLWS lwsStd at hs
  rcases hsk : skipLWS b i 0 with ⟨n, crl, e⟩
  rw [hsk] at hs
  cases e <;> simp only at hs <;> cases hs
  exact ⟨rfl, (skipLWS_range b i 0 hsk).1⟩

theorem naLWS_pos (h : Nat) (b : Buf) (i : Nat) (pf : PFromBody) (hP : NaPos i pf) {i' : Nat} {st' : PFromBody}
    (hs : naLWS h b i pf = .cont i' st') : NaPos i' st' := by
  obtain ⟨rfl, hle⟩ := naLWS_cont_eq h b i pf hs
  exact hP.mono hle

macro "st_hs" hst:ident hs:ident : tactic =>
  `(tactic| simp only [$hst:ident, Bool.or_eq_true, beq_iff_eq, bne_iff_ne, reduceCtorEq, ne_eq, not_true_eq_false, not_false_eq_true,
      Bool.or_false, Bool.or_true, Bool.false_or, Bool.true_or, or_false, or_true, false_or, true_or, decide_true,
      decide_false, ↓reduceIte] at $hs:ident)

theorem naStepA_pos (h : Nat) (b : Buf) (i : Nat) (c : UInt8) (pf : PFromBody)
    (hg : pf.state = .init ∨ pf.state = .name ∨ pf.state = .nameOrURI ∨ pf.state = .nameOrURIEnd)
    (hP : NaPos i pf) {i' : Nat} {st' : PFromBody} (hs : naStepA h b i c pf = .cont i' st') : NaPos i' st' := by
  have hP' := hP
  obtain ⟨p1, p2, p3, p4, p5, p6, p7⟩ := hP
  unfold naStepA at hs
  rcases hg with hst | hst | hst | hst
  all_goals
    pos_hyps hst p1 p2 p3 p4
    st_hs hst hs
    repeat' (split at hs)
    all_goals first
      | exact naLWS_pos h b i _ hP' hs
      | (refine naLWS_pos h b i _ ?_ hs; pos_tac)
      | exact absurd hs (naMoreValues_not_cont h b _ i)
      | (cases hs; exact hP'.mono (Nat.le_succ _))
      | (cases hs; pos_tac)
      | cases hs

theorem naStepQ_pos (h : Nat) (b : Buf) (i : Nat) (c : UInt8) (pf : PFromBody)
    (hg : pf.state = .quoted ∨ pf.state = .quotedVal ∨ pf.state = .quotedPossibleVal)
    (hP : NaPos i pf) {i' : Nat} {st' : PFromBody} (hs : naStepQ h b i c pf = .cont i' st') : NaPos i' st' := by
  have hP' := hP
  obtain ⟨p1, p2, p3, p4, p5, p6, p7⟩ := hP
  unfold naStepQ at hs
  rcases hg with hst | hst | hst
  all_goals
    pos_hyps hst p1 p2 p3 p4
    st_hs hst hs
    repeat' (split at hs)
    all_goals first
      | exact naLWS_pos h b i _ hP' hs
      | (cases hs; exact hP'.mono (by omega))
      | (cases hs; pos_tac)
      | cases hs

theorem naStepU_pos (i : Nat) (c : UInt8) (pf : PFromBody) (hst : pf.state = .uri)
    (hP : NaPos i pf) {i' : Nat} {st' : PFromBody} (hs : naStepU i c pf = .cont i' st') : NaPos i' st' := by
  have hP' := hP
  obtain ⟨p1, p2, p3, p4, p5, p6, p7⟩ := hP
  unfold naStepU at hs
  pos_hyps hst p1 p2 p3 p4
  repeat' (split at hs)
  all_goals first
    | (cases hs; exact hP'.mono (by omega))
    | (cases hs; pos_tac)
    | cases hs

theorem naStepUF_pos (h : Nat) (b : Buf) (i : Nat) (c : UInt8) (pf : PFromBody) (hst : pf.state = .uriFound)
    (hP : NaPos i pf) {i' : Nat} {st' : PFromBody} (hs : naStepUF h b i c pf = .cont i' st') : NaPos i' st' := by
  have hP' := hP
  obtain ⟨p1, p2, p3, p4, p5, p6, p7⟩ := hP
  unfold naStepUF at hs
  pos_hyps hst p1 p2 p3 p4
  repeat' (split at hs)
  all_goals first
    | exact naLWS_pos h b i _ hP' hs
    | exact absurd hs (naMoreValues_not_cont h b _ i)
    | (cases hs; exact hP'.mono (by omega))
    | (cases hs; pos_tac)
    | cases hs

theorem naStepStar_pos (h : Nat) (b : Buf) (i : Nat) (c : UInt8) (pf : PFromBody)
    (hP : NaPos i pf) {i' : Nat} {st' : PFromBody} (hs : naStepStar h b i c pf = .cont i' st') : NaPos i' st' := by
  unfold naStepStar at hs
  split at hs
  · exact naLWS_pos h b i _ hP hs
  · cases hs

theorem setFromParamVal_cleared (b : Buf) (pf : PFromBody) :
    (setFromParamVal b pf).pstart = 0 ∧ (setFromParamVal b pf).pend = 0 ∧ (setFromParamVal b pf).vstart = 0 ∧
    (setFromParamVal b pf).vend = 0 := by
  unfold setFromParamVal
  repeat' split
  all_goals exact ⟨rfl, rfl, rfl, rfl⟩

/-- a completed parameter: the four positions are cleared -/
theorem setFromParamVal_pos (b : Buf) (pf : PFromBody) (j : Nat) (hj : 1 ≤ j)
    (hst : pf.state = .newParam ∨ pf.state = .newPossibleParam) : NaPos j (setFromParamVal b pf) := by
  obtain ⟨c1, c2, c3, c4⟩ := setFromParamVal_cleared b pf
  have ss := setFromParamVal_state b pf
  refine ⟨fun _ => hj, ?_, ?_, ?_, by rw [c3]; omega, fun hh => absurd c2 hh, fun hh => absurd c4 hh⟩
  all_goals
    rw [ss]
    rcases hst with hst | hst <;> rw [hst] <;> intro hh <;> simp [pStarted, vStarted] at hh

theorem naNameWS_pos (pf : PFromBody) (i : Nat) (hP : NaPos i pf)
    (hg : pf.state = .newParam ∨ pf.state = .newPossibleParam ∨ pf.state = .paramName ∨ pf.state = .possibleParamName) :
    NaPos i (naNameWS pf i) := by
  have hP' := hP
  obtain ⟨p1, p2, p3, p4, p5, p6, p7⟩ := hP
  unfold naNameWS
  rcases hg with hst | hst | hst | hst
  all_goals
    pos_hyps hst p1 p2 p3 p4
    simp only [hst, beq_iff_eq, reduceCtorEq, ↓reduceIte]
    first | exact hP' | pos_tac

theorem naValWS_pos (pf : PFromBody) (i n j : Nat) (ok : Bool) (hP : NaPos i pf) (hij : i ≤ j) (hn : 1 ≤ n)
    (hnj : ok = true → n ≤ j)
    (hg : pf.state = .newParamVal ∨ pf.state = .newPossibleVal ∨ pf.state = .paramVal ∨ pf.state = .possibleVal) :
    NaPos j (naValWS pf i n ok) := by
  have hP' := hP
  obtain ⟨p1, p2, p3, p4, p5, p6, p7⟩ := hP
  unfold naValWS
  rcases hg with hst | hst | hst | hst
  all_goals
    pos_hyps hst p1 p2 p3 p4
    simp only [hst]
    first
      | (split
         · have := hnj (by assumption)
           pos_tac
         · exact hP'.mono hij)
      | pos_tac

theorem naParam_pos (pf : PFromBody) (i : Nat) (hP : NaPos i pf) (hi : i < 65536)
    (hg : pf.state = .newParam ∨ pf.state = .newPossibleParam ∨ pf.state = .paramName ∨ pf.state = .possibleParamName) :
    NaPos (i + 1) (naParamsOffs (naParamStart pf i) i) := by
  have hP' := hP
  obtain ⟨p1, p2, p3, p4, p5, p6, p7⟩ := hP
  have hm : trunc16 i = i := trunc16_of_lt hi
  unfold naParamsOffs naParamStart
  rcases hg with hst | hst | hst | hst
  all_goals
    pos_hyps hst p1 p2 p3 p4
    simp only [hst, beq_iff_eq, reduceCtorEq, ↓reduceIte]
    split
    · rename_i hc
      have hc' : pf.params.offs = 0 := by simpa using hc
      rw [hm]
      pos_tac
    · rename_i hc
      have hc' : pf.params.offs ≠ 0 := by simpa using hc
      first | exact hP'.mono (Nat.le_succ _) | pos_tac

theorem naStepP_pos (h : Nat) (b : Buf) (i : Nat) (c : UInt8) (pf : PFromBody) (hb : b[i]? = some c)
    (hfit : b.size ≤ 65535)
    (hg : pf.state = .newParam ∨ pf.state = .newPossibleParam ∨ pf.state = .paramName ∨ pf.state = .possibleParamName)
    (hP : NaPos i pf) {i' : Nat} {st' : PFromBody} (hs : naStepP h b i c pf = .cont i' st') : NaPos i' st' := by
  have hlt := get?_lt hb
  have hP' := hP
  unfold naStepP at hs
  split at hs
  · rcases hsk : skipLWS b i 0 with ⟨n, crl, e⟩
    rw [hsk] at hs
    cases e <;> simp only at hs <;> cases hs
    exact (naNameWS_pos pf i hP' hg).mono (skipLWS_range b i 0 hsk).1
  · obtain ⟨p1, p2, p3, p4, p5, p6, p7⟩ := hP
    have hg' := hg
    rcases hg with hst | hst | hst | hst
    all_goals
      pos_hyps hst p1 p2 p3 p4
      st_hs hst hs
      repeat' (split at hs)
      all_goals first
        | exact absurd hs (naMoreValues_not_cont h b _ i)
        | (cases hs; exact hP'.mono (Nat.le_succ _))
        | (cases hs; exact setFromParamVal_pos b _ _ (by omega) (by first | exact Or.inl rfl | exact Or.inr rfl))
        | (cases hs; exact naParam_pos pf i hP' (by omega) hg')
        | (cases hs; pos_tac)
        | cases hs

theorem naStepPE_pos (h : Nat) (b : Buf) (i : Nat) (c : UInt8) (pf : PFromBody)
    (hg : pf.state = .paramNameEnd ∨ pf.state = .possibleParamNameEnd)
    (hP : NaPos i pf) {i' : Nat} {st' : PFromBody} (hs : naStepPE h b i c pf = .cont i' st') : NaPos i' st' := by
  have hP' := hP
  obtain ⟨p1, p2, p3, p4, p5, p6, p7⟩ := hP
  unfold naStepPE at hs
  rcases hg with hst | hst
  all_goals
    pos_hyps hst p1 p2 p3 p4
    st_hs hst hs
    repeat' (split at hs)
    all_goals first
      | exact absurd hs (naCommaAfterWS_not_cont h b _ i _)
      | (cases hs; exact setFromParamVal_pos b _ _ (by omega) (by first | exact Or.inl rfl | exact Or.inr rfl))
      | (cases hs; pos_tac)
      | cases hs

theorem naStepV_pos (h : Nat) (b : Buf) (i : Nat) (c : UInt8) (pf : PFromBody) (hb : b[i]? = some c)
    (hg : pf.state = .newParamVal ∨ pf.state = .newPossibleVal ∨ pf.state = .paramVal ∨ pf.state = .possibleVal)
    (hP : NaPos i pf) {i' : Nat} {st' : PFromBody} (hs : naStepV h b i c pf = .cont i' st') : NaPos i' st' := by
  have hlt := get?_lt hb
  have hP' := hP
  unfold naStepV at hs
  split at hs
  · rcases hsk : skipLWS b i 0 with ⟨n, crl, e⟩
    rw [hsk] at hs
    cases e <;> simp only at hs <;> cases hs
    have hr := (skipLWS_range b i 0 hsk).1
    have h1 := hP'.pos (by rcases hg with g | g | g | g <;> rw [g] <;> decide)
    exact naValWS_pos pf i _ _ true hP' hr (by omega) (fun _ => Nat.le_refl _) hg
  · obtain ⟨p1, p2, p3, p4, p5, p6, p7⟩ := hP
    rcases hg with hst | hst | hst | hst
    all_goals
      pos_hyps hst p1 p2 p3 p4
      st_hs hst hs
      repeat' (split at hs)
      all_goals first
        | exact absurd hs (naMoreValues_not_cont h b _ i)
        | (cases hs; exact hP'.mono (Nat.le_succ _))
        | (cases hs; exact setFromParamVal_pos b _ _ (by omega) (by first | exact Or.inl rfl | exact Or.inr rfl))
        | (cases hs; pos_tac)
        | cases hs

theorem naStepVE_pos (h : Nat) (b : Buf) (i : Nat) (c : UInt8) (pf : PFromBody)
    (hg : pf.state = .paramValEnd ∨ pf.state = .possibleValEnd)
    (hP : NaPos i pf) {i' : Nat} {st' : PFromBody} (hs : naStepVE h b i c pf = .cont i' st') : NaPos i' st' := by
  have hP' := hP
  obtain ⟨p1, p2, p3, p4, p5, p6, p7⟩ := hP
  unfold naStepVE at hs
  rcases hg with hst | hst
  all_goals
    pos_hyps hst p1 p2 p3 p4
    st_hs hst hs
    repeat' (split at hs)
    all_goals first
      | exact absurd hs (naCommaAfterWS_not_cont h b _ i _)
      | (cases hs; exact setFromParamVal_pos b _ _ (by omega) (by first | exact Or.inl rfl | exact Or.inr rfl))
      | (cases hs; pos_tac)
      | cases hs

/-- **the invariant on set positions is preserved by every continuing step** -/
theorem na_posCont (h : Nat) (b : Buf) (i : Nat) (c : UInt8) (pf : PFromBody) (hb : b[i]? = some c)
    (hfit : b.size ≤ 65535) (hP : NaPos i pf) {i' : Nat} {st' : PFromBody} (hs : naStep h b i c pf = .cont i' st') :
    NaPos i' st' := by
  unfold naStep at hs
  split at hs
  all_goals first
    | exact naStepA_pos h b i c pf (by simp [*]) hP hs
    | exact naStepQ_pos h b i c pf (by simp [*]) hP hs
    | exact naStepU_pos i c pf (by assumption) hP hs
    | exact naStepUF_pos h b i c pf (by assumption) hP hs
    | exact naStepP_pos h b i c pf hb hfit (by simp [*]) hP hs
    | exact naStepPE_pos h b i c pf (by simp [*]) hP hs
    | exact naStepV_pos h b i c pf hb (by simp [*]) hP hs
    | exact naStepVE_pos h b i c pf (by simp [*]) hP hs
    | exact naStepStar_pos h b i c pf hP hs
    | (cases hs; exact hP.mono (Nat.le_succ _))


/-! ### the remaining groups of the loop body -/

theorem naNameWS_shift (k : Nat) (pf : PFromBody) (i : Nat) (hi : 1 ≤ i) :
    naNameWS (shL k pf) (k + i) = shL k (naNameWS pf i) := by
  unfold naNameWS
  rw [shL_state]
  split
  · rename_i hc
    have hst : pf.state = .paramName := by simpa using hc
    na_simp hst
  · split
    · rename_i hc
      have hst : pf.state = .possibleParamName := by simpa using hc
      na_simp hst
    · rfl

theorem naValWS_shift (k : Nat) (pf : PFromBody) (i n : Nat) (ok : Bool) (hi : 1 ≤ i) (hn : 1 ≤ n) :
    naValWS (shL k pf) (k + i) (k + n) ok = shL k (naValWS pf i n ok) := by
  unfold naValWS
  rw [shL_state]
  cases hst : pf.state <;> simp only
  case newParamVal => split <;> first | rfl | (simp only [shL, shB, shZ_pos _ _ hn, hst])
  case newPossibleVal => split <;> first | rfl | (simp only [shL, shB, shZ_pos _ _ hn, hst])
  case paramVal => na_simp hst
  case possibleVal => na_simp hst

theorem naParamStart_shift (k : Nat) (pf : PFromBody) (i : Nat) (hi : 1 ≤ i) :
    naParamStart (shL k pf) (k + i) = shL k (naParamStart pf i) := by
  unfold naParamStart
  rw [shL_state]
  split
  · rename_i hc
    have hst : pf.state = .newParam := by simpa using hc
    na_simp hst
  · split
    · rename_i hc
      have hst : pf.state = .newPossibleParam := by simpa using hc
      na_simp hst
    · rfl

theorem naParamsOffs_shift (k : Nat) (pf : PFromBody) (i : Nat) (hi : 1 ≤ i) (hk : k + i ≤ 65535) :
    naParamsOffs (shL k pf) (k + i) = shL k (naParamsOffs pf i) := by
  unfold naParamsOffs
  have e3 : (shL k pf).params = shP k pf.params := rfl
  rw [e3, shP_offs_eq_zero]
  by_cases hc : (pf.params.offs == 0) = true
  · rw [if_pos hc, if_pos hc]
    have h0 : pf.params.offs = 0 := by simpa using hc
    simp only [shL, shB]
    have : ({ shP k pf.params with offs := trunc16 (k + i) } : PField) = shP k { pf.params with offs := trunc16 i } := by
      unfold shP shF
      rw [if_pos h0, trunc16_of_lt (by omega), trunc16_of_lt (by omega)]
      simp only
      rw [if_neg (by omega), Nat.add_comm]
    rw [this]
  · rw [if_neg hc, if_neg hc]

/-! ### `case fbQuoted, fbQuotedVal, fbQuotedPossibleVal` -/

theorem naStepQ_shift (h : Nat) (pre t : Buf) (i : Nat) (c : UInt8) (pf : PFromBody)
    (hg : pf.state = .quoted ∨ pf.state = .quotedVal ∨ pf.state = .quotedPossibleVal)
    (hb : t[i]? = some c) (hfit : pre.size + t.size ≤ 65535) (hS : NaSafe t i pf) (hP : NaPos i pf) :
    stepN clrS (naStepQ h (pre ++ t) (pre.size + i) c (shL pre.size pf)) =
      stepN clrS (shStepD pre.size (shL pre.size) (shDn pre.size) (naStepQ h t i c pf)) := by
  have hlt := get?_lt hb
  unfold naStepQ
  simp only [shL_state]
  by_cases c1 : (c == 34) = true
  · simp only [c1, ↓reduceIte]
    rcases hg with hst | hst | hst
    all_goals
      simp only [hst, beq_iff_eq, reduceCtorEq, ↓reduceIte, stepN, shStepD]
      na_simp hst
  · simp only [c1, Bool.false_eq_true, ↓reduceIte]
    by_cases c2 : (c == 92) = true
    · simp only [c2, ↓reduceIte]
      rw [get?_shift1]
      cases t[i + 1]? with
      | none => simp only [stepN, shStepD]; rw [saveS_shift]
      | some c1 =>
        simp only
        split
        · simp only [stepN, shStepD]; rw [shDn_ne _ _ _ (by decide), Nat.add_assoc]
        · simp only [stepN, shStepD]; rw [Nat.add_assoc]
    · simp only [c2, Bool.false_eq_true, ↓reduceIte]
      split
      · exact naLWS_shift h pre t i pf hfit hS hP
      · simp only [stepN, shStepD]; rw [Nat.add_assoc]

/-! ### `case fbURI` -/

theorem naStepU_shift (pre t : Buf) (i : Nat) (c : UInt8) (pf : PFromBody) (hst : pf.state = .uri)
    (hb : t[i]? = some c) (hfit : pre.size + t.size ≤ 65535) (hS : NaSafe t i pf) :
    stepN clrS (naStepU (pre.size + i) c (shL pre.size pf)) =
      stepN clrS (shStepD pre.size (shL pre.size) (shDn pre.size) (naStepU i c pf)) := by
  have hlt := get?_lt hb
  have hs := hS.s
  have hv : pf.v.offs ≤ i := hS.toNaCore.voffs
  unfold naStepU
  by_cases h1 : (c == 62) = true
  · simp only [h1, ↓reduceIte, shStepD, stepN]
    na_simp hst
  · simp only [h1, Bool.false_eq_true, ↓reduceIte]
    split
    · simp only [shStepD, stepN]; rw [shDn_ne _ _ _ (by decide)]
    · simp only [shStepD, stepN]; rw [Nat.add_assoc]

/-! ### `case fbURIFound` -/

theorem naStepUF_shift (h : Nat) (pre t : Buf) (i : Nat) (c : UInt8) (pf : PFromBody) (hst : pf.state = .uriFound)
    (hb : t[i]? = some c) (hfit : pre.size + t.size ≤ 65535) (hS : NaSafe t i pf) (hP : NaPos i pf) :
    stepN clrS (naStepUF h (pre ++ t) (pre.size + i) c (shL pre.size pf)) =
      stepN clrS (shStepD pre.size (shL pre.size) (shDn pre.size) (naStepUF h t i c pf)) := by
  have hlt := get?_lt hb
  unfold naStepUF
  repeat' split
  · exact naLWS_shift h pre t i pf hfit hS hP
  · exact naMoreValues_shift h pre t i pf hfit hS hP
  · simp only [stepN, shStepD]; rw [Nat.add_assoc]
  · simp only [stepN, shStepD]; na_simp hst
  · simp only [stepN, shStepD]; rw [Nat.add_assoc]

/-! ### `case fbStar` -/

theorem naStepStar_shift (h : Nat) (pre t : Buf) (i : Nat) (c : UInt8) (pf : PFromBody)
    (hfit : pre.size + t.size ≤ 65535) (hS : NaSafe t i pf) (hP : NaPos i pf) :
    stepN clrS (naStepStar h (pre ++ t) (pre.size + i) c (shL pre.size pf)) =
      stepN clrS (shStepD pre.size (shL pre.size) (shDn pre.size) (naStepStar h t i c pf)) := by
  unfold naStepStar
  split
  · exact naLWS_shift h pre t i pf hfit hS hP
  · simp only [stepN, shStepD]; rw [shDn_ne _ _ _ (by decide)]


macro "st_goal" hst:ident : tactic =>
  `(tactic| simp only [$hst:ident, Bool.or_eq_true, beq_iff_eq, bne_iff_ne, reduceCtorEq, ne_eq, not_true_eq_false, not_false_eq_true,
      Bool.or_false, Bool.or_true, Bool.false_or, Bool.true_or, or_false, or_true, false_or, true_or, decide_true,
      decide_false, ↓reduceIte])

/-- storing a parameter value inside a step: the argument is the moved argument -/
theorem sfp_step (pre t : Buf) (Y' Y : PFromBody) (hY : Y' = shL pre.size Y) (hfit : pre.size + t.size ≤ 65535)
    (hp : Y.pstart < Y.pend → Y.pstart ≠ 0) (hv : Y.vstart < Y.vend → Y.vstart ≠ 0)
    (hb1 : Y.vstart ≤ t.size) (hb2 : Y.vend ≤ t.size) :
    setFromParamVal (pre ++ t) Y' = shL pre.size (setFromParamVal t Y) := by
  subst hY; exact setFromParamVal_shift pre t Y hfit hp hv hb1 hb2

theorem naCommaAfterWS_shift (h : Nat) (pre t : Buf) (i e : Nat) (pf : PFromBody)
    (heoh : resN clrS (naEOH h (pre ++ t) (shL pre.size pf) (pre.size + e) (pre.size + i) 1 .moreValues) =
      resN clrS (shResD pre.size (shDn pre.size) (naEOH h t pf e i 1 .moreValues))) :
    stepN clrS (naCommaAfterWS h (pre ++ t) (shL pre.size pf) (pre.size + i) (pre.size + e)) =
      stepN clrS (shStepD pre.size (shL pre.size) (shDn pre.size) (naCommaAfterWS h t pf i e)) := by
  unfold naCommaAfterWS
  split
  · exact done_of_res _ _ _ heoh
  · simp only [stepN, shStepD]; rw [shDn_ne _ _ _ (by decide)]

/-! ### `case fbNewParam, fbNewPossibleParam, fbParamName, fbPossibleParamName` -/

theorem naStepP_shift (h : Nat) (pre t : Buf) (i : Nat) (c : UInt8) (pf : PFromBody)
    (hg : pf.state = .newParam ∨ pf.state = .newPossibleParam ∨ pf.state = .paramName ∨ pf.state = .possibleParamName)
    (hb : t[i]? = some c) (hfit : pre.size + t.size ≤ 65535) (hS : NaSafe t i pf) (hP : NaPos i pf) :
    stepN clrS (naStepP h (pre ++ t) (pre.size + i) c (shL pre.size pf)) =
      stepN clrS (shStepD pre.size (shL pre.size) (shDn pre.size) (naStepP h t i c pf)) := by
  have hlt := get?_lt hb
  have hi1 : 1 ≤ i := hP.pos (by rcases hg with g | g | g | g <;> rw [g] <;> decide)
  have hve := hS.vend
  have hvs := hP.vsLe
  unfold naStepP
  by_cases hl : isLWSch c = true
  · simp only [hl, ↓reduceIte]
    rw [skipLWS_shift]
    rcases hq : skipLWS t i 0 with ⟨n, crl, e⟩
    have hX := naNameWS_safe t i i pf hS (Nat.le_refl _) hS.hi
    have hXP := naNameWS_pos pf i hP hg
    cases e <;> simp only <;> try rw [naNameWS_shift _ _ _ hi1]
    case eoh => exact done_of_res _ _ _ (naEOH_shift_here h pre t _ i n crl .ok (by decide) hfit hX hXP)
    case moreBytes => simp only [stepN, shStepD]; rw [saveS_shift]
    case ok => rfl
    all_goals
      simp only [stepN, shStepD]
      rw [shDn_ne _ _ _ (by decide)]
  · simp only [hl, Bool.false_eq_true, ↓reduceIte]
    by_cases c1 : (c == 44) = true
    · simp only [c1, ↓reduceIte]
      split
      · exact naMoreValues_shift h pre t i pf hfit hS hP
      · simp only [stepN, shStepD]; rw [Nat.add_assoc]
    · simp only [c1, Bool.false_eq_true, ↓reduceIte, shL_state]
      obtain ⟨p1, p2, p3, p4, p5, p6, p7⟩ := hP
      by_cases c2 : (c == 61) = true
      · simp only [c2, ↓reduceIte]
        rcases hg with hst | hst | hst | hst
        all_goals
          st_goal hst
          simp only [stepN, shStepD]
          first
            | rw [shDn_ne _ _ _ (by decide)]
            | na_simp hst
      · simp only [c2, Bool.false_eq_true, ↓reduceIte]
        by_cases c3 : (c == 60 || c == 62) = true
        · simp only [c3, ↓reduceIte, stepN, shStepD]
          rw [shDn_ne _ _ _ (by decide)]
        · simp only [c3, Bool.false_eq_true, ↓reduceIte]
          by_cases c4 : (c == 59) = true
          · simp only [c4, ↓reduceIte]
            rcases hg with hst | hst | hst | hst
            all_goals
              pos_hyps hst p1 p2 p3 p4
              st_goal hst
              simp only [stepN, shStepD]
              rw [Nat.add_assoc]
            · congr 1
              exact sfp_step pre t _ _ (by na_simp hst) hfit (fun _ => p3.2) (fun hh => p7 (by have hh' : pf.vstart < pf.vend := hh; omega))
                 (by show pf.vstart ≤ t.size; omega) (by show pf.vend ≤ t.size; omega)
            · congr 1
              exact sfp_step pre t _ _ (by na_simp hst) hfit (fun _ => p3.2) (fun hh => p7 (by have hh' : pf.vstart < pf.vend := hh; omega))
                 (by show pf.vstart ≤ t.size; omega) (by show pf.vend ≤ t.size; omega)
          · simp only [c4, Bool.false_eq_true, ↓reduceIte, stepN, shStepD]
            rw [Nat.add_assoc, naParamStart_shift _ _ _ hi1, naParamsOffs_shift _ _ _ hi1 (by omega)]

/-! ### `case fbParamNameEnd, fbPossibleParamNameEnd` -/

theorem naStepPE_shift (h : Nat) (pre t : Buf) (i : Nat) (c : UInt8) (pf : PFromBody)
    (hg : pf.state = .paramNameEnd ∨ pf.state = .possibleParamNameEnd)
    (hb : t[i]? = some c) (hfit : pre.size + t.size ≤ 65535) (hS : NaSafe t i pf) (hP : NaPos i pf) :
    stepN clrS (naStepPE h (pre ++ t) (pre.size + i) c (shL pre.size pf)) =
      stepN clrS (shStepD pre.size (shL pre.size) (shDn pre.size) (naStepPE h t i c pf)) := by
  have hlt := get?_lt hb
  have hi1 : 1 ≤ i := hP.pos (by rcases hg with g | g <;> rw [g] <;> decide)
  have hve := hS.vend
  have hpe := hS.pend
  have hvs := hP.vsLe
  have hE := hS.endP hg
  have hlo := hP.lo
  have hV := hP.hV
  have hcore := hS.toNaCore
  obtain ⟨p1, p2, p3, p4, p5, p6, p7⟩ := hP
  unfold naStepPE
  simp only [shL_state]
  by_cases c2 : (c == 61) = true
  · simp only [c2, ↓reduceIte]
    rcases hg with hst | hst
    all_goals
      st_goal hst
      simp only [stepN, shStepD]
      na_simp hst
  · simp only [c2, Bool.false_eq_true, ↓reduceIte]
    by_cases c4 : (c == 59) = true
    · simp only [c4, ↓reduceIte]
      rcases hg with hst | hst
      all_goals
        pos_hyps hst p1 p2 p3 p4
        st_goal hst
        simp only [stepN, shStepD]
        rw [Nat.add_assoc]
        congr 1
        exact sfp_step pre t _ _ (by na_simp hst) hfit (fun _ => p3.2)
          (fun hh => p7 (by have hh' : pf.vstart < pf.vend := hh; omega))
          (by show pf.vstart ≤ t.size; omega) (by show pf.vend ≤ t.size; omega)
    · simp only [c4, Bool.false_eq_true, ↓reduceIte]
      by_cases c1 : (c == 44) = true
      · simp only [c1, ↓reduceIte]
        have hp0 : pf.params.offs ≠ 0 := (p3 (by rcases hg with g | g <;> rw [g] <;> rfl)).1
        have hpe1 : 1 ≤ pf.pend := by omega
        have e2 : (shL pre.size pf).pend = pre.size + pf.pend := shZ_pos _ _ hpe1
        rw [e2]
        exact naCommaAfterWS_shift h pre t i pf.pend pf
          (naEOH_shift h pre t pf i pf.pend i 1 .moreValues (by decide) hfit hcore hpe (fun _ => hpe1) hE.1 hE.2
            (fun hh => by rcases hg with g | g <;> rw [g] at hh <;> cases hh) hlo hV (by omega))
      · simp only [c1, Bool.false_eq_true, ↓reduceIte, stepN, shStepD]
        rw [shDn_ne _ _ _ (by decide)]

/-! ### `case fbParamValEnd, fbPossibleValEnd` -/

theorem naStepVE_shift (h : Nat) (pre t : Buf) (i : Nat) (c : UInt8) (pf : PFromBody)
    (hg : pf.state = .paramValEnd ∨ pf.state = .possibleValEnd)
    (hb : t[i]? = some c) (hfit : pre.size + t.size ≤ 65535) (hS : NaSafe t i pf) (hP : NaPos i pf) :
    stepN clrS (naStepVE h (pre ++ t) (pre.size + i) c (shL pre.size pf)) =
      stepN clrS (shStepD pre.size (shL pre.size) (shDn pre.size) (naStepVE h t i c pf)) := by
  have hlt := get?_lt hb
  have hi1 : 1 ≤ i := hP.pos (by rcases hg with g | g <;> rw [g] <;> decide)
  have hve := hS.vend
  have hvs := hP.vsLe
  have hE := hS.endV hg
  have hlo := hP.lo
  have hV := hP.hV
  have hcore := hS.toNaCore
  obtain ⟨p1, p2, p3, p4, p5, p6, p7⟩ := hP
  unfold naStepVE
  simp only [shL_state]
  by_cases c4 : (c == 59) = true
  · simp only [c4, ↓reduceIte]
    rcases hg with hst | hst
    all_goals
      pos_hyps hst p1 p2 p3 p4
      st_goal hst
      simp only [stepN, shStepD]
      rw [Nat.add_assoc]
      congr 1
      exact sfp_step pre t _ _ (by na_simp hst) hfit (fun _ => p3.2) (fun _ => p4)
        (by show pf.vstart ≤ t.size; omega) (by show pf.vend ≤ t.size; omega)
  · simp only [c4, Bool.false_eq_true, ↓reduceIte]
    by_cases c1 : (c == 44) = true
    · simp only [c1, ↓reduceIte]
      have hp0 : pf.params.offs ≠ 0 := (p3 (by rcases hg with g | g <;> rw [g] <;> rfl)).1
      have hve1 : 1 ≤ pf.vend := by omega
      have e2 : (shL pre.size pf).vend = pre.size + pf.vend := shZ_pos _ _ hve1
      rw [e2]
      exact naCommaAfterWS_shift h pre t i pf.vend pf
        (naEOH_shift h pre t pf i pf.vend i 1 .moreValues (by decide) hfit hcore hve (fun _ => hve1) hE.1 hE.2
          (fun hh => by rcases hg with g | g <;> rw [g] at hh <;> cases hh) hlo hV (by omega))
    · simp only [c1, Bool.false_eq_true, ↓reduceIte, stepN, shStepD]
      rw [shDn_ne _ _ _ (by decide)]

/-! ### `case fbNewParamVal, fbNewPossibleVal, fbParamVal, fbPossibleVal` -/

theorem naStepV_shift (h : Nat) (pre t : Buf) (i : Nat) (c : UInt8) (pf : PFromBody)
    (hg : pf.state = .newParamVal ∨ pf.state = .newPossibleVal ∨ pf.state = .paramVal ∨ pf.state = .possibleVal)
    (hb : t[i]? = some c) (hfit : pre.size + t.size ≤ 65535) (hS : NaSafe t i pf) (hP : NaPos i pf) :
    stepN clrS (naStepV h (pre ++ t) (pre.size + i) c (shL pre.size pf)) =
      stepN clrS (shStepD pre.size (shL pre.size) (shDn pre.size) (naStepV h t i c pf)) := by
  have hlt := get?_lt hb
  have hi1 : 1 ≤ i := hP.pos (by rcases hg with g | g | g | g <;> rw [g] <;> decide)
  have hve := hS.vend
  have hvs := hP.vsLe
  unfold naStepV
  by_cases hl : isLWSch c = true
  · simp only [hl, ↓reduceIte]
    rw [skipLWS_shift]
    rcases hq : skipLWS t i 0 with ⟨n, crl, e⟩
    have hn : 1 ≤ n := by have := (skipLWS_range t i 0 hq).1; omega
    have hX : NaSafe t i (naValWS pf i n false) := by
      rw [naValWS_false]; exact naValWS_safe t i i pf false hS (Nat.le_refl _) hS.hi
    have hXP := naValWS_pos pf i n i false hP (Nat.le_refl _) hn (fun hh => by cases hh) hg
    cases e <;> simp only <;> try rw [naValWS_shift _ _ _ _ _ hi1 hn]
    case eoh => exact done_of_res _ _ _ (naEOH_shift_here h pre t _ i n crl .ok (by decide) hfit hX hXP)
    case moreBytes => simp only [stepN, shStepD]; rw [saveS_shift]
    case ok => rfl
    all_goals
      simp only [stepN, shStepD]
      rw [shDn_ne _ _ _ (by decide)]
  · simp only [hl, Bool.false_eq_true, ↓reduceIte]
    by_cases c1 : (c == 44) = true
    · simp only [c1, ↓reduceIte]
      split
      · exact naMoreValues_shift h pre t i pf hfit hS hP
      · simp only [stepN, shStepD]; rw [Nat.add_assoc]
    · simp only [c1, Bool.false_eq_true, ↓reduceIte, shL_state]
      obtain ⟨p1, p2, p3, p4, p5, p6, p7⟩ := hP
      by_cases c4 : (c == 59) = true
      · simp only [c4, ↓reduceIte]
        rcases hg with hst | hst | hst | hst
        all_goals
          pos_hyps hst p1 p2 p3 p4
          st_goal hst
          simp only [stepN, shStepD]
          rw [Nat.add_assoc]
          congr 1
          exact sfp_step pre t _ _ (by na_simp hst) hfit (fun _ => p3.2) (fun _ => p4)
            (by show pf.vstart ≤ t.size; omega) (by show i ≤ t.size; omega)
      · simp only [c4, Bool.false_eq_true, ↓reduceIte]
        by_cases c3 : (c == 61 || c == 60 || c == 62) = true
        · simp only [c3, ↓reduceIte, stepN, shStepD]
          rw [shDn_ne _ _ _ (by decide)]
        · simp only [c3, Bool.false_eq_true, ↓reduceIte]
          by_cases c5 : (c == 34) = true
          · simp only [c5, ↓reduceIte]
            rcases hg with hst | hst | hst | hst
            all_goals
              st_goal hst
              simp only [stepN, shStepD]
              na_simp hst
          · simp only [c5, Bool.false_eq_true, ↓reduceIte]
            rcases hg with hst | hst | hst | hst
            all_goals
              st_goal hst
              simp only [stepN, shStepD]
              first
                | (rw [Nat.add_assoc]; done)
                | na_simp hst


/-! ### the loop body -/

theorem naStep_shift (h : Nat) (pre t : Buf) (i : Nat) (c : UInt8) (pf : PFromBody)
    (hb : t[i]? = some c) (hfit : pre.size + t.size ≤ 65535) (hS : NaSafe t i pf) (hP : NaPos i pf) :
    stepN clrS (naStep h (pre ++ t) (pre.size + i) c (shL pre.size pf)) =
      stepN clrS (shStepD pre.size (shL pre.size) (shDn pre.size) (naStep h t i c pf)) := by
  unfold naStep
  rw [shL_state]
  cases hst : pf.state <;> simp only
  all_goals first
    | exact naStepA_shift h pre t i c pf (by simp [hst]) hb hfit hS hP
    | exact naStepQ_shift h pre t i c pf (by simp [hst]) hb hfit hS hP
    | exact naStepU_shift pre t i c pf hst hb hfit hS
    | exact naStepUF_shift h pre t i c pf hst hb hfit hS hP
    | exact naStepP_shift h pre t i c pf (by simp [hst]) hb hfit hS hP
    | exact naStepPE_shift h pre t i c pf (by simp [hst]) hb hfit hS hP
    | exact naStepV_shift h pre t i c pf (by simp [hst]) hb hfit hS hP
    | exact naStepVE_shift h pre t i c pf (by simp [hst]) hb hfit hS hP
    | exact naStepStar_shift h pre t i c pf hfit hS hP
    | (simp only [stepN, shStepD]; rw [Nat.add_assoc])

/-- **the loop of ParseNameAddrPVal is position independent** (objects compared up to the local `s`) -/
theorem naLoop_shift (h : Nat) (pre t : Buf) (o : Nat) (pf : PFromBody) (hfit : pre.size + t.size ≤ 65535)
    (hS : NaSafe t o pf) (hP : NaPos o pf) :
    resN clrS (runLoop (naMachine h) (pre ++ t) (pre.size + o) (shL pre.size pf)) =
      resN clrS (shResD pre.size (shDn pre.size) (runLoop (naMachine h) t o pf)) :=
  runLoop_shiftN (naMachine h) pre t (shL pre.size) (shDn pre.size) clrS (fun i st => NaSafe t i st ∧ NaPos i st)
    (fun i c st i' st' hb hI hs hlt =>
      ⟨na_safeCont h t i c st i' st' hb hI.1 hs hlt, na_posCont h t i c st hb (by omega) hI.2 hs⟩)
    (fun i c st i' st' hb _ hs => na_progress h t i c st i' st' hb hs)
    (fun i c st hb hI => naStep_shift h pre t i c st hb hfit hI.1 hI.2)
    (fun i st _ _ => by
      show resN clrS (pre.size + i, Err.moreBytes, (shL pre.size st).saveS) = _
      rw [saveS_shift]; rfl)
    o pf ⟨hS, hP⟩

/-! ### ParseNameAddrPVal -/

/-- the verdicts after which the call has written the restart offset (`moreBytes:` saves it, the successful end
    clears it); after every other verdict the field still holds what the caller passed in -/
def naWrote (e : Err) : Bool := e == .moreBytes || e == .ok || e == .moreValues

/-- the moved result: offset moved by `k`, same verdict, object moved. After an error verdict the restart offset
    of the returned object is the stale one of the object passed in (`pf0`): it is moved as in that object, not
    according to the state in which the error occurred. -/
def shResNa (k : Nat) (pf0 : PFromBody) (r : Nat × Err × PFromBody) : Nat × Err × PFromBody :=
  (k + r.1, r.2.1, if naWrote r.2.1 then shNa k r.2.2 else { shNa k r.2.2 with soffs := shS k pf0.state pf0.soffs })

/-- the object with which the loop is entered: the saved restart offset is loaded into the local `s` -/
def naLoad (pf : PFromBody) : PFromBody := { pf with s := pf.soffs, soffs := 0 }

/-- what the theorem needs of the object passed in: it is finished, or — once the saved restart offset is loaded
    into the local `s` — it satisfies the loop invariants (`NaSafe`: saved positions and fields lie before the
    current offset, no panic so far; `NaPos`: set positions are not zero) -/
def NaShiftEntry (t : Buf) (o : Nat) (pf : PFromBody) : Prop :=
  pf.state = .fin ∨ (NaSafe t o (naLoad pf) ∧ NaPos o (naLoad pf))

theorem NaShiftEntry_new (t : Buf) (o : Nat) (ho : o ≤ t.size) : NaShiftEntry t o {} := by
  right
  refine ⟨?_, ?_⟩
  · rcases NaEntry_new t o ho with hh | hh
    · exact absurd hh.1 (by decide)
    · exact hh.2
  · refine ⟨fun hh => absurd rfl hh, ?_, ?_, ?_, Nat.zero_le _, fun hh => absurd rfl hh, fun hh => absurd rfl hh⟩
    · intro hh; rcases hh with hh | hh | hh | hh <;> cases hh
    · intro hh; cases hh
    · intro hh; cases hh

theorem naExit_clrS (s : Nat) (e : Err) (p : PFromBody) : naExit s e p = naExit s e (clrS p) := by
  unfold naExit clrS; split <;> rfl

theorem naExit_state (s : Nat) (e : Err) (p : PFromBody) : (naExit s e p).state = p.state := by
  unfold naExit; split <;> rfl

def naWrap (s : Nat) (r : Nat × Err × PFromBody) : Nat × Err × PFromBody := (r.1, r.2.1, naExit s r.2.1 r.2.2)

theorem parseNameAddrPVal_notfin (h : Nat) (b : Buf) (o : Nat) (pf : PFromBody) (hf : pf.state ≠ .fin) :
    parseNameAddrPVal h b o pf = naWrap pf.soffs (runLoop (naMachine h) b o (naLoad pf)) := by
  unfold parseNameAddrPVal; rw [if_neg hf]; rfl

theorem naLoad_shNa (k : Nat) (pf : PFromBody) : naLoad (shNa k pf) = shL k (naLoad pf) := rfl

/-- leaving the loop: the moved loop result becomes the moved call result -/
theorem naExit_shift (k : Nat) (pf0 : PFromBody) (e : Err) (p : PFromBody) (hfin : Err.complete e → p.state = .fin) :
    naExit (shNa k pf0).soffs e (shDn k e p) =
      if naWrote e then shNa k (naExit pf0.soffs e p) else { shNa k (naExit pf0.soffs e p) with soffs := shS k pf0.state pf0.soffs } := by
  by_cases h1 : e = .moreBytes
  · subst h1
    simp only [naExit, naWrote, shDn, shNa, shL, shB, beq_self_eq_true, Bool.true_or, ↓reduceIte]
  · rw [shDn_ne _ _ _ h1]
    by_cases h2 : Err.complete e
    · have hs := hfin h2
      have hw : naWrote e = true := by rcases h2 with h2 | h2 <;> subst h2 <;> rfl
      have hx : (e == Err.moreBytes || e == Err.ok || e == Err.moreValues) = true := hw
      simp only [naExit, hw, hx, ↓reduceIte, shNa, shL, shB, shS, hs, sPos, Bool.false_eq_true]
    · have hw : naWrote e = false := by
        cases e <;> first | rfl | exact absurd rfl h1 | exact absurd (Or.inl rfl) h2 | exact absurd (Or.inr rfl) h2
      have hx : (e == Err.moreBytes || e == Err.ok || e == Err.moreValues) = false := hw
      simp only [naExit, hw, hx, ↓reduceIte, shNa, shL, shB, Bool.false_eq_true]

/-- **ParseNameAddrPVal is position independent** -/
theorem parseNameAddrPVal_shift (h : Nat) (pre t : Buf) (o : Nat) (pf : PFromBody)
    (hfit : pre.size + t.size ≤ 65535) (hE : NaShiftEntry t o pf) :
    parseNameAddrPVal h (pre ++ t) (pre.size + o) (shNa pre.size pf) =
      shResNa pre.size pf (parseNameAddrPVal h t o pf) := by
  by_cases hf : pf.state = .fin
  · unfold parseNameAddrPVal
    rw [shNa_state, if_pos hf, if_pos hf]
    rfl
  · rcases hE with hE | hE
    · exact absurd hE hf
    · have hpost := fun o' e pf' => parseNameAddrPVal_post h t o pf (o' := o') (e := e) (pf' := pf')
      rw [parseNameAddrPVal_notfin h t o pf hf] at hpost ⊢
      rw [parseNameAddrPVal_notfin h _ _ _ (by rw [shNa_state]; exact hf), naLoad_shNa]
      have key := naLoop_shift h pre t o (naLoad pf) hfit hE.1 hE.2
      rcases hr : runLoop (naMachine h) t o (naLoad pf) with ⟨o1, e1, p1⟩
      rcases hr' : runLoop (naMachine h) (pre ++ t) (pre.size + o) (shL pre.size (naLoad pf)) with ⟨o2, e2, p2⟩
      rw [hr, hr'] at key
      rw [hr] at hpost
      simp only [resN, shResD, Prod.mk.injEq] at key
      obtain ⟨rfl, rfl, k3⟩ := key
      have hfin : Err.complete e2 → p1.state = .fin := by
        intro hc
        have := (hpost o1 e2 (naExit pf.soffs e2 p1) rfl hc).1
        rw [naExit_state] at this
        exact this
      simp only [shResNa, naWrap]
      rw [naExit_clrS, k3, ← naExit_clrS, naExit_shift _ _ _ _ hfin]
      rfl


/-- … in the usual form when the call ended with OK / MoreValues / MoreBytes -/
theorem parseNameAddrPVal_shift_wrote (h : Nat) (pre t : Buf) (o : Nat) (pf : PFromBody)
    (hfit : pre.size + t.size ≤ 65535) (hE : NaShiftEntry t o pf)
    (hw : naWrote (parseNameAddrPVal h t o pf).2.1 = true) :
    parseNameAddrPVal h (pre ++ t) (pre.size + o) (shNa pre.size pf) =
      shRes pre.size (shNa pre.size) (parseNameAddrPVal h t o pf) := by
  rw [parseNameAddrPVal_shift h pre t o pf hfit hE]
  unfold shResNa shRes
  rw [if_pos hw]

/-- … for every verdict: offset moved, same verdict, and the object moved up to the saved restart offset -/
theorem parseNameAddrPVal_shift_fields (h : Nat) (pre t : Buf) (o : Nat) (pf : PFromBody)
    (hfit : pre.size + t.size ≤ 65535) (hE : NaShiftEntry t o pf) :
    (parseNameAddrPVal h (pre ++ t) (pre.size + o) (shNa pre.size pf)).1 = pre.size + (parseNameAddrPVal h t o pf).1 ∧
    (parseNameAddrPVal h (pre ++ t) (pre.size + o) (shNa pre.size pf)).2.1 = (parseNameAddrPVal h t o pf).2.1 ∧
    ({ (parseNameAddrPVal h (pre ++ t) (pre.size + o) (shNa pre.size pf)).2.2 with soffs := 0 } : PFromBody) =
      { shNa pre.size (parseNameAddrPVal h t o pf).2.2 with soffs := 0 } := by
  rw [parseNameAddrPVal_shift h pre t o pf hfit hE]
  refine ⟨rfl, rfl, ?_⟩
  unfold shResNa
  simp only
  split <;> rfl

/-- **… from a new object** at any start offset: after an error verdict the (never written) restart offset is 0 in
    both runs -/
theorem parseNameAddrPVal_shift_new (h : Nat) (pre t : Buf) (o : Nat) (ho : o ≤ t.size)
    (hfit : pre.size + t.size ≤ 65535) :
    parseNameAddrPVal h (pre ++ t) (pre.size + o) {} = shResNa pre.size {} (parseNameAddrPVal h t o {}) :=
  parseNameAddrPVal_shift h pre t o {} hfit (NaShiftEntry_new t o ho)

theorem shResNa_new (k : Nat) (r : Nat × Err × PFromBody) :
    shResNa k {} r = (k + r.1, r.2.1, if naWrote r.2.1 then shNa k r.2.2 else { shNa k r.2.2 with soffs := 0 }) := rfl

/-- what the translation does to a finished object: display name, tag and parameter list moved unless not set
    (zero value), URI and value moved, everything else unchanged -/
theorem shNa_fin (k : Nat) (pf : PFromBody) (hf : pf.state = .fin) :
    shNa k pf = { pf with name := shO k pf.name, uri := shF k pf.uri, tag := shO k pf.tag, params := shP k pf.params,
                          v := shF k pf.v, errOffs := shZ k pf.errOffs, pstart := shZ k pf.pstart,
                          pend := shZ k pf.pend, vstart := shZ k pf.vstart, vend := shZ k pf.vend } := by
  simp only [shNa, shB, shS, hf, uriSet, vSet, sPos, ↓reduceIte, Bool.false_eq_true]

/-- **what a caller sees** when a value parsed from a new object is complete (OK / MoreValues): the same verdict, the
    returned offset moved by `k`, URI and value moved by `k`, display name / tag / parameter list moved by `k` unless
    absent (zero value), and every number, flag, the type, the parameter error and the panic flag unchanged -/
theorem parseNameAddrPVal_shift_reported (h : Nat) (pre t : Buf) (o : Nat) (ho : o ≤ t.size)
    (hfit : pre.size + t.size ≤ 65535) {o' : Nat} {e : Err} {pf' : PFromBody}
    (hr : parseNameAddrPVal h t o {} = (o', e, pf')) (hc : Err.complete e) :
    ∃ pf'', parseNameAddrPVal h (pre ++ t) (pre.size + o) {} = (pre.size + o', e, pf'') ∧
      pf''.uri = shF pre.size pf'.uri ∧ pf''.v = shF pre.size pf'.v ∧ pf''.name = shO pre.size pf'.name ∧
      pf''.tag = shO pre.size pf'.tag ∧ pf''.params = shP pre.size pf'.params ∧
      pf''.q = pf'.q ∧ pf''.expires = pf'.expires ∧ pf''.hasExpires = pf'.hasExpires ∧ pf''.lr = pf'.lr ∧
      pf''.star = pf'.star ∧ pf''.type = pf'.type ∧ pf''.paramErr = pf'.paramErr ∧ pf''.state = .fin ∧
      pf''.pnc = pf'.pnc := by
  have hfin := (parseNameAddrPVal_post h t o {} hr hc).1
  have hw : naWrote e = true := by rcases hc with hc | hc <;> subst hc <;> rfl
  have hs := parseNameAddrPVal_shift h pre t o {} hfit (NaShiftEntry_new t o ho)
  rw [shNa_new, hr] at hs
  refine ⟨shNa pre.size pf', ?_, ?_⟩
  · rw [hs]; unfold shResNa; simp only [hw, ↓reduceIte]
  · rw [shNa_fin _ _ hfin]
    exact ⟨rfl, rfl, rfl, rfl, rfl, rfl, rfl, rfl, rfl, rfl, rfl, rfl, hfin, rfl⟩

theorem get?_zero_field (b : Buf) (f : PField) (h0 : f.offs = 0) (hl : f.len = 0) : f.get? b = some #[] := by
  unfold PField.get? PField.endT trunc16
  rw [h0, hl]
  simp

theorem get?_shO (pre t : Buf) (f : PField) (hin : f.inside t.size) (hfit : pre.size + t.size ≤ 65535) :
    (shO pre.size f).get? (pre ++ t) = f.get? t := by
  unfold shO
  split
  · rename_i hz
    rw [get?_zero_field _ f hz.1 hz.2, get?_zero_field _ f hz.1 hz.2]
  · exact get?_shiftF pre t f hin hfit

theorem get?_shP (pre t : Buf) (f : PField) (hin : f.inside t.size) (hfit : pre.size + t.size ≤ 65535)
    (hp : f.offs = 0 → f.len = 0) :
    (shP pre.size f).get? (pre ++ t) = f.get? t := by
  unfold shP
  split
  · rename_i hz
    rw [get?_zero_field _ f hz (hp hz), get?_zero_field _ f hz (hp hz)]
  · exact get?_shiftF pre t f hin hfit

/-- … and the reported fields of the moved object denote the same bytes (URI, value, display name, tag) -/
theorem parseNameAddrPVal_shift_bytes (h : Nat) (pre t : Buf) (o : Nat) (ho : o ≤ t.size)
    (hfit : pre.size + t.size ≤ 65535) {o' : Nat} {e : Err} {pf' : PFromBody}
    (hr : parseNameAddrPVal h t o {} = (o', e, pf')) (hc : Err.complete e) :
    ∃ pf'', parseNameAddrPVal h (pre ++ t) (pre.size + o) {} = (pre.size + o', e, pf'') ∧
      pf''.uri.get? (pre ++ t) = pf'.uri.get? t ∧ pf''.v.get? (pre ++ t) = pf'.v.get? t ∧
      pf''.name.get? (pre ++ t) = pf'.name.get? t ∧ pf''.tag.get? (pre ++ t) = pf'.tag.get? t := by
  obtain ⟨pf'', h1, h2, h3, h4, h5, _⟩ := parseNameAddrPVal_shift_reported h pre t o ho hfit hr hc
  have hout := (parseNameAddrPVal_safe h t o {} (NaEntry_new t o ho) hr).1
  have hle := hout.ho
  refine ⟨pf'', h1, ?_, ?_, ?_, ?_⟩
  · rw [h2]; exact get?_shiftF pre t _ (PField.inside_mono hout.uri hle) hfit
  · rw [h3]; exact get?_shiftF pre t _ (PField.inside_mono hout.v hle) hfit
  · rw [h4]; exact get?_shO pre t _ (PField.inside_mono hout.name hle) hfit
  · rw [h5]; exact get?_shO pre t _ (PField.inside_mono hout.tag hle) hfit


/-! ### after MoreBytes the returned object is again a legitimate argument -/

theorem NaPos.saveS {i : Nat} {pf : PFromBody} (h : NaPos i pf) : NaPos i pf.saveS :=
  ⟨h.pos, h.sLt, h.started, h.vstarted, h.vsLe, h.g1, h.g2⟩

theorem naLWS_more (h : Nat) (b : Buf) (i : Nat) (pf : PFromBody) (hP : NaPos i pf) {o : Nat} {st' : PFromBody}
    (hs : naLWS h b i pf = .done o .moreBytes st') : NaPos o st' := by
  unfold naLWS lwsStd at hs
  rcases hsk : skipLWS b i 0 with ⟨n, crl, e⟩
  rw [hsk] at hs
  have hr := (skipLWS_range b i 0 hsk).1
  cases e <;> simp only at hs
  case eoh =>
    simp only [Step.done.injEq] at hs
    exact absurd hs.2.1 (naEOH_ne_more h b pf i n crl .ok (by decide))
  case moreBytes => cases hs; exact (hP.mono hr).saveS
  all_goals cases hs

theorem naMoreValues_not_more (h : Nat) (b : Buf) (pf : PFromBody) (i : Nat) {o : Nat} {st' : PFromBody} :
    naMoreValues h b pf i ≠ .done o .moreBytes st' := by
  unfold naMoreValues
  intro hs
  simp only [Step.done.injEq] at hs
  exact absurd hs.2.1 (naEOH_ne_more h b pf i i 1 .moreValues (by decide))

theorem naCommaAfterWS_not_more (h : Nat) (b : Buf) (pf : PFromBody) (i e : Nat) {o : Nat} {st' : PFromBody} :
    naCommaAfterWS h b pf i e ≠ .done o .moreBytes st' := by
  unfold naCommaAfterWS
  intro hs
  split at hs
  · simp only [Step.done.injEq] at hs
    exact absurd hs.2.1 (naEOH_ne_more h b pf e i 1 .moreValues (by decide))
  · cases hs

theorem naStepA_more (h : Nat) (b : Buf) (i : Nat) (c : UInt8) (pf : PFromBody)
    (hg : pf.state = .init ∨ pf.state = .name ∨ pf.state = .nameOrURI ∨ pf.state = .nameOrURIEnd)
    (hP : NaPos i pf) {o : Nat} {st' : PFromBody} (hs : naStepA h b i c pf = .done o .moreBytes st') : NaPos o st' := by
  have hP' := hP
  obtain ⟨p1, p2, p3, p4, p5, p6, p7⟩ := hP
  unfold naStepA at hs
  rcases hg with hst | hst | hst | hst
  all_goals
    pos_hyps hst p1 p2 p3 p4
    st_hs hst hs
    repeat' (split at hs)
    all_goals first
      | exact naLWS_more h b i _ hP' hs
      | (refine naLWS_more h b i _ ?_ hs; pos_tac)
      | exact absurd hs (naMoreValues_not_more h b _ i)
      | cases hs

theorem naStepQ_more (h : Nat) (b : Buf) (i : Nat) (c : UInt8) (pf : PFromBody)
    (hP : NaPos i pf) {o : Nat} {st' : PFromBody} (hs : naStepQ h b i c pf = .done o .moreBytes st') : NaPos o st' := by
  unfold naStepQ at hs
  repeat' (split at hs)
  all_goals first
    | exact naLWS_more h b i _ hP hs
    | (cases hs; exact hP.saveS)
    | cases hs

theorem naStepU_more (i : Nat) (c : UInt8) (pf : PFromBody) {o : Nat} {st' : PFromBody}
    (hs : naStepU i c pf = .done o .moreBytes st') : NaPos o st' := by
  unfold naStepU at hs
  repeat' (split at hs)
  all_goals cases hs

theorem naStepUF_more (h : Nat) (b : Buf) (i : Nat) (c : UInt8) (pf : PFromBody)
    (hP : NaPos i pf) {o : Nat} {st' : PFromBody} (hs : naStepUF h b i c pf = .done o .moreBytes st') : NaPos o st' := by
  unfold naStepUF at hs
  repeat' (split at hs)
  all_goals first
    | exact naLWS_more h b i _ hP hs
    | exact absurd hs (naMoreValues_not_more h b _ i)
    | cases hs

theorem naStepStar_more (h : Nat) (b : Buf) (i : Nat) (c : UInt8) (pf : PFromBody)
    (hP : NaPos i pf) {o : Nat} {st' : PFromBody} (hs : naStepStar h b i c pf = .done o .moreBytes st') : NaPos o st' := by
  unfold naStepStar at hs
  split at hs
  · exact naLWS_more h b i _ hP hs
  · cases hs

theorem naStepPE_more (h : Nat) (b : Buf) (i : Nat) (c : UInt8) (pf : PFromBody) {o : Nat} {st' : PFromBody}
    (hs : naStepPE h b i c pf = .done o .moreBytes st') : NaPos o st' := by
  unfold naStepPE at hs
  repeat' (split at hs)
  all_goals first
    | exact absurd hs (naCommaAfterWS_not_more h b _ i _)
    | cases hs

theorem naStepVE_more (h : Nat) (b : Buf) (i : Nat) (c : UInt8) (pf : PFromBody) {o : Nat} {st' : PFromBody}
    (hs : naStepVE h b i c pf = .done o .moreBytes st') : NaPos o st' := by
  unfold naStepVE at hs
  repeat' (split at hs)
  all_goals first
    | exact absurd hs (naCommaAfterWS_not_more h b _ i _)
    | cases hs

theorem naStepP_more (h : Nat) (b : Buf) (i : Nat) (c : UInt8) (pf : PFromBody)
    (hP : NaPos i pf) {o : Nat} {st' : PFromBody} (hs : naStepP h b i c pf = .done o .moreBytes st') : NaPos o st' := by
  unfold naStepP at hs
  split at hs
  · rcases hsk : skipLWS b i 0 with ⟨n, crl, e⟩
    rw [hsk] at hs
    cases e <;> simp only at hs
    case eoh =>
      simp only [Step.done.injEq] at hs
      exact absurd hs.2.1 (naEOH_ne_more h b _ i n crl .ok (by decide))
    case moreBytes => cases hs; exact hP.saveS
    all_goals cases hs
  · repeat' (split at hs)
    all_goals first
      | exact absurd hs (naMoreValues_not_more h b _ i)
      | cases hs

theorem naStepV_more (h : Nat) (b : Buf) (i : Nat) (c : UInt8) (pf : PFromBody)
    (hP : NaPos i pf) {o : Nat} {st' : PFromBody} (hs : naStepV h b i c pf = .done o .moreBytes st') : NaPos o st' := by
  unfold naStepV at hs
  split at hs
  · rcases hsk : skipLWS b i 0 with ⟨n, crl, e⟩
    rw [hsk] at hs
    cases e <;> simp only at hs
    case eoh =>
      simp only [Step.done.injEq] at hs
      exact absurd hs.2.1 (naEOH_ne_more h b _ i n crl .ok (by decide))
    case moreBytes => cases hs; exact hP.saveS
    all_goals cases hs
  · repeat' (split at hs)
    all_goals first
      | exact absurd hs (naMoreValues_not_more h b _ i)
      | cases hs

/-- a step that asks for more bytes leaves an object satisfying the invariant on set positions -/
theorem naStep_more (h : Nat) (b : Buf) (i : Nat) (c : UInt8) (pf : PFromBody) (hP : NaPos i pf)
    {o : Nat} {st' : PFromBody} (hs : naStep h b i c pf = .done o .moreBytes st') : NaPos o st' := by
  unfold naStep at hs
  split at hs
  all_goals first
    | exact naStepA_more h b i c pf (by simp [*]) hP hs
    | exact naStepQ_more h b i c pf hP hs
    | exact naStepU_more i c pf hs
    | exact naStepUF_more h b i c pf hP hs
    | exact naStepP_more h b i c pf hP hs
    | exact naStepPE_more h b i c pf hs
    | exact naStepV_more h b i c pf hP hs
    | exact naStepVE_more h b i c pf hs
    | exact naStepStar_more h b i c pf hP hs
    | cases hs

/-- **after MoreBytes the returned object satisfies the hypothesis of `parseNameAddrPVal_shift` again** (at the
    returned offset, in any longer buffer position-independence can be applied to the resumed call) -/
theorem parseNameAddrPVal_shiftEntry (h : Nat) (t : Buf) (o : Nat) (pf : PFromBody) (hfit : t.size ≤ 65535)
    (hE : NaShiftEntry t o pf) {o' : Nat} {pf' : PFromBody}
    (hr : parseNameAddrPVal h t o pf = (o', Err.moreBytes, pf')) : NaShiftEntry t o' pf' := by
  by_cases hf : pf.state = .fin
  · unfold parseNameAddrPVal at hr
    rw [if_pos hf] at hr
    cases hr
  · rcases hE with hE | hE
    · exact absurd hE hf
    · have hsafe := (parseNameAddrPVal_safe h t o pf (Or.inr ⟨hf, hE.1⟩) hr).2 rfl
      rcases hsafe with hsafe | hsafe
      · exact Or.inl hsafe.1
      · right
        refine ⟨hsafe.2, ?_⟩
        rw [parseNameAddrPVal_notfin h t o pf hf] at hr
        have key := runLoop_inv (naMachine h) t (fun i st => NaSafe t i st ∧ NaPos i st)
          (fun r => r.2.1 = .moreBytes → NaPos r.1 r.2.2 ∧ r.2.2.soffs = r.2.2.s)
          (by
            intro i c st i' st' hb hI hs
            refine ⟨fun hlt => ⟨na_safeCont h t i c st i' st' hb hI.1 hs hlt, na_posCont h t i c st hb hfit hI.2 hs⟩,
              fun _ hh => by cases hh⟩)
          (by
            intro i c st o1 e1 st1 hb hI hs hm
            simp only at hm
            subst hm
            exact ⟨naStep_more h t i c st hI.2 hs, ((naStep_done h t i c st hb hI.1 hs).2 rfl).2⟩)
          (by
            intro i st _ hI _
            exact ⟨hI.2.saveS, rfl⟩)
          o (naLoad pf) hE
        rcases hl : runLoop (naMachine h) t o (naLoad pf) with ⟨o1, e1, p1⟩
        rw [hl] at key hr
        simp only [naWrap, Prod.mk.injEq] at hr
        obtain ⟨rfl, rfl, rfl⟩ := hr
        obtain ⟨k1, k2⟩ := key rfl
        simp only at k1 k2
        have e0 : naLoad (naExit pf.soffs Err.moreBytes p1) = { p1 with soffs := 0 } := by
          show ({ p1 with s := p1.soffs, soffs := 0 } : PFromBody) = { p1 with soffs := 0 }
          rw [k2]
        rw [e0]
        exact ⟨k1.pos, k1.sLt, k1.started, k1.vstarted, k1.vsLe, k1.g1, k1.g2⟩


theorem NaSafe.append {b : Buf} {i : Nat} {pf : PFromBody} (h : NaSafe b i pf) (s : Buf) : NaSafe (b ++ s) i pf :=
  ⟨⟨by have := h.hi; rw [Array.size_append]; omega, h.pend, h.vend, h.s, h.name, h.uri, h.tag, h.params, h.v, h.pnc⟩,
    h.endP, h.endV⟩

theorem NaShiftEntry.append {t : Buf} {o : Nat} {pf : PFromBody} (h : NaShiftEntry t o pf) (s : Buf) :
    NaShiftEntry (t ++ s) o pf := by
  rcases h with h | h
  · exact Or.inl h
  · exact Or.inr ⟨h.1.append s, h.2⟩

/-- **the resumed call is position independent too**: a value that ran out of bytes in `t` (parsed from a new object)
    and is resumed, at the returned offset and with the returned object, once more bytes `s` have arrived -/
theorem parseNameAddrPVal_shift_resume (h : Nat) (pre t s : Buf) (o : Nat) (ho : o ≤ t.size)
    (hfit : pre.size + (t ++ s).size ≤ 65535) {o1 : Nat} {pf1 : PFromBody}
    (hr : parseNameAddrPVal h t o {} = (o1, Err.moreBytes, pf1)) :
    parseNameAddrPVal h (pre ++ (t ++ s)) (pre.size + o1) (shNa pre.size pf1) =
      shResNa pre.size pf1 (parseNameAddrPVal h (t ++ s) o1 pf1) :=
  parseNameAddrPVal_shift h pre (t ++ s) o1 pf1 hfit
    ((parseNameAddrPVal_shiftEntry h t o {} (by rw [Array.size_append] at hfit; omega) (NaShiftEntry_new t o ho) hr).append s)

/-! ### non-vacuity (tests) -/

-- a complete From value with display name, tag and a trailing parameter, after 3 junk bytes
example : parseNameAddrPVal HdrFrom ("xyz".toUTF8.data ++ "\"A\" <sip:a@b>;tag=x1;q=0.5\r\nX".toUTF8.data) 3 {} =
    shRes 3 (shNa 3) (parseNameAddrPVal HdrFrom "\"A\" <sip:a@b>;tag=x1;q=0.5\r\nX".toUTF8.data 0 {}) := by decide +kernel
example : (parseNameAddrPVal HdrFrom "\"A\" <sip:a@b>;tag=x1;q=0.5\r\nX".toUTF8.data 0 {}).2.1 = Err.ok := by decide +kernel
-- the text starts at offset 0 with a bare URI and runs out inside a parameter: restart offset 0 becomes 3
example : parseNameAddrPVal HdrContact ("xyz".toUTF8.data ++ "a ;x=1".toUTF8.data) 3 {} =
    shRes 3 (shNa 3) (parseNameAddrPVal HdrContact "a ;x=1".toUTF8.data 0 {}) := by decide +kernel
example : (parseNameAddrPVal HdrContact "a ;x=1".toUTF8.data 0 {}).2.1 = Err.moreBytes ∧
    (parseNameAddrPVal HdrContact "a ;x=1".toUTF8.data 0 {}).2.2.soffs = 0 ∧
    (parseNameAddrPVal HdrContact ("xyz".toUTF8.data ++ "a ;x=1".toUTF8.data) 3 {}).2.2.soffs = 3 := by decide +kernel
-- an error verdict: the stale restart offset is not moved (`shResNa`), although the state reached moves `s`
example : parseNameAddrPVal HdrFrom ("xyz".toUTF8.data ++ "a <b<".toUTF8.data) 3 {} =
    shResNa 3 {} (parseNameAddrPVal HdrFrom "a <b<".toUTF8.data 0 {}) := by decide +kernel
example : (parseNameAddrPVal HdrFrom "a <b<".toUTF8.data 0 {}).2.1 = Err.badChar := by decide +kernel
example : parseNameAddrPVal HdrFrom ("xyz".toUTF8.data ++ "a <b<".toUTF8.data) 3 {} ≠
    shRes 3 (shNa 3) (parseNameAddrPVal HdrFrom "a <b<".toUTF8.data 0 {}) := by decide +kernel


-- "a ;x=1" runs out of bytes; resumed on "a ;x=1;tag=z\r\nX" after 3 junk bytes with the moved object
example :
    let r1 := parseNameAddrPVal HdrFrom "a ;x=1".toUTF8.data 0 {}
    r1.2.1 = Err.moreBytes ∧
    parseNameAddrPVal HdrFrom ("xyz".toUTF8.data ++ "a ;x=1;tag=z\r\nX".toUTF8.data) (3 + r1.1) (shNa 3 r1.2.2) =
      shRes 3 (shNa 3) (parseNameAddrPVal HdrFrom "a ;x=1;tag=z\r\nX".toUTF8.data r1.1 r1.2.2) ∧
    (parseNameAddrPVal HdrFrom "a ;x=1;tag=z\r\nX".toUTF8.data r1.1 r1.2.2).2.1 = Err.ok := by decide +kernel


end Sipsp
