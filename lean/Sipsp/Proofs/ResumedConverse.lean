/-
  Sipsp.Proofs.ResumedConverse — the ONE-CALL converse / soundness theorems of C09 (name-addr values, value lists) and
  C07 (header lines, header blocks) carried over to chains of RESUMED calls: EVERY chunk schedule.

  Setting.  `l : List Buf` with `Growing l` = the prefixes of the input the caller had in hand at the successive calls
  (any number of cuts, anywhere); `B` = the last one (`l.getLast? = some B`), the whole input; `resumeRun P o st l` = the
  caller's loop (call, on "more bytes" call again on the next prefix with the returned offset and object).  The start
  offset lies inside the first chunk (`∀ b ∈ l.head?, o ≤ b.size`); only `B` has to be within the 65,535-byte limit.
  Method (no new automaton proof): the schedule theorems of C02 (`RR`: the chain returns the offset and verdict of the
  fresh calls and, unless the verdict is an error, the very same object) + the L1 stability theorems (a definitive result
  on a prefix is the result on every extension) give
     `rc_chain_last`:  a chain that ends with OK / "more values" / "empty" / "more bytes" returns EXACTLY the triple of ONE
                       call on the whole buffer `B`
  (`rc_oneShot_last`, `rc_chain_last_obs` for the other verdicts: same offset, verdict, observable object), and the
  one-call theorems speak about that triple.  Instances: `rc_nameaddr_last`, `rc_contacts_last`, `rc_pais_last`,
  `rc_hdrline_last(_from)`, `rc_headers_last_from`; the converses `rc_hdrline_of_oneshot_from`, `rc_headers_of_oneshot_from`
  (what one call on `B` answers with a non-error verdict, every chain answers).

  EXPORT C09
  (2) value level, ParseNameAddrPVal of every kind, new object:
      `rc_value_more_schedule`  (= `value_ends_at_first_top_comma` over a schedule): the chain ends with "more values" at
          `o'` ⇒ in `B` the byte before `o'` is a comma at top level and NO top-level comma occurs before it;
      `rc_value_ok_schedule`    (= `value_ok_no_top_comma` over a schedule): OK at `o'` ⇒ `o'` follows a line end not
          followed by SP / HT and (kinds with several values) `[o, o')` has no top-level comma;
      both also give `parseNameAddrPVal h B o {} = (o', verdict, the chain's object)`, so every one-call statement about
      the reported object (C09 `value_span_end`, `value_span_start`, `value_nonempty`, …) applies to the chain's object;
      `rc_single_never_more_schedule`; `rc_nameaddr_schedule` (C02 `schedule_nameaddr` in the relational form `RR`).
  (1) list level, ParseAllContactValues (new object, cleared array of ANY capacity) / ParseAllPAIValues (new object):
      `rc_contact_list_converse_schedule`, `rc_pai_list_converse_schedule` (= `contact_list_converse` /
      `pai_list_converse` over a schedule): the last call answers OK ⇒ in `B` the value text is cut at exactly its
      top-level commas (`NsSegs`), each `V` inside its piece and starting at its first non-white-space byte, N = number of
      pieces = 1 + number of top-level commas, stored values = the reports for the first pieces in order, max / min
      expires over ALL pieces; `rc_contact_list_segments_schedule`, `rc_pai_list_segments_schedule` (no size limit).
  (3) header lines, blocks, messages.  One call first — NEW one-call theorems, by composition of
      `hs_line_name_type_sound`, `ht_line_contact` / `ht_line_pai`, `contactsLoop_segs` / `paisLoop_segs` and a frame
      lemma for the value dispatch (`rc_parseBody_frame`):
      `rc_line_lists`  (ParseHdrLine, EVERY input): an accepted line has the right name and type and did to the two value
          lists what `RcLine` says: a Contact (P-Asserted-Identity) line handed to the list exactly the value parser's
          reports for the pieces of the text after its colon (`NsSegs`, object = `htLine` of the old one), any other line
          left BOTH lists exactly as they were;
      `rc_block_lists` (ParseHeaders, EVERY input): OK ⇒ `RcBlock`: a chain of such lines, then the empty line;
          `RcBlock.lists`: final contacts = old `.htLines` (piece values of the Contact lines, in order), likewise the
          identities — so C09 `contact_lines_*`, `pai_lines_*` read N / HNo / stored values / expires off the PIECES;
      `rc_msg_lists`, `rc_msg_lists_init` (ParseSIPMsg from the initial state / from Init, EVERY input).
      Then every schedule: `rc_line_lists_schedule` (ParseHdrLine, any legitimate values object whose lists are between
      lines; `rc_newHv_ok`: a new one qualifies), `rc_block_lists_schedule` (ParseHeaders, new list / new values object
      of any capacities), `rc_msg_lists_schedule_init` (ParseSIPMsg from Init, through `flo_schedule_init`: stated in
      the buffer of the call that finished) and `rc_msg_lists_schedule_whole` (the same stated in the WHOLE buffer `B`:
      `RcBlock.app` — the statement survives appending bytes).
  EXPORT C07
  (4) `rc_line_sound_schedule(_from)`, `rc_line_sound_explicit_schedule`, `rc_line_ok_iff_schedule`,
      `rc_line_empty_schedule_from`, `rc_line_verdicts_schedule` (= `line_sound`, `line_sound_explicit`, `line_ok_iff`,
      `line_empty`, `line_verdicts` over a schedule; generic treatment: no values object, or the name at `o` in `B` is not
      one of the eight typed kinds), `rc_line_name_type_schedule_from`, `rc_line_sound_reported_schedule_from` (ANY values
      object, typed lines included, suspended anywhere);
      `rc_block_sound_schedule(_from)`, `rc_block_ok_iff_schedule`, `rc_block_report_schedule`,
      `rc_block_verdicts_schedule` (`HsGeneric B o hb`), `rc_block_all_report_schedule_from` (ANY values object);
      typed kinds with a values object, the value suspended ANYWHERE: `rc_typed_from_schedule`, `_to_`, `_callid_`,
      `_cseq_`, `_clen_`, `_expires_`, `_contact_`, `_pai_` (= `typed_*` of C07: the chain returns the verdict and offset
      of the value parser run on `B` after the colon with the ORIGINAL component, the header `htHdr`, the values object
      changed in that one component only), `rc_from_value_schedule`, `rc_to_value_schedule`,
      `rc_contact_values_schedule`, `rc_pai_values_schedule` (C09 grammars), `rc_typed_block_schedule` (= `typed_block`).
  The `_from` forms take any values object `hb` with `hbOK x o hb` on every chunk `x` (each component new, finished, or
  suspended before `o`: what ParseHeaders passes on between lines); the others a new values object whose contact array
  has any capacity, or none (`rcHb nil kc`).

  NOT proved here: chains whose FIRST call already starts inside a line / value (objects other than new ones at the
  start; C02 `resume_*` covers single steps); error verdicts at the end of a chain beyond offset, verdict and observable
  object (`rc_chain_last_obs`); the message-level statement for schedules whose chunks exceed 65,535 bytes; which header
  index a Contact line has in the header list (`RcBlock` lists the lines in order with their events, `evs.length =
  hs.length`); soundness of the VALUE part of From / To / Call-ID / CSeq / Content-Length / Expires lines beyond what
  their value parsers' own theorems say (`rc_typed_*` reduce the chain to the value parser on `B`).
  Non-vacuity / tests (section F, closed computations): a Contact list cut INSIDE a quoted string (`rcExACuts`), a From
  value cut INSIDE the tag (`rcExFCuts`), a header block cut in the Contact value, the Via line and the From tag
  (`rcExHCuts`), a whole message (`rcExMCuts`): every hypothesis of the schedule theorems holds of them.
-/
import Sipsp.Proofs.AuditFixB
import Sipsp.Proofs.NaSplit
import Sipsp.Proofs.HdrSound
import Sipsp.Proofs.HdrTyped
import Sipsp.Proofs.PaiLines
import Sipsp.Proofs.MsgLastFlags

namespace Sipsp

/-! ### A. generic: a chain of resumed calls over growing prefixes ends in the triple of ONE call on the last prefix -/

section generic
variable {σ τ : Type}

/-- the fresh one-shot calls reduce to ONE call on the last buffer when every definitive result on a buffer of the list
    is also the result on every extension of that buffer (L1) -/
theorem rc_oneShot_last (P : Parser σ) (o : Nat) (st : σ) (l : List Buf) (hg : Growing l) (B : Buf)
    (hB : l.getLast? = some B)
    (hst : ∀ x ∈ l, ∀ s o' e st', P x o st = (o', e, st') → e ≠ .moreBytes → P (x ++ s) o st = (o', e, st')) :
    oneShotRun P o st l = P B o st := by
  induction l with
  | nil => cases hB
  | cons b rest ih =>
    cases rest with
    | nil =>
      simp only [List.getLast?_singleton, Option.some.injEq] at hB
      subst hB; rfl
    | cons b' rest' =>
      have hB' : (b' :: rest').getLast? = some B := by
        rw [List.getLast?_cons_cons] at hB; exact hB
      have ih' := ih (growing_tail hg) hB' (fun x hx => hst x (List.mem_cons_of_mem _ hx))
      obtain ⟨t, ht⟩ := growing_ext hg B (List.mem_of_getLast? hB')
      simp only [oneShotRun]
      rcases hp : P b o st with ⟨o1, e1, s1⟩
      have hb := hst b List.mem_cons_self t o1 e1 s1 hp
      rw [← ht] at hb
      cases e1 <;> first | exact ih' | exact (hb (fun h => by cases h)).symm

/-- **transfer**: if the chain of resumed calls is related to the fresh calls by `RR` (the schedule theorems of C02)
    and definitive results are stable under extension, a chain that ends with a verdict after which parsing goes on
    (OK, MoreBytes, MoreValues, Empty) ends with EXACTLY the triple of one call on the last buffer -/
theorem rc_chain_last (P : Parser σ) (obs : σ → τ) (o : Nat) (st : σ) (l : List Buf) (hg : Growing l) (B : Buf)
    (hB : l.getLast? = some B)
    (hrr : RR obs (resumeRun P o st l) (oneShotRun P o st l))
    (hst : ∀ x ∈ l, ∀ s o' e st', P x o st = (o', e, st') → e ≠ .moreBytes → P (x ++ s) o st = (o', e, st'))
    (hgo : Err.goesOn (resumeRun P o st l).2.1) : resumeRun P o st l = P B o st := by
  have h1 := rc_oneShot_last P o st l hg B hB hst
  have h2 := hrr.eq (by rw [← hrr.2.1]; exact hgo)
  rw [h2, h1]

/-- the same up to the observation, for any verdict -/
theorem rc_chain_last_obs (P : Parser σ) (obs : σ → τ) (o : Nat) (st : σ) (l : List Buf) (hg : Growing l) (B : Buf)
    (hB : l.getLast? = some B)
    (hrr : ResEq obs (resumeRun P o st l) (oneShotRun P o st l))
    (hst : ∀ x ∈ l, ∀ s o' e st', P x o st = (o', e, st') → e ≠ .moreBytes → P (x ++ s) o st = (o', e, st')) :
    ResEq obs (resumeRun P o st l) (P B o st) := by
  rw [← rc_oneShot_last P o st l hg B hB hst]; exact hrr

/-- every buffer of a growing list is at least as long as the first one -/
theorem rc_growing_size {l : List Buf} (hg : Growing l) {o : Nat} (h0 : ∀ b ∈ l.head?, o ≤ b.size) :
    ∀ x ∈ l, o ≤ x.size := by
  cases l with
  | nil => intro x hx; cases hx
  | cons b rest =>
    intro x hx
    obtain ⟨s, rfl⟩ := mlf_growing_head hg x hx
    have := h0 b (by simp)
    rw [Array.size_append]; omega

end generic

/-! ### B. ParseNameAddrPVal (every header kind) over a chunk schedule, from a new object -/

theorem rc_nameaddr_resumableR (t : Nat) : ResumableR (parseNameAddrPVal t) naOK PFromBody.obs := by
  intro b s o st o' st' hI hr
  obtain ⟨h1, h2, _⟩ := parseNameAddrPVal_resumeR t b s o st hI hr
  exact ⟨h1, h2⟩

/-- every chunk schedule, ParseNameAddrPVal, from a new object: offset and verdict of the fresh calls, the very same
    object unless the verdict is an error (C02 `schedule_nameaddr` in the relational form) -/
theorem rc_nameaddr_schedule (t o : Nat) (l : List Buf) (hg : Growing l) (h0 : ∀ b ∈ l.head?, o ≤ b.size) :
    RR PFromBody.obs (resumeRun (parseNameAddrPVal t) o {} l) (oneShotRun (parseNameAddrPVal t) o {} l) :=
  resumeRun_eq_oneShotR (parseNameAddrPVal t) naOK PFromBody.obs (rc_nameaddr_resumableR t) o {} l hg
    (fun b hb => naOK_new b o (h0 b hb))

/-- **the chain of resumed calls ends in the triple of ONE call on the whole buffer** (verdicts OK, "more values",
    "more bytes") -/
theorem rc_nameaddr_last (t o : Nat) (l : List Buf) (hg : Growing l) (B : Buf) (hB : l.getLast? = some B)
    (h0 : ∀ b ∈ l.head?, o ≤ b.size) (hgo : Err.goesOn (resumeRun (parseNameAddrPVal t) o {} l).2.1) :
    resumeRun (parseNameAddrPVal t) o {} l = parseNameAddrPVal t B o {} :=
  rc_chain_last (parseNameAddrPVal t) PFromBody.obs o {} l hg B hB (rc_nameaddr_schedule t o l hg h0)
    (fun x hx s _ _ _ hp he =>
      parseNameAddrPVal_stable t x s o {} (naOK_new x o (rc_growing_size hg h0 x hx)) hp he) hgo

/-- **(2a) `value_ends_at_first_top_comma` over EVERY chunk schedule**: if the chain of resumed calls of
    ParseNameAddrPVal (new object; the buffers `l` are growing prefixes, the last one is `B`) ends with "more values" at
    `o'`, then in the WHOLE buffer `B`: the kind has several values, the byte before `o'` is a comma at top level of the
    text that starts at `o`, and no top-level comma occurs before it; the object is the one ONE call on `B` reports -/
theorem rc_value_more_schedule (h o : Nat) (l : List Buf) (hg : Growing l) (B : Buf) (hB : l.getLast? = some B)
    (h0 : ∀ b ∈ l.head?, o ≤ b.size) {o' : Nat} {pf' : PFromBody}
    (hr : resumeRun (parseNameAddrPVal h) o {} l = (o', .moreValues, pf')) :
    parseNameAddrPVal h B o {} = (o', .moreValues, pf') ∧
    multipleValsOk h = true ∧ o < o' ∧ B[o' - 1]? = some 44 ∧ NsTop B o (o' - 1) ∧ NsNoComma B o (o' - 1) := by
  have h1 := rc_nameaddr_last h o l hg B hB h0 (by rw [hr]; exact Or.inr (Or.inr (Or.inl rfl)))
  rw [hr] at h1
  exact ⟨h1.symm, ns_value_more h B o h1.symm⟩

/-- **(2b) `value_ok_no_top_comma` over EVERY chunk schedule**: the chain ends with OK at `o'` ⇒ in the whole buffer
    `o'` follows a line end not followed by SP / HT and (kinds with several values) no top-level comma occurs in
    `[o, o')`; the object is the one ONE call on `B` reports -/
theorem rc_value_ok_schedule (h o : Nat) (l : List Buf) (hg : Growing l) (B : Buf) (hB : l.getLast? = some B)
    (h0 : ∀ b ∈ l.head?, o ≤ b.size) {o' : Nat} {pf' : PFromBody}
    (hr : resumeRun (parseNameAddrPVal h) o {} l = (o', .ok, pf')) :
    parseNameAddrPVal h B o {} = (o', .ok, pf') ∧ NsEol B o o' ∧ (multipleValsOk h = true → NsNoComma B o o') := by
  have h1 := rc_nameaddr_last h o l hg B hB h0 (by rw [hr]; exact Or.inl rfl)
  rw [hr] at h1
  exact ⟨h1.symm, ns_value_ok h B o h1.symm⟩

/-- a kind with a single value never answers "more values", also at the end of a chain of resumed calls -/
theorem rc_single_never_more_schedule (h : Nat) (hmv : multipleValsOk h = false) (o : Nat) (l : List Buf)
    (hg : Growing l) (hne : l ≠ []) (h0 : ∀ b ∈ l.head?, o ≤ b.size) :
    (resumeRun (parseNameAddrPVal h) o {} l).2.1 ≠ .moreValues := by
  intro hm
  obtain ⟨B, hB⟩ : ∃ B, l.getLast? = some B := by
    cases hq : l.getLast? with
    | none => exact absurd (List.getLast?_eq_none_iff.1 hq) hne
    | some B => exact ⟨B, rfl⟩
  have h1 := rc_nameaddr_last h o l hg B hB h0 (by rw [hm]; exact Or.inr (Or.inr (Or.inl rfl)))
  rw [h1] at hm
  exact ns_single_never_more h hmv B o {} hm

/-! ### C. ParseAllContactValues / ParseAllPAIValues over a chunk schedule, from a new list object -/

theorem rc_contacts_last (o cap : Nat) (l : List Buf) (hg : Growing l) (B : Buf) (hB : l.getLast? = some B)
    (h0 : ∀ b ∈ l.head?, o ≤ b.size)
    (hgo : Err.goesOn (resumeRun parseAllContactValues o { vals := Array.replicate cap {} } l).2.1) :
    resumeRun parseAllContactValues o { vals := Array.replicate cap {} } l =
      parseAllContactValues B o { vals := Array.replicate cap {} } :=
  rc_chain_last parseAllContactValues PContacts.obs o _ l hg B hB (afb_contacts_schedule o cap l hg h0)
    (fun x hx s _ _ _ hp he =>
      parseAllContactValues_stable x s o _ (afb_ctOK_new x o (rc_growing_size hg h0 x hx) cap)
        (rc_growing_size hg h0 x hx) hp he) hgo

theorem rc_pais_last (o : Nat) (l : List Buf) (hg : Growing l) (B : Buf) (hB : l.getLast? = some B)
    (h0 : ∀ b ∈ l.head?, o ≤ b.size) (hgo : Err.goesOn (resumeRun parseAllPAIValues o {} l).2.1) :
    resumeRun parseAllPAIValues o {} l = parseAllPAIValues B o {} :=
  rc_chain_last parseAllPAIValues PPAIs.obs o _ l hg B hB (afb_pais_schedule o l hg h0)
    (fun x hx s _ _ _ hp he =>
      parseAllPAIValues_stable x s o _ (afb_paOK_new x o (rc_growing_size hg h0 x hx))
        (rc_growing_size hg h0 x hx) hp he) hgo

/-- **(1) `contact_list_converse` over EVERY chunk schedule.**  `l` = growing prefixes of the buffer `B` (its last
    element), `B` within the 65,535-byte limit, a new contacts object over a cleared array of ANY capacity `cap`, start
    offset inside the first chunk.  If the LAST call of the chain of resumed calls answers OK at `o'` with object `c'`,
    then `c'` is the object of ONE call on `B`, and in `B` there is a list `L` of pieces (start, reported value):
    the value text is cut at exactly its top-level commas (`NsSegs`), every reported `V` lies inside its piece and starts
    at its first non-white-space byte, `N` = number of pieces = 1 + number of top-level commas of `[o, o')`, the stored
    values are the reports for the first `cap` pieces in order, max / min expires range over ALL pieces. -/
theorem rc_contact_list_converse_schedule (o cap : Nat) (l : List Buf) (hg : Growing l) (B : Buf)
    (hB : l.getLast? = some B) (hfit : B.size ≤ 65535) (h0 : ∀ b ∈ l.head?, o ≤ b.size)
    {o' : Nat} {c' : PContacts}
    (hr : resumeRun parseAllContactValues o { vals := Array.replicate cap {} } l = (o', .ok, c')) :
    parseAllContactValues B o { vals := Array.replicate cap {} } = (o', .ok, c') ∧
    ∃ L : List (Nat × PFromBody), NsSegs HdrContact B o L o' ∧ NsVSpans B L o' ∧
      (∀ x ∈ L, Run isLWSch B x.1 x.2.v.offs) ∧
      c'.n = L.length ∧ c'.n = nsCommaCount B o o' + 1 ∧
      (∀ i (hi : i < L.length), i < cap → c'.vals[i]! = L[i].2) ∧
      c'.maxExpires = L.foldl (fun m x => max m x.2.expires) 0 ∧
      c'.minExpires = L.foldl (fun m x => min m x.2.expires) 4294967295 := by
  have h1 := rc_contacts_last o cap l hg B hB h0 (by rw [hr]; exact Or.inl rfl)
  rw [hr] at h1
  have hoB : o ≤ B.size := rc_growing_size hg h0 B (List.mem_of_getLast? hB)
  exact ⟨h1.symm, parseAllContactValues_new_converse B o cap hfit hoB h1.symm⟩

/-- **(1) `pai_list_converse` over EVERY chunk schedule** (two slots; `N` counts all pieces; no accepted value is `*`) -/
theorem rc_pai_list_converse_schedule (o : Nat) (l : List Buf) (hg : Growing l) (B : Buf)
    (hB : l.getLast? = some B) (hfit : B.size ≤ 65535) (h0 : ∀ b ∈ l.head?, o ≤ b.size)
    {o' : Nat} {c' : PPAIs} (hr : resumeRun parseAllPAIValues o {} l = (o', .ok, c')) :
    parseAllPAIValues B o {} = (o', .ok, c') ∧
    ∃ L : List (Nat × PFromBody), NsSegs HdrPAI B o L o' ∧ NsVSpans B L o' ∧
      (∀ x ∈ L, Run isLWSch B x.1 x.2.v.offs) ∧ (∀ x ∈ L, x.2.star = false) ∧
      c' = ({} : PPAIs).acceptAll (L.map Prod.snd) ∧ c'.n = L.length ∧ c'.n = nsCommaCount B o o' + 1 := by
  have h1 := rc_pais_last o l hg B hB h0 (by rw [hr]; exact Or.inl rfl)
  rw [hr] at h1
  have hoB : o ≤ B.size := rc_growing_size hg h0 B (List.mem_of_getLast? hB)
  exact ⟨h1.symm, parseAllPAIValues_new_converse B o hfit hoB h1.symm⟩

/-- the segments and the count alone (no size limit on the buffer) -/
theorem rc_contact_list_segments_schedule (o cap : Nat) (l : List Buf) (hg : Growing l) (B : Buf)
    (hB : l.getLast? = some B) (h0 : ∀ b ∈ l.head?, o ≤ b.size) {o' : Nat} {c' : PContacts}
    (hr : resumeRun parseAllContactValues o { vals := Array.replicate cap {} } l = (o', .ok, c')) :
    (∃ L, NsSegs HdrContact B o L o' ∧
      c' = ({ vals := Array.replicate cap {} } : PContacts).acceptAll (L.map Prod.snd)) ∧
    c'.n = 1 + nsCommaCount B o o' := by
  have h1 := rc_contacts_last o cap l hg B hB h0 (by rw [hr]; exact Or.inl rfl)
  rw [hr] at h1
  have hnew := ct_new_ok cap
  refine ⟨parseAllContactValues_segs B o _ hnew.1 hnew.2 h1.symm, ?_⟩
  have := parseAllContactValues_count B o _ hnew.1 hnew.2 h1.symm
  rw [this]

theorem rc_pai_list_segments_schedule (o : Nat) (l : List Buf) (hg : Growing l) (B : Buf)
    (hB : l.getLast? = some B) (h0 : ∀ b ∈ l.head?, o ≤ b.size) {o' : Nat} {c' : PPAIs}
    (hr : resumeRun parseAllPAIValues o {} l = (o', .ok, c')) :
    (∃ L, NsSegs HdrPAI B o L o' ∧ c' = ({} : PPAIs).acceptAll (L.map Prod.snd) ∧ ∀ x ∈ L, x.2.star = false) ∧
    c'.n = 1 + nsCommaCount B o o' := by
  have h1 := rc_pais_last o l hg B hB h0 (by rw [hr]; exact Or.inl rfl)
  rw [hr] at h1
  refine ⟨parseAllPAIValues_segs B o _ pa_new_ok.1 pa_new_ok.2 h1.symm, ?_⟩
  have := parseAllPAIValues_count B o _ pa_new_ok.1 pa_new_ok.2 h1.symm
  rw [this]

/-! ### D. ParseHdrLine / ParseHeaders over a chunk schedule (C07)

  `afbHdrLineP` / `afbHeadersP` are ParseHdrLine / ParseHeaders as streaming parsers over the pair (header or header
  list, values object or none).  `rcHb nil kc` = no values object (`nil = true`) or a new one whose contact array has
  capacity `kc`; the `_from` forms take ANY values object that is legitimate at the start offset (`hbOK`: every
  component new, finished, or suspended before the offset — what ParseHeaders hands to ParseHdrLine between lines). -/

/-- no values object, or a new one over a cleared contact array of capacity `kc` -/
def rcHb (nil : Bool) (kc : Nat) : Option PHdrVals := if nil then none else some (afbNewHv kc)

theorem rc_head_mem {l : List Buf} {b : Buf} (hb : b ∈ l.head?) : b ∈ l := by
  cases l with
  | nil => cases hb
  | cons x xs => simp at hb; subst hb; exact List.mem_cons_self

theorem rc_hdrline_schedule_from (o : Nat) (hb : Option PHdrVals) (l : List Buf) (hg : Growing l)
    (hok : ∀ x ∈ l, o ≤ x.size ∧ hbOK x o hb) :
    RR hlObs (resumeRun afbHdrLineP o ({}, hb) l) (oneShotRun afbHdrLineP o ({}, hb) l) :=
  afb_hdrline_schedule_from o {} hb l hg (fun b hbm =>
    ⟨⟨(hok b (rc_head_mem hbm)).1, hdrOK_new b, (hok b (rc_head_mem hbm)).2⟩,
     hlPending_of_not_isVal (by simp [HState.isVal])⟩)

/-- **ParseHdrLine, every chunk schedule, new header object, any legitimate values object**: a chain of resumed calls
    that ends with OK / "empty" / "more bytes" returns EXACTLY (offset, verdict, header, values object) what ONE call on
    the whole buffer returns — also when a typed value (From, CSeq, Contact list, …) was suspended in its middle -/
theorem rc_hdrline_last_from (o : Nat) (hb : Option PHdrVals) (l : List Buf) (hg : Growing l) (B : Buf)
    (hB : l.getLast? = some B) (hok : ∀ x ∈ l, o ≤ x.size ∧ hbOK x o hb)
    (hgo : Err.goesOn (resumeRun afbHdrLineP o ({}, hb) l).2.1) :
    resumeRun afbHdrLineP o ({}, hb) l = parseHdrLine B o {} hb :=
  rc_chain_last afbHdrLineP hlObs o ({}, hb) l hg B hB (rc_hdrline_schedule_from o hb l hg hok)
    (fun x hx s _ _ st' hp he =>
      parseHdrLine_stable x s o {} hb ⟨(hok x hx).1, hdrOK_new x, (hok x hx).2⟩ (h' := st'.1) (hb' := st'.2) hp he) hgo

/-- offset and verdict of the chain are those of ONE call on the whole buffer, whatever the verdict -/
theorem rc_hdrline_verdict_from (o : Nat) (hb : Option PHdrVals) (l : List Buf) (hg : Growing l) (B : Buf)
    (hB : l.getLast? = some B) (hok : ∀ x ∈ l, o ≤ x.size ∧ hbOK x o hb) :
    (resumeRun afbHdrLineP o ({}, hb) l).1 = (parseHdrLine B o {} hb).1 ∧
    (resumeRun afbHdrLineP o ({}, hb) l).2.1 = (parseHdrLine B o {} hb).2.1 := by
  have := rc_chain_last_obs afbHdrLineP hlObs o ({}, hb) l hg B hB (rc_hdrline_schedule_from o hb l hg hok).resEq
    (fun x hx s _ _ st' hp he =>
      parseHdrLine_stable x s o {} hb ⟨(hok x hx).1, hdrOK_new x, (hok x hx).2⟩ (h' := st'.1) (hb' := st'.2) hp he)
  exact ⟨this.1, this.2.1⟩

/-- conversely: whatever ONE call on the whole buffer answers with a verdict that is not an error, the chain answers -/
theorem rc_hdrline_of_oneshot_from (o : Nat) (hb : Option PHdrVals) (l : List Buf) (hg : Growing l) (B : Buf)
    (hB : l.getLast? = some B) (hok : ∀ x ∈ l, o ≤ x.size ∧ hbOK x o hb)
    {e : Nat} {er : Err} {h : Hdr} {hb' : Option PHdrVals} (hp : parseHdrLine B o {} hb = (e, er, h, hb'))
    (hgo : Err.goesOn er) : resumeRun afbHdrLineP o ({}, hb) l = (e, er, h, hb') := by
  have hv := (rc_hdrline_verdict_from o hb l hg B hB hok).2
  rw [hp] at hv
  rw [rc_hdrline_last_from o hb l hg B hB hok (by rw [hv]; exact hgo), hp]

theorem rc_hbOK_all (o kc : Nat) (nil : Bool) {l : List Buf} (hg : Growing l) (h0 : ∀ b ∈ l.head?, o ≤ b.size) :
    ∀ x ∈ l, o ≤ x.size ∧ hbOK x o (rcHb nil kc) :=
  fun x hx => ⟨rc_growing_size hg h0 x hx, afb_hbOK_new x o (rc_growing_size hg h0 x hx) kc nil⟩

/-- … from a new values object (contact array of any capacity) or none -/
theorem rc_hdrline_last (o kc : Nat) (nil : Bool) (l : List Buf) (hg : Growing l) (B : Buf)
    (hB : l.getLast? = some B) (h0 : ∀ b ∈ l.head?, o ≤ b.size)
    (hgo : Err.goesOn (resumeRun afbHdrLineP o ({}, rcHb nil kc) l).2.1) :
    resumeRun afbHdrLineP o ({}, rcHb nil kc) l = parseHdrLine B o {} (rcHb nil kc) :=
  rc_hdrline_last_from o _ l hg B hB (rc_hbOK_all o kc nil hg h0) hgo

/-- **(4) `line_sound` over EVERY chunk schedule** (generic treatment: no values object, or the name at `o` in the whole
    buffer is not one of the eight typed kinds): the chain ends with OK at `e` ⇒ the text at `o` of the WHOLE buffer is
    a header line of the grammar ending at `e`, the reported header is the one it denotes, the values object is
    untouched -/
theorem rc_line_sound_schedule_from (o : Nat) (hb : Option PHdrVals) (l : List Buf) (hg : Growing l) (B : Buf)
    (hB : l.getLast? = some B) (hfit : B.size ≤ 65535) (hok : ∀ x ∈ l, o ≤ x.size ∧ hbOK x o hb)
    (hgen : hb = none ∨ IsOther (getHdrType (B.extract o (skipTokenDelim B o 58))))
    {e : Nat} {h : Hdr} {hb' : Option PHdrVals} (hr : resumeRun afbHdrLineP o ({}, hb) l = (e, .ok, h, hb')) :
    HdrLineAt B o e h ∧ hb' = hb := by
  have h1 := rc_hdrline_last_from o hb l hg B hB hok (by rw [hr]; exact Or.inl rfl)
  rw [hr] at h1
  exact hs_line_sound B o hb hfit hgen h1.symm

theorem rc_line_sound_schedule (o kc : Nat) (nil : Bool) (l : List Buf) (hg : Growing l) (B : Buf)
    (hB : l.getLast? = some B) (hfit : B.size ≤ 65535) (h0 : ∀ b ∈ l.head?, o ≤ b.size)
    (hgen : nil = true ∨ IsOther (getHdrType (B.extract o (skipTokenDelim B o 58))))
    {e : Nat} {h : Hdr} {hb' : Option PHdrVals}
    (hr : resumeRun afbHdrLineP o ({}, rcHb nil kc) l = (e, .ok, h, hb')) :
    HdrLineAt B o e h ∧ hb' = rcHb nil kc :=
  rc_line_sound_schedule_from o _ l hg B hB hfit (rc_hbOK_all o kc nil hg h0)
    (hgen.imp (fun hn => by rw [hn]; rfl) id) hr

/-- the same with the positions spelled out (`line_sound_explicit`) -/
theorem rc_line_sound_explicit_schedule (o kc : Nat) (nil : Bool) (l : List Buf) (hg : Growing l) (B : Buf)
    (hB : l.getLast? = some B) (hfit : B.size ≤ 65535) (h0 : ∀ b ∈ l.head?, o ≤ b.size)
    (hgen : nil = true ∨ IsOther (getHdrType (B.extract o (skipTokenDelim B o 58))))
    {e : Nat} {h : Hdr} {hb' : Option PHdrVals}
    (hr : resumeRun afbHdrLineP o ({}, rcHb nil kc) l = (e, .ok, h, hb')) :
    ∃ n c p, ∃ c2 : UInt8, NameRun B o n ∧ o < n ∧ WsRun B n c ∧ n ≤ c ∧ B[c]? = some 58 ∧ Eol B p e ∧
      B[e]? = some c2 ∧ isWS c2 = false ∧
      h.name = ⟨o, n - o⟩ ∧ h.type = getHdrType (B.extract o n) ∧ h.state = .fin ∧ h.pnc = false ∧
      hb' = rcHb nil kc ∧
      ((∃ v ve, Lws B (c + 1) v ∧ ValRun B v ve p ∧ h.val = ⟨v, ve - v⟩) ∨ (Lws B (c + 1) p ∧ h.val = {})) := by
  have h1 := rc_hdrline_last o kc nil l hg B hB h0 (by rw [hr]; exact Or.inl rfl)
  rw [hr] at h1
  exact hs_line_sound_explicit B o _ hfit (hgen.imp (fun hn => by rw [hn]; rfl) id) h1.symm

/-- **accepted by the chain iff a line of the grammar in the whole buffer** (`line_ok_iff` over every schedule) -/
theorem rc_line_ok_iff_schedule (o kc : Nat) (nil : Bool) (l : List Buf) (hg : Growing l) (B : Buf)
    (hB : l.getLast? = some B) (hfit : B.size ≤ 65535) (h0 : ∀ b ∈ l.head?, o ≤ b.size)
    (hgen : nil = true ∨ IsOther (getHdrType (B.extract o (skipTokenDelim B o 58))))
    (e : Nat) (h : Hdr) (hb' : Option PHdrVals) :
    resumeRun afbHdrLineP o ({}, rcHb nil kc) l = (e, .ok, h, hb') ↔ HdrLineAt B o e h ∧ hb' = rcHb nil kc := by
  constructor
  · exact rc_line_sound_schedule o kc nil l hg B hB hfit h0 hgen
  · intro H
    have hp := (hs_line_ok_iff B o (rcHb nil kc) hfit (hgen.imp (fun hn => by rw [hn]; rfl) id) e h hb').mpr H
    exact rc_hdrline_of_oneshot_from o _ l hg B hB (rc_hbOK_all o kc nil hg h0) hp (Or.inl rfl)

/-- the "empty" verdict at the end of a chain: exactly the empty line of the whole buffer (ANY values object) -/
theorem rc_line_empty_schedule_from (o : Nat) (hb : Option PHdrVals) (l : List Buf) (hg : Growing l) (B : Buf)
    (hB : l.getLast? = some B) (hfit : B.size ≤ 65535) (hok : ∀ x ∈ l, o ≤ x.size ∧ hbOK x o hb)
    {e : Nat} {h : Hdr} {hb' : Option PHdrVals} (hr : resumeRun afbHdrLineP o ({}, hb) l = (e, .empty, h, hb')) :
    EmptyLine B o e ∧ h = { state := .fin } ∧ hb' = hb := by
  have h1 := rc_hdrline_last_from o hb l hg B hB hok (by rw [hr]; exact Or.inr (Or.inr (Or.inr rfl)))
  rw [hr] at h1
  exact hs_line_empty_all B o hb hfit h1.symm

/-- the verdicts of a chain (generic treatment): OK, "empty", "more bytes" or the error "bad character" -/
theorem rc_line_verdicts_schedule (o kc : Nat) (nil : Bool) (l : List Buf) (hg : Growing l) (B : Buf)
    (hB : l.getLast? = some B) (hfit : B.size ≤ 65535) (h0 : ∀ b ∈ l.head?, o ≤ b.size)
    (hgen : nil = true ∨ IsOther (getHdrType (B.extract o (skipTokenDelim B o 58)))) :
    (resumeRun afbHdrLineP o ({}, rcHb nil kc) l).2.1 = .ok ∨ (resumeRun afbHdrLineP o ({}, rcHb nil kc) l).2.1 = .empty ∨
    (resumeRun afbHdrLineP o ({}, rcHb nil kc) l).2.1 = .moreBytes ∨
    (resumeRun afbHdrLineP o ({}, rcHb nil kc) l).2.1 = .badChar := by
  rw [(rc_hdrline_verdict_from o _ l hg B hB (rc_hbOK_all o kc nil hg h0)).2]
  rcases hp : parseHdrLine B o {} (rcHb nil kc) with ⟨e, er, h, hb'⟩
  exact hs_line_verdicts B o _ hfit (hgen.imp (fun hn => by rw [hn]; rfl) id) hp

/-- **name and type of ANY line accepted by a chain** (with or without a values object, typed or not, the value
    suspended anywhere): non-empty name, SP / HT, colon in the whole buffer; reported name = that text, reported type =
    its classification, header finished -/
theorem rc_line_name_type_schedule_from (o : Nat) (hb : Option PHdrVals) (l : List Buf) (hg : Growing l) (B : Buf)
    (hB : l.getLast? = some B) (hfit : B.size ≤ 65535) (hok : ∀ x ∈ l, o ≤ x.size ∧ hbOK x o hb)
    {e : Nat} {h : Hdr} {hb' : Option PHdrVals} (hr : resumeRun afbHdrLineP o ({}, hb) l = (e, .ok, h, hb')) :
    ∃ n c, NameRun B o n ∧ o < n ∧ WsRun B n c ∧ n ≤ c ∧ B[c]? = some 58 ∧ h.name = ⟨o, n - o⟩ ∧
      h.type = getHdrType (B.extract o n) ∧ h.state = .fin := by
  have h1 := rc_hdrline_last_from o hb l hg B hB hok (by rw [hr]; exact Or.inl rfl)
  rw [hr] at h1
  exact hs_line_name_type_sound B o hb hfit h1.symm

/-- … and if the REPORTED type is not one of the eight typed kinds, the whole line is a line of the grammar -/
theorem rc_line_sound_reported_schedule_from (o : Nat) (hb : Option PHdrVals) (l : List Buf) (hg : Growing l)
    (B : Buf) (hB : l.getLast? = some B) (hfit : B.size ≤ 65535) (hok : ∀ x ∈ l, o ≤ x.size ∧ hbOK x o hb)
    {e : Nat} {h : Hdr} {hb' : Option PHdrVals} (hr : resumeRun afbHdrLineP o ({}, hb) l = (e, .ok, h, hb'))
    (ht : IsOther h.type) : HdrLineAt B o e h ∧ hb' = hb := by
  have h1 := rc_hdrline_last_from o hb l hg B hB hok (by rw [hr]; exact Or.inl rfl)
  rw [hr] at h1
  exact hs_line_sound_reported B o hb hfit h1.symm ht

/-! #### the eight typed kinds, values object supplied, the value suspended ANYWHERE (`typed_*` of C07 over a schedule)

  For a line `name [SP/HT] ":" …` of the whole buffer `B` whose name classifies as the type, a new header object and a
  legitimate values object whose component is not yet parsed: whenever the value parser, started after the colon on the
  WHOLE buffer with the ORIGINAL component, returns a verdict that is not an error, the chain of resumed ParseHdrLine
  calls over ANY chunk schedule returns exactly that verdict and offset, the header `htHdr` (name as written, type,
  `val` = the value parser's span and finished iff OK), and the values object changed in that one component only —
  the component being the one the value parser reports for the whole buffer. -/

theorem rc_typed_from_schedule (o n c : Nat) (hv : PHdrVals) (l : List Buf) (hg : Growing l) (B : Buf)
    (hB : l.getLast? = some B) (hfit : B.size ≤ 65535) (hok : ∀ x ∈ l, o ≤ x.size ∧ hvOK x o hv)
    (hname : NameRun B o n) (hon : o < n) (hws : WsRun B n c) (hnc : n ≤ c) (hcolon : B[c]? = some 58)
    (ht : getHdrType (B.extract o n) = HdrFrom) (hnp : hv.from_.parsed = false) {n' : Nat} {e : Err} {f : PFromBody}
    (hp : parseFromVal B (c + 1) hv.from_ = (n', e, f)) (hgo : Err.goesOn e) :
    resumeRun afbHdrLineP o ({}, some hv) l = (n', e, htHdr HdrFrom o n .hFrom e f.v, some { hv with from_ := f }) :=
  rc_hdrline_of_oneshot_from o (some hv) l hg B hB hok
    (ht_line_from B o n c hv hfit hname hon hws hnc hcolon ht hnp hp) hgo

theorem rc_typed_to_schedule (o n c : Nat) (hv : PHdrVals) (l : List Buf) (hg : Growing l) (B : Buf)
    (hB : l.getLast? = some B) (hfit : B.size ≤ 65535) (hok : ∀ x ∈ l, o ≤ x.size ∧ hvOK x o hv)
    (hname : NameRun B o n) (hon : o < n) (hws : WsRun B n c) (hnc : n ≤ c) (hcolon : B[c]? = some 58)
    (ht : getHdrType (B.extract o n) = HdrTo) (hnp : hv.to.parsed = false) {n' : Nat} {e : Err} {f : PFromBody}
    (hp : parseNameAddrPVal HdrTo B (c + 1) hv.to = (n', e, f)) (hgo : Err.goesOn e) :
    resumeRun afbHdrLineP o ({}, some hv) l = (n', e, htHdr HdrTo o n .hTo e f.v, some { hv with to := f }) :=
  rc_hdrline_of_oneshot_from o (some hv) l hg B hB hok
    (ht_line_to B o n c hv hfit hname hon hws hnc hcolon ht hnp hp) hgo

theorem rc_typed_callid_schedule (o n c : Nat) (hv : PHdrVals) (l : List Buf) (hg : Growing l) (B : Buf)
    (hB : l.getLast? = some B) (hfit : B.size ≤ 65535) (hok : ∀ x ∈ l, o ≤ x.size ∧ hvOK x o hv)
    (hname : NameRun B o n) (hon : o < n) (hws : WsRun B n c) (hnc : n ≤ c) (hcolon : B[c]? = some 58)
    (ht : getHdrType (B.extract o n) = HdrCallID) (hnp : hv.callid.parsed = false) {n' : Nat} {e : Err} {f : PCallIDBody}
    (hp : parseCallIDVal B (c + 1) hv.callid = (n', e, f)) (hgo : Err.goesOn e) :
    resumeRun afbHdrLineP o ({}, some hv) l = (n', e, htHdr HdrCallID o n .hCallID e f.callID, some { hv with callid := f }) :=
  rc_hdrline_of_oneshot_from o (some hv) l hg B hB hok
    (ht_line_callid B o n c hv hfit hname hon hws hnc hcolon ht hnp hp) hgo

theorem rc_typed_cseq_schedule (o n c : Nat) (hv : PHdrVals) (l : List Buf) (hg : Growing l) (B : Buf)
    (hB : l.getLast? = some B) (hfit : B.size ≤ 65535) (hok : ∀ x ∈ l, o ≤ x.size ∧ hvOK x o hv)
    (hname : NameRun B o n) (hon : o < n) (hws : WsRun B n c) (hnc : n ≤ c) (hcolon : B[c]? = some 58)
    (ht : getHdrType (B.extract o n) = HdrCSeq) (hnp : hv.cseq.parsed = false) {n' : Nat} {e : Err} {f : PCSeqBody}
    (hp : parseCSeqVal B (c + 1) hv.cseq = (n', e, f)) (hgo : Err.goesOn e) :
    resumeRun afbHdrLineP o ({}, some hv) l = (n', e, htHdr HdrCSeq o n .hCSeq e f.v, some { hv with cseq := f }) :=
  rc_hdrline_of_oneshot_from o (some hv) l hg B hB hok
    (ht_line_cseq B o n c hv hfit hname hon hws hnc hcolon ht hnp hp) hgo

theorem rc_typed_clen_schedule (o n c : Nat) (hv : PHdrVals) (l : List Buf) (hg : Growing l) (B : Buf)
    (hB : l.getLast? = some B) (hfit : B.size ≤ 65535) (hok : ∀ x ∈ l, o ≤ x.size ∧ hvOK x o hv)
    (hname : NameRun B o n) (hon : o < n) (hws : WsRun B n c) (hnc : n ≤ c) (hcolon : B[c]? = some 58)
    (ht : getHdrType (B.extract o n) = HdrCLen) (hnp : hv.clen.parsed = false) {n' : Nat} {e : Err} {f : PUIntBody}
    (hp : parseCLenVal B (c + 1) hv.clen = (n', e, f)) (hgo : Err.goesOn e) :
    resumeRun afbHdrLineP o ({}, some hv) l = (n', e, htHdr HdrCLen o n .hCLen e f.sVal, some { hv with clen := f }) :=
  rc_hdrline_of_oneshot_from o (some hv) l hg B hB hok
    (ht_line_clen B o n c hv hfit hname hon hws hnc hcolon ht hnp hp) hgo

theorem rc_typed_expires_schedule (o n c : Nat) (hv : PHdrVals) (l : List Buf) (hg : Growing l) (B : Buf)
    (hB : l.getLast? = some B) (hfit : B.size ≤ 65535) (hok : ∀ x ∈ l, o ≤ x.size ∧ hvOK x o hv)
    (hname : NameRun B o n) (hon : o < n) (hws : WsRun B n c) (hnc : n ≤ c) (hcolon : B[c]? = some 58)
    (ht : getHdrType (B.extract o n) = HdrExpires) (hnp : hv.expires.parsed = false) {n' : Nat} {e : Err} {f : PUIntBody}
    (hp : parseUIntVal B (c + 1) hv.expires = (n', e, f)) (hgo : Err.goesOn e) :
    resumeRun afbHdrLineP o ({}, some hv) l = (n', e, htHdr HdrExpires o n .hExpires e f.sVal, some { hv with expires := f }) :=
  rc_hdrline_of_oneshot_from o (some hv) l hg B hB hok
    (ht_line_expires B o n c hv hfit hname hon hws hnc hcolon ht hnp hp) hgo

theorem rc_typed_contact_schedule (o n c : Nat) (hv : PHdrVals) (l : List Buf) (hg : Growing l) (B : Buf)
    (hB : l.getLast? = some B) (hfit : B.size ≤ 65535) (hok : ∀ x ∈ l, o ≤ x.size ∧ hvOK x o hv)
    (hname : NameRun B o n) (hon : o < n) (hws : WsRun B n c) (hnc : n ≤ c) (hcolon : B[c]? = some 58)
    (ht : getHdrType (B.extract o n) = HdrContact) {n' : Nat} {e : Err} {f : PContacts}
    (hp : parseAllContactValues B (c + 1) hv.contacts.htBump = (n', e, f)) (hgo : Err.goesOn e) :
    resumeRun afbHdrLineP o ({}, some hv) l = (n', e, htHdr HdrContact o n .hContact e f.lastHVal, some { hv with contacts := f }) :=
  rc_hdrline_of_oneshot_from o (some hv) l hg B hB hok
    (ht_line_contact B o n c hv hfit hname hon hws hnc hcolon ht hp) hgo

theorem rc_typed_pai_schedule (o n c : Nat) (hv : PHdrVals) (l : List Buf) (hg : Growing l) (B : Buf)
    (hB : l.getLast? = some B) (hfit : B.size ≤ 65535) (hok : ∀ x ∈ l, o ≤ x.size ∧ hvOK x o hv)
    (hname : NameRun B o n) (hon : o < n) (hws : WsRun B n c) (hnc : n ≤ c) (hcolon : B[c]? = some 58)
    (ht : getHdrType (B.extract o n) = HdrPAI) {n' : Nat} {e : Err} {f : PPAIs}
    (hp : parseAllPAIValues B (c + 1) hv.pais.htBump = (n', e, f)) (hgo : Err.goesOn e) :
    resumeRun afbHdrLineP o ({}, some hv) l = (n', e, htHdr HdrPAI o n .hPAI e f.lastHVal, some { hv with pais := f }) :=
  rc_hdrline_of_oneshot_from o (some hv) l hg B hB hok
    (ht_line_pai B o n c hv hfit hname hon hws hnc hcolon ht hp) hgo

/-! #### … instantiated with the C09 value grammars (`from_value`, `to_value`, `contact_values_line`, `pai_values_line`
  of C07 / C09 over a schedule): a well-formed value is reported the same however the line is cut -/

theorem rc_from_value_schedule (o n c o' : Nat) (r : PFromBody) (hv : PHdrVals) (l : List Buf) (hg : Growing l)
    (B : Buf) (hB : l.getLast? = some B) (hfit : B.size ≤ 65535) (hok : ∀ x ∈ l, o ≤ x.size ∧ hvOK x o hv)
    (hname : NameRun B o n) (hon : o < n) (hws : WsRun B n c) (hnc : n ≤ c) (hcolon : B[c]? = some 58)
    (ht : getHdrType (B.extract o n) = HdrFrom) (hnew : hv.from_ = {}) (H : NAValue HdrFrom B (c + 1) o' .ok r) :
    resumeRun afbHdrLineP o ({}, some hv) l =
      (o', .ok, hdrAt HdrFrom o n r.v .fin, some { hv with from_ := r }) :=
  rc_hdrline_of_oneshot_from o (some hv) l hg B hB hok
    (ht_from_value B o n c o' r hv hfit hname hon hws hnc hcolon ht hnew H) (Or.inl rfl)

theorem rc_to_value_schedule (o n c o' : Nat) (r : PFromBody) (hv : PHdrVals) (l : List Buf) (hg : Growing l)
    (B : Buf) (hB : l.getLast? = some B) (hfit : B.size ≤ 65535) (hok : ∀ x ∈ l, o ≤ x.size ∧ hvOK x o hv)
    (hname : NameRun B o n) (hon : o < n) (hws : WsRun B n c) (hnc : n ≤ c) (hcolon : B[c]? = some 58)
    (ht : getHdrType (B.extract o n) = HdrTo) (hnew : hv.to = {}) (H : NAValue HdrTo B (c + 1) o' .ok r) :
    resumeRun afbHdrLineP o ({}, some hv) l =
      (o', .ok, hdrAt HdrTo o n r.v .fin, some { hv with to := r }) :=
  rc_hdrline_of_oneshot_from o (some hv) l hg B hB hok
    (ht_to_value B o n c o' r hv hfit hname hon hws hnc hcolon ht hnew H) (Or.inl rfl)

theorem rc_contact_values_schedule (o n c o' : Nat) (rs : List PFromBody) (hv : PHdrVals) (l : List Buf)
    (hg : Growing l) (B : Buf) (hB : l.getLast? = some B) (hfit : B.size ≤ 65535)
    (hok : ∀ x ∈ l, o ≤ x.size ∧ hvOK x o hv)
    (hname : NameRun B o n) (hon : o < n) (hws : WsRun B n c) (hnc : n ≤ c) (hcolon : B[c]? = some 58)
    (ht : getHdrType (B.extract o n) = HdrContact) (hr : HtCtReady hv.contacts)
    (H : ValList HdrContact B (c + 1) rs o') :
    resumeRun afbHdrLineP o ({}, some hv) l =
      (o', .ok, hdrAt HdrContact o n (htSpan rs) .fin, some { hv with contacts := hv.contacts.htLine rs }) :=
  rc_hdrline_of_oneshot_from o (some hv) l hg B hB hok
    (ht_contact_values B o n c o' rs hv hfit hname hon hws hnc hcolon ht hr H) (Or.inl rfl)

theorem rc_pai_values_schedule (o n c o' : Nat) (rs : List PFromBody) (hv : PHdrVals) (l : List Buf)
    (hg : Growing l) (B : Buf) (hB : l.getLast? = some B) (hfit : B.size ≤ 65535)
    (hok : ∀ x ∈ l, o ≤ x.size ∧ hvOK x o hv)
    (hname : NameRun B o n) (hon : o < n) (hws : WsRun B n c) (hnc : n ≤ c) (hcolon : B[c]? = some 58)
    (ht : getHdrType (B.extract o n) = HdrPAI) (hr : HtPaReady hv.pais) (H : ValList HdrPAI B (c + 1) rs o') :
    resumeRun afbHdrLineP o ({}, some hv) l =
      (o', .ok, hdrAt HdrPAI o n (htSpan rs) .fin, some { hv with pais := hv.pais.htLine rs }) :=
  rc_hdrline_of_oneshot_from o (some hv) l hg B hB hok
    (ht_pai_values B o n c o' rs hv hfit hname hon hws hnc hcolon ht hr H) (Or.inl rfl)

/-! #### ParseHeaders over a chunk schedule, new header list of any capacity (`hsNew kh`) -/

theorem rc_headersInv_new (b : Buf) (o : Nat) (ho : o ≤ b.size) (kh : Nat) (hb : Option PHdrVals)
    (hok : hbOK b o hb) : afbHeadersInv b o (hsNew kh, hb) := by
  have hrep : ∀ k, k < (Array.replicate kh ({} : Hdr)).size → (Array.replicate kh ({} : Hdr))[k]! = {} := by
    intro k hk; simp at hk; simp [hk]
  refine ⟨⟨fun k _ hk => ?_, hdrOK_new b⟩, hok, ⟨?_, fun k _ hk => ?_, fun _ => ?_⟩, ho⟩
  · show hdrOK b (Array.replicate kh ({} : Hdr))[k]!
    rw [hrep k hk]; exact hdrOK_new b
  · apply hlPending_of_not_isVal
    show ¬ (hsNew kh).cur.state.isVal
    rw [(hsNew_ok kh).2]; simp [HState.isVal]
  · show ¬ (Array.replicate kh ({} : Hdr))[k]!.state.isVal
    rw [hrep k hk]; simp [HState.isVal]
  · show ¬ (({} : Hdr).state.isVal)
    simp [HState.isVal]

theorem rc_headers_schedule_from (o kh : Nat) (hb : Option PHdrVals) (l : List Buf) (hg : Growing l)
    (hok : ∀ x ∈ l, o ≤ x.size ∧ hbOK x o hb) :
    RR hdrsObs (resumeRun afbHeadersP o (hsNew kh, hb) l) (oneShotRun afbHeadersP o (hsNew kh, hb) l) :=
  afb_headers_schedule_from o _ hb l hg (fun b hbm =>
    rc_headersInv_new b o (hok b (rc_head_mem hbm)).1 kh hb (hok b (rc_head_mem hbm)).2)

/-- **ParseHeaders, every chunk schedule, new list of any capacity, any legitimate values object**: a chain that ends
    with OK / "empty" / "more bytes" returns EXACTLY what ONE call on the whole buffer returns -/
theorem rc_headers_last_from (o kh : Nat) (hb : Option PHdrVals) (l : List Buf) (hg : Growing l) (B : Buf)
    (hB : l.getLast? = some B) (hok : ∀ x ∈ l, o ≤ x.size ∧ hbOK x o hb)
    (hgo : Err.goesOn (resumeRun afbHeadersP o (hsNew kh, hb) l).2.1) :
    resumeRun afbHeadersP o (hsNew kh, hb) l = parseHeaders B o (hsNew kh) hb :=
  rc_chain_last afbHeadersP hdrsObs o (hsNew kh, hb) l hg B hB (rc_headers_schedule_from o kh hb l hg hok)
    (fun x hx s _ _ st' hp he =>
      parseHeaders_stable x s o (hsNew kh) hb (rc_headersInv_new x o (hok x hx).1 kh hb (hok x hx).2).1 (hok x hx).2
        (hl' := st'.1) (hb' := st'.2) hp he) hgo

theorem rc_headers_verdict_from (o kh : Nat) (hb : Option PHdrVals) (l : List Buf) (hg : Growing l) (B : Buf)
    (hB : l.getLast? = some B) (hok : ∀ x ∈ l, o ≤ x.size ∧ hbOK x o hb) :
    (resumeRun afbHeadersP o (hsNew kh, hb) l).1 = (parseHeaders B o (hsNew kh) hb).1 ∧
    (resumeRun afbHeadersP o (hsNew kh, hb) l).2.1 = (parseHeaders B o (hsNew kh) hb).2.1 := by
  have := rc_chain_last_obs afbHeadersP hdrsObs o (hsNew kh, hb) l hg B hB
    (rc_headers_schedule_from o kh hb l hg hok).resEq
    (fun x hx s _ _ st' hp he =>
      parseHeaders_stable x s o (hsNew kh) hb (rc_headersInv_new x o (hok x hx).1 kh hb (hok x hx).2).1 (hok x hx).2
        (hl' := st'.1) (hb' := st'.2) hp he)
  exact ⟨this.1, this.2.1⟩

theorem rc_headers_of_oneshot_from (o kh : Nat) (hb : Option PHdrVals) (l : List Buf) (hg : Growing l) (B : Buf)
    (hB : l.getLast? = some B) (hok : ∀ x ∈ l, o ≤ x.size ∧ hbOK x o hb)
    {e : Nat} {er : Err} {hl' : HdrLst} {hb' : Option PHdrVals}
    (hp : parseHeaders B o (hsNew kh) hb = (e, er, hl', hb')) (hgo : Err.goesOn er) :
    resumeRun afbHeadersP o (hsNew kh, hb) l = (e, er, hl', hb') := by
  have hv := (rc_headers_verdict_from o kh hb l hg B hB hok).2
  rw [hp] at hv
  rw [rc_headers_last_from o kh hb l hg B hB hok (by rw [hv]; exact hgo), hp]

/-- **(4) `block_sound` over EVERY chunk schedule** (generic treatment `HsGeneric` of the whole buffer: no values
    object, or no line start carries one of the eight typed names): the chain ends with OK or "empty" at `e` ⇒ `[o, e)`
    of the WHOLE buffer is a block of the grammar, the list object is exactly what accepting its headers in order
    produces, the values object is untouched -/
theorem rc_block_sound_schedule_from (o kh : Nat) (hb : Option PHdrVals) (l : List Buf) (hg : Growing l) (B : Buf)
    (hB : l.getLast? = some B) (hfit : B.size ≤ 65535) (hok : ∀ x ∈ l, o ≤ x.size ∧ hbOK x o hb)
    (hgen : HsGeneric B o hb) {e : Nat} {er : Err} {hl' : HdrLst} {hb' : Option PHdrVals}
    (hr : resumeRun afbHeadersP o (hsNew kh, hb) l = (e, er, hl', hb')) (her : er = .ok ∨ er = .empty) :
    ∃ hs, HdrBlock B o hs e ∧ hl' = ((hsNew kh).acceptAll hs).setCur { state := .fin } ∧ hb' = hb ∧
      er = (if ((hsNew kh).acceptAll hs).n > 0 then Err.ok else Err.empty) := by
  have h1 := rc_headers_last_from o kh hb l hg B hB hok (by
    rw [hr]; rcases her with h | h
    · exact Or.inl h
    · exact Or.inr (Or.inr (Or.inr h)))
  rw [hr] at h1
  exact hs_block_sound B o (hsNew kh) hb hfit (hsNew_ok kh).1 (hsNew_ok kh).2 hgen h1.symm her

theorem rc_block_sound_schedule (o kh kc : Nat) (nil : Bool) (l : List Buf) (hg : Growing l) (B : Buf)
    (hB : l.getLast? = some B) (hfit : B.size ≤ 65535) (h0 : ∀ b ∈ l.head?, o ≤ b.size)
    (hgen : HsGeneric B o (rcHb nil kc)) {e : Nat} {er : Err} {hl' : HdrLst} {hb' : Option PHdrVals}
    (hr : resumeRun afbHeadersP o (hsNew kh, rcHb nil kc) l = (e, er, hl', hb')) (her : er = .ok ∨ er = .empty) :
    ∃ hs, HdrBlock B o hs e ∧ hl' = ((hsNew kh).acceptAll hs).setCur { state := .fin } ∧ hb' = rcHb nil kc ∧
      er = (if ((hsNew kh).acceptAll hs).n > 0 then Err.ok else Err.empty) :=
  rc_block_sound_schedule_from o kh _ l hg B hB hfit (rc_hbOK_all o kc nil hg h0) hgen hr her

/-- **the chain accepts iff the text of the whole buffer is a non-empty block of the grammar** (`block_ok_iff`) -/
theorem rc_block_ok_iff_schedule (o kh kc : Nat) (nil : Bool) (l : List Buf) (hg : Growing l) (B : Buf)
    (hB : l.getLast? = some B) (hfit : B.size ≤ 65535) (h0 : ∀ b ∈ l.head?, o ≤ b.size)
    (hgen : HsGeneric B o (rcHb nil kc)) (e : Nat) (hl' : HdrLst) (hb' : Option PHdrVals) :
    resumeRun afbHeadersP o (hsNew kh, rcHb nil kc) l = (e, .ok, hl', hb') ↔
      ∃ hs, hs ≠ [] ∧ HdrBlock B o hs e ∧ hl' = ((hsNew kh).acceptAll hs).setCur { state := .fin } ∧
        hb' = rcHb nil kc := by
  have hok := rc_hbOK_all o kc nil hg h0
  constructor
  · intro hr
    have h1 := rc_headers_last_from o kh _ l hg B hB hok (by rw [hr]; exact Or.inl rfl)
    rw [hr] at h1
    exact (hs_block_ok_iff B o kh _ hfit hgen e hl' hb').mp h1.symm
  · intro H
    exact rc_headers_of_oneshot_from o kh _ l hg B hB hok
      ((hs_block_ok_iff B o kh _ hfit hgen e hl' hb').mpr H) (Or.inl rfl)

/-- **what a block accepted by a chain reports** (`block_report`): count = number of lines, stored headers = the first
    `kh` lines in order, type flags, first-of-type table -/
theorem rc_block_report_schedule (o kh kc : Nat) (nil : Bool) (l : List Buf) (hg : Growing l) (B : Buf)
    (hB : l.getLast? = some B) (hfit : B.size ≤ 65535) (h0 : ∀ b ∈ l.head?, o ≤ b.size)
    (hgen : HsGeneric B o (rcHb nil kc)) {e : Nat} {hl' : HdrLst} {hb' : Option PHdrVals}
    (hr : resumeRun afbHeadersP o (hsNew kh, rcHb nil kc) l = (e, .ok, hl', hb')) :
    ∃ hs, hs ≠ [] ∧ HdrBlock B o hs e ∧ hb' = rcHb nil kc ∧ hl'.n = hs.length ∧ hl'.hdrs.size = kh ∧
      (∀ j (hj : j < hs.length), j < kh → hl'.hdrs[j]! = hs[j]) ∧
      (∀ t, t < 16 → hl'.pflags.testBit t = hs.any (fun h => h.type == t)) ∧
      (∀ j, j < 13 → hl'.h[j]! = (match hs.find? (fun h => h.type == j + 1) with | some h => h | none => {})) := by
  have h1 := rc_headers_last_from o kh _ l hg B hB (rc_hbOK_all o kc nil hg h0) (by rw [hr]; exact Or.inl rfl)
  rw [hr] at h1
  exact hs_block_report B o kh _ hfit hgen h1.symm

/-- **what ANY block accepted by a chain reports** (`block_all_report`; with or without a values object, typed lines
    included, suspended anywhere — also in the middle of a typed value): a chain of lines of the whole buffer whose
    reported names and types are right, counted / stored / flagged / indexed -/
theorem rc_block_all_report_schedule_from (o kh : Nat) (hb : Option PHdrVals) (l : List Buf) (hg : Growing l)
    (B : Buf) (hB : l.getLast? = some B) (hfit : B.size ≤ 65535) (hok : ∀ x ∈ l, o ≤ x.size ∧ hbOK x o hb)
    {e : Nat} {hl' : HdrLst} {hb' : Option PHdrVals}
    (hr : resumeRun afbHeadersP o (hsNew kh, hb) l = (e, .ok, hl', hb')) :
    ∃ hs, hs ≠ [] ∧ HsChain B o hs e ∧ hl'.n = hs.length ∧ hl'.hdrs.size = kh ∧
      (∀ j (hj : j < hs.length), j < kh → hl'.hdrs[j]! = hs[j]) ∧
      (∀ t, t < 16 → hl'.pflags.testBit t = hs.any (fun h => h.type == t)) ∧
      (∀ j, j < 13 → hl'.h[j]! = (match hs.find? (fun h => h.type == j + 1) with | some h => h | none => {})) := by
  have h1 := rc_headers_last_from o kh hb l hg B hB hok (by rw [hr]; exact Or.inl rfl)
  rw [hr] at h1
  exact hs_block_all_report B o kh hb hfit h1.symm

/-- the verdicts of a chain of ParseHeaders calls (generic treatment) -/
theorem rc_block_verdicts_schedule (o kh kc : Nat) (nil : Bool) (l : List Buf) (hg : Growing l) (B : Buf)
    (hB : l.getLast? = some B) (hfit : B.size ≤ 65535) (h0 : ∀ b ∈ l.head?, o ≤ b.size)
    (hgen : HsGeneric B o (rcHb nil kc)) :
    (resumeRun afbHeadersP o (hsNew kh, rcHb nil kc) l).2.1 = .ok ∨
    (resumeRun afbHeadersP o (hsNew kh, rcHb nil kc) l).2.1 = .empty ∨
    (resumeRun afbHeadersP o (hsNew kh, rcHb nil kc) l).2.1 = .moreBytes ∨
    (resumeRun afbHeadersP o (hsNew kh, rcHb nil kc) l).2.1 = .badChar := by
  rw [(rc_headers_verdict_from o kh _ l hg B hB (rc_hbOK_all o kc nil hg h0)).2]
  rcases hp : parseHeaders B o (hsNew kh) (rcHb nil kc) with ⟨e, er, hl', hb'⟩
  exact hs_block_verdicts B o (hsNew kh) _ hfit (hsNew_ok kh).1 (hsNew_ok kh).2 hgen hp

/-- **a well-formed block with typed lines** (`typed_block` of C07: generic and typed lines mixed, every typed value
    meeting its grammar) is reported the same by EVERY chunk schedule: one header per line, in order, the values object
    threaded through the typed lines -/
theorem rc_typed_block_schedule (o kh : Nat) (hv hv' : PHdrVals) (l : List Buf) (hg : Growing l) (B : Buf)
    (hB : l.getLast? = some B) (hfit : B.size ≤ 65535) (hok : ∀ x ∈ l, o ≤ x.size ∧ hvOK x o hv)
    {e : Nat} {hs : List Hdr} {evs : List HtEv} (H : HtBlock B o hv hs evs e hv') (hr : HtReady hv) :
    resumeRun afbHeadersP o (hsNew kh, some hv) l =
      (e, (if ((hsNew kh).acceptAll hs).n > 0 then Err.ok else Err.empty),
        ((hsNew kh).acceptAll hs).setCur { state := .fin }, some hv') := by
  have hp := (ht_parseHeaders_block B hfit H (hsNew kh) (hsNew_ok kh).1 (hsNew_ok kh).2 hr).1
  refine rc_headers_of_oneshot_from o kh (some hv) l hg B hB hok hp ?_
  split
  · exact Or.inl rfl
  · exact Or.inr (Or.inr (Or.inr rfl))

/-! ### E. the Contact / P-Asserted-Identity values of header LINES, BLOCKS and MESSAGES are the pieces of the lines' values

  One call first (composition of `hs_line_name_type_sound`, `ht_line_contact` / `ht_line_pai`, the splitting converse
  `contactsLoop_segs` / `paisLoop_segs` of NaSplit and a frame lemma for the value dispatch), then every schedule. -/

/-- frame of the value dispatch: a header that is neither Contact nor P-Asserted-Identity leaves both value lists
    exactly as they are -/
theorem rc_parseBody_frame (b : Buf) (o : Nat) (h : Hdr) (hv : PHdrVals) (htc : h.type ≠ HdrContact)
    (htp : h.type ≠ HdrPAI) {n : Nat} {e : Err} {h2 : Hdr} {hb2 : Option PHdrVals}
    (hr : parseBody b o h (some hv) = (n, e, h2, hb2)) :
    ∃ hv2, hb2 = some hv2 ∧ hv2.contacts = hv.contacts ∧ hv2.pais = hv.pais := by
  have h_contacts : (h.type == HdrContact) = false := by simpa using htc
  have h_pais : (h.type == HdrPAI) = false := by simpa using htp
  have hskip : ∀ {n : Nat} {e : Err} {h2 : Hdr} {hb2 : Option PHdrVals},
      (o, Err.ok, h, some hv) = (n, e, h2, hb2) →
      ∃ hv2, hb2 = some hv2 ∧ hv2.contacts = hv.contacts ∧ hv2.pais = hv.pais := by
    intro n e h2 hb2 hh
    simp only [Prod.mk.injEq] at hh
    obtain ⟨_, _, _, rfl⟩ := hh
    exact ⟨hv, rfl, rfl, rfl⟩
  unfold parseBody at hr
  simp only at hr
  by_cases h_from_ : (h.type == HdrFrom) = true
  · simp only [h_from_, ↓reduceIte] at hr
    by_cases hp : (!hv.from_.parsed) = true
    · simp only [hp, ↓reduceIte, Prod.mk.injEq] at hr
      obtain ⟨_, _, _, rfl⟩ := hr
      exact ⟨_, rfl, rfl, rfl⟩
    · simp only [hp, Bool.false_eq_true, ↓reduceIte] at hr
      exact hskip hr
  simp only [h_from_, Bool.false_eq_true, ↓reduceIte] at hr
  by_cases h_to : (h.type == HdrTo) = true
  · simp only [h_to, ↓reduceIte] at hr
    by_cases hp : (!hv.to.parsed) = true
    · simp only [hp, ↓reduceIte, Prod.mk.injEq] at hr
      obtain ⟨_, _, _, rfl⟩ := hr
      exact ⟨_, rfl, rfl, rfl⟩
    · simp only [hp, Bool.false_eq_true, ↓reduceIte] at hr
      exact hskip hr
  simp only [h_to, Bool.false_eq_true, ↓reduceIte] at hr
  by_cases h_callid : (h.type == HdrCallID) = true
  · simp only [h_callid, ↓reduceIte] at hr
    by_cases hp : (!hv.callid.parsed) = true
    · simp only [hp, ↓reduceIte, Prod.mk.injEq] at hr
      obtain ⟨_, _, _, rfl⟩ := hr
      exact ⟨_, rfl, rfl, rfl⟩
    · simp only [hp, Bool.false_eq_true, ↓reduceIte] at hr
      exact hskip hr
  simp only [h_callid, Bool.false_eq_true, ↓reduceIte] at hr
  by_cases h_cseq : (h.type == HdrCSeq) = true
  · simp only [h_cseq, ↓reduceIte] at hr
    by_cases hp : (!hv.cseq.parsed) = true
    · simp only [hp, ↓reduceIte, Prod.mk.injEq] at hr
      obtain ⟨_, _, _, rfl⟩ := hr
      exact ⟨_, rfl, rfl, rfl⟩
    · simp only [hp, Bool.false_eq_true, ↓reduceIte] at hr
      exact hskip hr
  simp only [h_cseq, Bool.false_eq_true, ↓reduceIte] at hr
  by_cases h_clen : (h.type == HdrCLen) = true
  · simp only [h_clen, ↓reduceIte] at hr
    by_cases hp : (!hv.clen.parsed) = true
    · simp only [hp, ↓reduceIte, Prod.mk.injEq] at hr
      obtain ⟨_, _, _, rfl⟩ := hr
      exact ⟨_, rfl, rfl, rfl⟩
    · simp only [hp, Bool.false_eq_true, ↓reduceIte] at hr
      exact hskip hr
  simp only [h_clen, h_contacts, Bool.false_eq_true, ↓reduceIte] at hr
  by_cases h_expires : (h.type == HdrExpires) = true
  · simp only [h_expires, ↓reduceIte] at hr
    by_cases hp : (!hv.expires.parsed) = true
    · simp only [hp, ↓reduceIte, Prod.mk.injEq] at hr
      obtain ⟨_, _, _, rfl⟩ := hr
      exact ⟨_, rfl, rfl, rfl⟩
    · simp only [hp, Bool.false_eq_true, ↓reduceIte] at hr
      exact hskip hr
  simp only [h_expires, h_pais, Bool.false_eq_true, ↓reduceIte] at hr
  exact hskip hr

/-- ParseAllContactValues on a contacts object as it stands BETWEEN two header lines (new, or after the values of
    earlier lines), entered the way ParseHdrLine enters it (header counter bumped): OK ⇒ the text is cut at exactly its
    top-level commas and the object is `htLine` of the old one with the values of the pieces -/
theorem rc_contacts_segs_ready (b : Buf) (o : Nat) (c : PContacts) (hr : HtCtReady c) {o' : Nat} {c' : PContacts}
    (hp : parseAllContactValues b o c.htBump = (o', .ok, c')) :
    ∃ L, NsSegs HdrContact b o L o' ∧ c' = c.htLine (L.map Prod.snd) := by
  rw [parseAllContactValues_eq_wrap, ht_bump_wrap] at hp
  obtain ⟨L, hL, hc⟩ := contactsLoop_segs b o' c' o c.wrap.htBump hr.1 hr.2 hp
  exact ⟨L, hL, by rw [hc, ht_htLine_eq]⟩

theorem rc_pais_segs_ready (b : Buf) (o : Nat) (c : PPAIs) (hr : HtPaReady c) {o' : Nat} {c' : PPAIs}
    (hp : parseAllPAIValues b o c.htBump = (o', .ok, c')) :
    ∃ L, NsSegs HdrPAI b o L o' ∧ c' = c.htLine (L.map Prod.snd) ∧ ∀ x ∈ L, x.2.star = false := by
  rw [parseAllPAIValues_eq_wrap, ht_paBump_wrap] at hp
  obtain ⟨L, hL, hc, hs⟩ := paisLoop_segs b o' c' o c.wrap.htBump hr.1 hr.2 hp
  exact ⟨L, hL, by rw [hc, ht_paLine_eq], hs⟩

/-- the values of the pieces are completed values -/
theorem rc_segs_fin {h : Nat} {b : Buf} {o o' : Nat} {L : List (Nat × PFromBody)} (H : NsSegs h b o L o') :
    ∀ r ∈ L.map Prod.snd, r.state = .fin := by
  induction H with
  | last o o' r hp _ _ =>
    intro x hx
    simp only [List.map_cons, List.map_nil, List.mem_singleton] at hx
    rw [hx]; exact (parseNameAddrPVal_post h b o {} hp (Or.inl rfl)).1
  | cons o j o' r rest hp _ _ _ _ ih =>
    intro x hx
    simp only [List.map_cons, List.mem_cons] at hx
    rcases hx with hx | hx
    · rw [hx]; exact (parseNameAddrPVal_post h b o {} hp (Or.inr rfl)).1
    · exact ih x hx

theorem rc_segs_map_ne {h : Nat} {b : Buf} {o o' : Nat} {L : List (Nat × PFromBody)} (H : NsSegs h b o L o') :
    L.map Prod.snd ≠ [] := fun hh => H.ne_nil (List.map_eq_nil_iff.1 hh)

/-- what an accepted header line was for the two value lists -/
inductive RcEv where
  /-- a line that is neither Contact nor P-Asserted-Identity -/
  | other
  /-- a Contact line: colon at `c`, pieces `L` (start offset, reported value) of the text after the colon -/
  | contact (c : Nat) (L : List (Nat × PFromBody))
  /-- a P-Asserted-Identity line -/
  | pai (c : Nat) (L : List (Nat × PFromBody))

/-- **what ONE accepted header line `[o, e)` with reported header `h` did to the two value lists** (`hv` before, `hv'`
    after):
    * a line of another type: both lists EXACTLY as before;
    * a Contact line with the colon at `c`: the text after the colon up to the end `e` of the line is cut at exactly
      its top-level commas into the pieces `L` (`NsSegs`: each piece's value is what the value parser reports at its
      start), the contacts object is `htLine` of the old one with the values of the pieces in order (header counter + 1,
      `N` + number of pieces, stored values, min / max expires: `ht_htLine_*`), nothing else in the values object
      changes, and the header's `val` is the running extent of the line;
    * a P-Asserted-Identity line: the same, and no piece is `*`. -/
def RcLine (b : Buf) (o : Nat) (hv : PHdrVals) (e : Nat) (h : Hdr) (hv' : PHdrVals) : RcEv → Prop
  | .other => h.type ≠ HdrContact ∧ h.type ≠ HdrPAI ∧ hv'.contacts = hv.contacts ∧ hv'.pais = hv.pais
  | .contact c L => h.type = HdrContact ∧ o < c + 1 ∧ b[c]? = some 58 ∧ NsSegs HdrContact b (c + 1) L e ∧
      hv' = { hv with contacts := hv.contacts.htLine (L.map Prod.snd) } ∧
      h.val = (hv.contacts.htLine (L.map Prod.snd)).lastHVal
  | .pai c L => h.type = HdrPAI ∧ o < c + 1 ∧ b[c]? = some 58 ∧ NsSegs HdrPAI b (c + 1) L e ∧
      (∀ x ∈ L, x.2.star = false) ∧ hv' = { hv with pais := hv.pais.htLine (L.map Prod.snd) } ∧
      h.val = (hv.pais.htLine (L.map Prod.snd)).lastHVal

/-- the value lists stay ready for the next line -/
theorem RcLine.ready {b : Buf} {o e : Nat} {hv hv' : PHdrVals} {h : Hdr} {ev : RcEv} (H : RcLine b o hv e h hv' ev)
    (hr : HtReady hv) : HtReady hv' := by
  cases ev with
  | other =>
    obtain ⟨_, _, h1, h2⟩ := H
    exact ⟨by rw [h1]; exact hr.1, by rw [h2]; exact hr.2⟩
  | contact c L =>
    obtain ⟨_, _, _, hL, rfl, _⟩ := H
    exact ⟨ht_htLine_ready _ _ hr.1 (rc_segs_map_ne hL) (rc_segs_fin hL), hr.2⟩
  | pai c L =>
    obtain ⟨_, _, _, hL, _, rfl, _⟩ := H
    exact ⟨hr.1, ht_paLine_ready _ _ hr.2 (rc_segs_map_ne hL) (rc_segs_fin hL)⟩

/-- **ONE call of ParseHdrLine, new header object, values object whose two lists are between lines (`HtReady`; a new
    values object qualifies), EVERY input within the 65,535-byte limit**: an accepted line has a name and type that are
    right (`HsNameAt`) and did to the two value lists what `RcLine` says -/
theorem rc_line_lists (b : Buf) (o : Nat) (hv : PHdrVals) (hfit : b.size ≤ 65535) (hrdy : HtReady hv)
    {e : Nat} {h : Hdr} {hb' : Option PHdrVals} (hp : parseHdrLine b o {} (some hv) = (e, .ok, h, hb')) :
    ∃ hv' ev, hb' = some hv' ∧ HsNameAt b o h ∧ RcLine b o hv e h hv' ev := by
  obtain ⟨n, c, hname, hon, hws, hnc, hcolon, hnm, hty, hfin⟩ := hs_line_name_type_sound b o (some hv) hfit hp
  have hNA : HsNameAt b o h := ⟨n, c, hname, hon, hws, hnc, hcolon, hnm, hty, hfin⟩
  have hcl := get?_lt hcolon
  by_cases hC : getHdrType (b.extract o n) = HdrContact
  · rcases hq : parseAllContactValues b (c + 1) hv.contacts.htBump with ⟨n', e', f⟩
    have h1 := ht_line_contact b o n c hv hfit hname hon hws hnc hcolon hC hq
    rw [hp] at h1
    simp only [Prod.mk.injEq] at h1
    obtain ⟨rfl, rfl, rfl, rfl⟩ := h1
    obtain ⟨L, hL, rfl⟩ := rc_contacts_segs_ready b (c + 1) hv.contacts hrdy.1 hq
    exact ⟨_, .contact c L, rfl, hNA, rfl, by omega, hcolon, hL, rfl, rfl⟩
  by_cases hP : getHdrType (b.extract o n) = HdrPAI
  · rcases hq : parseAllPAIValues b (c + 1) hv.pais.htBump with ⟨n', e', f⟩
    have h1 := ht_line_pai b o n c hv hfit hname hon hws hnc hcolon hP hq
    rw [hp] at h1
    simp only [Prod.mk.injEq] at h1
    obtain ⟨rfl, rfl, rfl, rfl⟩ := h1
    obtain ⟨L, hL, rfl, hs⟩ := rc_pais_segs_ready b (c + 1) hv.pais hrdy.2 hq
    exact ⟨_, .pai c L, rfl, hNA, rfl, by omega, hcolon, hL, hs, rfl, rfl⟩
  -- another type: the dispatch leaves the lists alone, and so does the generic scanner
  have hget : PField.get? b (hdrAt 0 o n {} .bodyStart).name = some (b.extract o n) := by
    have := field_get? b o (n - o) (by omega) hfit
    show PField.get? b ⟨o, n - o⟩ = _
    rw [this]; congr 2; omega
  have hh : ({ hdrAt 0 o n {} .bodyStart with type := getHdrType (b.extract o n) } : Hdr) =
      hdrAt (getHdrType (b.extract o n)) o n {} .bodyStart := rfl
  rcases hpb : parseBody b (c + 1) (hdrAt (getHdrType (b.extract o n)) o n {} .bodyStart) (some hv) with
    ⟨n', e', h2, hb2⟩
  obtain ⟨hv2, rfl, hc2, hp2⟩ := rc_parseBody_frame b (c + 1) _ hv hC hP hpb
  have htc : h.type ≠ HdrContact := by rw [hty]; exact hC
  have htp : h.type ≠ HdrPAI := by rw [hty]; exact hP
  by_cases hst : h2.state = .bodyStart
  · obtain ⟨_, _, rfl, hb2e⟩ := parseBody_keep b (c + 1) _ (some hv) hpb hst
    have hafter : hlAfterColon b (c + 1) (hdrAt 0 o n {} .bodyStart) (some hv) =
        .cont (c + 1) (hdrAt (getHdrType (b.extract o n)) o n {} .bodyStart, some hv) := by
      unfold hlAfterColon
      simp only [hget]
      rw [hh, hpb]
      simp only
      rw [if_neg (by rw [hst]; decide), hb2e]
    have h1 := ht_prefix_cont b o n c (some hv) hfit hname hon hws hnc hcolon hafter
    have hout := hs_after_colon b (some hv) hfit o n c hname hon hws hnc hcolon
    rw [hp] at h1
    rcases hrl : runLoop hlMachine b (c + 1) (hdrAt (getHdrType (b.extract o n)) o n {} .bodyStart, some hv) with
      ⟨a1, a2, a3, a4⟩
    rw [hrl] at h1 hout
    simp only [Prod.mk.injEq] at h1
    obtain ⟨rfl, rfl, rfl, rfl⟩ := h1
    rcases hout with ⟨_, _, h3⟩ | ⟨h3, _⟩ | h3 | h3
    · simp only at h3
      exact ⟨hv, .other, h3, hNA, htc, htp, rfl, rfl⟩
    · cases h3
    · cases h3
    · cases h3
  · have hne : (h2.state != HState.bodyStart) = true := by simpa using hst
    have hafter : hlAfterColon b (c + 1) (hdrAt 0 o n {} .bodyStart) (some hv) =
        .done n' e' ((if e' == .ok then { h2 with state := .fin } else h2), some hv2) := by
      unfold hlAfterColon
      simp only [hget]
      rw [hh, hpb]
      simp only
      rw [if_pos hne]
    have h1 := ht_prefix_done b o n c (some hv) hfit hname hon hws hnc hcolon hafter
    rw [hp] at h1
    simp only [Prod.mk.injEq] at h1
    obtain ⟨_, _, _, rfl⟩ := h1
    exact ⟨hv2, .other, rfl, hNA, htc, htp, hc2, hp2⟩

/-- **(3) ParseHdrLine over EVERY chunk schedule** (new header object; a values object that is legitimate at `o` and
    whose two lists are between lines — a new one of any capacity qualifies: `rc_newHv_ok`): if the chain of resumed
    calls ends OK at `e`, then in the WHOLE buffer `B` the line has a name and a type that are right, and
    * if it is a Contact (P-Asserted-Identity) line, the text after the colon is cut at exactly its top-level commas and
      the values handed to the list object are the value parser's reports for the pieces, in order (`RcLine`),
    * otherwise both lists are exactly as before —
    wherever the calls were suspended: inside the name, a quoted string, a URI, a parameter, the line end. -/
theorem rc_line_lists_schedule (o : Nat) (hv : PHdrVals) (l : List Buf) (hg : Growing l) (B : Buf)
    (hB : l.getLast? = some B) (hfit : B.size ≤ 65535) (hok : ∀ x ∈ l, o ≤ x.size ∧ hvOK x o hv) (hrdy : HtReady hv)
    {e : Nat} {h : Hdr} {hb' : Option PHdrVals} (hr : resumeRun afbHdrLineP o ({}, some hv) l = (e, .ok, h, hb')) :
    parseHdrLine B o {} (some hv) = (e, .ok, h, hb') ∧
    ∃ hv' ev, hb' = some hv' ∧ HsNameAt B o h ∧ RcLine B o hv e h hv' ev := by
  have h1 := rc_hdrline_last_from o (some hv) l hg B hB hok (by rw [hr]; exact Or.inl rfl)
  rw [hr] at h1
  exact ⟨h1.symm, rc_line_lists B o hv hfit hrdy h1.symm⟩

/-- a new values object (contact array of any capacity) meets the hypotheses of `rc_line_lists_schedule` -/
theorem rc_newHv_ok (o kc : Nat) {l : List Buf} (hg : Growing l) (h0 : ∀ b ∈ l.head?, o ≤ b.size) :
    (∀ x ∈ l, o ≤ x.size ∧ hvOK x o (afbNewHv kc)) ∧ HtReady (afbNewHv kc) :=
  ⟨fun x hx => ⟨rc_growing_size hg h0 x hx, afb_hvOK_new x o (rc_growing_size hg h0 x hx) kc⟩,
   ⟨ht_ready_new kc, ht_paReady_new⟩⟩

/-! #### header blocks -/

/-- accepted lines one after the other, each with what it did to the two value lists, then the empty line -/
inductive RcBlock (b : Buf) : Nat → PHdrVals → List Hdr → List RcEv → Nat → PHdrVals → Prop
  | nil (o e : Nat) (hv : PHdrVals) : EmptyLine b o e → RcBlock b o hv [] [] e hv
  | cons (o e1 e : Nat) (hv hv1 hv' : PHdrVals) (h : Hdr) (hs : List Hdr) (ev : RcEv) (evs : List RcEv) :
      HsNameAt b o h → o < e1 → RcLine b o hv e1 h hv1 ev → RcBlock b e1 hv1 hs evs e hv' →
      RcBlock b o hv (h :: hs) (ev :: evs) e hv'

/-- the value lists (one list of piece values per Contact line) of the Contact lines of a block, in order -/
def rcCtOf : List RcEv → List (List PFromBody)
  | [] => []
  | .contact _ L :: evs => L.map Prod.snd :: rcCtOf evs
  | _ :: evs => rcCtOf evs

/-- … of the P-Asserted-Identity lines -/
def rcPaOf : List RcEv → List (List PFromBody)
  | [] => []
  | .pai _ L :: evs => L.map Prod.snd :: rcPaOf evs
  | _ :: evs => rcPaOf evs

/-- the contacts / identities objects after the block are the old ones after the Contact / P-Asserted-Identity lines
    of the block, in order, whatever stands between them — so `ht_htLines_hNo`, `ht_htLines_n`, `ht_htLines_stored`,
    `ht_htLines_maxE`, `ht_htLines_minE`, `pl_lines_stored`, `pl_lines_getPAI` … apply with the PIECES of the lines -/
theorem RcBlock.lists {b : Buf} {o e : Nat} {hv hv' : PHdrVals} {hs : List Hdr} {evs : List RcEv}
    (H : RcBlock b o hv hs evs e hv') :
    hv'.contacts = hv.contacts.htLines (rcCtOf evs) ∧ hv'.pais = hv.pais.htLines (rcPaOf evs) := by
  induction H with
  | nil o e hv _ => exact ⟨rfl, rfl⟩
  | cons o e1 e hv hv1 hv' h hs ev evs _ _ hline _ ih =>
    cases ev with
    | other =>
      obtain ⟨_, _, h1, h2⟩ := hline
      rw [← h1, ← h2]; exact ih
    | contact c L =>
      obtain ⟨_, _, _, _, rfl, _⟩ := hline
      exact ⟨by rw [ih.1]; rfl, ih.2⟩
    | pai c L =>
      obtain ⟨_, _, _, _, _, rfl, _⟩ := hline
      exact ⟨ih.1, by rw [ih.2]; rfl⟩

/-- the underlying chain of names and types (`HsChain` of C07) -/
theorem RcBlock.chain {b : Buf} {o e : Nat} {hv hv' : PHdrVals} {hs : List Hdr} {evs : List RcEv}
    (H : RcBlock b o hv hs evs e hv') : HsChain b o hs e := by
  induction H with
  | nil o e hv he => exact .nil o e he
  | cons o e1 e hv hv1 hv' h hs ev evs hn hlt _ _ ih => exact .cons o e1 e h hs hn hlt ih

theorem RcBlock.length {b : Buf} {o e : Nat} {hv hv' : PHdrVals} {hs : List Hdr} {evs : List RcEv}
    (H : RcBlock b o hv hs evs e hv') : evs.length = hs.length := by
  induction H with
  | nil => rfl
  | cons _ _ _ _ _ _ _ _ _ _ _ _ _ _ ih => simp [ih]

/-- **ONE call of ParseHeaders, a values object whose two lists are between lines, EVERY input ≤ 65,535 bytes**: if
    the verdict is OK (or "empty") the accepted text is a chain of lines, each with the right name and type, and for
    every Contact / P-Asserted-Identity line the values handed to the list object are exactly the value parser's
    reports for the pieces of that line's value (cut at its top-level commas); the other lines leave both lists alone -/
theorem rc_block_lists (b : Buf) (hfit : b.size ≤ 65535) :
    ∀ (k o : Nat) (hl : HdrLst) (hv : PHdrVals), b.size - o = k → HlsClean hl → hl.cur = {} → HtReady hv →
      ∀ {e : Nat} {er : Err} {hl' : HdrLst} {hb' : Option PHdrVals},
        parseHeaders b o hl (some hv) = (e, er, hl', hb') → (er = .ok ∨ er = .empty) →
        ∃ hs evs hv', RcBlock b o hv hs evs e hv' ∧ hl' = (hl.acceptAll hs).setCur { state := .fin } ∧
          hb' = some hv' ∧ er = (if (hl.acceptAll hs).n > 0 then Err.ok else Err.empty) := by
  intro k
  induction k using Nat.strongRecOn with
  | _ k ih =>
    intro o hl hv hk hc hcur hrdy e er hl' hb' hr her
    rw [parseHeaders] at hr
    by_cases hlt : o < b.size
    · rw [if_pos hlt, hcur] at hr
      rcases hp : parseHdrLine b o {} (some hv) with ⟨n, e1, h, hb1⟩
      rw [hp] at hr
      cases e1 <;> simp only at hr
      case ok =>
        obtain ⟨hv1, ev, rfl, hname, hline⟩ := rc_line_lists b o hv hfit hrdy hp
        by_cases hgt : o < n
        · rw [if_pos hgt] at hr
          have hcl := accept_clean hl h hc
          obtain ⟨hs, evs, hv', H, h1, h2, h3⟩ :=
            ih (b.size - n) (by omega) n _ hv1 rfl hcl.1 hcl.2 (hline.ready hrdy) hr her
          exact ⟨h :: hs, ev :: evs, hv', RcBlock.cons o n e hv hv1 hv' h hs ev evs hname hgt hline H, h1, h2, h3⟩
        · rw [if_neg hgt] at hr
          cases hr
          rcases her with h | h <;> cases h
      case empty =>
        obtain ⟨hem, rfl, rfl⟩ := hs_line_empty_all b o (some hv) hfit hp
        refine ⟨[], [], hv, ?_, ?_, ?_, ?_⟩
        · by_cases hn : hl.n > 0
          · rw [if_pos hn] at hr; cases hr; exact RcBlock.nil o _ hv hem
          · rw [if_neg hn] at hr; cases hr; exact RcBlock.nil o _ hv hem
        · by_cases hn : hl.n > 0
          · rw [if_pos hn] at hr; cases hr; rfl
          · rw [if_neg hn] at hr; cases hr; rfl
        · by_cases hn : hl.n > 0
          · rw [if_pos hn] at hr; cases hr; rfl
          · rw [if_neg hn] at hr; cases hr; rfl
        · show er = if hl.n > 0 then Err.ok else Err.empty
          by_cases hn : hl.n > 0
          · rw [if_pos hn] at hr; cases hr; rw [if_pos hn]
          · rw [if_neg hn] at hr; cases hr; rw [if_neg hn]
      all_goals (cases hr; rcases her with h | h <;> cases h)
    · rw [if_neg hlt] at hr
      cases hr
      rcases her with h | h <;> cases h

theorem rc_newHv_ready (kc : Nat) : HtReady (afbNewHv kc) := ⟨ht_ready_new kc, ht_paReady_new⟩

/-- **(3) ParseHeaders over EVERY chunk schedule, new header list of any capacity `kh`, new values object with a
    contact array of any capacity `kc`**: if the chain of resumed calls ends OK at `e`, then in the WHOLE buffer `B` the
    accepted text is a chain of lines (`RcBlock`): for each Contact / P-Asserted-Identity line the values handed to the
    list are exactly the value parser's reports for the pieces of the line's value (cut at its top-level commas, in
    order), all other lines leave the lists alone; hence (`RcBlock.lists`) the final contacts / identities objects are
    the new ones after exactly these lines; the header list is what accepting the reported headers produces. -/
theorem rc_block_lists_schedule (o kh kc : Nat) (l : List Buf) (hg : Growing l) (B : Buf)
    (hB : l.getLast? = some B) (hfit : B.size ≤ 65535) (h0 : ∀ b ∈ l.head?, o ≤ b.size)
    {e : Nat} {hl' : HdrLst} {hb' : Option PHdrVals}
    (hr : resumeRun afbHeadersP o (hsNew kh, some (afbNewHv kc)) l = (e, .ok, hl', hb')) :
    ∃ hs evs hv', hs ≠ [] ∧ RcBlock B o (afbNewHv kc) hs evs e hv' ∧ hb' = some hv' ∧
      hl' = ((hsNew kh).acceptAll hs).setCur { state := .fin } ∧
      hv'.contacts = ({ vals := Array.replicate kc {} } : PContacts).htLines (rcCtOf evs) ∧
      hv'.pais = ({} : PPAIs).htLines (rcPaOf evs) := by
  have hok : ∀ x ∈ l, o ≤ x.size ∧ hbOK x o (some (afbNewHv kc)) := rc_hbOK_all o kc false hg h0
  have h1 := rc_headers_last_from o kh _ l hg B hB hok (by rw [hr]; exact Or.inl rfl)
  rw [hr] at h1
  obtain ⟨hs, evs, hv', H, q1, q2, q3⟩ := rc_block_lists B hfit (B.size - o) o (hsNew kh) (afbNewHv kc) rfl
    (hsNew_ok kh).1 (hsNew_ok kh).2 (rc_newHv_ready kc) h1.symm (Or.inl rfl)
  refine ⟨hs, evs, hv', ?_, H, q2, q1, H.lists.1, H.lists.2⟩
  intro hnil
  subst hnil
  have : ((hsNew kh).acceptAll []).n = 0 := hs_new_count kh []
  rw [this] at q3
  simp at q3

/-! #### the message -/

/-- **ONE call of ParseSIPMsg from the initial state** (header list in the state of a new one, nothing counted yet, the two value
    lists between lines; EVERY input ≤ 65,535 bytes): if the call ends OK, the first line ended at `o1` and the header block
    `[o1, e)` is a chain of accepted lines in which every Contact / P-Asserted-Identity line handed exactly the pieces of
    its value to the list objects found in the final message object -/
theorem rc_msg_lists (b : Buf) (o : Nat) (m : PSIPMsg) (flags : Nat) (hfit : b.size ≤ 65535)
    (hst : m.state = .init) (hc : HlsClean m.hl) (hcur : m.hl.cur = {}) (hn0 : m.hl.n = 0) (hrdy : HtReady m.pv)
    {o' : Nat} {m' : PSIPMsg} (hr : parseSIPMsg b o m flags = (o', .ok, m')) :
    ∃ o1 e hs evs, (parseFLine b o m.fl).1 = o1 ∧ (parseFLine b o m.fl).2.1 = .ok ∧ hs ≠ [] ∧
      RcBlock b o1 m.pv hs evs e m'.pv ∧ m'.hl = (m.hl.acceptAll hs).setCur { state := .fin } := by
  have h1 : parseSIPMsg b o m flags = msgFLine b o { m with offs := o, state := .fline } flags := by
    unfold parseSIPMsg; rw [hst]
  rw [h1] at hr
  unfold msgFLine at hr
  simp only at hr
  rcases hp : parseFLine b o m.fl with ⟨o1, e1, fl1⟩
  rw [hp] at hr
  cases e1 <;> simp only at hr
  case ok =>
    rw [msgHeaders_eq] at hr
    simp only at hr
    rcases hp2 : parseHeaders b o1 m.hl (some m.pv) with ⟨o2, e2, hl2, hb2⟩
    rw [hp2] at hr
    unfold afterHeaders at hr
    cases e2 <;> simp only at hr
    case ok =>
      obtain ⟨hs, evs, hv', H, q1, q2, q3⟩ :=
        rc_block_lists b hfit (b.size - o1) o1 m.hl m.pv rfl hc hcur hrdy hp2 (Or.inl rfl)
      subst q2
      simp only [Option.getD_some] at hr
      obtain ⟨_, k2, k3⟩ := flo_msgBody_keeps b o2 { m with offs := o, fl := fl1, hl := hl2, pv := hv', state := .body } flags
      rw [hr] at k2 k3
      simp only at k2 k3
      refine ⟨o1, o2, hs, evs, rfl, rfl, ?_, by rw [k3]; exact H, by rw [k2]; exact q1⟩
      intro hnil
      subst hnil
      have hE : (if (m.hl.acceptAll []).n > 0 then Err.ok else Err.empty) = Err.ok := q3.symm
      have hn : (m.hl.acceptAll []).n = 0 := hn0
      rw [hn] at hE
      simp at hE
    all_goals (exfalso; have hq := congrArg (fun r => r.2.1) hr; simp only at hq; exact flo_msgErr_ne_ok _ _ _ _ (by decide) hq)
  all_goals (exfalso; have hq := congrArg (fun r => r.2.1) hr; simp only at hq; exact flo_msgErr_ne_ok _ _ _ _ (by decide) hq)

/-- the capacity `Init` uses: that of the caller's array, or 10 (the private array) for `nil` -/
def rcCap (x : Option Unit) (k : Nat) : Nat :=
  match x with
  | none => 10
  | some _ => k

/-- what `Init` leaves in the list objects: new ones, of the capacities supplied (10 for `nil`) -/
theorem rc_init_lists (m0 : PSIPMsg) (len kh kc : Nat) (hdrs cts : Option Unit) :
    let m := m0.init len (hdrs.map fun _ => Array.replicate kh {}) (cts.map fun _ => Array.replicate kc {})
    m.state = .init ∧ m.hl = hsNew (rcCap hdrs kh) ∧
      m.pv = afbNewHv (rcCap cts kc) := by
  cases hdrs <;> cases cts <;> exact ⟨rfl, rfl, rfl⟩

/-- **(3) ONE call of ParseSIPMsg on an object produced by Init** (any previous contents, caller arrays of any capacity
    or none), EVERY input ≤ 65,535 bytes: if the call ends OK there are the end `o1` of the first line, the end `e` of the
    header block, the reported headers `hs` (at least one) and for every header line what it was for the value lists
    (`RcBlock`): every Contact / P-Asserted-Identity line handed to the list exactly the value parser's reports for the
    pieces of its value, cut at the top-level commas; the final contacts / identities objects are the NEW ones after
    exactly these lines, in order (`htLines`; so `ht_htLines_n`, `ht_htLines_stored`, `ht_htLines_maxE / _minE`,
    `pl_lines_stored`, `pl_lines_getPAI` read them off) -/
theorem rc_msg_lists_init (b : Buf) (o : Nat) (m0 : PSIPMsg) (len kh kc : Nat) (hdrs cts : Option Unit)
    (flags : Nat) (hfit : b.size ≤ 65535) {o' : Nat} {m' : PSIPMsg}
    (hr : parseSIPMsg b o (m0.init len (hdrs.map fun _ => Array.replicate kh {}) (cts.map fun _ => Array.replicate kc {}))
      flags = (o', .ok, m')) :
    ∃ o1 e hs evs, hs ≠ [] ∧
      RcBlock b o1 (afbNewHv (rcCap cts kc)) hs evs e m'.pv ∧
      m'.hl = ((hsNew (rcCap hdrs kh)).acceptAll hs).setCur { state := .fin } ∧
      m'.pv.contacts =
        ({ vals := Array.replicate (rcCap cts kc) {} } : PContacts).htLines (rcCtOf evs) ∧
      m'.pv.pais = ({} : PPAIs).htLines (rcPaOf evs) := by
  obtain ⟨q1, q2, q3⟩ := rc_init_lists m0 len kh kc hdrs cts
  obtain ⟨o1, e, hs, evs, _, _, hne, H, hl⟩ := rc_msg_lists b o _ flags hfit q1
    (by rw [q2]; exact (hsNew_ok _).1) (by rw [q2]; exact (hsNew_ok _).2) (by rw [q2]; rfl)
    (by rw [q3]; exact rc_newHv_ready _) hr
  rw [q3] at H
  rw [q2] at hl
  exact ⟨o1, e, hs, evs, hne, H, hl, H.lists.1, H.lists.2⟩

/-- **(3) ParseSIPMsg from Init over EVERY chunk schedule** (growing prefixes within the 65,535-byte limit, every flag
    word, every capacity): if the chain of resumed calls ends OK, the statement of `rc_msg_lists_init` holds for the final
    message object, in the buffer `b` of the call that finished — a prefix of the whole buffer `B`, so every byte and
    every span of `b` is one of `B` -/
theorem rc_msg_lists_schedule_init (flags : Nat) (o : Nat) (m0 : PSIPMsg) (len kh kc : Nat)
    (hdrs cts : Option Unit) (l : List Buf) (hg : Growing l) (hfit : ∀ x ∈ l, x.size ≤ 65535) (B : Buf)
    (hB : l.getLast? = some B) (ho : ∀ b ∈ l, o ≤ b.size) {o' : Nat} {m' : PSIPMsg}
    (hr : resumeRun (C01.msgP flags) o
      (m0.init len (hdrs.map fun _ => Array.replicate kh {}) (cts.map fun _ => Array.replicate kc {})) l = (o', .ok, m')) :
    ∃ b ∈ l, (∃ t, B = b ++ t) ∧ ∃ o1 e hs evs, hs ≠ [] ∧
      RcBlock b o1 (afbNewHv (rcCap cts kc)) hs evs e m'.pv ∧
      m'.hl = ((hsNew (rcCap hdrs kh)).acceptAll hs).setCur { state := .fin } ∧
      m'.pv.contacts =
        ({ vals := Array.replicate (rcCap cts kc) {} } : PContacts).htLines (rcCtOf evs) ∧
      m'.pv.pais = ({} : PPAIs).htLines (rcPaOf evs) := by
  have hne : l ≠ [] := by intro h; rw [h] at hB; cases hB
  obtain ⟨b, hb, h⟩ := flo_schedule_init flags o m0 len kh kc hdrs cts l hg hfit hne ho hr
  exact ⟨b, hb, mlf_growing_last hg hB b hb, rc_msg_lists_init b o m0 len kh kc hdrs cts flags (hfit b hb) h⟩

/-! #### the statement in the WHOLE buffer: `RcBlock` only speaks about bytes that are there, so it survives appending -/

theorem rc_Eol_app {b : Buf} {p e : Nat} (t : Buf) (h : Eol b p e) : Eol (b ++ t) p e := by
  cases h with
  | crlf h0 h1 => exact .crlf p (get?_app h0) (get?_app h1)
  | cr c h0 h1 hc => exact .cr p c (get?_app h0) (get?_app h1) hc
  | lf c h0 h1 => exact .lf p c (get?_app h0) (get?_app h1)

theorem rc_EmptyLine_app {b : Buf} {o e : Nat} (t : Buf) (h : EmptyLine b o e) : EmptyLine (b ++ t) o e := by
  cases h with
  | crlf h0 h1 => exact .crlf o (get?_app h0) (get?_app h1)
  | cr c h0 h1 hc => exact .cr o c (get?_app h0) (get?_app h1) hc
  | lf h0 => exact .lf o (get?_app h0)

theorem rc_HsNameAt_app {b : Buf} {o : Nat} {h : Hdr} (t : Buf) (H : HsNameAt b o h) : HsNameAt (b ++ t) o h := by
  obtain ⟨n, c, h1, h2, h3, h4, h5, h6, h7, h8⟩ := H
  have hcl := get?_lt h5
  refine ⟨n, c, ?_, h2, ?_, h4, get?_app h5, h6, ?_, h8⟩
  · intro k k1 k2
    obtain ⟨x, hx, r⟩ := h1 k k1 k2
    exact ⟨x, get?_app hx, r⟩
  · intro k k1 k2
    obtain ⟨x, hx, r⟩ := h3 k k1 k2
    exact ⟨x, get?_app hx, r⟩
  · rw [extract_app b t o n (by omega)]; exact h7

theorem rc_get?_app_lt {b t : Buf} {i : Nat} (h : i < b.size) : (b ++ t)[i]? = b[i]? := by
  cases hb : b[i]? with
  | none =>
    have := Array.getElem?_eq_none_iff.1 hb
    omega
  | some c => exact get?_app hb

theorem rc_nsModeAt_app (b t : Buf) (o : Nat) : ∀ k, o + k ≤ b.size → nsModeAt (b ++ t) o k = nsModeAt b o k := by
  intro k
  induction k with
  | zero => intro _; rfl
  | succ k ih =>
    intro hk
    rw [nsModeAt, nsModeAt, rc_get?_app_lt (by omega), ih (by omega)]

theorem rc_NsTopComma_app {b t : Buf} {o j : Nat} (hj : j < b.size) (h : NsTopComma (b ++ t) o j) : NsTopComma b o j := by
  obtain ⟨h1, h2, h3⟩ := h
  rw [rc_get?_app_lt hj] at h1
  rw [rc_nsModeAt_app b t o (j - o) (by omega)] at h3
  exact ⟨h1, h2, h3⟩

theorem rc_NsNoComma_app {b : Buf} {o e : Nat} (t : Buf) (he : e ≤ b.size) (h : NsNoComma b o e) :
    NsNoComma (b ++ t) o e :=
  fun j h1 h2 hc => h j h1 h2 (rc_NsTopComma_app (by omega) hc)

theorem rc_NsEol_app {b : Buf} {o o' : Nat} (t : Buf) (h : NsEol b o o') : NsEol (b ++ t) o o' := by
  obtain ⟨p, h1, h2, c2, h3, h4⟩ := h
  exact ⟨p, h1, rc_Eol_app t h2, c2, get?_app h3, h4⟩

theorem rc_NsSegs_app {h : Nat} {b : Buf} {o o' : Nat} {L : List (Nat × PFromBody)} (t : Buf)
    (H : NsSegs h b o L o') : NsSegs h (b ++ t) o L o' := by
  induction H with
  | last o o' r hp hn he =>
    have hlt := NsEol.lt he
    obtain ⟨_, _, _, c2, h3, _⟩ := id he
    have ho' := get?_lt h3
    exact .last o o' r (parseNameAddrPVal_stable h b t o {} (naOK_new b o (by omega)) hp (by decide))
      (rc_NsNoComma_app t (by omega) hn) (rc_NsEol_app t he)
  | cons o j o' r rest hp hj ht hn _ ih =>
    have hjl := get?_lt hj
    have hoj := ht.1
    refine .cons o j o' r rest (parseNameAddrPVal_stable h b t o {} (naOK_new b o (by omega)) hp (by decide))
      (get?_app hj) ⟨hoj, ?_⟩ (rc_NsNoComma_app t (by omega) hn) ih
    rw [rc_nsModeAt_app b t o (j - o) (by omega)]; exact ht.2

theorem RcLine.app {b : Buf} {o e : Nat} {hv hv' : PHdrVals} {h : Hdr} {ev : RcEv} (t : Buf)
    (H : RcLine b o hv e h hv' ev) : RcLine (b ++ t) o hv e h hv' ev := by
  cases ev with
  | other => exact H
  | contact c L =>
    obtain ⟨h1, h2, h3, h4, h5, h6⟩ := H
    exact ⟨h1, h2, get?_app h3, rc_NsSegs_app t h4, h5, h6⟩
  | pai c L =>
    obtain ⟨h1, h2, h3, h4, h5, h6, h7⟩ := H
    exact ⟨h1, h2, get?_app h3, rc_NsSegs_app t h4, h5, h6, h7⟩

theorem RcBlock.app {b : Buf} {o e : Nat} {hv hv' : PHdrVals} {hs : List Hdr} {evs : List RcEv} (t : Buf)
    (H : RcBlock b o hv hs evs e hv') : RcBlock (b ++ t) o hv hs evs e hv' := by
  induction H with
  | nil o e hv he => exact .nil o e hv (rc_EmptyLine_app t he)
  | cons o e1 e hv hv1 hv' h hs ev evs hn hlt hline _ ih =>
    exact .cons o e1 e hv hv1 hv' h hs ev evs (rc_HsNameAt_app t hn) hlt (hline.app t) ih

/-- **(3) ParseSIPMsg from Init over EVERY chunk schedule, stated in the WHOLE buffer `B`** (the last element of the
    growing list `l`; every chunk within the 65,535-byte limit, every flag word, caller arrays of any capacity or none):
    if the chain of resumed calls ends OK with the object `m'`, there are the reported headers `hs` (at least one) and,
    line by line, what each accepted header line of `B` was for the value lists (`RcBlock B …`): every Contact /
    P-Asserted-Identity line handed to its list exactly the value parser's reports for the pieces of its value, cut at
    its top-level commas, in order; every other line left both lists alone; the contacts / identities of `m'` are the
    NEW objects after exactly these lines (`htLines` of the piece values), and the header list of `m'` is what accepting
    `hs` produces. -/
theorem rc_msg_lists_schedule_whole (flags : Nat) (o : Nat) (m0 : PSIPMsg) (len kh kc : Nat)
    (hdrs cts : Option Unit) (l : List Buf) (hg : Growing l) (hfit : ∀ x ∈ l, x.size ≤ 65535) (B : Buf)
    (hB : l.getLast? = some B) (ho : ∀ b ∈ l, o ≤ b.size) {o' : Nat} {m' : PSIPMsg}
    (hr : resumeRun (C01.msgP flags) o
      (m0.init len (hdrs.map fun _ => Array.replicate kh {}) (cts.map fun _ => Array.replicate kc {})) l = (o', .ok, m')) :
    ∃ o1 e hs evs, hs ≠ [] ∧ RcBlock B o1 (afbNewHv (rcCap cts kc)) hs evs e m'.pv ∧
      m'.hl = ((hsNew (rcCap hdrs kh)).acceptAll hs).setCur { state := .fin } ∧
      m'.pv.contacts = ({ vals := Array.replicate (rcCap cts kc) {} } : PContacts).htLines (rcCtOf evs) ∧
      m'.pv.pais = ({} : PPAIs).htLines (rcPaOf evs) := by
  obtain ⟨b, _, ⟨t, rfl⟩, o1, e, hs, evs, q1, q2, q3, q4, q5⟩ :=
    rc_msg_lists_schedule_init flags o m0 len kh kc hdrs cts l hg hfit B hB ho hr
  exact ⟨o1, e, hs, evs, q1, q2.app t, q3, q4, q5⟩

/-! ### F. non-vacuity and tests (closed computations on the model by `decide +kernel`: examples, NOT the general claims) -/

/-- test buffer: a Contact value list; a comma inside the quoted display name, the separating comma at offset 13 -/
def rcExA : Buf := "\"a,b\" <sip:x>,<sip:y>\r\nX".toUTF8.data

/-- a 3-chunk schedule: the first cut is INSIDE the quoted string (after `"a,`), the second inside the second value -/
def rcExACuts : List Buf := [rcExA.extract 0 3, rcExA.extract 0 15, rcExA]

theorem rcExACuts_growing : Growing rcExACuts :=
  ⟨⟨rcExA.extract 3 15, by decide +kernel⟩, ⟨rcExA.extract 15 24, by decide +kernel⟩, trivial⟩

/-- test (evaluation): the first two calls are suspended — the first one in the middle of the quoted string —, the chain
    of resumed calls ends OK at 23 with two values counted (capacity 1) -/
theorem rcExA_run :
    (parseAllContactValues (rcExA.extract 0 3) 0 { vals := Array.replicate 1 {} }).2.1 = .moreBytes ∧
    (parseAllContactValues (rcExA.extract 0 3) 0 { vals := Array.replicate 1 {} }).2.2.cur.state = .quoted ∧
    (parseAllContactValues (rcExA.extract 0 15) 0 { vals := Array.replicate 1 {} }).2.1 = .moreBytes ∧
    (resumeRun parseAllContactValues 0 { vals := Array.replicate 1 {} } rcExACuts).1 = 23 ∧
    (resumeRun parseAllContactValues 0 { vals := Array.replicate 1 {} } rcExACuts).2.1 = .ok ∧
    (resumeRun parseAllContactValues 0 { vals := Array.replicate 1 {} } rcExACuts).2.2.n = 2 := by decide +kernel

/-- non-vacuity of `rc_contact_list_converse_schedule`: ALL its hypotheses hold of that schedule; the conclusion
    instantiates to: two pieces, one top-level comma in `[0, 23)` (the comma inside the quotes does not count) -/
example : ∃ L : List (Nat × PFromBody), NsSegs HdrContact rcExA 0 L 23 ∧ NsVSpans rcExA L 23 ∧ L.length = 2 ∧
    nsCommaCount rcExA 0 23 + 1 = 2 := by
  have hr := mlf_triple_eta _ rcExA_run.2.2.2.1 rcExA_run.2.2.2.2.1
  obtain ⟨_, L, h1, h2, _, h3, h4, _⟩ := rc_contact_list_converse_schedule 0 1 rcExACuts rcExACuts_growing rcExA rfl
    (by decide) (by intro b hb; simp [rcExACuts] at hb; subst hb; exact Nat.zero_le _) hr
  exact ⟨L, h1, h2, by rw [← h3]; exact rcExA_run.2.2.2.2.2, by rw [← h4]; exact rcExA_run.2.2.2.2.2⟩

/-- test: the same cuts at value level (ParseNameAddrPVal for Contact): the chain ends with "more values" at 14, and
    `rc_value_more_schedule` applies: the comma at 13 is the first top-level comma of the whole buffer -/
example : rcExA[13]? = some 44 ∧ NsTop rcExA 0 13 ∧ NsNoComma rcExA 0 13 := by
  have hrun : (resumeRun (parseNameAddrPVal HdrContact) 0 {} rcExACuts).1 = 14 ∧
      (resumeRun (parseNameAddrPVal HdrContact) 0 {} rcExACuts).2.1 = .moreValues := by decide +kernel
  have hr := mlf_triple_eta _ hrun.1 hrun.2
  have := rc_value_more_schedule HdrContact 0 rcExACuts rcExACuts_growing rcExA rfl
    (by intro b hb; simp [rcExACuts] at hb; subst hb; exact Nat.zero_le _) hr
  exact ⟨this.2.2.2.1, this.2.2.2.2.1, this.2.2.2.2.2⟩

/-- test buffer: a From value; the schedule cuts it INSIDE the tag (`…;tag=a|bc`) and inside the CR LF -/
def rcExF : Buf := "<sip:a@b>;tag=abc\r\nX".toUTF8.data
def rcExFCuts : List Buf := [rcExF.extract 0 15, rcExF.extract 0 18, rcExF]

theorem rcExFCuts_growing : Growing rcExFCuts :=
  ⟨⟨rcExF.extract 15 18, by decide +kernel⟩, ⟨rcExF.extract 18 20, by decide +kernel⟩, trivial⟩

/-- test (evaluation): the first call stops in the middle of the tag value, the second inside the line end; the chain
    ends OK at 19 with the tag `abc` as written -/
theorem rcExF_run :
    (parseNameAddrPVal HdrFrom (rcExF.extract 0 15) 0 {}).2.1 = .moreBytes ∧
    (parseNameAddrPVal HdrFrom (rcExF.extract 0 15) 0 {}).2.2.state = .paramVal ∧
    (parseNameAddrPVal HdrFrom (rcExF.extract 0 18) 0 {}).2.1 = .moreBytes ∧
    (resumeRun (parseNameAddrPVal HdrFrom) 0 {} rcExFCuts).1 = 19 ∧
    (resumeRun (parseNameAddrPVal HdrFrom) 0 {} rcExFCuts).2.1 = .ok ∧
    (resumeRun (parseNameAddrPVal HdrFrom) 0 {} rcExFCuts).2.2.tag = ⟨14, 3⟩ := by decide +kernel

/-- non-vacuity of `rc_value_ok_schedule`: the chain's object is the one ONE call on the whole buffer reports -/
example : (parseNameAddrPVal HdrFrom rcExF 0 {}).2.2.tag = ⟨14, 3⟩ ∧ NsEol rcExF 0 19 := by
  have hr := mlf_triple_eta _ rcExF_run.2.2.2.1 rcExF_run.2.2.2.2.1
  obtain ⟨h1, h2, _⟩ := rc_value_ok_schedule HdrFrom 0 rcExFCuts rcExFCuts_growing rcExF rfl
    (by intro b hb; simp [rcExFCuts] at hb; subst hb; exact Nat.zero_le _) hr
  exact ⟨by rw [h1]; exact rcExF_run.2.2.2.2.2, h2⟩

/-- test buffer: a header block — a Contact line (compact name `m`) with two values, a Via line, a From line -/
def rcExH : Buf := "m:\"a,b\" <sip:x>,<sip:y>\r\nv:x\r\nf:<sip:q>;tag=zz\r\n\r\n".toUTF8.data

/-- cuts: inside the quoted string of the first Contact value, inside the Via line, inside the From tag -/
def rcExHCuts : List Buf := [rcExH.extract 0 5, rcExH.extract 0 28, rcExH.extract 0 44, rcExH]

theorem rcExHCuts_growing : Growing rcExHCuts :=
  ⟨⟨rcExH.extract 5 28, by decide +kernel⟩, ⟨rcExH.extract 28 44, by decide +kernel⟩,
   ⟨rcExH.extract 44 50, by decide +kernel⟩, trivial⟩

/-- test (evaluation): ParseHeaders (2 header slots, 1 contact slot) is suspended three times — in the Contact value,
    in the Via line, in the From value — and ends OK at 50 with 3 headers, 2 contacts, 1 Contact line -/
theorem rcExH_run :
    (afbHeadersP (rcExH.extract 0 5) 0 (hsNew 2, some (afbNewHv 1))).2.1 = .moreBytes ∧
    (afbHeadersP (rcExH.extract 0 28) 0 (hsNew 2, some (afbNewHv 1))).2.1 = .moreBytes ∧
    (afbHeadersP (rcExH.extract 0 44) 0 (hsNew 2, some (afbNewHv 1))).2.1 = .moreBytes ∧
    (resumeRun afbHeadersP 0 (hsNew 2, some (afbNewHv 1)) rcExHCuts).1 = 50 ∧
    (resumeRun afbHeadersP 0 (hsNew 2, some (afbNewHv 1)) rcExHCuts).2.1 = .ok ∧
    (resumeRun afbHeadersP 0 (hsNew 2, some (afbNewHv 1)) rcExHCuts).2.2.1.n = 3 := by decide +kernel

/-- non-vacuity of `rc_block_lists_schedule` and `rc_block_all_report_schedule`: all hypotheses hold of that schedule -/
example : ∃ hs evs hv', hs.length = 3 ∧ RcBlock rcExH 0 (afbNewHv 1) hs evs 50 hv' ∧
    hv'.contacts = ({ vals := Array.replicate 1 {} } : PContacts).htLines (rcCtOf evs) := by
  have hr := mlf_triple_eta _ rcExH_run.2.2.2.1 rcExH_run.2.2.2.2.1
  have h0 : ∀ b ∈ rcExHCuts.head?, 0 ≤ b.size := fun _ _ => Nat.zero_le _
  obtain ⟨hs, evs, hv', _, H, _, hl, hc, _⟩ :=
    rc_block_lists_schedule 0 2 1 rcExHCuts rcExHCuts_growing rcExH rfl (by decide) h0 hr
  refine ⟨hs, evs, hv', ?_, H, hc⟩
  have hn := rcExH_run.2.2.2.2.2
  rw [hl, (hs_new_report 2 hs).1] at hn
  exact hn

/-- test message: a Contact line with two values (comma inside the quoted name), From, Call-ID, CSeq -/
def rcExM : Buf :=
  "REGISTER sip:a SIP/2.0\r\nm:\"a,b\" <sip:x>,<sip:y>\r\nf:<sip:q>;tag=zz\r\nCall-ID: x\r\nCSeq: 1 REGISTER\r\n\r\n".toUTF8.data

/-- the message object after Init with a 3-slot header array and a 1-slot contact array -/
def rcExM0 : PSIPMsg :=
  ({} : PSIPMsg).init 0 ((some ()).map fun _ => Array.replicate 3 {}) ((some ()).map fun _ => Array.replicate 1 {})

/-- cuts: inside the quoted string of the first Contact value (`m:"a,|b"`), inside the From tag (`tag=z|z`) -/
def rcExMCuts : List Buf := [rcExM.extract 0 29, rcExM.extract 0 64, rcExM]

theorem rcExMCuts_growing : Growing rcExMCuts :=
  ⟨⟨rcExM.extract 29 64, by decide +kernel⟩, ⟨rcExM.extract 64 99, by decide +kernel⟩, trivial⟩

/-- test (evaluation): two suspensions, then OK at 99 with two contacts counted -/
theorem rcExM_run :
    (parseSIPMsg (rcExM.extract 0 29) 0 rcExM0 0).2.1 = .moreBytes ∧
    (parseSIPMsg (rcExM.extract 0 64) 0 rcExM0 0).2.1 = .moreBytes ∧
    (resumeRun (C01.msgP 0) 0 rcExM0 rcExMCuts).1 = 99 ∧
    (resumeRun (C01.msgP 0) 0 rcExM0 rcExMCuts).2.1 = .ok ∧
    (resumeRun (C01.msgP 0) 0 rcExM0 rcExMCuts).2.2.pv.contacts.n = 2 := by decide +kernel

/-- non-vacuity of `rc_msg_lists_schedule_init`: all its hypotheses hold of that schedule; the two contacts of the final
    object are the pieces of the one Contact line -/
example : ∃ b ∈ rcExMCuts, ∃ o1 e hs evs hv', RcBlock b o1 (afbNewHv 1) hs evs e hv' ∧
    hv'.contacts = ({ vals := Array.replicate 1 {} } : PContacts).htLines (rcCtOf evs) ∧
    (rcCtOf evs).flatten.length = 2 := by
  have hr := mlf_triple_eta _ rcExM_run.2.2.1 rcExM_run.2.2.2.1
  obtain ⟨b, hb, _, o1, e, hs, evs, _, H, _, hc, _⟩ :=
    rc_msg_lists_schedule_init 0 0 {} 0 3 1 (some ()) (some ()) rcExMCuts rcExMCuts_growing
      (by intro x hx; simp [rcExMCuts] at hx; rcases hx with rfl | rfl | rfl <;> decide) rcExM rfl
      (fun _ _ => Nat.zero_le _) hr
  refine ⟨b, hb, o1, e, hs, evs, _, H, hc, ?_⟩
  have hn := rcExM_run.2.2.2.2
  rw [hc, ht_htLines_n] at hn
  have h0 : ({ vals := Array.replicate (rcCap (some ()) 1) {} } : PContacts).n = 0 := rfl
  rw [h0] at hn
  omega

/-- cuts of the demo text `Q :z CR LF W: CR LF CR LF X` of HdrSound: inside the first name / white space, inside the
    second line, inside the final empty line -/
def rcExGCuts : List Buf := [hsDemo.extract 0 2, hsDemo.extract 0 7, hsDemo.extract 0 11, hsDemo]

theorem rcExGCuts_growing : Growing rcExGCuts :=
  ⟨⟨hsDemo.extract 2 7, by decide +kernel⟩, ⟨hsDemo.extract 7 11, by decide +kernel⟩,
   ⟨hsDemo.extract 11 13, by decide +kernel⟩, trivial⟩

/-- non-vacuity of `rc_block_ok_iff_schedule` / `rc_block_sound_schedule` (no values object, capacity 1): the chain ends
    OK at 12, hence `[0, 12)` of the whole text is a non-empty block of the grammar -/
example : ∃ hs, hs ≠ [] ∧ HdrBlock hsDemo 0 hs 12 := by
  have hrun : (resumeRun afbHeadersP 0 (hsNew 1, rcHb true 0) rcExGCuts).1 = 12 ∧
      (resumeRun afbHeadersP 0 (hsNew 1, rcHb true 0) rcExGCuts).2.1 = .ok := by decide +kernel
  have hr := mlf_triple_eta _ hrun.1 hrun.2
  obtain ⟨hs, h1, h2, _⟩ := (rc_block_ok_iff_schedule 0 1 0 true rcExGCuts rcExGCuts_growing hsDemo rfl
    (by decide +kernel) (fun _ _ => Nat.zero_le _) (Or.inl rfl) 12 _ _).mp hr
  exact ⟨hs, h1, h2⟩

/-- test buffer: a From line (compact name `f`); the cut is INSIDE the tag, i.e. in the middle of a typed value -/
def rcExL : Buf := "f:<sip:q>;tag=zz\r\nX".toUTF8.data
def rcExLCuts : List Buf := [rcExL.extract 0 15, rcExL]

theorem rcExLCuts_growing : Growing rcExLCuts := ⟨⟨rcExL.extract 15 19, by decide +kernel⟩, trivial⟩

/-- test (evaluation): the first ParseHdrLine call is suspended inside the From value (header state `hFrom`) -/
theorem rcExL_run :
    (afbHdrLineP (rcExL.extract 0 15) 0 ({}, some (afbNewHv 1))).2.1 = .moreBytes ∧
    (afbHdrLineP (rcExL.extract 0 15) 0 ({}, some (afbNewHv 1))).2.2.1.state = .hFrom ∧
    (parseFromVal rcExL 2 {}).1 = 18 ∧ (parseFromVal rcExL 2 {}).2.1 = .ok ∧
    (parseFromVal rcExL 2 {}).2.2.tag = ⟨14, 2⟩ := by decide +kernel

/-- non-vacuity of `rc_typed_from_schedule`: all its hypotheses hold; the chain suspended in the middle of the tag returns
    the From object ONE call of ParseFromVal on the whole buffer reports (tag `zz` as written) -/
example : (resumeRun afbHdrLineP 0 ({}, some (afbNewHv 1)) rcExLCuts).1 = 18 ∧
    (resumeRun afbHdrLineP 0 ({}, some (afbNewHv 1)) rcExLCuts).2.1 = .ok ∧
    ∃ hv', (resumeRun afbHdrLineP 0 ({}, some (afbNewHv 1)) rcExLCuts).2.2.2 = some hv' ∧ hv'.from_.tag = ⟨14, 2⟩ := by
  have hok := (rc_newHv_ok 0 1 rcExLCuts_growing (fun _ _ => Nat.zero_le _)).1
  have hp := mlf_triple_eta _ rcExL_run.2.2.1 rcExL_run.2.2.2.1
  have := rc_typed_from_schedule 0 1 1 (afbNewHv 1) rcExLCuts rcExLCuts_growing rcExL rfl (by decide) hok
    (fun k h1 h2 => by
      have : k = 0 := by omega
      subst this
      exact ⟨102, by decide, by decide, by decide⟩)
    (by decide) (fun k h1 h2 => by omega) (Nat.le_refl _) (by decide) (by decide +kernel) rfl hp (Or.inl rfl)
  rw [this]
  exact ⟨rfl, rfl, _, rfl, rcExL_run.2.2.2.2⟩

/-- non-vacuity of `rc_line_lists_schedule` on the Contact line of `rcExH` cut inside the quoted string: the line is
    reported as a Contact line with two pieces -/
example : ∃ c L hv', RcLine rcExH 0 (afbNewHv 1) 25 (resumeRun afbHdrLineP 0 ({}, some (afbNewHv 1))
    [rcExH.extract 0 5, rcExH]).2.2.1 hv' (.contact c L) ∧ L.length = 2 := by
  have hg : Growing [rcExH.extract 0 5, rcExH] := ⟨⟨rcExH.extract 5 50, by decide +kernel⟩, trivial⟩
  have hrun : (resumeRun afbHdrLineP 0 ({}, some (afbNewHv 1)) [rcExH.extract 0 5, rcExH]).1 = 25 ∧
      (resumeRun afbHdrLineP 0 ({}, some (afbNewHv 1)) [rcExH.extract 0 5, rcExH]).2.1 = .ok ∧
      (resumeRun afbHdrLineP 0 ({}, some (afbNewHv 1)) [rcExH.extract 0 5, rcExH]).2.2.1.type = HdrContact ∧
      ((resumeRun afbHdrLineP 0 ({}, some (afbNewHv 1)) [rcExH.extract 0 5, rcExH]).2.2.2.map
        (fun hv => hv.contacts.n)) = some 2 := by decide +kernel
  have hr := mlf_triple_eta _ hrun.1 hrun.2.1
  have hnew := rc_newHv_ok 0 1 hg (fun _ _ => Nat.zero_le _)
  obtain ⟨_, hv', ev, hb, _, hline⟩ := rc_line_lists_schedule 0 (afbNewHv 1) _ hg rcExH rfl (by decide) hnew.1 hnew.2 hr
  cases ev with
  | other => exact absurd hrun.2.2.1 hline.1
  | pai c L => have := hline.1; rw [hrun.2.2.1] at this; exact absurd this (by decide)
  | contact c L =>
    refine ⟨c, L, hv', hline, ?_⟩
    have hn := hrun.2.2.2
    rw [hb] at hn
    simp only [Option.map_some, Option.some.injEq] at hn
    obtain ⟨_, _, _, _, rfl, _⟩ := hline
    rw [ht_htLine_n, List.length_map] at hn
    have h0 : (afbNewHv 1).contacts.n = 0 := rfl
    rw [h0] at hn
    omega

end Sipsp
