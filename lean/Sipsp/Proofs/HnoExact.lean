/-
  Sipsp.Proofs.HnoExact — EXPORT C05: (1) WHICH stored header line each stored Contact / P-Asserted-Identity value belongs
  to (exactly, by cumulative counts; `HNo` = number of header lines of the type); (2) `cseq_number_before_method`: the CSeq
  number ends strictly before the method, both non-empty.  Everything is about the model, for EVERY input within the
  65,535-byte limit (no grammar assumption), any capacities, and every chunk schedule from Init.

  (0) `hx_parseHdrLine_split` (no hypothesis on the buffer or the values object): ParseHdrLine, started on a header object
      that has not reached the colon (in particular a new one), either leaves the values object alone — and after OK the
      value was scanned generically, i.e. the dispatch `parseBody` did nothing for that type (`HxGen`) — or its result is
      that of ONE call of `parseBody` on a header in the "body start" state with the values object the line started with.
      `hx_parseBody_frame`: what that call leaves alone (type of the header; the Contact list unless the type is Contact;
      the identity list unless the type is P-Asserted-Identity; the CSeq object unless the type is CSeq and the object is
      not yet parsed — then it is one call of ParseCSeqVal).
  (1) * counters: `hx_contactsLoop_cnt`, `hx_contact_line_cnt` (`hx_paisLoop_cnt`, `hx_pai_line_cnt`): the value-list loop
        never touches `HNo`, and after OK at least one value was counted; `hx_line_cnt` (`HxCnt`): an accepted header line
        of the list's type raises `HNo` by exactly one and `N` by at least one; a line of any other type changes neither.
      * `HxAssoc ty hl vals n hNo` (spelled out in `HxAssoc.meaning_all_stored`, `HxAssoc.meaning`, `HxAssoc.value_line`):
        let `idx` be the positions of the accepted header lines of type `ty` (in message order); then `idx.length = hNo`,
        and there is a list `cnt` of `hNo` counts, each ≥ 1, with sum `n`, such that the values with index in
        `[hxStart cnt i, hxStart cnt (i+1))` (cumulative counts: the values of the first line first, then those of the
        second, …) are the values of line `idx[i]`: each of them that is stored is not empty and lies inside the `val` of
        THAT header (if it is stored).  When the header array holds all headers (`hl.n ≤ capacity`) `idx` is computed from
        the stored headers: `(List.range hl.n).filter (fun j => hl.hdrs[j]!.type == ty)`.  `hx_block_exists` /
        `hx_block_unique`: every value index below `n` lies in exactly one block.
      * `HxAssoc.next`, `HxAssoc.setCur`, `HxInv`, `hx_parseHeaders` (ParseHeaders, one call from the start of a line on a
        legitimate list: same hypotheses as `pl_parseHeaders`), `hx_parseHeaders_init` (ParseHeaders on the list / values
        object of an Init object), `hx_parseSIPMsg`, `hx_values_exact_init` (one successful ParseSIPMsg call on an Init
        object, any capacities), `hx_values_exact_schedule_init` (every chain of resumed calls over growing prefixes,
        through the one-shot equivalence): `HxMsg m'` = `HxAssoc` for the Contact list and for the identity list (and (2)).
      This strengthens `PlAssoc` of PaiLines (a monotone map into the header lines, right type): the map is now exact —
      onto the lines of the type, no line without a value, `HNo` lines in all.
  (2) `HxCsStrict` (number not empty, number end < method start, method not empty); `HxCsI` (resumption invariant, holds
      of every object in the initial state); `hx_parseCSeqVal_strict` (`HxCsT`: OK ⇒ strict order, MoreBytes ⇒ the invariant
      again: so a value parsed over any number of calls on the same buffer is covered), `hx_parseCSeqVal_strict_new`;
      `hx_line_cseq`, and message level: `hx_cseq_number_before_method` (from `HxMsg`), `_init`, `_schedule_init` ("a CSeq
      header was accepted" = its type flag is set, also when the header array was too small to store it).
      Why strict: the number ends at a white-space byte and the method starts at a byte that is not white space.
  Non-vacuity / tests at the end (`hxTest_msg` and the `decide +kernel` examples: labelled tests, not the general claims).
  NOT proved here: that the counts `cnt` are unique (they are, because the header values do not overlap — `HlsLo` — and the
  stored values are not empty, but this is not derived); that the `val` of a Contact header starts with its first value and
  ends with its last one (only containment); (1) for objects suspended in the middle of a header line other than through
  the one-shot equivalence (growing prefixes within the size limit); trimming of white space inside name-addr spans
  (task item (3): see the final report of this file's author — the shapes are described there, not proved).
-/
import Sipsp.Proofs.PaiLines

namespace Sipsp

/-! ### (0) ParseHdrLine from a new header object factors through ONE call of the value dispatch -/

/-- states of a header object before the colon -/
def HxPre (s : HState) : Prop := s = .init ∨ s = .name ∨ s = .nameEnd

/-- "the value of a header of type `t` is scanned generically": the dispatch, asked at some position with a header of
    that type, left the header in the "body start" state (nothing to do for this type / this values object) -/
def HxGen (b : Buf) (hv : PHdrVals) (t : Nat) : Prop :=
  ∃ i h1, h1.state = .bodyStart ∧ h1.type = t ∧ (parseBody b i h1 (some hv)).2.2.1.state = .bodyStart

/-- loop invariant: the values object is still the one the line started with; after the colon the value is being
    scanned generically -/
def HxS (b : Buf) (hv : PHdrVals) : Nat → HLσ → Prop := fun _ st =>
  st.2 = some hv ∧ (HxPre st.1.state ∨ (svG3 st.1.state ∧ HxGen b hv st.1.type))

/-- what a finished line is: the values object was left alone (and after OK the value was scanned generically), or the
    result is that of ONE call of the dispatch `parseBody` at a position inside the buffer on a header in the "body
    start" state with the values object the line started with -/
def HxT (b : Buf) (hv : PHdrVals) : Nat → Err → HLσ → Prop := fun o' e st =>
  ∃ hv', st.2 = some hv' ∧
    ((hv' = hv ∧ (e = .ok → HxGen b hv st.1.type)) ∨
     (∃ i h1 h2, i ≤ b.size ∧ h1.state = .bodyStart ∧ parseBody b i h1 (some hv) = (o', e, h2, some hv') ∧
        h2.state ≠ .bodyStart ∧ e ≠ .empty ∧ st.1 = (if e == .ok then { h2 with state := .fin } else h2)))

theorem hx_T_err {b : Buf} (hv : PHdrVals) (n : Nat) {e : Err} (h : Hdr) (he : e ≠ .ok) : HxT b hv n e (h, some hv) :=
  ⟨hv, rfl, Or.inl ⟨rfl, fun hh => absurd hh he⟩⟩

theorem hx_T_gen {b : Buf} (hv : PHdrVals) (n : Nat) {e : Err} (h : Hdr) (hg : HxGen b hv h.type) :
    HxT b hv n e (h, some hv) :=
  ⟨hv, rfl, Or.inl ⟨rfl, fun _ => hg⟩⟩

theorem hx_hlAfterColon (b : Buf) (i : Nat) (h : Hdr) (hv : PHdrVals) (hi : i ≤ b.size) (hst : h.state = .bodyStart) :
    StepAll2 (HxS b hv) (HxT b hv) (hlAfterColon b i h (some hv)) := by
  unfold hlAfterColon
  split
  · exact hx_T_err hv _ _ (by decide)
  · rename_i nm _
    simp only
    rcases hp : parseBody b i { h with type := getHdrType nm } (some hv) with ⟨n, e, h2, hb2⟩
    obtain ⟨hv2, rfl, _⟩ := svl_parseBody b i { h with type := getHdrType nm } hv hp
    simp only
    by_cases hs2 : h2.state = .bodyStart
    · obtain ⟨_, _, hh2, hb2e⟩ := parseBody_keep b i _ (some hv) hp hs2
      cases hb2e
      have hne : ((h2.state != HState.bodyStart) = true) = False := by rw [hs2]; simp
      simp only [hne, ↓reduceIte]
      refine ⟨rfl, Or.inr ⟨Or.inl hs2, i, { h with type := getHdrType nm }, hst, ?_, ?_⟩⟩
      · rw [hh2]
      · rw [hp]; exact hs2
    · have hne1 : (h2.state != HState.bodyStart) = true := by simpa using hs2
      simp only [hne1, ↓reduceIte]
      have hne : e ≠ .empty := by
        have := parseBody_ne_empty b i { h with type := getHdrType nm } (some hv)
        rw [hp] at this; exact this
      exact ⟨hv2, rfl, Or.inr ⟨i, { h with type := getHdrType nm }, h2, hi, hst, hp, hs2, hne, rfl⟩⟩

theorem hx_hlName (b : Buf) (i : Nat) (h : Hdr) (hv : PHdrVals) :
    StepAll2 (HxS b hv) (HxT b hv) (hlName b i h (some hv)) := by
  unfold hlName
  simp only
  split
  · exact hx_T_err hv _ _ (by decide)
  · rename_i c hj
    have hjl := get?_lt hj
    split
    · split
      · exact hx_T_err hv _ _ (by decide)
      · exact ⟨rfl, Or.inl (Or.inr (Or.inr rfl))⟩
    · split
      · split
        · exact hx_T_err hv _ _ (by decide)
        · exact hx_hlAfterColon b _ _ hv (by omega) rfl
      · exact hx_T_err hv _ _ (by decide)

theorem hx_hlValEnd (b : Buf) (i : Nat) (h : Hdr) (hv : PHdrVals) (hg : HxGen b hv h.type) :
    StepAll2 (HxS b hv) (HxT b hv) (hlValEnd b i h (some hv)) := by
  unfold hlValEnd
  rcases hsk : skipLWS b i 0 with ⟨n, crl, e⟩
  cases e <;> simp only
  case ok => exact ⟨rfl, Or.inr ⟨Or.inr (Or.inl rfl), hg⟩⟩
  case eoh => exact hx_T_gen hv _ _ hg
  all_goals exact hx_T_err hv _ _ (by decide)

theorem hx_hlStep (b : Buf) (i : Nat) (c : UInt8) (st : HLσ) (hv : PHdrVals)
    (hb : b[i]? = some c) (H : HxS b hv i st) : StepAll2 (HxS b hv) (HxT b hv) (hlStep b i c st) := by
  obtain ⟨h, hb0⟩ := st
  obtain ⟨hq, hg⟩ := H
  simp only at hq hg
  subst hq
  have hlt := get?_lt hb
  have hgen : svG3 h.state → HxGen b hv h.type := by
    intro h3
    rcases hg with hh | hh
    · exfalso
      rcases h3 with h3 | h3 | h3 <;> rw [h3] at hh <;> rcases hh with hh | hh | hh <;> cases hh
    · exact hh.2
  unfold hlStep
  simp only
  cases hst : h.state <;> simp only
  case init =>
    split
    · split
      · exact hx_T_err hv _ _ (by decide)
      · split
        · exact hx_T_err hv _ _ (by decide)
        · exact hx_T_err hv _ _ (by decide)
    · split
      · exact hx_T_err hv _ _ (by decide)
      · exact hx_hlName b i _ hv
  case name => exact hx_hlName b i h hv
  case nameEnd =>
    split
    · exact hx_T_err hv _ _ (by decide)
    · rename_i c1 hj
      have hjl := get?_lt hj
      split
      · exact hx_hlAfterColon b _ _ hv (by omega) rfl
      · exact hx_T_err hv _ _ (by decide)
  case bodyStart =>
    have hG := hgen (Or.inl hst)
    rcases hsk : skipLWS b i 0 with ⟨n, crl, e⟩
    cases e <;> simp only
    case ok => exact ⟨rfl, Or.inr ⟨Or.inr (Or.inl rfl), hG⟩⟩
    case eoh => exact hx_T_gen hv _ _ hG
    all_goals exact hx_T_err hv _ _ (by decide)
  case val =>
    have hG := hgen (Or.inr (Or.inl hst))
    split
    · exact hx_T_err hv _ _ (by decide)
    · exact hx_hlValEnd b _ _ hv hG
  case valEnd => exact hx_hlValEnd b i h hv (hgen (Or.inr (Or.inr hst)))
  all_goals
    (exfalso
     rcases hg with hh | hh
     · rw [hst] at hh; rcases hh with hh | hh | hh <;> cases hh
     · rw [hst] at hh; rcases hh.1 with hh | hh | hh <;> cases hh)

/-- **ParseHdrLine from a header object that has not reached the colon (in particular a new one) factors through one
    call of the value dispatch** (any buffer, any values object) -/
theorem hx_parseHdrLine_split (b : Buf) (o : Nat) (h : Hdr) (hv : PHdrVals) (hst : HxPre h.state)
    {o' : Nat} {e : Err} {h' : Hdr} {hb' : Option PHdrVals} (hr : parseHdrLine b o h (some hv) = (o', e, h', hb')) :
    HxT b hv o' e (h', hb') := by
  unfold parseHdrLine at hr
  rcases hrl : runLoop hlMachine b o (h, some hv) with ⟨o1, e1, h1, hb1⟩
  rw [hrl] at hr
  simp only [Prod.mk.injEq] at hr
  obtain ⟨rfl, rfl, rfl, rfl⟩ := hr
  have := runLoop_safe2 hlMachine b (HxS b hv) (HxT b hv) hl_progress
    (fun i c st hb' hS => hx_hlStep b i c st hv hb' hS)
    (fun i st hS => ⟨hv, hS.1, Or.inl ⟨rfl, fun hh => by cases hh⟩⟩) o (h, some hv) ⟨rfl, Or.inl hst⟩
  rw [hrl] at this
  exact this

/-! ### (1a) what one header line does to the counters `N` and `HNo` of the two value lists -/

/-- **the loop of ParseAllContactValues** (any object, input, verdict): `HNo` is not touched; after OK at least one
    value was counted -/
theorem hx_contactsLoop_cnt (b : Buf) (offs : Nat) (c : PContacts) :
    (contactsLoop b offs c).2.2.hNo = c.hNo ∧ ((contactsLoop b offs c).2.1 = .ok → c.n < (contactsLoop b offs c).2.2.n) := by
  induction hk : b.size - offs using Nat.strongRecOn generalizing offs c with
  | _ k ih =>
    rw [contactsLoop]
    rcases hp : parseOneContact b offs c.cur with ⟨next, e1, pf⟩
    have hset : (c.setCur pf).hNo = c.hNo := (setCur_scalars c pf).1
    have hacc : ((c.setCur pf).account pf).hNo = c.hNo := by rw [account_hNo, hset]
    have haccn : ((c.setCur pf).account pf).n = c.n + 1 := by rw [account_n, setCur_n]
    cases e1 <;> simp only
    case ok => exact ⟨hacc, fun _ => by rw [haccn]; omega⟩
    case moreValues =>
      have hnx : (if c.n < c.vals.size then (c.setCur pf).account pf
          else { (c.setCur pf).account pf with last := {} }) = c.next pf := rfl
      rw [hnx]
      have h1 : (c.next pf).hNo = c.hNo := by rw [(ht_next_scalars c pf).1, hacc]
      by_cases hg : offs < next ∧ next ≤ b.size
      · rw [if_pos hg]
        obtain ⟨q1, q2⟩ := ih (b.size - next) (by omega) next (c.next pf) rfl
        exact ⟨by rw [q1, h1], fun he => by have := q2 he; rw [next_n] at this; omega⟩
      · rw [if_neg hg]; exact ⟨h1, fun hh => by cases hh⟩
    case moreBytes => exact ⟨hset, fun hh => by cases hh⟩
    all_goals
      refine ⟨?_, fun hh => by cases hh⟩
      split
      · exact hset
      · rfl

/-- **one Contact header line** (`k` = the new header count): after OK, `HNo = k` and at least one value was counted -/
theorem hx_contact_line_cnt (b : Buf) (o : Nat) (c : PContacts) (k : Nat) {o' : Nat} {c' : PContacts}
    (hr : parseAllContactValues b o { c with hNo := k, lastHVal := {} } = (o', .ok, c')) : c'.hNo = k ∧ c.n < c'.n := by
  rw [parseAllContactValues_eq_wrap, bump_wrap] at hr
  obtain ⟨q1, q2⟩ := hx_contactsLoop_cnt b o { c.wrap with hNo := k, lastHVal := {} }
  rw [hr] at q1 q2
  have e2 : ({ c.wrap with hNo := k, lastHVal := {} } : PContacts).n = c.n := (wrap_scalars c).1
  rw [e2] at q2
  exact ⟨q1, q2 rfl⟩

theorem hx_paisLoop_cnt (b : Buf) (offs : Nat) (c : PPAIs) :
    (paisLoop b offs c).2.2.hNo = c.hNo ∧ ((paisLoop b offs c).2.1 = .ok → c.n < (paisLoop b offs c).2.2.n) := by
  induction hk : b.size - offs using Nat.strongRecOn generalizing offs c with
  | _ k ih =>
    rw [paisLoop]
    rcases hp : parseOnePAI b offs c.cur with ⟨next, e1, pf⟩
    have hset : (c.setCur pf).hNo = c.hNo := (paSetCur_scalars c pf).1
    have hacc : ((c.setCur pf).account pf).hNo = c.hNo := by rw [paAccount_hNo, hset]
    have haccn : ((c.setCur pf).account pf).n = c.n + 1 := by rw [paAccount_n, paSetCur_n]
    cases e1 <;> simp only
    case ok => exact ⟨hacc, fun _ => by rw [haccn]; omega⟩
    case moreValues =>
      have hnx : (if c.n < c.vals.size then (c.setCur pf).account pf
          else { (c.setCur pf).account pf with last := {} }) = c.next pf := rfl
      rw [hnx]
      have h1 : (c.next pf).hNo = c.hNo := by rw [(paNext_scalars c pf).1, hacc]
      by_cases hg : offs < next ∧ next ≤ b.size
      · rw [if_pos hg]
        obtain ⟨q1, q2⟩ := ih (b.size - next) (by omega) next (c.next pf) rfl
        exact ⟨by rw [q1, h1], fun he => by have := q2 he; rw [paNext_n] at this; omega⟩
      · rw [if_neg hg]; exact ⟨h1, fun hh => by cases hh⟩
    case moreBytes => exact ⟨hset, fun hh => by cases hh⟩
    all_goals
      refine ⟨?_, fun hh => by cases hh⟩
      split
      · exact hset
      · rfl

theorem hx_pai_line_cnt (b : Buf) (o : Nat) (c : PPAIs) (k : Nat) {o' : Nat} {c' : PPAIs}
    (hr : parseAllPAIValues b o { c with hNo := k, lastHVal := {} } = (o', .ok, c')) : c'.hNo = k ∧ c.n < c'.n := by
  rw [parseAllPAIValues_eq_wrap, paBump_wrap] at hr
  obtain ⟨q1, q2⟩ := hx_paisLoop_cnt b o { c.wrap with hNo := k, lastHVal := {} }
  rw [hr] at q1 q2
  have e2 : ({ c.wrap with hNo := k, lastHVal := {} } : PPAIs).n = c.n := (paWrap_scalars c).1
  rw [e2] at q2
  exact ⟨q1, q2 rfl⟩

/-! ### (1b) the value dispatch: what it leaves alone -/

/-- **frame of the value dispatch** for a header in the "body start" state: the type of the header is kept; the Contact
    list is touched only for a Contact header, the identity list only for a P-Asserted-Identity header, and the CSeq
    object only for a CSeq header when it is not yet parsed — then by ONE call of ParseCSeqVal at that position -/
theorem hx_parseBody_frame (b : Buf) (o : Nat) (h : Hdr) (hv : PHdrVals) (hst : h.state = .bodyStart)
    {n : Nat} {e : Err} {h2 : Hdr} {hv2 : PHdrVals} (hr : parseBody b o h (some hv) = (n, e, h2, some hv2)) :
    h2.type = h.type ∧ (h.type ≠ HdrContact → hv2.contacts = hv.contacts) ∧ (h.type ≠ HdrPAI → hv2.pais = hv.pais) ∧
    (hv2.cseq = hv.cseq ∨
      (h.type = HdrCSeq ∧ hv.cseq.parsed = false ∧ parseCSeqVal b o hv.cseq = (n, e, hv2.cseq))) := by
  by_cases htc : h.type = HdrContact
  · have hs : h.state ≠ .hContact := by rw [hst]; decide
    rw [svc_parseBody_contact b o h hv htc hs] at hr
    simp only [Prod.mk.injEq, Option.some.injEq] at hr
    obtain ⟨_, _, rfl, rfl⟩ := hr
    exact ⟨rfl, fun hh => absurd htc hh, fun _ => rfl, Or.inl rfl⟩
  by_cases htp : h.type = HdrPAI
  · have hs : h.state ≠ .hPAI := by rw [hst]; decide
    rw [svc_parseBody_pai b o h hv htp hs] at hr
    simp only [Prod.mk.injEq, Option.some.injEq] at hr
    obtain ⟨_, _, rfl, rfl⟩ := hr
    exact ⟨rfl, fun _ => rfl, fun hh => absurd htp hh, Or.inl rfl⟩
  have h_contacts : (h.type == HdrContact) = false := by simpa using htc
  have h_pais : (h.type == HdrPAI) = false := by simpa using htp
  have hskip : ∀ {n : Nat} {e : Err} {h2 : Hdr} {hv2 : PHdrVals},
      (o, Err.ok, h, some hv) = (n, e, h2, some hv2) →
      h2.type = h.type ∧ (h.type ≠ HdrContact → hv2.contacts = hv.contacts) ∧ (h.type ≠ HdrPAI → hv2.pais = hv.pais) ∧
      (hv2.cseq = hv.cseq ∨
        (h.type = HdrCSeq ∧ hv.cseq.parsed = false ∧ parseCSeqVal b o hv.cseq = (n, e, hv2.cseq))) := by
    intro n e h2 hv2 hh
    simp only [Prod.mk.injEq, Option.some.injEq] at hh
    obtain ⟨rfl, rfl, rfl, rfl⟩ := hh
    exact ⟨rfl, fun _ => rfl, fun _ => rfl, Or.inl rfl⟩
  unfold parseBody at hr
  simp only at hr
  by_cases h_from_ : (h.type == HdrFrom) = true
  · simp only [h_from_, ↓reduceIte] at hr
    by_cases hp : (!hv.from_.parsed) = true
    · simp only [hp, ↓reduceIte, Prod.mk.injEq, Option.some.injEq] at hr
      obtain ⟨_, _, rfl, rfl⟩ := hr
      exact ⟨rfl, fun _ => rfl, fun _ => rfl, Or.inl rfl⟩
    · simp only [hp, Bool.false_eq_true, ↓reduceIte] at hr
      exact hskip hr
  simp only [h_from_, Bool.false_eq_true, ↓reduceIte] at hr
  by_cases h_to : (h.type == HdrTo) = true
  · simp only [h_to, ↓reduceIte] at hr
    by_cases hp : (!hv.to.parsed) = true
    · simp only [hp, ↓reduceIte, Prod.mk.injEq, Option.some.injEq] at hr
      obtain ⟨_, _, rfl, rfl⟩ := hr
      exact ⟨rfl, fun _ => rfl, fun _ => rfl, Or.inl rfl⟩
    · simp only [hp, Bool.false_eq_true, ↓reduceIte] at hr
      exact hskip hr
  simp only [h_to, Bool.false_eq_true, ↓reduceIte] at hr
  by_cases h_callid : (h.type == HdrCallID) = true
  · simp only [h_callid, ↓reduceIte] at hr
    by_cases hp : (!hv.callid.parsed) = true
    · simp only [hp, ↓reduceIte, Prod.mk.injEq, Option.some.injEq] at hr
      obtain ⟨_, _, rfl, rfl⟩ := hr
      exact ⟨rfl, fun _ => rfl, fun _ => rfl, Or.inl rfl⟩
    · simp only [hp, Bool.false_eq_true, ↓reduceIte] at hr
      exact hskip hr
  simp only [h_callid, Bool.false_eq_true, ↓reduceIte] at hr
  by_cases h_cseq : (h.type == HdrCSeq) = true
  · simp only [h_cseq, ↓reduceIte] at hr
    by_cases hp : (!hv.cseq.parsed) = true
    · simp only [hp, ↓reduceIte] at hr
      rcases hq : parseCSeqVal b o hv.cseq with ⟨n1, e1, f⟩
      rw [hq] at hr
      simp only [Prod.mk.injEq, Option.some.injEq] at hr
      obtain ⟨rfl, rfl, rfl, rfl⟩ := hr
      refine ⟨rfl, fun _ => rfl, fun _ => rfl, Or.inr ⟨by simpa using h_cseq, by simpa using hp, rfl⟩⟩
    · simp only [hp, Bool.false_eq_true, ↓reduceIte] at hr
      exact hskip hr
  simp only [h_cseq, Bool.false_eq_true, ↓reduceIte] at hr
  by_cases h_clen : (h.type == HdrCLen) = true
  · simp only [h_clen, ↓reduceIte] at hr
    by_cases hp : (!hv.clen.parsed) = true
    · simp only [hp, ↓reduceIte, Prod.mk.injEq, Option.some.injEq] at hr
      obtain ⟨_, _, rfl, rfl⟩ := hr
      exact ⟨rfl, fun _ => rfl, fun _ => rfl, Or.inl rfl⟩
    · simp only [hp, Bool.false_eq_true, ↓reduceIte] at hr
      exact hskip hr
  simp only [h_clen, h_contacts, Bool.false_eq_true, ↓reduceIte] at hr
  by_cases h_expires : (h.type == HdrExpires) = true
  · simp only [h_expires, ↓reduceIte] at hr
    by_cases hp : (!hv.expires.parsed) = true
    · simp only [hp, ↓reduceIte, Prod.mk.injEq, Option.some.injEq] at hr
      obtain ⟨_, _, rfl, rfl⟩ := hr
      exact ⟨rfl, fun _ => rfl, fun _ => rfl, Or.inl rfl⟩
    · simp only [hp, Bool.false_eq_true, ↓reduceIte] at hr
      exact hskip hr
  simp only [h_expires, h_pais, Bool.false_eq_true, ↓reduceIte] at hr
  exact hskip hr

/-- what an accepted header line of type `t` does to the counters of the value list of type `ty` (`n`, `hNo` before,
    `n'`, `hNo'` after): a line of the list's type counts as ONE more header and brings at least one value; a line of
    another type leaves both counters alone -/
def HxCnt (ty n hNo n' hNo' t : Nat) : Prop :=
  (t = ty → n < n' ∧ hNo' = hNo + 1) ∧ (t ≠ ty → n' = n ∧ hNo' = hNo)

theorem hx_gen_not_contact {b : Buf} {hv : PHdrVals} {t : Nat} (hg : HxGen b hv t) : t ≠ HdrContact ∧ t ≠ HdrPAI := by
  obtain ⟨i, h1, hs, ht, hq⟩ := hg
  refine ⟨fun hc => ?_, fun hc => ?_⟩
  · rw [svc_parseBody_contact b i h1 hv (ht.trans hc) (by rw [hs]; decide)] at hq
    cases hq
  · rw [svc_parseBody_pai b i h1 hv (ht.trans hc) (by rw [hs]; decide)] at hq
    cases hq

/-- the dispatch on a header in the "body start" state, verdict OK: the counters of both lists -/
theorem hx_parseBody_cnt (b : Buf) (o : Nat) (h : Hdr) (hv : PHdrVals) (hst : h.state = .bodyStart)
    {n : Nat} {h2 : Hdr} {hv2 : PHdrVals} (hr : parseBody b o h (some hv) = (n, .ok, h2, some hv2)) :
    HxCnt HdrContact hv.contacts.n hv.contacts.hNo hv2.contacts.n hv2.contacts.hNo h.type ∧
    HxCnt HdrPAI hv.pais.n hv.pais.hNo hv2.pais.n hv2.pais.hNo h.type := by
  obtain ⟨_, f1, f2, _⟩ := hx_parseBody_frame b o h hv hst hr
  refine ⟨⟨fun htc => ?_, fun hne => by rw [f1 hne]; exact ⟨rfl, rfl⟩⟩, ⟨fun htp => ?_, fun hne => by rw [f2 hne]; exact ⟨rfl, rfl⟩⟩⟩
  · rw [svc_parseBody_contact b o h hv htc (by rw [hst]; decide)] at hr
    rcases hq : parseAllContactValues b o { hv.contacts with hNo := hv.contacts.hNo + 1, lastHVal := {} } with ⟨n1, e1, c1⟩
    rw [hq] at hr
    simp only [Prod.mk.injEq, Option.some.injEq] at hr
    obtain ⟨rfl, rfl, rfl, rfl⟩ := hr
    obtain ⟨q1, q2⟩ := hx_contact_line_cnt b o hv.contacts _ hq
    exact ⟨q2, q1⟩
  · rw [svc_parseBody_pai b o h hv htp (by rw [hst]; decide)] at hr
    rcases hq : parseAllPAIValues b o { hv.pais with hNo := hv.pais.hNo + 1, lastHVal := {} } with ⟨n1, e1, c1⟩
    rw [hq] at hr
    simp only [Prod.mk.injEq, Option.some.injEq] at hr
    obtain ⟨rfl, rfl, rfl, rfl⟩ := hr
    obtain ⟨q1, q2⟩ := hx_pai_line_cnt b o hv.pais _ hq
    exact ⟨q2, q1⟩

/-- **one accepted header line** (header object that has not reached the colon, in particular a new one; any buffer,
    any values object): the counters of the Contact list and of the identity list, relative to the type of the
    accepted header -/
theorem hx_line_cnt (b : Buf) (o : Nat) (h : Hdr) (hv : PHdrVals) (hst : HxPre h.state)
    {o' : Nat} {h' : Hdr} {hb' : Option PHdrVals} (hr : parseHdrLine b o h (some hv) = (o', .ok, h', hb')) :
    ∃ hv', hb' = some hv' ∧
      HxCnt HdrContact hv.contacts.n hv.contacts.hNo hv'.contacts.n hv'.contacts.hNo h'.type ∧
      HxCnt HdrPAI hv.pais.n hv.pais.hNo hv'.pais.n hv'.pais.hNo h'.type := by
  obtain ⟨hv', hb, hcase⟩ := hx_parseHdrLine_split b o h hv hst hr
  simp only at hb hcase
  subst hb
  refine ⟨hv', rfl, ?_⟩
  rcases hcase with ⟨rfl, hg⟩ | ⟨i, h1, h2, _, hs1, hp, _, _, hh'⟩
  · obtain ⟨g1, g2⟩ := hx_gen_not_contact (hg trivial)
    exact ⟨⟨fun hh => absurd hh g1, fun _ => ⟨rfl, rfl⟩⟩, ⟨fun hh => absurd hh g2, fun _ => ⟨rfl, rfl⟩⟩⟩
  · have hty : h'.type = h1.type := by
      rw [hh']
      simp only [flo_beq_ok, ↓reduceIte]
      exact (hx_parseBody_frame b i h1 hv hs1 hp).1
    rw [hty]
    exact hx_parseBody_cnt b i h1 hv hs1 hp

/-! ### (1c) the exact association of the stored values with the header lines of their type -/
def hxIdx (ty : Nat) (tyOf : Nat → Nat) (N : Nat) : List Nat := (List.range N).filter (fun j => tyOf j == ty)
def hxStart (cnt : List Nat) (i : Nat) : Nat := (cnt.take i).sum

theorem hxIdx_succ (ty : Nat) (tyOf : Nat → Nat) (N : Nat) :
    hxIdx ty tyOf (N + 1) = hxIdx ty tyOf N ++ (if tyOf N = ty then [N] else []) := by
  unfold hxIdx
  rw [List.range_succ, List.filter_append]
  congr 1
  by_cases h : tyOf N = ty <;> simp [h]

theorem hxIdx_congr (ty : Nat) (f g : Nat → Nat) (N : Nat) (h : ∀ j, j < N → f j = g j) : hxIdx ty f N = hxIdx ty g N := by
  unfold hxIdx
  apply List.filter_congr
  intro x hx
  rw [h x (List.mem_range.1 hx)]

theorem hxIdx_lt {ty : Nat} {tyOf : Nat → Nat} {N i j : Nat} (h : (hxIdx ty tyOf N)[i]? = some j) : j < N ∧ tyOf j = ty := by
  have := List.mem_of_getElem? h
  unfold hxIdx at this
  rw [List.mem_filter] at this
  exact ⟨List.mem_range.1 this.1, by simpa using this.2⟩

theorem hxStart_le (cnt : List Nat) (i : Nat) : hxStart cnt i ≤ cnt.sum := by
  unfold hxStart
  conv => rhs; rw [← List.take_append_drop i cnt]
  rw [List.sum_append]
  omega

theorem hxStart_append_le (cnt : List Nat) (x i : Nat) (h : i ≤ cnt.length) : hxStart (cnt ++ [x]) i = hxStart cnt i := by
  unfold hxStart
  rw [List.take_append_of_le_length h]

theorem hxStart_length (cnt : List Nat) : hxStart cnt cnt.length = cnt.sum := by
  unfold hxStart; rw [List.take_length]

theorem hxStart_append_succ (cnt : List Nat) (x : Nat) : hxStart (cnt ++ [x]) (cnt.length + 1) = cnt.sum + x := by
  unfold hxStart
  have : (cnt ++ [x]).take (cnt.length + 1) = cnt ++ [x] := by
    apply List.take_of_length_le; simp
  rw [this, List.sum_append]; simp

/-- **the exact association** of the values of a list (`vals`, `n` = number of values counted, `hNo` = its header
    count) with the header lines counted in `hl`.  `tyOf j` is the type of the `j`-th accepted header line (a ghost
    function: it agrees with the stored headers; lines beyond the capacity of the header array are counted but not
    stored).  `hxIdx ty tyOf hl.n` is the list of the positions of the lines of type `ty`, in message order; there are
    exactly `hNo` of them.  `cnt` gives for each of these lines the number of values it carried (each at least 1, sum
    `n`); the values of line `i` (0-based among the lines of type `ty`) are those with index in
    `[hxStart cnt i, hxStart cnt (i+1))` — cumulative counts, the values of the first line first, then those of the
    second, … — and each of them that is stored lies inside the `val` of that header (if the header is stored) and is
    not empty. -/
def HxAssoc (ty : Nat) (hl : HdrLst) (vals : Array PFromBody) (n hNo : Nat) : Prop :=
  ∃ (tyOf : Nat → Nat) (cnt : List Nat),
    (∀ j, j < hl.n → j < hl.hdrs.size → hl.hdrs[j]!.type = tyOf j) ∧
    (hxIdx ty tyOf hl.n).length = hNo ∧ cnt.length = hNo ∧ (∀ c ∈ cnt, 0 < c) ∧ cnt.sum = n ∧
    ∀ i j, (hxIdx ty tyOf hl.n)[i]? = some j → ∀ k, hxStart cnt i ≤ k → k < hxStart cnt (i + 1) → k < vals.size →
      j < hl.hdrs.size → PlIn hl.hdrs[j]!.val vals[k]!.v

theorem HxAssoc.setCur {ty : Nat} {hl : HdrLst} {vals : Array PFromBody} {n hNo : Nat} (H : HxAssoc ty hl vals n hNo)
    (g : Hdr) : HxAssoc ty (hl.setCur g) vals n hNo := by
  obtain ⟨tyOf, cnt, h1, h2, h3, h4, h5, h6⟩ := H
  have hn : (hl.setCur g).n = hl.n := hlSetCur_n hl g
  refine ⟨tyOf, cnt, fun j hj hs => ?_, by rw [hn]; exact h2, h3, h4, h5, fun i j hij k k1 k2 k3 hjs => ?_⟩
  · rw [hn] at hj
    rw [hlSetCur_size] at hs
    rw [hlSetCur_ne hl g j (by omega)]
    exact h1 j hj hs
  · rw [hn] at hij
    rw [hlSetCur_size] at hjs
    have := (hxIdx_lt hij).1
    rw [hlSetCur_ne hl g j (by omega)]
    exact h6 i j hij k k1 k2 k3 hjs

theorem HxAssoc.next {ty : Nat} {hl : HdrLst} {vals vals' : Array PFromBody} {n n' hNo hNo' : Nat}
    (H : HxAssoc ty hl vals n hNo) (g : Hdr) (E : PlEff ty vals n vals' n' g.type g.val)
    (C : HxCnt ty n hNo n' hNo' g.type) : HxAssoc ty ((hl.setCur g).accept g) vals' n' hNo' := by
  have hn : ((hl.setCur g).accept g).n = hl.n + 1 := by rw [accept_n, hlSetCur_n]
  have hs : ((hl.setCur g).accept g).hdrs.size = hl.hdrs.size := by rw [accept_hdrs, hlSetCur_size]
  have hget : ∀ j, j < hl.n → ((hl.setCur g).accept g).hdrs[j]! = hl.hdrs[j]! := fun j hj => by
    rw [accept_hdrs]; exact hlSetCur_ne hl g j (by omega)
  have hgetn : hl.n < hl.hdrs.size → ((hl.setCur g).accept g).hdrs[hl.n]! = g := fun hin => by
    rw [accept_hdrs]; exact hlSetCur_get_n hl g hin
  obtain ⟨tyOf, cnt, h1, h2, h3, h4, h5, h6⟩ := H
  have hidx : hxIdx ty (fun j => if j = hl.n then g.type else tyOf j) (hl.n + 1) =
      hxIdx ty tyOf hl.n ++ (if g.type = ty then [hl.n] else []) := by
    rw [hxIdx_succ, hxIdx_congr ty (fun j => if j = hl.n then g.type else tyOf j) tyOf hl.n
      (fun j hj => by show (if j = hl.n then g.type else tyOf j) = tyOf j; rw [if_neg (by omega)])]
    rw [if_pos rfl]
  have htyOf : ∀ j, j < ((hl.setCur g).accept g).n → j < ((hl.setCur g).accept g).hdrs.size →
      ((hl.setCur g).accept g).hdrs[j]!.type = (fun j => if j = hl.n then g.type else tyOf j) j := by
    intro j hj hjs
    rw [hn] at hj; rw [hs] at hjs
    simp only
    by_cases hjn : j = hl.n
    · subst hjn; rw [if_pos rfl, hgetn hjs]
    · rw [if_neg hjn, hget j (by omega)]; exact h1 j (by omega) hjs
  by_cases ht : g.type = ty
  · -- a line of the list's type
    obtain ⟨hlt, hh⟩ := C.1 ht
    have hK : PlKeep vals n vals' n' ∧ ∀ j, n ≤ j → j < n' → j < vals'.size → PlIn g.val vals'[j]!.v := by
      rcases E with ⟨_, e2⟩ | ⟨_, hK, hin⟩
      · omega
      · exact ⟨hK, hin⟩
    refine ⟨fun j => if j = hl.n then g.type else tyOf j, cnt ++ [n' - n], htyOf, ?_, ?_, ?_, ?_, ?_⟩
    · rw [hn, hidx, if_pos ht, List.length_append, h2, hh]; rfl
    · rw [List.length_append, h3, hh]; rfl
    · intro c hc
      rcases List.mem_append.1 hc with hc | hc
      · exact h4 c hc
      · simp only [List.mem_singleton] at hc; omega
    · rw [List.sum_append, h5]; simp only [List.sum_cons, List.sum_nil]; omega
    · intro i j hij k k1 k2 k3 hjs
      rw [hn, hidx, if_pos ht] at hij
      rw [hs] at hjs
      by_cases hi : i < hNo
      · rw [List.getElem?_append_left (by rw [h2]; exact hi)] at hij
        rw [hxStart_append_le cnt _ i (by omega)] at k1
        rw [hxStart_append_le cnt _ (i + 1) (by omega)] at k2
        have hkn : k < n := by have := hxStart_le cnt (i + 1); omega
        have hj := (hxIdx_lt hij).1
        rw [hget j hj, hK.1.2.2 k hkn]
        exact h6 i j hij k k1 k2 (by rw [← hK.1.1]; exact k3) hjs
      · by_cases hi2 : i = hNo
        · have hi3 : i = cnt.length := by omega
          rw [hi3] at k1 k2
          rw [List.getElem?_append_right (by rw [h2]; omega), h2, hi2, Nat.sub_self] at hij
          simp only [List.getElem?_cons_zero, Option.some.injEq] at hij
          subst hij
          rw [hxStart_append_le cnt _ cnt.length (by omega), hxStart_length, h5] at k1
          rw [hxStart_append_succ, h5] at k2
          rw [hgetn hjs]
          exact hK.2 k k1 (by omega) k3
        · exfalso
          rw [List.getElem?_eq_none (by rw [List.length_append, h2]; simp only [List.length_cons, List.length_nil]; omega)] at hij
          cases hij
  · -- a line of another type
    obtain ⟨e1, e2⟩ := C.2 ht
    have ev : vals' = vals := by
      rcases E with ⟨e3, _⟩ | ⟨e3, _⟩
      · exact e3
      · exact absurd e3 ht
    subst e1 e2 ev
    refine ⟨fun j => if j = hl.n then g.type else tyOf j, cnt, htyOf, ?_, h3, h4, h5, ?_⟩
    · rw [hn, hidx, if_neg ht, List.append_nil, h2]
    · intro i j hij k k1 k2 k3 hjs
      rw [hn, hidx, if_neg ht, List.append_nil] at hij
      rw [hs] at hjs
      have hj := (hxIdx_lt hij).1
      rw [hget j hj]
      exact h6 i j hij k k1 k2 k3 hjs

/-! ### (2) CSeq: the number ends strictly before the method starts, and neither is empty -/

/-- **strict CSeq order**: the number has at least one byte, ends strictly before the start of the method, and the
    method has at least one byte -/
structure HxCsStrict (st : PCSeqBody) : Prop where
  numNe : 0 < st.cseq.len
  lt : st.cseq.offs + st.cseq.len < st.method.offs
  methNe : 0 < st.method.len

/-- resumption invariant of the CSeq object at loop position `i`: in the number, at least one digit was read; between
    number and method, the number is reported, not empty, and the byte just after it is white space; in the method, its
    first byte stands after that white space -/
def HxCsI (b : Buf) (i : Nat) (st : PCSeqBody) : Prop :=
  (st.state = .foundDigit → st.soffs < i) ∧
  (st.state = .endDigit → 0 < st.cseq.len ∧ st.cseq.offs + st.cseq.len ≤ i ∧
    ∃ c, b[st.cseq.offs + st.cseq.len]? = some c ∧ isLWSch c = true) ∧
  (st.state = .foundMethod → 0 < st.cseq.len ∧ st.cseq.offs + st.cseq.len < st.soffs ∧ st.soffs < i) ∧
  (st.state = .fend ∨ st.state = .fin → HxCsStrict st)

theorem HxCsI.mono {b : Buf} {i j : Nat} {st : PCSeqBody} (h : HxCsI b i st) (hij : i ≤ j) : HxCsI b j st :=
  ⟨fun hs => by have := h.1 hs; omega,
   fun hs => ⟨(h.2.1 hs).1, by have := (h.2.1 hs).2.1; omega, (h.2.1 hs).2.2⟩,
   fun hs => ⟨(h.2.2.1 hs).1, (h.2.2.1 hs).2.1, by have := (h.2.2.1 hs).2.2; omega⟩, h.2.2.2⟩

theorem HxCsI_init (b : Buf) (i : Nat) (st : PCSeqBody) (h : st.state = .init) : HxCsI b i st :=
  ⟨(fun hh => by rw [h] at hh; cases hh), (fun hh => by rw [h] at hh; cases hh), (fun hh => by rw [h] at hh; cases hh),
   (fun hh => by rw [h] at hh; rcases hh with hh | hh <;> cases hh)⟩

theorem hx_csSetMethod_strict (i : Nat) (st : PCSeqBody) (hi : i < 65536) (h1 : 0 < st.cseq.len)
    (h2 : st.cseq.offs + st.cseq.len < st.soffs) (h3 : st.soffs < i) : HxCsStrict (csSetMethod st i) := by
  refine ⟨?_, ?_, ?_⟩ <;> simp only [csSetMethod, PField.set, trunc16] <;> omega

theorem hx_csFinish (st : PCSeqBody) (b : Buf) (n crl : Nat) (h : HxCsStrict st)
    (hok : (csFinish st b n crl).2.1 = .ok) : HxCsStrict (csFinish st b n crl).2.2 := by
  unfold csFinish at hok ⊢
  simp only at hok ⊢
  split
  · rename_i hc; rw [if_pos hc] at hok; cases hok
  · split <;> exact ⟨h.numNe, h.lt, h.methNe⟩

theorem hx_csEOH (b : Buf) (i n crl : Nat) (st : PCSeqBody) (hi : i < 65536) (h : HxCsI b i st)
    (hok : (csEOH b st i n crl).2.1 = .ok) : HxCsStrict (csEOH b st i n crl).2.2 := by
  unfold csEOH at hok ⊢
  cases hst : st.state <;> rw [hst] at hok <;> simp only at hok ⊢
  · cases hok
  · cases hok
  · cases hok
  · obtain ⟨a1, a2, a3⟩ := h.2.2.1 hst
    exact hx_csFinish _ b n crl (hx_csSetMethod_strict i st hi a1 a2 a3) hok
  · exact hx_csFinish _ b n crl (h.2.2.2 (Or.inl hst)) hok
  · cases hok

/-- what a finished call of ParseCSeqVal guarantees: strict order after OK, the resumption invariant after MoreBytes -/
def HxCsT (b : Buf) : Nat → Err → PCSeqBody → Prop := fun j e s =>
  (e = .ok → HxCsStrict s) ∧ (e = .moreBytes → HxCsI b j s)

theorem HxCsT.err {b : Buf} {j : Nat} {e : Err} {s : PCSeqBody} (h1 : e ≠ .ok) (h2 : e ≠ .moreBytes) : HxCsT b j e s :=
  ⟨fun hh => absurd hh h1, fun hh => absurd hh h2⟩

theorem hx_csEOH_ne_more (b : Buf) (st : PCSeqBody) (i n crl : Nat) : (csEOH b st i n crl).2.1 ≠ .moreBytes := by
  have fin : ∀ s : PCSeqBody, (csFinish s b n crl).2.1 ≠ .moreBytes := by
    intro s
    unfold csFinish
    simp only
    split
    · intro hh; cases hh
    · split <;> (intro hh; cases hh)
  unfold csEOH
  cases st.state <;> simp only
  · intro hh; cases hh
  · intro hh; cases hh
  · intro hh; cases hh
  · exact fin _
  · exact fin _
  · intro hh; cases hh

theorem hx_csStep (b : Buf) (i : Nat) (c : UInt8) (st : PCSeqBody) (hfit : b.size ≤ 65535) (hb : b[i]? = some c)
    (h : HxCsI b i st) : StepAll2 (fun j s => HxCsI b j s) (HxCsT b) (csStep b i c st) := by
  have hlt := get?_lt hb
  have key : ∀ s1 : PCSeqBody, HxCsI b i s1 →
      StepAll2 (fun j s => HxCsI b j s) (HxCsT b) (lwsStd b i s1 (csEOH b) id) := by
    intro s1 h1
    exact lwsStd_all2 b i s1 (csEOH b) id _ _ (by omega) (fun n a1 _ => h1.mono a1)
      (fun n _ _ => HxCsT.err (by decide) (by decide)) (fun n a1 _ => ⟨(fun hh => by cases hh), (fun _ => h1.mono a1)⟩)
      (fun n crl _ _ _ => ⟨hx_csEOH b i n crl s1 (by omega) h1, fun hh => absurd hh (hx_csEOH_ne_more b s1 i n crl)⟩)
  -- the step `endDigit → foundMethod` (first byte of the method), taken on a byte that is not white space
  have hmeth : ¬ isLWSch c = true → st.state = .endDigit →
      HxCsI b (i + 1) { st with state := .foundMethod, soffs := i } := by
    intro hl hst
    obtain ⟨a1, a2, c1, a3, a4⟩ := h.2.1 hst
    have hne : st.cseq.offs + st.cseq.len ≠ i := by
      intro he
      rw [he, hb] at a3
      cases a3
      exact hl a4
    refine ⟨(fun hh => by cases hh), (fun hh => by cases hh), (fun _ => ⟨a1, ?_, ?_⟩),
      (fun hh => by rcases hh with hh | hh <;> cases hh)⟩
    · show st.cseq.offs + st.cseq.len < i
      omega
    · show i < i + 1
      omega
  unfold csStep
  by_cases hl : isLWSch c = true
  · rw [if_pos hl]
    cases hst : st.state <;> simp only
    · exact key _ h
    · have a1 := h.1 hst
      have hso : (PField.set st.soffs i).offs = st.soffs := flo_set_offs _ _ (by omega)
      have hsl : (PField.set st.soffs i).len = i - st.soffs := by
        show trunc16 (i - st.soffs) = _
        exact trunc16_of_lt (by omega)
      refine key _ ⟨(fun hh => by cases hh), (fun _ => ⟨?_, ?_, c, ?_, hl⟩), (fun hh => by cases hh),
        (fun hh => by rcases hh with hh | hh <;> cases hh)⟩
      · show 0 < (PField.set st.soffs i).len
        rw [hsl]; omega
      · show (PField.set st.soffs i).offs + (PField.set st.soffs i).len ≤ i
        rw [hso, hsl]; omega
      · show b[(PField.set st.soffs i).offs + (PField.set st.soffs i).len]? = some c
        rw [hso, hsl]
        have : st.soffs + (i - st.soffs) = i := by omega
        rw [this]; exact hb
    · exact key _ h
    · obtain ⟨a1, a2, a3⟩ := h.2.2.1 hst
      have hn := hx_csSetMethod_strict i st (by omega) a1 a2 a3
      exact key _ ⟨(fun hh => by cases hh), (fun hh => by cases hh), (fun hh => by cases hh),
        (fun _ => ⟨hn.numNe, hn.lt, hn.methNe⟩)⟩
    · exact key _ h
    · exact h.mono (by omega)
  · rw [if_neg hl]
    by_cases hd : isDigit c = true
    · rw [if_pos hd]
      cases hst : st.state <;> simp only
      · exact ⟨(fun _ => by show i < i + 1; omega), (fun hh => by cases hh), (fun hh => by cases hh),
          (fun hh => by rcases hh with hh | hh <;> cases hh)⟩
      · split
        · exact HxCsT.err (by decide) (by decide)
        · have := h.1 hst
          exact ⟨(fun _ => by show st.soffs < i + 1; omega), (fun hh => by cases hh),
            (fun hh => by cases hh), (fun hh => by rcases hh with hh | hh <;> cases hh)⟩
      · exact hmeth hl hst
      · exact h.mono (by omega)
      · exact HxCsT.err (by decide) (by decide)
      · exact h.mono (by omega)
    · rw [if_neg hd]
      cases hst : st.state <;> simp only
      · exact HxCsT.err (by decide) (by decide)
      · exact HxCsT.err (by decide) (by decide)
      · exact hmeth hl hst
      · exact h.mono (by omega)
      · exact HxCsT.err (by decide) (by decide)
      · exact h.mono (by omega)

/-- **`cseq_number_before_method`, ParseCSeqVal**: whenever ParseCSeqVal says OK — on a new object, or on any object
    returned by earlier calls on the same buffer (`HxCsI`, which holds of every object in the initial state and is kept
    by every call that asks for more bytes) — the number field has at least one byte, ends STRICTLY before the start of
    the method field, and the method field has at least one byte.  Every input within the 65,535-byte limit. -/
theorem hx_parseCSeqVal_strict (b : Buf) (o : Nat) (st : PCSeqBody) (hfit : b.size ≤ 65535) (h : HxCsI b o st) :
    HxCsT b (parseCSeqVal b o st).1 (parseCSeqVal b o st).2.1 (parseCSeqVal b o st).2.2 := by
  unfold parseCSeqVal
  split
  · rename_i hf; exact ⟨fun _ => h.2.2.2 (Or.inr hf), fun hh => by cases hh⟩
  · exact runLoop_safe2 csMachine b (fun j s => HxCsI b j s) (HxCsT b) cs_progress
      (fun i c s hb hs => hx_csStep b i c s hfit hb hs) (fun i s hs => ⟨(fun hh => by cases hh), (fun _ => hs)⟩) o st h

/-- one call on a new object -/
theorem hx_parseCSeqVal_strict_new (b : Buf) (o : Nat) (hfit : b.size ≤ 65535) {o' : Nat} {st' : PCSeqBody}
    (hr : parseCSeqVal b o {} = (o', .ok, st')) : HxCsStrict st' := by
  have := hx_parseCSeqVal_strict b o {} hfit (HxCsI_init b o {} rfl)
  rw [hr] at this
  exact this.1 rfl

/-- the CSeq object between two header lines of one ParseHeaders call: untouched, or parsed with the strict order -/
def HxCsK (st : PCSeqBody) : Prop := st.state = .init ∨ (st.state = .fin ∧ HxCsStrict st)

/-- **one header line** (header object that has not reached the colon; buffers within the 65,535-byte limit), verdict OK
    or "empty line": the CSeq object stays untouched-or-strictly-ordered -/
theorem hx_line_cseq (b : Buf) (o : Nat) (h : Hdr) (hv : PHdrVals) (hfit : b.size ≤ 65535) (hst : HxPre h.state)
    {o' : Nat} {e : Err} {h' : Hdr} {hb' : Option PHdrVals} (hr : parseHdrLine b o h (some hv) = (o', e, h', hb'))
    (he : e = .ok ∨ e = .empty) : ∃ hv', hb' = some hv' ∧ (HxCsK hv.cseq → HxCsK hv'.cseq) := by
  obtain ⟨hv', hb, hcase⟩ := hx_parseHdrLine_split b o h hv hst hr
  simp only at hb hcase
  subst hb
  refine ⟨hv', rfl, fun K => ?_⟩
  rcases hcase with ⟨rfl, _⟩ | ⟨i, h1, h2, _, hs1, hp, _, hne, _⟩
  · exact K
  · rcases he with rfl | rfl
    · rcases (hx_parseBody_frame b i h1 hv hs1 hp).2.2.2 with hq | ⟨_, hnp, hq⟩
      · rw [hq]; exact K
      · have hini : hv.cseq.state = .init := by
          rcases K with K | K
          · exact K
          · exfalso
            unfold PCSeqBody.parsed at hnp
            rw [K.1] at hnp
            cases hnp
        have hT := hx_parseCSeqVal_strict b i hv.cseq hfit (HxCsI_init b i _ hini)
        rw [hq] at hT
        have hf := sv_cs_ok b i hv.cseq hq
        refine Or.inr ⟨?_, hT.1 rfl⟩
        unfold PCSeqBody.parsed at hf
        simpa using hf
    · exact absurd rfl hne

/-- the exact association for both lists of a values object -/
def HxInv (hl : HdrLst) (hb : Option PHdrVals) : Prop :=
  ∀ hv, hb = some hv → HxAssoc HdrContact hl hv.contacts.vals hv.contacts.n hv.contacts.hNo ∧
    HxAssoc HdrPAI hl hv.pais.vals hv.pais.n hv.pais.hNo ∧ HxCsK hv.cseq

/-- **header block** (same hypotheses as `pl_parseHeaders`: a legitimate list whose current slot is new, i.e. one call
    of ParseHeaders from the start of a line; buffers within the 65,535-byte limit): ParseHeaders keeps / establishes
    the exact association -/
theorem hx_parseHeaders (b : Buf) (offs : Nat) (hl : HdrLst) (hb : Option PHdrVals) (hfit : b.size ≤ 65535)
    (hok1 : hlsOK b hl) (hok2 : hbOK b offs hb) (hpe : hlsPend hl hb) (ho : offs ≤ b.size)
    (H : HlsSafe b offs hl hb) (hcur : hl.cur = {}) (hsome : hb ≠ none) (G : HxInv hl hb) :
    (parseHeaders b offs hl hb).2.1 = .ok → HxInv (parseHeaders b offs hl hb).2.2.1 (parseHeaders b offs hl hb).2.2.2 := by
  induction hk : b.size - offs using Nat.strongRecOn generalizing offs hl hb with
  | _ k ih =>
    rw [parseHeaders.eq_1 b offs hl hb]
    by_cases hlt : offs < b.size
    · rw [if_pos hlt]
      have hI : hlOK b offs hl.cur hb := ⟨by omega, hlsOK_cur hok1, hok2⟩
      cases hb with
      | none => exact absurd rfl hsome
      | some hv =>
      rcases hp1 : parseHdrLine b offs hl.cur (some hv) with ⟨n1, e1, g1, v1⟩
      obtain ⟨hO, hS, hF, hN, hE⟩ := parseHdrLine_safe b offs hl.cur (some hv) hfit H.cur hI hp1
      have Hv := H.cur.hv hv rfl
      rw [hcur] at Hv
      have hct : CtIdle b hv.contacts := Hv.ctI (fun hq => by cases hq)
      have hpa : PaIdle b hv.pais := Hv.paI (fun hq => by cases hq)
      obtain ⟨hv1, rfl, hemp, hokE⟩ := pl_parseHdrLine b offs hl.cur hv hfit (by rw [hcur]; exact Or.inl rfl) hct hpa hp1
      obtain ⟨G1, G2, G3⟩ := G hv rfl
      have hK : ∀ hv2, e1 = .ok ∨ e1 = .empty → some hv1 = some hv2 → HxCsK hv2.cseq := by
        intro hv2 he hh
        obtain ⟨hv3, hq3, hk3⟩ := hx_line_cseq b offs hl.cur hv hfit (by rw [hcur]; exact Or.inl rfl) hp1 he
        cases hq3; cases hh
        exact hk3 G3
      cases e1 <;> simp only
      case ok =>
        have hpost := parseHdrLine_post b offs hl.cur (some hv) hI hp1 (Or.inl rfl)
        have hg : offs < n1 := parseHdrLine_ok_gt b offs hl.cur (some hv) hI hpe.1 hp1
        rw [if_pos hg]
        obtain ⟨E1, E2⟩ := hokE rfl
        obtain ⟨hv1', hq, C1, C2⟩ := hx_line_cnt b offs hl.cur hv (by rw [hcur]; exact Or.inl rfl) hp1
        cases hq
        exact ih (b.size - n1) (by omega) n1 _ (some hv1) (hlsOK_next g1 hok1) hpost.2
          (hlsPend_next g1 (some hv1) hpe) hpost.1 (H.next g1 (hS (Or.inl rfl)) (hF rfl) (by omega))
          (flo_next_cur hl g1 H.clean) (by intro hh; cases hh)
          (fun hv' hh => ⟨by cases hh; exact G1.next g1 E1 C1, by cases hh; exact G2.next g1 E2 C2,
            hK hv' (Or.inl rfl) hh⟩) rfl
      case empty =>
        have := hemp rfl
        subst this
        split
        · intro _ hv' hh; cases hh; exact ⟨G1.setCur g1, G2.setCur g1, G3⟩
        · intro hh; cases hh
      all_goals (intro hh; cases hh)
    · rw [if_neg hlt]
      intro hh; cases hh

/-! #### the message -/

/-- **message, one call from the initial state** (same hypotheses as `pl_parseSIPMsg`) -/
theorem hx_parseSIPMsg (b : Buf) (o : Nat) (m : PSIPMsg) (flags : Nat) (hfit : b.size ≤ 65535)
    (hok : msgOK2 b o m) (H : MsgSafe b o m) (hst : m.state = .init) (hcur : m.hl.cur = {})
    (G : HxInv m.hl (some m.pv)) {o' : Nat} {m' : PSIPMsg} (hr : parseSIPMsg b o m flags = (o', .ok, m')) :
    HxInv m'.hl (some m'.pv) := by
  obtain ⟨ho, _, hrest⟩ := hok
  obtain ⟨hls, hvs, hpe⟩ := hrest (by rw [hst]; decide)
  have h1 : parseSIPMsg b o m flags = msgFLine b o { m with offs := o, state := .fline } flags := by
    unfold parseSIPMsg; rw [hst]
  rw [h1] at hr
  unfold msgFLine at hr
  simp only at hr
  have hF := parseFLine_safe b o m.fl hfit (H.flS (Or.inl hst))
  have hge := parseFLine_ge b o m.fl
  rcases hp : parseFLine b o m.fl with ⟨o1, e1, fl1⟩
  rw [hp] at hr hF hge
  simp only at hF hge
  cases e1 <;> simp only at hr
  case ok =>
    rw [msgHeaders_eq] at hr
    simp only at hr
    have hHls : HlsSafe b o1 m.hl (some m.pv) := (H.hls (Or.inl hst)).mono hge hF.ho
    have hNn := hx_parseHeaders b o1 m.hl (some m.pv) hfit hls (hvOK_mono hvs hge hF.ho) hpe hF.ho hHls hcur
      (by intro hh; cases hh) G
    have hsome := parseHeaders_isSome b o1 m.hl m.pv
    rcases hp2 : parseHeaders b o1 m.hl (some m.pv) with ⟨o2, e2, hl2, hb2⟩
    rw [hp2] at hr hNn hsome
    cases hb2 with
    | none => cases hsome
    | some pv2 =>
      unfold afterHeaders at hr
      cases e2 <;> simp only [Option.getD_some] at hr
      case ok =>
        obtain ⟨k1, k2, k3⟩ := flo_msgBody_keeps b o2 { m with offs := o, fl := fl1, hl := hl2, pv := pv2, state := .body } flags
        rw [hr] at k1 k2 k3
        rw [k2, k3]; exact hNn rfl
      all_goals (exfalso; have hq := congrArg (fun r => r.2.1) hr; simp only at hq; exact flo_msgErr_ne_ok _ _ _ _ (by decide) hq)
  all_goals (exfalso; have hq := congrArg (fun r => r.2.1) hr; simp only at hq; exact flo_msgErr_ne_ok _ _ _ _ (by decide) hq)

theorem HxAssoc_zero (ty : Nat) (hl : HdrLst) (vals : Array PFromBody) (h0 : hl.n = 0) : HxAssoc ty hl vals 0 0 := by
  refine ⟨fun _ => 0, [], (fun j hj => by omega), (by rw [h0]; rfl), rfl, (fun c hc => by cases hc), rfl, fun i j hij => ?_⟩
  rw [h0] at hij
  cases hij

theorem HxInv_init (m : PSIPMsg) (len kh kc : Nat) (hdrs : Option Unit) (cts : Option Unit) :
    let m1 := m.init len (hdrs.map fun _ => Array.replicate kh {}) (cts.map fun _ => Array.replicate kc {})
    HxInv m1.hl (some m1.pv) := by
  have key : ∀ k k', HxInv (initObj len k k').hl (some (initObj len k k').pv) := by
    intro k k' hv hh
    cases hh
    exact ⟨HxAssoc_zero _ _ _ rfl, HxAssoc_zero _ _ _ rfl, Or.inl rfl⟩
  cases hdrs <;> cases cts
  · exact key 10 10
  · exact key 10 kc
  · exact key kh 10
  · exact key kh kc

/-- the statement about one message object: `HxAssoc` for the Contact list and for the identity list; the CSeq object is
    untouched or parsed with the strict order -/
def HxMsg (m : PSIPMsg) : Prop :=
  HxAssoc HdrContact m.hl m.pv.contacts.vals m.pv.contacts.n m.pv.contacts.hNo ∧
  HxAssoc HdrPAI m.hl m.pv.pais.vals m.pv.pais.n m.pv.pais.hNo ∧ HxCsK m.pv.cseq

/-- **[C05] message level, one call on an object produced by Init** (any previous contents, caller arrays of any
    capacity or none; EVERY input within the 65,535-byte limit) -/
theorem hx_values_exact_init (b : Buf) (o : Nat) (m0 : PSIPMsg) (len kh kc : Nat) (hdrs cts : Option Unit)
    (flags : Nat) (hfit : b.size ≤ 65535) (ho : o ≤ b.size) {o' : Nat} {m' : PSIPMsg}
    (hr : parseSIPMsg b o (m0.init len (hdrs.map fun _ => Array.replicate kh {}) (cts.map fun _ => Array.replicate kc {}))
      flags = (o', .ok, m')) : HxMsg m' := by
  obtain ⟨_, q2, q3⟩ := MsgLo_init o m0 len kh kc hdrs cts
  exact hx_parseSIPMsg b o _ flags hfit (msgOK2_init b o ho m0 len kh kc hdrs cts)
    (MsgSafe_init b o ho m0 len kh kc hdrs cts) q3 q2 (HxInv_init m0 len kh kc hdrs cts) hr m'.pv rfl

/-- **[C05] … under every chunk schedule, from Init**: if the chain of resumed calls over growing prefixes ends with
    OK, the final object satisfies the same statement -/
theorem hx_values_exact_schedule_init (flags : Nat) (o : Nat) (m0 : PSIPMsg) (len kh kc : Nat)
    (hdrs cts : Option Unit) (l : List Buf) (hg : Growing l) (hfit : ∀ x ∈ l, x.size ≤ 65535) (hne : l ≠ [])
    (ho : ∀ b ∈ l, o ≤ b.size) {o' : Nat} {m' : PSIPMsg}
    (hr : resumeRun (C01.msgP flags) o
      (m0.init len (hdrs.map fun _ => Array.replicate kh {}) (cts.map fun _ => Array.replicate kc {})) l = (o', .ok, m')) :
    HxMsg m' := by
  obtain ⟨b, hb, h⟩ := flo_schedule_init flags o m0 len kh kc hdrs cts l hg hfit hne ho hr
  exact hx_values_exact_init b o m0 len kh kc hdrs cts flags (hfit b hb) (ho b hb) h

/-- **ParseHeaders, one call on the header list and values object of an Init object** -/
theorem hx_parseHeaders_init (b : Buf) (o : Nat) (m0 : PSIPMsg) (len kh kc : Nat) (hdrs cts : Option Unit)
    (hfit : b.size ≤ 65535) (ho : o ≤ b.size) :
    let m1 := m0.init len (hdrs.map fun _ => Array.replicate kh {}) (cts.map fun _ => Array.replicate kc {})
    (parseHeaders b o m1.hl (some m1.pv)).2.1 = .ok →
      HxInv (parseHeaders b o m1.hl (some m1.pv)).2.2.1 (parseHeaders b o m1.hl (some m1.pv)).2.2.2 := by
  intro m1
  obtain ⟨_, q2, q3⟩ := MsgLo_init o m0 len kh kc hdrs cts
  obtain ⟨_, _, hrest⟩ := msgOK2_init b o ho m0 len kh kc hdrs cts
  obtain ⟨hls, hvs, hpe⟩ := hrest (by rw [q3]; decide)
  have hS := MsgSafe_init b o ho m0 len kh kc hdrs cts
  exact hx_parseHeaders b o m1.hl (some m1.pv) hfit hls hvs hpe ho (hS.hls (Or.inl q3)) q2 (by intro hh; cases hh)
    (HxInv_init m0 len kh kc hdrs cts)

/-! #### what `HxAssoc` says -/

/-- every value index below the sum of the counts belongs to exactly one block of the cumulative counts -/
theorem hx_block_exists (cnt : List Nat) (k : Nat) (hk : k < cnt.sum) :
    ∃ i, i < cnt.length ∧ hxStart cnt i ≤ k ∧ k < hxStart cnt (i + 1) := by
  induction cnt generalizing k with
  | nil => simp at hk
  | cons c cs ih =>
    by_cases h : k < c
    · exact ⟨0, by simp, by simp [hxStart], by simp [hxStart]; exact h⟩
    · simp only [List.sum_cons] at hk
      obtain ⟨i, h1, h2, h3⟩ := ih (k - c) (by omega)
      refine ⟨i + 1, by simp; omega, ?_, ?_⟩
      · simp only [hxStart, List.take_succ_cons, List.sum_cons] at h2 ⊢; omega
      · simp only [hxStart, List.take_succ_cons, List.sum_cons] at h3 ⊢; omega

theorem hx_block_unique (cnt : List Nat) (k i i' : Nat) (h1 : hxStart cnt i ≤ k) (h2 : k < hxStart cnt (i + 1))
    (h1' : hxStart cnt i' ≤ k) (h2' : k < hxStart cnt (i' + 1)) : i = i' := by
  have mono : ∀ a b, a ≤ b → hxStart cnt a ≤ hxStart cnt b := by
    intro a b hab
    unfold hxStart
    have : cnt.take a = (cnt.take b).take a := by rw [List.take_take, Nat.min_eq_left hab]
    rw [this]
    exact hxStart_le (cnt.take b) a
  rcases Nat.lt_trichotomy i i' with h | h | h
  · have := mono (i + 1) i' (by omega); omega
  · exact h
  · have := mono (i' + 1) i (by omega); omega

/-- **`HxAssoc`, when the header array holds all the headers** (`hl.n ≤` its capacity): let `idx` be the positions of the
    stored headers of type `ty`, in order.  Then `HNo` is the number of these headers, and there are counts `cnt` — one
    for each of them, each at least 1, with sum `N` — such that the values of the `i`-th header of type `ty` are exactly
    those with index in `[hxStart cnt i, hxStart cnt (i+1))` (cumulative counts): each of them that is stored has at
    least one byte and lies inside the `val` of THAT header; every value index below `N` is in exactly one of the blocks
    (`hx_block_exists`, `hx_block_unique`) -/
theorem HxAssoc.meaning_all_stored {ty : Nat} {hl : HdrLst} {vals : Array PFromBody} {n hNo : Nat}
    (H : HxAssoc ty hl vals n hNo) (hcap : hl.n ≤ hl.hdrs.size) :
    ((List.range hl.n).filter (fun j => hl.hdrs[j]!.type == ty)).length = hNo ∧
    ∃ cnt : List Nat, cnt.length = hNo ∧ (∀ c ∈ cnt, 0 < c) ∧ cnt.sum = n ∧
      ∀ i j, ((List.range hl.n).filter (fun j => hl.hdrs[j]!.type == ty))[i]? = some j →
        ∀ k, hxStart cnt i ≤ k → k < hxStart cnt (i + 1) → k < vals.size →
          j < hl.n ∧ hl.hdrs[j]!.type = ty ∧ 0 < vals[k]!.v.len ∧ hl.hdrs[j]!.val.offs ≤ vals[k]!.v.offs ∧
          vals[k]!.v.offs + vals[k]!.v.len ≤ hl.hdrs[j]!.val.offs + hl.hdrs[j]!.val.len := by
  obtain ⟨tyOf, cnt, h1, h2, h3, h4, h5, h6⟩ := H
  have e : (List.range hl.n).filter (fun j => hl.hdrs[j]!.type == ty) = hxIdx ty tyOf hl.n := by
    unfold hxIdx
    apply List.filter_congr
    intro x hx
    have := List.mem_range.1 hx
    rw [h1 x this (by omega)]
  rw [e]
  refine ⟨h2, cnt, h3, h4, h5, fun i j hij k k1 k2 k3 => ?_⟩
  obtain ⟨hj, hty⟩ := hxIdx_lt hij
  have := h6 i j hij k k1 k2 k3 (by omega)
  exact ⟨hj, by rw [h1 j hj (by omega)]; exact hty, this.1, this.2.1, this.2.2⟩

/-- **`HxAssoc`, any capacity of the header array**: the same with a ghost function `tyOf` for the types of ALL accepted
    header lines (it agrees with the stored ones); a value is compared with the `val` of its header only if that header
    is stored -/
theorem HxAssoc.meaning {ty : Nat} {hl : HdrLst} {vals : Array PFromBody} {n hNo : Nat} (H : HxAssoc ty hl vals n hNo) :
    ∃ (tyOf : Nat → Nat) (cnt : List Nat),
      (∀ j, j < hl.n → j < hl.hdrs.size → hl.hdrs[j]!.type = tyOf j) ∧
      ((List.range hl.n).filter (fun j => tyOf j == ty)).length = hNo ∧
      cnt.length = hNo ∧ (∀ c ∈ cnt, 0 < c) ∧ cnt.sum = n ∧
      ∀ i j, ((List.range hl.n).filter (fun j => tyOf j == ty))[i]? = some j →
        ∀ k, hxStart cnt i ≤ k → k < hxStart cnt (i + 1) → k < vals.size → j < hl.hdrs.size →
          hl.hdrs[j]!.type = ty ∧ 0 < vals[k]!.v.len ∧ hl.hdrs[j]!.val.offs ≤ vals[k]!.v.offs ∧
          vals[k]!.v.offs + vals[k]!.v.len ≤ hl.hdrs[j]!.val.offs + hl.hdrs[j]!.val.len := by
  obtain ⟨tyOf, cnt, h1, h2, h3, h4, h5, h6⟩ := H
  refine ⟨tyOf, cnt, h1, h2, h3, h4, h5, fun i j hij k k1 k2 k3 hjs => ?_⟩
  obtain ⟨hj, hty⟩ := hxIdx_lt hij
  have := h6 i j hij k k1 k2 k3 hjs
  exact ⟨by rw [h1 j hj hjs]; exact hty, this.1, this.2.1, this.2.2⟩

/-- **every stored value has its header line**: for each value index `k < N` there is exactly one line number `i < HNo`
    with `k` in the block of `i`; if the header array holds all headers, the `i`-th stored header of type `ty` exists
    and the value lies inside its `val` -/
theorem HxAssoc.value_line {ty : Nat} {hl : HdrLst} {vals : Array PFromBody} {n hNo : Nat}
    (H : HxAssoc ty hl vals n hNo) (hcap : hl.n ≤ hl.hdrs.size) (k : Nat) (hk : k < n) (hks : k < vals.size) :
    ∃ i j, i < hNo ∧ ((List.range hl.n).filter (fun j => hl.hdrs[j]!.type == ty))[i]? = some j ∧
      hl.hdrs[j]!.type = ty ∧ PlIn hl.hdrs[j]!.val vals[k]!.v := by
  obtain ⟨hlen, cnt, c1, c2, c3, c4⟩ := H.meaning_all_stored hcap
  obtain ⟨i, hi, k1, k2⟩ := hx_block_exists cnt k (by rw [c3]; exact hk)
  have hi' : i < ((List.range hl.n).filter (fun j => hl.hdrs[j]!.type == ty)).length := by rw [hlen, ← c1]; exact hi
  refine ⟨i, _, by rw [← c1]; exact hi, List.getElem?_eq_getElem hi', ?_⟩
  obtain ⟨_, a2, a3, a4, a5⟩ := c4 i _ (List.getElem?_eq_getElem hi') k k1 k2 hks
  exact ⟨a2, a3, a4, a5⟩


/-! #### `cseq_number_before_method`, message level -/

/-- **`cseq_number_before_method`**: in a message object that satisfies `HxMsg` (every successful parse from Init, see
    below), if the CSeq object is parsed then the number field has at least one byte, ends STRICTLY before the start of
    the method field, and the method field has at least one byte -/
theorem hx_cseq_number_before_method {m : PSIPMsg} (h : HxMsg m) (hp : m.pv.cseq.parsed = true) :
    0 < m.pv.cseq.cseq.len ∧ m.pv.cseq.cseq.offs + m.pv.cseq.cseq.len < m.pv.cseq.method.offs ∧
    0 < m.pv.cseq.method.len := by
  rcases h.2.2 with K | K
  · exfalso
    unfold PCSeqBody.parsed at hp
    rw [K] at hp
    cases hp
  · exact ⟨K.2.numNe, K.2.lt, K.2.methNe⟩

/-- … one successful ParseSIPMsg call on an object produced by Init; "a CSeq header was accepted" = its type flag is set
    (also when the header array was too small to store it) -/
theorem hx_cseq_number_before_method_init (b : Buf) (o : Nat) (m0 : PSIPMsg) (len kh kc : Nat) (hdrs cts : Option Unit)
    (flags : Nat) (hfit : b.size ≤ 65535) (ho : o ≤ b.size) {o' : Nat} {m' : PSIPMsg}
    (hr : parseSIPMsg b o (m0.init len (hdrs.map fun _ => Array.replicate kh {}) (cts.map fun _ => Array.replicate kc {}))
      flags = (o', .ok, m')) (hf : m'.hl.pflags.testBit HdrCSeq = true) :
    0 < m'.pv.cseq.cseq.len ∧ m'.pv.cseq.cseq.offs + m'.pv.cseq.cseq.len < m'.pv.cseq.method.offs ∧
    0 < m'.pv.cseq.method.len :=
  hx_cseq_number_before_method (hx_values_exact_init b o m0 len kh kc hdrs cts flags hfit ho hr)
    (shortcut_parsed_of_flag .cseq m' (svParsed_init b o m0 len kh kc hdrs cts flags hr) hf)

/-- … every chain of resumed calls over growing prefixes, from Init -/
theorem hx_cseq_number_before_method_schedule_init (flags : Nat) (o : Nat) (m0 : PSIPMsg) (len kh kc : Nat)
    (hdrs cts : Option Unit) (l : List Buf) (hg : Growing l) (hfit : ∀ x ∈ l, x.size ≤ 65535) (hne : l ≠ [])
    (ho : ∀ b ∈ l, o ≤ b.size) {o' : Nat} {m' : PSIPMsg}
    (hr : resumeRun (C01.msgP flags) o
      (m0.init len (hdrs.map fun _ => Array.replicate kh {}) (cts.map fun _ => Array.replicate kc {})) l = (o', .ok, m'))
    (hf : m'.hl.pflags.testBit HdrCSeq = true) :
    0 < m'.pv.cseq.cseq.len ∧ m'.pv.cseq.cseq.offs + m'.pv.cseq.cseq.len < m'.pv.cseq.method.offs ∧
    0 < m'.pv.cseq.method.len :=
  hx_cseq_number_before_method (hx_values_exact_schedule_init flags o m0 len kh kc hdrs cts l hg hfit hne ho hr)
    (shortcut_parsed_of_flag .cseq m' (svParsed_schedule_init flags o m0 len kh kc hdrs cts l hr) hf)

/-! ### non-vacuity and tests (closed computations by `decide +kernel`: examples, not the general claims) -/

/-- **the hypothesis of `hx_values_exact_init` is satisfiable** and the theorem applies to the test message of PaiLines
    (two Contact lines with 2 + 1 values, two P-Asserted-Identity lines with 2 + 1 values, other headers between them;
    header capacity 8, contact capacity 4) -/
theorem hxTest_msg : HxMsg (plTestM 8 4) := by
  have h : (parseSIPMsg plTestMsg 0 (({} : PSIPMsg).init 0 ((some ()).map fun _ => Array.replicate 8 {})
      ((some ()).map fun _ => Array.replicate 4 {})) 0).2.1 = .ok := by decide +kernel
  unfold plTestM
  rcases hp : parseSIPMsg plTestMsg 0 (({} : PSIPMsg).init 0 ((some ()).map fun _ => Array.replicate 8 {})
      ((some ()).map fun _ => Array.replicate 4 {})) 0 with ⟨o', e', m'⟩
  rw [hp] at h
  simp only at h
  subst h
  exact hx_values_exact_init plTestMsg 0 {} 0 8 4 (some ()) (some ()) 0 (by decide +kernel) (Nat.zero_le _) hp

/-- test: what the object looks like.  7 headers; the Contact headers are stored at positions 0 and 3, `HNo` = 2; three
    contact values: `V` = `[35, 54)` and `[57, 70)` inside header 0 (`val` = `[35, 70)`), `[124, 133)` inside header 3
    (`val` = `[124, 133)`): counts `[2, 1]`.  The P-Asserted-Identity headers are stored at positions 2 and 4, `HNo` = 2,
    three identities counted (two stored).  CSeq `1 REGISTER`: number `[185, 186)`, method `[187, 195)`. -/
example : (plTestM 8 4).hl.n = 7 ∧ (plTestM 8 4).pv.contacts.hNo = 2 ∧ (plTestM 8 4).pv.contacts.n = 3 ∧
    (List.range (plTestM 8 4).hl.n).filter (fun j => (plTestM 8 4).hl.hdrs[j]!.type == HdrContact) = [0, 3] ∧
    (plTestM 8 4).pv.contacts.vals.toList.map (fun f => (f.v.offs, f.v.len)) = [(35, 19), (57, 13), (124, 9), (0, 0)] ∧
    ((plTestM 8 4).hl.hdrs[0]!.val, (plTestM 8 4).hl.hdrs[3]!.val) = (⟨35, 35⟩, ⟨124, 9⟩) ∧
    (plTestM 8 4).pv.pais.hNo = 2 ∧ (plTestM 8 4).pv.pais.n = 3 ∧
    (List.range (plTestM 8 4).hl.n).filter (fun j => (plTestM 8 4).hl.hdrs[j]!.type == HdrPAI) = [2, 4] ∧
    (plTestM 8 4).hl.pflags.testBit HdrCSeq = true ∧
    ((plTestM 8 4).pv.cseq.cseq, (plTestM 8 4).pv.cseq.method) = (⟨185, 1⟩, ⟨187, 8⟩) := by decide +kernel

/-- test for `hx_block_exists`: with counts `[2, 1]` the blocks are `[0, 2)` and `[2, 3)` -/
example : hxStart [2, 1] 0 = 0 ∧ hxStart [2, 1] 1 = 2 ∧ hxStart [2, 1] 2 = 3 := by decide

/-- tests for `hx_parseCSeqVal_strict_new`: texts without white space between number and method, or without a method,
    are rejected; `1 R` is the smallest accepted text: number `[0, 1)`, method `[2, 3)` -/
example :
    (parseCSeqVal "1REGISTER\r\n\r\n".toUTF8.data 0 {}).2.1 = .badChar ∧
    (parseCSeqVal "1 \r\n\r\n".toUTF8.data 0 {}).2.1 = .bad ∧
    (parseCSeqVal "1 R\r\n\r\n".toUTF8.data 0 {}).2.1 = .ok ∧
    ((parseCSeqVal "1 R\r\n\r\n".toUTF8.data 0 {}).2.2.cseq, (parseCSeqVal "1 R\r\n\r\n".toUTF8.data 0 {}).2.2.method) =
      (⟨0, 1⟩, ⟨2, 1⟩) := by decide +kernel

end Sipsp
