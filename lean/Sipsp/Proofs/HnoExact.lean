/-
  Sipsp.Proofs.HnoExact — EXPORT C05: (1) WHICH stored header line each stored Contact / P-Asserted-Identity value belongs
  to (exactly, by cumulative counts; `HNo` = number of header lines of the type); (2) `cseq_number_before_method`: the CSeq
  number ends strictly before the method, both non-empty; (3) the last byte of a name-addr value `V` / parameter span is
  not white space, except in one described shape.  Everything is about the model, for EVERY input within the 65,535-byte
  limit (no grammar assumption), any capacities, and every chunk schedule from Init.

  (0) `hx_parseHdrLine_split` (no hypothesis on the buffer or the values object): ParseHdrLine, started on a header object
      that has not reached the colon (in particular a new one), either leaves the values object alone — and after OK the
      value was scanned generically, i.e. the dispatch `parseBody` did nothing for that type (`HxGen`) — or its result is
      that of ONE call of `parseBody` on a header in the "body start" state with the values object the line started with.
      `hx_parseBody_frame`: what that call leaves alone (type of the header; the Contact list unless the type is Contact;
      the identity list unless the type is P-Asserted-Identity; the CSeq object unless the type is CSeq and the object is
      not yet parsed — then it is one call of ParseCSeqVal; the From / To objects unless not yet parsed — then it is one
      call of ParseNameAddrPVal).
  (1) * counters: `hx_contactsLoop_cnt`, `hx_contact_line_cnt` (`hx_paisLoop_cnt`, `hx_pai_line_cnt`): the value-list loop
        never touches `HNo`, and after OK at least one value was counted; `hx_line_cnt` (`HxCnt`): an accepted header line
        of the list's type raises `HNo` by exactly one and `N` by at least one; a line of any other type changes neither.
      * `HxAssoc ty hl vals n hNo` (spelled out in `HxAssoc.meaning_all_stored`, `HxAssoc.meaning`, `HxAssoc.value_line`):
        let `idx` be the positions of the accepted header lines of type `ty` (in message order); then `idx.length = hNo`,
        and there is a list `cnt` of `hNo` counts, each ≥ 1, with sum `n`, such that the values with index in
        `[hxStart cnt i, hxStart cnt (i+1))` (cumulative counts: the values of the first line first, then those of the
        second, …) are the values of line `idx[i]`: each of them that is stored is not empty and lies inside the `val` of
        THAT header (if it is stored).  When the header array holds all headers (`hl.n ≤ capacity`) `idx` is computed from
        the stored headers: `(List.range hl.n).filter (fun j => hl.hdrs[j]!.type == ty)`.  `hx_block_exists` /
        `hx_block_unique`: every value index below `n` lies in exactly one block.
      * `HxAssoc.next`, `HxAssoc.setCur`, `HxInv`, `hx_parseHeaders` (ParseHeaders, one call from the start of a line on a
        legitimate list: same hypotheses as `pl_parseHeaders`), `hx_parseHeaders_init` (ParseHeaders on the list / values
        object of an Init object), `hx_parseSIPMsg`, `hx_values_exact_init` (one successful ParseSIPMsg call on an Init
        object, any capacities), `hx_values_exact_schedule_init` (every chain of resumed calls over growing prefixes,
        through the one-shot equivalence): `HxMsg m'` = `HxAssoc` for the Contact list and for the identity list (and (2)).
      This strengthens `PlAssoc` of PaiLines (a monotone map into the header lines, right type): the map is now exact —
      onto the lines of the type, no line without a value, `HNo` lines in all.
  (2) `HxCsStrict` (number not empty, number end < method start, method not empty); `HxCsI` (resumption invariant, holds
      of every object in the initial state); `hx_parseCSeqVal_strict` (`HxCsT`: OK ⇒ strict order, MoreBytes ⇒ the invariant
      again: so a value parsed over any number of calls on the same buffer is covered), `hx_parseCSeqVal_strict_new`;
      `hx_line_cseq`, and message level: `hx_cseq_number_before_method` (from `HxMsg`), `_init`, `_schedule_init` ("a CSeq
      header was accepted" = its type flag is set, also when the header array was too small to store it).
      Why strict: the number ends at a white-space byte and the method starts at a byte that is not white space.
  (3) trimming of name-addr values: `hx_value_last_byte` (`HxTrC`, spelled out in `HxTrC.meaning`): whenever
      ParseNameAddrPVal, started on a new object, says OK or "more values" (any header kind), the LAST byte of `V` is not
      SP / HT / CR / LF — except in ONE shape: verdict "more values", the byte at the end of `V` is the comma, and `V` ends
      with a non-empty run of white space that directly follows a `;` (empty parameter, `<a>; ,<b>`) or a `=` (empty
      parameter value, `<a>;tag= ,<b>`).  `hx_value_last_byte_ok`: never after OK.  `hx_params_last_byte`: the same for the
      parameter span (it ends where `V` ends).  Loop invariant `HxTrI` over the 33-state automaton (`hx_tr_cont`,
      `hx_tr_done`), with `hx_skipLWS_ok_run` (every byte skipped by skipLWS is white space).
      (3b) lifted to the message: `HxValProp` / `HxValProp2` (a property of every value ParseNameAddrPVal completes from a new
      object), `hx_contactsLoop_all`, `hx_contact_line_all` (`hx_paisLoop_all`, `hx_pai_line_all`), `HxVals`,
      `hx_parseBody_vals`, `hx_line_vals`, `hx_parseHeaders_vals`, `hx_parseSIPMsg_vals`, `hx_msg_vals_init` — generic: ANY such
      property holds of From, To and every stored Contact / identity value after a successful ParseSIPMsg — and the
      instance `hx_msg_trim_init`, `hx_msg_trim_schedule_init`: From / To never end with white space; every stored
      Contact / identity value does not end with white space except in the one shape above.
  Non-vacuity / tests (`hxTest_msg` and the `decide +kernel` examples: labelled tests, not the general claims).
  NOT proved here: that the counts `cnt` are unique (they are, because the header values do not overlap — `HlsLo` — and the
  stored values are not empty, but this is not derived); that the `val` of a Contact header starts with its first value and
  ends with its last one (only containment); (1) for objects suspended in the middle of a header line other than through
  the one-shot equivalence (growing prefixes within the size limit); for (3): nothing about leading white space or white
  space inside the spans other than at their end; the `first` / `last` overflow slots of the contact list.
-/
import Sipsp.Proofs.PaiLines

namespace Sipsp

/-! ### (0) ParseHdrLine from a new header object factors through ONE call of the value dispatch -/

/-- states of a header object before the colon -/
def HxPre (s : HState) : Prop := s = .init ∨ s = .name ∨ s = .nameEnd

/-- "the value of a header of type `t` is scanned generically": the dispatch, asked at some position with a header of
    that type, left the header in the "body start" state (nothing to do for this type / this values object) -/
def HxGen (b : Buf) (hv : PHdrVals) (t : Nat) : Prop :=
  ∃ i h1, h1.state = .bodyStart ∧ h1.type = t ∧ (parseBody b i h1 (some hv)).2.2.1.state = .bodyStart

/-- loop invariant: the values object is still the one the line started with; after the colon the value is being
    scanned generically -/
def HxS (b : Buf) (hv : PHdrVals) : Nat → HLσ → Prop := fun _ st =>
  st.2 = some hv ∧ (HxPre st.1.state ∨ (svG3 st.1.state ∧ HxGen b hv st.1.type))

/-- what a finished line is: the values object was left alone (and after OK the value was scanned generically), or the
    result is that of ONE call of the dispatch `parseBody` at a position inside the buffer on a header in the "body
    start" state with the values object the line started with -/
def HxT (b : Buf) (hv : PHdrVals) : Nat → Err → HLσ → Prop := fun o' e st =>
  ∃ hv', st.2 = some hv' ∧
    ((hv' = hv ∧ (e = .ok → HxGen b hv st.1.type)) ∨
     (∃ i h1 h2, i ≤ b.size ∧ h1.state = .bodyStart ∧ parseBody b i h1 (some hv) = (o', e, h2, some hv') ∧
        h2.state ≠ .bodyStart ∧ e ≠ .empty ∧ st.1 = (if e == .ok then { h2 with state := .fin } else h2)))

theorem hx_T_err {b : Buf} (hv : PHdrVals) (n : Nat) {e : Err} (h : Hdr) (he : e ≠ .ok) : HxT b hv n e (h, some hv) :=
  ⟨hv, rfl, Or.inl ⟨rfl, fun hh => absurd hh he⟩⟩

theorem hx_T_gen {b : Buf} (hv : PHdrVals) (n : Nat) {e : Err} (h : Hdr) (hg : HxGen b hv h.type) :
    HxT b hv n e (h, some hv) :=
  ⟨hv, rfl, Or.inl ⟨rfl, fun _ => hg⟩⟩

theorem hx_hlAfterColon (b : Buf) (i : Nat) (h : Hdr) (hv : PHdrVals) (hi : i ≤ b.size) (hst : h.state = .bodyStart) :
    StepAll2 (HxS b hv) (HxT b hv) (hlAfterColon b i h (some hv)) := by
  unfold hlAfterColon
  split
  · exact hx_T_err hv _ _ (by decide)
  · rename_i nm _
    simp only
    rcases hp : parseBody b i { h with type := getHdrType nm } (some hv) with ⟨n, e, h2, hb2⟩
    obtain ⟨hv2, rfl, _⟩ := svl_parseBody b i { h with type := getHdrType nm } hv hp
    simp only
    by_cases hs2 : h2.state = .bodyStart
    · obtain ⟨_, _, hh2, hb2e⟩ := parseBody_keep b i _ (some hv) hp hs2
      cases hb2e
      have hne : ((h2.state != HState.bodyStart) = true) = False := by rw [hs2]; simp
      simp only [hne, ↓reduceIte]
      refine ⟨rfl, Or.inr ⟨Or.inl hs2, i, { h with type := getHdrType nm }, hst, ?_, ?_⟩⟩
      · rw [hh2]
      · rw [hp]; exact hs2
    · have hne1 : (h2.state != HState.bodyStart) = true := by simpa using hs2
      simp only [hne1, ↓reduceIte]
      have hne : e ≠ .empty := by
        have := parseBody_ne_empty b i { h with type := getHdrType nm } (some hv)
        rw [hp] at this; exact this
      exact ⟨hv2, rfl, Or.inr ⟨i, { h with type := getHdrType nm }, h2, hi, hst, hp, hs2, hne, rfl⟩⟩

theorem hx_hlName (b : Buf) (i : Nat) (h : Hdr) (hv : PHdrVals) :
    StepAll2 (HxS b hv) (HxT b hv) (hlName b i h (some hv)) := by
  unfold hlName
  simp only
  split
  · exact hx_T_err hv _ _ (by decide)
  · rename_i c hj
    have hjl := get?_lt hj
    split
    · split
      · exact hx_T_err hv _ _ (by decide)
      · exact ⟨rfl, Or.inl (Or.inr (Or.inr rfl))⟩
    · split
      · split
        · exact hx_T_err hv _ _ (by decide)
        · exact hx_hlAfterColon b _ _ hv (by omega) rfl
      · exact hx_T_err hv _ _ (by decide)

theorem hx_hlValEnd (b : Buf) (i : Nat) (h : Hdr) (hv : PHdrVals) (hg : HxGen b hv h.type) :
    StepAll2 (HxS b hv) (HxT b hv) (hlValEnd b i h (some hv)) := by
  unfold hlValEnd
  rcases hsk : skipLWS b i 0 with ⟨n, crl, e⟩
  cases e <;> simp only
  case ok => exact ⟨rfl, Or.inr ⟨Or.inr (Or.inl rfl), hg⟩⟩
  case eoh => exact hx_T_gen hv _ _ hg
  all_goals exact hx_T_err hv _ _ (by decide)

theorem hx_hlStep (b : Buf) (i : Nat) (c : UInt8) (st : HLσ) (hv : PHdrVals)
    (hb : b[i]? = some c) (H : HxS b hv i st) : StepAll2 (HxS b hv) (HxT b hv) (hlStep b i c st) := by
  obtain ⟨h, hb0⟩ := st
  obtain ⟨hq, hg⟩ := H
  simp only at hq hg
  subst hq
  have hlt := get?_lt hb
  have hgen : svG3 h.state → HxGen b hv h.type := by
    intro h3
    rcases hg with hh | hh
    · exfalso
      rcases h3 with h3 | h3 | h3 <;> rw [h3] at hh <;> rcases hh with hh | hh | hh <;> cases hh
    · exact hh.2
  unfold hlStep
  simp only
  cases hst : h.state <;> simp only
  case init =>
    split
    · split
      · exact hx_T_err hv _ _ (by decide)
      · split
        · exact hx_T_err hv _ _ (by decide)
        · exact hx_T_err hv _ _ (by decide)
    · split
      · exact hx_T_err hv _ _ (by decide)
      · exact hx_hlName b i _ hv
  case name => exact hx_hlName b i h hv
  case nameEnd =>
    split
    · exact hx_T_err hv _ _ (by decide)
    · rename_i c1 hj
      have hjl := get?_lt hj
      split
      · exact hx_hlAfterColon b _ _ hv (by omega) rfl
      · exact hx_T_err hv _ _ (by decide)
  case bodyStart =>
    have hG := hgen (Or.inl hst)
    rcases hsk : skipLWS b i 0 with ⟨n, crl, e⟩
    cases e <;> simp only
    case ok => exact ⟨rfl, Or.inr ⟨Or.inr (Or.inl rfl), hG⟩⟩
    case eoh => exact hx_T_gen hv _ _ hG
    all_goals exact hx_T_err hv _ _ (by decide)
  case val =>
    have hG := hgen (Or.inr (Or.inl hst))
    split
    · exact hx_T_err hv _ _ (by decide)
    · exact hx_hlValEnd b _ _ hv hG
  case valEnd => exact hx_hlValEnd b i h hv (hgen (Or.inr (Or.inr hst)))
  all_goals
    (exfalso
     rcases hg with hh | hh
     · rw [hst] at hh; rcases hh with hh | hh | hh <;> cases hh
     · rw [hst] at hh; rcases hh.1 with hh | hh | hh <;> cases hh)

/-- **ParseHdrLine from a header object that has not reached the colon (in particular a new one) factors through one
    call of the value dispatch** (any buffer, any values object) -/
theorem hx_parseHdrLine_split (b : Buf) (o : Nat) (h : Hdr) (hv : PHdrVals) (hst : HxPre h.state)
    {o' : Nat} {e : Err} {h' : Hdr} {hb' : Option PHdrVals} (hr : parseHdrLine b o h (some hv) = (o', e, h', hb')) :
    HxT b hv o' e (h', hb') := by
  unfold parseHdrLine at hr
  rcases hrl : runLoop hlMachine b o (h, some hv) with ⟨o1, e1, h1, hb1⟩
  rw [hrl] at hr
  simp only [Prod.mk.injEq] at hr
  obtain ⟨rfl, rfl, rfl, rfl⟩ := hr
  have := runLoop_safe2 hlMachine b (HxS b hv) (HxT b hv) hl_progress
    (fun i c st hb' hS => hx_hlStep b i c st hv hb' hS)
    (fun i st hS => ⟨hv, hS.1, Or.inl ⟨rfl, fun hh => by cases hh⟩⟩) o (h, some hv) ⟨rfl, Or.inl hst⟩
  rw [hrl] at this
  exact this

/-! ### (1a) what one header line does to the counters `N` and `HNo` of the two value lists -/

/-- **the loop of ParseAllContactValues** (any object, input, verdict): `HNo` is not touched; after OK at least one
    value was counted -/
theorem hx_contactsLoop_cnt (b : Buf) (offs : Nat) (c : PContacts) :
    (contactsLoop b offs c).2.2.hNo = c.hNo ∧ ((contactsLoop b offs c).2.1 = .ok → c.n < (contactsLoop b offs c).2.2.n) := by
  induction hk : b.size - offs using Nat.strongRecOn generalizing offs c with
  | _ k ih =>
    rw [contactsLoop]
    rcases hp : parseOneContact b offs c.cur with ⟨next, e1, pf⟩
    have hset : (c.setCur pf).hNo = c.hNo := (setCur_scalars c pf).1
    have hacc : ((c.setCur pf).account pf).hNo = c.hNo := by rw [account_hNo, hset]
    have haccn : ((c.setCur pf).account pf).n = c.n + 1 := by rw [account_n, setCur_n]
    cases e1 <;> simp only
    case ok => exact ⟨hacc, fun _ => by rw [haccn]; omega⟩
    case moreValues =>
      have hnx : (if c.n < c.vals.size then (c.setCur pf).account pf
          else { (c.setCur pf).account pf with last := {} }) = c.next pf := rfl
      rw [hnx]
      have h1 : (c.next pf).hNo = c.hNo := by rw [(ht_next_scalars c pf).1, hacc]
      by_cases hg : offs < next ∧ next ≤ b.size
      · rw [if_pos hg]
        obtain ⟨q1, q2⟩ := ih (b.size - next) (by omega) next (c.next pf) rfl
        exact ⟨by rw [q1, h1], fun he => by have := q2 he; rw [next_n] at this; omega⟩
      · rw [if_neg hg]; exact ⟨h1, fun hh => by cases hh⟩
    case moreBytes => exact ⟨hset, fun hh => by cases hh⟩
    all_goals
      refine ⟨?_, fun hh => by cases hh⟩
      split
      · exact hset
      · rfl

/-- **one Contact header line** (`k` = the new header count): after OK, `HNo = k` and at least one value was counted -/
theorem hx_contact_line_cnt (b : Buf) (o : Nat) (c : PContacts) (k : Nat) {o' : Nat} {c' : PContacts}
    (hr : parseAllContactValues b o { c with hNo := k, lastHVal := {} } = (o', .ok, c')) : c'.hNo = k ∧ c.n < c'.n := by
  rw [parseAllContactValues_eq_wrap, bump_wrap] at hr
  obtain ⟨q1, q2⟩ := hx_contactsLoop_cnt b o { c.wrap with hNo := k, lastHVal := {} }
  rw [hr] at q1 q2
  have e2 : ({ c.wrap with hNo := k, lastHVal := {} } : PContacts).n = c.n := (wrap_scalars c).1
  rw [e2] at q2
  exact ⟨q1, q2 rfl⟩

theorem hx_paisLoop_cnt (b : Buf) (offs : Nat) (c : PPAIs) :
    (paisLoop b offs c).2.2.hNo = c.hNo ∧ ((paisLoop b offs c).2.1 = .ok → c.n < (paisLoop b offs c).2.2.n) := by
  induction hk : b.size - offs using Nat.strongRecOn generalizing offs c with
  | _ k ih =>
    rw [paisLoop]
    rcases hp : parseOnePAI b offs c.cur with ⟨next, e1, pf⟩
    have hset : (c.setCur pf).hNo = c.hNo := (paSetCur_scalars c pf).1
    have hacc : ((c.setCur pf).account pf).hNo = c.hNo := by rw [paAccount_hNo, hset]
    have haccn : ((c.setCur pf).account pf).n = c.n + 1 := by rw [paAccount_n, paSetCur_n]
    cases e1 <;> simp only
    case ok => exact ⟨hacc, fun _ => by rw [haccn]; omega⟩
    case moreValues =>
      have hnx : (if c.n < c.vals.size then (c.setCur pf).account pf
          else { (c.setCur pf).account pf with last := {} }) = c.next pf := rfl
      rw [hnx]
      have h1 : (c.next pf).hNo = c.hNo := by rw [(paNext_scalars c pf).1, hacc]
      by_cases hg : offs < next ∧ next ≤ b.size
      · rw [if_pos hg]
        obtain ⟨q1, q2⟩ := ih (b.size - next) (by omega) next (c.next pf) rfl
        exact ⟨by rw [q1, h1], fun he => by have := q2 he; rw [paNext_n] at this; omega⟩
      · rw [if_neg hg]; exact ⟨h1, fun hh => by cases hh⟩
    case moreBytes => exact ⟨hset, fun hh => by cases hh⟩
    all_goals
      refine ⟨?_, fun hh => by cases hh⟩
      split
      · exact hset
      · rfl

theorem hx_pai_line_cnt (b : Buf) (o : Nat) (c : PPAIs) (k : Nat) {o' : Nat} {c' : PPAIs}
    (hr : parseAllPAIValues b o { c with hNo := k, lastHVal := {} } = (o', .ok, c')) : c'.hNo = k ∧ c.n < c'.n := by
  rw [parseAllPAIValues_eq_wrap, paBump_wrap] at hr
  obtain ⟨q1, q2⟩ := hx_paisLoop_cnt b o { c.wrap with hNo := k, lastHVal := {} }
  rw [hr] at q1 q2
  have e2 : ({ c.wrap with hNo := k, lastHVal := {} } : PPAIs).n = c.n := (paWrap_scalars c).1
  rw [e2] at q2
  exact ⟨q1, q2 rfl⟩

/-! ### (1b) the value dispatch: what it leaves alone -/

/-- **frame of the value dispatch** for a header in the "body start" state: the type of the header is kept; the Contact
    list is touched only for a Contact header, the identity list only for a P-Asserted-Identity header, the CSeq
    object only for a CSeq header when it is not yet parsed — then by ONE call of ParseCSeqVal at that position —, the
    From / To objects only when not yet parsed — then by ONE call of ParseNameAddrPVal -/
theorem hx_parseBody_frame (b : Buf) (o : Nat) (h : Hdr) (hv : PHdrVals) (hst : h.state = .bodyStart)
    {n : Nat} {e : Err} {h2 : Hdr} {hv2 : PHdrVals} (hr : parseBody b o h (some hv) = (n, e, h2, some hv2)) :
    h2.type = h.type ∧ (h.type ≠ HdrContact → hv2.contacts = hv.contacts) ∧ (h.type ≠ HdrPAI → hv2.pais = hv.pais) ∧
    (hv2.cseq = hv.cseq ∨
      (h.type = HdrCSeq ∧ hv.cseq.parsed = false ∧ parseCSeqVal b o hv.cseq = (n, e, hv2.cseq))) ∧
    (hv2.from_ = hv.from_ ∨ (hv.from_.parsed = false ∧ parseNameAddrPVal HdrFrom b o hv.from_ = (n, e, hv2.from_))) ∧
    (hv2.to = hv.to ∨ (hv.to.parsed = false ∧ parseNameAddrPVal HdrTo b o hv.to = (n, e, hv2.to))) := by
  by_cases htc : h.type = HdrContact
  · have hs : h.state ≠ .hContact := by rw [hst]; decide
    rw [svc_parseBody_contact b o h hv htc hs] at hr
    simp only [Prod.mk.injEq, Option.some.injEq] at hr
    obtain ⟨_, _, rfl, rfl⟩ := hr
    exact ⟨rfl, fun hh => absurd htc hh, fun _ => rfl, Or.inl rfl, Or.inl rfl, Or.inl rfl⟩
  by_cases htp : h.type = HdrPAI
  · have hs : h.state ≠ .hPAI := by rw [hst]; decide
    rw [svc_parseBody_pai b o h hv htp hs] at hr
    simp only [Prod.mk.injEq, Option.some.injEq] at hr
    obtain ⟨_, _, rfl, rfl⟩ := hr
    exact ⟨rfl, fun _ => rfl, fun hh => absurd htp hh, Or.inl rfl, Or.inl rfl, Or.inl rfl⟩
  have h_contacts : (h.type == HdrContact) = false := by simpa using htc
  have h_pais : (h.type == HdrPAI) = false := by simpa using htp
  have hskip : ∀ {n : Nat} {e : Err} {h2 : Hdr} {hv2 : PHdrVals},
      (o, Err.ok, h, some hv) = (n, e, h2, some hv2) →
      h2.type = h.type ∧ (h.type ≠ HdrContact → hv2.contacts = hv.contacts) ∧ (h.type ≠ HdrPAI → hv2.pais = hv.pais) ∧
      (hv2.cseq = hv.cseq ∨
        (h.type = HdrCSeq ∧ hv.cseq.parsed = false ∧ parseCSeqVal b o hv.cseq = (n, e, hv2.cseq))) ∧
      (hv2.from_ = hv.from_ ∨ (hv.from_.parsed = false ∧ parseNameAddrPVal HdrFrom b o hv.from_ = (n, e, hv2.from_))) ∧
      (hv2.to = hv.to ∨ (hv.to.parsed = false ∧ parseNameAddrPVal HdrTo b o hv.to = (n, e, hv2.to))) := by
    intro n e h2 hv2 hh
    simp only [Prod.mk.injEq, Option.some.injEq] at hh
    obtain ⟨rfl, rfl, rfl, rfl⟩ := hh
    exact ⟨rfl, fun _ => rfl, fun _ => rfl, Or.inl rfl, Or.inl rfl, Or.inl rfl⟩
  unfold parseBody at hr
  simp only at hr
  by_cases h_from_ : (h.type == HdrFrom) = true
  · simp only [h_from_, ↓reduceIte] at hr
    by_cases hp : (!hv.from_.parsed) = true
    · simp only [hp, ↓reduceIte] at hr
      rcases hq : parseFromVal b o hv.from_ with ⟨n1, e1, f⟩
      rw [hq] at hr
      simp only [Prod.mk.injEq, Option.some.injEq] at hr
      obtain ⟨rfl, rfl, rfl, rfl⟩ := hr
      exact ⟨rfl, fun _ => rfl, fun _ => rfl, Or.inl rfl, Or.inr ⟨by simpa using hp, hq⟩, Or.inl rfl⟩
    · simp only [hp, Bool.false_eq_true, ↓reduceIte] at hr
      exact hskip hr
  simp only [h_from_, Bool.false_eq_true, ↓reduceIte] at hr
  by_cases h_to : (h.type == HdrTo) = true
  · simp only [h_to, ↓reduceIte] at hr
    by_cases hp : (!hv.to.parsed) = true
    · simp only [hp, ↓reduceIte] at hr
      rcases hq : parseNameAddrPVal HdrTo b o hv.to with ⟨n1, e1, f⟩
      rw [hq] at hr
      simp only [Prod.mk.injEq, Option.some.injEq] at hr
      obtain ⟨rfl, rfl, rfl, rfl⟩ := hr
      exact ⟨rfl, fun _ => rfl, fun _ => rfl, Or.inl rfl, Or.inl rfl, Or.inr ⟨by simpa using hp, rfl⟩⟩
    · simp only [hp, Bool.false_eq_true, ↓reduceIte] at hr
      exact hskip hr
  simp only [h_to, Bool.false_eq_true, ↓reduceIte] at hr
  by_cases h_callid : (h.type == HdrCallID) = true
  · simp only [h_callid, ↓reduceIte] at hr
    by_cases hp : (!hv.callid.parsed) = true
    · simp only [hp, ↓reduceIte, Prod.mk.injEq, Option.some.injEq] at hr
      obtain ⟨_, _, rfl, rfl⟩ := hr
      exact ⟨rfl, fun _ => rfl, fun _ => rfl, Or.inl rfl, Or.inl rfl, Or.inl rfl⟩
    · simp only [hp, Bool.false_eq_true, ↓reduceIte] at hr
      exact hskip hr
  simp only [h_callid, Bool.false_eq_true, ↓reduceIte] at hr
  by_cases h_cseq : (h.type == HdrCSeq) = true
  · simp only [h_cseq, ↓reduceIte] at hr
    by_cases hp : (!hv.cseq.parsed) = true
    · simp only [hp, ↓reduceIte] at hr
      rcases hq : parseCSeqVal b o hv.cseq with ⟨n1, e1, f⟩
      rw [hq] at hr
      simp only [Prod.mk.injEq, Option.some.injEq] at hr
      obtain ⟨rfl, rfl, rfl, rfl⟩ := hr
      refine ⟨rfl, fun _ => rfl, fun _ => rfl, Or.inr ⟨by simpa using h_cseq, by simpa using hp, rfl⟩, Or.inl rfl, Or.inl rfl⟩
    · simp only [hp, Bool.false_eq_true, ↓reduceIte] at hr
      exact hskip hr
  simp only [h_cseq, Bool.false_eq_true, ↓reduceIte] at hr
  by_cases h_clen : (h.type == HdrCLen) = true
  · simp only [h_clen, ↓reduceIte] at hr
    by_cases hp : (!hv.clen.parsed) = true
    · simp only [hp, ↓reduceIte, Prod.mk.injEq, Option.some.injEq] at hr
      obtain ⟨_, _, rfl, rfl⟩ := hr
      exact ⟨rfl, fun _ => rfl, fun _ => rfl, Or.inl rfl, Or.inl rfl, Or.inl rfl⟩
    · simp only [hp, Bool.false_eq_true, ↓reduceIte] at hr
      exact hskip hr
  simp only [h_clen, h_contacts, Bool.false_eq_true, ↓reduceIte] at hr
  by_cases h_expires : (h.type == HdrExpires) = true
  · simp only [h_expires, ↓reduceIte] at hr
    by_cases hp : (!hv.expires.parsed) = true
    · simp only [hp, ↓reduceIte, Prod.mk.injEq, Option.some.injEq] at hr
      obtain ⟨_, _, rfl, rfl⟩ := hr
      exact ⟨rfl, fun _ => rfl, fun _ => rfl, Or.inl rfl, Or.inl rfl, Or.inl rfl⟩
    · simp only [hp, Bool.false_eq_true, ↓reduceIte] at hr
      exact hskip hr
  simp only [h_expires, h_pais, Bool.false_eq_true, ↓reduceIte] at hr
  exact hskip hr

/-- what an accepted header line of type `t` does to the counters of the value list of type `ty` (`n`, `hNo` before,
    `n'`, `hNo'` after): a line of the list's type counts as ONE more header and brings at least one value; a line of
    another type leaves both counters alone -/
def HxCnt (ty n hNo n' hNo' t : Nat) : Prop :=
  (t = ty → n < n' ∧ hNo' = hNo + 1) ∧ (t ≠ ty → n' = n ∧ hNo' = hNo)

theorem hx_gen_not_contact {b : Buf} {hv : PHdrVals} {t : Nat} (hg : HxGen b hv t) : t ≠ HdrContact ∧ t ≠ HdrPAI := by
  obtain ⟨i, h1, hs, ht, hq⟩ := hg
  refine ⟨fun hc => ?_, fun hc => ?_⟩
  · rw [svc_parseBody_contact b i h1 hv (ht.trans hc) (by rw [hs]; decide)] at hq
    cases hq
  · rw [svc_parseBody_pai b i h1 hv (ht.trans hc) (by rw [hs]; decide)] at hq
    cases hq

/-- the dispatch on a header in the "body start" state, verdict OK: the counters of both lists -/
theorem hx_parseBody_cnt (b : Buf) (o : Nat) (h : Hdr) (hv : PHdrVals) (hst : h.state = .bodyStart)
    {n : Nat} {h2 : Hdr} {hv2 : PHdrVals} (hr : parseBody b o h (some hv) = (n, .ok, h2, some hv2)) :
    HxCnt HdrContact hv.contacts.n hv.contacts.hNo hv2.contacts.n hv2.contacts.hNo h.type ∧
    HxCnt HdrPAI hv.pais.n hv.pais.hNo hv2.pais.n hv2.pais.hNo h.type := by
  obtain ⟨_, f1, f2, _, _, _⟩ := hx_parseBody_frame b o h hv hst hr
  refine ⟨⟨fun htc => ?_, fun hne => by rw [f1 hne]; exact ⟨rfl, rfl⟩⟩, ⟨fun htp => ?_, fun hne => by rw [f2 hne]; exact ⟨rfl, rfl⟩⟩⟩
  · rw [svc_parseBody_contact b o h hv htc (by rw [hst]; decide)] at hr
    rcases hq : parseAllContactValues b o { hv.contacts with hNo := hv.contacts.hNo + 1, lastHVal := {} } with ⟨n1, e1, c1⟩
    rw [hq] at hr
    simp only [Prod.mk.injEq, Option.some.injEq] at hr
    obtain ⟨rfl, rfl, rfl, rfl⟩ := hr
    obtain ⟨q1, q2⟩ := hx_contact_line_cnt b o hv.contacts _ hq
    exact ⟨q2, q1⟩
  · rw [svc_parseBody_pai b o h hv htp (by rw [hst]; decide)] at hr
    rcases hq : parseAllPAIValues b o { hv.pais with hNo := hv.pais.hNo + 1, lastHVal := {} } with ⟨n1, e1, c1⟩
    rw [hq] at hr
    simp only [Prod.mk.injEq, Option.some.injEq] at hr
    obtain ⟨rfl, rfl, rfl, rfl⟩ := hr
    obtain ⟨q1, q2⟩ := hx_pai_line_cnt b o hv.pais _ hq
    exact ⟨q2, q1⟩

/-- **one accepted header line** (header object that has not reached the colon, in particular a new one; any buffer,
    any values object): the counters of the Contact list and of the identity list, relative to the type of the
    accepted header -/
theorem hx_line_cnt (b : Buf) (o : Nat) (h : Hdr) (hv : PHdrVals) (hst : HxPre h.state)
    {o' : Nat} {h' : Hdr} {hb' : Option PHdrVals} (hr : parseHdrLine b o h (some hv) = (o', .ok, h', hb')) :
    ∃ hv', hb' = some hv' ∧
      HxCnt HdrContact hv.contacts.n hv.contacts.hNo hv'.contacts.n hv'.contacts.hNo h'.type ∧
      HxCnt HdrPAI hv.pais.n hv.pais.hNo hv'.pais.n hv'.pais.hNo h'.type := by
  obtain ⟨hv', hb, hcase⟩ := hx_parseHdrLine_split b o h hv hst hr
  simp only at hb hcase
  subst hb
  refine ⟨hv', rfl, ?_⟩
  rcases hcase with ⟨rfl, hg⟩ | ⟨i, h1, h2, _, hs1, hp, _, _, hh'⟩
  · obtain ⟨g1, g2⟩ := hx_gen_not_contact (hg trivial)
    exact ⟨⟨fun hh => absurd hh g1, fun _ => ⟨rfl, rfl⟩⟩, ⟨fun hh => absurd hh g2, fun _ => ⟨rfl, rfl⟩⟩⟩
  · have hty : h'.type = h1.type := by
      rw [hh']
      simp only [flo_beq_ok, ↓reduceIte]
      exact (hx_parseBody_frame b i h1 hv hs1 hp).1
    rw [hty]
    exact hx_parseBody_cnt b i h1 hv hs1 hp

/-! ### (1c) the exact association of the stored values with the header lines of their type -/
def hxIdx (ty : Nat) (tyOf : Nat → Nat) (N : Nat) : List Nat := (List.range N).filter (fun j => tyOf j == ty)
def hxStart (cnt : List Nat) (i : Nat) : Nat := (cnt.take i).sum

theorem hxIdx_succ (ty : Nat) (tyOf : Nat → Nat) (N : Nat) :
    hxIdx ty tyOf (N + 1) = hxIdx ty tyOf N ++ (if tyOf N = ty then [N] else []) := by
  unfold hxIdx
  rw [List.range_succ, List.filter_append]
  congr 1
  by_cases h : tyOf N = ty <;> simp [h]

theorem hxIdx_congr (ty : Nat) (f g : Nat → Nat) (N : Nat) (h : ∀ j, j < N → f j = g j) : hxIdx ty f N = hxIdx ty g N := by
  unfold hxIdx
  apply List.filter_congr
  intro x hx
  rw [h x (List.mem_range.1 hx)]

theorem hxIdx_lt {ty : Nat} {tyOf : Nat → Nat} {N i j : Nat} (h : (hxIdx ty tyOf N)[i]? = some j) : j < N ∧ tyOf j = ty := by
  have := List.mem_of_getElem? h
  unfold hxIdx at this
  rw [List.mem_filter] at this
  exact ⟨List.mem_range.1 this.1, by simpa using this.2⟩

theorem hxStart_le (cnt : List Nat) (i : Nat) : hxStart cnt i ≤ cnt.sum := by
  unfold hxStart
  conv => rhs; rw [← List.take_append_drop i cnt]
  rw [List.sum_append]
  omega

theorem hxStart_append_le (cnt : List Nat) (x i : Nat) (h : i ≤ cnt.length) : hxStart (cnt ++ [x]) i = hxStart cnt i := by
  unfold hxStart
  rw [List.take_append_of_le_length h]

theorem hxStart_length (cnt : List Nat) : hxStart cnt cnt.length = cnt.sum := by
  unfold hxStart; rw [List.take_length]

theorem hxStart_append_succ (cnt : List Nat) (x : Nat) : hxStart (cnt ++ [x]) (cnt.length + 1) = cnt.sum + x := by
  unfold hxStart
  have : (cnt ++ [x]).take (cnt.length + 1) = cnt ++ [x] := by
    apply List.take_of_length_le; simp
  rw [this, List.sum_append]; simp

/-- **the exact association** of the values of a list (`vals`, `n` = number of values counted, `hNo` = its header
    count) with the header lines counted in `hl`.  `tyOf j` is the type of the `j`-th accepted header line (a ghost
    function: it agrees with the stored headers; lines beyond the capacity of the header array are counted but not
    stored).  `hxIdx ty tyOf hl.n` is the list of the positions of the lines of type `ty`, in message order; there are
    exactly `hNo` of them.  `cnt` gives for each of these lines the number of values it carried (each at least 1, sum
    `n`); the values of line `i` (0-based among the lines of type `ty`) are those with index in
    `[hxStart cnt i, hxStart cnt (i+1))` — cumulative counts, the values of the first line first, then those of the
    second, … — and each of them that is stored lies inside the `val` of that header (if the header is stored) and is
    not empty. -/
def HxAssoc (ty : Nat) (hl : HdrLst) (vals : Array PFromBody) (n hNo : Nat) : Prop :=
  ∃ (tyOf : Nat → Nat) (cnt : List Nat),
    (∀ j, j < hl.n → j < hl.hdrs.size → hl.hdrs[j]!.type = tyOf j) ∧
    (hxIdx ty tyOf hl.n).length = hNo ∧ cnt.length = hNo ∧ (∀ c ∈ cnt, 0 < c) ∧ cnt.sum = n ∧
    ∀ i j, (hxIdx ty tyOf hl.n)[i]? = some j → ∀ k, hxStart cnt i ≤ k → k < hxStart cnt (i + 1) → k < vals.size →
      j < hl.hdrs.size → PlIn hl.hdrs[j]!.val vals[k]!.v

theorem HxAssoc.setCur {ty : Nat} {hl : HdrLst} {vals : Array PFromBody} {n hNo : Nat} (H : HxAssoc ty hl vals n hNo)
    (g : Hdr) : HxAssoc ty (hl.setCur g) vals n hNo := by
  obtain ⟨tyOf, cnt, h1, h2, h3, h4, h5, h6⟩ := H
  have hn : (hl.setCur g).n = hl.n := hlSetCur_n hl g
  refine ⟨tyOf, cnt, fun j hj hs => ?_, by rw [hn]; exact h2, h3, h4, h5, fun i j hij k k1 k2 k3 hjs => ?_⟩
  · rw [hn] at hj
    rw [hlSetCur_size] at hs
    rw [hlSetCur_ne hl g j (by omega)]
    exact h1 j hj hs
  · rw [hn] at hij
    rw [hlSetCur_size] at hjs
    have := (hxIdx_lt hij).1
    rw [hlSetCur_ne hl g j (by omega)]
    exact h6 i j hij k k1 k2 k3 hjs

theorem HxAssoc.next {ty : Nat} {hl : HdrLst} {vals vals' : Array PFromBody} {n n' hNo hNo' : Nat}
    (H : HxAssoc ty hl vals n hNo) (g : Hdr) (E : PlEff ty vals n vals' n' g.type g.val)
    (C : HxCnt ty n hNo n' hNo' g.type) : HxAssoc ty ((hl.setCur g).accept g) vals' n' hNo' := by
  have hn : ((hl.setCur g).accept g).n = hl.n + 1 := by rw [accept_n, hlSetCur_n]
  have hs : ((hl.setCur g).accept g).hdrs.size = hl.hdrs.size := by rw [accept_hdrs, hlSetCur_size]
  have hget : ∀ j, j < hl.n → ((hl.setCur g).accept g).hdrs[j]! = hl.hdrs[j]! := fun j hj => by
    rw [accept_hdrs]; exact hlSetCur_ne hl g j (by omega)
  have hgetn : hl.n < hl.hdrs.size → ((hl.setCur g).accept g).hdrs[hl.n]! = g := fun hin => by
    rw [accept_hdrs]; exact hlSetCur_get_n hl g hin
  obtain ⟨tyOf, cnt, h1, h2, h3, h4, h5, h6⟩ := H
  have hidx : hxIdx ty (fun j => if j = hl.n then g.type else tyOf j) (hl.n + 1) =
      hxIdx ty tyOf hl.n ++ (if g.type = ty then [hl.n] else []) := by
    rw [hxIdx_succ, hxIdx_congr ty (fun j => if j = hl.n then g.type else tyOf j) tyOf hl.n
      (fun j hj => by show (if j = hl.n then g.type else tyOf j) = tyOf j; rw [if_neg (by omega)])]
    rw [if_pos rfl]
  have htyOf : ∀ j, j < ((hl.setCur g).accept g).n → j < ((hl.setCur g).accept g).hdrs.size →
      ((hl.setCur g).accept g).hdrs[j]!.type = (fun j => if j = hl.n then g.type else tyOf j) j := by
    intro j hj hjs
    rw [hn] at hj; rw [hs] at hjs
    simp only
    by_cases hjn : j = hl.n
    · subst hjn; rw [if_pos rfl, hgetn hjs]
    · rw [if_neg hjn, hget j (by omega)]; exact h1 j (by omega) hjs
  by_cases ht : g.type = ty
  · -- a line of the list's type
    obtain ⟨hlt, hh⟩ := C.1 ht
    have hK : PlKeep vals n vals' n' ∧ ∀ j, n ≤ j → j < n' → j < vals'.size → PlIn g.val vals'[j]!.v := by
      rcases E with ⟨_, e2⟩ | ⟨_, hK, hin⟩
      · omega
      · exact ⟨hK, hin⟩
    refine ⟨fun j => if j = hl.n then g.type else tyOf j, cnt ++ [n' - n], htyOf, ?_, ?_, ?_, ?_, ?_⟩
    · rw [hn, hidx, if_pos ht, List.length_append, h2, hh]; rfl
    · rw [List.length_append, h3, hh]; rfl
    · intro c hc
      rcases List.mem_append.1 hc with hc | hc
      · exact h4 c hc
      · simp only [List.mem_singleton] at hc; omega
    · rw [List.sum_append, h5]; simp only [List.sum_cons, List.sum_nil]; omega
    · intro i j hij k k1 k2 k3 hjs
      rw [hn, hidx, if_pos ht] at hij
      rw [hs] at hjs
      by_cases hi : i < hNo
      · rw [List.getElem?_append_left (by rw [h2]; exact hi)] at hij
        rw [hxStart_append_le cnt _ i (by omega)] at k1
        rw [hxStart_append_le cnt _ (i + 1) (by omega)] at k2
        have hkn : k < n := by have := hxStart_le cnt (i + 1); omega
        have hj := (hxIdx_lt hij).1
        rw [hget j hj, hK.1.2.2 k hkn]
        exact h6 i j hij k k1 k2 (by rw [← hK.1.1]; exact k3) hjs
      · by_cases hi2 : i = hNo
        · have hi3 : i = cnt.length := by omega
          rw [hi3] at k1 k2
          rw [List.getElem?_append_right (by rw [h2]; omega), h2, hi2, Nat.sub_self] at hij
          simp only [List.getElem?_cons_zero, Option.some.injEq] at hij
          subst hij
          rw [hxStart_append_le cnt _ cnt.length (by omega), hxStart_length, h5] at k1
          rw [hxStart_append_succ, h5] at k2
          rw [hgetn hjs]
          exact hK.2 k k1 (by omega) k3
        · exfalso
          rw [List.getElem?_eq_none (by rw [List.length_append, h2]; simp only [List.length_cons, List.length_nil]; omega)] at hij
          cases hij
  · -- a line of another type
    obtain ⟨e1, e2⟩ := C.2 ht
    have ev : vals' = vals := by
      rcases E with ⟨e3, _⟩ | ⟨e3, _⟩
      · exact e3
      · exact absurd e3 ht
    subst e1 e2 ev
    refine ⟨fun j => if j = hl.n then g.type else tyOf j, cnt, htyOf, ?_, h3, h4, h5, ?_⟩
    · rw [hn, hidx, if_neg ht, List.append_nil, h2]
    · intro i j hij k k1 k2 k3 hjs
      rw [hn, hidx, if_neg ht, List.append_nil] at hij
      rw [hs] at hjs
      have hj := (hxIdx_lt hij).1
      rw [hget j hj]
      exact h6 i j hij k k1 k2 k3 hjs

/-! ### (2) CSeq: the number ends strictly before the method starts, and neither is empty -/

/-- **strict CSeq order**: the number has at least one byte, ends strictly before the start of the method, and the
    method has at least one byte -/
structure HxCsStrict (st : PCSeqBody) : Prop where
  numNe : 0 < st.cseq.len
  lt : st.cseq.offs + st.cseq.len < st.method.offs
  methNe : 0 < st.method.len

/-- resumption invariant of the CSeq object at loop position `i`: in the number, at least one digit was read; between
    number and method, the number is reported, not empty, and the byte just after it is white space; in the method, its
    first byte stands after that white space -/
def HxCsI (b : Buf) (i : Nat) (st : PCSeqBody) : Prop :=
  (st.state = .foundDigit → st.soffs < i) ∧
  (st.state = .endDigit → 0 < st.cseq.len ∧ st.cseq.offs + st.cseq.len ≤ i ∧
    ∃ c, b[st.cseq.offs + st.cseq.len]? = some c ∧ isLWSch c = true) ∧
  (st.state = .foundMethod → 0 < st.cseq.len ∧ st.cseq.offs + st.cseq.len < st.soffs ∧ st.soffs < i) ∧
  (st.state = .fend ∨ st.state = .fin → HxCsStrict st)

theorem HxCsI.mono {b : Buf} {i j : Nat} {st : PCSeqBody} (h : HxCsI b i st) (hij : i ≤ j) : HxCsI b j st :=
  ⟨fun hs => by have := h.1 hs; omega,
   fun hs => ⟨(h.2.1 hs).1, by have := (h.2.1 hs).2.1; omega, (h.2.1 hs).2.2⟩,
   fun hs => ⟨(h.2.2.1 hs).1, (h.2.2.1 hs).2.1, by have := (h.2.2.1 hs).2.2; omega⟩, h.2.2.2⟩

theorem HxCsI_init (b : Buf) (i : Nat) (st : PCSeqBody) (h : st.state = .init) : HxCsI b i st :=
  ⟨(fun hh => by rw [h] at hh; cases hh), (fun hh => by rw [h] at hh; cases hh), (fun hh => by rw [h] at hh; cases hh),
   (fun hh => by rw [h] at hh; rcases hh with hh | hh <;> cases hh)⟩

theorem hx_csSetMethod_strict (i : Nat) (st : PCSeqBody) (hi : i < 65536) (h1 : 0 < st.cseq.len)
    (h2 : st.cseq.offs + st.cseq.len < st.soffs) (h3 : st.soffs < i) : HxCsStrict (csSetMethod st i) := by
  refine ⟨?_, ?_, ?_⟩ <;> simp only [csSetMethod, PField.set, trunc16] <;> omega

theorem hx_csFinish (st : PCSeqBody) (b : Buf) (n crl : Nat) (h : HxCsStrict st)
    (hok : (csFinish st b n crl).2.1 = .ok) : HxCsStrict (csFinish st b n crl).2.2 := by
  unfold csFinish at hok ⊢
  simp only at hok ⊢
  split
  · rename_i hc; rw [if_pos hc] at hok; cases hok
  · split <;> exact ⟨h.numNe, h.lt, h.methNe⟩

theorem hx_csEOH (b : Buf) (i n crl : Nat) (st : PCSeqBody) (hi : i < 65536) (h : HxCsI b i st)
    (hok : (csEOH b st i n crl).2.1 = .ok) : HxCsStrict (csEOH b st i n crl).2.2 := by
  unfold csEOH at hok ⊢
  cases hst : st.state <;> rw [hst] at hok <;> simp only at hok ⊢
  · cases hok
  · cases hok
  · cases hok
  · obtain ⟨a1, a2, a3⟩ := h.2.2.1 hst
    exact hx_csFinish _ b n crl (hx_csSetMethod_strict i st hi a1 a2 a3) hok
  · exact hx_csFinish _ b n crl (h.2.2.2 (Or.inl hst)) hok
  · cases hok

/-- what a finished call of ParseCSeqVal guarantees: strict order after OK, the resumption invariant after MoreBytes -/
def HxCsT (b : Buf) : Nat → Err → PCSeqBody → Prop := fun j e s =>
  (e = .ok → HxCsStrict s) ∧ (e = .moreBytes → HxCsI b j s)

theorem HxCsT.err {b : Buf} {j : Nat} {e : Err} {s : PCSeqBody} (h1 : e ≠ .ok) (h2 : e ≠ .moreBytes) : HxCsT b j e s :=
  ⟨fun hh => absurd hh h1, fun hh => absurd hh h2⟩

theorem hx_csEOH_ne_more (b : Buf) (st : PCSeqBody) (i n crl : Nat) : (csEOH b st i n crl).2.1 ≠ .moreBytes := by
  have fin : ∀ s : PCSeqBody, (csFinish s b n crl).2.1 ≠ .moreBytes := by
    intro s
    unfold csFinish
    simp only
    split
    · intro hh; cases hh
    · split <;> (intro hh; cases hh)
  unfold csEOH
  cases st.state <;> simp only
  · intro hh; cases hh
  · intro hh; cases hh
  · intro hh; cases hh
  · exact fin _
  · exact fin _
  · intro hh; cases hh

theorem hx_csStep (b : Buf) (i : Nat) (c : UInt8) (st : PCSeqBody) (hfit : b.size ≤ 65535) (hb : b[i]? = some c)
    (h : HxCsI b i st) : StepAll2 (fun j s => HxCsI b j s) (HxCsT b) (csStep b i c st) := by
  have hlt := get?_lt hb
  have key : ∀ s1 : PCSeqBody, HxCsI b i s1 →
      StepAll2 (fun j s => HxCsI b j s) (HxCsT b) (lwsStd b i s1 (csEOH b) id) := by
    intro s1 h1
    exact lwsStd_all2 b i s1 (csEOH b) id _ _ (by omega) (fun n a1 _ => h1.mono a1)
      (fun n _ _ => HxCsT.err (by decide) (by decide)) (fun n a1 _ => ⟨(fun hh => by cases hh), (fun _ => h1.mono a1)⟩)
      (fun n crl _ _ _ => ⟨hx_csEOH b i n crl s1 (by omega) h1, fun hh => absurd hh (hx_csEOH_ne_more b s1 i n crl)⟩)
  -- the step `endDigit → foundMethod` (first byte of the method), taken on a byte that is not white space
  have hmeth : ¬ isLWSch c = true → st.state = .endDigit →
      HxCsI b (i + 1) { st with state := .foundMethod, soffs := i } := by
    intro hl hst
    obtain ⟨a1, a2, c1, a3, a4⟩ := h.2.1 hst
    have hne : st.cseq.offs + st.cseq.len ≠ i := by
      intro he
      rw [he, hb] at a3
      cases a3
      exact hl a4
    refine ⟨(fun hh => by cases hh), (fun hh => by cases hh), (fun _ => ⟨a1, ?_, ?_⟩),
      (fun hh => by rcases hh with hh | hh <;> cases hh)⟩
    · show st.cseq.offs + st.cseq.len < i
      omega
    · show i < i + 1
      omega
  unfold csStep
  by_cases hl : isLWSch c = true
  · rw [if_pos hl]
    cases hst : st.state <;> simp only
    · exact key _ h
    · have a1 := h.1 hst
      have hso : (PField.set st.soffs i).offs = st.soffs := flo_set_offs _ _ (by omega)
      have hsl : (PField.set st.soffs i).len = i - st.soffs := by
        show trunc16 (i - st.soffs) = _
        exact trunc16_of_lt (by omega)
      refine key _ ⟨(fun hh => by cases hh), (fun _ => ⟨?_, ?_, c, ?_, hl⟩), (fun hh => by cases hh),
        (fun hh => by rcases hh with hh | hh <;> cases hh)⟩
      · show 0 < (PField.set st.soffs i).len
        rw [hsl]; omega
      · show (PField.set st.soffs i).offs + (PField.set st.soffs i).len ≤ i
        rw [hso, hsl]; omega
      · show b[(PField.set st.soffs i).offs + (PField.set st.soffs i).len]? = some c
        rw [hso, hsl]
        have : st.soffs + (i - st.soffs) = i := by omega
        rw [this]; exact hb
    · exact key _ h
    · obtain ⟨a1, a2, a3⟩ := h.2.2.1 hst
      have hn := hx_csSetMethod_strict i st (by omega) a1 a2 a3
      exact key _ ⟨(fun hh => by cases hh), (fun hh => by cases hh), (fun hh => by cases hh),
        (fun _ => ⟨hn.numNe, hn.lt, hn.methNe⟩)⟩
    · exact key _ h
    · exact h.mono (by omega)
  · rw [if_neg hl]
    by_cases hd : isDigit c = true
    · rw [if_pos hd]
      cases hst : st.state <;> simp only
      · exact ⟨(fun _ => by show i < i + 1; omega), (fun hh => by cases hh), (fun hh => by cases hh),
          (fun hh => by rcases hh with hh | hh <;> cases hh)⟩
      · split
        · exact HxCsT.err (by decide) (by decide)
        · have := h.1 hst
          exact ⟨(fun _ => by show st.soffs < i + 1; omega), (fun hh => by cases hh),
            (fun hh => by cases hh), (fun hh => by rcases hh with hh | hh <;> cases hh)⟩
      · exact hmeth hl hst
      · exact h.mono (by omega)
      · exact HxCsT.err (by decide) (by decide)
      · exact h.mono (by omega)
    · rw [if_neg hd]
      cases hst : st.state <;> simp only
      · exact HxCsT.err (by decide) (by decide)
      · exact HxCsT.err (by decide) (by decide)
      · exact hmeth hl hst
      · exact h.mono (by omega)
      · exact HxCsT.err (by decide) (by decide)
      · exact h.mono (by omega)

/-- **`cseq_number_before_method`, ParseCSeqVal**: whenever ParseCSeqVal says OK — on a new object, or on any object
    returned by earlier calls on the same buffer (`HxCsI`, which holds of every object in the initial state and is kept
    by every call that asks for more bytes) — the number field has at least one byte, ends STRICTLY before the start of
    the method field, and the method field has at least one byte.  Every input within the 65,535-byte limit. -/
theorem hx_parseCSeqVal_strict (b : Buf) (o : Nat) (st : PCSeqBody) (hfit : b.size ≤ 65535) (h : HxCsI b o st) :
    HxCsT b (parseCSeqVal b o st).1 (parseCSeqVal b o st).2.1 (parseCSeqVal b o st).2.2 := by
  unfold parseCSeqVal
  split
  · rename_i hf; exact ⟨fun _ => h.2.2.2 (Or.inr hf), fun hh => by cases hh⟩
  · exact runLoop_safe2 csMachine b (fun j s => HxCsI b j s) (HxCsT b) cs_progress
      (fun i c s hb hs => hx_csStep b i c s hfit hb hs) (fun i s hs => ⟨(fun hh => by cases hh), (fun _ => hs)⟩) o st h

/-- one call on a new object -/
theorem hx_parseCSeqVal_strict_new (b : Buf) (o : Nat) (hfit : b.size ≤ 65535) {o' : Nat} {st' : PCSeqBody}
    (hr : parseCSeqVal b o {} = (o', .ok, st')) : HxCsStrict st' := by
  have := hx_parseCSeqVal_strict b o {} hfit (HxCsI_init b o {} rfl)
  rw [hr] at this
  exact this.1 rfl

/-- the CSeq object between two header lines of one ParseHeaders call: untouched, or parsed with the strict order -/
def HxCsK (st : PCSeqBody) : Prop := st.state = .init ∨ (st.state = .fin ∧ HxCsStrict st)

/-- **one header line** (header object that has not reached the colon; buffers within the 65,535-byte limit), verdict OK
    or "empty line": the CSeq object stays untouched-or-strictly-ordered -/
theorem hx_line_cseq (b : Buf) (o : Nat) (h : Hdr) (hv : PHdrVals) (hfit : b.size ≤ 65535) (hst : HxPre h.state)
    {o' : Nat} {e : Err} {h' : Hdr} {hb' : Option PHdrVals} (hr : parseHdrLine b o h (some hv) = (o', e, h', hb'))
    (he : e = .ok ∨ e = .empty) : ∃ hv', hb' = some hv' ∧ (HxCsK hv.cseq → HxCsK hv'.cseq) := by
  obtain ⟨hv', hb, hcase⟩ := hx_parseHdrLine_split b o h hv hst hr
  simp only at hb hcase
  subst hb
  refine ⟨hv', rfl, fun K => ?_⟩
  rcases hcase with ⟨rfl, _⟩ | ⟨i, h1, h2, _, hs1, hp, _, hne, _⟩
  · exact K
  · rcases he with rfl | rfl
    · rcases (hx_parseBody_frame b i h1 hv hs1 hp).2.2.2.1 with hq | ⟨_, hnp, hq⟩
      · rw [hq]; exact K
      · have hini : hv.cseq.state = .init := by
          rcases K with K | K
          · exact K
          · exfalso
            unfold PCSeqBody.parsed at hnp
            rw [K.1] at hnp
            cases hnp
        have hT := hx_parseCSeqVal_strict b i hv.cseq hfit (HxCsI_init b i _ hini)
        rw [hq] at hT
        have hf := sv_cs_ok b i hv.cseq hq
        refine Or.inr ⟨?_, hT.1 rfl⟩
        unfold PCSeqBody.parsed at hf
        simpa using hf
    · exact absurd rfl hne

/-- the exact association for both lists of a values object -/
def HxInv (hl : HdrLst) (hb : Option PHdrVals) : Prop :=
  ∀ hv, hb = some hv → HxAssoc HdrContact hl hv.contacts.vals hv.contacts.n hv.contacts.hNo ∧
    HxAssoc HdrPAI hl hv.pais.vals hv.pais.n hv.pais.hNo ∧ HxCsK hv.cseq

/-- **header block** (same hypotheses as `pl_parseHeaders`: a legitimate list whose current slot is new, i.e. one call
    of ParseHeaders from the start of a line; buffers within the 65,535-byte limit): ParseHeaders keeps / establishes
    the exact association -/
theorem hx_parseHeaders (b : Buf) (offs : Nat) (hl : HdrLst) (hb : Option PHdrVals) (hfit : b.size ≤ 65535)
    (hok1 : hlsOK b hl) (hok2 : hbOK b offs hb) (hpe : hlsPend hl hb) (ho : offs ≤ b.size)
    (H : HlsSafe b offs hl hb) (hcur : hl.cur = {}) (hsome : hb ≠ none) (G : HxInv hl hb) :
    (parseHeaders b offs hl hb).2.1 = .ok → HxInv (parseHeaders b offs hl hb).2.2.1 (parseHeaders b offs hl hb).2.2.2 := by
  induction hk : b.size - offs using Nat.strongRecOn generalizing offs hl hb with
  | _ k ih =>
    rw [parseHeaders.eq_1 b offs hl hb]
    by_cases hlt : offs < b.size
    · rw [if_pos hlt]
      have hI : hlOK b offs hl.cur hb := ⟨by omega, hlsOK_cur hok1, hok2⟩
      cases hb with
      | none => exact absurd rfl hsome
      | some hv =>
      rcases hp1 : parseHdrLine b offs hl.cur (some hv) with ⟨n1, e1, g1, v1⟩
      obtain ⟨hO, hS, hF, hN, hE⟩ := parseHdrLine_safe b offs hl.cur (some hv) hfit H.cur hI hp1
      have Hv := H.cur.hv hv rfl
      rw [hcur] at Hv
      have hct : CtIdle b hv.contacts := Hv.ctI (fun hq => by cases hq)
      have hpa : PaIdle b hv.pais := Hv.paI (fun hq => by cases hq)
      obtain ⟨hv1, rfl, hemp, hokE⟩ := pl_parseHdrLine b offs hl.cur hv hfit (by rw [hcur]; exact Or.inl rfl) hct hpa hp1
      obtain ⟨G1, G2, G3⟩ := G hv rfl
      have hK : ∀ hv2, e1 = .ok ∨ e1 = .empty → some hv1 = some hv2 → HxCsK hv2.cseq := by
        intro hv2 he hh
        obtain ⟨hv3, hq3, hk3⟩ := hx_line_cseq b offs hl.cur hv hfit (by rw [hcur]; exact Or.inl rfl) hp1 he
        cases hq3; cases hh
        exact hk3 G3
      cases e1 <;> simp only
      case ok =>
        have hpost := parseHdrLine_post b offs hl.cur (some hv) hI hp1 (Or.inl rfl)
        have hg : offs < n1 := parseHdrLine_ok_gt b offs hl.cur (some hv) hI hpe.1 hp1
        rw [if_pos hg]
        obtain ⟨E1, E2⟩ := hokE rfl
        obtain ⟨hv1', hq, C1, C2⟩ := hx_line_cnt b offs hl.cur hv (by rw [hcur]; exact Or.inl rfl) hp1
        cases hq
        exact ih (b.size - n1) (by omega) n1 _ (some hv1) (hlsOK_next g1 hok1) hpost.2
          (hlsPend_next g1 (some hv1) hpe) hpost.1 (H.next g1 (hS (Or.inl rfl)) (hF rfl) (by omega))
          (flo_next_cur hl g1 H.clean) (by intro hh; cases hh)
          (fun hv' hh => ⟨by cases hh; exact G1.next g1 E1 C1, by cases hh; exact G2.next g1 E2 C2,
            hK hv' (Or.inl rfl) hh⟩) rfl
      case empty =>
        have := hemp rfl
        subst this
        split
        · intro _ hv' hh; cases hh; exact ⟨G1.setCur g1, G2.setCur g1, G3⟩
        · intro hh; cases hh
      all_goals (intro hh; cases hh)
    · rw [if_neg hlt]
      intro hh; cases hh

/-! #### the message -/

/-- **message, one call from the initial state** (same hypotheses as `pl_parseSIPMsg`) -/
theorem hx_parseSIPMsg (b : Buf) (o : Nat) (m : PSIPMsg) (flags : Nat) (hfit : b.size ≤ 65535)
    (hok : msgOK2 b o m) (H : MsgSafe b o m) (hst : m.state = .init) (hcur : m.hl.cur = {})
    (G : HxInv m.hl (some m.pv)) {o' : Nat} {m' : PSIPMsg} (hr : parseSIPMsg b o m flags = (o', .ok, m')) :
    HxInv m'.hl (some m'.pv) := by
  obtain ⟨ho, _, hrest⟩ := hok
  obtain ⟨hls, hvs, hpe⟩ := hrest (by rw [hst]; decide)
  have h1 : parseSIPMsg b o m flags = msgFLine b o { m with offs := o, state := .fline } flags := by
    unfold parseSIPMsg; rw [hst]
  rw [h1] at hr
  unfold msgFLine at hr
  simp only at hr
  have hF := parseFLine_safe b o m.fl hfit (H.flS (Or.inl hst))
  have hge := parseFLine_ge b o m.fl
  rcases hp : parseFLine b o m.fl with ⟨o1, e1, fl1⟩
  rw [hp] at hr hF hge
  simp only at hF hge
  cases e1 <;> simp only at hr
  case ok =>
    rw [msgHeaders_eq] at hr
    simp only at hr
    have hHls : HlsSafe b o1 m.hl (some m.pv) := (H.hls (Or.inl hst)).mono hge hF.ho
    have hNn := hx_parseHeaders b o1 m.hl (some m.pv) hfit hls (hvOK_mono hvs hge hF.ho) hpe hF.ho hHls hcur
      (by intro hh; cases hh) G
    have hsome := parseHeaders_isSome b o1 m.hl m.pv
    rcases hp2 : parseHeaders b o1 m.hl (some m.pv) with ⟨o2, e2, hl2, hb2⟩
    rw [hp2] at hr hNn hsome
    cases hb2 with
    | none => cases hsome
    | some pv2 =>
      unfold afterHeaders at hr
      cases e2 <;> simp only [Option.getD_some] at hr
      case ok =>
        obtain ⟨k1, k2, k3⟩ := flo_msgBody_keeps b o2 { m with offs := o, fl := fl1, hl := hl2, pv := pv2, state := .body } flags
        rw [hr] at k1 k2 k3
        rw [k2, k3]; exact hNn rfl
      all_goals (exfalso; have hq := congrArg (fun r => r.2.1) hr; simp only at hq; exact flo_msgErr_ne_ok _ _ _ _ (by decide) hq)
  all_goals (exfalso; have hq := congrArg (fun r => r.2.1) hr; simp only at hq; exact flo_msgErr_ne_ok _ _ _ _ (by decide) hq)

theorem HxAssoc_zero (ty : Nat) (hl : HdrLst) (vals : Array PFromBody) (h0 : hl.n = 0) : HxAssoc ty hl vals 0 0 := by
  refine ⟨fun _ => 0, [], (fun j hj => by omega), (by rw [h0]; rfl), rfl, (fun c hc => by cases hc), rfl, fun i j hij => ?_⟩
  rw [h0] at hij
  cases hij

theorem HxInv_init (m : PSIPMsg) (len kh kc : Nat) (hdrs : Option Unit) (cts : Option Unit) :
    let m1 := m.init len (hdrs.map fun _ => Array.replicate kh {}) (cts.map fun _ => Array.replicate kc {})
    HxInv m1.hl (some m1.pv) := by
  have key : ∀ k k', HxInv (initObj len k k').hl (some (initObj len k k').pv) := by
    intro k k' hv hh
    cases hh
    exact ⟨HxAssoc_zero _ _ _ rfl, HxAssoc_zero _ _ _ rfl, Or.inl rfl⟩
  cases hdrs <;> cases cts
  · exact key 10 10
  · exact key 10 kc
  · exact key kh 10
  · exact key kh kc

/-- the statement about one message object: `HxAssoc` for the Contact list and for the identity list; the CSeq object is
    untouched or parsed with the strict order -/
def HxMsg (m : PSIPMsg) : Prop :=
  HxAssoc HdrContact m.hl m.pv.contacts.vals m.pv.contacts.n m.pv.contacts.hNo ∧
  HxAssoc HdrPAI m.hl m.pv.pais.vals m.pv.pais.n m.pv.pais.hNo ∧ HxCsK m.pv.cseq

/-- **[C05] message level, one call on an object produced by Init** (any previous contents, caller arrays of any
    capacity or none; EVERY input within the 65,535-byte limit) -/
theorem hx_values_exact_init (b : Buf) (o : Nat) (m0 : PSIPMsg) (len kh kc : Nat) (hdrs cts : Option Unit)
    (flags : Nat) (hfit : b.size ≤ 65535) (ho : o ≤ b.size) {o' : Nat} {m' : PSIPMsg}
    (hr : parseSIPMsg b o (m0.init len (hdrs.map fun _ => Array.replicate kh {}) (cts.map fun _ => Array.replicate kc {}))
      flags = (o', .ok, m')) : HxMsg m' := by
  obtain ⟨_, q2, q3⟩ := MsgLo_init o m0 len kh kc hdrs cts
  exact hx_parseSIPMsg b o _ flags hfit (msgOK2_init b o ho m0 len kh kc hdrs cts)
    (MsgSafe_init b o ho m0 len kh kc hdrs cts) q3 q2 (HxInv_init m0 len kh kc hdrs cts) hr m'.pv rfl

/-- **[C05] … under every chunk schedule, from Init**: if the chain of resumed calls over growing prefixes ends with
    OK, the final object satisfies the same statement -/
theorem hx_values_exact_schedule_init (flags : Nat) (o : Nat) (m0 : PSIPMsg) (len kh kc : Nat)
    (hdrs cts : Option Unit) (l : List Buf) (hg : Growing l) (hfit : ∀ x ∈ l, x.size ≤ 65535) (hne : l ≠ [])
    (ho : ∀ b ∈ l, o ≤ b.size) {o' : Nat} {m' : PSIPMsg}
    (hr : resumeRun (C01.msgP flags) o
      (m0.init len (hdrs.map fun _ => Array.replicate kh {}) (cts.map fun _ => Array.replicate kc {})) l = (o', .ok, m')) :
    HxMsg m' := by
  obtain ⟨b, hb, h⟩ := flo_schedule_init flags o m0 len kh kc hdrs cts l hg hfit hne ho hr
  exact hx_values_exact_init b o m0 len kh kc hdrs cts flags (hfit b hb) (ho b hb) h

/-- **ParseHeaders, one call on the header list and values object of an Init object** -/
theorem hx_parseHeaders_init (b : Buf) (o : Nat) (m0 : PSIPMsg) (len kh kc : Nat) (hdrs cts : Option Unit)
    (hfit : b.size ≤ 65535) (ho : o ≤ b.size) :
    let m1 := m0.init len (hdrs.map fun _ => Array.replicate kh {}) (cts.map fun _ => Array.replicate kc {})
    (parseHeaders b o m1.hl (some m1.pv)).2.1 = .ok →
      HxInv (parseHeaders b o m1.hl (some m1.pv)).2.2.1 (parseHeaders b o m1.hl (some m1.pv)).2.2.2 := by
  intro m1
  obtain ⟨_, q2, q3⟩ := MsgLo_init o m0 len kh kc hdrs cts
  obtain ⟨_, _, hrest⟩ := msgOK2_init b o ho m0 len kh kc hdrs cts
  obtain ⟨hls, hvs, hpe⟩ := hrest (by rw [q3]; decide)
  have hS := MsgSafe_init b o ho m0 len kh kc hdrs cts
  exact hx_parseHeaders b o m1.hl (some m1.pv) hfit hls hvs hpe ho (hS.hls (Or.inl q3)) q2 (by intro hh; cases hh)
    (HxInv_init m0 len kh kc hdrs cts)

/-! #### what `HxAssoc` says -/

/-- every value index below the sum of the counts belongs to exactly one block of the cumulative counts -/
theorem hx_block_exists (cnt : List Nat) (k : Nat) (hk : k < cnt.sum) :
    ∃ i, i < cnt.length ∧ hxStart cnt i ≤ k ∧ k < hxStart cnt (i + 1) := by
  induction cnt generalizing k with
  | nil => simp at hk
  | cons c cs ih =>
    by_cases h : k < c
    · exact ⟨0, by simp, by simp [hxStart], by simp [hxStart]; exact h⟩
    · simp only [List.sum_cons] at hk
      obtain ⟨i, h1, h2, h3⟩ := ih (k - c) (by omega)
      refine ⟨i + 1, by simp; omega, ?_, ?_⟩
      · simp only [hxStart, List.take_succ_cons, List.sum_cons] at h2 ⊢; omega
      · simp only [hxStart, List.take_succ_cons, List.sum_cons] at h3 ⊢; omega

theorem hx_block_unique (cnt : List Nat) (k i i' : Nat) (h1 : hxStart cnt i ≤ k) (h2 : k < hxStart cnt (i + 1))
    (h1' : hxStart cnt i' ≤ k) (h2' : k < hxStart cnt (i' + 1)) : i = i' := by
  have mono : ∀ a b, a ≤ b → hxStart cnt a ≤ hxStart cnt b := by
    intro a b hab
    unfold hxStart
    have : cnt.take a = (cnt.take b).take a := by rw [List.take_take, Nat.min_eq_left hab]
    rw [this]
    exact hxStart_le (cnt.take b) a
  rcases Nat.lt_trichotomy i i' with h | h | h
  · have := mono (i + 1) i' (by omega); omega
  · exact h
  · have := mono (i' + 1) i (by omega); omega

/-- **`HxAssoc`, when the header array holds all the headers** (`hl.n ≤` its capacity): let `idx` be the positions of the
    stored headers of type `ty`, in order.  Then `HNo` is the number of these headers, and there are counts `cnt` — one
    for each of them, each at least 1, with sum `N` — such that the values of the `i`-th header of type `ty` are exactly
    those with index in `[hxStart cnt i, hxStart cnt (i+1))` (cumulative counts): each of them that is stored has at
    least one byte and lies inside the `val` of THAT header; every value index below `N` is in exactly one of the blocks
    (`hx_block_exists`, `hx_block_unique`) -/
theorem HxAssoc.meaning_all_stored {ty : Nat} {hl : HdrLst} {vals : Array PFromBody} {n hNo : Nat}
    (H : HxAssoc ty hl vals n hNo) (hcap : hl.n ≤ hl.hdrs.size) :
    ((List.range hl.n).filter (fun j => hl.hdrs[j]!.type == ty)).length = hNo ∧
    ∃ cnt : List Nat, cnt.length = hNo ∧ (∀ c ∈ cnt, 0 < c) ∧ cnt.sum = n ∧
      ∀ i j, ((List.range hl.n).filter (fun j => hl.hdrs[j]!.type == ty))[i]? = some j →
        ∀ k, hxStart cnt i ≤ k → k < hxStart cnt (i + 1) → k < vals.size →
          j < hl.n ∧ hl.hdrs[j]!.type = ty ∧ 0 < vals[k]!.v.len ∧ hl.hdrs[j]!.val.offs ≤ vals[k]!.v.offs ∧
          vals[k]!.v.offs + vals[k]!.v.len ≤ hl.hdrs[j]!.val.offs + hl.hdrs[j]!.val.len := by
  obtain ⟨tyOf, cnt, h1, h2, h3, h4, h5, h6⟩ := H
  have e : (List.range hl.n).filter (fun j => hl.hdrs[j]!.type == ty) = hxIdx ty tyOf hl.n := by
    unfold hxIdx
    apply List.filter_congr
    intro x hx
    have := List.mem_range.1 hx
    rw [h1 x this (by omega)]
  rw [e]
  refine ⟨h2, cnt, h3, h4, h5, fun i j hij k k1 k2 k3 => ?_⟩
  obtain ⟨hj, hty⟩ := hxIdx_lt hij
  have := h6 i j hij k k1 k2 k3 (by omega)
  exact ⟨hj, by rw [h1 j hj (by omega)]; exact hty, this.1, this.2.1, this.2.2⟩

/-- **`HxAssoc`, any capacity of the header array**: the same with a ghost function `tyOf` for the types of ALL accepted
    header lines (it agrees with the stored ones); a value is compared with the `val` of its header only if that header
    is stored -/
theorem HxAssoc.meaning {ty : Nat} {hl : HdrLst} {vals : Array PFromBody} {n hNo : Nat} (H : HxAssoc ty hl vals n hNo) :
    ∃ (tyOf : Nat → Nat) (cnt : List Nat),
      (∀ j, j < hl.n → j < hl.hdrs.size → hl.hdrs[j]!.type = tyOf j) ∧
      ((List.range hl.n).filter (fun j => tyOf j == ty)).length = hNo ∧
      cnt.length = hNo ∧ (∀ c ∈ cnt, 0 < c) ∧ cnt.sum = n ∧
      ∀ i j, ((List.range hl.n).filter (fun j => tyOf j == ty))[i]? = some j →
        ∀ k, hxStart cnt i ≤ k → k < hxStart cnt (i + 1) → k < vals.size → j < hl.hdrs.size →
          hl.hdrs[j]!.type = ty ∧ 0 < vals[k]!.v.len ∧ hl.hdrs[j]!.val.offs ≤ vals[k]!.v.offs ∧
          vals[k]!.v.offs + vals[k]!.v.len ≤ hl.hdrs[j]!.val.offs + hl.hdrs[j]!.val.len := by
  obtain ⟨tyOf, cnt, h1, h2, h3, h4, h5, h6⟩ := H
  refine ⟨tyOf, cnt, h1, h2, h3, h4, h5, fun i j hij k k1 k2 k3 hjs => ?_⟩
  obtain ⟨hj, hty⟩ := hxIdx_lt hij
  have := h6 i j hij k k1 k2 k3 hjs
  exact ⟨by rw [h1 j hj hjs]; exact hty, this.1, this.2.1, this.2.2⟩

/-- **every stored value has its header line**: for each value index `k < N` there is exactly one line number `i < HNo`
    with `k` in the block of `i`; if the header array holds all headers, the `i`-th stored header of type `ty` exists
    and the value lies inside its `val` -/
theorem HxAssoc.value_line {ty : Nat} {hl : HdrLst} {vals : Array PFromBody} {n hNo : Nat}
    (H : HxAssoc ty hl vals n hNo) (hcap : hl.n ≤ hl.hdrs.size) (k : Nat) (hk : k < n) (hks : k < vals.size) :
    ∃ i j, i < hNo ∧ ((List.range hl.n).filter (fun j => hl.hdrs[j]!.type == ty))[i]? = some j ∧
      hl.hdrs[j]!.type = ty ∧ PlIn hl.hdrs[j]!.val vals[k]!.v := by
  obtain ⟨hlen, cnt, c1, c2, c3, c4⟩ := H.meaning_all_stored hcap
  obtain ⟨i, hi, k1, k2⟩ := hx_block_exists cnt k (by rw [c3]; exact hk)
  have hi' : i < ((List.range hl.n).filter (fun j => hl.hdrs[j]!.type == ty)).length := by rw [hlen, ← c1]; exact hi
  refine ⟨i, _, by rw [← c1]; exact hi, List.getElem?_eq_getElem hi', ?_⟩
  obtain ⟨_, a2, a3, a4, a5⟩ := c4 i _ (List.getElem?_eq_getElem hi') k k1 k2 hks
  exact ⟨a2, a3, a4, a5⟩


/-! #### `cseq_number_before_method`, message level -/

/-- **`cseq_number_before_method`**: in a message object that satisfies `HxMsg` (every successful parse from Init, see
    below), if the CSeq object is parsed then the number field has at least one byte, ends STRICTLY before the start of
    the method field, and the method field has at least one byte -/
theorem hx_cseq_number_before_method {m : PSIPMsg} (h : HxMsg m) (hp : m.pv.cseq.parsed = true) :
    0 < m.pv.cseq.cseq.len ∧ m.pv.cseq.cseq.offs + m.pv.cseq.cseq.len < m.pv.cseq.method.offs ∧
    0 < m.pv.cseq.method.len := by
  rcases h.2.2 with K | K
  · exfalso
    unfold PCSeqBody.parsed at hp
    rw [K] at hp
    cases hp
  · exact ⟨K.2.numNe, K.2.lt, K.2.methNe⟩

/-- … one successful ParseSIPMsg call on an object produced by Init; "a CSeq header was accepted" = its type flag is set
    (also when the header array was too small to store it) -/
theorem hx_cseq_number_before_method_init (b : Buf) (o : Nat) (m0 : PSIPMsg) (len kh kc : Nat) (hdrs cts : Option Unit)
    (flags : Nat) (hfit : b.size ≤ 65535) (ho : o ≤ b.size) {o' : Nat} {m' : PSIPMsg}
    (hr : parseSIPMsg b o (m0.init len (hdrs.map fun _ => Array.replicate kh {}) (cts.map fun _ => Array.replicate kc {}))
      flags = (o', .ok, m')) (hf : m'.hl.pflags.testBit HdrCSeq = true) :
    0 < m'.pv.cseq.cseq.len ∧ m'.pv.cseq.cseq.offs + m'.pv.cseq.cseq.len < m'.pv.cseq.method.offs ∧
    0 < m'.pv.cseq.method.len :=
  hx_cseq_number_before_method (hx_values_exact_init b o m0 len kh kc hdrs cts flags hfit ho hr)
    (shortcut_parsed_of_flag .cseq m' (svParsed_init b o m0 len kh kc hdrs cts flags hr) hf)

/-- … every chain of resumed calls over growing prefixes, from Init -/
theorem hx_cseq_number_before_method_schedule_init (flags : Nat) (o : Nat) (m0 : PSIPMsg) (len kh kc : Nat)
    (hdrs cts : Option Unit) (l : List Buf) (hg : Growing l) (hfit : ∀ x ∈ l, x.size ≤ 65535) (hne : l ≠ [])
    (ho : ∀ b ∈ l, o ≤ b.size) {o' : Nat} {m' : PSIPMsg}
    (hr : resumeRun (C01.msgP flags) o
      (m0.init len (hdrs.map fun _ => Array.replicate kh {}) (cts.map fun _ => Array.replicate kc {})) l = (o', .ok, m'))
    (hf : m'.hl.pflags.testBit HdrCSeq = true) :
    0 < m'.pv.cseq.cseq.len ∧ m'.pv.cseq.cseq.offs + m'.pv.cseq.cseq.len < m'.pv.cseq.method.offs ∧
    0 < m'.pv.cseq.method.len :=
  hx_cseq_number_before_method (hx_values_exact_schedule_init flags o m0 len kh kc hdrs cts l hg hfit hne ho hr)
    (shortcut_parsed_of_flag .cseq m' (svParsed_schedule_init flags o m0 len kh kc hdrs cts l hr) hf)

/-! ### non-vacuity and tests (closed computations by `decide +kernel`: examples, not the general claims) -/

/-- **the hypothesis of `hx_values_exact_init` is satisfiable** and the theorem applies to the test message of PaiLines
    (two Contact lines with 2 + 1 values, two P-Asserted-Identity lines with 2 + 1 values, other headers between them;
    header capacity 8, contact capacity 4) -/
theorem hxTest_msg : HxMsg (plTestM 8 4) := by
  have h : (parseSIPMsg plTestMsg 0 (({} : PSIPMsg).init 0 ((some ()).map fun _ => Array.replicate 8 {})
      ((some ()).map fun _ => Array.replicate 4 {})) 0).2.1 = .ok := by decide +kernel
  unfold plTestM
  rcases hp : parseSIPMsg plTestMsg 0 (({} : PSIPMsg).init 0 ((some ()).map fun _ => Array.replicate 8 {})
      ((some ()).map fun _ => Array.replicate 4 {})) 0 with ⟨o', e', m'⟩
  rw [hp] at h
  simp only at h
  subst h
  exact hx_values_exact_init plTestMsg 0 {} 0 8 4 (some ()) (some ()) 0 (by decide +kernel) (Nat.zero_le _) hp

/-- test: what the object looks like.  7 headers; the Contact headers are stored at positions 0 and 3, `HNo` = 2; three
    contact values: `V` = `[35, 54)` and `[57, 70)` inside header 0 (`val` = `[35, 70)`), `[124, 133)` inside header 3
    (`val` = `[124, 133)`): counts `[2, 1]`.  The P-Asserted-Identity headers are stored at positions 2 and 4, `HNo` = 2,
    three identities counted (two stored).  CSeq `1 REGISTER`: number `[185, 186)`, method `[187, 195)`. -/
example : (plTestM 8 4).hl.n = 7 ∧ (plTestM 8 4).pv.contacts.hNo = 2 ∧ (plTestM 8 4).pv.contacts.n = 3 ∧
    (List.range (plTestM 8 4).hl.n).filter (fun j => (plTestM 8 4).hl.hdrs[j]!.type == HdrContact) = [0, 3] ∧
    (plTestM 8 4).pv.contacts.vals.toList.map (fun f => (f.v.offs, f.v.len)) = [(35, 19), (57, 13), (124, 9), (0, 0)] ∧
    ((plTestM 8 4).hl.hdrs[0]!.val, (plTestM 8 4).hl.hdrs[3]!.val) = (⟨35, 35⟩, ⟨124, 9⟩) ∧
    (plTestM 8 4).pv.pais.hNo = 2 ∧ (plTestM 8 4).pv.pais.n = 3 ∧
    (List.range (plTestM 8 4).hl.n).filter (fun j => (plTestM 8 4).hl.hdrs[j]!.type == HdrPAI) = [2, 4] ∧
    (plTestM 8 4).hl.pflags.testBit HdrCSeq = true ∧
    ((plTestM 8 4).pv.cseq.cseq, (plTestM 8 4).pv.cseq.method) = (⟨185, 1⟩, ⟨187, 8⟩) := by decide +kernel

/-- test for `hx_block_exists`: with counts `[2, 1]` the blocks are `[0, 2)` and `[2, 3)` -/
example : hxStart [2, 1] 0 = 0 ∧ hxStart [2, 1] 1 = 2 ∧ hxStart [2, 1] 2 = 3 := by decide

/-- tests for `hx_parseCSeqVal_strict_new`: texts without white space between number and method, or without a method,
    are rejected; `1 R` is the smallest accepted text: number `[0, 1)`, method `[2, 3)` -/
example :
    (parseCSeqVal "1REGISTER\r\n\r\n".toUTF8.data 0 {}).2.1 = .badChar ∧
    (parseCSeqVal "1 \r\n\r\n".toUTF8.data 0 {}).2.1 = .bad ∧
    (parseCSeqVal "1 R\r\n\r\n".toUTF8.data 0 {}).2.1 = .ok ∧
    ((parseCSeqVal "1 R\r\n\r\n".toUTF8.data 0 {}).2.2.cseq, (parseCSeqVal "1 R\r\n\r\n".toUTF8.data 0 {}).2.2.method) =
      (⟨0, 1⟩, ⟨2, 1⟩) := by decide +kernel

/-! ### (3) trimming: the last byte of a reported name-addr value -/

theorem hx_skipCRLF_run {b : Buf} {i n crl : Nat} (h : skipCRLF b i = (n, crl, Err.ok)) :
    ∀ k, i ≤ k → k < n → ∃ c, b[k]? = some c ∧ isLWSch c = true := by
  unfold skipCRLF at h
  cases h1 : b[i+1]? with
  | none =>
    rw [h1] at h
    simp only at h
    split at h
    · split at h <;> cases h
    · cases h
  | some c1 =>
    rw [h1] at h
    simp only at h
    cases h0 : b[i]? with
    | none => rw [h0] at h; cases h
    | some c0 =>
      rw [h0] at h
      simp only at h
      by_cases e13 : (c0 == 13) = true
      · simp only [e13, ↓reduceIte] at h
        have hc0 : isLWSch c0 = true := by
          have : c0 = 13 := by simpa using e13
          subst this; decide
        by_cases e10 : (c1 == 10) = true
        · simp only [e10, ↓reduceIte, Prod.mk.injEq] at h
          obtain ⟨rfl, _, _⟩ := h
          intro k k1 k2
          have hc1 : isLWSch c1 = true := by
            have : c1 = 10 := by simpa using e10
            subst this; decide
          by_cases hk : k = i
          · subst hk; exact ⟨c0, h0, hc0⟩
          · have : k = i + 1 := by omega
            subst this; exact ⟨c1, h1, hc1⟩
        · simp only [e10, Bool.false_eq_true, ↓reduceIte, Prod.mk.injEq] at h
          obtain ⟨rfl, _, _⟩ := h
          intro k k1 k2
          have : k = i := by omega
          subst this; exact ⟨c0, h0, hc0⟩
      · simp only [e13, Bool.false_eq_true, ↓reduceIte] at h
        by_cases e10 : (c0 == 10) = true
        · simp only [e10, ↓reduceIte, Prod.mk.injEq] at h
          obtain ⟨rfl, _, _⟩ := h
          intro k k1 k2
          have : k = i := by omega
          subst this
          refine ⟨c0, h0, ?_⟩
          have : c0 = 10 := by simpa using e10
          subst this; decide
        · simp only [e10, Bool.false_eq_true, ↓reduceIte] at h
          cases h

/-- on `Ok` every byte the scan skipped is white space (SP, HT, CR, LF) -/
theorem hx_skipLWS_ok_run (b : Buf) (i flags : Nat) {n crl : Nat} (h : skipLWS b i flags = (n, crl, .ok)) :
    ∀ k, i ≤ k → k < n → ∃ c, b[k]? = some c ∧ isLWSch c = true := by
  fun_induction skipLWS b i flags with
  | case1 i hb => cases h
  | case2 i c hb hws ih =>
    intro k k1 k2
    by_cases hk : k = i
    · subst hk
      refine ⟨c, hb, ?_⟩
      simp only [isWS, isLWSch, Bool.or_eq_true] at hws ⊢
      rcases hws with hws | hws <;> simp [hws]
    · exact ih h k (by omega) k2
  | case3 i c hb hws hcr n' crl' hs hb2 hfl => cases h
  | case4 i c hb hws hcr n' crl' hs hb2 hfl => cases h
  | case5 i c hb hws hcr n' crl' hs c2 hb2 hws2 ih =>
    intro k k1 k2
    by_cases hk : k < n'
    · exact hx_skipCRLF_run hs k k1 hk
    · by_cases hk2 : k = n'
      · subst hk2
        refine ⟨c2, hb2, ?_⟩
        simp only [isWS, isLWSch, Bool.or_eq_true] at hws2 ⊢
        rcases hws2 with hws2 | hws2 <;> simp [hws2]
      · exact ih h k (by omega) k2
  | case6 i c hb hws hcr n' crl' hs c2 hb2 hws2 => cases h
  | case7 i c hb hws hcr n' crl' e' hne hs => cases h; exact (hne rfl).elim
  | case8 i c hb hws hcr =>
    cases h
    intro k k1 k2; omega

/-- the byte before position `i` exists and is not white space (SP, HT, CR, LF) -/
def HxNL (b : Buf) (i : Nat) : Prop := ∃ c, 0 < i ∧ b[i - 1]? = some c ∧ isLWSch c = false

/-- … and it is the byte `d` if several values are allowed for this header -/
def HxNLc (mv : Bool) (d : UInt8) (b : Buf) (i : Nat) : Prop :=
  ∃ c, 0 < i ∧ b[i - 1]? = some c ∧ isLWSch c = false ∧ (mv = true → c = d)

/-- position `i` is preceded by a non-empty run of white space that follows a byte `c0` at `j` (which is `;` or `=`
    if several values are allowed) -/
def HxRun (mv : Bool) (b : Buf) (i : Nat) : Prop :=
  ∃ j c0, j + 1 < i ∧ b[j]? = some c0 ∧ isLWSch c0 = false ∧ (mv = true → c0 = 59 ∨ c0 = 61) ∧
    ∀ k, j < k → k < i → ∃ c', b[k]? = some c' ∧ isLWSch c' = true

/-- … and the byte at `i` is not white space -/
def HxGap (mv : Bool) (b : Buf) (i : Nat) : Prop := HxRun mv b i ∧ ∃ c, b[i]? = some c ∧ isLWSch c = false

theorem HxNLc.nl {mv : Bool} {d : UInt8} {b : Buf} {i : Nat} (h : HxNLc mv d b i) : HxNL b i := by
  obtain ⟨c, h1, h2, h3, _⟩ := h; exact ⟨c, h1, h2, h3⟩

theorem hx_nl_succ {b : Buf} {i : Nat} {c : UInt8} (hb : b[i]? = some c) (hl : isLWSch c = false) : HxNL b (i + 1) :=
  ⟨c, by omega, by simpa using hb, hl⟩

theorem hx_nlc_succ (mv : Bool) (d : UInt8) {b : Buf} {i : Nat} {c : UInt8} (hb : b[i]? = some c) (hl : isLWSch c = false)
    (hd : mv = true → c = d) : HxNLc mv d b (i + 1) :=
  ⟨c, by omega, by simpa using hb, hl, hd⟩

/-- white space skipped from a position whose predecessor is not white space -/
theorem hx_gap_of_skip {mv : Bool} {d : UInt8} {b : Buf} {i n crl : Nat} {c : UInt8} (hb : b[i]? = some c)
    (hl : isLWSch c = true) (hsk : skipLWS b i 0 = (n, crl, .ok)) (hd : d = 59 ∨ d = 61)
    (h : HxNLc mv d b i ∨ HxGap mv b i) : HxGap mv b n := by
  have hgt := skipLWS_ok_gt b i 0 hb hl hsk
  obtain ⟨_, cn, hcn, hln⟩ := skipLWS_ok b i 0 hsk
  have hrun := hx_skipLWS_ok_run b i 0 hsk
  rcases h with ⟨c0, h1, h2, h3, h4⟩ | ⟨_, c1, hc1, hl1⟩
  · refine ⟨⟨i - 1, c0, by omega, h2, h3, fun hm => ?_, fun k k1 k2 => hrun k (by omega) k2⟩, cn, hcn, hln⟩
    rw [h4 hm]
    rcases hd with rfl | rfl
    · exact Or.inl rfl
    · exact Or.inr rfl
  · rw [hb] at hc1; cases hc1; rw [hl] at hl1; cases hl1

/-- trimming invariant of the name-addr automaton at loop position `i` (`mv` = several values allowed) -/
structure HxTrI (mv : Bool) (b : Buf) (i : Nat) (pf : PFromBody) : Prop where
  ext : (pf.state = .nameOrURI ∨ pf.state = .paramName ∨ pf.state = .possibleParamName ∨ pf.state = .paramVal ∨
    pf.state = .possibleVal) → HxNL b i
  newP : (pf.state = .newParam ∨ pf.state = .newPossibleParam) → HxNLc mv 59 b i ∨ HxGap mv b i
  newV : (pf.state = .newParamVal ∨ pf.state = .newPossibleVal) → HxNLc mv 61 b i ∨ HxGap mv b i
  fixed : (pf.state = .uriFound ∨ pf.state = .nameOrURIEnd ∨ pf.state = .star) → HxNL b (pf.v.offs + pf.v.len)
  pe : (pf.state = .paramNameEnd ∨ pf.state = .possibleParamNameEnd) → HxNL b pf.pend
  ve : (pf.state = .paramValEnd ∨ pf.state = .possibleValEnd) → HxNL b pf.vend

/-- the states whose clauses do not depend on the loop position -/
def HxStill (s : FBState) : Prop :=
  s ≠ .nameOrURI ∧ s ≠ .paramName ∧ s ≠ .possibleParamName ∧ s ≠ .paramVal ∧ s ≠ .possibleVal ∧
  s ≠ .newParam ∧ s ≠ .newPossibleParam ∧ s ≠ .newParamVal ∧ s ≠ .newPossibleVal

theorem HxTrI.move {mv : Bool} {b : Buf} {i j : Nat} {pf : PFromBody} (h : HxTrI mv b i pf) (hs : HxStill pf.state) :
    HxTrI mv b j pf := by
  obtain ⟨s1, s2, s3, s4, s5, s6, s7, s8, s9⟩ := hs
  refine ⟨fun hh => ?_, fun hh => ?_, fun hh => ?_, h.fixed, h.pe, h.ve⟩
  · rcases hh with hh | hh | hh | hh | hh <;> contradiction
  · rcases hh with hh | hh <;> contradiction
  · rcases hh with hh | hh <;> contradiction

/-- closes `HxTrI mv b (i+1) X` for an updated object `X` whose state is a constructor or `pf.state`, given
    `hT : HxTrI mv b i pf`, `hnl : HxNL b (i+1)` and possibly `h59 : HxNLc mv 59 b (i+1)`, `h61 : HxNLc mv 61 b (i+1)` -/
macro "hx_tr_leaf" hT:ident h59f:ident h61f:ident : tactic =>
  `(tactic| (have t4 := ($hT).fixed; have t5 := ($hT).pe; have t6 := ($hT).ve
             refine ⟨fun hh => ?_, fun hh => ?_, fun hh => ?_, fun hh => ?_, fun hh => ?_, fun hh => ?_⟩ <;>
             first
               | (exfalso; simp [setFromParamVal_state] at hh; done)
               | (exfalso; simp_all [setFromParamVal_state]; done)
               | assumption
               | (exact Or.inl ($h59f (by assumption)))
               | (exact Or.inl ($h61f (by assumption)))
               | (dsimp only [PFromBody.setURI, PFromBody.setName, PFromBody.setV, PFromBody.extV, PFromBody.extParams,
                    PFromBody.resetUPT]
                  first
                    | (rw [(flo_set_end _ _ (by omega) (by omega)).2]; assumption)
                    | (rw [(flo_extend_end _ _ (by omega) (by omega)).2]; assumption)
                    | (exact t4 (by simp_all))
                    | (exact t5 (by simp_all))
                    | (exact t6 (by simp_all)))))

theorem HxTrI.next_same {mv : Bool} {b : Buf} {i : Nat} {pf : PFromBody} (h : HxTrI mv b i pf) (hnl : HxNL b (i + 1))
    (hnew : ¬ (pf.state = .newParam ∨ pf.state = .newPossibleParam ∨ pf.state = .newParamVal ∨ pf.state = .newPossibleVal)) :
    HxTrI mv b (i + 1) pf :=
  ⟨fun _ => hnl, fun hh => absurd (by rcases hh with hh | hh <;> simp [hh]) hnew,
   fun hh => absurd (by rcases hh with hh | hh <;> simp [hh]) hnew, h.fixed, h.pe, h.ve⟩

theorem hx_tr_naLWS {mv : Bool} {h : Nat} {b : Buf} {i : Nat} {pf : PFromBody} (hT : HxTrI mv b i pf) (hs : HxStill pf.state)
    {i' : Nat} {st' : PFromBody} (hs' : naLWS h b i pf = .cont i' st') : HxTrI mv b i' st' := by
  unfold naLWS at hs'
  rw [lwsStd_cont_state b i pf _ _ hs']; exact hT.move hs

theorem hx_tr_A (h : Nat) {b : Buf} {i : Nat} {pf : PFromBody} (c : UInt8) (hfit : i < 65535) (hb : b[i]? = some c)
    (hg : pf.state = .init ∨ pf.state = .name ∨ pf.state = .nameOrURI ∨ pf.state = .nameOrURIEnd)
    (hI : PnI i pf) (hT : HxTrI (multipleValsOk h) b i pf) {i' : Nat} {st' : PFromBody}
    (hs : naStepA h b i c pf = .cont i' st') : HxTrI (multipleValsOk h) b i' st' := by
  unfold naStepA at hs
  by_cases hl : isLWSch c = true
  · rw [if_pos hl] at hs
    split at hs
    · rename_i hnu
      have hnu' : pf.state = .nameOrURI := by simpa using hnu
      refine hx_tr_naLWS ?_ (by simp [HxStill]) hs
      have hv := hI.lt (by rw [hnu']; decide)
      have hend := (flo_extend_end pf.v i (by omega) (by omega)).2
      have hnl := hT.ext (Or.inl hnu')
      refine ⟨fun hh => ?_, fun hh => ?_, fun hh => ?_, fun _ => ?_, fun hh => ?_, fun hh => ?_⟩
      · rcases hh with hh | hh | hh | hh | hh <;> cases hh
      · rcases hh with hh | hh <;> cases hh
      · rcases hh with hh | hh <;> cases hh
      · show HxNL b ((pf.v.extend i).offs + (pf.v.extend i).len)
        rw [hend]; exact hnl
      · rcases hh with hh | hh <;> cases hh
      · rcases hh with hh | hh <;> cases hh
    · rename_i hnu
      have hnu' : pf.state ≠ .nameOrURI := by simpa using hnu
      refine hx_tr_naLWS hT ?_ hs
      rcases hg with g | g | g | g
      · rw [g]; simp [HxStill]
      · rw [g]; simp [HxStill]
      · exact absurd g hnu'
      · rw [g]; simp [HxStill]
  · have hl' : isLWSch c = false := by simpa using hl
    have hnl : HxNL b (i + 1) := hx_nl_succ hb hl'
    have h59f : (c == 59) = true → HxNLc (multipleValsOk h) 59 b (i + 1) :=
      fun hc => hx_nlc_succ _ _ hb hl' (fun _ => by simpa using hc)
    have h61f : (c == 61) = true → HxNLc (multipleValsOk h) 61 b (i + 1) :=
      fun hc => hx_nlc_succ _ _ hb hl' (fun _ => by simpa using hc)
    have hnew : ¬ (pf.state = .newParam ∨ pf.state = .newPossibleParam ∨ pf.state = .newParamVal ∨ pf.state = .newPossibleVal) := by
      rcases hg with g | g | g | g <;> rw [g] <;> simp
    rw [if_neg hl] at hs
    repeat' split at hs
    all_goals first
      | exact absurd hs (naMoreValues_not_cont h b _ i)
      | (cases hs; done)
      | (cases hs; exact hT.next_same hnl hnew)
      | (cases hs; hx_tr_leaf hT h59f h61f)
theorem hx_tr_Q (h : Nat) {b : Buf} {i : Nat} {pf : PFromBody} (c : UInt8) (hb : b[i]? = some c)
    (hg : pf.state = .quoted ∨ pf.state = .quotedVal ∨ pf.state = .quotedPossibleVal)
    (hT : HxTrI (multipleValsOk h) b i pf) {i' : Nat} {st' : PFromBody}
    (hs : naStepQ h b i c pf = .cont i' st') : HxTrI (multipleValsOk h) b i' st' := by
  have hst : HxStill pf.state := by rcases hg with g | g | g <;> rw [g] <;> simp [HxStill]
  unfold naStepQ at hs
  by_cases h34 : (c == 34) = true
  · rw [if_pos h34] at hs
    have hl' : isLWSch c = false := by
      have : c = 34 := by simpa using h34
      subst this; decide
    have hnl : HxNL b (i + 1) := hx_nl_succ hb hl'
    have h59f : (c == 59) = true → HxNLc (multipleValsOk h) 59 b (i + 1) :=
      fun hc => hx_nlc_succ _ _ hb hl' (fun _ => by simpa using hc)
    have h61f : (c == 61) = true → HxNLc (multipleValsOk h) 61 b (i + 1) :=
      fun hc => hx_nlc_succ _ _ hb hl' (fun _ => by simpa using hc)
    repeat' split at hs
    all_goals (cases hs; hx_tr_leaf hT h59f h61f)
  · rw [if_neg h34] at hs
    repeat' split at hs
    all_goals first
      | exact hx_tr_naLWS hT hst hs
      | (cases hs; done)
      | (cases hs; exact hT.move hst)

theorem hx_tr_U {mv : Bool} {b : Buf} {i : Nat} {pf : PFromBody} (c : UInt8) (hfit : i < 65535) (hb : b[i]? = some c)
    (hg : pf.state = .uri) (hI : PnI i pf) (hT : HxTrI mv b i pf) {i' : Nat} {st' : PFromBody}
    (hs : naStepU i c pf = .cont i' st') : HxTrI mv b i' st' := by
  have hst : HxStill pf.state := by rw [hg]; simp [HxStill]
  have hv := hI.lt (by rw [hg]; decide)
  unfold naStepU at hs
  by_cases h62 : (c == 62) = true
  · rw [if_pos h62] at hs
    have hl' : isLWSch c = false := by
      have : c = 62 := by simpa using h62
      subst this; decide
    have hnl : HxNL b (i + 1) := hx_nl_succ hb hl'
    have h59f : (c == 59) = true → HxNLc mv 59 b (i + 1) := fun hc => hx_nlc_succ _ _ hb hl' (fun _ => by simpa using hc)
    have h61f : (c == 61) = true → HxNLc mv 61 b (i + 1) := fun hc => hx_nlc_succ _ _ hb hl' (fun _ => by simpa using hc)
    cases hs
    hx_tr_leaf hT h59f h61f
  · rw [if_neg h62] at hs
    split at hs
    · cases hs
    · cases hs; exact hT.move hst

theorem hx_tr_UF (h : Nat) {b : Buf} {i : Nat} {pf : PFromBody} (c : UInt8) (hb : b[i]? = some c)
    (hg : pf.state = .uriFound) (hT : HxTrI (multipleValsOk h) b i pf) {i' : Nat} {st' : PFromBody}
    (hs : naStepUF h b i c pf = .cont i' st') : HxTrI (multipleValsOk h) b i' st' := by
  have hst : HxStill pf.state := by rw [hg]; simp [HxStill]
  unfold naStepUF at hs
  by_cases hl : isLWSch c = true
  · rw [if_pos hl] at hs
    exact hx_tr_naLWS hT hst hs
  · have hl' : isLWSch c = false := by simpa using hl
    have hnl : HxNL b (i + 1) := hx_nl_succ hb hl'
    have h59f : (c == 59) = true → HxNLc (multipleValsOk h) 59 b (i + 1) :=
      fun hc => hx_nlc_succ _ _ hb hl' (fun _ => by simpa using hc)
    have h61f : (c == 61) = true → HxNLc (multipleValsOk h) 61 b (i + 1) :=
      fun hc => hx_nlc_succ _ _ hb hl' (fun _ => by simpa using hc)
    rw [if_neg hl] at hs
    repeat' split at hs
    all_goals first
      | exact absurd hs (naMoreValues_not_cont h b _ i)
      | (cases hs; exact hT.move hst)
      | (cases hs; hx_tr_leaf hT h59f h61f)

theorem hx_tr_Star (h : Nat) {b : Buf} {i : Nat} {pf : PFromBody} (c : UInt8)
    (hg : pf.state = .star) (hT : HxTrI (multipleValsOk h) b i pf) {i' : Nat} {st' : PFromBody}
    (hs : naStepStar h b i c pf = .cont i' st') : HxTrI (multipleValsOk h) b i' st' := by
  have hst : HxStill pf.state := by rw [hg]; simp [HxStill]
  unfold naStepStar at hs
  split at hs
  · exact hx_tr_naLWS hT hst hs
  · cases hs

theorem hx_tr_nameWS {mv : Bool} {b : Buf} {i n crl : Nat} {pf : PFromBody} {c : UInt8} (hb : b[i]? = some c)
    (hl : isLWSch c = true) (hsk : skipLWS b i 0 = (n, crl, .ok))
    (hg : pf.state = .newParam ∨ pf.state = .newPossibleParam ∨ pf.state = .paramName ∨ pf.state = .possibleParamName)
    (hT : HxTrI mv b i pf) : HxTrI mv b n (naNameWS pf i) := by
  unfold naNameWS
  by_cases h1 : (pf.state == .paramName) = true
  · rw [if_pos h1]
    have hnl := hT.ext (Or.inr (Or.inl (by simpa using h1)))
    refine ⟨fun hh => ?_, fun hh => ?_, fun hh => ?_, fun hh => ?_, fun _ => hnl, fun hh => ?_⟩ <;>
      (exfalso; simp at hh)
  · rw [if_neg h1]
    by_cases h2 : (pf.state == .possibleParamName) = true
    · rw [if_pos h2]
      have hnl := hT.ext (Or.inr (Or.inr (Or.inl (by simpa using h2))))
      refine ⟨fun hh => ?_, fun hh => ?_, fun hh => ?_, fun hh => ?_, fun _ => hnl, fun hh => ?_⟩ <;>
        (exfalso; simp at hh)
    · rw [if_neg h2]
      have h1' : pf.state ≠ .paramName := by simpa using h1
      have h2' : pf.state ≠ .possibleParamName := by simpa using h2
      have hg2 : pf.state = .newParam ∨ pf.state = .newPossibleParam := by
        rcases hg with g | g | g | g
        · exact Or.inl g
        · exact Or.inr g
        · exact absurd g h1'
        · exact absurd g h2'
      have hgap := hx_gap_of_skip hb hl hsk (Or.inl rfl) (hT.newP hg2)
      refine ⟨fun hh => ?_, fun _ => Or.inr hgap, fun hh => ?_, fun hh => ?_, fun hh => ?_, fun hh => ?_⟩ <;>
        (exfalso; rcases hg2 with g | g <;> rw [g] at hh <;> simp at hh)

theorem hx_paramStart_state {pf : PFromBody} {i : Nat}
    (hg : pf.state = .newParam ∨ pf.state = .newPossibleParam ∨ pf.state = .paramName ∨ pf.state = .possibleParamName) :
    (naParamsOffs (naParamStart pf i) i).state = .paramName ∨ (naParamsOffs (naParamStart pf i) i).state = .possibleParamName := by
  have h1 : (naParamsOffs (naParamStart pf i) i).state = (naParamStart pf i).state := by
    unfold naParamsOffs; split <;> rfl
  rw [h1]
  unfold naParamStart
  rcases hg with g | g | g | g <;> simp [g]

theorem HxTrI.of_ext {mv : Bool} {b : Buf} {j : Nat} {pf : PFromBody} (hnl : HxNL b j)
    (hs : pf.state = .nameOrURI ∨ pf.state = .paramName ∨ pf.state = .possibleParamName ∨ pf.state = .paramVal ∨
      pf.state = .possibleVal) : HxTrI mv b j pf := by
  refine ⟨fun _ => hnl, fun hh => ?_, fun hh => ?_, fun hh => ?_, fun hh => ?_, fun hh => ?_⟩ <;>
    (exfalso; rcases hs with g | g | g | g | g <;> rw [g] at hh <;> simp at hh)

theorem HxTrI.of_newP {mv : Bool} {b : Buf} {j : Nat} {pf : PFromBody} (h59 : HxNLc mv 59 b j)
    (hs : pf.state = .newParam ∨ pf.state = .newPossibleParam) : HxTrI mv b j pf := by
  refine ⟨fun hh => ?_, fun _ => Or.inl h59, fun hh => ?_, fun hh => ?_, fun hh => ?_, fun hh => ?_⟩ <;>
    (exfalso; rcases hs with g | g <;> rw [g] at hh <;> simp at hh)

theorem HxTrI.of_newV {mv : Bool} {b : Buf} {j : Nat} {pf : PFromBody} (h61 : HxNLc mv 61 b j)
    (hs : pf.state = .newParamVal ∨ pf.state = .newPossibleVal) : HxTrI mv b j pf := by
  refine ⟨fun hh => ?_, fun hh => ?_, fun _ => Or.inl h61, fun hh => ?_, fun hh => ?_, fun hh => ?_⟩ <;>
    (exfalso; rcases hs with g | g <;> rw [g] at hh <;> simp at hh)

theorem hx_tr_P (h : Nat) {b : Buf} {i : Nat} {pf : PFromBody} (c : UInt8) (hb : b[i]? = some c)
    (hg : pf.state = .newParam ∨ pf.state = .newPossibleParam ∨ pf.state = .paramName ∨ pf.state = .possibleParamName)
    (hT : HxTrI (multipleValsOk h) b i pf) {i' : Nat} {st' : PFromBody}
    (hs : naStepP h b i c pf = .cont i' st') : HxTrI (multipleValsOk h) b i' st' := by
  unfold naStepP at hs
  by_cases hl : isLWSch c = true
  · rw [if_pos hl] at hs
    rcases hsk : skipLWS b i 0 with ⟨n, crl, e⟩
    rw [hsk] at hs
    cases e <;> simp only at hs <;> cases hs
    exact hx_tr_nameWS hb hl hsk hg hT
  · have hl' : isLWSch c = false := by simpa using hl
    have hnl : HxNL b (i + 1) := hx_nl_succ hb hl'
    have h59f : (c == 59) = true → HxNLc (multipleValsOk h) 59 b (i + 1) :=
      fun hc => hx_nlc_succ _ _ hb hl' (fun _ => by simpa using hc)
    have h61f : (c == 61) = true → HxNLc (multipleValsOk h) 61 b (i + 1) :=
      fun hc => hx_nlc_succ _ _ hb hl' (fun _ => by simpa using hc)
    have hmvF : ¬ multipleValsOk h = true → ∀ d, HxNLc (multipleValsOk h) d b (i + 1) :=
      fun hm d => hx_nlc_succ _ _ hb hl' (fun hh => absurd hh hm)
    have hsame : ∀ d59 : HxNLc (multipleValsOk h) 59 b (i + 1), HxTrI (multipleValsOk h) b (i + 1) pf := by
      intro d59
      rcases hg with g | g | g | g
      · exact HxTrI.of_newP d59 (Or.inl g)
      · exact HxTrI.of_newP d59 (Or.inr g)
      · exact HxTrI.of_ext hnl (Or.inr (Or.inl g))
      · exact HxTrI.of_ext hnl (Or.inr (Or.inr (Or.inl g)))
    have hps : HxTrI (multipleValsOk h) b (i + 1) (naParamsOffs (naParamStart pf i) i) := by
      refine HxTrI.of_ext hnl ?_
      rcases hx_paramStart_state (i := i) hg with g | g
      · exact Or.inr (Or.inl g)
      · exact Or.inr (Or.inr (Or.inl g))
    rw [if_neg hl] at hs
    repeat' split at hs
    all_goals first
      | exact absurd hs (naMoreValues_not_cont h b _ i)
      | (cases hs; done)
      | (cases hs; exact hsame (hmvF (by assumption) 59))
      | (cases hs; exact hsame (h59f (by assumption)))
      | (cases hs; exact hps)
      | (cases hs; hx_tr_leaf hT h59f h61f)

theorem hx_tr_PE (h : Nat) {b : Buf} {i : Nat} {pf : PFromBody} (c : UInt8) (hb : b[i]? = some c)
    (hT : HxTrI (multipleValsOk h) b i pf) {i' : Nat} {st' : PFromBody}
    (hs : naStepPE h b i c pf = .cont i' st') : HxTrI (multipleValsOk h) b i' st' := by
  unfold naStepPE at hs
  by_cases hl : isLWSch c = true
  · exfalso
    have h1 : (c == 61) = false := by
      simp only [isLWSch, Bool.or_eq_true, beq_iff_eq] at hl
      rcases hl with ((hl | hl) | hl) | hl <;> (subst hl; decide)
    have h2 : (c == 59) = false := by
      simp only [isLWSch, Bool.or_eq_true, beq_iff_eq] at hl
      rcases hl with ((hl | hl) | hl) | hl <;> (subst hl; decide)
    have h3 : (c == 44) = false := by
      simp only [isLWSch, Bool.or_eq_true, beq_iff_eq] at hl
      rcases hl with ((hl | hl) | hl) | hl <;> (subst hl; decide)
    simp only [h1, h2, h3, Bool.false_eq_true, ↓reduceIte] at hs
    cases hs
  · have hl' : isLWSch c = false := by simpa using hl
    have hnl : HxNL b (i + 1) := hx_nl_succ hb hl'
    have h59f : (c == 59) = true → HxNLc (multipleValsOk h) 59 b (i + 1) :=
      fun hc => hx_nlc_succ _ _ hb hl' (fun _ => by simpa using hc)
    have h61f : (c == 61) = true → HxNLc (multipleValsOk h) 61 b (i + 1) :=
      fun hc => hx_nlc_succ _ _ hb hl' (fun _ => by simpa using hc)
    repeat' split at hs
    all_goals first
      | exact absurd hs (naCommaAfterWS_not_cont h b _ i _)
      | (cases hs; done)
      | (cases hs; hx_tr_leaf hT h59f h61f)

theorem hx_tr_valWS {mv : Bool} {b : Buf} {i n crl : Nat} {pf : PFromBody} {c : UInt8} (hb : b[i]? = some c)
    (hl : isLWSch c = true) (hsk : skipLWS b i 0 = (n, crl, .ok))
    (hg : pf.state = .newParamVal ∨ pf.state = .newPossibleVal ∨ pf.state = .paramVal ∨ pf.state = .possibleVal)
    (hT : HxTrI mv b i pf) : HxTrI mv b n (naValWS pf i n true) := by
  unfold naValWS
  rcases hg with g | g | g | g <;> simp only [g, ↓reduceIte]
  · have hgap := hx_gap_of_skip hb hl hsk (Or.inr rfl) (hT.newV (Or.inl g))
    refine ⟨fun hh => ?_, fun hh => ?_, fun _ => Or.inr hgap, fun hh => ?_, fun hh => ?_, fun hh => ?_⟩ <;>
      (exfalso; simp at hh)
  · have hgap := hx_gap_of_skip hb hl hsk (Or.inr rfl) (hT.newV (Or.inr g))
    refine ⟨fun hh => ?_, fun hh => ?_, fun _ => Or.inr hgap, fun hh => ?_, fun hh => ?_, fun hh => ?_⟩ <;>
      (exfalso; simp at hh)
  · have hnl := hT.ext (Or.inr (Or.inr (Or.inr (Or.inl g))))
    refine ⟨fun hh => ?_, fun hh => ?_, fun hh => ?_, fun hh => ?_, fun hh => ?_, fun _ => hnl⟩ <;>
      (exfalso; simp at hh)
  · have hnl := hT.ext (Or.inr (Or.inr (Or.inr (Or.inr g))))
    refine ⟨fun hh => ?_, fun hh => ?_, fun hh => ?_, fun hh => ?_, fun hh => ?_, fun _ => hnl⟩ <;>
      (exfalso; simp at hh)

theorem hx_tr_V (h : Nat) {b : Buf} {i : Nat} {pf : PFromBody} (c : UInt8) (hb : b[i]? = some c)
    (hg : pf.state = .newParamVal ∨ pf.state = .newPossibleVal ∨ pf.state = .paramVal ∨ pf.state = .possibleVal)
    (hT : HxTrI (multipleValsOk h) b i pf) {i' : Nat} {st' : PFromBody}
    (hs : naStepV h b i c pf = .cont i' st') : HxTrI (multipleValsOk h) b i' st' := by
  unfold naStepV at hs
  by_cases hl : isLWSch c = true
  · rw [if_pos hl] at hs
    rcases hsk : skipLWS b i 0 with ⟨n, crl, e⟩
    rw [hsk] at hs
    cases e <;> simp only at hs <;> cases hs
    exact hx_tr_valWS hb hl hsk hg hT
  · have hl' : isLWSch c = false := by simpa using hl
    have hnl : HxNL b (i + 1) := hx_nl_succ hb hl'
    have h59f : (c == 59) = true → HxNLc (multipleValsOk h) 59 b (i + 1) :=
      fun hc => hx_nlc_succ _ _ hb hl' (fun _ => by simpa using hc)
    have h61f : (c == 61) = true → HxNLc (multipleValsOk h) 61 b (i + 1) :=
      fun hc => hx_nlc_succ _ _ hb hl' (fun _ => by simpa using hc)
    have hmvF : ¬ multipleValsOk h = true → ∀ d, HxNLc (multipleValsOk h) d b (i + 1) :=
      fun hm d => hx_nlc_succ _ _ hb hl' (fun hh => absurd hh hm)
    have hsame : ∀ d61 : HxNLc (multipleValsOk h) 61 b (i + 1), HxTrI (multipleValsOk h) b (i + 1) pf := by
      intro d61
      rcases hg with g | g | g | g
      · exact HxTrI.of_newV d61 (Or.inl g)
      · exact HxTrI.of_newV d61 (Or.inr g)
      · exact HxTrI.of_ext hnl (Or.inr (Or.inr (Or.inr (Or.inl g))))
      · exact HxTrI.of_ext hnl (Or.inr (Or.inr (Or.inr (Or.inr g))))
    have hsame2 : ¬ (pf.state == .newParamVal) = true → ¬ (pf.state == .newPossibleVal) = true →
        HxTrI (multipleValsOk h) b (i + 1) pf := by
      intro n1 n2
      have n1' : pf.state ≠ .newParamVal := by simpa using n1
      have n2' : pf.state ≠ .newPossibleVal := by simpa using n2
      rcases hg with g | g | g | g
      · exact absurd g n1'
      · exact absurd g n2'
      · exact HxTrI.of_ext hnl (Or.inr (Or.inr (Or.inr (Or.inl g))))
      · exact HxTrI.of_ext hnl (Or.inr (Or.inr (Or.inr (Or.inr g))))
    rw [if_neg hl] at hs
    repeat' split at hs
    all_goals first
      | exact absurd hs (naMoreValues_not_cont h b _ i)
      | (cases hs; done)
      | (cases hs; exact hsame (hmvF (by assumption) 61))
      | (cases hs; exact hsame2 (by assumption) (by assumption))
      | (cases hs; hx_tr_leaf hT h59f h61f)

theorem hx_tr_VE (h : Nat) {b : Buf} {i : Nat} {pf : PFromBody} (c : UInt8) (hb : b[i]? = some c)
    (hT : HxTrI (multipleValsOk h) b i pf) {i' : Nat} {st' : PFromBody}
    (hs : naStepVE h b i c pf = .cont i' st') : HxTrI (multipleValsOk h) b i' st' := by
  unfold naStepVE at hs
  by_cases h59 : (c == 59) = true
  · have hl' : isLWSch c = false := by
      have : c = 59 := by simpa using h59
      subst this; decide
    have hnl : HxNL b (i + 1) := hx_nl_succ hb hl'
    have h59f : (c == 59) = true → HxNLc (multipleValsOk h) 59 b (i + 1) :=
      fun hc => hx_nlc_succ _ _ hb hl' (fun _ => by simpa using hc)
    have h61f : (c == 61) = true → HxNLc (multipleValsOk h) 61 b (i + 1) :=
      fun hc => hx_nlc_succ _ _ hb hl' (fun _ => by simpa using hc)
    rw [if_pos h59] at hs
    split at hs
    all_goals (cases hs; hx_tr_leaf hT h59f h61f)
  · rw [if_neg h59] at hs
    split at hs
    · exact absurd hs (naCommaAfterWS_not_cont h b _ i _)
    · cases hs

/-- **the trimming invariant is kept by every continuing step** -/
theorem hx_tr_cont (h : Nat) {b : Buf} {i : Nat} {pf : PFromBody} (c : UInt8) (hfit : i < 65535) (hb : b[i]? = some c)
    (hI : PnI i pf) (hT : HxTrI (multipleValsOk h) b i pf) {i' : Nat} {st' : PFromBody}
    (hs : naStep h b i c pf = .cont i' st') : HxTrI (multipleValsOk h) b i' st' := by
  unfold naStep at hs
  split at hs
  all_goals first
    | exact hx_tr_A h c hfit hb (by simp [*]) hI hT hs
    | exact hx_tr_Q h c hb (by simp [*]) hT hs
    | exact hx_tr_U c hfit hb (by assumption) hI hT hs
    | exact hx_tr_UF h c hb (by assumption) hT hs
    | exact hx_tr_P h c hb (by simp [*]) hT hs
    | exact hx_tr_PE h c hb hT hs
    | exact hx_tr_V h c hb (by simp [*]) hT hs
    | exact hx_tr_VE h c hb hT hs
    | exact hx_tr_Star h c (by assumption) hT hs
    | (cases hs
       refine hT.move ?_
       rename_i x1 x2 x3 x4 x5 x6 x7 x8 x9 x10 x11 x12 x13 x14 x15 x16 x17 x18 x19 x20 x21
       refine ⟨?_, ?_, ?_, ?_, ?_, ?_, ?_, ?_, ?_⟩ <;> (intro hq; simp_all))

/-! #### exits -/

/-- the final condition on the value span `v` reported with verdict `e`: the byte before its end is not white space —
    or (the exception) the verdict is "more values", the byte at its end is the comma, and the span ends with a
    non-empty run of white space that directly follows a `;` or a `=` -/
def HxTrC (b : Buf) (e : Err) (v : PField) : Prop :=
  HxNL b (v.offs + v.len) ∨ (e = .moreValues ∧ b[v.offs + v.len]? = some 44 ∧ HxRun true b (v.offs + v.len))

def HxTrDone (b : Buf) (e : Err) (st' : PFromBody) : Prop := (e = .ok ∨ e = .moreValues) → HxTrC b e st'.v

theorem hx_trd_err {b : Buf} {e : Err} {st' : PFromBody} (h1 : e ≠ .ok) (h2 : e ≠ .moreValues) : HxTrDone b e st' := by
  intro hh; rcases hh with hh | hh
  · exact absurd hh h1
  · exact absurd hh h2

/-- the states in which `endOfHdr` extends the value to the end position -/
def HxExt13 (s : FBState) : Prop :=
  s = .nameOrURI ∨ s = .paramName ∨ s = .possibleParamName ∨ s = .paramVal ∨ s = .possibleVal ∨
  s = .newParam ∨ s = .newPossibleParam ∨ s = .newParamVal ∨ s = .newPossibleVal ∨
  s = .paramNameEnd ∨ s = .possibleParamNameEnd ∨ s = .paramValEnd ∨ s = .possibleValEnd

def HxFixed (s : FBState) : Prop := s = .uriFound ∨ s = .nameOrURIEnd ∨ s = .star

theorem hx_eoh_verdict (h : Nat) (b : Buf) (pf : PFromBody) (e n crl : Nat) (r : Err)
    (hc : (naEOH h b pf e n crl r).2.1 = .ok ∨ (naEOH h b pf e n crl r).2.1 = .moreValues) :
    (naEOH h b pf e n crl r).2.1 = r ∧ (HxFixed pf.state ∨ HxExt13 pf.state) := by
  unfold naEOH naFinish at hc ⊢
  cases hst : pf.state <;> simp only [hst] at hc ⊢
  all_goals first
    | (exfalso; (rcases hc with hc | hc <;> cases hc); done)
    | (refine ⟨trivial, ?_⟩; simp [HxFixed, HxExt13])

theorem hx_eoh_fixed (h : Nat) (b : Buf) (pf : PFromBody) (e n crl : Nat) (r : Err) (hf : HxFixed pf.state) :
    (naEOH h b pf e n crl r).2.2.v = pf.v := by
  unfold naEOH naFinish
  rcases hf with g | g | g <;> simp only [g]

theorem hx_tr_eoh (h : Nat) {b : Buf} (pf : PFromBody) (e n crl : Nat) (r : Err)
    (hpre : pf.state ≠ .init → pf.v.offs < e) (he : e < 65536)
    (hF : HxFixed pf.state → HxNL b (pf.v.offs + pf.v.len))
    (hE : HxExt13 pf.state → HxNL b e ∨ (r = .moreValues ∧ b[e]? = some 44 ∧ HxRun true b e)) :
    HxTrDone b (naEOH h b pf e n crl r).2.1 (naEOH h b pf e n crl r).2.2 := by
  intro hc
  obtain ⟨hv, hstate⟩ := hx_eoh_verdict h b pf e n crl r hc
  by_cases hf : HxFixed pf.state
  · rw [hx_eoh_fixed h b pf e n crl r hf]
    exact Or.inl (hF hf)
  · have h13 : HxExt13 pf.state := by
      rcases hstate with g | g
      · exact absurd g hf
      · exact g
    obtain ⟨hni, hq⟩ := pn_eoh h b pf e n crl r hc
    have hvx : (naEOH h b pf e n crl r).2.2.v = pf.v.extend e := by
      rcases hq with ⟨g, _⟩ | g
      · exact absurd g hf
      · exact g
    rw [hvx, hv]
    unfold HxTrC
    rw [(flo_extend_end pf.v e (by have := hpre hni; omega) he).2]
    exact hE h13

theorem hx_run_cast {mv : Bool} {b : Buf} {i : Nat} (hm : mv = true) (h : HxRun mv b i) : HxRun true b i := by
  subst hm; exact h

/-- what the invariant gives at an exit position `i` whose byte is white space or the comma -/
theorem hx_tr_at {h : Nat} {b : Buf} {i : Nat} {pf : PFromBody} {c : UInt8} (hb : b[i]? = some c)
    (hT : HxTrI (multipleValsOk h) b i pf)
    (hnpv : pf.state ≠ .paramNameEnd ∧ pf.state ≠ .possibleParamNameEnd ∧ pf.state ≠ .paramValEnd ∧
      pf.state ≠ .possibleValEnd)
    (r : Err) (hc : isLWSch c = true ∨ (r = .moreValues ∧ c = 44 ∧ multipleValsOk h = true)) :
    HxExt13 pf.state → HxNL b i ∨ (r = .moreValues ∧ b[i]? = some 44 ∧ HxRun true b i) := by
  intro h13
  have gapCase : HxGap (multipleValsOk h) b i → HxNL b i ∨ (r = .moreValues ∧ b[i]? = some 44 ∧ HxRun true b i) := by
    intro ⟨hrun, c1, hc1, hl1⟩
    rcases hc with hc | ⟨hr, hc44, hmv⟩
    · rw [hb] at hc1; cases hc1; rw [hc] at hl1; cases hl1
    · subst hc44
      exact Or.inr ⟨hr, hb, hx_run_cast hmv hrun⟩
  rcases h13 with g | g | g | g | g | g | g | g | g | g | g | g | g
  · exact Or.inl (hT.ext (Or.inl g))
  · exact Or.inl (hT.ext (Or.inr (Or.inl g)))
  · exact Or.inl (hT.ext (Or.inr (Or.inr (Or.inl g))))
  · exact Or.inl (hT.ext (Or.inr (Or.inr (Or.inr (Or.inl g)))))
  · exact Or.inl (hT.ext (Or.inr (Or.inr (Or.inr (Or.inr g)))))
  · rcases hT.newP (Or.inl g) with q | q
    · exact Or.inl q.nl
    · exact gapCase q
  · rcases hT.newP (Or.inr g) with q | q
    · exact Or.inl q.nl
    · exact gapCase q
  · rcases hT.newV (Or.inl g) with q | q
    · exact Or.inl q.nl
    · exact gapCase q
  · rcases hT.newV (Or.inr g) with q | q
    · exact Or.inl q.nl
    · exact gapCase q
  · exact absurd g hnpv.1
  · exact absurd g hnpv.2.1
  · exact absurd g hnpv.2.2.1
  · exact absurd g hnpv.2.2.2

theorem hx_d_lws (h : Nat) {b : Buf} {i : Nat} {pf : PFromBody} {c : UInt8} (hb : b[i]? = some c) (hl : isLWSch c = true)
    (hfit : i < 65535) (hI : PnI i pf) (hT : HxTrI (multipleValsOk h) b i pf)
    (hnpv : pf.state ≠ .paramNameEnd ∧ pf.state ≠ .possibleParamNameEnd ∧ pf.state ≠ .paramValEnd ∧
      pf.state ≠ .possibleValEnd)
    {o' : Nat} {e : Err} {st' : PFromBody} (hs : naLWS h b i pf = .done o' e st') : HxTrDone b e st' := by
  unfold naLWS lwsStd at hs
  rcases hsk : skipLWS b i 0 with ⟨n, crl, e1⟩
  rw [hsk] at hs
  rcases skipLWS_verdicts b i 0 hsk with rfl | rfl | rfl | rfl <;> simp only at hs
  · cases hs
  · simp only [Step.done.injEq] at hs
    obtain ⟨rfl, rfl, rfl⟩ := hs
    exact hx_tr_eoh h pf i n crl .ok hI.lt (by omega) (fun hf => hT.fixed hf) (hx_tr_at hb hT hnpv .ok (Or.inl hl))
  · cases hs; exact hx_trd_err (by decide) (by decide)
  · cases hs; exact hx_trd_err (by decide) (by decide)

theorem hx_d_mv (h : Nat) {b : Buf} {i : Nat} {pf : PFromBody} {c : UInt8} (hb : b[i]? = some c) (h44 : (c == 44) = true)
    (hmv : multipleValsOk h = true) (hfit : i < 65535) (hI : PnI i pf) (hT : HxTrI (multipleValsOk h) b i pf)
    (hnpv : pf.state ≠ .paramNameEnd ∧ pf.state ≠ .possibleParamNameEnd ∧ pf.state ≠ .paramValEnd ∧
      pf.state ≠ .possibleValEnd)
    {o' : Nat} {e : Err} {st' : PFromBody} (hs : naMoreValues h b pf i = .done o' e st') : HxTrDone b e st' := by
  unfold naMoreValues at hs
  simp only [Step.done.injEq] at hs
  obtain ⟨rfl, rfl, rfl⟩ := hs
  exact hx_tr_eoh h pf i i 1 .moreValues hI.lt (by omega) (fun hf => hT.fixed hf)
    (hx_tr_at hb hT hnpv .moreValues (Or.inr ⟨rfl, by simpa using h44, hmv⟩))

theorem hx_d_cws (h : Nat) {b : Buf} {i : Nat} {pf : PFromBody} (x : Nat) (hx : pf.v.offs < x ∧ x < 65536)
    (hnl : HxNL b x) (hnf : ¬ HxFixed pf.state) {o' : Nat} {e : Err} {st' : PFromBody}
    (hs : naCommaAfterWS h b pf i x = .done o' e st') : HxTrDone b e st' := by
  unfold naCommaAfterWS at hs
  split at hs
  · simp only [Step.done.injEq] at hs
    obtain ⟨rfl, rfl, rfl⟩ := hs
    exact hx_tr_eoh h pf x i 1 .moreValues (fun _ => hx.1) hx.2 (fun hf => absurd hf hnf) (fun _ => Or.inl hnl)
  · cases hs; exact hx_trd_err (by decide) (by decide)

theorem hx_tr_nuEnd {mv : Bool} {b : Buf} {i : Nat} {pf : PFromBody} (hfit : i < 65535) (hnu : pf.state = .nameOrURI)
    (hI : PnI i pf) (hT : HxTrI mv b i pf) :
    HxTrI mv b i { (pf.setURI pf.s i).extV i with state := .nameOrURIEnd } := by
  have hv := hI.lt (by rw [hnu]; decide)
  have hend := (flo_extend_end pf.v i (by omega) (by omega)).2
  have hnl := hT.ext (Or.inl hnu)
  refine ⟨fun hh => ?_, fun hh => ?_, fun hh => ?_, fun _ => ?_, fun hh => ?_, fun hh => ?_⟩
  · rcases hh with hh | hh | hh | hh | hh <;> cases hh
  · rcases hh with hh | hh <;> cases hh
  · rcases hh with hh | hh <;> cases hh
  · show HxNL b ((pf.v.extend i).offs + (pf.v.extend i).len)
    rw [hend]; exact hnl
  · rcases hh with hh | hh <;> cases hh
  · rcases hh with hh | hh <;> cases hh

theorem hx_d_A (h : Nat) {b : Buf} {i : Nat} {pf : PFromBody} (c : UInt8) (hfit : i < 65535) (hb : b[i]? = some c)
    (hg : pf.state = .init ∨ pf.state = .name ∨ pf.state = .nameOrURI ∨ pf.state = .nameOrURIEnd)
    (hI : PnI i pf) (hT : HxTrI (multipleValsOk h) b i pf)
    {o' : Nat} {e : Err} {st' : PFromBody} (hs : naStepA h b i c pf = .done o' e st') : HxTrDone b e st' := by
  have hnpv : pf.state ≠ .paramNameEnd ∧ pf.state ≠ .possibleParamNameEnd ∧ pf.state ≠ .paramValEnd ∧
      pf.state ≠ .possibleValEnd := by
    refine ⟨?_, ?_, ?_, ?_⟩ <;> rcases hg with g | g | g | g <;> rw [g] <;> decide
  unfold naStepA at hs
  by_cases hl : isLWSch c = true
  · rw [if_pos hl] at hs
    split at hs
    · rename_i hnu
      have hnu' : pf.state = .nameOrURI := by simpa using hnu
      refine hx_d_lws h hb hl hfit ?_ (hx_tr_nuEnd hfit hnu' hI hT)
        ⟨(fun hh => by cases hh), (fun hh => by cases hh), (fun hh => by cases hh), (fun hh => by cases hh)⟩ hs
      pn_leaf hI
    · exact hx_d_lws h hb hl hfit hI hT hnpv hs
  · rw [if_neg hl] at hs
    by_cases h44 : (c == 44) = true
    · rw [if_pos h44] at hs
      split at hs
      · rename_i hmv
        exact hx_d_mv h hb h44 hmv hfit hI hT hnpv hs
      · cases hs
    · rw [if_neg h44] at hs
      repeat' (split at hs)
      all_goals (cases hs <;> exact hx_trd_err (by decide) (by decide))

theorem hx_d_Q (h : Nat) {b : Buf} {i : Nat} {pf : PFromBody} (c : UInt8) (hfit : i < 65535) (hb : b[i]? = some c)
    (hg : pf.state = .quoted ∨ pf.state = .quotedVal ∨ pf.state = .quotedPossibleVal)
    (hI : PnI i pf) (hT : HxTrI (multipleValsOk h) b i pf)
    {o' : Nat} {e : Err} {st' : PFromBody} (hs : naStepQ h b i c pf = .done o' e st') : HxTrDone b e st' := by
  have hnpv : pf.state ≠ .paramNameEnd ∧ pf.state ≠ .possibleParamNameEnd ∧ pf.state ≠ .paramValEnd ∧
      pf.state ≠ .possibleValEnd := by
    refine ⟨?_, ?_, ?_, ?_⟩ <;> rcases hg with g | g | g <;> rw [g] <;> decide
  unfold naStepQ at hs
  repeat' (split at hs)
  all_goals first
    | exact hx_d_lws h hb (by assumption) hfit hI hT hnpv hs
    | (cases hs <;> exact hx_trd_err (by decide) (by decide))

theorem hx_d_U {b : Buf} {i : Nat} {pf : PFromBody} (c : UInt8)
    {o' : Nat} {e : Err} {st' : PFromBody} (hs : naStepU i c pf = .done o' e st') : HxTrDone b e st' := by
  unfold naStepU at hs
  repeat' (split at hs)
  all_goals (cases hs <;> exact hx_trd_err (by decide) (by decide))

theorem hx_d_UF (h : Nat) {b : Buf} {i : Nat} {pf : PFromBody} (c : UInt8) (hfit : i < 65535) (hb : b[i]? = some c)
    (hg : pf.state = .uriFound) (hI : PnI i pf) (hT : HxTrI (multipleValsOk h) b i pf)
    {o' : Nat} {e : Err} {st' : PFromBody} (hs : naStepUF h b i c pf = .done o' e st') : HxTrDone b e st' := by
  have hnpv : pf.state ≠ .paramNameEnd ∧ pf.state ≠ .possibleParamNameEnd ∧ pf.state ≠ .paramValEnd ∧
      pf.state ≠ .possibleValEnd := by
    refine ⟨?_, ?_, ?_, ?_⟩ <;> rw [hg] <;> decide
  unfold naStepUF at hs
  by_cases hl : isLWSch c = true
  · rw [if_pos hl] at hs
    exact hx_d_lws h hb hl hfit hI hT hnpv hs
  · rw [if_neg hl] at hs
    by_cases h44 : (c == 44) = true
    · rw [if_pos h44] at hs
      split at hs
      · rename_i hmv
        exact hx_d_mv h hb h44 hmv hfit hI hT hnpv hs
      · cases hs
    · rw [if_neg h44] at hs
      repeat' (split at hs)
      all_goals (cases hs <;> exact hx_trd_err (by decide) (by decide))

theorem hx_d_Star (h : Nat) {b : Buf} {i : Nat} {pf : PFromBody} (c : UInt8) (hfit : i < 65535) (hb : b[i]? = some c)
    (hg : pf.state = .star) (hI : PnI i pf) (hT : HxTrI (multipleValsOk h) b i pf)
    {o' : Nat} {e : Err} {st' : PFromBody} (hs : naStepStar h b i c pf = .done o' e st') : HxTrDone b e st' := by
  have hnpv : pf.state ≠ .paramNameEnd ∧ pf.state ≠ .possibleParamNameEnd ∧ pf.state ≠ .paramValEnd ∧
      pf.state ≠ .possibleValEnd := by
    refine ⟨?_, ?_, ?_, ?_⟩ <;> rw [hg] <;> decide
  unfold naStepStar at hs
  split at hs
  · exact hx_d_lws h hb (by assumption) hfit hI hT hnpv hs
  · cases hs; exact hx_trd_err (by decide) (by decide)

theorem hx_nl_of_new {mv : Bool} {d : UInt8} {b : Buf} {i : Nat} {c : UInt8} (hb : b[i]? = some c) (hl : isLWSch c = true)
    (h : HxNLc mv d b i ∨ HxGap mv b i) : HxNL b i := by
  rcases h with q | ⟨_, c1, hc1, hl1⟩
  · exact q.nl
  · rw [hb] at hc1; cases hc1; rw [hl] at hl1; cases hl1

theorem hx_nameWS_nf {pf : PFromBody} {i : Nat}
    (hg : pf.state = .newParam ∨ pf.state = .newPossibleParam ∨ pf.state = .paramName ∨ pf.state = .possibleParamName) :
    ¬ HxFixed (naNameWS pf i).state := by
  unfold naNameWS HxFixed
  rcases hg with g | g | g | g <;> simp [g]

theorem hx_valWS_nf {pf : PFromBody} {i n : Nat}
    (hg : pf.state = .newParamVal ∨ pf.state = .newPossibleVal ∨ pf.state = .paramVal ∨ pf.state = .possibleVal) :
    ¬ HxFixed (naValWS pf i n false).state := by
  unfold naValWS HxFixed
  rcases hg with g | g | g | g <;> simp [g]

theorem hx_d_P (h : Nat) {b : Buf} {i : Nat} {pf : PFromBody} (c : UInt8) (hfit : i < 65535) (hb : b[i]? = some c)
    (hg : pf.state = .newParam ∨ pf.state = .newPossibleParam ∨ pf.state = .paramName ∨ pf.state = .possibleParamName)
    (hI : PnI i pf) (hT : HxTrI (multipleValsOk h) b i pf)
    {o' : Nat} {e : Err} {st' : PFromBody} (hs : naStepP h b i c pf = .done o' e st') : HxTrDone b e st' := by
  have hnpv : pf.state ≠ .paramNameEnd ∧ pf.state ≠ .possibleParamNameEnd ∧ pf.state ≠ .paramValEnd ∧
      pf.state ≠ .possibleValEnd := by
    refine ⟨?_, ?_, ?_, ?_⟩ <;> rcases hg with g | g | g | g <;> rw [g] <;> decide
  unfold naStepP at hs
  by_cases hl : isLWSch c = true
  · rw [if_pos hl] at hs
    have hnlI : HxNL b i := by
      rcases hg with g | g | g | g
      · exact hx_nl_of_new hb hl (hT.newP (Or.inl g))
      · exact hx_nl_of_new hb hl (hT.newP (Or.inr g))
      · exact hT.ext (Or.inr (Or.inl g))
      · exact hT.ext (Or.inr (Or.inr (Or.inl g)))
    rcases hsk : skipLWS b i 0 with ⟨n, crl, e1⟩
    rw [hsk] at hs
    have hX : PnI i (naNameWS pf i) := pn_nameWS hI hfit
    rcases skipLWS_verdicts b i 0 hsk with rfl | rfl | rfl | rfl <;> simp only at hs
    · cases hs
    · simp only [Step.done.injEq] at hs
      obtain ⟨rfl, rfl, rfl⟩ := hs
      exact hx_tr_eoh h _ i n crl .ok hX.lt (by omega) (fun hf => absurd hf (hx_nameWS_nf hg)) (fun _ => Or.inl hnlI)
    · cases hs; exact hx_trd_err (by decide) (by decide)
    · cases hs; exact hx_trd_err (by decide) (by decide)
  · rw [if_neg hl] at hs
    by_cases h44 : (c == 44) = true
    · rw [if_pos h44] at hs
      split at hs
      · rename_i hmv
        exact hx_d_mv h hb h44 hmv hfit hI hT hnpv hs
      · cases hs
    · rw [if_neg h44] at hs
      repeat' (split at hs)
      all_goals (cases hs <;> exact hx_trd_err (by decide) (by decide))

theorem hx_d_V (h : Nat) {b : Buf} {i : Nat} {pf : PFromBody} (c : UInt8) (hfit : i < 65535) (hb : b[i]? = some c)
    (hg : pf.state = .newParamVal ∨ pf.state = .newPossibleVal ∨ pf.state = .paramVal ∨ pf.state = .possibleVal)
    (hI : PnI i pf) (hT : HxTrI (multipleValsOk h) b i pf)
    {o' : Nat} {e : Err} {st' : PFromBody} (hs : naStepV h b i c pf = .done o' e st') : HxTrDone b e st' := by
  have hnpv : pf.state ≠ .paramNameEnd ∧ pf.state ≠ .possibleParamNameEnd ∧ pf.state ≠ .paramValEnd ∧
      pf.state ≠ .possibleValEnd := by
    refine ⟨?_, ?_, ?_, ?_⟩ <;> rcases hg with g | g | g | g <;> rw [g] <;> decide
  unfold naStepV at hs
  by_cases hl : isLWSch c = true
  · rw [if_pos hl] at hs
    have hnlI : HxNL b i := by
      rcases hg with g | g | g | g
      · exact hx_nl_of_new hb hl (hT.newV (Or.inl g))
      · exact hx_nl_of_new hb hl (hT.newV (Or.inr g))
      · exact hT.ext (Or.inr (Or.inr (Or.inr (Or.inl g))))
      · exact hT.ext (Or.inr (Or.inr (Or.inr (Or.inr g))))
    rcases hsk : skipLWS b i 0 with ⟨n, crl, e1⟩
    rw [hsk] at hs
    have hX : PnI i (naValWS pf i n false) := pn_valWS false hI hfit
    rcases skipLWS_verdicts b i 0 hsk with rfl | rfl | rfl | rfl <;> simp only at hs
    · cases hs
    · simp only [Step.done.injEq] at hs
      obtain ⟨rfl, rfl, rfl⟩ := hs
      exact hx_tr_eoh h _ i n crl .ok hX.lt (by omega) (fun hf => absurd hf (hx_valWS_nf hg)) (fun _ => Or.inl hnlI)
    · cases hs; exact hx_trd_err (by decide) (by decide)
    · cases hs; exact hx_trd_err (by decide) (by decide)
  · rw [if_neg hl] at hs
    by_cases h44 : (c == 44) = true
    · rw [if_pos h44] at hs
      split at hs
      · rename_i hmv
        exact hx_d_mv h hb h44 hmv hfit hI hT hnpv hs
      · cases hs
    · rw [if_neg h44] at hs
      repeat' (split at hs)
      all_goals (cases hs <;> exact hx_trd_err (by decide) (by decide))

theorem hx_d_PE (h : Nat) {b : Buf} {i : Nat} {pf : PFromBody} (c : UInt8)
    (hg : pf.state = .paramNameEnd ∨ pf.state = .possibleParamNameEnd) (hI : PnI i pf)
    (hT : HxTrI (multipleValsOk h) b i pf)
    {o' : Nat} {e : Err} {st' : PFromBody} (hs : naStepPE h b i c pf = .done o' e st') : HxTrDone b e st' := by
  have hnf : ¬ HxFixed pf.state := by
    unfold HxFixed; rcases hg with g | g <;> simp [g]
  unfold naStepPE at hs
  repeat' (split at hs)
  all_goals first
    | exact hx_d_cws h _ (hI.endP hg) (hT.pe hg) hnf hs
    | (cases hs <;> exact hx_trd_err (by decide) (by decide))

theorem hx_d_VE (h : Nat) {b : Buf} {i : Nat} {pf : PFromBody} (c : UInt8)
    (hg : pf.state = .paramValEnd ∨ pf.state = .possibleValEnd) (hI : PnI i pf)
    (hT : HxTrI (multipleValsOk h) b i pf)
    {o' : Nat} {e : Err} {st' : PFromBody} (hs : naStepVE h b i c pf = .done o' e st') : HxTrDone b e st' := by
  have hnf : ¬ HxFixed pf.state := by
    unfold HxFixed; rcases hg with g | g <;> simp [g]
  unfold naStepVE at hs
  repeat' (split at hs)
  all_goals first
    | exact hx_d_cws h _ (hI.endV hg) (hT.ve hg) hnf hs
    | (cases hs <;> exact hx_trd_err (by decide) (by decide))

theorem hx_tr_done (h : Nat) {b : Buf} {i : Nat} {pf : PFromBody} (c : UInt8) (hfit : i < 65535) (hb : b[i]? = some c)
    (hI : PnI i pf) (hT : HxTrI (multipleValsOk h) b i pf)
    {o' : Nat} {e : Err} {st' : PFromBody} (hs : naStep h b i c pf = .done o' e st') : HxTrDone b e st' := by
  unfold naStep at hs
  split at hs
  all_goals first
    | exact hx_d_A h c hfit hb (by simp [*]) hI hT hs
    | exact hx_d_Q h c hfit hb (by simp [*]) hI hT hs
    | exact hx_d_U c hs
    | exact hx_d_UF h c hfit hb (by assumption) hI hT hs
    | exact hx_d_P h c hfit hb (by simp [*]) hI hT hs
    | exact hx_d_PE h c (by simp [*]) hI hT hs
    | exact hx_d_V h c hfit hb (by simp [*]) hI hT hs
    | exact hx_d_VE h c (by simp [*]) hI hT hs
    | exact hx_d_Star h c hfit hb (by assumption) hI hT hs
    | cases hs

/-- **the last byte of a reported name-addr value `V`** (ParseNameAddrPVal started on a new object, verdict OK or "more
    values", any header kind, EVERY input within the 65,535-byte limit): the byte before the end of `V` is not white
    space (SP, HT, CR, LF) — except in ONE shape: the verdict is "more values", the byte at the end of `V` is the comma,
    and `V` ends with a non-empty run of white space that directly follows a `;` (an empty parameter: `<a>; ,<b>`) or a
    `=` (an empty parameter value: `<a>;tag= ,<b>`).  After verdict OK (last value of a line, From / To) `V` never ends
    with white space. -/
theorem hx_value_last_byte (h : Nat) (b : Buf) (o : Nat) (hfit : b.size ≤ 65535)
    {o' : Nat} {e : Err} {pf' : PFromBody} (hp : parseNameAddrPVal h b o {} = (o', e, pf'))
    (hc : e = .ok ∨ e = .moreValues) : HxTrC b e pf'.v := by
  unfold parseNameAddrPVal at hp
  rw [if_neg (by decide)] at hp
  simp only [Prod.mk.injEq] at hp
  obtain ⟨rfl, rfl, rfl⟩ := hp
  have h0 : PnI o { ({} : PFromBody) with s := ({} : PFromBody).soffs, soffs := 0 } :=
    ⟨fun hh => absurd rfl hh, (fun hh => by rcases hh with hh | hh | hh <;> cases hh),
     (fun hh => by rcases hh with hh | hh <;> cases hh), (fun hh => by rcases hh with hh | hh <;> cases hh)⟩
  have t0 : HxTrI (multipleValsOk h) b o { ({} : PFromBody) with s := ({} : PFromBody).soffs, soffs := 0 } :=
    ⟨(fun hh => by rcases hh with hh | hh | hh | hh | hh <;> cases hh), (fun hh => by rcases hh with hh | hh <;> cases hh),
     (fun hh => by rcases hh with hh | hh <;> cases hh), (fun hh => by rcases hh with hh | hh | hh <;> cases hh),
     (fun hh => by rcases hh with hh | hh <;> cases hh), (fun hh => by rcases hh with hh | hh <;> cases hh)⟩
  have key := runLoop_inv (naMachine h) b (fun i st => PnI i st ∧ HxTrI (multipleValsOk h) b i st)
    (fun r => HxTrDone b r.2.1 r.2.2)
    (by
      intro i c st i' st' hb hP hs
      have hlt := get?_lt hb
      refine ⟨fun hlt' => ⟨pn_cont h c (by omega) hP.1 hlt' hs, hx_tr_cont h c (by omega) hb hP.1 hP.2 hs⟩, fun _ => ?_⟩
      exact hx_trd_err (e := Err.lbug) (by decide) (by decide))
    (by
      intro i c st o1 e1 st1 hb hP hs
      have hlt := get?_lt hb
      exact hx_tr_done h c (by omega) hb hP.1 hP.2 hs)
    (by
      intro i st _ _
      exact hx_trd_err (e := Err.moreBytes) (by decide) (by decide))
    o _ ⟨h0, t0⟩
  rcases hrl : runLoop (naMachine h) b o { ({} : PFromBody) with s := ({} : PFromBody).soffs, soffs := 0 } with ⟨o1, e1, p1⟩
  rw [hrl] at key hc
  have := key hc
  unfold naExit
  split <;> exact this


/-- `HxTrC`, spelled out (`E` = the end of the span) -/
theorem HxTrC.meaning {b : Buf} {e : Err} {v : PField} (h : HxTrC b e v) :
    (∃ c, 0 < v.offs + v.len ∧ b[v.offs + v.len - 1]? = some c ∧ isLWSch c = false) ∨
    (e = .moreValues ∧ b[v.offs + v.len]? = some 44 ∧
      ∃ j c0, j + 1 < v.offs + v.len ∧ b[j]? = some c0 ∧ (c0 = 59 ∨ c0 = 61) ∧
        ∀ k, j < k → k < v.offs + v.len → ∃ c', b[k]? = some c' ∧ isLWSch c' = true) := by
  rcases h with h | ⟨h1, h2, j, c0, a1, a2, _, a4, a5⟩
  · exact Or.inl h
  · exact Or.inr ⟨h1, h2, j, c0, a1, a2, a4 rfl, a5⟩

/-- after verdict OK (the last value of a header line; From, To, …) the value never ends with white space -/
theorem hx_value_last_byte_ok (h : Nat) (b : Buf) (o : Nat) (hfit : b.size ≤ 65535)
    {o' : Nat} {pf' : PFromBody} (hp : parseNameAddrPVal h b o {} = (o', .ok, pf')) :
    ∃ c, 0 < pf'.v.offs + pf'.v.len ∧ b[pf'.v.offs + pf'.v.len - 1]? = some c ∧ isLWSch c = false := by
  rcases hx_value_last_byte h b o hfit hp (Or.inl rfl) with q | ⟨q, _⟩
  · exact q
  · cases q

/-- **the parameter span**: if reported, it ends exactly where `V` ends (`NaNest`), so the same statement holds for its
    last byte -/
theorem hx_params_last_byte (h : Nat) (b : Buf) (o : Nat) (hfit : b.size ≤ 65535) (ho : o ≤ b.size)
    {o' : Nat} {e : Err} {pf' : PFromBody} (hp : parseNameAddrPVal h b o {} = (o', e, pf'))
    (hc : e = .ok ∨ e = .moreValues) :
    (pf'.params.offs = 0 ∧ pf'.params.len = 0) ∨
    (pf'.params.offs + pf'.params.len = pf'.v.offs + pf'.v.len ∧ HxTrC b e pf'.params) := by
  have hN := (parseNameAddrPVal_nest_new h b o hfit ho hp hc).1
  rcases hN.parL with q | ⟨_, q⟩
  · exact Or.inl q
  · refine Or.inr ⟨q, ?_⟩
    have := hx_value_last_byte h b o hfit hp hc
    unfold HxTrC at this ⊢
    rw [q]; exact this

/-! #### tests for (3) (closed computations: examples that pin the shapes, not the general claim) -/

/-- the exception shapes: `;tag= ,` and `; ,` keep the blank inside `V` (`[0, 9)` resp. `[0, 5)`, last byte SP), also when
    the white space is a folded line; `;tag=1 ,`, `;p ,` and `<a> ,` do not; after OK (`;tag= ` at the end of the line)
    `V` ends with the `=` -/
example :
    (let r := parseNameAddrPVal HdrContact "<a>;tag= ,<b>\r\n\r\n".toUTF8.data 0 {}; (r.2.1, r.2.2.v, r.2.2.params)) =
      (.moreValues, ⟨0, 9⟩, ⟨4, 5⟩) ∧
    (let r := parseNameAddrPVal HdrContact "<a>; ,<b>\r\n\r\n".toUTF8.data 0 {}; (r.2.1, r.2.2.v)) = (.moreValues, ⟨0, 5⟩) ∧
    (let r := parseNameAddrPVal HdrContact "<a>;tag=\r\n ,<b>\r\n\r\n".toUTF8.data 0 {}; (r.2.1, r.2.2.v)) =
      (.moreValues, ⟨0, 11⟩) ∧
    (let r := parseNameAddrPVal HdrContact "<a>;tag=1 ,<b>\r\n\r\n".toUTF8.data 0 {}; (r.2.1, r.2.2.v, r.2.2.params)) =
      (.moreValues, ⟨0, 9⟩, ⟨4, 5⟩) ∧
    (let r := parseNameAddrPVal HdrContact "<a>;p ,<b>\r\n\r\n".toUTF8.data 0 {}; (r.2.1, r.2.2.v)) = (.moreValues, ⟨0, 5⟩) ∧
    (let r := parseNameAddrPVal HdrContact "<a> ,<b>\r\n\r\n".toUTF8.data 0 {}; (r.2.1, r.2.2.v)) = (.moreValues, ⟨0, 3⟩) ∧
    (let r := parseNameAddrPVal HdrContact "<a>;tag= \r\n\r\n".toUTF8.data 0 {}; (r.2.1, r.2.2.v)) = (.ok, ⟨0, 8⟩) := by
  decide +kernel

/-! ### (3b) a property of every completed name-addr value, lifted to the stored values of a message -/

/-- the values of a Contact list stored from index `n0` on satisfy `Φ` -/
def HxAllCt (Φ : PFromBody → Prop) (c : PContacts) (n0 : Nat) : Prop :=
  ∀ i, n0 ≤ i → i < c.n → i < c.vals.size → Φ c.vals[i]!

def HxAllPa (Φ : PFromBody → Prop) (c : PPAIs) (n0 : Nat) : Prop :=
  ∀ i, n0 ≤ i → i < c.n → i < c.vals.size → Φ c.vals[i]!

/-- `Φ` holds of every value that ParseNameAddrPVal, started on a new object, completes in buffer `b` -/
def HxValProp (b : Buf) (Φ : PFromBody → Prop) : Prop :=
  ∀ h o next e pf, parseNameAddrPVal h b o {} = (next, e, pf) → Err.complete e → Φ pf

theorem hx_contactsLoop_all {Φ : PFromBody → Prop} (b : Buf) (offs : Nat) (c : PContacts) (hΦ : HxValProp b Φ)
    (hcl : CtClean c) (hcur : c.cur = {}) (n0 : Nat) (h : HxAllCt Φ c n0) :
    (contactsLoop b offs c).2.1 = .ok → HxAllCt Φ (contactsLoop b offs c).2.2 n0 := by
  induction hk : b.size - offs using Nat.strongRecOn generalizing offs c with
  | _ k ih =>
    rw [contactsLoop]
    rcases hp : parseOneContact b offs c.cur with ⟨next, e1, pf⟩
    have hp' : parseNameAddrPVal HdrContact b offs {} = (next, e1, pf) := by rw [hcur] at hp; exact hp
    have hacc : Err.complete e1 → HxAllCt Φ ((c.setCur pf).account pf) n0 := by
      intro hc i hn hi hs
      rw [account_n, setCur_n] at hi
      rw [account_vals, setCur_size] at hs
      rw [account_vals]
      by_cases hin : i = c.n
      · subst hin
        rw [setCur_get_n c pf hs]
        exact hΦ HdrContact offs next e1 pf hp' hc
      · rw [setCur_vals_ne c pf i (by omega)]
        exact h i hn (by omega) hs
    cases e1 <;> simp only
    case ok => exact fun _ => hacc (Or.inl rfl)
    case moreValues =>
      have hnx : (if c.n < c.vals.size then (c.setCur pf).account pf
          else { (c.setCur pf).account pf with last := {} }) = c.next pf := rfl
      rw [hnx]
      have hcl' := next_clean c pf hcl
      have hL : HxAllCt Φ (c.next pf) n0 := by
        have := hacc (Or.inr rfl)
        unfold PContacts.next; split
        · exact this
        · exact this
      by_cases hg : offs < next ∧ next ≤ b.size
      · rw [if_pos hg]
        exact ih (b.size - next) (by omega) next (c.next pf) hcl'.1 hcl'.2 hL rfl
      · rw [if_neg hg]; exact fun hh => by cases hh
    all_goals exact fun hh => by cases hh

theorem hx_contact_line_all {Φ : PFromBody → Prop} (b : Buf) (o : Nat) (c : PContacts) (k : Nat) (hΦ : HxValProp b Φ)
    (hcl : CtClean c.wrap) (hcur : c.wrap.cur = {}) {o' : Nat} {c' : PContacts}
    (hr : parseAllContactValues b o { c with hNo := k, lastHVal := {} } = (o', .ok, c')) :
    ∀ i, c.n ≤ i → i < c'.n → i < c'.vals.size → Φ c'.vals[i]! := by
  rw [parseAllContactValues_eq_wrap, bump_wrap] at hr
  have h0 : HxAllCt Φ ({ c.wrap with hNo := k, lastHVal := {} } : PContacts) c.n :=
    fun i hn hi _ => by
      have hi' : i < c.wrap.n := hi
      rw [(wrap_scalars c).1] at hi'; omega
  have := hx_contactsLoop_all b o { c.wrap with hNo := k, lastHVal := {} } hΦ hcl hcur c.n h0
  rw [hr] at this
  exact this rfl

theorem hx_paisLoop_all {Φ : PFromBody → Prop} (b : Buf) (offs : Nat) (c : PPAIs) (hΦ : HxValProp b Φ)
    (hcl : PaClean c) (hcur : c.cur = {}) (n0 : Nat) (h : HxAllPa Φ c n0) :
    (paisLoop b offs c).2.1 = .ok → HxAllPa Φ (paisLoop b offs c).2.2 n0 := by
  induction hk : b.size - offs using Nat.strongRecOn generalizing offs c with
  | _ k ih =>
    rw [paisLoop]
    rcases hp : parseOnePAI b offs c.cur with ⟨next, e1, pf⟩
    obtain ⟨e0, hp0, hok0, hmv0, _⟩ := parseOnePAI_under b offs c.cur hp
    have hp' : parseNameAddrPVal HdrPAI b offs {} = (next, e0, pf) := by rw [hcur] at hp0; exact hp0
    have hacc : Err.complete e0 → HxAllPa Φ ((c.setCur pf).account pf) n0 := by
      intro hc i hn hi hs
      rw [paAccount_n, paSetCur_n] at hi
      rw [paAccount_vals, paSetCur_size] at hs
      rw [paAccount_vals]
      by_cases hin : i = c.n
      · subst hin
        rw [paSetCur_get_n c pf hs]
        exact hΦ HdrPAI offs next e0 pf hp' hc
      · rw [paSetCur_vals_ne c pf i (by omega)]
        exact h i hn (by omega) hs
    cases e1 <;> simp only
    case ok => exact fun _ => hacc (Or.inl (hok0 rfl))
    case moreValues =>
      have hnx : (if c.n < c.vals.size then (c.setCur pf).account pf
          else { (c.setCur pf).account pf with last := {} }) = c.next pf := rfl
      rw [hnx]
      have hcl' := paNext_clean c pf hcl
      have hL : HxAllPa Φ (c.next pf) n0 := by
        have := hacc (Or.inr (hmv0 rfl))
        unfold PPAIs.next; split
        · exact this
        · exact this
      by_cases hg : offs < next ∧ next ≤ b.size
      · rw [if_pos hg]
        exact ih (b.size - next) (by omega) next (c.next pf) hcl'.1 hcl'.2 hL rfl
      · rw [if_neg hg]; exact fun hh => by cases hh
    all_goals exact fun hh => by cases hh

theorem hx_pai_line_all {Φ : PFromBody → Prop} (b : Buf) (o : Nat) (c : PPAIs) (k : Nat) (hΦ : HxValProp b Φ)
    (hcl : PaClean c.wrap) (hcur : c.wrap.cur = {}) {o' : Nat} {c' : PPAIs}
    (hr : parseAllPAIValues b o { c with hNo := k, lastHVal := {} } = (o', .ok, c')) :
    ∀ i, c.n ≤ i → i < c'.n → i < c'.vals.size → Φ c'.vals[i]! := by
  rw [parseAllPAIValues_eq_wrap, paBump_wrap] at hr
  have h0 : HxAllPa Φ ({ c.wrap with hNo := k, lastHVal := {} } : PPAIs) c.n :=
    fun i hn hi _ => by
      have hi' : i < c.wrap.n := hi
      rw [(paWrap_scalars c).1] at hi'; omega
  have := hx_paisLoop_all b o { c.wrap with hNo := k, lastHVal := {} } hΦ hcl hcur c.n h0
  rw [hr] at this
  exact this rfl

/-- a single-valued name-addr object (From, To) between two header lines: new, or parsed with `Φ` -/
def HxNaK (Φ : PFromBody → Prop) (pf : PFromBody) : Prop := pf = {} ∨ (pf.parsed = true ∧ Φ pf)

/-- `Ψ e pf` holds of every value `pf` that ParseNameAddrPVal, started on a new object, completes in buffer `b` with
    verdict `e` (OK or "more values") -/
def HxValProp2 (b : Buf) (Ψ : Err → PFromBody → Prop) : Prop :=
  ∀ h o next e pf, parseNameAddrPVal h b o {} = (next, e, pf) → Err.complete e → Ψ e pf

/-- `Ψ` with one of the two verdicts -/
def HxAny (Ψ : Err → PFromBody → Prop) (pf : PFromBody) : Prop := Ψ .ok pf ∨ Ψ .moreValues pf

theorem HxValProp2.any {b : Buf} {Ψ : Err → PFromBody → Prop} (h : HxValProp2 b Ψ) : HxValProp b (HxAny Ψ) := by
  intro k o next e pf hp hc
  have := h k o next e pf hp hc
  rcases hc with rfl | rfl
  · exact Or.inl this
  · exact Or.inr this

/-- the values object between two header lines: `Ψ .ok` for From and To (if parsed), `Ψ` with one of the two verdicts
    for every stored Contact / identity value -/
structure HxVals (Ψ : Err → PFromBody → Prop) (hv : PHdrVals) : Prop where
  from_ : HxNaK (Ψ .ok) hv.from_
  to : HxNaK (Ψ .ok) hv.to
  ct : HxAllCt (HxAny Ψ) hv.contacts 0
  pa : HxAllPa (HxAny Ψ) hv.pais 0

theorem hx_naK_step {Ψ : Err → PFromBody → Prop} {b : Buf} (hΨ : HxValProp2 b Ψ) (h o n : Nat) (pf pf2 : PFromBody)
    (K : HxNaK (Ψ .ok) pf) (hc : pf2 = pf ∨ (pf.parsed = false ∧ parseNameAddrPVal h b o pf = (n, .ok, pf2))) : HxNaK (Ψ .ok) pf2 := by
  rcases hc with rfl | ⟨hnp, hq⟩
  · exact K
  · rcases K with rfl | ⟨hp, _⟩
    · exact Or.inr ⟨sv_na_ok h b o {} hq, hΨ h o n .ok pf2 hq (Or.inl rfl)⟩
    · rw [hp] at hnp; cases hnp

/-- the value dispatch on a header in the "body start" state, verdict OK, both value lists idle: `HxVals` is kept -/
theorem hx_parseBody_vals {Ψ : Err → PFromBody → Prop} (b : Buf) (o : Nat) (h : Hdr) (hv : PHdrVals) (hΨ : HxValProp2 b Ψ)
    (hst : h.state = .bodyStart) (hct : CtIdle b hv.contacts) (hpa : PaIdle b hv.pais)
    {n : Nat} {h2 : Hdr} {hv2 : PHdrVals} (hr : parseBody b o h (some hv) = (n, .ok, h2, some hv2))
    (G : HxVals Ψ hv) : HxVals Ψ hv2 := by
  obtain ⟨_, f1, f2, _, f4, f5⟩ := hx_parseBody_frame b o h hv hst hr
  refine ⟨hx_naK_step hΨ HdrFrom o n _ _ G.from_ f4, hx_naK_step hΨ HdrTo o n _ _ G.to f5, ?_, ?_⟩
  · by_cases htc : h.type = HdrContact
    · rw [svc_parseBody_contact b o h hv htc (by rw [hst]; decide)] at hr
      rcases hq : parseAllContactValues b o { hv.contacts with hNo := hv.contacts.hNo + 1, lastHVal := {} } with ⟨n1, e1, c1⟩
      have hk := pl_contact_line_keep b o hv.contacts (hv.contacts.hNo + 1)
      rw [hq] at hr hk
      simp only [Prod.mk.injEq, Option.some.injEq] at hr
      obtain ⟨rfl, rfl, rfl, rfl⟩ := hr
      have hnew := hx_contact_line_all b o hv.contacts _ hΨ.any hct.clean hct.cur hq
      intro i _ hi hs
      by_cases hin : i < hv.contacts.n
      · show HxAny Ψ c1.vals[i]!
        rw [hk.2.2 i hin]
        exact G.ct i (Nat.zero_le _) hin (by rw [← hk.1]; exact hs)
      · exact hnew i (by omega) hi hs
    · rw [f1 htc]; exact G.ct
  · by_cases htp : h.type = HdrPAI
    · rw [svc_parseBody_pai b o h hv htp (by rw [hst]; decide)] at hr
      rcases hq : parseAllPAIValues b o { hv.pais with hNo := hv.pais.hNo + 1, lastHVal := {} } with ⟨n1, e1, c1⟩
      have hk := pl_pai_line_keep b o hv.pais (hv.pais.hNo + 1)
      rw [hq] at hr hk
      simp only [Prod.mk.injEq, Option.some.injEq] at hr
      obtain ⟨rfl, rfl, rfl, rfl⟩ := hr
      have hnew := hx_pai_line_all b o hv.pais _ hΨ.any hpa.clean hpa.cur hq
      intro i _ hi hs
      by_cases hin : i < hv.pais.n
      · show HxAny Ψ c1.vals[i]!
        rw [hk.2.2 i hin]
        exact G.pa i (Nat.zero_le _) hin (by rw [← hk.1]; exact hs)
      · exact hnew i (by omega) hi hs
    · rw [f2 htp]; exact G.pa

/-- **one header line**, verdict OK or "empty line" -/
theorem hx_line_vals {Ψ : Err → PFromBody → Prop} (b : Buf) (o : Nat) (h : Hdr) (hv : PHdrVals) (hΨ : HxValProp2 b Ψ)
    (hst : HxPre h.state) (hct : CtIdle b hv.contacts) (hpa : PaIdle b hv.pais)
    {o' : Nat} {e : Err} {h' : Hdr} {hb' : Option PHdrVals} (hr : parseHdrLine b o h (some hv) = (o', e, h', hb'))
    (he : e = .ok ∨ e = .empty) : ∃ hv', hb' = some hv' ∧ (HxVals Ψ hv → HxVals Ψ hv') := by
  obtain ⟨hv', hb, hcase⟩ := hx_parseHdrLine_split b o h hv hst hr
  simp only at hb hcase
  subst hb
  refine ⟨hv', rfl, fun K => ?_⟩
  rcases hcase with ⟨rfl, _⟩ | ⟨i, h1, h2, _, hs1, hp, _, hne, _⟩
  · exact K
  · rcases he with rfl | rfl
    · exact hx_parseBody_vals b i h1 hv hΨ hs1 hct hpa hp K
    · exact absurd rfl hne

/-- **header block** (same hypotheses as `hx_parseHeaders`) -/
theorem hx_parseHeaders_vals {Ψ : Err → PFromBody → Prop} (b : Buf) (offs : Nat) (hl : HdrLst) (hb : Option PHdrVals)
    (hΨ : HxValProp2 b Ψ) (hfit : b.size ≤ 65535)
    (hok1 : hlsOK b hl) (hok2 : hbOK b offs hb) (hpe : hlsPend hl hb) (ho : offs ≤ b.size)
    (H : HlsSafe b offs hl hb) (hcur : hl.cur = {}) (hsome : hb ≠ none) (G : ∀ hv, hb = some hv → HxVals Ψ hv) :
    (parseHeaders b offs hl hb).2.1 = .ok → ∀ hv, (parseHeaders b offs hl hb).2.2.2 = some hv → HxVals Ψ hv := by
  induction hk : b.size - offs using Nat.strongRecOn generalizing offs hl hb with
  | _ k ih =>
    rw [parseHeaders.eq_1 b offs hl hb]
    by_cases hlt : offs < b.size
    · rw [if_pos hlt]
      have hI : hlOK b offs hl.cur hb := ⟨by omega, hlsOK_cur hok1, hok2⟩
      cases hb with
      | none => exact absurd rfl hsome
      | some hv =>
      rcases hp1 : parseHdrLine b offs hl.cur (some hv) with ⟨n1, e1, g1, v1⟩
      obtain ⟨hO, hS, hF, hN, hE⟩ := parseHdrLine_safe b offs hl.cur (some hv) hfit H.cur hI hp1
      have Hv := H.cur.hv hv rfl
      rw [hcur] at Hv
      have hct : CtIdle b hv.contacts := Hv.ctI (fun hq => by cases hq)
      have hpa : PaIdle b hv.pais := Hv.paI (fun hq => by cases hq)
      have hK : e1 = .ok ∨ e1 = .empty → ∀ hv2, v1 = some hv2 → HxVals Ψ hv2 := by
        intro he hv2 hh
        obtain ⟨hv3, hq3, hk3⟩ := hx_line_vals b offs hl.cur hv hΨ (by rw [hcur]; exact Or.inl rfl) hct hpa hp1 he
        rw [hq3] at hh; cases hh
        exact hk3 (G hv rfl)
      cases e1 <;> simp only
      case ok =>
        have hpost := parseHdrLine_post b offs hl.cur (some hv) hI hp1 (Or.inl rfl)
        have hg : offs < n1 := parseHdrLine_ok_gt b offs hl.cur (some hv) hI hpe.1 hp1
        rw [if_pos hg]
        obtain ⟨hv1, hq1, _⟩ := hx_line_vals (Ψ := Ψ) b offs hl.cur hv hΨ (by rw [hcur]; exact Or.inl rfl) hct hpa hp1 (Or.inl rfl)
        subst hq1
        exact ih (b.size - n1) (by omega) n1 _ (some hv1) (hlsOK_next g1 hok1) hpost.2
          (hlsPend_next g1 (some hv1) hpe) hpost.1 (H.next g1 (hS (Or.inl rfl)) (hF rfl) (by omega))
          (flo_next_cur hl g1 H.clean) (by intro hh; cases hh)
          (fun hv' hh => hK (Or.inl rfl) hv' hh) rfl
      case empty =>
        split
        · intro _ hv' hh; exact hK (Or.inr rfl) hv' hh
        · intro hh; cases hh
      all_goals (intro hh; cases hh)
    · rw [if_neg hlt]
      intro hh; cases hh

/-! #### the message -/

theorem hx_parseSIPMsg_vals {Ψ : Err → PFromBody → Prop} (b : Buf) (o : Nat) (m : PSIPMsg) (flags : Nat)
    (hΨ : HxValProp2 b Ψ) (hfit : b.size ≤ 65535)
    (hok : msgOK2 b o m) (H : MsgSafe b o m) (hst : m.state = .init) (hcur : m.hl.cur = {})
    (G : HxVals Ψ m.pv) {o' : Nat} {m' : PSIPMsg} (hr : parseSIPMsg b o m flags = (o', .ok, m')) :
    HxVals Ψ m'.pv := by
  obtain ⟨ho, _, hrest⟩ := hok
  obtain ⟨hls, hvs, hpe⟩ := hrest (by rw [hst]; decide)
  have h1 : parseSIPMsg b o m flags = msgFLine b o { m with offs := o, state := .fline } flags := by
    unfold parseSIPMsg; rw [hst]
  rw [h1] at hr
  unfold msgFLine at hr
  simp only at hr
  have hF := parseFLine_safe b o m.fl hfit (H.flS (Or.inl hst))
  have hge := parseFLine_ge b o m.fl
  rcases hp : parseFLine b o m.fl with ⟨o1, e1, fl1⟩
  rw [hp] at hr hF hge
  simp only at hF hge
  cases e1 <;> simp only at hr
  case ok =>
    rw [msgHeaders_eq] at hr
    simp only at hr
    have hHls : HlsSafe b o1 m.hl (some m.pv) := (H.hls (Or.inl hst)).mono hge hF.ho
    have hNn := hx_parseHeaders_vals b o1 m.hl (some m.pv) hΨ hfit hls (hvOK_mono hvs hge hF.ho) hpe hF.ho hHls hcur
      (by intro hh; cases hh) (fun hv hh => by cases hh; exact G)
    have hsome := parseHeaders_isSome b o1 m.hl m.pv
    rcases hp2 : parseHeaders b o1 m.hl (some m.pv) with ⟨o2, e2, hl2, hb2⟩
    rw [hp2] at hr hNn hsome
    cases hb2 with
    | none => cases hsome
    | some pv2 =>
      unfold afterHeaders at hr
      cases e2 <;> simp only [Option.getD_some] at hr
      case ok =>
        obtain ⟨k1, k2, k3⟩ := flo_msgBody_keeps b o2 { m with offs := o, fl := fl1, hl := hl2, pv := pv2, state := .body } flags
        rw [hr] at k1 k2 k3
        rw [k3]; exact hNn rfl pv2 rfl
      all_goals (exfalso; have hq := congrArg (fun r => r.2.1) hr; simp only at hq; exact flo_msgErr_ne_ok _ _ _ _ (by decide) hq)
  all_goals (exfalso; have hq := congrArg (fun r => r.2.1) hr; simp only at hq; exact flo_msgErr_ne_ok _ _ _ _ (by decide) hq)

theorem HxVals_init (Ψ : Err → PFromBody → Prop) (m : PSIPMsg) (len kh kc : Nat) (hdrs : Option Unit) (cts : Option Unit) :
    HxVals Ψ (m.init len (hdrs.map fun _ => Array.replicate kh {}) (cts.map fun _ => Array.replicate kc {})).pv := by
  have key : ∀ k k', HxVals Ψ (initObj len k k').pv := by
    intro k k'
    exact ⟨Or.inl rfl, Or.inl rfl, (fun i _ hi _ => by cases hi), (fun i _ hi _ => by cases hi)⟩
  cases hdrs <;> cases cts
  · exact key 10 10
  · exact key 10 kc
  · exact key kh 10
  · exact key kh kc

/-- **any property of completed name-addr values holds of From, To and every stored Contact / identity value** after one
    successful ParseSIPMsg call on an object produced by Init -/
theorem hx_msg_vals_init {Ψ : Err → PFromBody → Prop} (b : Buf) (o : Nat) (m0 : PSIPMsg) (len kh kc : Nat)
    (hdrs cts : Option Unit) (flags : Nat) (hΨ : HxValProp2 b Ψ) (hfit : b.size ≤ 65535) (ho : o ≤ b.size)
    {o' : Nat} {m' : PSIPMsg}
    (hr : parseSIPMsg b o (m0.init len (hdrs.map fun _ => Array.replicate kh {}) (cts.map fun _ => Array.replicate kc {}))
      flags = (o', .ok, m')) : HxVals Ψ m'.pv := by
  obtain ⟨_, q2, q3⟩ := MsgLo_init o m0 len kh kc hdrs cts
  exact hx_parseSIPMsg_vals b o _ flags hΨ hfit (msgOK2_init b o ho m0 len kh kc hdrs cts)
    (MsgSafe_init b o ho m0 len kh kc hdrs cts) q3 q2 (HxVals_init Ψ m0 len kh kc hdrs cts) hr

/-- the trimming statement as a property of completed values -/
theorem hx_trim_prop (b : Buf) (hfit : b.size ≤ 65535) : HxValProp2 b (fun e pf => HxTrC b e pf.v) :=
  fun h o _ _ _ hp hc => hx_value_last_byte h b o hfit hp hc

/-- **[C05] trimming, message level, one call on an Init object**: after a successful ParseSIPMsg the From and To
    values (if parsed) do not end with white space; every stored Contact / identity value does not end with white
    space, except in the one shape of `HxTrC` (`; ,` / `= ,`) -/
theorem hx_msg_trim_init (b : Buf) (o : Nat) (m0 : PSIPMsg) (len kh kc : Nat)
    (hdrs cts : Option Unit) (flags : Nat) (hfit : b.size ≤ 65535) (ho : o ≤ b.size) {o' : Nat} {m' : PSIPMsg}
    (hr : parseSIPMsg b o (m0.init len (hdrs.map fun _ => Array.replicate kh {}) (cts.map fun _ => Array.replicate kc {}))
      flags = (o', .ok, m')) :
    (m'.pv.from_.parsed = true → HxNL b (m'.pv.from_.v.offs + m'.pv.from_.v.len)) ∧
    (m'.pv.to.parsed = true → HxNL b (m'.pv.to.v.offs + m'.pv.to.v.len)) ∧
    (∀ k, k < m'.pv.contacts.n → k < m'.pv.contacts.vals.size → HxTrC b .moreValues m'.pv.contacts.vals[k]!.v) ∧
    (∀ k, k < m'.pv.pais.n → k < m'.pv.pais.vals.size → HxTrC b .moreValues m'.pv.pais.vals[k]!.v) := by
  have hV := hx_msg_vals_init b o m0 len kh kc hdrs cts flags (hx_trim_prop b hfit) hfit ho hr
  have okc : ∀ v : PField, HxTrC b .ok v → HxNL b (v.offs + v.len) := by
    intro v hh
    rcases hh with q | ⟨q, _⟩
    · exact q
    · cases q
  have anyc : ∀ pf : PFromBody, HxAny (fun e pf => HxTrC b e pf.v) pf → HxTrC b .moreValues pf.v := by
    intro pf hh
    rcases hh with q | q
    · exact Or.inl (okc _ q)
    · exact q
  refine ⟨fun hp => ?_, fun hp => ?_, fun k h1 h2 => anyc _ (hV.ct k (Nat.zero_le _) h1 h2),
    fun k h1 h2 => anyc _ (hV.pa k (Nat.zero_le _) h1 h2)⟩
  · rcases hV.from_ with q | ⟨_, q⟩
    · rw [q] at hp; cases hp
    · exact okc _ q
  · rcases hV.to with q | ⟨_, q⟩
    · rw [q] at hp; cases hp
    · exact okc _ q

/-- … under every chunk schedule, from Init (the buffer is the one of the call that completed the message) -/
theorem hx_msg_trim_schedule_init (flags : Nat) (o : Nat) (m0 : PSIPMsg) (len kh kc : Nat)
    (hdrs cts : Option Unit) (l : List Buf) (hg : Growing l) (hfit : ∀ x ∈ l, x.size ≤ 65535) (hne : l ≠ [])
    (ho : ∀ b ∈ l, o ≤ b.size) {o' : Nat} {m' : PSIPMsg}
    (hr : resumeRun (C01.msgP flags) o
      (m0.init len (hdrs.map fun _ => Array.replicate kh {}) (cts.map fun _ => Array.replicate kc {})) l = (o', .ok, m')) :
    ∃ b ∈ l,
    (m'.pv.from_.parsed = true → HxNL b (m'.pv.from_.v.offs + m'.pv.from_.v.len)) ∧
    (m'.pv.to.parsed = true → HxNL b (m'.pv.to.v.offs + m'.pv.to.v.len)) ∧
    (∀ k, k < m'.pv.contacts.n → k < m'.pv.contacts.vals.size → HxTrC b .moreValues m'.pv.contacts.vals[k]!.v) ∧
    (∀ k, k < m'.pv.pais.n → k < m'.pv.pais.vals.size → HxTrC b .moreValues m'.pv.pais.vals[k]!.v) := by
  obtain ⟨b, hb, h⟩ := flo_schedule_init flags o m0 len kh kc hdrs cts l hg hfit hne ho hr
  exact ⟨b, hb, hx_msg_trim_init b o m0 len kh kc hdrs cts flags (hfit b hb) (ho b hb) h⟩


/-- test message: a Contact line with an empty parameter value before the comma -/
def hxTrimMsg : Buf := "REGISTER sip:a@b SIP/2.0\r\nContact: <sip:a@b>;x= , <sip:c@d>\r\nCSeq: 1 REGISTER\r\n\r\n".toUTF8.data

/-- test (message level): the Contact line `<sip:a@b>;x= , <sip:c@d>` is accepted; the first stored value is `[35, 48)`
    and its last byte (offset 47) is the blank after `=` (offset 46), the comma stands at 48 — the exception shape; the
    second value `[50, 59)` ends with `>` -/
example :
    (parseSIPMsg hxTrimMsg 0 (({} : PSIPMsg).init 0 ((some ()).map fun _ => Array.replicate 4 {})
      ((some ()).map fun _ => Array.replicate 4 {})) 0).2.1 = .ok ∧
    ((parseSIPMsg hxTrimMsg 0 (({} : PSIPMsg).init 0 ((some ()).map fun _ => Array.replicate 4 {})
      ((some ()).map fun _ => Array.replicate 4 {})) 0).2.2.pv.contacts.vals.toList.map
        (fun f => (f.v.offs, f.v.len))).take 2 = [(35, 13), (50, 9)] ∧
    hxTrimMsg[46]? = some 61 ∧ hxTrimMsg[47]? = some 32 ∧ hxTrimMsg[48]? = some 44 ∧ hxTrimMsg[58]? = some 62 := by
  decide +kernel

end Sipsp
