/-
  Sipsp.Proofs.HdrLineL2 — L2 (resumption) for ParseHdrLine.
-/
import Sipsp.Proofs.ContactsL2
import Sipsp.Proofs.HeadersL1
import Sipsp.Proofs.Range

namespace Sipsp

/-- what a caller can read of the header-values object -/
def PHdrVals.obs (hv : PHdrVals) : PHdrVals :=
  { hv with from_ := hv.from_.obs, to := hv.to.obs, contacts := hv.contacts.obs, pais := hv.pais.obs }

def hlObs (st : HLσ) : HLσ := (st.1, st.2.map PHdrVals.obs)

/-- assembling the caller's result from the nested parser's result preserves the relation -/
theorem RR.assemble {τ : Type} {obsK : τ → τ} {r1 r2 : Nat × Err × τ} (hrr : RR obsK r1 r2)
    (mk : Err → τ → HLσ)
    (hobs : ∀ e f f', obsK f = obsK f' → ¬ Err.goesOn e → hlObs (mk e f) = hlObs (mk e f')) :
    RR hlObs (r1.1, r1.2.1, mk r1.2.1 r1.2.2) (r2.1, r2.2.1, mk r2.2.1 r2.2.2) := by
  obtain ⟨n1, e1, f1⟩ := r1
  obtain ⟨n2, e2, f2⟩ := r2
  obtain ⟨hn, he, hg, ho⟩ := hrr
  simp only at hn he hg ho ⊢
  subst hn; subst he
  by_cases hgo : Err.goesOn e1
  · rw [hg hgo]; exact RR.refl _ _
  · exact ⟨rfl, rfl, fun hh => absurd hh hgo, hobs e1 f1 f2 ho hgo⟩

theorem RR.ofEq {τ : Type} {r1 r2 : Nat × Err × τ} (h : r1 = r2) : RR (fun x : τ => x) r1 r2 := RR.of_eq h

theorem not_goesOn_ne_ok {e : Err} (h : ¬ Err.goesOn e) : (e == Err.ok) = false := by
  cases e <;> first | rfl | exact absurd (Or.inl rfl) h

/-- the states in which the loop body continues a header-specific value parser -/
def HState.isVal (st : HState) : Prop :=
  st = .hFrom ∨ st = .hTo ∨ st = .hCallID ∨ st = .hCSeq ∨ st = .hCLen ∨ st = .hContact ∨ st = .hExpires ∨ st = .hPAI

theorem hlStep_isVal (B : Buf) (i : Nat) (c : UInt8) (h : Hdr) (hb : Option PHdrVals) (hv : h.state.isVal) :
    hlStep B i c (h, hb) = hlCont B i h hb := by
  unfold hlStep
  simp only
  rcases hv with h1 | h1 | h1 | h1 | h1 | h1 | h1 | h1 <;> rw [h1]

/-- in a "continue the value parser" state, the value being parsed is not finished yet -/
def hvPending (st : HState) (hv : PHdrVals) : Prop :=
  (st = .hFrom → hv.from_.state ≠ .fin) ∧ (st = .hTo → hv.to.state ≠ .fin) ∧
  (st = .hCallID → hv.callid.state ≠ .fin) ∧ (st = .hCSeq → hv.cseq.state ≠ .fin) ∧
  (st = .hCLen → hv.clen.state ≠ .fin) ∧ (st = .hContact → hv.contacts.cur.state ≠ .fin) ∧
  (st = .hExpires → hv.expires.state ≠ .fin) ∧ (st = .hPAI → hv.pais.cur.state ≠ .fin)

def hlPending (st : HLσ) : Prop :=
  match st.2 with
  | none => True
  | some hv => hvPending st.1.state hv

theorem hlPending_of_not_isVal {h : Hdr} {hb : Option PHdrVals} (hn : ¬ h.state.isVal) : hlPending (h, hb) := by
  unfold hlPending
  cases hb with
  | none => trivial
  | some hv =>
    simp only
    refine ⟨?_, ?_, ?_, ?_, ?_, ?_, ?_, ?_⟩ <;> intro hh <;> exfalso <;> apply hn <;> simp [HState.isVal, hh]

/-- restart of a header-specific value parser that was suspended inside `case hFrom:` … `case hPAI:` -/
theorem hlCont_restart (b s : Buf) (i : Nat) (h : Hdr) (hb : Option PHdrVals) (hi : i ≤ b.size)
    (hok : hbOK b i hb) {n : Nat} {h2 : Hdr} {hb2 : Option PHdrVals}
    (hs : hlCont b i h hb = .done n .moreBytes (h2, hb2)) :
    (∃ rC rO : Nat × Err × HLσ, hlCont (b ++ s) n h2 hb2 = .done rC.1 rC.2.1 rC.2.2 ∧
      hlCont (b ++ s) i h hb = .done rO.1 rO.2.1 rO.2.2 ∧ RR hlObs rC rO) ∧
    hbOK (b ++ s) n hb2 ∧ i ≤ n ∧ n ≤ b.size ∧ h2 = h ∧ hlPending (h2, hb2) := by
  unfold hlCont at hs
  cases hb with
  | none => cases hs
  | some hv =>
    obtain ⟨ok1, ok2, ok3, ok4, ok5⟩ := hok
    simp only at hs
    cases hst : h.state <;> simp only [hst] at hs
    case hFrom =>
      rcases hq : parseFromVal b i hv.from_ with ⟨n1, e1, f1⟩
      rw [hq] at hs
      simp only [Step.done.injEq, Prod.mk.injEq] at hs
      obtain ⟨rfl, rfl, hh2, rfl⟩ := hs
      simp only [Bool.false_eq_true, ↓reduceIte, show (Err.moreBytes == Err.ok) = false from rfl] at hh2
      subst hh2
      obtain ⟨hrr, hokN, hnf⟩ := parseNameAddrPVal_resumeR HdrFrom b s i hv.from_ ok1 hq
      have hrg := parseNameAddrPVal_more_range HdrFrom b i hv.from_ ok1 hq
      have hk1 : i ≤ n1 := hrg.1
      have hk2 : n1 ≤ (b ++ s).size := by rw [Array.size_append]; omega
      refine ⟨?_, ⟨hokN, naOK_mono (naOK_grows s ok2) hk1 hk2, csOK_mono (csOK_grows s ok3) hk1 hk2, ctOK_mono (ctOK_grows s ok4) hk1 hk2, paOK_mono (paOK_grows s ok5) hk1 hk2⟩, hrg.1, hrg.2, rfl, (by
        refine ⟨?_, ?_, ?_, ?_, ?_, ?_, ?_, ?_⟩ <;> intro hh <;>
          first | exact hnf | (rw [hst] at hh; cases hh))⟩
      have hasm := RR.assemble hrr
        (fun e f => ((if e == .ok then { h with val := f.v, state := .fin } else h), some { hv with from_ := f }))
        (by
          intro e f f' hff hng
          simp only [hlObs, not_goesOn_ne_ok hng, Bool.false_eq_true, ↓reduceIte, Option.map_some, PHdrVals.obs]
          first | rfl | (rw [hff]) | (simp only at hff; rw [hff]))
      refine ⟨_, _, ?_, ?_, hasm⟩
      · unfold hlCont; simp only [hst]; try rfl
      · unfold hlCont; simp only [hst]; try rfl
    case hTo =>
      rcases hq : parseNameAddrPVal HdrTo b i hv.to with ⟨n1, e1, f1⟩
      rw [hq] at hs
      simp only [Step.done.injEq, Prod.mk.injEq] at hs
      obtain ⟨rfl, rfl, hh2, rfl⟩ := hs
      simp only [Bool.false_eq_true, ↓reduceIte, show (Err.moreBytes == Err.ok) = false from rfl] at hh2
      subst hh2
      obtain ⟨hrr, hokN, hnf⟩ := parseNameAddrPVal_resumeR HdrTo b s i hv.to ok2 hq
      have hrg := parseNameAddrPVal_more_range HdrTo b i hv.to ok2 hq
      have hk1 : i ≤ n1 := hrg.1
      have hk2 : n1 ≤ (b ++ s).size := by rw [Array.size_append]; omega
      refine ⟨?_, ⟨naOK_mono (naOK_grows s ok1) hk1 hk2, hokN, csOK_mono (csOK_grows s ok3) hk1 hk2, ctOK_mono (ctOK_grows s ok4) hk1 hk2, paOK_mono (paOK_grows s ok5) hk1 hk2⟩, hrg.1, hrg.2, rfl, (by
        refine ⟨?_, ?_, ?_, ?_, ?_, ?_, ?_, ?_⟩ <;> intro hh <;>
          first | exact hnf | (rw [hst] at hh; cases hh))⟩
      have hasm := RR.assemble hrr
        (fun e f => ((if e == .ok then { h with val := f.v, state := .fin } else h), some { hv with to := f }))
        (by
          intro e f f' hff hng
          simp only [hlObs, not_goesOn_ne_ok hng, Bool.false_eq_true, ↓reduceIte, Option.map_some, PHdrVals.obs]
          first | rfl | (rw [hff]) | (simp only at hff; rw [hff]))
      refine ⟨_, _, ?_, ?_, hasm⟩
      · unfold hlCont; simp only [hst]; try rfl
      · unfold hlCont; simp only [hst]; try rfl
    case hCallID =>
      rcases hq : parseCallIDVal b i hv.callid with ⟨n1, e1, f1⟩
      rw [hq] at hs
      simp only [Step.done.injEq, Prod.mk.injEq] at hs
      obtain ⟨rfl, rfl, hh2, rfl⟩ := hs
      simp only [Bool.false_eq_true, ↓reduceIte, show (Err.moreBytes == Err.ok) = false from rfl] at hh2
      subst hh2
      have hrr : RR (fun x : PCallIDBody => x) (parseCallIDVal (b ++ s) n1 f1) (parseCallIDVal (b ++ s) i hv.callid) :=
        RR.ofEq (parseCallIDVal_resume b s i hv.callid hq)
      have hnf := parseCallIDVal_more_notfin b i hv.callid hq
      have hrg : i ≤ n1 ∧ n1 ≤ b.size := by
        have := parseCallIDVal_range b i hv.callid hi; rw [hq] at this; exact this
      have hk1 : i ≤ n1 := hrg.1
      have hk2 : n1 ≤ (b ++ s).size := by rw [Array.size_append]; omega
      refine ⟨?_, ⟨naOK_mono (naOK_grows s ok1) hk1 hk2, naOK_mono (naOK_grows s ok2) hk1 hk2, csOK_mono (csOK_grows s ok3) hk1 hk2, ctOK_mono (ctOK_grows s ok4) hk1 hk2, paOK_mono (paOK_grows s ok5) hk1 hk2⟩, hrg.1, hrg.2, rfl, (by
        refine ⟨?_, ?_, ?_, ?_, ?_, ?_, ?_, ?_⟩ <;> intro hh <;>
          first | exact hnf | (rw [hst] at hh; cases hh))⟩
      have hasm := RR.assemble hrr
        (fun e f => ((if e == .ok then { h with val := f.callID, state := .fin } else h), some { hv with callid := f }))
        (by
          intro e f f' hff hng
          simp only [hlObs, not_goesOn_ne_ok hng, Bool.false_eq_true, ↓reduceIte, Option.map_some, PHdrVals.obs]
          first | rfl | (rw [hff]) | (simp only at hff; rw [hff]))
      refine ⟨_, _, ?_, ?_, hasm⟩
      · unfold hlCont; simp only [hst]; try rfl
      · unfold hlCont; simp only [hst]; try rfl
    case hCSeq =>
      rcases hq : parseCSeqVal b i hv.cseq with ⟨n1, e1, f1⟩
      rw [hq] at hs
      simp only [Step.done.injEq, Prod.mk.injEq] at hs
      obtain ⟨rfl, rfl, hh2, rfl⟩ := hs
      simp only [Bool.false_eq_true, ↓reduceIte, show (Err.moreBytes == Err.ok) = false from rfl] at hh2
      subst hh2
      obtain ⟨hex, hokN⟩ := parseCSeqVal_resume b s i hv.cseq ok3 hq
      have hrr : RR (fun x : PCSeqBody => x) (parseCSeqVal (b ++ s) n1 f1) (parseCSeqVal (b ++ s) i hv.cseq) :=
        RR.ofEq hex
      have hrg := parseCSeqVal_more_range b i hv.cseq ok3 hq
      have hnf := parseCSeqVal_more_notfin b i hv.cseq ok3 hq
      have hk1 : i ≤ n1 := hrg.1
      have hk2 : n1 ≤ (b ++ s).size := by rw [Array.size_append]; omega
      refine ⟨?_, ⟨naOK_mono (naOK_grows s ok1) hk1 hk2, naOK_mono (naOK_grows s ok2) hk1 hk2, hokN, ctOK_mono (ctOK_grows s ok4) hk1 hk2, paOK_mono (paOK_grows s ok5) hk1 hk2⟩, hrg.1, hrg.2, rfl, (by
        refine ⟨?_, ?_, ?_, ?_, ?_, ?_, ?_, ?_⟩ <;> intro hh <;>
          first | exact hnf | (rw [hst] at hh; cases hh))⟩
      have hasm := RR.assemble hrr
        (fun e f => ((if e == .ok then { h with val := f.v, state := .fin } else h), some { hv with cseq := f }))
        (by
          intro e f f' hff hng
          simp only [hlObs, not_goesOn_ne_ok hng, Bool.false_eq_true, ↓reduceIte, Option.map_some, PHdrVals.obs]
          first | rfl | (rw [hff]) | (simp only at hff; rw [hff]))
      refine ⟨_, _, ?_, ?_, hasm⟩
      · unfold hlCont; simp only [hst]; try rfl
      · unfold hlCont; simp only [hst]; try rfl
    case hCLen =>
      rcases hq : parseCLenVal b i hv.clen with ⟨n1, e1, f1⟩
      rw [hq] at hs
      simp only [Step.done.injEq, Prod.mk.injEq] at hs
      obtain ⟨rfl, rfl, hh2, rfl⟩ := hs
      simp only [Bool.false_eq_true, ↓reduceIte, show (Err.moreBytes == Err.ok) = false from rfl] at hh2
      subst hh2
      have hrr : RR (fun x : PUIntBody => x) (parseCLenVal (b ++ s) n1 f1) (parseCLenVal (b ++ s) i hv.clen) :=
        RR.ofEq (parseCLenVal_resume b s i hv.clen hq)
      have hrg := parseCLenVal_more_range b i hv.clen hi hq
      have hnf := parseCLenVal_more_notfin b i hv.clen hq
      have hk1 : i ≤ n1 := hrg.1
      have hk2 : n1 ≤ (b ++ s).size := by rw [Array.size_append]; omega
      refine ⟨?_, ⟨naOK_mono (naOK_grows s ok1) hk1 hk2, naOK_mono (naOK_grows s ok2) hk1 hk2, csOK_mono (csOK_grows s ok3) hk1 hk2, ctOK_mono (ctOK_grows s ok4) hk1 hk2, paOK_mono (paOK_grows s ok5) hk1 hk2⟩, hrg.1, hrg.2, rfl, (by
        refine ⟨?_, ?_, ?_, ?_, ?_, ?_, ?_, ?_⟩ <;> intro hh <;>
          first | exact hnf | (rw [hst] at hh; cases hh))⟩
      have hasm := RR.assemble hrr
        (fun e f => ((if e == .ok then { h with val := f.sVal, state := .fin } else h), some { hv with clen := f }))
        (by
          intro e f f' hff hng
          simp only [hlObs, not_goesOn_ne_ok hng, Bool.false_eq_true, ↓reduceIte, Option.map_some, PHdrVals.obs]
          first | rfl | (rw [hff]) | (simp only at hff; rw [hff]))
      refine ⟨_, _, ?_, ?_, hasm⟩
      · unfold hlCont; simp only [hst]; try rfl
      · unfold hlCont; simp only [hst]; try rfl
    case hContact =>
      rcases hq : parseAllContactValues b i hv.contacts with ⟨n1, e1, f1⟩
      rw [hq] at hs
      simp only [Step.done.injEq, Prod.mk.injEq] at hs
      obtain ⟨rfl, rfl, hh2, rfl⟩ := hs
      simp only [Bool.false_eq_true, ↓reduceIte, show (Err.moreBytes == Err.ok) = false from rfl] at hh2
      subst hh2
      obtain ⟨hrr, hokN, hnf, hrg⟩ := parseAllContactValues_resume b s i hv.contacts ok4 hi hq
      have hk1 : i ≤ n1 := hrg.1
      have hk2 : n1 ≤ (b ++ s).size := by rw [Array.size_append]; omega
      refine ⟨?_, ⟨naOK_mono (naOK_grows s ok1) hk1 hk2, naOK_mono (naOK_grows s ok2) hk1 hk2, csOK_mono (csOK_grows s ok3) hk1 hk2, hokN, paOK_mono (paOK_grows s ok5) hk1 hk2⟩, hrg.1, hrg.2, rfl, (by
        refine ⟨?_, ?_, ?_, ?_, ?_, ?_, ?_, ?_⟩ <;> intro hh <;>
          first | exact hnf | (rw [hst] at hh; cases hh))⟩
      have hasm := RR.assemble hrr
        (fun e f => ((if e == .ok then { h with val := f.lastHVal, state := .fin } else h), some { hv with contacts := f }))
        (by
          intro e f f' hff hng
          simp only [hlObs, not_goesOn_ne_ok hng, Bool.false_eq_true, ↓reduceIte, Option.map_some, PHdrVals.obs]
          first | rfl | (rw [hff]) | (simp only at hff; rw [hff]))
      refine ⟨_, _, ?_, ?_, hasm⟩
      · unfold hlCont; simp only [hst]; try rfl
      · unfold hlCont; simp only [hst]; try rfl
    case hExpires =>
      rcases hq : parseUIntVal b i hv.expires with ⟨n1, e1, f1⟩
      rw [hq] at hs
      simp only [Step.done.injEq, Prod.mk.injEq] at hs
      obtain ⟨rfl, rfl, hh2, rfl⟩ := hs
      simp only [Bool.false_eq_true, ↓reduceIte, show (Err.moreBytes == Err.ok) = false from rfl] at hh2
      subst hh2
      have hrr : RR (fun x : PUIntBody => x) (parseUIntVal (b ++ s) n1 f1) (parseUIntVal (b ++ s) i hv.expires) :=
        RR.ofEq (parseUIntVal_resume b s i hv.expires hq)
      have hnf := parseUIntVal_more_notfin b i hv.expires hq
      have hrg : i ≤ n1 ∧ n1 ≤ b.size := by
        have := parseUIntVal_range b i hv.expires hi; rw [hq] at this; exact this
      have hk1 : i ≤ n1 := hrg.1
      have hk2 : n1 ≤ (b ++ s).size := by rw [Array.size_append]; omega
      refine ⟨?_, ⟨naOK_mono (naOK_grows s ok1) hk1 hk2, naOK_mono (naOK_grows s ok2) hk1 hk2, csOK_mono (csOK_grows s ok3) hk1 hk2, ctOK_mono (ctOK_grows s ok4) hk1 hk2, paOK_mono (paOK_grows s ok5) hk1 hk2⟩, hrg.1, hrg.2, rfl, (by
        refine ⟨?_, ?_, ?_, ?_, ?_, ?_, ?_, ?_⟩ <;> intro hh <;>
          first | exact hnf | (rw [hst] at hh; cases hh))⟩
      have hasm := RR.assemble hrr
        (fun e f => ((if e == .ok then { h with val := f.sVal, state := .fin } else h), some { hv with expires := f }))
        (by
          intro e f f' hff hng
          simp only [hlObs, not_goesOn_ne_ok hng, Bool.false_eq_true, ↓reduceIte, Option.map_some, PHdrVals.obs]
          first | rfl | (rw [hff]) | (simp only at hff; rw [hff]))
      refine ⟨_, _, ?_, ?_, hasm⟩
      · unfold hlCont; simp only [hst]; try rfl
      · unfold hlCont; simp only [hst]; try rfl
    case hPAI =>
      rcases hq : parseAllPAIValues b i hv.pais with ⟨n1, e1, f1⟩
      rw [hq] at hs
      simp only [Step.done.injEq, Prod.mk.injEq] at hs
      obtain ⟨rfl, rfl, hh2, rfl⟩ := hs
      simp only [Bool.false_eq_true, ↓reduceIte, show (Err.moreBytes == Err.ok) = false from rfl] at hh2
      subst hh2
      obtain ⟨hrr, hokN, hnf, hrg⟩ := parseAllPAIValues_resume b s i hv.pais ok5 hi hq
      have hk1 : i ≤ n1 := hrg.1
      have hk2 : n1 ≤ (b ++ s).size := by rw [Array.size_append]; omega
      refine ⟨?_, ⟨naOK_mono (naOK_grows s ok1) hk1 hk2, naOK_mono (naOK_grows s ok2) hk1 hk2, csOK_mono (csOK_grows s ok3) hk1 hk2, ctOK_mono (ctOK_grows s ok4) hk1 hk2, hokN⟩, hrg.1, hrg.2, rfl, (by
        refine ⟨?_, ?_, ?_, ?_, ?_, ?_, ?_, ?_⟩ <;> intro hh <;>
          first | exact hnf | (rw [hst] at hh; cases hh))⟩
      have hasm := RR.assemble hrr
        (fun e f => ((if e == .ok then { h with val := f.lastHVal, state := .fin } else h), some { hv with pais := f }))
        (by
          intro e f f' hff hng
          simp only [hlObs, not_goesOn_ne_ok hng, Bool.false_eq_true, ↓reduceIte, Option.map_some, PHdrVals.obs]
          first | rfl | (rw [hff]) | (simp only at hff; rw [hff]))
      refine ⟨_, _, ?_, ?_, hasm⟩
      · unfold hlCont; simp only [hst]; try rfl
      · unfold hlCont; simp only [hst]; try rfl
    all_goals cases hs

/-- restart after the header-value dispatch suspended: the continuation state re-enters the same value parser -/
theorem parseBody_restart (b s : Buf) (i : Nat) (h : Hdr) (hb : Option PHdrVals) (hi : i ≤ b.size)
    (hok : hbOK b i hb) {n : Nat} {h2 : Hdr} {hb2 : Option PHdrVals}
    (hr : parseBody b i h hb = (n, .moreBytes, h2, hb2)) :
    (∃ rC : Nat × Err × HLσ, ∃ pB : Nat × Err × Hdr × Option PHdrVals,
      hlCont (b ++ s) n h2 hb2 = .done rC.1 rC.2.1 rC.2.2 ∧ parseBody (b ++ s) i h hb = pB ∧
      pB.2.2.1.state ≠ .bodyStart ∧
      RR hlObs rC (pB.1, pB.2.1, ((if pB.2.1 == .ok then { pB.2.2.1 with state := .fin } else pB.2.2.1), pB.2.2.2))) ∧
    hbOK (b ++ s) n hb2 ∧ i ≤ n ∧ n ≤ b.size ∧ h2.name = h.name ∧ h2.state.isVal ∧ hlPending (h2, hb2) := by
  unfold parseBody parseFromVal at hr
  cases hb with
  | none => simp only [Prod.mk.injEq] at hr; exact absurd hr.2.1 (by decide)
  | some hv =>
  obtain ⟨ok1, ok2, ok3, ok4, ok5⟩ := hok
  simp only at hr
  by_cases h_from_ : (h.type == HdrFrom) = true
  · simp only [h_from_, ↓reduceIte] at hr
    by_cases hp : (!hv.from_.parsed) = true
    · simp only [hp, ↓reduceIte] at hr
      rcases hq : parseNameAddrPVal HdrFrom b i hv.from_ with ⟨n1, e1, f1⟩
      rw [hq] at hr
      simp only [Prod.mk.injEq] at hr
      obtain ⟨rfl, rfl, hh2, rfl⟩ := hr
      simp only [Bool.false_eq_true, ↓reduceIte, show (Err.moreBytes == Err.ok) = false from rfl] at hh2
      subst hh2
      obtain ⟨hrr, hokN, hnf⟩ := parseNameAddrPVal_resumeR HdrFrom b s i hv.from_ ok1 hq
      have hrg := parseNameAddrPVal_more_range HdrFrom b i hv.from_ ok1 hq
      have hk1 : i ≤ n1 := hrg.1
      have hk2 : n1 ≤ (b ++ s).size := by rw [Array.size_append]; omega
      refine ⟨?_, ⟨hokN, naOK_mono (naOK_grows s ok2) hk1 hk2, csOK_mono (csOK_grows s ok3) hk1 hk2, ctOK_mono (ctOK_grows s ok4) hk1 hk2, paOK_mono (paOK_grows s ok5) hk1 hk2⟩, hrg.1, hrg.2, rfl, Or.inl rfl, (by
        refine ⟨?_, ?_, ?_, ?_, ?_, ?_, ?_, ?_⟩ <;> intro hh <;>
          first | exact hnf | (cases hh))⟩
      have hasm := RR.assemble hrr
        (fun e f => ((if e == .ok then { h with val := f.v, state := .fin } else { h with state := .hFrom }),
                     some { hv with from_ := f }))
        (by
          intro e f f' hff hng
          simp only [hlObs, not_goesOn_ne_ok hng, Bool.false_eq_true, ↓reduceIte, Option.map_some, PHdrVals.obs]
          first | rfl | (rw [hff]) | (simp only at hff; rw [hff]))
      refine ⟨((parseNameAddrPVal HdrFrom (b ++ s) n1 f1).1, (parseNameAddrPVal HdrFrom (b ++ s) n1 f1).2.1,
        (fun e f => ((if e == .ok then { h with val := f.v, state := .fin } else { h with state := .hFrom }),
                     some { hv with from_ := f })) (parseNameAddrPVal HdrFrom (b ++ s) n1 f1).2.1 (parseNameAddrPVal HdrFrom (b ++ s) n1 f1).2.2),
        parseBody (b ++ s) i h (some hv), ?hC, rfl, ?hS, ?hR⟩
      case hR =>
        unfold parseBody; try unfold parseFromVal
        simp only [Bool.false_eq_true, h_from_, hp, ↓reduceIte]
        refine RR.trans hasm (RR.of_eq ?_)
        try simp only
        rcases parseNameAddrPVal HdrFrom (b ++ s) i hv.from_ with ⟨n3, e3, f3⟩
        by_cases he3 : (e3 == Err.ok) = true
        · simp only [he3, ↓reduceIte]
        · simp only [he3, Bool.false_eq_true, ↓reduceIte]
      case hS =>
        unfold parseBody; try unfold parseFromVal
        simp only [Bool.false_eq_true, h_from_, hp, ↓reduceIte]
        intro hh; cases hh
      case hC => unfold hlCont; (try unfold parseFromVal); simp only; try rfl
    · simp only [hp, Bool.false_eq_true, ↓reduceIte, Prod.mk.injEq] at hr
      exact absurd hr.2.1 (by decide)
  simp only [h_from_, Bool.false_eq_true, ↓reduceIte] at hr
  by_cases h_to : (h.type == HdrTo) = true
  · simp only [h_to, ↓reduceIte] at hr
    by_cases hp : (!hv.to.parsed) = true
    · simp only [hp, ↓reduceIte] at hr
      rcases hq : parseNameAddrPVal HdrTo b i hv.to with ⟨n1, e1, f1⟩
      rw [hq] at hr
      simp only [Prod.mk.injEq] at hr
      obtain ⟨rfl, rfl, hh2, rfl⟩ := hr
      simp only [Bool.false_eq_true, ↓reduceIte, show (Err.moreBytes == Err.ok) = false from rfl] at hh2
      subst hh2
      obtain ⟨hrr, hokN, hnf⟩ := parseNameAddrPVal_resumeR HdrTo b s i hv.to ok2 hq
      have hrg := parseNameAddrPVal_more_range HdrTo b i hv.to ok2 hq
      have hk1 : i ≤ n1 := hrg.1
      have hk2 : n1 ≤ (b ++ s).size := by rw [Array.size_append]; omega
      refine ⟨?_, ⟨naOK_mono (naOK_grows s ok1) hk1 hk2, hokN, csOK_mono (csOK_grows s ok3) hk1 hk2, ctOK_mono (ctOK_grows s ok4) hk1 hk2, paOK_mono (paOK_grows s ok5) hk1 hk2⟩, hrg.1, hrg.2, rfl, Or.inr (Or.inl rfl), (by
        refine ⟨?_, ?_, ?_, ?_, ?_, ?_, ?_, ?_⟩ <;> intro hh <;>
          first | exact hnf | (cases hh))⟩
      have hasm := RR.assemble hrr
        (fun e f => ((if e == .ok then { h with val := f.v, state := .fin } else { h with state := .hTo }),
                     some { hv with to := f }))
        (by
          intro e f f' hff hng
          simp only [hlObs, not_goesOn_ne_ok hng, Bool.false_eq_true, ↓reduceIte, Option.map_some, PHdrVals.obs]
          first | rfl | (rw [hff]) | (simp only at hff; rw [hff]))
      refine ⟨((parseNameAddrPVal HdrTo (b ++ s) n1 f1).1, (parseNameAddrPVal HdrTo (b ++ s) n1 f1).2.1,
        (fun e f => ((if e == .ok then { h with val := f.v, state := .fin } else { h with state := .hTo }),
                     some { hv with to := f })) (parseNameAddrPVal HdrTo (b ++ s) n1 f1).2.1 (parseNameAddrPVal HdrTo (b ++ s) n1 f1).2.2),
        parseBody (b ++ s) i h (some hv), ?hC, rfl, ?hS, ?hR⟩
      case hR =>
        unfold parseBody; try unfold parseFromVal
        simp only [h_from_, Bool.false_eq_true, h_to, hp, ↓reduceIte]
        refine RR.trans hasm (RR.of_eq ?_)
        try simp only
        rcases parseNameAddrPVal HdrTo (b ++ s) i hv.to with ⟨n3, e3, f3⟩
        by_cases he3 : (e3 == Err.ok) = true
        · simp only [he3, ↓reduceIte]
        · simp only [he3, Bool.false_eq_true, ↓reduceIte]
      case hS =>
        unfold parseBody; try unfold parseFromVal
        simp only [h_from_, Bool.false_eq_true, h_to, hp, ↓reduceIte]
        intro hh; cases hh
      case hC => unfold hlCont; (try unfold parseFromVal); simp only; try rfl
    · simp only [hp, Bool.false_eq_true, ↓reduceIte, Prod.mk.injEq] at hr
      exact absurd hr.2.1 (by decide)
  simp only [h_to, Bool.false_eq_true, ↓reduceIte] at hr
  by_cases h_callid : (h.type == HdrCallID) = true
  · simp only [h_callid, ↓reduceIte] at hr
    by_cases hp : (!hv.callid.parsed) = true
    · simp only [hp, ↓reduceIte] at hr
      rcases hq : parseCallIDVal b i hv.callid with ⟨n1, e1, f1⟩
      rw [hq] at hr
      simp only [Prod.mk.injEq] at hr
      obtain ⟨rfl, rfl, hh2, rfl⟩ := hr
      simp only [Bool.false_eq_true, ↓reduceIte, show (Err.moreBytes == Err.ok) = false from rfl] at hh2
      subst hh2
      have hrr : RR (fun x : PCallIDBody => x) (parseCallIDVal (b ++ s) n1 f1) (parseCallIDVal (b ++ s) i hv.callid) :=
        RR.ofEq (parseCallIDVal_resume b s i hv.callid hq)
      have hnf := parseCallIDVal_more_notfin b i hv.callid hq
      have hrg : i ≤ n1 ∧ n1 ≤ b.size := by
        have := parseCallIDVal_range b i hv.callid hi; rw [hq] at this; exact this
      have hk1 : i ≤ n1 := hrg.1
      have hk2 : n1 ≤ (b ++ s).size := by rw [Array.size_append]; omega
      refine ⟨?_, ⟨naOK_mono (naOK_grows s ok1) hk1 hk2, naOK_mono (naOK_grows s ok2) hk1 hk2, csOK_mono (csOK_grows s ok3) hk1 hk2, ctOK_mono (ctOK_grows s ok4) hk1 hk2, paOK_mono (paOK_grows s ok5) hk1 hk2⟩, hrg.1, hrg.2, rfl, Or.inr (Or.inr (Or.inl rfl)), (by
        refine ⟨?_, ?_, ?_, ?_, ?_, ?_, ?_, ?_⟩ <;> intro hh <;>
          first | exact hnf | (cases hh))⟩
      have hasm := RR.assemble hrr
        (fun e f => ((if e == .ok then { h with val := f.callID, state := .fin } else { h with state := .hCallID }),
                     some { hv with callid := f }))
        (by
          intro e f f' hff hng
          simp only [hlObs, not_goesOn_ne_ok hng, Bool.false_eq_true, ↓reduceIte, Option.map_some, PHdrVals.obs]
          first | rfl | (rw [hff]) | (simp only at hff; rw [hff]))
      refine ⟨((parseCallIDVal (b ++ s) n1 f1).1, (parseCallIDVal (b ++ s) n1 f1).2.1,
        (fun e f => ((if e == .ok then { h with val := f.callID, state := .fin } else { h with state := .hCallID }),
                     some { hv with callid := f })) (parseCallIDVal (b ++ s) n1 f1).2.1 (parseCallIDVal (b ++ s) n1 f1).2.2),
        parseBody (b ++ s) i h (some hv), ?hC, rfl, ?hS, ?hR⟩
      case hR =>
        unfold parseBody; try unfold parseFromVal
        simp only [h_from_, h_to, Bool.false_eq_true, h_callid, hp, ↓reduceIte]
        refine RR.trans hasm (RR.of_eq ?_)
        try simp only
        rcases parseCallIDVal (b ++ s) i hv.callid with ⟨n3, e3, f3⟩
        by_cases he3 : (e3 == Err.ok) = true
        · simp only [he3, ↓reduceIte]
        · simp only [he3, Bool.false_eq_true, ↓reduceIte]
      case hS =>
        unfold parseBody; try unfold parseFromVal
        simp only [h_from_, h_to, Bool.false_eq_true, h_callid, hp, ↓reduceIte]
        intro hh; cases hh
      case hC => unfold hlCont; (try unfold parseFromVal); simp only; try rfl
    · simp only [hp, Bool.false_eq_true, ↓reduceIte, Prod.mk.injEq] at hr
      exact absurd hr.2.1 (by decide)
  simp only [h_callid, Bool.false_eq_true, ↓reduceIte] at hr
  by_cases h_cseq : (h.type == HdrCSeq) = true
  · simp only [h_cseq, ↓reduceIte] at hr
    by_cases hp : (!hv.cseq.parsed) = true
    · simp only [hp, ↓reduceIte] at hr
      rcases hq : parseCSeqVal b i hv.cseq with ⟨n1, e1, f1⟩
      rw [hq] at hr
      simp only [Prod.mk.injEq] at hr
      obtain ⟨rfl, rfl, hh2, rfl⟩ := hr
      simp only [Bool.false_eq_true, ↓reduceIte, show (Err.moreBytes == Err.ok) = false from rfl] at hh2
      subst hh2
      obtain ⟨hex, hokN⟩ := parseCSeqVal_resume b s i hv.cseq ok3 hq
      have hrr : RR (fun x : PCSeqBody => x) (parseCSeqVal (b ++ s) n1 f1) (parseCSeqVal (b ++ s) i hv.cseq) :=
        RR.ofEq hex
      have hrg := parseCSeqVal_more_range b i hv.cseq ok3 hq
      have hnf := parseCSeqVal_more_notfin b i hv.cseq ok3 hq
      have hk1 : i ≤ n1 := hrg.1
      have hk2 : n1 ≤ (b ++ s).size := by rw [Array.size_append]; omega
      refine ⟨?_, ⟨naOK_mono (naOK_grows s ok1) hk1 hk2, naOK_mono (naOK_grows s ok2) hk1 hk2, hokN, ctOK_mono (ctOK_grows s ok4) hk1 hk2, paOK_mono (paOK_grows s ok5) hk1 hk2⟩, hrg.1, hrg.2, rfl, Or.inr (Or.inr (Or.inr (Or.inl rfl))), (by
        refine ⟨?_, ?_, ?_, ?_, ?_, ?_, ?_, ?_⟩ <;> intro hh <;>
          first | exact hnf | (cases hh))⟩
      have hasm := RR.assemble hrr
        (fun e f => ((if e == .ok then { h with val := f.v, state := .fin } else { h with state := .hCSeq }),
                     some { hv with cseq := f }))
        (by
          intro e f f' hff hng
          simp only [hlObs, not_goesOn_ne_ok hng, Bool.false_eq_true, ↓reduceIte, Option.map_some, PHdrVals.obs]
          first | rfl | (rw [hff]) | (simp only at hff; rw [hff]))
      refine ⟨((parseCSeqVal (b ++ s) n1 f1).1, (parseCSeqVal (b ++ s) n1 f1).2.1,
        (fun e f => ((if e == .ok then { h with val := f.v, state := .fin } else { h with state := .hCSeq }),
                     some { hv with cseq := f })) (parseCSeqVal (b ++ s) n1 f1).2.1 (parseCSeqVal (b ++ s) n1 f1).2.2),
        parseBody (b ++ s) i h (some hv), ?hC, rfl, ?hS, ?hR⟩
      case hR =>
        unfold parseBody; try unfold parseFromVal
        simp only [h_from_, h_to, h_callid, Bool.false_eq_true, h_cseq, hp, ↓reduceIte]
        refine RR.trans hasm (RR.of_eq ?_)
        try simp only
        rcases parseCSeqVal (b ++ s) i hv.cseq with ⟨n3, e3, f3⟩
        by_cases he3 : (e3 == Err.ok) = true
        · simp only [he3, ↓reduceIte]
        · simp only [he3, Bool.false_eq_true, ↓reduceIte]
      case hS =>
        unfold parseBody; try unfold parseFromVal
        simp only [h_from_, h_to, h_callid, Bool.false_eq_true, h_cseq, hp, ↓reduceIte]
        intro hh; cases hh
      case hC => unfold hlCont; (try unfold parseFromVal); simp only; try rfl
    · simp only [hp, Bool.false_eq_true, ↓reduceIte, Prod.mk.injEq] at hr
      exact absurd hr.2.1 (by decide)
  simp only [h_cseq, Bool.false_eq_true, ↓reduceIte] at hr
  by_cases h_clen : (h.type == HdrCLen) = true
  · simp only [h_clen, ↓reduceIte] at hr
    by_cases hp : (!hv.clen.parsed) = true
    · simp only [hp, ↓reduceIte] at hr
      rcases hq : parseCLenVal b i hv.clen with ⟨n1, e1, f1⟩
      rw [hq] at hr
      simp only [Prod.mk.injEq] at hr
      obtain ⟨rfl, rfl, hh2, rfl⟩ := hr
      simp only [Bool.false_eq_true, ↓reduceIte, show (Err.moreBytes == Err.ok) = false from rfl] at hh2
      subst hh2
      have hrr : RR (fun x : PUIntBody => x) (parseCLenVal (b ++ s) n1 f1) (parseCLenVal (b ++ s) i hv.clen) :=
        RR.ofEq (parseCLenVal_resume b s i hv.clen hq)
      have hrg := parseCLenVal_more_range b i hv.clen hi hq
      have hnf := parseCLenVal_more_notfin b i hv.clen hq
      have hk1 : i ≤ n1 := hrg.1
      have hk2 : n1 ≤ (b ++ s).size := by rw [Array.size_append]; omega
      refine ⟨?_, ⟨naOK_mono (naOK_grows s ok1) hk1 hk2, naOK_mono (naOK_grows s ok2) hk1 hk2, csOK_mono (csOK_grows s ok3) hk1 hk2, ctOK_mono (ctOK_grows s ok4) hk1 hk2, paOK_mono (paOK_grows s ok5) hk1 hk2⟩, hrg.1, hrg.2, rfl, Or.inr (Or.inr (Or.inr (Or.inr (Or.inl rfl)))), (by
        refine ⟨?_, ?_, ?_, ?_, ?_, ?_, ?_, ?_⟩ <;> intro hh <;>
          first | exact hnf | (cases hh))⟩
      have hasm := RR.assemble hrr
        (fun e f => ((if e == .ok then { h with val := f.sVal, state := .fin } else { h with state := .hCLen }),
                     some { hv with clen := f }))
        (by
          intro e f f' hff hng
          simp only [hlObs, not_goesOn_ne_ok hng, Bool.false_eq_true, ↓reduceIte, Option.map_some, PHdrVals.obs]
          first | rfl | (rw [hff]) | (simp only at hff; rw [hff]))
      refine ⟨((parseCLenVal (b ++ s) n1 f1).1, (parseCLenVal (b ++ s) n1 f1).2.1,
        (fun e f => ((if e == .ok then { h with val := f.sVal, state := .fin } else { h with state := .hCLen }),
                     some { hv with clen := f })) (parseCLenVal (b ++ s) n1 f1).2.1 (parseCLenVal (b ++ s) n1 f1).2.2),
        parseBody (b ++ s) i h (some hv), ?hC, rfl, ?hS, ?hR⟩
      case hR =>
        unfold parseBody; try unfold parseFromVal
        simp only [h_from_, h_to, h_callid, h_cseq, Bool.false_eq_true, h_clen, hp, ↓reduceIte]
        refine RR.trans hasm (RR.of_eq ?_)
        try simp only
        rcases parseCLenVal (b ++ s) i hv.clen with ⟨n3, e3, f3⟩
        by_cases he3 : (e3 == Err.ok) = true
        · simp only [he3, ↓reduceIte]
        · simp only [he3, Bool.false_eq_true, ↓reduceIte]
      case hS =>
        unfold parseBody; try unfold parseFromVal
        simp only [h_from_, h_to, h_callid, h_cseq, Bool.false_eq_true, h_clen, hp, ↓reduceIte]
        intro hh; cases hh
      case hC => unfold hlCont; (try unfold parseFromVal); simp only; try rfl
    · simp only [hp, Bool.false_eq_true, ↓reduceIte, Prod.mk.injEq] at hr
      exact absurd hr.2.1 (by decide)
  simp only [h_clen, Bool.false_eq_true, ↓reduceIte] at hr
  by_cases h_contacts : (h.type == HdrContact) = true
  · simp only [h_contacts, ↓reduceIte] at hr
    · rcases hq : parseAllContactValues b i (if h.state != .hContact then { hv.contacts with hNo := hv.contacts.hNo + 1, lastHVal := {} } else hv.contacts) with ⟨n1, e1, f1⟩
      rw [hq] at hr
      simp only [Prod.mk.injEq] at hr
      obtain ⟨rfl, rfl, hh2, rfl⟩ := hr
      simp only [Bool.false_eq_true, ↓reduceIte, show (Err.moreBytes == Err.ok) = false from rfl] at hh2
      subst hh2
      obtain ⟨hrr, hokN, hnf, hrg⟩ := parseAllContactValues_resume b s i _ (by split; exact ok4; exact ok4) hi hq
      have hk1 : i ≤ n1 := hrg.1
      have hk2 : n1 ≤ (b ++ s).size := by rw [Array.size_append]; omega
      refine ⟨?_, ⟨naOK_mono (naOK_grows s ok1) hk1 hk2, naOK_mono (naOK_grows s ok2) hk1 hk2, csOK_mono (csOK_grows s ok3) hk1 hk2, hokN, paOK_mono (paOK_grows s ok5) hk1 hk2⟩, hrg.1, hrg.2, rfl, Or.inr (Or.inr (Or.inr (Or.inr (Or.inr (Or.inl rfl))))), (by
        refine ⟨?_, ?_, ?_, ?_, ?_, ?_, ?_, ?_⟩ <;> intro hh <;>
          first | exact hnf | (cases hh))⟩
      have hasm := RR.assemble hrr
        (fun e f => ((if e == .ok then { h with val := f.lastHVal, state := .fin } else { h with state := .hContact }),
                     some { hv with contacts := f }))
        (by
          intro e f f' hff hng
          simp only [hlObs, not_goesOn_ne_ok hng, Bool.false_eq_true, ↓reduceIte, Option.map_some, PHdrVals.obs]
          first | rfl | (rw [hff]) | (simp only at hff; rw [hff]))
      refine ⟨((parseAllContactValues (b ++ s) n1 f1).1, (parseAllContactValues (b ++ s) n1 f1).2.1,
        (fun e f => ((if e == .ok then { h with val := f.lastHVal, state := .fin } else { h with state := .hContact }),
                     some { hv with contacts := f })) (parseAllContactValues (b ++ s) n1 f1).2.1 (parseAllContactValues (b ++ s) n1 f1).2.2),
        parseBody (b ++ s) i h (some hv), ?hC, rfl, ?hS, ?hR⟩
      case hR =>
        unfold parseBody; try unfold parseFromVal
        simp only [h_from_, h_to, h_callid, h_cseq, h_clen, Bool.false_eq_true, h_contacts, ↓reduceIte]
        refine RR.trans hasm (RR.of_eq ?_)
        try simp only
        rcases parseAllContactValues (b ++ s) i (if h.state != .hContact then { hv.contacts with hNo := hv.contacts.hNo + 1, lastHVal := {} } else hv.contacts) with ⟨n3, e3, f3⟩
        by_cases he3 : (e3 == Err.ok) = true
        · simp only [he3, ↓reduceIte]
        · simp only [he3, Bool.false_eq_true, ↓reduceIte]
      case hS =>
        unfold parseBody; try unfold parseFromVal
        simp only [h_from_, h_to, h_callid, h_cseq, h_clen, Bool.false_eq_true, h_contacts, ↓reduceIte]
        intro hh; cases hh
      case hC => unfold hlCont; (try unfold parseFromVal); simp only; try rfl
  simp only [h_contacts, Bool.false_eq_true, ↓reduceIte] at hr
  by_cases h_expires : (h.type == HdrExpires) = true
  · simp only [h_expires, ↓reduceIte] at hr
    by_cases hp : (!hv.expires.parsed) = true
    · simp only [hp, ↓reduceIte] at hr
      rcases hq : parseUIntVal b i hv.expires with ⟨n1, e1, f1⟩
      rw [hq] at hr
      simp only [Prod.mk.injEq] at hr
      obtain ⟨rfl, rfl, hh2, rfl⟩ := hr
      simp only [Bool.false_eq_true, ↓reduceIte, show (Err.moreBytes == Err.ok) = false from rfl] at hh2
      subst hh2
      have hrr : RR (fun x : PUIntBody => x) (parseUIntVal (b ++ s) n1 f1) (parseUIntVal (b ++ s) i hv.expires) :=
        RR.ofEq (parseUIntVal_resume b s i hv.expires hq)
      have hnf := parseUIntVal_more_notfin b i hv.expires hq
      have hrg : i ≤ n1 ∧ n1 ≤ b.size := by
        have := parseUIntVal_range b i hv.expires hi; rw [hq] at this; exact this
      have hk1 : i ≤ n1 := hrg.1
      have hk2 : n1 ≤ (b ++ s).size := by rw [Array.size_append]; omega
      refine ⟨?_, ⟨naOK_mono (naOK_grows s ok1) hk1 hk2, naOK_mono (naOK_grows s ok2) hk1 hk2, csOK_mono (csOK_grows s ok3) hk1 hk2, ctOK_mono (ctOK_grows s ok4) hk1 hk2, paOK_mono (paOK_grows s ok5) hk1 hk2⟩, hrg.1, hrg.2, rfl, Or.inr (Or.inr (Or.inr (Or.inr (Or.inr (Or.inr (Or.inl rfl)))))), (by
        refine ⟨?_, ?_, ?_, ?_, ?_, ?_, ?_, ?_⟩ <;> intro hh <;>
          first | exact hnf | (cases hh))⟩
      have hasm := RR.assemble hrr
        (fun e f => ((if e == .ok then { h with val := f.sVal, state := .fin } else { h with state := .hExpires }),
                     some { hv with expires := f }))
        (by
          intro e f f' hff hng
          simp only [hlObs, not_goesOn_ne_ok hng, Bool.false_eq_true, ↓reduceIte, Option.map_some, PHdrVals.obs]
          first | rfl | (rw [hff]) | (simp only at hff; rw [hff]))
      refine ⟨((parseUIntVal (b ++ s) n1 f1).1, (parseUIntVal (b ++ s) n1 f1).2.1,
        (fun e f => ((if e == .ok then { h with val := f.sVal, state := .fin } else { h with state := .hExpires }),
                     some { hv with expires := f })) (parseUIntVal (b ++ s) n1 f1).2.1 (parseUIntVal (b ++ s) n1 f1).2.2),
        parseBody (b ++ s) i h (some hv), ?hC, rfl, ?hS, ?hR⟩
      case hR =>
        unfold parseBody; try unfold parseFromVal
        simp only [h_from_, h_to, h_callid, h_cseq, h_clen, h_contacts, Bool.false_eq_true, h_expires, hp, ↓reduceIte]
        refine RR.trans hasm (RR.of_eq ?_)
        try simp only
        rcases parseUIntVal (b ++ s) i hv.expires with ⟨n3, e3, f3⟩
        by_cases he3 : (e3 == Err.ok) = true
        · simp only [he3, ↓reduceIte]
        · simp only [he3, Bool.false_eq_true, ↓reduceIte]
      case hS =>
        unfold parseBody; try unfold parseFromVal
        simp only [h_from_, h_to, h_callid, h_cseq, h_clen, h_contacts, Bool.false_eq_true, h_expires, hp, ↓reduceIte]
        intro hh; cases hh
      case hC => unfold hlCont; (try unfold parseFromVal); simp only; try rfl
    · simp only [hp, Bool.false_eq_true, ↓reduceIte, Prod.mk.injEq] at hr
      exact absurd hr.2.1 (by decide)
  simp only [h_expires, Bool.false_eq_true, ↓reduceIte] at hr
  by_cases h_pais : (h.type == HdrPAI) = true
  · simp only [h_pais, ↓reduceIte] at hr
    · rcases hq : parseAllPAIValues b i (if h.state != .hPAI then { hv.pais with hNo := hv.pais.hNo + 1, lastHVal := {} } else hv.pais) with ⟨n1, e1, f1⟩
      rw [hq] at hr
      simp only [Prod.mk.injEq] at hr
      obtain ⟨rfl, rfl, hh2, rfl⟩ := hr
      simp only [Bool.false_eq_true, ↓reduceIte, show (Err.moreBytes == Err.ok) = false from rfl] at hh2
      subst hh2
      obtain ⟨hrr, hokN, hnf, hrg⟩ := parseAllPAIValues_resume b s i _ (by split; exact ok5; exact ok5) hi hq
      have hk1 : i ≤ n1 := hrg.1
      have hk2 : n1 ≤ (b ++ s).size := by rw [Array.size_append]; omega
      refine ⟨?_, ⟨naOK_mono (naOK_grows s ok1) hk1 hk2, naOK_mono (naOK_grows s ok2) hk1 hk2, csOK_mono (csOK_grows s ok3) hk1 hk2, ctOK_mono (ctOK_grows s ok4) hk1 hk2, hokN⟩, hrg.1, hrg.2, rfl, Or.inr (Or.inr (Or.inr (Or.inr (Or.inr (Or.inr (Or.inr rfl)))))), (by
        refine ⟨?_, ?_, ?_, ?_, ?_, ?_, ?_, ?_⟩ <;> intro hh <;>
          first | exact hnf | (cases hh))⟩
      have hasm := RR.assemble hrr
        (fun e f => ((if e == .ok then { h with val := f.lastHVal, state := .fin } else { h with state := .hPAI }),
                     some { hv with pais := f }))
        (by
          intro e f f' hff hng
          simp only [hlObs, not_goesOn_ne_ok hng, Bool.false_eq_true, ↓reduceIte, Option.map_some, PHdrVals.obs]
          first | rfl | (rw [hff]) | (simp only at hff; rw [hff]))
      refine ⟨((parseAllPAIValues (b ++ s) n1 f1).1, (parseAllPAIValues (b ++ s) n1 f1).2.1,
        (fun e f => ((if e == .ok then { h with val := f.lastHVal, state := .fin } else { h with state := .hPAI }),
                     some { hv with pais := f })) (parseAllPAIValues (b ++ s) n1 f1).2.1 (parseAllPAIValues (b ++ s) n1 f1).2.2),
        parseBody (b ++ s) i h (some hv), ?hC, rfl, ?hS, ?hR⟩
      case hR =>
        unfold parseBody; try unfold parseFromVal
        simp only [h_from_, h_to, h_callid, h_cseq, h_clen, h_contacts, h_expires, Bool.false_eq_true, h_pais, ↓reduceIte]
        refine RR.trans hasm (RR.of_eq ?_)
        try simp only
        rcases parseAllPAIValues (b ++ s) i (if h.state != .hPAI then { hv.pais with hNo := hv.pais.hNo + 1, lastHVal := {} } else hv.pais) with ⟨n3, e3, f3⟩
        by_cases he3 : (e3 == Err.ok) = true
        · simp only [he3, ↓reduceIte]
        · simp only [he3, Bool.false_eq_true, ↓reduceIte]
      case hS =>
        unfold parseBody; try unfold parseFromVal
        simp only [h_from_, h_to, h_callid, h_cseq, h_clen, h_contacts, h_expires, Bool.false_eq_true, h_pais, ↓reduceIte]
        intro hh; cases hh
      case hC => unfold hlCont; (try unfold parseFromVal); simp only; try rfl
  simp only [h_pais, Bool.false_eq_true, ↓reduceIte] at hr
  simp only [Prod.mk.injEq] at hr
  exact absurd hr.2.1 (by decide)

/-- restart after the code following the ':' suspended (inside a header-specific value parser) -/
theorem hlAfterColon_restart (b s : Buf) (k : Nat) (h : Hdr) (hb : Option PHdrVals) (hk : k ≤ b.size)
    (hn : h.name.endT ≤ b.size) (hok : hbOK b k hb) {n : Nat} {h2 : Hdr} {hb2 : Option PHdrVals}
    (hs : hlAfterColon b k h hb = .done n .moreBytes (h2, hb2)) :
    (∃ rC rO : Nat × Err × HLσ, hlCont (b ++ s) n h2 hb2 = .done rC.1 rC.2.1 rC.2.2 ∧
      hlAfterColon (b ++ s) k h hb = .done rO.1 rO.2.1 rO.2.2 ∧ RR hlObs rC rO) ∧
    hbOK (b ++ s) n hb2 ∧ k ≤ n ∧ n ≤ b.size ∧ h2.name = h.name ∧ h2.state.isVal ∧ hlPending (h2, hb2) := by
  unfold hlAfterColon at hs
  cases hnm : h.name.get? b with
  | none => rw [hnm] at hs; cases hs
  | some nm =>
    rw [hnm] at hs
    simp only at hs
    rcases hp : parseBody b k { h with type := getHdrType nm } hb with ⟨n', e', h2', hb2'⟩
    rw [hp] at hs
    simp only at hs
    split at hs
    · simp only [Step.done.injEq, Prod.mk.injEq] at hs
      obtain ⟨rfl, rfl, hh, rfl⟩ := hs
      simp only [Bool.false_eq_true, ↓reduceIte, show (Err.moreBytes == Err.ok) = false from rfl] at hh
      subst hh
      obtain ⟨⟨rC, pB, h1, h2, h3, h4⟩, f1, f2, f3, f4, f5, f6⟩ := parseBody_restart b s k _ hb hk hok hp
      refine ⟨⟨rC, _, h1, ?_, h4⟩, f1, f2, f3, f4, f5, f6⟩
      unfold hlAfterColon
      rw [PField.get?_app h.name b s hn, hnm]
      simp only
      rw [h2]
      obtain ⟨a1, a2, a3, a4⟩ := pB
      simp only at h3 ⊢
      have hc : (a3.state != HState.bodyStart) = true := by simpa using h3
      rw [if_pos hc]
    · cases hs

theorem runStep_shift {σ : Type} (m : Machine σ) (hp : Progress m) (B : Buf) (i o : Nat) (c' : UInt8) (st' : σ)
    (hB : B[o]? = some c') (hio : i ≤ o) :
    runStep m B o (m.step B o c' st') = runStep m B i (m.step B o c' st') := by
  cases hs : m.step B o c' st' with
  | done o1 e1 s1 => rfl
  | cont i' s1 =>
    have := hp B o c' st' i' s1 hB hs
    simp only [runStep, if_pos this, if_pos (show i < i' by omega)]

/-- what every suspension site of the loop body guarantees: the suspended offset is a valid restart point -/
def HlSite (b s : Buf) (i : Nat) (X : Step HLσ) (o : Nat) (st' : HLσ) : Prop :=
  i ≤ o ∧ o ≤ b.size ∧ hlInv (b ++ s) o st' ∧ hlPending st' ∧
  ∀ c', (b ++ s)[o]? = some c' →
    RR hlObs (runStep hlMachine (b ++ s) o (hlStep (b ++ s) o c' st')) (runStep hlMachine (b ++ s) i X)

theorem hlSite_of_eq {b s : Buf} {i o : Nat} {X : Step HLσ} {st' : HLσ} (h1 : i ≤ o) (h2 : o ≤ b.size)
    (h3 : hlInv (b ++ s) o st') (h3p : hlPending st')
    (h : ∀ c', (b ++ s)[o]? = some c' → hlStep (b ++ s) o c' st' = X) : HlSite b s i X o st' := by
  refine ⟨h1, h2, h3, h3p, fun c' hc => ?_⟩
  rw [← h c' hc]
  exact RR.of_eq (runStep_shift hlMachine hl_progress (b ++ s) i o c' st' hc h1)

theorem hlInv_grows {b : Buf} (s : Buf) {i : Nat} {st : HLσ} (h : hlInv b i st) : hlInv (b ++ s) i st :=
  ⟨by rw [Array.size_append]; have := h.1; omega, hdrOK_grows s h.2.1, hbOK_grows s h.2.2⟩

/-- the suspension sites reached through the code after the ':' -/
theorem hlAfterColon_site (b s : Buf) (i k : Nat) (h : Hdr) (hb : Option PHdrVals) (hik : i ≤ k) (hk : k ≤ b.size)
    (hd : hdrOK b h) (hok : hbOK b k hb) {o : Nat} {st' : HLσ}
    (hs : hlAfterColon b k h hb = .done o .moreBytes st') :
    HlSite b s i (hlAfterColon (b ++ s) k h hb) o st' := by
  obtain ⟨h2, hb2⟩ := st'
  obtain ⟨⟨rC, rO, e1, e2, hrr⟩, f1, f2, f3, f4, f5, f6⟩ := hlAfterColon_restart b s k h hb hk hd.2 hok hs
  refine ⟨by omega, f3, ⟨by rw [Array.size_append]; omega, ?_, f1⟩, f6, fun c' hc => ?_⟩
  · have := hdrOK_grows s hd
    exact ⟨by show h2.name.offs < 65536; rw [f4]; exact this.1, by show h2.name.endT ≤ _; rw [f4]; exact this.2⟩
  · rw [hlStep_isVal _ _ _ _ _ f5, e1, e2]
    exact hrr

/-- the suspension sites of `case hName:` -/
theorem hlName_site (b s : Buf) (i : Nat) (h : Hdr) (hb : Option PHdrVals) (hi : i ≤ b.size)
    (hst : h.state = .name) (hd : hdrOK b h) (hok : hbOK b i hb) {o : Nat} {st' : HLσ}
    (hs : hlName b i h hb = .done o .moreBytes st') :
    HlSite b s i (hlName (b ++ s) i h hb) o st' := by
  unfold hlName at hs
  have hge := skipTokenDelim_ge b i 58
  simp only at hs
  cases hj : b[skipTokenDelim b i 58]? with
  | none =>
    rw [hj] at hs
    simp only [Step.done.injEq, true_and] at hs
    obtain ⟨rfl, rfl⟩ := hs
    obtain ⟨hre, hsz⟩ := skipTokenDelim_restart b s i 58 hj hi
    refine hlSite_of_eq hge (by omega) (hlInv_grows s ⟨by omega, hd, hbOK_mono hok hge (by omega)⟩)
      (hlPending_of_not_isVal (by rw [hst]; simp [HState.isVal])) (fun c' hc => ?_)
    unfold hlStep; simp only [hst]
    unfold hlName; simp only [hre]
  | some c0 =>
    have hjl := get?_lt hj
    rw [hj] at hs
    simp only at hs
    split at hs
    · split at hs <;> cases hs
    · split at hs
      · split at hs
        · cases hs
        · rename_i hws h58 hem
          have := hlAfterColon_site b s i (skipTokenDelim b i 58 + 1)
            { h with state := .bodyStart, name := h.name.extend (skipTokenDelim b i 58),
                     pnc := h.pnc || h.name.extendPanics (skipTokenDelim b i 58) } hb (by omega) (by omega)
            ⟨hd.1, extend_endT_le h.name _ b.size hd.1 (by omega)⟩ (hbOK_mono hok (by omega) (by omega)) hs
          have heq : hlName (b ++ s) i h hb = hlAfterColon (b ++ s) (skipTokenDelim b i 58 + 1)
              { h with state := .bodyStart, name := h.name.extend (skipTokenDelim b i 58),
                       pnc := h.pnc || h.name.extendPanics (skipTokenDelim b i 58) } hb := by
            unfold hlName
            simp only [skipTokenDelim_stable b s i 58 hj, get?_app hj, hws, h58, hem, ↓reduceIte, Bool.false_eq_true]
          rw [heq]; exact this
      · cases hs

/-- the white-space site of `case hValEnd:` (also reached from `case hVal:`) -/
theorem hlValEnd_site (b s : Buf) (i j : Nat) (h : Hdr) (hb : Option PHdrVals) (hij : i ≤ j) (hj : j ≤ b.size)
    (hst : h.state = .valEnd) (hd : hdrOK b h) (hok : hbOK b j hb) {o : Nat} {st' : HLσ}
    (hs : hlValEnd b j h hb = .done o .moreBytes st') :
    HlSite b s i (hlValEnd (b ++ s) j h hb) o st' := by
  unfold hlValEnd at hs
  rcases hsk : skipLWS b j 0 with ⟨n, crl, e⟩
  rw [hsk] at hs
  have hrg := skipLWS_range b j 0 hsk
  cases e <;> simp only at hs <;> try (cases hs; done)
  simp only [Step.done.injEq, true_and] at hs
  obtain ⟨rfl, rfl⟩ := hs
  obtain ⟨hre, _⟩ := skipLWS_restart b s j 0 hsk (by decide)
  refine hlSite_of_eq (by omega) (hrg.2 hj) (hlInv_grows s ⟨hrg.2 hj, hd, hbOK_mono hok hrg.1 (hrg.2 hj)⟩)
    (hlPending_of_not_isVal (by rw [hst]; simp [HState.isVal])) (fun c' hc => ?_)
  unfold hlStep; simp only [hst]
  unfold hlValEnd; rw [hre]

/-- **every suspension of the loop body is at a valid restart point** -/
theorem hlStep_site (b s : Buf) (i : Nat) (c : UInt8) (st : HLσ) (hb : b[i]? = some c) (hI : hlInv b i st)
    {o : Nat} {st' : HLσ} (hs : hlStep b i c st = .done o .moreBytes st') :
    HlSite b s i (hlStep (b ++ s) i c st) o st' := by
  obtain ⟨h, hv⟩ := st
  obtain ⟨hi, hd, hok⟩ := hI
  have hd : hdrOK b h := hd
  have hok : hbOK b i hv := hok
  have hlt := get?_lt hb
  unfold hlStep at hs
  simp only at hs
  cases hst : h.state <;> rw [hst] at hs <;> simp only at hs
  case init =>
    by_cases h13 : (c == 13) = true
    · simp only [h13, ↓reduceIte] at hs
      cases h1 : b[i + 1]? with
      | none =>
        rw [h1] at hs
        simp only [Step.done.injEq, true_and] at hs
        obtain ⟨rfl, rfl⟩ := hs
        refine ⟨Nat.le_refl _, hi, hlInv_grows s ⟨hi, hd, hok⟩,
          hlPending_of_not_isVal (by rw [hst]; simp [HState.isVal]), fun c' hc => ?_⟩
        rw [get?_app hb] at hc; cases hc
        exact RR.refl _ _
      | some c1 => rw [h1] at hs; simp only at hs; split at hs <;> cases hs
    · simp only [h13, Bool.false_eq_true, ↓reduceIte] at hs
      by_cases h10 : (c == 10) = true
      · simp only [h10, ↓reduceIte] at hs; cases hs
      · simp only [h10, Bool.false_eq_true, ↓reduceIte] at hs
        have := hlName_site b s i _ hv hi rfl
          ⟨by unfold PField.set trunc16; exact Nat.mod_lt _ (by decide), set_endT_le i i b.size (Nat.le_refl _) hi⟩
          hok hs
        have heq : hlStep (b ++ s) i c (h, hv) =
            hlName (b ++ s) i { h with state := .name, name := PField.set i i } hv := by
          unfold hlStep; simp only [hst, h13, h10, Bool.false_eq_true, ↓reduceIte]
        rw [heq]; exact this
  case name =>
    have := hlName_site b s i h hv hi hst hd hok hs
    have heq : hlStep (b ++ s) i c (h, hv) = hlName (b ++ s) i h hv := by
      unfold hlStep; simp only [hst]
    rw [heq]; exact this
  case nameEnd =>
    have hge := skipWS_ge b i
    cases hj : b[skipWS b i]? with
    | none =>
      rw [hj] at hs
      simp only [Step.done.injEq, true_and] at hs
      obtain ⟨rfl, rfl⟩ := hs
      obtain ⟨hre, hsz⟩ := skipWS_restart b s i hj hi
      refine hlSite_of_eq hge (by omega) (hlInv_grows s ⟨by omega, hd, hbOK_mono hok hge (by omega)⟩)
        (hlPending_of_not_isVal (by rw [hst]; simp [HState.isVal])) (fun c' hc => ?_)
      unfold hlStep; simp only [hst, hre]
    | some c1 =>
      have hjl := get?_lt hj
      rw [hj] at hs
      simp only at hs
      split at hs
      · rename_i h58
        have := hlAfterColon_site b s i (skipWS b i + 1) _ hv (by omega) (by omega) (by exact hd)
          (hbOK_mono hok (by omega) (by omega)) hs
        have heq : hlStep (b ++ s) i c (h, hv) =
            hlAfterColon (b ++ s) (skipWS b i + 1) { h with state := .bodyStart } hv := by
          unfold hlStep; simp only [hst, skipWS_stable b s i hj, get?_app hj, h58, ↓reduceIte]
        rw [heq]; exact this
      · cases hs
  case bodyStart =>
    rcases hsk : skipLWS b i 0 with ⟨n, crl, e⟩
    rw [hsk] at hs
    have hrg := skipLWS_range b i 0 hsk
    cases e <;> simp only at hs <;> try (cases hs; done)
    simp only [Step.done.injEq, true_and] at hs
    obtain ⟨rfl, rfl⟩ := hs
    obtain ⟨hre, _⟩ := skipLWS_restart b s i 0 hsk (by decide)
    refine hlSite_of_eq hrg.1 (hrg.2 hi) (hlInv_grows s ⟨hrg.2 hi, hd, hbOK_mono hok hrg.1 (hrg.2 hi)⟩)
      (hlPending_of_not_isVal (by rw [hst]; simp [HState.isVal])) (fun c' hc => ?_)
    unfold hlStep; simp only [hst, hre]
  case val =>
    have hge := skipToken_ge b i
    cases hj : b[skipToken b i]? with
    | none =>
      rw [hj] at hs
      simp only [Step.done.injEq, true_and] at hs
      obtain ⟨rfl, rfl⟩ := hs
      obtain ⟨hre, hsz⟩ := skipToken_restart b s i hj hi
      refine hlSite_of_eq hge (by omega) (hlInv_grows s ⟨by omega, hd, hbOK_mono hok hge (by omega)⟩)
        (hlPending_of_not_isVal (by rw [hst]; simp [HState.isVal])) (fun c' hc => ?_)
      unfold hlStep; simp only [hst, hre]
    | some c1 =>
      have hjl := get?_lt hj
      rw [hj] at hs
      simp only at hs
      have := hlValEnd_site b s i (skipToken b i) _ hv hge (by omega) rfl (by exact hd)
        (hbOK_mono hok hge (by omega)) hs
      have heq : hlStep (b ++ s) i c (h, hv) = hlValEnd (b ++ s) (skipToken b i)
          { h with val := h.val.extend (skipToken b i), pnc := h.pnc || h.val.extendPanics (skipToken b i),
                   state := .valEnd } hv := by
        unfold hlStep; simp only [hst, skipToken_stable b s i hj, get?_app hj]
      rw [heq]; exact this
  case valEnd =>
    have := hlValEnd_site b s i i h hv (Nat.le_refl _) hi hst hd hok hs
    have heq : hlStep (b ++ s) i c (h, hv) = hlValEnd (b ++ s) i h hv := by
      unfold hlStep; simp only [hst]
    rw [heq]; exact this
  case fin => cases hs
  all_goals
    (obtain ⟨h2, hb2⟩ := st'
     have hiv : h.state.isVal := by rw [hst]; simp [HState.isVal]
     have hs' : hlCont b i h hv = .done o .moreBytes (h2, hb2) := by
       rw [← hlStep_isVal b i c h hv hiv]; unfold hlStep; simp only [hst]; exact hs
     obtain ⟨⟨rC, rO, e1, e2, hrr⟩, f1, f2, f3, f4, f5⟩ := hlCont_restart b s i h hv hi hok hs'
     subst f4
     refine ⟨f2, f3, ⟨by rw [Array.size_append]; omega, hdrOK_grows s hd, f1⟩, f5, fun c' hc => ?_⟩
     rw [hlStep_isVal _ _ _ _ _ hiv, hlStep_isVal _ _ _ _ _ hiv, e1, e2]
     exact hrr)

theorem hl_stepRestart (b s : Buf) :
    ∀ i c st o st', b[i]? = some c → hlInv b i st → hlMachine.step b i c st = .done o .moreBytes st' →
      RR hlObs (runLoop hlMachine (b ++ s) o st') (runLoop hlMachine (b ++ s) i st) := by
  intro i c st o st' hb hI hs
  change hlStep b i c st = .done o .moreBytes st' at hs
  obtain ⟨h1, h2, _, _, h4⟩ := hlStep_site b s i c st hb hI hs
  cases hB : (b ++ s)[o]? with
  | none =>
    -- nothing was appended: the extended buffer is the old one
    have hsz := get?_none_ge hB
    rw [Array.size_append] at hsz
    have hs0 : s = #[] := Array.eq_empty_of_size_eq_zero (by omega)
    subst hs0
    simp only [Array.append_empty] at hB ⊢
    rw [runLoop_none hlMachine st' hB, runLoop_done hlMachine hb hs]
    exact RR.refl _ _
  | some c' =>
    rw [runLoop_eq_runStep hlMachine st' hB, runLoop_eq_runStep hlMachine st (get?_app hb)]
    exact h4 c' hB

/-- continuing steps never enter a "continue the value parser" state (only suspensions do) -/
theorem hlAfterColon_cont_state (b : Buf) (j : Nat) (h : Hdr) (hb : Option PHdrVals) {i' : Nat} {st' : HLσ}
    (hs : hlAfterColon b j h hb = .cont i' st') : st'.1.state = .bodyStart := by
  unfold hlAfterColon at hs
  split at hs
  · cases hs
  · simp only at hs
    split at hs
    · cases hs
    · rename_i hst; cases hs; simpa using hst

theorem hlValEnd_cont_state (b : Buf) (j : Nat) (h : Hdr) (hb : Option PHdrVals) {i' : Nat} {st' : HLσ}
    (hs : hlValEnd b j h hb = .cont i' st') : st'.1.state = .val := by
  unfold hlValEnd at hs
  rcases hsk : skipLWS b j 0 with ⟨n, crl, e⟩
  rw [hsk] at hs
  cases e <;> simp only at hs <;> cases hs
  rfl

theorem hlName_cont_state (b : Buf) (i : Nat) (h : Hdr) (hb : Option PHdrVals) {i' : Nat} {st' : HLσ}
    (hs : hlName b i h hb = .cont i' st') : st'.1.state = .bodyStart ∨ st'.1.state = .nameEnd := by
  unfold hlName at hs
  simp only at hs
  split at hs
  · cases hs
  · split at hs
    · split at hs
      · cases hs
      · cases hs; exact Or.inr rfl
    · split at hs
      · split at hs
        · cases hs
        · exact Or.inl (hlAfterColon_cont_state _ _ _ _ hs)
      · cases hs

theorem hl_cont_not_isVal (b : Buf) (i : Nat) (c : UInt8) (st : HLσ) {i' : Nat} {st' : HLσ}
    (hs : hlStep b i c st = .cont i' st') : ¬ st'.1.state.isVal := by
  obtain ⟨h, hv⟩ := st
  have key : st'.1.state = .bodyStart ∨ st'.1.state = .nameEnd ∨ st'.1.state = .val := by
    unfold hlStep at hs
    simp only at hs
    cases hst : h.state <;> rw [hst] at hs <;> simp only at hs
    case init =>
      split at hs
      · split at hs
        · cases hs
        · split at hs <;> cases hs
      · split at hs
        · cases hs
        · rcases hlName_cont_state _ _ _ _ hs with h1 | h1
          · exact Or.inl h1
          · exact Or.inr (Or.inl h1)
    case name =>
      rcases hlName_cont_state _ _ _ _ hs with h1 | h1
      · exact Or.inl h1
      · exact Or.inr (Or.inl h1)
    case nameEnd =>
      split at hs
      · cases hs
      · split at hs
        · exact Or.inl (hlAfterColon_cont_state _ _ _ _ hs)
        · cases hs
    case bodyStart =>
      rcases hsk : skipLWS b i 0 with ⟨n, crl, e⟩
      rw [hsk] at hs
      cases e <;> simp only at hs <;> cases hs
      exact Or.inr (Or.inr rfl)
    case val =>
      split at hs
      · cases hs
      · exact Or.inr (Or.inr (hlValEnd_cont_state _ _ _ _ hs))
    case valEnd => exact Or.inr (Or.inr (hlValEnd_cont_state _ _ _ _ hs))
    case fin => cases hs
    all_goals
      (unfold hlCont at hs
       cases hv with
       | none => cases hs
       | some v => simp only [hst] at hs; first | cases hs | (split at hs; cases hs))
  intro hv'
  rcases key with h1 | h1 | h1 <;> rw [h1] at hv' <;> simp [HState.isVal] at hv'

/-- **L2 for ParseHdrLine** -/
theorem parseHdrLine_resume (b s : Buf) (o : Nat) (h : Hdr) (hb : Option PHdrVals) (hok : hlOK b o h hb)
    (hpe : hlPending (h, hb)) {o' : Nat} {h' : Hdr} {hb' : Option PHdrVals}
    (hr : parseHdrLine b o h hb = (o', Err.moreBytes, h', hb')) :
    RR hlObs (parseHdrLine (b ++ s) o' h' hb') (parseHdrLine (b ++ s) o h hb) ∧
      hlOK (b ++ s) o' h' hb' ∧ hlPending (h', hb') ∧ o ≤ o' ∧ o' ≤ b.size := by
  unfold parseHdrLine at hr
  rcases hrl : runLoop hlMachine b o (h, hb) with ⟨o1, e1, h1, hb1⟩
  rw [hrl] at hr
  simp only [Prod.mk.injEq] at hr
  obtain ⟨rfl, rfl, rfl, rfl⟩ := hr
  have hres := runLoop_resumeR hlMachine b s (hlInv b) id (RR hlObs) (hl_invCont b) (hl_stepStable b s)
    (hl_stepRestart b s)
    (by
      intro i st o2 st2 _ _ he
      simp only [hlMachine, Prod.mk.injEq, true_and] at he
      obtain ⟨rfl, rfl⟩ := he
      exact RR.refl _ _)
    o (h, hb) hok hrl
  have hinv := runLoop_moreI hlMachine b (fun i st => hlInv b i st ∧ o ≤ i ∧ hlPending st)
    (fun o2 st2 => hlInv (b ++ s) o2 st2 ∧ hlPending st2 ∧ o ≤ o2 ∧ o2 ≤ b.size)
    (by
      intro i c st i' st' hb hI hs hlt
      exact ⟨hl_invCont b i c st i' st' hb hI.1 hs hlt, by have := hI.2.1; omega,
        hlPending_of_not_isVal (hl_cont_not_isVal b i c st hs)⟩)
    (by
      intro i c st o2 st2 hb hI hs
      obtain ⟨h1, h2, h3, h3p, _⟩ := hlStep_site b s i c st hb hI.1 hs
      exact ⟨h3, h3p, by have := hI.2.1; omega, h2⟩)
    (by
      intro i st o2 st2 _ hI he
      simp only [hlMachine, Prod.mk.injEq, true_and] at he
      obtain ⟨rfl, rfl⟩ := he
      exact ⟨hlInv_grows s hI.1, hI.2.2, hI.2.1, hI.1.1⟩)
    o (h, hb) ⟨hok, Nat.le_refl _, hpe⟩ hrl
  refine ⟨?_, hinv.1, hinv.2.1, hinv.2.2.1, hinv.2.2.2⟩
  unfold parseHdrLine
  exact hres

end Sipsp
