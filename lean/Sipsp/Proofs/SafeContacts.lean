/-
  Sipsp.Proofs.SafeContacts — ParseAllContactValues never panics (buffers within the 65,535-byte limit) and keeps
  every stored value dereferenceable; in particular the running extent of the header value (`LastHVal`) is always
  extended forwards.
-/
import Sipsp.Proofs.SafeNALo
import Sipsp.Proofs.Capacity

namespace Sipsp

theorem NaEntry.mono {b : Buf} {o o' : Nat} {pf : PFromBody} (h : NaEntry b o pf) (h1 : o ≤ o') (h2 : o' ≤ b.size) :
    NaEntry b o' pf := by
  rcases h with h | h
  · exact Or.inl ⟨h.1, h.2.mono h1 h2⟩
  · exact Or.inr ⟨h.1, h.2.mono h1 h2⟩

/-- a name-addr value whose fields can all be dereferenced against `b` and that did not panic -/
abbrev NaFine (b : Buf) (pf : PFromBody) : Prop := NaOut b b.size pf

theorem NaOut.fine {b : Buf} {o : Nat} {pf : PFromBody} (h : NaOut b o pf) : NaFine b pf := h.mono h.ho (Nat.le_refl _)

theorem NaFine_new (b : Buf) : NaFine b {} := by
  refine ⟨Nat.le_refl _, ?_, ?_, ?_, ?_, ?_, rfl⟩ <;> (unfold PField.inside; simp)

/-- every reported field of the list lies before the offset `o` (the part of C05: "inside the consumed region") -/
structure CtIn (b : Buf) (o : Nat) (c : PContacts) : Prop where
  lhv : c.lastHVal.inside o
  stored : ∀ k, k < c.n → k < c.vals.size → NaOut b o c.vals[k]!
  lastI : NaOut b o c.last
  firstI : NaOut b o c.first

theorem CtIn.mono {b : Buf} {o o' : Nat} {c : PContacts} (h : CtIn b o c) (h1 : o ≤ o') (h2 : o' ≤ b.size) :
    CtIn b o' c :=
  ⟨PField.inside_mono h.lhv h1, fun k a1 a2 => (h.stored k a1 a2).mono h1 h2, h.lastI.mono h1 h2, h.firstI.mono h1 h2⟩

theorem NaOut_new (b : Buf) (o : Nat) (ho : o ≤ b.size) : NaOut b o {} :=
  ⟨ho, PField.inside_zero _, PField.inside_zero _, PField.inside_zero _, PField.inside_zero _, PField.inside_zero _, rfl⟩

/-- loop invariant of the contact-values loop at offset `offs` -/
structure CtSafe (b : Buf) (offs : Nat) (c : PContacts) : Prop where
  ho : offs ≤ b.size
  cur : NaEntry b offs c.cur
  clean : CtClean c
  lo : ∃ lo, c.lastHVal.inside lo ∧ lo ≤ offs ∧ VLo lo c.cur
  stored : ∀ k, k < c.n → k < c.vals.size → NaFine b c.vals[k]!
  lastF : NaFine b c.last
  firstF : NaFine b c.first
  pnc : c.pnc = false
  inn : CtIn b offs c

/-- what holds of a contacts object whatever the verdict -/
structure CtOut (b : Buf) (c : PContacts) : Prop where
  lhv : c.lastHVal.inside b.size
  stored : ∀ k, k < c.n → k < c.vals.size → NaFine b c.vals[k]!
  lastF : NaFine b c.last
  firstF : NaFine b c.first
  pnc : c.pnc = false

theorem endT_eq (f : PField) (n : Nat) (h : f.inside n) (hn : n ≤ 65535) : f.endT = f.offs + f.len := by
  unfold PField.endT; unfold PField.inside at h; exact trunc16_of_lt (by omega)

/-- the bookkeeping after a completed value: no panic, the running extent still ends before `o'` -/
theorem account_safe (b : Buf) (c : PContacts) (pf : PFromBody) (lo o' : Nat) (hfit : b.size ≤ 65535)
    (hpf : NaOut b o' pf) (hl : c.lastHVal.inside lo) (hv : lo ≤ pf.v.offs) (hp : c.pnc = false) :
    (c.account pf).pnc = false ∧ (c.account pf).lastHVal.inside o' := by
  rw [account_pnc, account_lhv]
  have hend := endT_eq pf.v o' hpf.v (by have := hpf.ho; omega)
  have hvi := hpf.v
  unfold PField.inside at hvi hl
  by_cases he : c.lastHVal.isEmpty = true
  · rw [if_pos he, if_pos he]; exact ⟨hp, hpf.v⟩
  · rw [if_neg he, if_neg he]
    have hle : c.lastHVal.offs ≤ pf.v.endT := by rw [hend]; omega
    exact ⟨by rw [hp, extendPanics_false _ _ hle]; rfl, extend_inside _ _ _ hle (by rw [hend]; exact hvi)⟩

theorem setCur_lastF (b : Buf) (c : PContacts) (pf : PFromBody) (h1 : NaFine b c.last) (h2 : NaFine b pf) :
    NaFine b (c.setCur pf).last := by
  unfold PContacts.setCur; split
  · exact h1
  · exact h2

theorem setCur_stored (b : Buf) (c : PContacts) (pf : PFromBody)
    (h1 : ∀ k, k < c.n → k < c.vals.size → NaFine b c.vals[k]!) (h2 : NaFine b pf) :
    ∀ k, k < c.n + 1 → k < c.vals.size → NaFine b (c.setCur pf).vals[k]! := by
  intro k hk hs
  by_cases hkn : k = c.n
  · subst hkn; rw [setCur_get_n c pf hs]; exact h2
  · rw [setCur_vals_ne c pf k (by omega)]; exact h1 k (by omega) hs

/-- the object after a completed value -/
theorem step_out (b : Buf) (c : PContacts) (pf : PFromBody) (lo o' : Nat) (hfit : b.size ≤ 65535)
    (hc : CtSafe b lo c → False ∨ True) (hst : ∀ k, k < c.n → k < c.vals.size → NaFine b c.vals[k]!)
    (hlF : NaFine b c.last) (hfF : NaFine b c.first) (hp : c.pnc = false)
    (hpf : NaOut b o' pf) (hl : c.lastHVal.inside lo) (hv : lo ≤ pf.v.offs) :
    CtOut b ((c.setCur pf).account pf) ∧ ((c.setCur pf).account pf).lastHVal.inside o' := by
  have s1 := setCur_scalars c pf
  have ha := account_safe b (c.setCur pf) pf lo o' hfit hpf (by rw [s1.2.2.2.1]; exact hl) hv (by rw [s1.2.2.2.2]; exact hp)
  refine ⟨⟨PField.inside_mono ha.2 hpf.ho, ?_, ?_, ?_, ha.1⟩, ha.2⟩
  · intro k hk hs
    rw [account_n, setCur_n] at hk
    rw [account_vals, setCur_size] at hs
    rw [account_vals]
    exact setCur_stored b c pf hst hpf.fine k hk hs
  · rw [account_last]; exact setCur_lastF b c pf hlF hpf.fine
  · rw [account_first, setCur_first]
    split
    · exact hpf.fine
    · exact hfF

theorem setCur_storedP (P : PFromBody → Prop) (c : PContacts) (pf : PFromBody)
    (h1 : ∀ k, k < c.n → k < c.vals.size → P c.vals[k]!) (h2 : P pf) :
    ∀ k, k < c.n + 1 → k < c.vals.size → P (c.setCur pf).vals[k]! := by
  intro k hk hs
  by_cases hkn : k = c.n
  · subst hkn; rw [setCur_get_n c pf hs]; exact h2
  · rw [setCur_vals_ne c pf k (by omega)]; exact h1 k (by omega) hs

theorem setCur_lastP (P : PFromBody → Prop) (c : PContacts) (pf : PFromBody) (h1 : P c.last) (h2 : P pf) :
    P (c.setCur pf).last := by
  unfold PContacts.setCur; split
  · exact h1
  · exact h2

/-- … and every field still lies before the new offset -/
theorem step_in (b : Buf) (c : PContacts) (pf : PFromBody) (lo o o' : Nat) (hfit : b.size ≤ 65535)
    (hin : CtIn b o c) (hoo : o ≤ o') (hpf : NaOut b o' pf) (hl : c.lastHVal.inside lo) (hv : lo ≤ pf.v.offs)
    (hp : c.pnc = false) : CtIn b o' ((c.setCur pf).account pf) := by
  have s1 := setCur_scalars c pf
  have ha := account_safe b (c.setCur pf) pf lo o' hfit hpf (by rw [s1.2.2.2.1]; exact hl) hv (by rw [s1.2.2.2.2]; exact hp)
  have hm := hin.mono hoo hpf.ho
  refine ⟨ha.2, ?_, ?_, ?_⟩
  · intro k hk hs
    rw [account_n, setCur_n] at hk
    rw [account_vals, setCur_size] at hs
    rw [account_vals]
    exact setCur_storedP (NaOut b o') c pf hm.stored hpf k hk hs
  · rw [account_last]; exact setCur_lastP (NaOut b o') c pf hm.lastI hpf
  · rw [account_first, setCur_first]
    split
    · exact hpf
    · exact hm.firstI

/-- between header lines: the object is sane and the next value will be parsed into a zero element -/
structure CtIdle (b : Buf) (c : PContacts) : Prop where
  out : CtOut b c
  clean : CtClean c.wrap
  cur : c.wrap.cur = {}

theorem CtOut.wrap {b : Buf} {c : PContacts} (h : CtOut b c) : CtOut b c.wrap := by
  obtain ⟨a1, a2, a3, a4, a5, a6, a7⟩ := wrap_scalars c
  refine ⟨by rw [a6]; exact h.lhv, fun k hk hs => ?_, ?_, ?_, by rw [a7]; exact h.pnc⟩
  · rw [a1] at hk; rw [a2] at hs ⊢; exact h.stored k hk hs
  · unfold PContacts.wrap; split
    · exact NaFine_new b
    · exact h.lastF
  · unfold PContacts.wrap; split <;> exact h.firstF

/-- the object with which the parse of a new header line starts -/
theorem CtIn.wrap {b : Buf} {o : Nat} {c : PContacts} (h : CtIn b o c) (ho : o ≤ b.size) : CtIn b o c.wrap := by
  obtain ⟨a1, a2, a3, a4, a5, a6, a7⟩ := wrap_scalars c
  refine ⟨by rw [a6]; exact h.lhv, fun k hk hs => ?_, ?_, ?_⟩
  · rw [a1] at hk; rw [a2] at hs ⊢; exact h.stored k hk hs
  · unfold PContacts.wrap; split
    · exact NaOut_new b o ho
    · exact h.lastI
  · unfold PContacts.wrap; split <;> exact h.firstI

theorem CtIdle.start {b : Buf} {c : PContacts} (h : CtIdle b c) (o : Nat) (ho : o ≤ b.size) (k : Nat)
    (hin : CtIn b o c) : CtSafe b o { c.wrap with hNo := k, lastHVal := {} } := by
  have hw := h.out.wrap
  have hiw := hin.wrap ho
  refine ⟨ho, ?_, h.clean, ⟨o, PField.inside_zero o, Nat.le_refl _, ?_⟩, hw.stored, hw.lastF, hw.firstF, hw.pnc,
    ⟨PField.inside_zero o, hiw.stored, hiw.lastI, hiw.firstI⟩⟩
  · show NaEntry b o c.wrap.cur
    rw [h.cur]; exact NaEntry_new b o ho
  · show VLo o c.wrap.cur
    rw [h.cur]; exact Or.inl rfl

theorem contactsLoop_safe (b : Buf) (offs : Nat) (c : PContacts) (hfit : b.size ≤ 65535) (h : CtSafe b offs c) :
    CtOut b (contactsLoop b offs c).2.2 ∧
    ((contactsLoop b offs c).2.1 = .moreBytes → CtSafe b (contactsLoop b offs c).1 (contactsLoop b offs c).2.2) ∧
    ((contactsLoop b offs c).2.1 = .ok → CtIdle b (contactsLoop b offs c).2.2 ∧ (contactsLoop b offs c).1 ≤ b.size ∧
      CtIn b (contactsLoop b offs c).1 (contactsLoop b offs c).2.2) ∧
    (contactsLoop b offs c).1 ≤ b.size := by
  induction hk : b.size - offs using Nat.strongRecOn generalizing offs c with
  | _ k ih =>
    rw [contactsLoop]
    obtain ⟨lo, hl1, hl2, hl3⟩ := h.lo
    rcases hp : parseOneContact b offs c.cur with ⟨next, e1, pf⟩
    have hsafe := parseNameAddrPVal_safe HdrContact b offs c.cur h.cur hp
    have hvd : VDone lo e1 pf := by
      by_cases hf : c.cur.state = .fin
      · have : parseOneContact b offs c.cur = (offs, .ok, c.cur) := by
          unfold parseOneContact parseNameAddrPVal; rw [if_pos hf]
        rw [this] at hp
        simp only [Prod.mk.injEq] at hp
        obtain ⟨rfl, rfl, rfl⟩ := hp
        refine ⟨fun _ => ?_, (fun hh => by cases hh)⟩
        rcases hl3 with h0 | h0
        · rw [hf] at h0; cases h0
        · exact h0
      · exact parseNameAddrPVal_vlo HdrContact b offs lo c.cur hfit hl2 hf hl3 hp
    have hout : ∀ x : PContacts, x.lastHVal = c.lastHVal → x.pnc = c.pnc → x.n ≤ c.n + 1 → x.vals.size = c.vals.size →
        (∀ k, k < x.n → k < c.vals.size → NaFine b x.vals[k]!) → NaFine b x.last → NaFine b x.first → CtOut b x := by
      intro x e1 e2 _ e4 e5 e6 e7
      have hho := h.ho
      exact ⟨by rw [e1]; exact PField.inside_mono hl1 (by omega), fun k hk hs => e5 k hk (by rw [← e4]; exact hs), e6, e7,
        by rw [e2]; exact h.pnc⟩
    cases e1 <;> simp only
    case ok =>
      have hso := step_out b c pf lo next hfit (fun _ => Or.inr trivial) h.stored h.lastF h.firstF h.pnc hsafe.1 hl1
        (hvd.1 (Or.inl rfl))
      have hf := (parseNameAddrPVal_post HdrContact b offs c.cur hp (Or.inl rfl)).1
      have d := done_facts c pf h.clean hf
      have hge : offs ≤ next := (naPVal_ok_range HdrContact b offs c.cur h.ho hp (Or.inl rfl)).2.1
      have hin := step_in b c pf lo offs next hfit h.inn hge hsafe.1 hl1 (hvd.1 (Or.inl rfl)) h.pnc
      exact ⟨hso.1, (fun hh => by cases hh), (fun _ => ⟨⟨hso.1, d.2.1, d.1⟩, hsafe.1.ho, hin⟩), hsafe.1.ho⟩
    case moreValues =>
      have hso := step_out b c pf lo next hfit (fun _ => Or.inr trivial) h.stored h.lastF h.firstF h.pnc hsafe.1 hl1
        (hvd.1 (Or.inr rfl))
      have hnx : (if c.n < c.vals.size then (c.setCur pf).account pf
          else { (c.setCur pf).account pf with last := {} }) = c.next pf := rfl
      rw [hnx]
      have hcl := next_clean c pf h.clean
      have hlh : (c.next pf).lastHVal.inside next := by unfold PContacts.next; split <;> exact hso.2
      have hnsafe : CtSafe b next (c.next pf) := by
        refine ⟨hsafe.1.ho, by rw [hcl.2]; exact NaEntry_new b next hsafe.1.ho, hcl.1,
          ⟨next, hlh, Nat.le_refl _, by rw [hcl.2]; exact Or.inl rfl⟩, ?_, ?_, ?_, ?_, ?_⟩
        · intro k hk hs
          rw [next_n] at hk
          rw [next_vals, setCur_size] at hs
          rw [next_vals]
          exact setCur_stored b c pf h.stored hsafe.1.fine k hk hs
        · unfold PContacts.next; split
          · exact hso.1.lastF
          · exact NaFine_new b
        · unfold PContacts.next; split <;> exact hso.1.firstF
        · unfold PContacts.next; split <;> exact hso.1.pnc
        · have hge : offs ≤ next := (naPVal_ok_range HdrContact b offs c.cur h.ho hp (Or.inr rfl)).2.1
          have hin := step_in b c pf lo offs next hfit h.inn hge hsafe.1 hl1 (hvd.1 (Or.inr rfl)) h.pnc
          refine ⟨hlh, fun k hk hs => ?_, ?_, ?_⟩
          · rw [next_n] at hk
            rw [next_vals, setCur_size] at hs
            rw [next_vals]
            have := hin.stored k (by rw [account_n, setCur_n]; exact hk) (by rw [account_vals, setCur_size]; exact hs)
            rw [account_vals] at this; exact this
          · unfold PContacts.next; split
            · exact hin.lastI
            · exact NaOut_new b next hsafe.1.ho
          · unfold PContacts.next; split <;> exact hin.firstI
      by_cases hg : offs < next ∧ next ≤ b.size
      · rw [if_pos hg]
        exact ih (b.size - next) (by omega) next (c.next pf) hnsafe rfl
      · rw [if_neg hg]
        exact ⟨⟨PField.inside_mono hlh hsafe.1.ho, hnsafe.stored,
          hnsafe.lastF, hnsafe.firstF, hnsafe.pnc⟩, (fun hh => by cases hh), (fun hh => by cases hh), hsafe.1.ho⟩
    case moreBytes =>
      have s1 := setCur_scalars c pf
      have hE := hsafe.2 rfl
      have hcs : CtSafe b next (c.setCur pf) := by
        have hgeM : offs ≤ next := by
          have := parseNameAddrPVal_more_range HdrContact b offs c.cur (by
            rcases h.cur with hc | hc
            · exact Or.inl hc.1
            · exact Or.inr ⟨hc.2.hi, hc.2.pend, hc.2.vend⟩) hp
          omega
        have hmI := h.inn.mono hgeM hsafe.1.ho
        refine ⟨hsafe.1.ho, by rw [setCur_cur]; exact hE, ?_, ⟨lo, by rw [s1.2.2.2.1]; exact hl1, ?_, by rw [setCur_cur]; exact hvd.2 rfl⟩,
          ?_, setCur_lastF b c pf h.lastF hsafe.1.fine, by rw [setCur_first]; exact h.firstF, by rw [s1.2.2.2.2]; exact h.pnc,
          ⟨by rw [s1.2.2.2.1]; exact hmI.lhv,
           (fun k hk hs => by
              rw [setCur_n] at hk; rw [setCur_size] at hs
              rw [setCur_vals_ne c pf k (by omega)]; exact hmI.stored k hk hs),
           setCur_lastP (NaOut b next) c pf hmI.lastI hsafe.1, by rw [setCur_first]; exact hmI.firstI⟩⟩
        · refine ⟨fun k h1 h2 => ?_, fun h1 => ?_⟩
          · rw [setCur_n] at h1; rw [setCur_size] at h2
            rw [setCur_vals_ne c pf k (by omega)]; exact h.clean.1 k h1 h2
          · rw [setCur_n, setCur_size] at h1
            rw [setCur_last_in c pf h1]; exact h.clean.2 h1
        · have := (parseNameAddrPVal_more_range HdrContact b offs c.cur ?_ hp)
          · omega
          · rcases h.cur with hc | hc
            · exact Or.inl hc.1
            · exact Or.inr ⟨hc.2.hi, hc.2.pend, hc.2.vend⟩
        · intro k hk hs
          rw [setCur_n] at hk; rw [setCur_size] at hs
          rw [setCur_vals_ne c pf k (by omega)]; exact h.stored k hk hs
      have hho := h.ho
      exact ⟨⟨by rw [s1.2.2.2.1]; exact PField.inside_mono hl1 (by omega), hcs.stored,
        hcs.lastF, hcs.firstF, hcs.pnc⟩, (fun _ => hcs), (fun hh => by cases hh), hsafe.1.ho⟩
    all_goals
      refine ⟨?_, (fun hh => by cases hh), (fun hh => by cases hh), hsafe.1.ho⟩
      split
      · have s1 := setCur_scalars c pf
        exact hout _ s1.2.2.2.1 s1.2.2.2.2 (by rw [setCur_n]; omega) (setCur_size c pf)
          (fun k hk hs => by rw [setCur_n] at hk; exact setCur_stored b c pf h.stored hsafe.1.fine k (by omega) hs)
          (setCur_lastF b c pf h.lastF hsafe.1.fine) (by rw [setCur_first]; exact h.firstF)
      · exact hout _ rfl rfl (Nat.le_succ _) rfl (fun k hk hs => h.stored k hk hs) (NaFine_new b) h.firstF

theorem CtSafe.wrap {b : Buf} {o : Nat} {c : PContacts} (h : CtSafe b o c) : CtSafe b o c.wrap := by
  unfold PContacts.wrap
  split
  · rename_i hc
    simp only [Bool.and_eq_true, decide_eq_true_eq] at hc
    have hcur : ({ c with last := {} } : PContacts).cur = {} := by
      unfold PContacts.cur; rw [if_neg (by show ¬ c.n < c.vals.size; omega)]
    obtain ⟨lo, hl1, hl2, _⟩ := h.lo
    exact ⟨h.ho, by rw [hcur]; exact NaEntry_new b o h.ho, ⟨h.clean.1, fun _ => rfl⟩,
      ⟨lo, hl1, hl2, by rw [hcur]; exact Or.inl rfl⟩, h.stored, NaFine_new b, h.firstF, h.pnc,
      ⟨h.inn.lhv, h.inn.stored, NaOut_new b o h.ho, h.inn.firstI⟩⟩
  · exact h

theorem bump_wrap (c : PContacts) (k : Nat) :
    ({ c with hNo := k, lastHVal := {} } : PContacts).wrap = { c.wrap with hNo := k, lastHVal := {} } := by
  unfold PContacts.wrap; split <;> rfl

/-- **ParseAllContactValues never panics** (65,535-byte limit): continuing a suspended value list -/
theorem parseAllContactValues_safe (b : Buf) (o : Nat) (c : PContacts) (hfit : b.size ≤ 65535) (h : CtSafe b o c) :
    CtOut b (parseAllContactValues b o c).2.2 ∧
    ((parseAllContactValues b o c).2.1 = .moreBytes → CtSafe b (parseAllContactValues b o c).1 (parseAllContactValues b o c).2.2) ∧
    ((parseAllContactValues b o c).2.1 = .ok → CtIdle b (parseAllContactValues b o c).2.2 ∧ (parseAllContactValues b o c).1 ≤ b.size ∧
      CtIn b (parseAllContactValues b o c).1 (parseAllContactValues b o c).2.2) ∧
    (parseAllContactValues b o c).1 ≤ b.size := by
  rw [parseAllContactValues_eq_wrap]
  exact contactsLoop_safe b o c.wrap hfit h.wrap

/-- … and starting the value list of a new Contact header line -/
theorem parseAllContactValues_safe_new (b : Buf) (o : Nat) (c : PContacts) (k : Nat) (hfit : b.size ≤ 65535)
    (ho : o ≤ b.size) (h : CtIdle b c) (hin : CtIn b o c) :
    CtOut b (parseAllContactValues b o { c with hNo := k, lastHVal := {} }).2.2 ∧
    ((parseAllContactValues b o { c with hNo := k, lastHVal := {} }).2.1 = .moreBytes →
      CtSafe b (parseAllContactValues b o { c with hNo := k, lastHVal := {} }).1
        (parseAllContactValues b o { c with hNo := k, lastHVal := {} }).2.2) ∧
    ((parseAllContactValues b o { c with hNo := k, lastHVal := {} }).2.1 = .ok →
      CtIdle b (parseAllContactValues b o { c with hNo := k, lastHVal := {} }).2.2 ∧
      (parseAllContactValues b o { c with hNo := k, lastHVal := {} }).1 ≤ b.size ∧
      CtIn b (parseAllContactValues b o { c with hNo := k, lastHVal := {} }).1
        (parseAllContactValues b o { c with hNo := k, lastHVal := {} }).2.2) ∧
    (parseAllContactValues b o { c with hNo := k, lastHVal := {} }).1 ≤ b.size := by
  rw [parseAllContactValues_eq_wrap, bump_wrap]
  exact contactsLoop_safe b o _ hfit (h.start o ho k hin)

theorem CtIdle_new (b : Buf) (k : Nat) : CtIdle b ({ vals := Array.replicate k {} } : PContacts) := by
  have hw : (({ vals := Array.replicate k {} } : PContacts)).wrap = { vals := Array.replicate k {} } := by
    unfold PContacts.wrap; simp [PFromBody.parsed]
  refine ⟨⟨PField.inside_zero _, (fun j hj => by cases hj), NaFine_new b, NaFine_new b, rfl⟩, ?_, ?_⟩
  · rw [hw]
    refine ⟨fun j _ hj => ?_, fun _ => rfl⟩
    simp at hj; simp [hj]
  · rw [hw]
    unfold PContacts.cur; split
    · rename_i h; simp at h; simp [h]
    · rfl

theorem CtIn_new (b : Buf) (o : Nat) (ho : o ≤ b.size) (k : Nat) : CtIn b o ({ vals := Array.replicate k {} } : PContacts) :=
  ⟨PField.inside_zero _, (fun j hj => by cases hj), NaOut_new b o ho, NaOut_new b o ho⟩

theorem CtSafe.idleOut {b : Buf} {o : Nat} {c : PContacts} (h : CtSafe b o c) : CtOut b c := by
  obtain ⟨lo, hl1, hl2, _⟩ := h.lo
  have := h.ho
  exact ⟨PField.inside_mono hl1 (by omega), h.stored, h.lastF, h.firstF, h.pnc⟩

end Sipsp
