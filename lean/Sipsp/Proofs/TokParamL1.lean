/-
  Sipsp.Proofs.TokParamL1 — no premature verdict for ParseTokenParam (without the end-of-input option): a definitive
  result does not change when more bytes arrive.
-/
import Sipsp.Proofs.SkipQuoted
import Sipsp.Proofs.Lex

namespace Sipsp

theorem tpMoreBytes_noEnd (b : Buf) (flags : Nat) (p : PTokParam) (i : Nat)
    (hf : hasFlag flags POptInputEndF = false) : tpMoreBytes b flags p i = (i, .moreBytes, p) := by
  unfold tpMoreBytes; rw [hf]; rfl

theorem tpLWS_stable (b s : Buf) (flags i : Nat) (p : PTokParam) (upd : PTokParam → PTokParam)
    (hf : hasFlag flags POptInputEndF = false)
    (hne : ∀ o st', tpLWS b flags i p upd ≠ .done o .moreBytes st') :
    tpLWS (b ++ s) flags i p upd = tpLWS b flags i p upd := by
  unfold tpLWS at hne ⊢
  rcases hq : skipLWS b i flags with ⟨n, crl, e⟩
  rw [hq] at hne
  by_cases he : e = .moreBytes
  · subst he
    simp only [tpMoreBytes_noEnd b flags p i hf, stepOfRes] at hne
    exact absurd rfl (hne i p)
  · rw [skipLWS_stable b s i flags hq he hf]
    cases e <;> first | rfl | exact absurd rfl he

theorem tp_stepStable (flags offs : Nat) (b s : Buf) (hf : hasFlag flags POptInputEndF = false) :
    StepStable (tpMachine flags offs) b s := by
  intro i c p hb hne
  show tpStep flags offs (b ++ s) i c p = tpStep flags offs b i c p
  have hne' : ∀ o st', tpStep flags offs b i c p ≠ .done o .moreBytes st' := hne
  have hlt := get?_lt hb
  unfold tpStep at hne' ⊢
  simp only at hne' ⊢
  cases hst : p.state <;> simp only [hst] at hne' ⊢
  case quotedVal =>
    rcases hq : skipQuoted b i with ⟨n, e⟩
    rw [hq] at hne'
    by_cases he : e = .moreBytes
    · subst he
      simp only [tpMoreBytes_noEnd b flags p n hf, stepOfRes] at hne'
      exact absurd rfl (hne' n p)
    · rw [skipQuoted_stable b s i hq he]
      cases e <;> first | rfl | exact absurd rfl he
  case fSep =>
    by_cases hl : isLWSch c = true
    · simp only [hl, ↓reduceIte] at hne' ⊢
      exact tpLWS_stable b s flags i p id hf hne'
    · simp only [hl, Bool.false_eq_true, ↓reduceIte]
      unfold tpSpTermSep
      by_cases hge : i ≥ offs + 1
      · simp only [hge, ↓reduceIte]
        have hprev : ∃ x, b[i - 1]? = some x := by
          have : i - 1 < b.size := by omega
          exact ⟨b[i - 1], Array.getElem?_eq_getElem this⟩
        obtain ⟨x, hx⟩ := hprev
        rw [hx, get?_app hx]
      · simp only [hge, ↓reduceIte]
  all_goals
    (by_cases hl : isLWSch c = true
     · simp only [hl, ↓reduceIte] at hne' ⊢
       exact tpLWS_stable b s flags i p _ hf hne'
     · simp only [hl, Bool.false_eq_true, ↓reduceIte])

theorem tp_eobMore (flags offs : Nat) (b : Buf) (hf : hasFlag flags POptInputEndF = false) :
    EobMore (tpMachine flags offs) b := by
  intro i p
  show (tpMoreBytes b flags p i).2.1 = Err.moreBytes
  rw [tpMoreBytes_noEnd b flags p i hf]

/-- **L1 for ParseTokenParam**: every option combination without `POptInputEndF`, any object -/
theorem parseTokenParam_stable (b s : Buf) (o : Nat) (p : PTokParam) (flags : Nat)
    (hf : hasFlag flags POptInputEndF = false) {o' : Nat} {e : Err} {p' : PTokParam}
    (h : parseTokenParam b o p flags = (o', e, p')) (he : e ≠ .moreBytes) :
    parseTokenParam (b ++ s) o p flags = (o', e, p') := by
  unfold parseTokenParam at h ⊢
  split
  · rename_i hfin; rw [if_pos hfin] at h; exact h
  · rename_i hfin; rw [if_neg hfin] at h
    exact runLoop_stable (tpMachine flags o) b s (tp_stepStable flags o b s hf) (tp_eobMore flags o b hf) o p h he

end Sipsp
