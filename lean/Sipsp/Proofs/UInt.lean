/-
  Sipsp.Proofs.UInt — L1 (no premature verdict) and L2 (resumption) for ParseUIntVal,
  plus progress (the loop artefact never fires).
-/
import Sipsp.Proofs.LwsSite

namespace Sipsp

theorem clEOH_indep (st : PUIntBody) (hs : st.state ≠ .found) (j j' n crl : Nat) :
    clEOH st j n crl = clEOH st j' n crl := by
  unfold clEOH; cases h : st.state <;> simp_all

theorem clEOH_ne_more (st : PUIntBody) (i n crl : Nat) : (clEOH st i n crl).2.1 ≠ Err.moreBytes := by
  unfold clEOH; cases st.state <;> simp

theorem clStep_lws (b : Buf) (j : Nat) (c : UInt8) (st : PUIntBody) (hl : isLWSch c = true)
    (hs : st.state = .init ∨ st.state = .fend) : clStep b j c st = lwsStd b j st clEOH id := by
  unfold clStep; rw [if_pos hl]
  rcases hs with h | h <;> rw [h]

theorem cl_stepStable (b s : Buf) : StepStable clMachine b s := by
  intro i c st hb hne
  show clStep (b ++ s) i c st = clStep b i c st
  have hne' : ∀ o st', clStep b i c st ≠ .done o .moreBytes st' := hne
  by_cases hl : isLWSch c = true
  · cases hst : st.state <;> simp only [clStep, hl, hst, if_true] at hne' ⊢ <;>
      first | rfl | exact lwsStd_stable b s i _ clEOH id hne'
  · simp only [clStep, hl, Bool.false_eq_true, if_false]

theorem cl_eobMore (b : Buf) : EobMore clMachine b := fun _ _ => rfl

theorem cl_eobRestart (b s : Buf) : EobRestart clMachine b s := by
  intro i st o st' _ h
  cases h; rfl

theorem cl_stepRestart (b s : Buf) : StepRestart clMachine b s := by
  intro i c st o st' hb hs
  change clStep b i c st = .done o .moreBytes st' at hs
  rw [runLoop_eq_runStep clMachine st (get?_app hb)]
  show runLoop clMachine (b ++ s) o st' = runStep clMachine (b ++ s) i (clStep (b ++ s) i c st)
  unfold clStep at hs ⊢
  by_cases hl : isLWSch c = true
  · rw [if_pos hl] at hs ⊢
    -- every suspending branch is `lwsStd b i st1 clEOH id` for a state st1 in init/fend
    have key : ∀ st1 : PUIntBody, (st1.state = .init ∨ st1.state = .fend) →
        lwsStd b i st1 clEOH id = .done o .moreBytes st' →
        runLoop clMachine (b ++ s) o st' = runStep clMachine (b ++ s) i (lwsStd (b ++ s) i st1 clEOH id) := by
      intro st1 hst1 hl1
      unfold lwsStd at hl1
      rcases hsk : skipLWS b i 0 with ⟨n, crl, e⟩
      rw [hsk] at hl1
      cases e with
      | moreBytes =>
        simp only [Step.done.injEq, true_and] at hl1
        obtain ⟨rfl, rfl⟩ := hl1
        exact lwsStd_restart clMachine b s i n crl st1 clEOH id hb hl hsk rfl
          (fun j c' _ hl' => clStep_lws _ j c' st1 hl' hst1)
          (clEOH_indep st1 (by rcases hst1 with h | h <;> rw [h] <;> simp))
          (fun _ => rfl)
      | eoh =>
        exfalso
        have hne := clEOH_ne_more st1 i n crl
        simp only at hl1
        injection hl1 with _ h2 _
        exact hne h2
      | _ => cases hl1
    cases hst : st.state <;> rw [hst] at hs <;> simp only at hs ⊢
    · exact key st (Or.inl hst) hs
    · exact key _ (Or.inr rfl) hs
    · exact key st (Or.inr hst) hs
    · cases hs
  · rw [if_neg hl] at hs
    split at hs
    · cases hst : st.state <;> rw [hst] at hs <;> simp only at hs <;> (try split at hs) <;> cases hs
    · cases hs

theorem cl_progress : Progress clMachine := by
  intro b i c st i' st' hb hs
  change clStep b i c st = .cont i' st' at hs
  unfold clStep at hs
  by_cases hl : isLWSch c = true
  · rw [if_pos hl] at hs
    have key : ∀ st1 : PUIntBody, lwsStd b i st1 clEOH id = .cont i' st' → i < i' := by
      intro st1 h1
      unfold lwsStd at h1
      rcases hsk : skipLWS b i 0 with ⟨n, crl, e⟩
      rw [hsk] at h1
      cases e <;> simp only at h1 <;> cases h1
      exact skipLWS_ok_gt b i 0 hb hl hsk
    cases hst : st.state <;> rw [hst] at hs <;> simp only at hs
    · exact key _ hs
    · exact key _ hs
    · exact key _ hs
    · cases hs; omega
  · rw [if_neg hl] at hs
    split at hs
    · cases hst : st.state <;> rw [hst] at hs <;> simp only at hs <;> (try split at hs) <;> cases hs <;> omega
    · cases hs

end Sipsp

namespace Sipsp

/-- a suspended unsigned integer value object is not in the final state -/
theorem cl_more_not_fin (b : Buf) (i : Nat) (st : PUIntBody) (h0 : st.state ≠ .fin) :
    (runLoop clMachine b i st).2.1 = Err.moreBytes → (runLoop clMachine b i st).2.2.state ≠ .fin := by
  apply runLoop_inv clMachine b (fun _ st => st.state ≠ .fin)
    (fun r => r.2.1 = Err.moreBytes → r.2.2.state ≠ CLState.fin)
  · intro i c st i' st' hb hP hs
    refine ⟨fun _ => ?_, fun _ h => by cases h⟩
    change clStep b i c st = .cont i' st' at hs
    unfold clStep at hs
    have key : ∀ st1 : PUIntBody, st1.state ≠ .fin → lwsStd b i st1 clEOH id = .cont i' st' → st'.state ≠ .fin := by
      intro st1 h1 hl
      unfold lwsStd at hl
      rcases hsk : skipLWS b i 0 with ⟨n, crl, e⟩
      rw [hsk] at hl
      cases e <;> simp only at hl <;> cases hl
      exact h1
    split at hs
    · cases hst : st.state <;> rw [hst] at hs <;> simp only at hs
      · exact key _ (by rw [hst]; simp) hs
      · exact key _ (by simp) hs
      · exact key _ (by rw [hst]; simp) hs
      · exact absurd hst hP
    · split at hs
      · cases hst : st.state <;> rw [hst] at hs <;> simp only at hs <;> (try split at hs) <;> cases hs <;> simp_all
      · cases hs
  · intro i c st o e st' hb hP hs hm
    simp only at hm; subst hm
    change clStep b i c st = .done o .moreBytes st' at hs
    unfold clStep at hs
    have key : ∀ st1 : PUIntBody, st1.state ≠ .fin → lwsStd b i st1 clEOH id = .done o .moreBytes st' → st'.state ≠ .fin := by
      intro st1 h1 hl
      unfold lwsStd at hl
      rcases hsk : skipLWS b i 0 with ⟨n, crl, e⟩
      rw [hsk] at hl
      cases e with
      | moreBytes => simp only [Step.done.injEq, true_and] at hl; obtain ⟨_, rfl⟩ := hl; exact h1
      | eoh =>
        exfalso
        have hne := clEOH_ne_more st1 i n crl
        simp only at hl
        injection hl with _ h2 _
        exact hne h2
      | _ => cases hl
    split at hs
    · cases hst : st.state <;> rw [hst] at hs <;> simp only at hs
      · exact key _ (by rw [hst]; simp) hs
      · exact key _ (by simp) hs
      · exact key _ (by rw [hst]; simp) hs
      · cases hs
    · split at hs
      · cases hst : st.state <;> rw [hst] at hs <;> simp only at hs <;> (try split at hs) <;> cases hs
      · cases hs
  · intro i st _ hP _; exact hP
  · exact h0

/-- **L1 for ParseUIntVal** -/
theorem parseUIntVal_stable (b s : Buf) (o : Nat) (st : PUIntBody) {o' : Nat} {e : Err} {st' : PUIntBody}
    (h : parseUIntVal b o st = (o', e, st')) (he : e ≠ .moreBytes) :
    parseUIntVal (b ++ s) o st = (o', e, st') := by
  unfold parseUIntVal at h ⊢
  split
  · rename_i hf; rw [if_pos hf] at h; exact h
  · rename_i hf; rw [if_neg hf] at h
    exact runLoop_stable clMachine b s (cl_stepStable b s) (cl_eobMore b) o st h he

/-- **L2 for ParseUIntVal** -/
theorem parseUIntVal_resume (b s : Buf) (o : Nat) (st : PUIntBody) {o' : Nat} {st' : PUIntBody}
    (h : parseUIntVal b o st = (o', Err.moreBytes, st')) :
    parseUIntVal (b ++ s) o' st' = parseUIntVal (b ++ s) o st := by
  unfold parseUIntVal at h ⊢
  by_cases hf : st.state = .fin
  · rw [if_pos hf] at h; cases h
  · rw [if_neg hf] at h
    have hnf := cl_more_not_fin b o st hf (by rw [h])
    rw [h] at hnf
    rw [if_neg hnf, if_neg hf]
    exact runLoop_resume clMachine b s (cl_stepStable b s) (cl_stepRestart b s) (cl_eobRestart b s) o st h

end Sipsp

namespace Sipsp

/-- **L1 for ParseCLenVal** -/
theorem parseCLenVal_stable (b s : Buf) (o : Nat) (st : PUIntBody) {o' : Nat} {e : Err} {st' : PUIntBody}
    (h : parseCLenVal b o st = (o', e, st')) (he : e ≠ .moreBytes) :
    parseCLenVal (b ++ s) o st = (o', e, st') := by
  unfold parseCLenVal at h ⊢
  rcases hr : parseUIntVal b o st with ⟨o1, e1, s1⟩
  rw [hr] at h
  have he1 : e1 ≠ .moreBytes := by
    intro hh; subst hh; simp only at h; cases h; exact he rfl
  rw [parseUIntVal_stable b s o st hr he1]
  exact h

/-- **L2 for ParseCLenVal** -/
theorem parseCLenVal_resume (b s : Buf) (o : Nat) (st : PUIntBody) {o' : Nat} {st' : PUIntBody}
    (h : parseCLenVal b o st = (o', Err.moreBytes, st')) :
    parseCLenVal (b ++ s) o' st' = parseCLenVal (b ++ s) o st := by
  unfold parseCLenVal at h ⊢
  rcases hr : parseUIntVal b o st with ⟨o1, e1, s1⟩
  rw [hr] at h
  cases e1 <;> simp only at h
  · split at h <;> cases h
  all_goals (first | (cases h; done) | skip)
  cases h
  rw [parseUIntVal_resume b s o st hr]

end Sipsp
