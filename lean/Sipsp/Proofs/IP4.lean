/-
  Sipsp.Proofs.IP4 — IP4Prefix / ContainsIP4: soundness, completeness, exact address bytes, stop indications.
-/
import Sipsp.Model.Sig
import Sipsp.Proofs.Num
import Sipsp.Proofs.Lex

namespace Sipsp

/-! ### specification -/

/-- one group: one to three digits, value at most 255 -/
def IsGroup (g : List UInt8) : Prop := 1 ≤ g.length ∧ g.length ≤ 3 ∧ AllDigits g ∧ decOf g ≤ 255

/-- four dot-separated groups with the given values -/
def IsIP4 (l : List UInt8) (a0 a1 a2 a3 : Nat) : Prop :=
  ∃ g0 g1 g2 g3 : List UInt8, l = g0 ++ 46 :: (g1 ++ 46 :: (g2 ++ 46 :: g3)) ∧
    IsGroup g0 ∧ IsGroup g1 ∧ IsGroup g2 ∧ IsGroup g3 ∧
    decOf g0 = a0 ∧ decOf g1 = a1 ∧ decOf g2 = a2 ∧ decOf g3 = a3

/-! ### the scanner over a list -/

def ip4L : List UInt8 → Nat → IP4St → Bool × Nat × Err × Array Nat
  | [], n, st => if st.pos < 3 || st.digits == 0 then (false, n, .moreBytes, st.ip) else (true, n, .ok, st.ip)
  | c :: cs, n, st =>
    if isDigit c then
      if st.digits + 1 > 3 || st.ip[st.pos]! * 10 + (c.toNat - 48) > 255 then
        if st.pos < 3 then (false, n, .bad, st.ip) else (true, n, .moreValues, st.ip)
      else ip4L cs (n + 1) { st with digits := st.digits + 1,
                                      ip := st.ip.set! st.pos (st.ip[st.pos]! * 10 + (c.toNat - 48)) }
    else if c == 46 then
      if st.digits == 0 then (false, n, .bad, st.ip)
      else if st.pos + 1 > 3 then (true, n, .badChar, st.ip)
      else ip4L cs (n + 1) { st with pos := st.pos + 1, digits := 0, ip := st.ip.set! (st.pos + 1) 0 }
    else if st.pos < 3 || st.digits == 0 then (false, n, .bad, st.ip) else (true, n, .badChar, st.ip)

theorem drop_cons_of_get? {b : Buf} {o : Nat} {c : UInt8} (h : b[o]? = some c) :
    b.toList.drop o = c :: b.toList.drop (o + 1) := by
  have hlt := get?_lt h
  have hl : o < b.toList.length := by simpa using hlt
  rw [List.drop_eq_getElem_cons hl]
  congr 1
  have := (Array.getElem?_eq_some_iff.1 h)
  obtain ⟨h1, h2⟩ := this
  simpa using h2

theorem drop_nil_of_get? {b : Buf} {o : Nat} (h : b[o]? = none) : b.toList.drop o = [] := by
  have := get?_none_ge h
  apply List.drop_eq_nil_of_le
  simpa using this

theorem ip4Loop_eq (b : Buf) (start o : Nat) (st : IP4St) (h : start ≤ o) :
    ip4Loop b start o st = ip4L (b.toList.drop o) (o - start) st := by
  fun_induction ip4Loop b start o st with
  | case1 o st hb hc => rw [drop_nil_of_get? hb, ip4L, if_pos hc]
  | case2 o st hb hc => rw [drop_nil_of_get? hb, ip4L, if_neg hc]
  | case3 o st c hb hd cur hov hp => rw [drop_cons_of_get? hb, ip4L, if_pos hd, if_pos hov, if_pos hp]
  | case4 o st c hb hd cur hov hp => rw [drop_cons_of_get? hb, ip4L, if_pos hd, if_pos hov, if_neg hp]
  | case5 o st c hb hd cur hov ih =>
    rw [drop_cons_of_get? hb, ip4L, if_pos hd, if_neg hov, ih (by omega)]
    have : o + 1 - start = o - start + 1 := by omega
    rw [this]
  | case6 o st c hb hd h46 hz => rw [drop_cons_of_get? hb, ip4L, if_neg hd, if_pos h46, if_pos hz]
  | case7 o st c hb hd h46 hz hp => rw [drop_cons_of_get? hb, ip4L, if_neg hd, if_pos h46, if_neg hz, if_pos hp]
  | case8 o st c hb hd h46 hz hp ih =>
    rw [drop_cons_of_get? hb, ip4L, if_neg hd, if_pos h46, if_neg hz, if_neg hp, ih (by omega)]
    have : o + 1 - start = o - start + 1 := by omega
    rw [this]
  | case9 o st c hb hd h46 hc => rw [drop_cons_of_get? hb, ip4L, if_neg hd, if_neg h46, if_pos hc]
  | case10 o st c hb hd h46 hc => rw [drop_cons_of_get? hb, ip4L, if_neg hd, if_neg h46, if_neg hc]

/-! ### what the scanner state stands for -/

theorem isDigit_iff (c : UInt8) : isDigit c = true ↔ IsDigitB c := by
  unfold isDigit IsDigitB
  simp only [Bool.and_eq_true, decide_eq_true_eq]
  constructor
  · intro h; exact ⟨by have := UInt8.le_iff_toNat_le.1 h.1; simpa using this, by have := UInt8.le_iff_toNat_le.1 h.2; simpa using this⟩
  · intro h; exact ⟨UInt8.le_iff_toNat_le.2 (by simpa using h.1), UInt8.le_iff_toNat_le.2 (by simpa using h.2)⟩

theorem decFrom_append (n : Nat) (l1 l2 : List UInt8) : decFrom n (l1 ++ l2) = decFrom (decFrom n l1) l2 := by
  induction l1 generalizing n with
  | nil => rw [List.nil_append, decFrom_nil]
  | cons c cs ih => rw [List.cons_append, decFrom_cons, decFrom_cons, ih]

theorem decOf_snoc (l : List UInt8) (c : UInt8) : decOf (l ++ [c]) = decOf l * 10 + dval c := by
  unfold decOf; rw [decFrom_append, decFrom_cons, decFrom_nil]

/-- the text of completed groups (each followed by a dot) and the digits of the group being read -/
def ipText : List (List UInt8) → List UInt8 → List UInt8
  | [], cur => cur
  | g :: gs, cur => g ++ 46 :: ipText gs cur

theorem ipText_snoc (gs : List (List UInt8)) (cur : List UInt8) (c : UInt8) :
    ipText gs cur ++ [c] = ipText gs (cur ++ [c]) := by
  induction gs with
  | nil => rfl
  | cons g gs ih => simp only [ipText, List.append_assoc, List.cons_append, ih]

theorem ipText_close (gs : List (List UInt8)) (cur : List UInt8) :
    ipText gs cur ++ [46] = ipText (gs ++ [cur]) [] := by
  induction gs with
  | nil => simp [ipText]
  | cons g gs ih => simp only [ipText, List.append_assoc, List.cons_append, ih]

/-- the state stands for completed groups `gs` and current digits `cur` -/
def Rep (st : IP4St) (gs : List (List UInt8)) (cur : List UInt8) : Prop :=
  st.pos = gs.length ∧ st.digits = cur.length ∧ st.ip.size = 4 ∧ gs.length ≤ 3 ∧
  (∀ i, i < gs.length → st.ip[i]! = decOf gs[i]!) ∧ st.ip[gs.length]! = decOf cur ∧
  (∀ g ∈ gs, IsGroup g) ∧ AllDigits cur ∧ cur.length ≤ 3 ∧ decOf cur ≤ 255

theorem decOf_nil : decOf [] = 0 := by unfold decOf; rw [decFrom_nil]

theorem AllDigits_nil : AllDigits [] := fun c hc => by cases hc

theorem Rep_init : Rep {} [] [] := by
  refine ⟨rfl, rfl, rfl, by decide, (fun i hi => by cases hi), ?_, (fun g hg => by cases hg),
    AllDigits_nil, by decide, by rw [decOf_nil]; omega⟩
  rw [decOf_nil]; rfl

theorem set!_get_same (a : Array Nat) (i v : Nat) (h : i < a.size) : (a.set! i v)[i]! = v := by
  simp [h]

theorem set!_get_ne (a : Array Nat) (i k v : Nat) (h : i ≠ k) : (a.set! i v)[k]! = a[k]! := by
  simp [Array.getElem!_eq_getD, Array.getD_eq_getD_getElem?, Array.getElem?_setIfInBounds_ne h]

/-- a digit that is accepted extends the current group -/
theorem Rep_digit {st : IP4St} {gs : List (List UInt8)} {cur : List UInt8} (h : Rep st gs cur) (c : UInt8)
    (hd : IsDigitB c) (hov : ¬ (st.digits + 1 > 3 ∨ st.ip[st.pos]! * 10 + (c.toNat - 48) > 255)) :
    Rep { st with digits := st.digits + 1, ip := st.ip.set! st.pos (st.ip[st.pos]! * 10 + (c.toNat - 48)) }
      gs (cur ++ [c]) := by
  obtain ⟨h1, h2, h3, h4, h5, h6, h7, h8, h9, h10⟩ := h
  have hv : st.ip[st.pos]! * 10 + (c.toNat - 48) = decOf (cur ++ [c]) := by
    rw [decOf_snoc, dval_def, h1, h6]
  refine ⟨h1, by simp [h2], by simp [h3], h4, ?_, ?_, h7, ?_, ?_, ?_⟩
  · intro i hi
    show (st.ip.set! st.pos _)[i]! = _
    rw [set!_get_ne _ _ _ _ (by omega)]; exact h5 i hi
  · show (st.ip.set! st.pos _)[gs.length]! = _
    rw [← h1, set!_get_same _ _ _ (by omega), hv]
  · intro x hx
    rcases List.mem_append.1 hx with hx | hx
    · exact h8 x hx
    · simp only [List.mem_singleton] at hx; subst hx; exact hd
  · simp only [List.length_append, List.length_singleton]; omega
  · rw [← hv]; omega

/-- a dot that is accepted closes the current group -/
theorem Rep_dot {st : IP4St} {gs : List (List UInt8)} {cur : List UInt8} (h : Rep st gs cur)
    (hz : st.digits ≠ 0) (hp : ¬ st.pos + 1 > 3) :
    Rep { st with pos := st.pos + 1, digits := 0, ip := st.ip.set! (st.pos + 1) 0 } (gs ++ [cur]) [] := by
  obtain ⟨h1, h2, h3, h4, h5, h6, h7, h8, h9, h10⟩ := h
  refine ⟨by simp [h1], rfl, by simp [h3], by simp; omega, ?_, ?_, ?_, AllDigits_nil, by decide, by rw [decOf_nil]; omega⟩
  · intro i hi
    simp only [List.length_append, List.length_singleton] at hi
    show (st.ip.set! (st.pos + 1) 0)[i]! = _
    rw [set!_get_ne _ _ _ _ (by omega)]
    by_cases hlt : i < gs.length
    · rw [h5 i hlt]
      simp [List.getElem!_eq_getElem?_getD, List.getElem?_append_left hlt]
    · have : i = gs.length := by omega
      subst this
      rw [h6]
      simp [List.getElem!_eq_getElem?_getD]
  · show (st.ip.set! (st.pos + 1) 0)[(gs ++ [cur]).length]! = _
    simp only [List.length_append, List.length_singleton]
    rw [← h1, set!_get_same _ _ _ (by omega), decOf_nil]
  · intro g hg
    rcases List.mem_append.1 hg with hg | hg
    · exact h7 g hg
    · simp only [List.mem_singleton] at hg; subst hg
      exact ⟨by omega, h9, h8, h10⟩

/-- with three completed groups and at least one digit, the text read so far is an address -/
theorem Rep_full {st : IP4St} {gs : List (List UInt8)} {cur : List UInt8} (h : Rep st gs cur)
    (hp : ¬ st.pos < 3) (hz : st.digits ≠ 0) :
    IsIP4 (ipText gs cur) st.ip[0]! st.ip[1]! st.ip[2]! st.ip[3]! := by
  obtain ⟨h1, h2, h3, h4, h5, h6, h7, h8, h9, h10⟩ := h
  have hl : gs.length = 3 := by omega
  match gs, hl with
  | [g0, g1, g2], _ =>
    refine ⟨g0, g1, g2, cur, rfl, h7 g0 (by simp), h7 g1 (by simp), h7 g2 (by simp), ⟨by omega, h9, h8, h10⟩, ?_, ?_, ?_, ?_⟩
    · exact (h5 0 (by simp)).symm
    · exact (h5 1 (by simp)).symm
    · exact (h5 2 (by simp)).symm
    · exact h6.symm

/-! ### soundness of the prefix scanner, with the meaning of its verdicts -/

/-- what a positive answer of the scanner means: it consumed `k` more bytes, the text read is an address with the
    returned bytes, and the verdict says what follows -/
def IP4Ans (w l : List UInt8) (n : Nat) (r : Bool × Nat × Err × Array Nat) : Prop :=
  r.1 = true → ∃ k, r.2.1 = n + k ∧ k ≤ l.length ∧
    IsIP4 (w ++ l.take k) r.2.2.2[0]! r.2.2.2[1]! r.2.2.2[2]! r.2.2.2[3]! ∧
    (r.2.2.1 = .ok ∨ r.2.2.1 = .moreValues ∨ r.2.2.1 = .badChar) ∧
    (r.2.2.1 = .ok → k = l.length) ∧
    (r.2.2.1 = .moreValues → ∃ c, l[k]? = some c ∧ IsDigitB c) ∧
    (r.2.2.1 = .badChar → ∃ c, l[k]? = some c ∧ ¬ IsDigitB c)

theorem ip4L_sound (l : List UInt8) (n : Nat) (st : IP4St) (gs : List (List UInt8)) (cur : List UInt8)
    (h : Rep st gs cur) : IP4Ans (ipText gs cur) l n (ip4L l n st) := by
  induction l generalizing n st gs cur with
  | nil =>
    rw [ip4L]
    split
    · intro hh; cases hh
    · rename_i hc
      simp only [Bool.or_eq_true, decide_eq_true_eq, beq_iff_eq, not_or] at hc
      intro _
      refine ⟨0, rfl, Nat.le_refl _, ?_, Or.inl rfl, fun _ => rfl, (fun hh => by cases hh), (fun hh => by cases hh)⟩
      simp only [List.take_nil, List.append_nil]
      exact Rep_full h hc.1 hc.2
  | cons c cs ih =>
    rw [ip4L]
    by_cases hd : isDigit c = true
    · rw [if_pos hd]
      have hdB := (isDigit_iff c).1 hd
      by_cases hov : (st.digits + 1 > 3 || st.ip[st.pos]! * 10 + (c.toNat - 48) > 255) = true
      · rw [if_pos hov]
        split
        · intro hh; cases hh
        · rename_i hp
          intro _
          have hz : st.digits ≠ 0 := by
            intro h0
            simp only [Bool.or_eq_true, decide_eq_true_eq] at hov
            obtain ⟨h1, h2, _, _, _, h6, _, _, _, _⟩ := h
            have hcur : cur = [] := List.eq_nil_of_length_eq_zero (by omega)
            subst hcur
            rw [h1, h6, decOf_nil] at hov
            have := dval_le c hdB
            rw [dval_def] at this
            omega
          refine ⟨0, rfl, Nat.zero_le _, ?_, Or.inr (Or.inl rfl), (fun hh => by cases hh),
            fun _ => ⟨c, rfl, hdB⟩, (fun hh => by cases hh)⟩
          simp only [List.take_zero, List.append_nil]
          exact Rep_full h hp hz
      · rw [if_neg hov]
        have hov' : ¬ (st.digits + 1 > 3 ∨ st.ip[st.pos]! * 10 + (c.toNat - 48) > 255) := by
          simpa using hov
        have hR := Rep_digit h c hdB hov'
        have := ih (n + 1) _ gs (cur ++ [c]) hR
        intro ht
        obtain ⟨k, e1, e2, e3, e4, e5, e6, e7⟩ := this ht
        refine ⟨k + 1, by rw [e1]; omega, by simp only [List.length_cons]; omega, ?_, e4, ?_, ?_, ?_⟩
        · rw [← ipText_snoc] at e3
          simpa [List.take_succ_cons, List.append_assoc] using e3
        · intro hh; rw [e5 hh]; rfl
        · intro hh; simpa using e6 hh
        · intro hh; simpa using e7 hh
    · rw [if_neg hd]
      have hdB : ¬ IsDigitB c := fun hh => hd ((isDigit_iff c).2 hh)
      by_cases h46 : (c == 46) = true
      · rw [if_pos h46]
        split
        · intro hh; cases hh
        · rename_i hz
          have hz' : st.digits ≠ 0 := by simpa using hz
          split
          · rename_i hp
            intro _
            refine ⟨0, rfl, Nat.zero_le _, ?_, Or.inr (Or.inr rfl), (fun hh => by cases hh), (fun hh => by cases hh),
              fun _ => ⟨c, rfl, hdB⟩⟩
            simp only [List.take_zero, List.append_nil]
            exact Rep_full h (by omega) hz'
          · rename_i hp
            have hR := Rep_dot h hz' hp
            have := ih (n + 1) _ (gs ++ [cur]) [] hR
            intro ht
            obtain ⟨k, e1, e2, e3, e4, e5, e6, e7⟩ := this ht
            have hc46 : c = 46 := by simpa using h46
            refine ⟨k + 1, by rw [e1]; omega, by simp only [List.length_cons]; omega, ?_, e4, ?_, ?_, ?_⟩
            · rw [← ipText_close] at e3
              subst hc46
              simpa [List.take_succ_cons, List.append_assoc] using e3
            · intro hh; rw [e5 hh]; rfl
            · intro hh; simpa using e6 hh
            · intro hh; simpa using e7 hh
      · rw [if_neg h46]
        split
        · intro hh; cases hh
        · rename_i hc
          simp only [Bool.or_eq_true, decide_eq_true_eq, beq_iff_eq, not_or] at hc
          intro _
          refine ⟨0, rfl, Nat.zero_le _, ?_, Or.inr (Or.inr rfl), (fun hh => by cases hh), (fun hh => by cases hh),
            fun _ => ⟨c, rfl, hdB⟩⟩
          simp only [List.take_zero, List.append_nil]
          exact Rep_full h hc.1 hc.2

/-! ### completeness of the prefix scanner -/

/-- digits that keep the current group valid are consumed -/
theorem ip4L_group (g rest : List UInt8) (n : Nat) (st : IP4St) (gs : List (List UInt8)) (cur : List UInt8)
    (h : Rep st gs cur) (hg : AllDigits g) (hl : (cur ++ g).length ≤ 3) (hv : decOf (cur ++ g) ≤ 255) :
    ∃ st', ip4L (g ++ rest) n st = ip4L rest (n + g.length) st' ∧ Rep st' gs (cur ++ g) := by
  induction g generalizing n st cur with
  | nil => exact ⟨st, by simp, by simpa using h⟩
  | cons c g ih =>
    have hc : IsDigitB c := hg c List.mem_cons_self
    have hg' : AllDigits g := fun x hx => hg x (List.mem_cons_of_mem _ hx)
    have hsplit : cur ++ c :: g = (cur ++ [c]) ++ g := by simp
    have hh := h
    obtain ⟨h1, h2, _, _, _, h6, _, _, _, _⟩ := hh
    have hov : ¬ (st.digits + 1 > 3 ∨ st.ip[st.pos]! * 10 + (c.toNat - 48) > 255) := by
      have hlen : cur.length + 1 ≤ 3 := by
        have : (cur ++ c :: g).length = cur.length + 1 + g.length := by simp; omega
        omega
      have hval : decOf (cur ++ [c]) ≤ 255 := by
        have : decOf (cur ++ c :: g) = decFrom (decOf (cur ++ [c])) g := by
          rw [hsplit]; unfold decOf; rw [decFrom_append]
        have hge := decFrom_ge (decOf (cur ++ [c])) g
        omega
      rw [decOf_snoc, dval_def] at hval
      rw [h1, h6, h2]
      omega
    have hR := Rep_digit h c hc hov
    obtain ⟨st', e1, e2⟩ := ih (n + 1) _ (cur ++ [c]) hR hg' (by rw [← hsplit]; exact hl) (by rw [← hsplit]; exact hv)
    refine ⟨st', ?_, by rw [hsplit]; exact e2⟩
    rw [List.cons_append, ip4L, if_pos ((isDigit_iff c).2 hc)]
    have : ¬ ((st.digits + 1 > 3 || st.ip[st.pos]! * 10 + (c.toNat - 48) > 255) = true) := by simpa using hov
    rw [if_neg this, e1]
    simp only [List.length_cons]
    have : n + 1 + g.length = n + (g.length + 1) := by omega
    rw [this]

/-- once three groups and a digit have been read the answer is positive, whatever follows -/
theorem ip4L_full (l : List UInt8) (n : Nat) (st : IP4St) (gs : List (List UInt8)) (cur : List UInt8)
    (h : Rep st gs cur) (h3 : gs.length = 3) (hc : cur ≠ []) : (ip4L l n st).1 = true := by
  have hp : ¬ st.pos < 3 := by rw [h.1]; omega
  have hz : st.digits ≠ 0 := by
    rw [h.2.1]; intro h0; exact hc (List.eq_nil_of_length_eq_zero h0)
  induction l generalizing n st cur with
  | nil =>
    rw [ip4L]
    have : ¬ ((decide (st.pos < 3) || st.digits == 0) = true) := by simp [hp, hz]
    rw [if_neg this]
  | cons c cs ih =>
    rw [ip4L]
    split
    · split
      · first | rfl | (rw [if_neg hp])
      · rename_i hd hov
        have hov' : ¬ (st.digits + 1 > 3 ∨ st.ip[st.pos]! * 10 + (c.toNat - 48) > 255) := by simpa using hov
        have hR := Rep_digit h c ((isDigit_iff c).1 hd) hov'
        exact ih (n + 1) _ (cur ++ [c]) hR (by simp) (by simpa using hp) (by simp)
    · split
      · have : ¬ ((st.digits == 0) = true) := by simpa using hz
        rw [if_neg this, if_pos (by omega)]
      · have : ¬ ((decide (st.pos < 3) || st.digits == 0) = true) := by simp [hp, hz]
        rw [if_neg this]

theorem ip4L_dot (rest : List UInt8) (n : Nat) (st : IP4St) (gs : List (List UInt8)) (cur : List UInt8)
    (h : Rep st gs cur) (hc : cur ≠ []) (hl : gs.length < 3) :
    ∃ st', ip4L (46 :: rest) n st = ip4L rest (n + 1) st' ∧ Rep st' (gs ++ [cur]) [] := by
  have hz : st.digits ≠ 0 := by
    rw [h.2.1]; intro h0; exact hc (List.eq_nil_of_length_eq_zero h0)
  have hp : ¬ st.pos + 1 > 3 := by rw [h.1]; omega
  refine ⟨_, ?_, Rep_dot h hz hp⟩
  rw [ip4L]
  have h1 : ¬ (isDigit (46 : UInt8) = true) := by decide
  have h2 : ((46 : UInt8) == 46) = true := by decide
  have h3 : ¬ ((st.digits == 0) = true) := by simpa using hz
  rw [if_neg h1, if_pos h2, if_neg h3, if_neg hp]

theorem IsGroup.ne_nil {g : List UInt8} (h : IsGroup g) : g ≠ [] := by
  intro h0; subst h0; have := h.1; simp at this

/-- **completeness**: a text that starts with an address gets a positive answer -/
theorem ip4L_complete (l t : List UInt8) (a0 a1 a2 a3 : Nat) (h : IsIP4 l a0 a1 a2 a3) :
    (ip4L (l ++ t) 0 {}).1 = true := by
  obtain ⟨g0, g1, g2, g3, rfl, h0, h1, h2, h3, _⟩ := h
  simp only [List.append_assoc, List.cons_append]
  obtain ⟨s1, e1, r1⟩ := ip4L_group g0 (46 :: (g1 ++ 46 :: (g2 ++ 46 :: (g3 ++ t)))) 0 {} [] [] Rep_init
    h0.2.2.1 (by simpa using h0.2.1) (by simpa using h0.2.2.2)
  rw [e1]
  obtain ⟨s2, e2, r2⟩ := ip4L_dot (g1 ++ 46 :: (g2 ++ 46 :: (g3 ++ t))) _ s1 [] ([] ++ g0) r1
    (by simpa using h0.ne_nil) (by decide)
  rw [e2]
  obtain ⟨s3, e3, r3⟩ := ip4L_group g1 (46 :: (g2 ++ 46 :: (g3 ++ t))) _ s2 _ [] r2
    h1.2.2.1 (by simpa using h1.2.1) (by simpa using h1.2.2.2)
  rw [e3]
  obtain ⟨s4, e4, r4⟩ := ip4L_dot (g2 ++ 46 :: (g3 ++ t)) _ s3 _ ([] ++ g1) r3 (by simpa using h1.ne_nil) (by simp)
  rw [e4]
  obtain ⟨s5, e5, r5⟩ := ip4L_group g2 (46 :: (g3 ++ t)) _ s4 _ [] r4
    h2.2.2.1 (by simpa using h2.2.1) (by simpa using h2.2.2.2)
  rw [e5]
  obtain ⟨s6, e6, r6⟩ := ip4L_dot (g3 ++ t) _ s5 _ ([] ++ g2) r5 (by simpa using h2.ne_nil) (by simp)
  rw [e6]
  obtain ⟨s7, e7, r7⟩ := ip4L_group g3 t _ s6 _ [] r6
    h3.2.2.1 (by simpa using h3.2.1) (by simpa using h3.2.2.2)
  rw [e7]
  exact ip4L_full t _ s7 _ ([] ++ g3) r7 (by simp) (by simpa using h3.ne_nil)

/-! ### IP4Prefix on buffers -/

theorem ip4PrefixAt_eq (b : Buf) (p : Nat) : ip4PrefixAt b p = ip4L (b.toList.drop p) 0 {} := by
  unfold ip4PrefixAt
  rw [ip4Loop_eq b p p {} (Nat.le_refl _), Nat.sub_self]

/-- **IP4Prefix, soundness and meaning of the verdict**: a positive answer at offset `p` with length `n` means
    that the `n` bytes at `p` are four dot-separated groups (1–3 digits, ≤ 255) whose values are the returned
    address bytes; the verdict says what follows (end of input / a digit / another byte) -/
theorem ip4PrefixAt_sound (b : Buf) (p : Nat) {n : Nat} {e : Err} {ip : Array Nat}
    (h : ip4PrefixAt b p = (true, n, e, ip)) :
    n ≤ (b.toList.drop p).length ∧ IsIP4 ((b.toList.drop p).take n) ip[0]! ip[1]! ip[2]! ip[3]! ∧
    (e = .ok ∨ e = .moreValues ∨ e = .badChar) ∧
    (e = .ok → n = (b.toList.drop p).length) ∧
    (e = .moreValues → ∃ c, (b.toList.drop p)[n]? = some c ∧ IsDigitB c) ∧
    (e = .badChar → ∃ c, (b.toList.drop p)[n]? = some c ∧ ¬ IsDigitB c) := by
  rw [ip4PrefixAt_eq] at h
  have := ip4L_sound (b.toList.drop p) 0 {} [] [] Rep_init
  rw [h] at this
  obtain ⟨k, e1, e2, e3, e4, e5, e6, e7⟩ := this rfl
  simp only [Nat.zero_add] at e1
  subst e1
  simp only [ipText, List.nil_append] at e3
  exact ⟨e2, e3, e4, e5, e6, e7⟩

/-- **IP4Prefix, completeness**: if the text at `p` starts with such a group sequence, the answer is positive -/
theorem ip4PrefixAt_complete (b : Buf) (p : Nat) (l t : List UInt8) (a0 a1 a2 a3 : Nat)
    (h : IsIP4 l a0 a1 a2 a3) (hp : b.toList.drop p = l ++ t) : (ip4PrefixAt b p).1 = true := by
  rw [ip4PrefixAt_eq, hp]
  exact ip4L_complete l t a0 a1 a2 a3 h

/-- a negative answer never comes with one of the "address found" verdicts … and it stops at the first byte that
    cannot extend a group sequence (stated as: no prefix of the text is an address) -/
theorem ip4PrefixAt_false (b : Buf) (p : Nat) (h : (ip4PrefixAt b p).1 = false) :
    ¬ ∃ l t a0 a1 a2 a3, IsIP4 l a0 a1 a2 a3 ∧ b.toList.drop p = l ++ t := by
  rintro ⟨l, t, a0, a1, a2, a3, h1, h2⟩
  rw [ip4PrefixAt_complete b p l t a0 a1 a2 a3 h1 h2] at h
  cases h

/-! ### ContainsIP4 -/

theorem containsIP4Try_some (b : Buf) (o d : Nat) {r : Nat × Nat × Array Nat}
    (h : containsIP4Try b o d = some r) :
    o ≤ r.1 ∧ r.1 < d ∧ ∃ e, ip4PrefixAt b r.1 = (true, r.2.1, e, r.2.2) := by
  fun_induction containsIP4Try b o d with
  | case1 o hlt nxt e ip hp => cases h; exact ⟨Nat.le_refl _, hlt, e, hp⟩
  | case2 o hlt hne ih => have := ih h; exact ⟨by omega, this.2⟩
  | case3 o hlt => cases h

theorem containsIP4Try_none (b : Buf) (o d : Nat) (h : containsIP4Try b o d = none) :
    ∀ p, o ≤ p → p < d → (ip4PrefixAt b p).1 = false := by
  fun_induction containsIP4Try b o d with
  | case1 o hlt nxt e ip hp => cases h
  | case2 o hlt hne ih =>
    intro p h1 h2
    rcases Nat.eq_or_lt_of_le h1 with rfl | h1'
    · rcases hq : ip4PrefixAt b o with ⟨ok, n1, e1, ip1⟩
      cases ok with
      | false => rfl
      | true => exact absurd hq (by intro hh; exact hne n1 e1 ip1 hh)
    · exact ih h p (by omega) h2
  | case3 o hlt => intro p h1 h2; omega

theorem indexByteFrom_some (b : Buf) (i : Nat) (c : UInt8) {d : Nat} (h : indexByteFrom b i c = some d) :
    i ≤ d ∧ b[d]? = some c ∧ ∀ k, i ≤ k → k < d → b[k]? ≠ some c := by
  fun_induction indexByteFrom b i c with
  | case1 i hb => cases h
  | case2 i x hb hx =>
    cases h
    have : x = c := by simpa using hx
    subst this
    exact ⟨Nat.le_refl _, hb, fun k h1 h2 => by omega⟩
  | case3 i x hb hx ih =>
    have := ih h
    refine ⟨by omega, this.2.1, fun k h1 h2 => ?_⟩
    rcases Nat.eq_or_lt_of_le h1 with rfl | h1'
    · rw [hb]; intro hh; cases hh; simp at hx
    · exact this.2.2 k (by omega) h2

theorem indexByteFrom_none (b : Buf) (i : Nat) (c : UInt8) (h : indexByteFrom b i c = none) :
    ∀ k, i ≤ k → b[k]? ≠ some c := by
  fun_induction indexByteFrom b i c with
  | case1 i hb =>
    intro k hk hh
    have := get?_none_ge hb
    have := get?_lt hh
    omega
  | case2 i x hb hx => cases h
  | case3 i x hb hx ih =>
    intro k h1
    rcases Nat.eq_or_lt_of_le h1 with rfl | h1'
    · rw [hb]; intro hh; cases hh; simp at hx
    · exact ih h k (by omega)

/-- **ContainsIP4, soundness**: the span reported is accepted by IP4Prefix with exactly the returned length and
    address bytes (hence, by `ip4PrefixAt_sound`, it is a group sequence with those values) -/
theorem containsIP4Loop_sound (b : Buf) (i : Nat) {o n : Nat} {ip : Array Nat}
    (h : containsIP4Loop b i = some (o, n, ip)) : ∃ e, ip4PrefixAt b o = (true, n, e, ip) := by
  fun_induction containsIP4Loop b i with
  | case1 i hlt hidx => cases h
  | case2 i hlt dOffs hidx offs r htry =>
    cases h
    exact (containsIP4Try_some b offs dOffs htry).2.2
  | case3 i hlt dOffs hidx offs htry hg ih => exact ih h
  | case4 i hlt dOffs hidx offs htry hg => cases h
  | case5 i hlt => cases h

theorem drop_get? (b : Buf) (p j : Nat) : (b.toList.drop p)[j]? = b[p + j]? := by
  rw [List.getElem?_drop]; simp

/-- where the first dot of an address at `p` is, and that only digits precede it -/
theorem IsIP4.first_dot {l t : List UInt8} {a0 a1 a2 a3 : Nat} (h : IsIP4 l a0 a1 a2 a3) (b : Buf) (p : Nat)
    (hp : b.toList.drop p = l ++ t) :
    ∃ k, 1 ≤ k ∧ k ≤ 3 ∧ b[p + k]? = some 46 ∧ ∀ j, j < k → ∃ c, b[p + j]? = some c ∧ IsDigitB c := by
  obtain ⟨g0, g1, g2, g3, rfl, h0, _⟩ := h
  refine ⟨g0.length, h0.1, h0.2.1, ?_, ?_⟩
  · rw [← drop_get?, hp]
    simp [List.getElem?_append_right]
  · intro j hj
    rw [← drop_get?, hp]
    have : (g0 ++ 46 :: (g1 ++ 46 :: (g2 ++ 46 :: g3)) ++ t)[j]? = g0[j]? := by
      rw [List.append_assoc, List.getElem?_append_left hj]
    rw [this]
    refine ⟨g0[j], List.getElem?_eq_getElem hj, h0.2.2.1 _ (List.getElem_mem hj)⟩

/-- **ContainsIP4, completeness**: if the search starting at `i` (the start of the text, or just after a dot)
    reports nothing, then no address has its first dot at or after `i` -/
theorem containsIP4Loop_complete (b : Buf) (i : Nat) (hi : i = 0 ∨ b[i - 1]? = some 46)
    (h : containsIP4Loop b i = none) :
    ∀ p l t a0 a1 a2 a3, IsIP4 l a0 a1 a2 a3 → b.toList.drop p = l ++ t →
      ∀ k, 1 ≤ k → k ≤ 3 → b[p + k]? = some 46 → (∀ j, j < k → ∃ c, b[p + j]? = some c ∧ IsDigitB c) →
        i ≤ p + k → False := by
  fun_induction containsIP4Loop b i with
  | case1 i hlt hidx =>
    intro p l t a0 a1 a2 a3 _ _ k _ _ hdot _ hge
    exact indexByteFrom_none b i 46 hidx (p + k) hge hdot
  | case2 i hlt dOffs hidx offs r htry => cases h
  | case3 i hlt dOffs hidx offs htry hg ih =>
    intro p l t a0 a1 a2 a3 hv hp k hk1 hk3 hdot hdig hge
    obtain ⟨hd1, hd2, hd3⟩ := indexByteFrom_some b i 46 hidx
    have hq : dOffs ≤ p + k := by
      rcases Nat.lt_or_ge (p + k) dOffs with hlt' | hge'
      · exact absurd hdot (hd3 (p + k) hge hlt')
      · exact hge'
    rcases Nat.eq_or_lt_of_le hq with heq | hgt
    · -- the address starts within the three bytes before this dot: it was tried
      have hoffs : offs ≤ p := by
        show (if dOffs ≥ 3 then dOffs - 3 else i) ≤ p
        split
        · omega
        · rcases hi with rfl | hi
          · exact Nat.zero_le _
          · rcases Nat.lt_or_ge p i with hpi | hpi
            · exfalso
              obtain ⟨c, hc, hcd⟩ := hdig (i - 1 - p) (by omega)
              have : p + (i - 1 - p) = i - 1 := by omega
              rw [this, hi] at hc
              cases hc
              exact absurd hcd (by unfold IsDigitB; decide)
            · exact hpi
      have hfalse := containsIP4Try_none b offs dOffs htry p hoffs (by omega)
      rw [ip4PrefixAt_complete b p l t a0 a1 a2 a3 hv hp] at hfalse
      cases hfalse
    · exact ih (Or.inr (by simpa using hd2)) h p l t a0 a1 a2 a3 hv hp k hk1 hk3 hdot hdig (by omega)
  | case4 i hlt dOffs hidx offs htry hg =>
    have := (indexByteFrom_some b i 46 hidx).1
    omega
  | case5 i hlt =>
    intro p l t a0 a1 a2 a3 _ _ k _ _ hdot _ hge
    have := get?_lt hdot
    omega

/-- **ContainsIP4 reports nothing only if the text contains no address at all** -/
theorem containsIP4_none (b : Buf) (h : containsIP4 b = none) :
    ¬ ∃ p l t a0 a1 a2 a3, IsIP4 l a0 a1 a2 a3 ∧ b.toList.drop p = l ++ t := by
  rintro ⟨p, l, t, a0, a1, a2, a3, hv, hp⟩
  obtain ⟨k, h1, h2, h3, h4⟩ := hv.first_dot b p hp
  exact containsIP4Loop_complete b 0 (Or.inl rfl) h p l t a0 a1 a2 a3 hv hp k h1 h2 h3 h4 (Nat.zero_le _)

/-- **ContainsIP4 reports an address only if there is one, and the span reported is one** -/
theorem containsIP4_some (b : Buf) {o n : Nat} {ip : Array Nat} (h : containsIP4 b = some (o, n, ip)) :
    n ≤ (b.toList.drop o).length ∧ IsIP4 ((b.toList.drop o).take n) ip[0]! ip[1]! ip[2]! ip[3]! := by
  obtain ⟨e, he⟩ := containsIP4Loop_sound b 0 h
  have := ip4PrefixAt_sound b o he
  exact ⟨this.1, this.2.1⟩

end Sipsp
