/-
  Sipsp.Proofs.SafeFLine — ParseFLine never panics (65,535-byte limit) and every field it reports lies before the
  returned offset.
-/
import Sipsp.Proofs.SafeVals
import Sipsp.Proofs.FLineSpec
import Sipsp.Proofs.MsgL2

namespace Sipsp

structure FlSafe (b : Buf) (o : Nat) (pl : PFLine) : Prop where
  ho : o ≤ b.size
  method : pl.method.inside o
  uri : pl.uri.inside o
  version : pl.version.inside o
  statusCode : pl.statusCode.inside o
  reason : pl.reason.inside o
  pnc : pl.pnc = false

theorem FlSafe.mono {b : Buf} {i j : Nat} {pl : PFLine} (h : FlSafe b i pl) (hij : i ≤ j) (hj : j ≤ b.size) :
    FlSafe b j pl :=
  ⟨hj, PField.inside_mono h.method hij, PField.inside_mono h.uri hij, PField.inside_mono h.version hij,
   PField.inside_mono h.statusCode hij, PField.inside_mono h.reason hij, h.pnc⟩

theorem PField.inside_offs {f : PField} {n : Nat} (h : f.inside n) : f.offs ≤ n := by
  unfold PField.inside at h; omega

theorem flCRLF_safe (b : Buf) (i : Nat) (pl : PFLine) (h : FlSafe b i pl) :
    FlSafe b (flCRLF b i pl).1 (flCRLF b i pl).2.2 := by
  unfold flCRLF
  rcases hs : skipCRLF b i with ⟨n, crl, e⟩
  have hr := skipCRLF_range hs
  cases e <;> simp only
  case ok =>
    have := (hr.2.2.1 rfl).1
    have h' := h.mono hr.1 this
    exact ⟨h'.ho, h'.method, h'.uri, h'.version, h'.statusCode, h'.reason, h'.pnc⟩
  all_goals
    (have := hr.2.2.2 (by decide)
     rw [this.1]; exact h)

theorem flReqVer_safe (b : Buf) (i : Nat) (pl : PFLine) (h : FlSafe b i pl) :
    FlSafe b (flReqVer b i pl).1 (flReqVer b i pl).2.2 := by
  unfold flReqVer
  have hge := skipToken_ge b i
  have hle := skipToken_le b i h.ho
  have hj := h.mono hge hle
  simp only
  split
  · exact hj
  · split
    · exact hj
    · have hv : pl.version.offs ≤ skipToken b i := by have := PField.inside_offs h.version; omega
      have hvI := extend_inside pl.version _ _ hv (Nat.le_refl _)
      have hpn : (pl.pnc || pl.version.extendPanics (skipToken b i)) = false := by
        rw [h.pnc, extendPanics_false _ _ hv]; rfl
      split
      · exact ⟨hj.ho, hj.method, hj.uri, hvI, hj.statusCode, hj.reason, hpn⟩
      · exact flCRLF_safe b _ _ ⟨hj.ho, hj.method, hj.uri, hvI, hj.statusCode, hj.reason, hpn⟩

theorem flReqURI_safe (b : Buf) (i : Nat) (pl : PFLine) (h : FlSafe b i pl) :
    FlSafe b (flReqURI b i pl).1 (flReqURI b i pl).2.2 := by
  unfold flReqURI
  have hge := skipToken_ge b i
  have hle := skipToken_le b i h.ho
  have hj := h.mono hge hle
  simp only
  split
  · exact hj
  · rename_i c hc
    have hlt := get?_lt hc
    split
    · exact hj
    · have hv : pl.uri.offs ≤ skipToken b i := by have := PField.inside_offs h.uri; omega
      have hvI := extend_inside pl.uri _ _ hv (Nat.le_refl _)
      have hpn : (pl.pnc || pl.uri.extendPanics (skipToken b i)) = false := by
        rw [h.pnc, extendPanics_false _ _ hv]; rfl
      split
      · exact ⟨hj.ho, hj.method, hvI, hj.version, hj.statusCode, hj.reason, hpn⟩
      · have h2 := hj.mono (Nat.le_succ _) hlt
        exact flReqVer_safe b _ _ ⟨h2.ho, h2.method, PField.inside_mono hvI (Nat.le_succ _),
          set_inside _ _ _ (Nat.le_refl _) (Nat.le_refl _), h2.statusCode, h2.reason, hpn⟩

theorem flReqMethod_safe (b : Buf) (i : Nat) (pl : PFLine) (hfit : b.size ≤ 65535) (h : FlSafe b i pl) :
    FlSafe b (flReqMethod b i pl).1 (flReqMethod b i pl).2.2 := by
  unfold flReqMethod
  have hge := skipToken_ge b i
  have hle := skipToken_le b i h.ho
  have hj := h.mono hge hle
  simp only
  split
  · exact hj
  · rename_i c hc
    have hlt := get?_lt hc
    split
    · exact hj
    · have hv : pl.method.offs ≤ skipToken b i := by have := PField.inside_offs h.method; omega
      have hvI := extend_inside pl.method _ _ hv (Nat.le_refl _)
      have hpn : (pl.pnc || pl.method.extendPanics (skipToken b i)) = false := by
        rw [h.pnc, extendPanics_false _ _ hv]; rfl
      split
      · exact ⟨hj.ho, hvI, hj.uri, hj.version, hj.statusCode, hj.reason, hpn⟩
      · obtain ⟨x, hx⟩ := field_get?_some b (pl.method.extend (skipToken b i))
          (PField.inside_mono hvI hj.ho) hfit
        simp only [hx]
        have h2 := hj.mono (Nat.le_succ _) hlt
        exact flReqURI_safe b _ _ ⟨h2.ho, PField.inside_mono hvI (Nat.le_succ _),
          set_inside _ _ _ (Nat.le_refl _) (Nat.le_refl _), h2.version, h2.statusCode, h2.reason, hpn⟩

theorem skipToEOL_le (b : Buf) (i : Nat) (hi : i ≤ b.size) : skipToEOL b i ≤ b.size := by
  fun_induction skipToEOL b i with
  | case1 i hb => exact hi
  | case2 i c hb hl => exact hi
  | case3 i c hb hl ih => have := get?_lt hb; exact ih (by omega)

theorem flRplReason_safe (b : Buf) (i : Nat) (pl : PFLine) (h : FlSafe b i pl) :
    FlSafe b (flRplReason b i pl).1 (flRplReason b i pl).2.2 := by
  unfold flRplReason skipLine
  have hge := skipToEOL_ge b i
  rcases hs : skipCRLF b (skipToEOL b i) with ⟨n, crl, e⟩
  have hr := skipCRLF_range hs
  cases e <;> simp only
  case ok =>
    have h3 := hr.2.2.1 rfl
    have hec : n - crl = skipToEOL b i := by omega
    have hv : pl.reason.offs ≤ n - crl := by have := PField.inside_offs h.reason; omega
    have h' := h.mono (by omega : i ≤ n) h3.1
    exact ⟨h'.ho, h'.method, h'.uri, h'.version, h'.statusCode, extend_inside _ _ _ hv (by omega),
      by show (pl.pnc || _) = false; rw [h.pnc, extendPanics_false _ _ hv]; rfl⟩
  all_goals
    (have h4 := hr.2.2.2 (by decide)
     rw [h4.1]
     exact h.mono hge (skipToEOL_le b i h.ho))

theorem flReply_safe (b : Buf) (i0 l : Nat) (pl : PFLine) (hl : 1 ≤ l) (hlen : i0 + l + 4 ≤ b.size) (h : FlSafe b i0 pl) :
    FlSafe b (flReply b i0 l pl).1 (flReply b i0 l pl).2.2 := by
  unfold flReply
  simp only
  have h1 := h.mono (by omega : i0 ≤ i0 + l) (by omega)
  have hver : (PField.set i0 (i0 + l - 1)).inside (i0 + l) := set_inside _ _ _ (by omega) (by omega)
  split
  · split
    · exact ⟨h1.ho, h1.method, h1.uri, hver, h1.statusCode, h1.reason, h1.pnc⟩
    · have h2 := h.mono (by omega : i0 ≤ i0 + l + 4) hlen
      exact flRplReason_safe b _ _ ⟨h2.ho, h2.method, h2.uri, PField.inside_mono hver (by omega),
        set_inside _ _ _ (by omega) (by omega), set_inside _ _ _ (Nat.le_refl _) (Nat.le_refl _), h2.pnc⟩
  · -- the look-ahead test guarantees the four bytes; this branch is unreachable
    rename_i hne
    exfalso
    have g0 : b[i0 + l]? = some b[i0 + l] := Array.getElem?_eq_getElem (by omega)
    have g1 : b[i0 + l + 1]? = some b[i0 + l + 1] := Array.getElem?_eq_getElem (by omega)
    have g2 : b[i0 + l + 2]? = some b[i0 + l + 2] := Array.getElem?_eq_getElem (by omega)
    have g3 : b[i0 + l + 3]? = some b[i0 + l + 3] := Array.getElem?_eq_getElem (by omega)
    exact hne _ _ _ _ g0 g1 g2 g3

/-- **ParseFLine never panics (65,535-byte limit); every field lies before the returned offset** — whatever the
    verdict, so the returned object is again a legitimate argument -/
theorem parseFLine_safe (b : Buf) (o : Nat) (pl : PFLine) (hfit : b.size ≤ 65535) (h : FlSafe b o pl) :
    FlSafe b (parseFLine b o pl).1 (parseFLine b o pl).2.2 := by
  unfold parseFLine
  cases hst : pl.state <;> simp only
  case init =>
    split
    · exact h
    · rename_i hlen
      split
      · rename_i l hm
        have hl8 : l = 8 := by
          have hsz : (b.extract o (o + 8)).toList.length = 8 := by simp; omega
          unfold bcPrefix at hm
          have hle : sipVerSP.length ≤ (b.extract o (o + 8)).toList.length := by rw [hsz]; decide
          rw [if_neg (by omega)] at hm
          have := prefixAux_true sipVerSP _ 0 l hle hm
          simpa [sipVerSP] using this
        subst hl8
        exact flReply_safe b o 8 pl (by decide) (by omega) h
      · exact flReqMethod_safe b o _ hfit ⟨h.ho, set_inside _ _ _ (Nat.le_refl _) (Nat.le_refl _), h.uri, h.version,
          h.statusCode, h.reason, h.pnc⟩
  case reqMethod => exact flReqMethod_safe b o pl hfit h
  case reqURI => exact flReqURI_safe b o pl h
  case reqVer => exact flReqVer_safe b o pl h
  case crlf => exact flCRLF_safe b o pl h
  case rplReason => exact flRplReason_safe b o pl h
  all_goals exact ⟨h.ho, h.method, h.uri, h.version, h.statusCode, h.reason, h.pnc⟩

theorem FlSafe_new (b : Buf) (o : Nat) (ho : o ≤ b.size) : FlSafe b o {} :=
  ⟨ho, PField.inside_zero o, PField.inside_zero o, PField.inside_zero o, PField.inside_zero o, PField.inside_zero o, rfl⟩

end Sipsp
