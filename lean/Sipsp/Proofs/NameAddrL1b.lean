/-
  Sipsp.Proofs.NameAddrL1b — step stability of the name-addr loop body, and L1 for ParseNameAddrPVal.
-/
import Sipsp.Proofs.NameAddrL1

namespace Sipsp

theorem naLWS_stable (h : Nat) (b s : Buf) (i : Nat) (pf : PFromBody) (hi : i ≤ b.size)
    (h1 : pf.pend ≤ b.size) (h2 : pf.vend ≤ b.size)
    (hne : ∀ o st', naLWS h b i pf ≠ .done o .moreBytes st') : naLWS h (b ++ s) i pf = naLWS h b i pf := by
  unfold naLWS at hne ⊢
  exact lwsStd_stable2 b s i pf _ _ _ (fun n crl => naEOH_app h b s pf i n crl .ok hi h1 h2) hne

theorem naMoreValues_app (h : Nat) (b s : Buf) (pf : PFromBody) (i : Nat) (hi : i ≤ b.size)
    (h1 : pf.pend ≤ b.size) (h2 : pf.vend ≤ b.size) : naMoreValues h (b ++ s) pf i = naMoreValues h b pf i := by
  unfold naMoreValues; rw [naEOH_app h b s pf i i 1 _ hi h1 h2]

theorem naCommaAfterWS_app (h : Nat) (b s : Buf) (pf : PFromBody) (i e : Nat) (he : e ≤ b.size)
    (h1 : pf.pend ≤ b.size) (h2 : pf.vend ≤ b.size) :
    naCommaAfterWS h (b ++ s) pf i e = naCommaAfterWS h b pf i e := by
  unfold naCommaAfterWS; rw [naEOH_app h b s pf e i 1 _ he h1 h2]

theorem naStepA_stable (h : Nat) (b s : Buf) (i : Nat) (c : UInt8) (pf : PFromBody) (hb : b[i]? = some c)
    (hI : naInv b i pf) (hne : ∀ o st', naStepA h b i c pf ≠ .done o .moreBytes st') :
    naStepA h (b ++ s) i c pf = naStepA h b i c pf := by
  obtain ⟨h1, h2, h3⟩ := hI
  unfold naStepA at hne ⊢
  by_cases hl : isLWSch c = true
  · simp only [hl, ↓reduceIte] at hne ⊢
    by_cases hs : (pf.state == FBState.nameOrURI) = true
    · simp only [hs, ↓reduceIte] at hne ⊢
      exact naLWS_stable h b s i _ h1 (by simp; omega) (by simp; omega) hne
    · simp only [hs, Bool.false_eq_true, ↓reduceIte] at hne ⊢
      exact naLWS_stable h b s i _ h1 (by omega) (by omega) hne
  · simp only [hl, Bool.false_eq_true, ↓reduceIte]
    by_cases h44 : (c == 44) = true
    · simp only [h44, ↓reduceIte]
      rw [naMoreValues_app h b s pf i h1 (by omega) (by omega)]
    · simp only [h44, Bool.false_eq_true, ↓reduceIte]

theorem naStepQ_stable (h : Nat) (b s : Buf) (i : Nat) (c : UInt8) (pf : PFromBody) (hb : b[i]? = some c)
    (hI : naInv b i pf) (hne : ∀ o st', naStepQ h b i c pf ≠ .done o .moreBytes st') :
    naStepQ h (b ++ s) i c pf = naStepQ h b i c pf := by
  obtain ⟨h1, h2, h3⟩ := hI
  unfold naStepQ at hne ⊢
  by_cases h34 : (c == 34) = true
  · simp only [h34, ↓reduceIte]
  · simp only [h34, Bool.false_eq_true, ↓reduceIte] at hne ⊢
    by_cases h92 : (c == 92) = true
    · simp only [h92, ↓reduceIte] at hne ⊢
      cases hb1 : b[i + 1]? with
      | none => rw [hb1] at hne; exact absurd rfl (hne i pf.saveS)
      | some c1 => rw [get?_app hb1]
    · simp only [h92, Bool.false_eq_true, ↓reduceIte] at hne ⊢
      by_cases hl : isLWSch c = true
      · simp only [hl, ↓reduceIte] at hne ⊢
        exact naLWS_stable h b s i _ h1 (by omega) (by omega) hne
      · simp only [hl, Bool.false_eq_true, ↓reduceIte]

theorem naStepUF_stable (h : Nat) (b s : Buf) (i : Nat) (c : UInt8) (pf : PFromBody) (hb : b[i]? = some c)
    (hI : naInv b i pf) (hne : ∀ o st', naStepUF h b i c pf ≠ .done o .moreBytes st') :
    naStepUF h (b ++ s) i c pf = naStepUF h b i c pf := by
  obtain ⟨h1, h2, h3⟩ := hI
  unfold naStepUF at hne ⊢
  by_cases hl : isLWSch c = true
  · simp only [hl, ↓reduceIte] at hne ⊢
    exact naLWS_stable h b s i _ h1 (by omega) (by omega) hne
  · simp only [hl, Bool.false_eq_true, ↓reduceIte]
    by_cases h44 : (c == 44) = true
    · simp only [h44, ↓reduceIte]
      rw [naMoreValues_app h b s pf i h1 (by omega) (by omega)]
    · simp only [h44, Bool.false_eq_true, ↓reduceIte]

theorem naStepStar_stable (h : Nat) (b s : Buf) (i : Nat) (c : UInt8) (pf : PFromBody) (hb : b[i]? = some c)
    (hI : naInv b i pf) (hne : ∀ o st', naStepStar h b i c pf ≠ .done o .moreBytes st') :
    naStepStar h (b ++ s) i c pf = naStepStar h b i c pf := by
  obtain ⟨h1, h2, h3⟩ := hI
  unfold naStepStar at hne ⊢
  by_cases hl : isLWSch c = true
  · simp only [hl, ↓reduceIte] at hne ⊢
    exact naLWS_stable h b s i _ h1 (by omega) (by omega) hne
  · simp only [hl, Bool.false_eq_true, ↓reduceIte]

end Sipsp

namespace Sipsp

theorem naStepP_stable (h : Nat) (b s : Buf) (i : Nat) (c : UInt8) (pf : PFromBody) (hb : b[i]? = some c)
    (hI : naInv b i pf) (hne : ∀ o st', naStepP h b i c pf ≠ .done o .moreBytes st') :
    naStepP h (b ++ s) i c pf = naStepP h b i c pf := by
  obtain ⟨h1, h2, h3⟩ := hI
  have hib := get?_lt hb
  unfold naStepP at hne ⊢
  by_cases hl : isLWSch c = true
  · simp only [hl, ↓reduceIte] at hne ⊢
    rcases hsk : skipLWS b i 0 with ⟨n, crl, e⟩
    rw [hsk] at hne
    have hne' : e ≠ .moreBytes := by
      intro he; subst he; exact hne i pf.saveS rfl
    rw [skipLWS_stable b s i 0 hsk hne' (by decide)]
    have hp := naNameWS_pv pf i
    have hpe : (naNameWS pf i).pend ≤ b.size := by rcases hp.1 with hh | hh <;> rw [hh] <;> omega
    cases e <;> simp only
    rw [naEOH_app h b s _ i n crl .ok h1 hpe (by rw [hp.2]; omega)]
  · simp only [hl, Bool.false_eq_true, ↓reduceIte]
    by_cases h44 : (c == 44) = true
    · simp only [h44, ↓reduceIte]
      rw [naMoreValues_app h b s pf i h1 (by omega) (by omega)]
    · simp only [h44, Bool.false_eq_true, ↓reduceIte]
      by_cases h61 : (c == 61) = true
      · simp only [h61, ↓reduceIte]
      · simp only [h61, Bool.false_eq_true, ↓reduceIte]
        by_cases hlt : (c == 60 || c == 62) = true
        · simp only [hlt, ↓reduceIte]
        · simp only [hlt, Bool.false_eq_true, ↓reduceIte]
          by_cases h59 : (c == 59) = true
          · simp only [h59, ↓reduceIte]
            rw [setFromParamVal_app b s _ (by simp; omega) (by simpa using (by omega : pf.vend ≤ b.size))]
            rw [setFromParamVal_app b s _ (by simp; omega) (by simpa using (by omega : pf.vend ≤ b.size))]
          · simp only [h59, Bool.false_eq_true, ↓reduceIte]

theorem naStepPE_stable (h : Nat) (b s : Buf) (i : Nat) (c : UInt8) (pf : PFromBody) (hb : b[i]? = some c)
    (hI : naInv b i pf) : naStepPE h (b ++ s) i c pf = naStepPE h b i c pf := by
  obtain ⟨h1, h2, h3⟩ := hI
  unfold naStepPE
  rw [setFromParamVal_app b s { pf with state := .newParam } (by simpa using (by omega : pf.pend ≤ b.size))
        (by simpa using (by omega : pf.vend ≤ b.size)),
      setFromParamVal_app b s { pf with state := .newPossibleParam } (by simpa using (by omega : pf.pend ≤ b.size))
        (by simpa using (by omega : pf.vend ≤ b.size)),
      naCommaAfterWS_app h b s pf i pf.pend (by omega) (by omega) (by omega)]

theorem naStepV_stable (h : Nat) (b s : Buf) (i : Nat) (c : UInt8) (pf : PFromBody) (hb : b[i]? = some c)
    (hI : naInv b i pf) (hne : ∀ o st', naStepV h b i c pf ≠ .done o .moreBytes st') :
    naStepV h (b ++ s) i c pf = naStepV h b i c pf := by
  obtain ⟨h1, h2, h3⟩ := hI
  have hib := get?_lt hb
  unfold naStepV at hne ⊢
  by_cases hl : isLWSch c = true
  · simp only [hl, ↓reduceIte] at hne ⊢
    rcases hsk : skipLWS b i 0 with ⟨n, crl, e⟩
    rw [hsk] at hne
    have hne' : e ≠ .moreBytes := by
      intro he; subst he; exact hne i pf.saveS rfl
    rw [skipLWS_stable b s i 0 hsk hne' (by decide)]
    have hp := naValWS_pv pf i n false
    have hve : (naValWS pf i n false).vend ≤ b.size := by rcases hp.2 with hh | hh <;> rw [hh] <;> omega
    cases e <;> simp only
    rw [naEOH_app h b s _ i n crl .ok h1 (by rw [hp.1]; omega) hve]
  · simp only [hl, Bool.false_eq_true, ↓reduceIte]
    by_cases h44 : (c == 44) = true
    · simp only [h44, ↓reduceIte]
      rw [naMoreValues_app h b s pf i h1 (by omega) (by omega)]
    · simp only [h44, Bool.false_eq_true, ↓reduceIte]
      by_cases h59 : (c == 59) = true
      · simp only [h59, ↓reduceIte]
        rw [setFromParamVal_app b s { pf with state := .newParam, vend := i }
              (by simpa using (by omega : pf.pend ≤ b.size)) (by simp; omega),
            setFromParamVal_app b s { pf with state := .newPossibleParam, vend := i }
              (by simpa using (by omega : pf.pend ≤ b.size)) (by simp; omega)]
      · simp only [h59, Bool.false_eq_true, ↓reduceIte]

theorem naStepVE_stable (h : Nat) (b s : Buf) (i : Nat) (c : UInt8) (pf : PFromBody) (hb : b[i]? = some c)
    (hI : naInv b i pf) : naStepVE h (b ++ s) i c pf = naStepVE h b i c pf := by
  obtain ⟨h1, h2, h3⟩ := hI
  unfold naStepVE
  rw [setFromParamVal_app b s { pf with state := .newParam } (by simpa using (by omega : pf.pend ≤ b.size))
        (by simpa using (by omega : pf.vend ≤ b.size)),
      setFromParamVal_app b s { pf with state := .newPossibleParam } (by simpa using (by omega : pf.pend ≤ b.size))
        (by simpa using (by omega : pf.vend ≤ b.size)),
      naCommaAfterWS_app h b s pf i pf.vend (by omega) (by omega) (by omega)]

theorem na_stepStable (h : Nat) (b s : Buf) : StepStableI (naMachine h) b s (naInv b) := by
  intro i c pf hb hI hne
  show naStep h (b ++ s) i c pf = naStep h b i c pf
  have hne' : ∀ o st', naStep h b i c pf ≠ .done o .moreBytes st' := hne
  unfold naStep at hne' ⊢
  cases hst : pf.state <;> simp only [hst] at hne' ⊢
  all_goals first
    | exact naStepA_stable h b s i c pf hb hI hne'
    | exact naStepQ_stable h b s i c pf hb hI hne'
    | rfl
    | exact naStepUF_stable h b s i c pf hb hI hne'
    | exact naStepP_stable h b s i c pf hb hI hne'
    | exact naStepPE_stable h b s i c pf hb hI
    | exact naStepV_stable h b s i c pf hb hI hne'
    | exact naStepVE_stable h b s i c pf hb hI
    | exact naStepStar_stable h b s i c pf hb hI hne'

theorem na_eobMore (h : Nat) (b : Buf) : EobMore (naMachine h) b := fun _ _ => rfl

/-- what a caller may legitimately pass to ParseNameAddrPVal: the offset lies inside the buffer and the
    saved parameter positions (if any) lie before it — true of a new object (all zero) and of every object
    returned by an earlier call on a prefix of this buffer -/
def naOK (b : Buf) (o : Nat) (pf : PFromBody) : Prop := pf.state = .fin ∨ naInv b o pf

/-- **L1 for ParseNameAddrPVal** (all header kinds) -/
theorem parseNameAddrPVal_stable (h : Nat) (b s : Buf) (o : Nat) (pf : PFromBody) (hok : naOK b o pf)
    {o' : Nat} {e : Err} {pf' : PFromBody}
    (hr : parseNameAddrPVal h b o pf = (o', e, pf')) (he : e ≠ .moreBytes) :
    parseNameAddrPVal h (b ++ s) o pf = (o', e, pf') := by
  unfold parseNameAddrPVal at hr ⊢
  split
  · rename_i hf; rw [if_pos hf] at hr; exact hr
  · rename_i hf; rw [if_neg hf] at hr
    rcases hok with hok | hok
    · exact absurd hok hf
    · simp only at hr ⊢
      rcases hrl : runLoop (naMachine h) b o { pf with s := pf.soffs, soffs := 0 } with ⟨o1, e1, p1⟩
      rw [hrl] at hr
      simp only [Prod.mk.injEq] at hr
      obtain ⟨rfl, rfl, rfl⟩ := hr
      rw [runLoop_stableI (naMachine h) b s (naInv b) (na_invCont h b) (na_stepStable h b s) (na_eobMore h b)
        o _ (by exact hok) hrl he]

end Sipsp
