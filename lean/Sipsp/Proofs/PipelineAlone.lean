/-
  Sipsp.Proofs.PipelineAlone — property C06, last composition step of the pipelining clause:
  "messages laid back to back in one buffer, parsed one after another from each returned offset with a reset object,
   give the same results as each message parsed alone".

  Ingredients (proved elsewhere): `parseSIPMsg_stable` (C03: a definitive verdict and its object are unchanged by
  appended bytes, outside the no-more-data mode and the "body = rest of the buffer" case), `pipeline_second_message_ok`
  (C11/C06: position independence of a whole message), `sc_reset_after_history` (C12/C04: Reset after any history is an
  Init object).

  "Framing-definite" (`paFramed flags obj`) is read off the C06 body table: the no-more-data flag is NOT set, and the
  end of the message does not depend on where the buffer ends, i.e. the skip-body flag is set, or Content-Length is
  required, or a Content-Length header was parsed (`paFramed_iff`: exactly `¬ bodyToEnd` + no no-more-data flag, the
  condition under which C03 `stable_msg` applies without its exemption).  Both parts are necessary:
  `pa_alone_needs_framing` (general) and the tests at the end (concrete inputs).

  Final theorems (all for ALL buffers / flags / capacities, messages within the documented 65,535-byte limit):
    (1) `msg_alone_then_followed` (+ `pa_alone_then_followed_at`: any start offset, any verdict offset):
        a message text `x` that parses alone to `(x.size, OK, obj)` in a framing-definite mode parses to EXACTLY the
        same triple when any bytes follow it — no field of the object differs (Buf / RawMsg are recorded as lengths).
        `pa_alone_needs_framing`: without a Content-Length and without both flags the result does change
        (the returned offset moves to the new end of the buffer).
    (2) `pipeline_each_message_as_alone`: in the buffer that holds the texts `l` one after the other, parsing at the
        start of text `i` from an Init object returns `(start_{i+1}, OK, shMsg start_i obj_i)`, where
        `start_i = (smCat (l.take i)).size` and `start_{i+1} = start_i + size_i` (`pa_smCat_take_succ`). Only text `i`
        has to be a complete framing-definite message; the texts before and after it are arbitrary.
        `pipeline_each_message_after_reset`: the same from `m.reset` for an object `m` with any history (`ScReach`).
        `pipeline_each_message_as_alone_nomore`: the pipelined call may in addition set the no-more-data flag.
    (3) `paParseAll` — the caller's loop: Reset, ParseSIPMsg at the current offset, continue at the returned offset
        until the buffer is exhausted — and `parseAll_pipeline`: on the concatenation of complete framing-definite
        messages, started with an object of any history, it returns exactly the list of the stand-alone objects,
        message `i` moved by the total size of the messages before it (`paMoved`; entry-wise: `paMoved_get`,
        `parseAll_pipeline_get`), and ends with OK at the end of the buffer. `parseAll_pipeline_nomore`: the loop may
        in addition set the no-more-data flag.
    Auxiliary facts of independent use: `pa_ok_bufLen` (what the object carried in as `len(Buf)` does not influence a
    successful call), `pa_ok_any_nomore` (a call that succeeds without the no-more-data flag gives the same result
    with it), `pa_cap_parseSIPMsg` (ParseSIPMsg never changes the capacity of the contact array; for the header
    array see `sc_size_parseSIPMsg`), `pa_ok_size_ge` (a message parsed OK from a new object has at least 14 bytes).

  NOT proved here:
  * nothing is said about a pipeline in which some text is NOT a complete framing-definite message beyond
    `pipeline_nth_message` (ShiftMsg): the call at its start behaves as the call on the rest of the buffer;
  * in (3) the stand-alone objects are those of an Init object with the capacities of the caller's object (the result
    depends on the capacities: headers / contacts beyond the capacity are only counted); caller arrays handed to Init
    are assumed cleared, as everywhere (`ScReach.init`);
  * a message that is complete only in the no-more-data mode (truncated body) is outside (1)–(3): see test (b).
-/
import Sipsp.Proofs.ShiftMsg
import Sipsp.Proofs.SigCompose
import Sipsp.Proofs.MsgL1Body

namespace Sipsp

/-! ### framing-definite modes -/

/-- the end of the message does not depend on where the buffer ends: no-more-data flag not set, and skip-body, or
    Content-Length required, or a Content-Length header was parsed (`m` is the parsed object) -/
def paFramed (flags : Nat) (m : PSIPMsg) : Prop :=
  hasFlag flags SIPMsgNoMoreDataF = false ∧
    (hasFlag flags SIPMsgSkipBodyF = true ∨ hasFlag flags SIPMsgCLenReqF = true ∨ m.pv.clen.parsed = true)

theorem paFramed_iff (flags : Nat) (m : PSIPMsg) :
    paFramed flags m ↔ hasFlag flags SIPMsgNoMoreDataF = false ∧ ¬ bodyToEnd flags m := by
  unfold paFramed bodyToEnd
  constructor
  · rintro ⟨h0, h⟩
    refine ⟨h0, fun ⟨h1, h2, h3⟩ => ?_⟩
    rcases h with h | h | h
    · rw [h1] at h; cases h
    · rw [h3] at h; cases h
    · rw [h2] at h; cases h
  · rintro ⟨h0, h⟩
    refine ⟨h0, ?_⟩
    by_cases h1 : hasFlag flags SIPMsgSkipBodyF = true
    · exact Or.inl h1
    · by_cases h3 : hasFlag flags SIPMsgCLenReqF = true
      · exact Or.inr (Or.inl h3)
      · by_cases h2 : m.pv.clen.parsed = true
        · exact Or.inr (Or.inr h2)
        · exact absurd ⟨by simpa using h1, by simpa using h2, by simpa using h3⟩ h

/-- the moved object is framing-definite iff the object is -/
theorem paFramed_shMsg (flags k : Nat) (m : PSIPMsg) : paFramed flags (shMsg k m) ↔ paFramed flags m := by
  unfold paFramed
  have : (shMsg k m).pv.clen.parsed = m.pv.clen.parsed := by
    show (shHv k m.pv).clen.parsed = _
    rw [shHv_clen, smCl_parsed]
  rw [this]

/-! ### (1) alone, then followed by anything -/

/-- general form: any start offset inside the text, any Init object, any definitive verdict offset -/
theorem pa_alone_then_followed_at (x rest : Buf) (o : Nat) (ho : o ≤ x.size) (flags : Nat) (m0 : PSIPMsg)
    (len kh kc : Nat) (hdrs cts : Option Unit) (hfit : x.size ≤ 65535) {o' : Nat} {obj : PSIPMsg}
    (h : parseSIPMsg x o (m0.init len (hdrs.map fun _ => Array.replicate kh {}) (cts.map fun _ => Array.replicate kc {}))
      flags = (o', .ok, obj))
    (hF : paFramed flags obj) :
    parseSIPMsg (x ++ rest) o
      (m0.init len (hdrs.map fun _ => Array.replicate kh {}) (cts.map fun _ => Array.replicate kc {})) flags =
      (o', .ok, obj) :=
  parseSIPMsg_stable x rest o _ flags (msgOK_init x o ho m0 len kh kc hdrs cts) hfit hF.1 h (by decide)
    ((paFramed_iff flags obj).1 hF).2

/-- **(1) a message that parses alone parses identically when followed by anything**: if the text `x` parsed alone
    (from any Init object) gives OK at `x.size` with object `obj`, in a framing-definite mode, then for ANY bytes `rest`
    the call on `x ++ rest` returns exactly the same offset, verdict and object. No bookkeeping field differs. -/
theorem msg_alone_then_followed (x rest : Buf) (flags : Nat) (m0 : PSIPMsg)
    (len kh kc : Nat) (hdrs cts : Option Unit) (hfit : x.size ≤ 65535) {obj : PSIPMsg}
    (h : parseSIPMsg x 0 (m0.init len (hdrs.map fun _ => Array.replicate kh {}) (cts.map fun _ => Array.replicate kc {}))
      flags = (x.size, .ok, obj))
    (hF : paFramed flags obj) :
    parseSIPMsg (x ++ rest) 0
      (m0.init len (hdrs.map fun _ => Array.replicate kh {}) (cts.map fun _ => Array.replicate kc {})) flags =
      (x.size, .ok, obj) :=
  pa_alone_then_followed_at x rest 0 (Nat.zero_le _) flags m0 len kh kc hdrs cts hfit h hF

/-- the framing condition is necessary: if the message parsed alone is NOT framing-definite because its body is "the
    rest of the buffer" (no Content-Length, neither flag), then any non-empty continuation changes the result -/
theorem pa_alone_needs_framing (x rest : Buf) (flags : Nat) (m0 : PSIPMsg)
    (len kh kc : Nat) (hdrs cts : Option Unit) (hfit : (x ++ rest).size ≤ 65535)
    (hnf : hasFlag flags SIPMsgNoMoreDataF = false) {o' : Nat} {obj : PSIPMsg}
    (h : parseSIPMsg x 0 (m0.init len (hdrs.map fun _ => Array.replicate kh {}) (cts.map fun _ => Array.replicate kc {}))
      flags = (o', .ok, obj))
    (hx : ¬ paFramed flags obj) (hne : 0 < rest.size) :
    o' = x.size ∧
    (parseSIPMsg (x ++ rest) 0
      (m0.init len (hdrs.map fun _ => Array.replicate kh {}) (cts.map fun _ => Array.replicate kc {})) flags).1 =
        x.size + rest.size := by
  have hb : bodyToEnd flags obj := by
    by_cases hb : bodyToEnd flags obj
    · exact hb
    · exact absurd ((paFramed_iff flags obj).2 ⟨hnf, hb⟩) hx
  have hok := msgOK_init x 0 (Nat.zero_le _) m0 len kh kc hdrs cts
  have hst : (m0.init len (hdrs.map fun _ => Array.replicate kh {}) (cts.map fun _ => Array.replicate kc {})).state
      = .init := rfl
  have h1 := parseSIPMsg_bodyToEnd_grows x rest 0 _ flags hok hfit hnf h hb (Or.inl hst)
  have h2 := parseSIPMsg_bodyToEnd_changes x rest 0 _ flags hok hfit hnf h hb (Or.inl hst) hne
  exact ⟨h1.1, by rw [h2.1, h1.1]⟩

/-! ### (2) message `i` of a pipeline -/

theorem pa_smCat_cons (x : Buf) (xs : List Buf) : smCat (x :: xs) = x ++ smCat xs := by
  have := smCat_append [x] xs
  have h1 : smCat [x] = x := by unfold smCat; simp
  rw [h1] at this
  exact this

theorem pa_smCat_split (l : List Buf) (i : Nat) (hi : i < l.length) :
    smCat l = smCat (l.take i) ++ (l[i] ++ smCat (l.drop (i + 1))) := by
  have h1 : l = l.take i ++ l.drop i := (List.take_append_drop i l).symm
  have h2 : l.drop i = l[i] :: l.drop (i + 1) := List.drop_eq_getElem_cons hi
  conv => lhs; rw [h1, h2]
  rw [smCat_append, pa_smCat_cons]

theorem pa_smCat_take_succ (l : List Buf) (i : Nat) (hi : i < l.length) :
    (smCat (l.take (i + 1))).size = (smCat (l.take i)).size + l[i].size := by
  have : l.take (i + 1) = l.take i ++ [l[i]] := by
    rw [List.take_add_one]; simp [List.getElem?_eq_getElem hi]
  rw [this, smCat_append, Array.size_append]
  have h1 : smCat [l[i]] = l[i] := by unfold smCat; simp
  rw [h1]

/-- **(2) message `i` of a pipeline parses as it would alone**: `l` is a list of texts laid one after the other in one
    buffer (`smCat l`). If text `i` parsed alone (from an Init object) gives OK at its end with object `obj`, in a
    framing-definite mode, then parsing the big buffer at the offset where text `i` starts (from the same Init
    object) returns OK, the offset of the first byte of text `i+1`, and the stand-alone object with every field moved
    by the start offset (`shMsg`). Nothing is assumed about the other texts. -/
theorem pipeline_each_message_as_alone (l : List Buf) (i : Nat) (hi : i < l.length) (flags : Nat) (m0 : PSIPMsg)
    (len kh kc : Nat) (hdrs cts : Option Unit) (hfit : (smCat l).size ≤ 65535) {obj : PSIPMsg}
    (h : parseSIPMsg l[i] 0
      (m0.init len (hdrs.map fun _ => Array.replicate kh {}) (cts.map fun _ => Array.replicate kc {})) flags =
        (l[i].size, .ok, obj))
    (hF : paFramed flags obj) :
    parseSIPMsg (smCat l) (smCat (l.take i)).size
      (m0.init len (hdrs.map fun _ => Array.replicate kh {}) (cts.map fun _ => Array.replicate kc {})) flags =
      ((smCat (l.take (i + 1))).size, .ok, shMsg (smCat (l.take i)).size obj) := by
  have hs := pa_smCat_split l i hi
  rw [hs, Array.size_append, Array.size_append] at hfit
  have h1 := msg_alone_then_followed l[i] (smCat (l.drop (i + 1))) flags m0 len kh kc hdrs cts (by omega) h hF
  have h2 := pipeline_second_message_ok (smCat (l.take i)) (l[i] ++ smCat (l.drop (i + 1))) flags m0 len kh kc hdrs cts
    (by rw [Array.size_append]; omega) h1
  rw [pa_smCat_take_succ l i hi]
  conv => lhs; rw [hs]
  exact h2

/-- … and the same with the caller's actual object: any object with any history (`ScReach`), Reset before the call.
    The stand-alone parse is the one from an Init object with the capacities of that object. -/
theorem pipeline_each_message_after_reset (l : List Buf) (i : Nat) (hi : i < l.length) (flags : Nat) {m : PSIPMsg}
    (hR : ScReach m) (hfit : (smCat l).size ≤ 65535) {obj : PSIPMsg}
    (h : parseSIPMsg l[i] 0 m.reset flags = (l[i].size, .ok, obj))
    (hF : paFramed flags obj) :
    parseSIPMsg (smCat l) (smCat (l.take i)).size m.reset flags =
      ((smCat (l.take (i + 1))).size, .ok, shMsg (smCat (l.take i)).size obj) := by
  rw [sc_reset_after_history hR] at h ⊢
  exact pipeline_each_message_as_alone l i hi flags {} _ _ _ (some ()) (some ()) hfit h hF

/-! ### (3a) what Init recorded as `len(Buf)` does not influence a successful call -/

theorem pa_msgErr_not_ok (m : PSIPMsg) (o : Nat) (e : Err) (flags : Nat) (he : e ≠ .ok) {o' : Nat} {m' : PSIPMsg}
    (h : msgErr m o e flags = (o', .ok, m')) : False := by
  have := msgErr_not_ok m o e flags he
  rw [h] at this
  exact this rfl

theorem pa_msgBody_bufLen (b : Buf) (o : Nat) (m : PSIPMsg) (flags x : Nat)
    (he : (msgBody b o m flags).2.1 ≠ .moreBytes) :
    msgBody b o { m with bufLen := x } flags = msgBody b o m flags := by
  unfold msgBody msgEnd PSIPMsg.setBufs at he ⊢
  simp only at he ⊢
  repeat' split
  all_goals first | rfl | (exfalso; revert he; simp only [*, ↓reduceIte, Bool.false_eq_true]; intro he; exact he rfl)

theorem pa_msgHeaders_bufLen (b : Buf) (o : Nat) (m : PSIPMsg) (flags x : Nat) {o' : Nat} {m' : PSIPMsg}
    (h : msgHeaders b o m flags = (o', .ok, m')) : msgHeaders b o { m with bufLen := x } flags = (o', .ok, m') := by
  unfold msgHeaders at h ⊢
  show (match parseHeaders b o m.hl (some m.pv) with
    | (o', .ok, hl, hb) => msgBody b o' { { m with bufLen := x } with hl := hl, pv := hb.getD m.pv, state := .body } flags
    | (o', e, hl, hb) => msgErr { { m with bufLen := x } with hl := hl, pv := hb.getD m.pv } o' e flags) = _
  rcases hp : parseHeaders b o m.hl (some m.pv) with ⟨o1, e1, hl1, hb1⟩
  rw [hp] at h
  cases e1
  case ok =>
    simp only at h ⊢
    rw [← h]
    exact pa_msgBody_bufLen b o1 _ flags x (by rw [h]; intro hh; cases hh)
  all_goals (simp only at h; exact (pa_msgErr_not_ok _ _ _ _ (by decide) h).elim)

theorem pa_msgFLine_bufLen (b : Buf) (o : Nat) (m : PSIPMsg) (flags x : Nat) {o' : Nat} {m' : PSIPMsg}
    (h : msgFLine b o m flags = (o', .ok, m')) : msgFLine b o { m with bufLen := x } flags = (o', .ok, m') := by
  unfold msgFLine at h ⊢
  show (match parseFLine b o m.fl with
    | (o', .ok, fl) => msgHeaders b o' { { m with bufLen := x } with fl := fl, state := .headers } flags
    | (o', e, fl) => msgErr { { m with bufLen := x } with fl := fl } o' e flags) = _
  rcases hp : parseFLine b o m.fl with ⟨o1, e1, fl1⟩
  rw [hp] at h
  cases e1
  case ok =>
    simp only at h ⊢
    exact pa_msgHeaders_bufLen b o1 _ flags x h
  all_goals (simp only at h; exact (pa_msgErr_not_ok _ _ _ _ (by decide) h).elim)

/-- **a successful call does not depend on the `len(Buf)` the object carried in** (it is overwritten at the end) -/
theorem pa_ok_bufLen (b : Buf) (o : Nat) (m : PSIPMsg) (flags x : Nat) {o' : Nat} {m' : PSIPMsg}
    (h : parseSIPMsg b o m flags = (o', .ok, m')) : parseSIPMsg b o { m with bufLen := x } flags = (o', .ok, m') := by
  unfold parseSIPMsg at h ⊢
  show (match m.state with
    | .init => msgFLine b o { { m with bufLen := x } with offs := o, state := .fline } flags
    | .fline => msgFLine b o { m with bufLen := x } flags
    | .headers => msgHeaders b o { m with bufLen := x } flags
    | .body => msgBody b o { m with bufLen := x } flags
    | _ => msgErr { m with bufLen := x } o .bug flags) = _
  cases hst : m.state <;> rw [hst] at h <;> simp only at h ⊢
  case init => exact pa_msgFLine_bufLen b o _ flags x h
  case fline => have := pa_msgFLine_bufLen b o m flags x h; rw [hst] at this; exact this
  case headers => have := pa_msgHeaders_bufLen b o m flags x h; rw [hst] at this; exact this
  case body =>
    have := pa_msgBody_bufLen b o m flags x (by rw [h]; intro hh; cases hh)
    rw [hst] at this; rw [← h]; exact this
  all_goals exact (pa_msgErr_not_ok _ _ _ _ (by decide) h).elim

/-- Init objects that differ only in the recorded length -/
theorem pa_init_bufLen (m0 : PSIPMsg) (len x : Nat) (hdrs : Option (Array Hdr)) (cts : Option (Array PFromBody)) :
    ({ m0.init len hdrs cts with bufLen := x } : PSIPMsg) = m0.init x hdrs cts := rfl

/-! ### (3b) a message parsed OK from a new object has at least 14 bytes -/

theorem pa_ok_size_ge (b : Buf) (o : Nat) (m : PSIPMsg) (flags : Nat) (hst : m.state = .init)
    (hfl : m.fl.state = .init) {o' : Nat} {m' : PSIPMsg} (h : parseSIPMsg b o m flags = (o', .ok, m')) :
    o + 14 ≤ b.size := by
  by_cases hlt : b.size - o < 14
  · exfalso
    unfold parseSIPMsg at h
    rw [hst] at h
    simp only at h
    unfold msgFLine at h
    have hp : parseFLine b o m.fl = (o, .moreBytes, m.fl) := by
      unfold parseFLine
      rw [hfl]
      simp only [hlt, ↓reduceIte]
    simp only [hp] at h
    exact pa_msgErr_not_ok _ _ _ _ (by decide) h
  · omega

/-! ### (3c) ParseSIPMsg never changes the capacity of the contact array -/

theorem pa_cap_contactsLoop (b : Buf) (offs : Nat) (c : PContacts) :
    (contactsLoop b offs c).2.2.vals.size = c.vals.size := by
  induction hk : b.size - offs using Nat.strongRecOn generalizing offs c with
  | _ k ih =>
    rw [contactsLoop]
    simp only
    rcases hp : parseOneContact b offs c.cur with ⟨next, e, pf⟩
    have hacc : ((c.setCur pf).account pf).vals.size = c.vals.size := by rw [account_vals, setCur_size]
    cases e
    case ok => simp only; exact hacc
    case moreValues =>
      simp only
      split
      · rw [ih (b.size - next) (by omega) next _ rfl]
        split <;> exact hacc
      · simp only
        split <;> exact hacc
    case moreBytes => simp only; exact setCur_size c pf
    all_goals
      simp only
      split
      · exact setCur_size c pf
      · rfl

theorem pa_cap_parseAll (b : Buf) (offs : Nat) (c : PContacts) :
    (parseAllContactValues b offs c).2.2.vals.size = c.vals.size := by
  unfold parseAllContactValues
  rw [pa_cap_contactsLoop]
  split <;> rfl

/-- the contact array of the header values (if any) has capacity `k` -/
def PaCap (k : Nat) (hb : Option PHdrVals) : Prop := ∀ hv, hb = some hv → hv.contacts.vals.size = k

theorem PaCap_some {k : Nat} {hv : PHdrVals} (h : hv.contacts.vals.size = k) : PaCap k (some hv) := by
  intro hv' hh; cases hh; exact h

theorem pa_cap_parseBody (k : Nat) (b : Buf) (o : Nat) (h : Hdr) (hb : Option PHdrVals) (H : PaCap k hb) :
    PaCap k (parseBody b o h hb).2.2.2 := by
  unfold parseBody
  cases hb with
  | none => exact H
  | some hv =>
  have H0 : hv.contacts.vals.size = k := H hv rfl
  simp only
  by_cases h1 : (h.type == HdrFrom) = true
  · simp only [h1, ↓reduceIte]
    split
    · exact PaCap_some H0
    · exact H
  simp only [h1, Bool.false_eq_true, ↓reduceIte]
  by_cases h2 : (h.type == HdrTo) = true
  · simp only [h2, ↓reduceIte]
    split
    · exact PaCap_some H0
    · exact H
  simp only [h2, Bool.false_eq_true, ↓reduceIte]
  by_cases h3 : (h.type == HdrCallID) = true
  · simp only [h3, ↓reduceIte]
    split
    · exact PaCap_some H0
    · exact H
  simp only [h3, Bool.false_eq_true, ↓reduceIte]
  by_cases h4 : (h.type == HdrCSeq) = true
  · simp only [h4, ↓reduceIte]
    split
    · exact PaCap_some H0
    · exact H
  simp only [h4, Bool.false_eq_true, ↓reduceIte]
  by_cases h5 : (h.type == HdrCLen) = true
  · simp only [h5, ↓reduceIte]
    split
    · exact PaCap_some H0
    · exact H
  simp only [h5, Bool.false_eq_true, ↓reduceIte]
  by_cases h6 : (h.type == HdrContact) = true
  · simp only [h6, ↓reduceIte]
    apply PaCap_some
    show (parseAllContactValues b o _).2.2.vals.size = k
    rw [pa_cap_parseAll]
    split <;> exact H0
  simp only [h6, Bool.false_eq_true, ↓reduceIte]
  by_cases h7 : (h.type == HdrExpires) = true
  · simp only [h7, ↓reduceIte]
    split
    · exact PaCap_some H0
    · exact H
  simp only [h7, Bool.false_eq_true, ↓reduceIte]
  by_cases h8 : (h.type == HdrPAI) = true
  · simp only [h8, ↓reduceIte]
    exact PaCap_some H0
  simp only [h8, Bool.false_eq_true, ↓reduceIte]
  exact H

theorem pa_cap_hlAfterColon (k : Nat) (b : Buf) (i : Nat) (h : Hdr) (hb : Option PHdrVals) (H : PaCap k hb) :
    PaCap k (scStepSt (hlAfterColon b i h hb)).2 := by
  unfold hlAfterColon
  split
  · exact H
  · rename_i nm _
    have hp := pa_cap_parseBody k b i { h with type := getHdrType nm } hb H
    simp only
    split
    · exact hp
    · exact hp

theorem pa_cap_hlName (k : Nat) (b : Buf) (i : Nat) (h : Hdr) (hb : Option PHdrVals) (H : PaCap k hb) :
    PaCap k (scStepSt (hlName b i h hb)).2 := by
  unfold hlName
  simp only
  split
  · exact H
  · split
    · split <;> exact H
    · split
      · split
        · exact H
        · exact pa_cap_hlAfterColon k b _ _ hb H
      · exact H

theorem pa_cap_hlValEnd (k : Nat) (b : Buf) (i : Nat) (h : Hdr) (hb : Option PHdrVals) (H : PaCap k hb) :
    PaCap k (scStepSt (hlValEnd b i h hb)).2 := by
  unfold hlValEnd
  rcases hsk : skipLWS b i 0 with ⟨n1, crl, e⟩
  cases e <;> simp only <;> exact H

theorem pa_cap_hlCont (k : Nat) (b : Buf) (i : Nat) (h : Hdr) (hb : Option PHdrVals) (H : PaCap k hb) :
    PaCap k (scStepSt (hlCont b i h hb)).2 := by
  unfold hlCont
  cases hb with
  | none => exact H
  | some hv =>
    have H0 : hv.contacts.vals.size = k := H hv rfl
    simp only
    cases h.state <;> simp only
    case hContact =>
      apply PaCap_some
      show (parseAllContactValues b i hv.contacts).2.2.vals.size = k
      rw [pa_cap_parseAll]; exact H0
    all_goals first | exact PaCap_some H0 | exact H

theorem pa_cap_hlStep (k : Nat) (b : Buf) (i : Nat) (c : UInt8) (st : HLσ) (H : PaCap k st.2) :
    PaCap k (scStepSt (hlStep b i c st)).2 := by
  obtain ⟨h, hv⟩ := st
  unfold hlStep
  simp only
  cases h.state <;> simp only
  case init =>
    split
    · split
      · exact H
      · split <;> exact H
    · split
      · exact H
      · exact pa_cap_hlName k b i _ hv H
  case name => exact pa_cap_hlName k b i h hv H
  case nameEnd =>
    split
    · exact H
    · split
      · exact pa_cap_hlAfterColon k b _ _ hv H
      · exact H
  case bodyStart =>
    rcases hsk : skipLWS b i 0 with ⟨n1, crl, e⟩
    cases e <;> simp only <;> exact H
  case val =>
    split
    · exact H
    · exact pa_cap_hlValEnd k b _ _ hv H
  case valEnd => exact pa_cap_hlValEnd k b i h hv H
  case fin => exact H
  all_goals exact pa_cap_hlCont k b i h hv H

theorem pa_cap_parseHdrLine (k : Nat) (b : Buf) (o : Nat) (h : Hdr) (hb : Option PHdrVals) (H : PaCap k hb) :
    PaCap k (parseHdrLine b o h hb).2.2.2 := by
  have key := runLoop_inv hlMachine b (fun _ st => PaCap k st.2) (fun r => PaCap k r.2.2.2)
    (by
      intro i c st i' st' _ hP hs
      have := pa_cap_hlStep k b i c st hP
      rw [show hlMachine.step b i c st = hlStep b i c st from rfl] at hs
      rw [hs] at this
      exact ⟨fun _ => this, fun _ => this⟩)
    (by
      intro i c st o2 e2 st2 _ hP hs
      have := pa_cap_hlStep k b i c st hP
      rw [show hlMachine.step b i c st = hlStep b i c st from rfl] at hs
      rw [hs] at this
      exact this)
    (by intro i st _ hP; exact hP)
    o (h, hb) H
  unfold parseHdrLine
  rcases hrl : runLoop hlMachine b o (h, hb) with ⟨o1, e1, h1, hb1⟩
  rw [hrl] at key
  exact key

theorem pa_cap_parseHeaders (k : Nat) (b : Buf) (offs : Nat) (hl : HdrLst) (hb : Option PHdrVals) (H : PaCap k hb) :
    PaCap k (parseHeaders b offs hl hb).2.2.2 := by
  induction hk : b.size - offs using Nat.strongRecOn generalizing offs hl hb with
  | _ n ih =>
    rw [parseHeaders.eq_1 b offs hl hb]
    by_cases hlt : offs < b.size
    · rw [if_pos hlt]
      have hline := pa_cap_parseHdrLine k b offs hl.cur hb H
      rcases hp1 : parseHdrLine b offs hl.cur hb with ⟨n1, e1, g1, v1⟩
      rw [hp1] at hline
      cases e1 <;> simp only
      case ok =>
        by_cases hg : offs < n1
        · rw [if_pos hg]
          exact ih (b.size - n1) (by omega) n1 _ v1 hline rfl
        · rw [if_neg hg]; exact hline
      case empty => split <;> exact hline
      all_goals exact hline
    · rw [if_neg hlt]; exact H

/-- **ParseSIPMsg never changes the capacity of the contact array** (any buffer, offset, flags, object, verdict) -/
theorem pa_cap_parseSIPMsg (b : Buf) (o : Nat) (m : PSIPMsg) (flags : Nat) :
    (parseSIPMsg b o m flags).2.2.pv.contacts.vals.size = m.pv.contacts.vals.size := by
  have hH : ∀ (o : Nat) (m : PSIPMsg),
      (msgHeaders b o m flags).2.2.pv.contacts.vals.size = m.pv.contacts.vals.size := by
    intro o m
    unfold msgHeaders
    have hs := pa_cap_parseHeaders m.pv.contacts.vals.size b o m.hl (some m.pv) (PaCap_some rfl)
    rcases hp : parseHeaders b o m.hl (some m.pv) with ⟨o1, e1, hl1, hb1⟩
    rw [hp] at hs
    have hpv : (hb1.getD m.pv).contacts.vals.size = m.pv.contacts.vals.size := by
      cases hb1 with
      | none => rfl
      | some hv => exact hs hv rfl
    cases e1 <;> simp only
    case ok => rw [(msgBody_done_pv b o1 _ flags).2]; exact hpv
    all_goals (rw [sc_pv_msgErr]; exact hpv)
  have hF : ∀ (o : Nat) (m : PSIPMsg),
      (msgFLine b o m flags).2.2.pv.contacts.vals.size = m.pv.contacts.vals.size := by
    intro o m
    unfold msgFLine
    rcases hp : parseFLine b o m.fl with ⟨o1, e1, fl1⟩
    cases e1 <;> simp only
    case ok => exact hH o1 _
    all_goals rw [sc_pv_msgErr]
  unfold parseSIPMsg
  cases hst : m.state <;> simp only
  case init => exact hF o _
  case fline => exact hF o m
  case headers => exact hH o m
  case body => rw [(msgBody_done_pv b o m flags).2]
  all_goals rw [sc_pv_msgErr]

/-! ### (3d) the no-more-data mode: a successful call of the more-data mode is reproduced exactly -/

theorem pa_msgBody_flags (b : Buf) (o : Nat) (m : PSIPMsg) (flags flags' : Nat)
    (hs : hasFlag flags' SIPMsgSkipBodyF = hasFlag flags SIPMsgSkipBodyF)
    (hr : hasFlag flags' SIPMsgCLenReqF = hasFlag flags SIPMsgCLenReqF)
    (hn : hasFlag flags SIPMsgNoMoreDataF = false)
    (he : (msgBody b o m flags).2.1 ≠ .moreBytes) :
    msgBody b o m flags' = msgBody b o m flags := by
  unfold msgBody at he ⊢
  simp only [hs, hr] at he ⊢
  by_cases h1 : hasFlag flags SIPMsgSkipBodyF = true
  · simp only [h1, ↓reduceIte]
  · simp only [h1, Bool.false_eq_true, ↓reduceIte] at he ⊢
    by_cases h2 : m.pv.clen.parsed = true
    · simp only [h2, ↓reduceIte] at he ⊢
      by_cases h3 : o + m.pv.clen.uiVal > b.size
      · simp only [h3, ↓reduceIte, hn, Bool.false_eq_true] at he
        exact absurd rfl he
      · simp only [h3, ↓reduceIte]
    · simp only [h2, Bool.false_eq_true, ↓reduceIte]

theorem pa_msgHeaders_flags (b : Buf) (o : Nat) (m : PSIPMsg) (flags flags' : Nat)
    (hs : hasFlag flags' SIPMsgSkipBodyF = hasFlag flags SIPMsgSkipBodyF)
    (hr : hasFlag flags' SIPMsgCLenReqF = hasFlag flags SIPMsgCLenReqF)
    (hn : hasFlag flags SIPMsgNoMoreDataF = false) {o' : Nat} {m' : PSIPMsg}
    (h : msgHeaders b o m flags = (o', .ok, m')) : msgHeaders b o m flags' = (o', .ok, m') := by
  unfold msgHeaders at h ⊢
  rcases hp : parseHeaders b o m.hl (some m.pv) with ⟨o1, e1, hl1, hb1⟩
  rw [hp] at h
  cases e1
  case ok =>
    simp only at h ⊢
    rw [← h]
    exact pa_msgBody_flags b o1 _ flags flags' hs hr hn (by rw [h]; intro hh; cases hh)
  all_goals (simp only at h; exact (pa_msgErr_not_ok _ _ _ _ (by decide) h).elim)

theorem pa_msgFLine_flags (b : Buf) (o : Nat) (m : PSIPMsg) (flags flags' : Nat)
    (hs : hasFlag flags' SIPMsgSkipBodyF = hasFlag flags SIPMsgSkipBodyF)
    (hr : hasFlag flags' SIPMsgCLenReqF = hasFlag flags SIPMsgCLenReqF)
    (hn : hasFlag flags SIPMsgNoMoreDataF = false) {o' : Nat} {m' : PSIPMsg}
    (h : msgFLine b o m flags = (o', .ok, m')) : msgFLine b o m flags' = (o', .ok, m') := by
  unfold msgFLine at h ⊢
  rcases hp : parseFLine b o m.fl with ⟨o1, e1, fl1⟩
  rw [hp] at h
  cases e1
  case ok =>
    simp only at h ⊢
    exact pa_msgHeaders_flags b o1 _ flags flags' hs hr hn h
  all_goals (simp only at h; exact (pa_msgErr_not_ok _ _ _ _ (by decide) h).elim)

/-- **a call that succeeds without the no-more-data flag gives exactly the same result with it** (same skip-body
    and require-Content-Length flags): the flag only turns "more bytes needed" into a verdict -/
theorem pa_ok_any_nomore (b : Buf) (o : Nat) (m : PSIPMsg) (flags flags' : Nat)
    (hs : hasFlag flags' SIPMsgSkipBodyF = hasFlag flags SIPMsgSkipBodyF)
    (hr : hasFlag flags' SIPMsgCLenReqF = hasFlag flags SIPMsgCLenReqF)
    (hn : hasFlag flags SIPMsgNoMoreDataF = false) {o' : Nat} {m' : PSIPMsg}
    (h : parseSIPMsg b o m flags = (o', .ok, m')) : parseSIPMsg b o m flags' = (o', .ok, m') := by
  unfold parseSIPMsg at h ⊢
  cases hst : m.state <;> rw [hst] at h <;> simp only at h ⊢
  case init => exact pa_msgFLine_flags b o _ flags flags' hs hr hn h
  case fline => exact pa_msgFLine_flags b o m flags flags' hs hr hn h
  case headers => exact pa_msgHeaders_flags b o m flags flags' hs hr hn h
  case body => rw [← h]; exact pa_msgBody_flags b o m flags flags' hs hr hn (by rw [h]; intro hh; cases hh)
  all_goals exact (pa_msgErr_not_ok _ _ _ _ (by decide) h).elim

/-- **(2) in the no-more-data mode**: message `i` is complete and framing-definite under `flags` (no-more-data not
    set); the pipelined call may use `flags'` = the same flags with the no-more-data flag set (e.g. the whole datagram
    is in the buffer) and still returns the moved stand-alone object. -/
theorem pipeline_each_message_as_alone_nomore (l : List Buf) (i : Nat) (hi : i < l.length) (flags flags' : Nat)
    (hs : hasFlag flags' SIPMsgSkipBodyF = hasFlag flags SIPMsgSkipBodyF)
    (hr : hasFlag flags' SIPMsgCLenReqF = hasFlag flags SIPMsgCLenReqF)
    (m0 : PSIPMsg) (len kh kc : Nat) (hdrs cts : Option Unit) (hfit : (smCat l).size ≤ 65535) {obj : PSIPMsg}
    (h : parseSIPMsg l[i] 0
      (m0.init len (hdrs.map fun _ => Array.replicate kh {}) (cts.map fun _ => Array.replicate kc {})) flags =
        (l[i].size, .ok, obj))
    (hF : paFramed flags obj) :
    parseSIPMsg (smCat l) (smCat (l.take i)).size
      (m0.init len (hdrs.map fun _ => Array.replicate kh {}) (cts.map fun _ => Array.replicate kc {})) flags' =
      ((smCat (l.take (i + 1))).size, .ok, shMsg (smCat (l.take i)).size obj) :=
  pa_ok_any_nomore _ _ _ flags flags' hs hr hF.1
    (pipeline_each_message_as_alone l i hi flags m0 len kh kc hdrs cts hfit h hF)

/-! ### (3) the loop a caller runs over a buffer of pipelined messages -/

/-- prepend a parsed message to the result of the rest of the loop -/
def paCons (m : PSIPMsg) (r : List PSIPMsg × Nat × Err) : List PSIPMsg × Nat × Err := (m :: r.1, r.2)

/-- the caller's loop: while bytes remain, Reset the object, call ParseSIPMsg at the current offset, keep the parsed
    message and continue at the returned offset with the same object. Returns the parsed messages, the final offset
    and the final verdict: OK = the buffer is exhausted; anything else is the verdict of the call that stopped the
    loop (`lbug`, a model artefact, if an OK call made no progress or went past the buffer; never happens). -/
def paParseAll (b : Buf) (flags : Nat) (o : Nat) (m : PSIPMsg) : List PSIPMsg × Nat × Err :=
  if o < b.size then
    if (parseSIPMsg b o m.reset flags).2.1 = .ok then
      if _h : o < (parseSIPMsg b o m.reset flags).1 ∧ (parseSIPMsg b o m.reset flags).1 ≤ b.size then
        paCons (parseSIPMsg b o m.reset flags).2.2
          (paParseAll b flags (parseSIPMsg b o m.reset flags).1 (parseSIPMsg b o m.reset flags).2.2)
      else ([], (parseSIPMsg b o m.reset flags).1, .lbug)
    else ([], (parseSIPMsg b o m.reset flags).1, (parseSIPMsg b o m.reset flags).2.1)
  else ([], o, .ok)
termination_by b.size - o
decreasing_by omega

/-- the Init object with caller arrays of capacities `kh` (headers) and `kc` (contacts) -/
def paInit (kh kc : Nat) : PSIPMsg :=
  ({} : PSIPMsg).init 0 ((some ()).map fun _ => Array.replicate kh {}) ((some ()).map fun _ => Array.replicate kc {})

/-- the text `x` is a complete message on its own in a framing-definite mode: parsed alone from an Init object (with
    capacities `kh`, `kc`) it gives OK exactly at its end -/
def paAloneOK (flags kh kc : Nat) (x : Buf) : Prop :=
  (parseSIPMsg x 0 (paInit kh kc) flags).1 = x.size ∧ (parseSIPMsg x 0 (paInit kh kc) flags).2.1 = .ok ∧
    paFramed flags (parseSIPMsg x 0 (paInit kh kc) flags).2.2

/-- the object of the text `x` parsed alone -/
def paAlone (flags kh kc : Nat) (x : Buf) : PSIPMsg := (parseSIPMsg x 0 (paInit kh kc) flags).2.2

/-- the stand-alone objects, each moved by the total size of the texts before it (`k` = what precedes the list) -/
def paMoved (flags kh kc : Nat) : Nat → List Buf → List PSIPMsg
  | _, [] => []
  | k, x :: xs => shMsg k (paAlone flags kh kc x) :: paMoved flags kh kc (k + x.size) xs

theorem paMoved_length (flags kh kc k : Nat) (l : List Buf) : (paMoved flags kh kc k l).length = l.length := by
  induction l generalizing k with
  | nil => rfl
  | cons x xs ih => simp [paMoved, ih]

/-- entry `i` of the expected result: the stand-alone object of text `i` moved by the start offset of text `i` -/
theorem paMoved_get (flags kh kc k : Nat) (l : List Buf) (i : Nat) (hi : i < l.length) :
    (paMoved flags kh kc k l)[i]? = some (shMsg (k + (smCat (l.take i)).size) (paAlone flags kh kc l[i])) := by
  induction l generalizing k i with
  | nil => cases hi
  | cons x xs ih =>
    cases i with
    | zero =>
      have : smCat ([] : List Buf) = #[] := rfl
      simp [paMoved, this]
    | succ j =>
      have hj : j < xs.length := by simpa using hi
      have h1 := ih (k + x.size) j hj
      simp only [paMoved, List.getElem?_cons_succ, List.take_succ_cons, List.getElem_cons_succ]
      rw [h1, pa_smCat_cons, Array.size_append, Nat.add_assoc]

theorem pa_alone_eq {flags kh kc : Nat} {x : Buf} (h : paAloneOK flags kh kc x) :
    parseSIPMsg x 0 (paInit kh kc) flags = (x.size, .ok, paAlone flags kh kc x) :=
  Prod.ext h.1 (Prod.ext h.2.1 rfl)

/-- one turn of the loop: after any history, Reset + ParseSIPMsg at the start of a complete framing-definite message
    `x` that is preceded by `pre` and followed by `rest` -/
theorem pa_turn (pre x rest : Buf) (flags flags' : Nat)
    (hs : hasFlag flags' SIPMsgSkipBodyF = hasFlag flags SIPMsgSkipBodyF)
    (hr : hasFlag flags' SIPMsgCLenReqF = hasFlag flags SIPMsgCLenReqF) {m : PSIPMsg} (hR : ScReach m)
    (hfit : (pre ++ (x ++ rest)).size ≤ 65535)
    (hx : paAloneOK flags m.hl.hdrs.size m.pv.contacts.vals.size x) :
    parseSIPMsg (pre ++ (x ++ rest)) pre.size m.reset flags' =
      (pre.size + x.size, .ok, shMsg pre.size (paAlone flags m.hl.hdrs.size m.pv.contacts.vals.size x)) := by
  apply pa_ok_any_nomore _ _ _ flags flags' hs hr hx.2.2.1
  rw [Array.size_append, Array.size_append] at hfit
  rw [sc_reset_after_history hR]
  have h0 := pa_ok_bufLen x 0 _ flags m.bufLen (pa_alone_eq hx)
  rw [show ({ paInit m.hl.hdrs.size m.pv.contacts.vals.size with bufLen := m.bufLen } : PSIPMsg) =
    ({} : PSIPMsg).init m.bufLen ((some ()).map fun _ => Array.replicate m.hl.hdrs.size {})
      ((some ()).map fun _ => Array.replicate m.pv.contacts.vals.size {}) from rfl] at h0
  have h1 := msg_alone_then_followed x rest flags {} m.bufLen _ _ (some ()) (some ()) (by omega) h0 hx.2.2
  exact pipeline_second_message_ok pre (x ++ rest) flags {} m.bufLen _ _ (some ()) (some ())
    (by rw [Array.size_append]; omega) h1

/-- the loop over `pre ++ smCat l`, started at `pre.size` -/
theorem pa_parseAll_from (l : List Buf) (flags flags' kh kc : Nat)
    (hs : hasFlag flags' SIPMsgSkipBodyF = hasFlag flags SIPMsgSkipBodyF)
    (hr : hasFlag flags' SIPMsgCLenReqF = hasFlag flags SIPMsgCLenReqF)
    (hall : ∀ x ∈ l, paAloneOK flags kh kc x) :
    ∀ (pre : Buf) (m : PSIPMsg), ScReach m → m.hl.hdrs.size = kh → m.pv.contacts.vals.size = kc →
      (pre ++ smCat l).size ≤ 65535 →
      paParseAll (pre ++ smCat l) flags' pre.size m = (paMoved flags kh kc pre.size l, (pre ++ smCat l).size, .ok) := by
  induction l with
  | nil =>
    intro pre m _ _ _ _
    have : smCat ([] : List Buf) = #[] := rfl
    rw [this, Array.append_empty, paParseAll]
    simp [paMoved]
  | cons x xs ih =>
    intro pre m hR hkh hkc hfit
    have hx : paAloneOK flags m.hl.hdrs.size m.pv.contacts.vals.size x := by
      rw [hkh, hkc]; exact hall x (List.mem_cons_self ..)
    rw [pa_smCat_cons] at hfit ⊢
    have ht := pa_turn pre x (smCat xs) flags flags' hs hr hR hfit hx
    rw [hkh, hkc] at ht
    have hsz : 14 ≤ x.size := by
      have := pa_ok_size_ge x 0 (paInit kh kc) flags rfl rfl (pa_alone_eq (hall x (List.mem_cons_self ..)))
      omega
    have hR' : ScReach (shMsg pre.size (paAlone flags kh kc x)) := by
      have := ScReach.parse (pre ++ (x ++ smCat xs)) pre.size flags' (ScReach.reset hR)
      rw [ht] at this; exact this
    have hkh' : (shMsg pre.size (paAlone flags kh kc x)).hl.hdrs.size = kh := by
      have := sc_size_parseSIPMsg (pre ++ (x ++ smCat xs)) pre.size m.reset flags'
      rw [ht] at this
      rw [this, ← hkh]
      show (m.hl.reset.hdrs).size = _
      unfold HdrLst.reset; simp
    have hkc' : (shMsg pre.size (paAlone flags kh kc x)).pv.contacts.vals.size = kc := by
      have := pa_cap_parseSIPMsg (pre ++ (x ++ smCat xs)) pre.size m.reset flags'
      rw [ht] at this
      rw [this, sc_reset_after_history hR, ← hkc]
      show (Array.replicate m.pv.contacts.vals.size ({} : PFromBody)).size = _
      simp
    have hassoc : pre ++ (x ++ smCat xs) = (pre ++ x) ++ smCat xs := (Array.append_assoc ..).symm
    have hrec := ih (fun y hy => hall y (List.mem_cons_of_mem _ hy)) (pre ++ x) _ hR' hkh' hkc'
      (by rw [← hassoc]; exact hfit)
    rw [Array.size_append] at hrec
    rw [paParseAll]
    have hlt : pre.size < (pre ++ (x ++ smCat xs)).size := by
      rw [Array.size_append, Array.size_append]; omega
    have hle : pre.size + x.size ≤ (pre ++ (x ++ smCat xs)).size := by
      rw [Array.size_append, Array.size_append]; omega
    rw [if_pos hlt, ht]
    simp only [↓reduceIte]
    rw [dif_pos ⟨by omega, hle⟩]
    rw [hassoc, hrec]
    rfl

/-- **(3) the caller's loop over a buffer of pipelined messages**: the buffer holds the texts `l` one after the
    other, each of which is a complete message in a framing-definite mode when parsed alone (from an Init object with
    the capacities of the caller's object). Starting at offset 0 with an object `m` of any history, the loop "Reset,
    ParseSIPMsg, continue at the returned offset" returns exactly the stand-alone objects, message `i` moved by the
    total size of the messages before it, and stops with OK at the end of the buffer. -/
theorem parseAll_pipeline (l : List Buf) (flags : Nat) {m : PSIPMsg} (hR : ScReach m)
    (hfit : (smCat l).size ≤ 65535)
    (hall : ∀ x ∈ l, paAloneOK flags m.hl.hdrs.size m.pv.contacts.vals.size x) :
    paParseAll (smCat l) flags 0 m =
      (paMoved flags m.hl.hdrs.size m.pv.contacts.vals.size 0 l, (smCat l).size, .ok) := by
  have := pa_parseAll_from l flags flags _ _ rfl rfl hall #[] m hR rfl rfl (by simpa using hfit)
  simpa using this

/-- **(3) in the no-more-data mode**: the messages are complete and framing-definite under `flags` (no-more-data not
    set); the loop may run with `flags'` = the same flags plus the no-more-data flag and returns the same list -/
theorem parseAll_pipeline_nomore (l : List Buf) (flags flags' : Nat)
    (hs : hasFlag flags' SIPMsgSkipBodyF = hasFlag flags SIPMsgSkipBodyF)
    (hr : hasFlag flags' SIPMsgCLenReqF = hasFlag flags SIPMsgCLenReqF) {m : PSIPMsg} (hR : ScReach m)
    (hfit : (smCat l).size ≤ 65535)
    (hall : ∀ x ∈ l, paAloneOK flags m.hl.hdrs.size m.pv.contacts.vals.size x) :
    paParseAll (smCat l) flags' 0 m =
      (paMoved flags m.hl.hdrs.size m.pv.contacts.vals.size 0 l, (smCat l).size, .ok) := by
  have := pa_parseAll_from l flags flags' _ _ hs hr hall #[] m hR rfl rfl (by simpa using hfit)
  simpa using this


/-- … read per message: the loop returns as many objects as there are messages, and object `i` is the stand-alone object
    of message `i` moved by the offset where message `i` starts -/
theorem parseAll_pipeline_get (l : List Buf) (flags flags' : Nat)
    (hs : hasFlag flags' SIPMsgSkipBodyF = hasFlag flags SIPMsgSkipBodyF)
    (hr : hasFlag flags' SIPMsgCLenReqF = hasFlag flags SIPMsgCLenReqF) {m : PSIPMsg} (hR : ScReach m)
    (hfit : (smCat l).size ≤ 65535)
    (hall : ∀ x ∈ l, paAloneOK flags m.hl.hdrs.size m.pv.contacts.vals.size x) :
    (paParseAll (smCat l) flags' 0 m).1.length = l.length ∧
    ∀ (i : Nat) (hi : i < l.length), (paParseAll (smCat l) flags' 0 m).1[i]? =
      some (shMsg (smCat (l.take i)).size (paAlone flags m.hl.hdrs.size m.pv.contacts.vals.size l[i])) := by
  rw [parseAll_pipeline_nomore l flags flags' hs hr hR hfit hall]
  refine ⟨paMoved_length .., fun i hi => ?_⟩
  have := paMoved_get flags m.hl.hdrs.size m.pv.contacts.vals.size 0 l i hi
  rw [Nat.zero_add] at this
  exact this

/-! ### tests / non-vacuity (closed computations by `decide +kernel`; examples, not the general claims) -/

/-- test: a request with a 2-byte body announced by Content-Length -/
def paExReq : Buf :=
  "OPTIONS sip:a@b SIP/2.0\r\nFrom: <sip:x@y>;tag=1\r\nCSeq: 7 OPTIONS\r\nContact: <sip:c@d>\r\nContent-Length: 2\r\n\r\nhi".toUTF8.data

/-- test: a reply with an empty body (compact Content-Length) -/
def paExRpl : Buf := "SIP/2.0 200 OK\r\nCall-ID: q@w\r\nl: 0\r\n\r\n".toUTF8.data

/-- test: a request without Content-Length -/
def paExNoCLen : Buf := "OPTIONS sip:a@b SIP/2.0\r\nCSeq: 7 OPTIONS\r\n\r\n".toUTF8.data

instance (flags : Nat) (m : PSIPMsg) : Decidable (paFramed flags m) := by unfold paFramed; infer_instance
instance (flags kh kc : Nat) (x : Buf) : Decidable (paAloneOK flags kh kc x) := by unfold paAloneOK; infer_instance

-- the hypotheses of (1)–(3) are satisfiable: Content-Length present, no flags
example : paAloneOK 0 10 10 paExReq := by decide +kernel
example : paAloneOK 0 10 10 paExRpl := by decide +kernel
-- … require-Content-Length mode without a Content-Length header (body empty), and skip-body mode
example : paAloneOK 2 10 10 paExNoCLen := by decide +kernel
example : paAloneOK 1 10 10 paExNoCLen := by decide +kernel
-- … but not the mode where the body is the rest of the buffer, nor the no-more-data mode
example : ¬ paAloneOK 0 10 10 paExNoCLen := by decide +kernel
example : ¬ paAloneOK 4 10 10 paExReq := by decide +kernel

-- an instance of (3): three messages back to back, object fresh from Init
example : paParseAll (smCat [paExReq, paExRpl, paExReq]) 0 0 (paInit 10 10) =
    (paMoved 0 10 10 0 [paExReq, paExRpl, paExReq], (smCat [paExReq, paExRpl, paExReq]).size, .ok) :=
  parseAll_pipeline [paExReq, paExRpl, paExReq] 0 (ScReach.init {} 0 10 10 (some ()) (some ())) (by decide +kernel)
    (by intro x hx; simp only [List.mem_cons, List.not_mem_nil, or_false] at hx
        rcases hx with rfl | rfl | rfl <;> decide +kernel)

-- a run computed directly (test of the loop definition): 2 messages, stops with OK at the end of the buffer, the
-- second message starts where the first ended
example :
    (paParseAll (paExReq ++ paExRpl) 0 0 (paInit 10 10)).2 = (paExReq.size + paExRpl.size, Err.ok) ∧
    ((paParseAll (paExReq ++ paExRpl) 0 0 (paInit 10 10)).1.map (fun m => (m.rawOffs, m.rawLen, m.body.len))) =
      [(0, paExReq.size, 2), (paExReq.size, paExRpl.size, 0)] := by
  decide +kernel

-- the loop stops with the verdict of the failing call: an incomplete last message gives MoreBytes at its start
example :
    (paParseAll (paExReq ++ paExReq.extract 0 40) 0 0 (paInit 10 10)).2.2 = Err.moreBytes ∧
    (paParseAll (paExReq ++ paExReq.extract 0 40) 0 0 (paInit 10 10)).1.length = 1 := by
  decide +kernel

-- why "framing-definite" is needed. (a) no Content-Length, no flags: alone the body is empty, followed by another
-- message the body swallows it
example :
    (parseSIPMsg paExNoCLen 0 (paInit 10 10) 0).1 = paExNoCLen.size ∧
    (parseSIPMsg paExNoCLen 0 (paInit 10 10) 0).2.1 = Err.ok ∧
    (parseSIPMsg (paExNoCLen ++ paExRpl) 0 (paInit 10 10) 0).1 = paExNoCLen.size + paExRpl.size := by
  decide +kernel

/-- test: Content-Length announces 5 bytes, only 2 are there -/
def paExShort : Buf := "OPTIONS sip:a@b SIP/2.0\r\nCSeq: 7 OPTIONS\r\nContent-Length: 5\r\n\r\nhi".toUTF8.data

-- (b) the no-more-data flag: alone the truncated body is accepted at the end of the text; followed by another message
-- the 5 announced bytes are taken from it
example :
    (parseSIPMsg paExShort 0 (paInit 10 10) 4).1 = paExShort.size ∧
    (parseSIPMsg paExShort 0 (paInit 10 10) 4).2.1 = Err.ok ∧
    (parseSIPMsg paExShort 0 (paInit 10 10) 4).2.2.pv.clen.parsed = true ∧
    (parseSIPMsg (paExShort ++ paExRpl) 0 (paInit 10 10) 4).1 = paExShort.size + 3 ∧
    (parseSIPMsg (paExShort ++ paExRpl) 0 (paInit 10 10) 4).2.1 = Err.ok := by
  decide +kernel

end Sipsp
