/-
  Sipsp.Proofs.Range — the offset returned by a header-value parser lies in [start, len(buf)], whatever the
  verdict (Call-ID, unsigned values, Content-Length on non-error verdicts, CSeq).
-/
import Sipsp.Proofs.CallID
import Sipsp.Proofs.UInt
import Sipsp.Proofs.CSeq
import Sipsp.Proofs.Progress

namespace Sipsp

variable {σ : Type}

theorem runLoop_range (m : Machine σ) (b : Buf) (hp : Progress m)
    (hd : ∀ i c st o e st', b[i]? = some c → m.step b i c st = .done o e st' → i ≤ o ∧ o ≤ b.size)
    (hc : ∀ i c st i' st', b[i]? = some c → m.step b i c st = .cont i' st' → i' ≤ b.size)
    (he : ∀ i st, (m.eob b i st).1 = i) (i : Nat) (st : σ) (hi : i ≤ b.size) :
    i ≤ (runLoop m b i st).1 ∧ (runLoop m b i st).1 ≤ b.size :=
  runLoop_inv m b (fun j _ => i ≤ j ∧ j ≤ b.size) (fun r => i ≤ r.1 ∧ r.1 ≤ b.size)
    (by
      intro j c s j' s' hb hP hs
      exact ⟨fun hlt => ⟨by omega, hc j c s j' s' hb hs⟩, fun hn => absurd (hp b j c s j' s' hb hs) hn⟩)
    (by
      intro j c s o e s' hb hP hs
      have := hd j c s o e s' hb hs
      exact ⟨by omega, this.2⟩)
    (by intro j s _ hP; rw [he]; exact hP)
    i st ⟨Nat.le_refl _, hi⟩

/-- a `lwsStd` step keeps the offset inside `[i, len]`, provided the end-of-header code returns `n+crl` -/
theorem lwsStd_range (b : Buf) (i : Nat) (st : σ) (eoh : σ → Nat → Nat → Nat → Nat × Err × σ)
    (mb : σ → σ) (hi : i ≤ b.size) (heoh : ∀ s j n crl, (eoh s j n crl).1 = n + crl) :
    (∀ i' st', lwsStd b i st eoh mb = .cont i' st' → i ≤ i' ∧ i' ≤ b.size) ∧
    (∀ o e st', lwsStd b i st eoh mb = .done o e st' → i ≤ o ∧ o ≤ b.size) := by
  unfold lwsStd
  rcases hsk : skipLWS b i 0 with ⟨n, crl, e⟩
  have hr := skipLWS_range b i 0 hsk
  have hrn := hr.2 hi
  cases e <;> simp only
  case eoh =>
    have := skipLWS_eoh_range b i 0 hsk (by decide)
    constructor
    · intro _ _ h; cases h
    · intro o e st' h
      simp only [Step.done.injEq] at h
      rw [← h.1, heoh]; omega
  case ok =>
    constructor
    · intro _ _ h; cases h; exact ⟨hr.1, hrn⟩
    · intro _ _ _ h; cases h
  all_goals
    constructor
    · intro _ _ h; cases h
    · intro _ _ _ h; cases h; exact ⟨hr.1, hrn⟩

theorem ciEOH_fst' (s : PCallIDBody) (j n crl : Nat) : (ciEOH s j n crl).1 = n + crl := by
  unfold ciEOH; cases s.state <;> rfl
theorem clEOH_fst' (s : PUIntBody) (j n crl : Nat) : (clEOH s j n crl).1 = n + crl := by
  unfold clEOH; cases s.state <;> rfl
theorem parseCallIDVal_range (b : Buf) (o : Nat) (st : PCallIDBody) (ho : o ≤ b.size) :
    o ≤ (parseCallIDVal b o st).1 ∧ (parseCallIDVal b o st).1 ≤ b.size := by
  unfold parseCallIDVal
  split
  · exact ⟨Nat.le_refl _, ho⟩
  · refine runLoop_range ciMachine b ci_progress ?_ ?_ (fun _ _ => rfl) o st ho
    · intro i c s o1 e s1 hb hs
      have hlt := get?_lt hb
      change ciStep b i c s = .done o1 e s1 at hs
      unfold ciStep at hs
      split at hs
      · cases hst : s.state <;> rw [hst] at hs <;> simp only at hs
        all_goals first
          | exact (lwsStd_range b i _ ciEOH id (by omega) ciEOH_fst').2 _ _ _ hs
          | cases hs
      · cases hst : s.state <;> rw [hst] at hs <;> simp only at hs <;> cases hs <;> omega
    · intro i c s i' s' hb hs
      have hlt := get?_lt hb
      change ciStep b i c s = .cont i' s' at hs
      unfold ciStep at hs
      split at hs
      · cases hst : s.state <;> rw [hst] at hs <;> simp only at hs
        all_goals first
          | exact ((lwsStd_range b i _ ciEOH id (by omega) ciEOH_fst').1 _ _ hs).2
          | (cases hs; omega)
      · cases hst : s.state <;> rw [hst] at hs <;> simp only at hs <;> cases hs <;> omega

theorem parseUIntVal_range (b : Buf) (o : Nat) (st : PUIntBody) (ho : o ≤ b.size) :
    o ≤ (parseUIntVal b o st).1 ∧ (parseUIntVal b o st).1 ≤ b.size := by
  unfold parseUIntVal
  split
  · exact ⟨Nat.le_refl _, ho⟩
  · refine runLoop_range clMachine b cl_progress ?_ ?_ (fun _ _ => rfl) o st ho
    · intro i c s o1 e s1 hb hs
      have hlt := get?_lt hb
      change clStep b i c s = .done o1 e s1 at hs
      unfold clStep at hs
      split at hs
      · cases hst : s.state <;> rw [hst] at hs <;> simp only at hs
        all_goals first
          | exact (lwsStd_range b i _ clEOH id (by omega) clEOH_fst').2 _ _ _ hs
          | cases hs
      · split at hs
        · cases hst : s.state <;> rw [hst] at hs <;> simp only at hs
          all_goals first
            | (cases hs <;> omega)
            | (split at hs <;> cases hs <;> omega)
        · cases hs; omega
    · intro i c s i' s' hb hs
      have hlt := get?_lt hb
      change clStep b i c s = .cont i' s' at hs
      unfold clStep at hs
      split at hs
      · cases hst : s.state <;> rw [hst] at hs <;> simp only at hs
        all_goals first
          | exact ((lwsStd_range b i _ clEOH id (by omega) clEOH_fst').1 _ _ hs).2
          | (cases hs; omega)
      · split at hs
        · cases hst : s.state <;> rw [hst] at hs <;> simp only at hs
          all_goals first
            | (cases hs <;> omega)
            | (split at hs <;> cases hs <;> omega)
        · cases hs

/-- ParseCLenVal: on MoreBytes (the only case its callers need) the offset is that of ParseUIntVal -/
theorem parseCLenVal_more_range (b : Buf) (o : Nat) (st : PUIntBody) (ho : o ≤ b.size)
    {o' : Nat} {st' : PUIntBody} (h : parseCLenVal b o st = (o', Err.moreBytes, st')) :
    o ≤ o' ∧ o' ≤ b.size := by
  unfold parseCLenVal at h
  have hr := parseUIntVal_range b o st ho
  rcases hp : parseUIntVal b o st with ⟨o1, e1, s1⟩
  rw [hp] at h hr
  cases e1 <;> simp only at h
  case ok => split at h <;> cases h
  all_goals (cases h <;> exact hr)

/-- a MoreBytes exit of the standard white-space pattern is at or after the position of the step -/
theorem lwsStd_more_ge (b : Buf) (i : Nat) (st : σ) (eoh : σ → Nat → Nat → Nat → Nat × Err × σ) (mb : σ → σ)
    (heoh : ∀ s j n crl, (eoh s j n crl).2.1 ≠ .moreBytes)
    {o : Nat} {st' : σ} (h : lwsStd b i st eoh mb = .done o .moreBytes st') : i ≤ o := by
  unfold lwsStd at h
  rcases hsk : skipLWS b i 0 with ⟨n, crl, e⟩
  rw [hsk] at h
  have hr := skipLWS_range b i 0 hsk
  cases e <;> simp only at h
  case eoh =>
    simp only [Step.done.injEq] at h
    exact absurd h.2.1 (heoh _ _ _ _)
  case moreBytes => simp only [Step.done.injEq] at h; omega
  all_goals cases h

theorem parseCSeqVal_more_range (b : Buf) (o : Nat) (st : PCSeqBody) (hok : csOK b o st)
    {o' : Nat} {st' : PCSeqBody} (h : parseCSeqVal b o st = (o', Err.moreBytes, st')) :
    o ≤ o' ∧ o' ≤ b.size := by
  unfold parseCSeqVal at h
  split at h
  · cases h
  · rename_i hf
    rcases hok with hok | hok
    · exact absurd hok hf
    · refine ⟨?_, (cs_more_inv b o st hok hf h).1.1⟩
      have key := runLoop_inv csMachine b (fun j _ => o ≤ j) (fun r => r.2.1 = .moreBytes → o ≤ r.1)
        (by
          intro i c s i' s' _ hP _
          exact ⟨fun hlt => by omega, fun _ hq => by cases hq⟩)
        (by
          intro i c s o2 e2 s2 hb hP hs hq
          subst hq
          change csStep b i c s = .done o2 .moreBytes s2 at hs
          unfold csStep at hs
          split at hs
          · cases hst : s.state <;> rw [hst] at hs <;> simp only at hs
            all_goals first
              | (have := lwsStd_more_ge b i _ (csEOH b) id (csEOH_ne_more b) hs; omega)
              | cases hs
          · split at hs
            · cases hst : s.state <;> rw [hst] at hs <;> simp only at hs
              all_goals first
                | cases hs
                | (split at hs <;> cases hs)
            · cases hst : s.state <;> rw [hst] at hs <;> simp only at hs <;> cases hs)
        (by intro i s _ hP _; exact hP)
        o st (Nat.le_refl _)
      rw [h] at key
      exact key rfl

/-! ### after MoreBytes the object is not final -/

theorem lwsStd_cont_state (b : Buf) (i : Nat) (st : σ) (eoh : σ → Nat → Nat → Nat → Nat × Err × σ) (mb : σ → σ)
    {i' : Nat} {st' : σ} (h : lwsStd b i st eoh mb = .cont i' st') : st' = st := by
  unfold lwsStd at h
  rcases hsk : skipLWS b i 0 with ⟨n, crl, e⟩
  rw [hsk] at h
  cases e <;> simp only at h <;> cases h
  rfl

theorem lwsStd_more_state (b : Buf) (i : Nat) (st : σ) (eoh : σ → Nat → Nat → Nat → Nat × Err × σ) (mb : σ → σ)
    (heoh : ∀ s j n crl, (eoh s j n crl).2.1 ≠ .moreBytes)
    {o : Nat} {st' : σ} (h : lwsStd b i st eoh mb = .done o .moreBytes st') : st' = mb st := by
  unfold lwsStd at h
  rcases hsk : skipLWS b i 0 with ⟨n, crl, e⟩
  rw [hsk] at h
  cases e <;> simp only at h
  case eoh =>
    simp only [Step.done.injEq] at h
    exact absurd h.2.1 (heoh _ _ _ _)
  case moreBytes => simp only [Step.done.injEq] at h; exact h.2.2.symm
  all_goals cases h

theorem parseCallIDVal_more_notfin (b : Buf) (o : Nat) (st : PCallIDBody)
    {o' : Nat} {st' : PCallIDBody} (h : parseCallIDVal b o st = (o', Err.moreBytes, st')) :
    st'.state ≠ .fin := by
  unfold parseCallIDVal at h
  split at h
  · cases h
  · rename_i hf
    refine runLoop_moreI ciMachine b (fun _ s => s.state ≠ .fin) (fun _ s => s.state ≠ .fin) ?_ ?_ ?_ o st hf h
    · intro i c s i' s' hb hI hs _
      change ciStep b i c s = .cont i' s' at hs
      unfold ciStep at hs
      split at hs
      · cases hst : s.state <;> rw [hst] at hs <;> simp only at hs
        all_goals first
          | (rw [lwsStd_cont_state b i _ ciEOH id hs]; intro hh; cases hh)
          | (rw [lwsStd_cont_state b i _ ciEOH id hs]; exact hI)
          | exact absurd hst hI
      · cases hst : s.state <;> rw [hst] at hs <;> simp only at hs <;> cases hs
        all_goals first | (intro hh; cases hh) | exact hI | exact absurd hst hI
    · intro i c s o2 s2 hb hI hs
      change ciStep b i c s = .done o2 .moreBytes s2 at hs
      unfold ciStep at hs
      split at hs
      · cases hst : s.state <;> rw [hst] at hs <;> simp only at hs
        all_goals first
          | (rw [lwsStd_more_state b i _ ciEOH id ciEOH_ne_more hs]; intro hh; cases hh)
          | (rw [lwsStd_more_state b i _ ciEOH id ciEOH_ne_more hs]; exact hI)
          | cases hs
      · cases hst : s.state <;> rw [hst] at hs <;> simp only at hs <;> cases hs
    · intro i s o2 s2 _ hI he
      simp only [ciMachine, Prod.mk.injEq, true_and] at he
      rw [← he.2]; exact hI

theorem parseUIntVal_more_notfin (b : Buf) (o : Nat) (st : PUIntBody)
    {o' : Nat} {st' : PUIntBody} (h : parseUIntVal b o st = (o', Err.moreBytes, st')) :
    st'.state ≠ .fin := by
  unfold parseUIntVal at h
  split at h
  · cases h
  · rename_i hf
    refine runLoop_moreI clMachine b (fun _ s => s.state ≠ .fin) (fun _ s => s.state ≠ .fin) ?_ ?_ ?_ o st hf h
    · intro i c s i' s' hb hI hs _
      change clStep b i c s = .cont i' s' at hs
      unfold clStep at hs
      split at hs
      · cases hst : s.state <;> rw [hst] at hs <;> simp only at hs
        all_goals first
          | (rw [lwsStd_cont_state b i _ clEOH id hs]; intro hh; cases hh)
          | (rw [lwsStd_cont_state b i _ clEOH id hs]; exact hI)
          | exact absurd hst hI
      · split at hs
        · cases hst : s.state <;> rw [hst] at hs <;> simp only at hs
          all_goals first
            | exact absurd hst hI
            | (cases hs; done)
            | (cases hs; first | (intro hh; cases hh) | exact hI)
            | (split at hs <;> cases hs; first | (intro hh; cases hh) | exact hI | (rw [hst]; intro hh; cases hh))
        · cases hs
    · intro i c s o2 s2 hb hI hs
      change clStep b i c s = .done o2 .moreBytes s2 at hs
      unfold clStep at hs
      split at hs
      · cases hst : s.state <;> rw [hst] at hs <;> simp only at hs
        all_goals first
          | (rw [lwsStd_more_state b i _ clEOH id clEOH_ne_more hs]; intro hh; cases hh)
          | (rw [lwsStd_more_state b i _ clEOH id clEOH_ne_more hs]; exact hI)
          | cases hs
      · split at hs
        · cases hst : s.state <;> rw [hst] at hs <;> simp only at hs
          all_goals first
            | cases hs
            | (split at hs <;> cases hs)
        · cases hs
    · intro i s o2 s2 _ hI he
      simp only [clMachine, Prod.mk.injEq, true_and] at he
      rw [← he.2]; exact hI

theorem parseCLenVal_more_notfin (b : Buf) (o : Nat) (st : PUIntBody)
    {o' : Nat} {st' : PUIntBody} (h : parseCLenVal b o st = (o', Err.moreBytes, st')) :
    st'.state ≠ .fin := by
  unfold parseCLenVal at h
  rcases hp : parseUIntVal b o st with ⟨o1, e1, s1⟩
  rw [hp] at h
  cases e1 <;> simp only at h
  case ok => split at h <;> cases h
  case moreBytes => cases h; exact parseUIntVal_more_notfin b o st hp
  all_goals cases h

theorem parseCSeqVal_more_notfin (b : Buf) (o : Nat) (st : PCSeqBody) (hok : csOK b o st)
    {o' : Nat} {st' : PCSeqBody} (h : parseCSeqVal b o st = (o', Err.moreBytes, st')) :
    st'.state ≠ .fin := by
  unfold parseCSeqVal at h
  split at h
  · cases h
  · rename_i hf
    rcases hok with hok | hok
    · exact absurd hok hf
    · exact (cs_more_inv b o st hok hf h).2

end Sipsp
