/-
  Sipsp.Proofs.Lex — lexical lemmas for skipCRLF / skipLWS / skipWS / skipToken… :
  stability under buffer extension (L1), restart after MoreBytes (L2), range facts.
-/
import Sipsp.Model.Lex

namespace Sipsp

theorem get?_app {b s : Buf} {i : Nat} {c : UInt8} (h : b[i]? = some c) : (b ++ s)[i]? = some c := by
  have hi : i < b.size := by
    rcases Nat.lt_or_ge i b.size with h' | h'
    · exact h'
    · rw [Array.getElem?_eq_none h'] at h; cases h
  rw [Array.getElem?_append_left hi]; exact h

theorem get?_lt {b : Buf} {i : Nat} {c : UInt8} (h : b[i]? = some c) : i < b.size := by
  rcases Nat.lt_or_ge i b.size with h' | h'
  · exact h'
  · rw [Array.getElem?_eq_none h'] at h; cases h

theorem get?_none_ge {b : Buf} {i : Nat} (h : b[i]? = none) : b.size ≤ i := by
  rcases Nat.lt_or_ge i b.size with h' | h'
  · rw [Array.getElem?_eq_getElem h'] at h; cases h
  · exact h'

/-! ### skipCRLF -/

/-- a result other than MoreBytes does not change when the buffer grows -/
theorem skipCRLF_stable (b s : Buf) (i : Nat) {n crl : Nat} {e : Err}
    (h : skipCRLF b i = (n, crl, e)) (he : e ≠ .moreBytes) : skipCRLF (b ++ s) i = (n, crl, e) := by
  unfold skipCRLF at h ⊢
  cases h1 : b[i+1]? with
  | none =>
    rw [h1] at h
    simp only at h
    cases h0 : b[i]? with
    | none => rw [h0] at h; simp only at h; cases h; exact absurd rfl he
    | some c =>
      rw [h0] at h
      simp only at h
      split at h
      · rename_i hc
        cases h
        -- NoCR: c is not CR/LF; on the longer buffer the same verdict
        rw [get?_app h0]
        cases h1' : (b ++ s)[i+1]? with
        | none => simp only; rw [if_pos hc]
        | some c1 =>
          simp only
          have h13 : (c == 13) = false := by
            simp only [Bool.and_eq_true, bne_iff_ne, ne_eq] at hc
            simpa using hc.1
          have h10 : (c == 10) = false := by
            simp only [Bool.and_eq_true, bne_iff_ne, ne_eq] at hc
            simpa using hc.2
          simp [h13, h10]
      · cases h; exact absurd rfl he
  | some c1 =>
    rw [h1] at h
    rw [get?_app h1]
    simp only at h ⊢
    have hi : i < b.size := by have := get?_lt h1; omega
    have h0 : b[i]? = some b[i] := Array.getElem?_eq_getElem hi
    rw [h0] at h
    rw [get?_app h0]
    exact h

theorem skipCRLF_moreBytes_pos {b : Buf} {i n crl : Nat} (h : skipCRLF b i = (n, crl, Err.moreBytes)) :
    n = i ∧ crl = 0 ∧ b.size ≤ i + 1 := by
  unfold skipCRLF at h
  cases h1 : b[i+1]? with
  | none =>
    rw [h1] at h
    have := get?_none_ge h1
    simp only at h
    split at h
    · split at h <;> simp at h <;> omega
    · simp at h; omega
  | some c1 =>
    rw [h1] at h
    simp only at h
    split at h
    · simp at h
    · split at h
      · split at h <;> simp at h
      · split at h <;> simp at h

theorem skipCRLF_range {b : Buf} {i n crl : Nat} {e : Err} (h : skipCRLF b i = (n, crl, e)) :
    i ≤ n ∧ n ≤ i + 2 ∧ (e = .ok → n ≤ b.size ∧ n = i + crl ∧ 1 ≤ crl) ∧ (e ≠ .ok → n = i ∧ crl = 0) := by
  unfold skipCRLF at h
  cases h1 : b[i+1]? with
  | none =>
    rw [h1] at h
    simp only at h
    split at h
    · split at h <;> (cases h; simp)
    · cases h; simp
  | some c1 =>
    rw [h1] at h
    have := get?_lt h1
    simp only at h
    split at h
    · cases h; simp
    · split at h
      · split at h <;> (cases h; simp; omega)
      · split at h <;> (cases h; simp; try omega)

theorem skipCRLF_verdicts {b : Buf} {i n crl : Nat} {e : Err} (h : skipCRLF b i = (n, crl, e)) :
    e = .ok ∨ e = .noCR ∨ e = .moreBytes := by
  unfold skipCRLF at h
  repeat' (split at h)
  all_goals (cases h; simp)

/-! ### skipLWS: one equation per branch -/

theorem skipLWS_none {b : Buf} {i f : Nat} (h : b[i]? = none) : skipLWS b i f = (i, 0, .moreBytes) := by
  rw [skipLWS]; split
  · rfl
  · rename_i c hc; rw [h] at hc; cases hc

theorem skipLWS_ws {b : Buf} {i f : Nat} {c : UInt8} (h : b[i]? = some c) (hws : isWS c = true) :
    skipLWS b i f = skipLWS b (i + 1) f := by
  rw [skipLWS]; split
  · rename_i hc; rw [h] at hc; cases hc
  · rename_i c' hc; rw [h] at hc; cases hc; simp only [hws, if_true]

theorem skipLWS_other {b : Buf} {i f : Nat} {c : UInt8} (h : b[i]? = some c) (hws : isWS c = false)
    (hcr : isCRLFch c = false) : skipLWS b i f = (i, 0, .ok) := by
  rw [skipLWS]; split
  · rename_i hc; rw [h] at hc; cases hc
  · rename_i c' hc; rw [h] at hc; cases hc; simp only [hws, hcr, Bool.false_eq_true, if_false]

theorem skipLWS_crlf_err {b : Buf} {i f : Nat} {c : UInt8} {n crl : Nat} {e : Err} (h : b[i]? = some c)
    (hws : isWS c = false) (hcr : isCRLFch c = true) (hs : skipCRLF b i = (n, crl, e)) (he : e ≠ .ok) :
    skipLWS b i f = (n, crl, e) := by
  rw [skipLWS]; split
  · rename_i hc; rw [h] at hc; cases hc
  · rename_i c' hc; rw [h] at hc; cases hc
    simp only [hws, hcr, Bool.false_eq_true, if_false, if_true]
    split
    · rename_i heq; rw [hs] at heq; cases heq; exact absurd rfl he
    · rename_i heq; rw [hs] at heq; cases heq; rfl

theorem skipLWS_crlf_end {b : Buf} {i f : Nat} {c : UInt8} {n crl : Nat} (h : b[i]? = some c)
    (hws : isWS c = false) (hcr : isCRLFch c = true) (hs : skipCRLF b i = (n, crl, .ok)) (hn : b[n]? = none) :
    skipLWS b i f = if hasFlag f POptInputEndF then (n, 0, .eoh) else (i, 0, .moreBytes) := by
  rw [skipLWS]; split
  · rename_i hc; rw [h] at hc; cases hc
  · rename_i c' hc; rw [h] at hc; cases hc
    simp only [hws, hcr, Bool.false_eq_true, if_false, if_true]
    split
    · rename_i heq; rw [hs] at heq; cases heq
      split
      · rfl
      · rename_i c2 hc2; rw [hn] at hc2; cases hc2
    · rename_i hne heq; rw [hs] at heq; cases heq; exact (hne rfl).elim

theorem skipLWS_crlf_ws {b : Buf} {i f : Nat} {c c2 : UInt8} {n crl : Nat} (h : b[i]? = some c)
    (hws : isWS c = false) (hcr : isCRLFch c = true) (hs : skipCRLF b i = (n, crl, .ok))
    (hn : b[n]? = some c2) (hws2 : isWS c2 = true) : skipLWS b i f = skipLWS b (n + 1) f := by
  rw [skipLWS]; split
  · rename_i hc; rw [h] at hc; cases hc
  · rename_i c' hc; rw [h] at hc; cases hc
    simp only [hws, hcr, Bool.false_eq_true, if_false, if_true]
    split
    · rename_i heq; rw [hs] at heq; cases heq
      split
      · rename_i hc2; rw [hn] at hc2; cases hc2
      · rename_i c3 hc3; rw [hn] at hc3; cases hc3; simp only [hws2, if_true]
    · rename_i hne heq; rw [hs] at heq; cases heq; exact (hne rfl).elim

theorem skipLWS_crlf_eoh {b : Buf} {i f : Nat} {c c2 : UInt8} {n crl : Nat} (h : b[i]? = some c)
    (hws : isWS c = false) (hcr : isCRLFch c = true) (hs : skipCRLF b i = (n, crl, .ok))
    (hn : b[n]? = some c2) (hws2 : isWS c2 = false) : skipLWS b i f = (i, crl, .eoh) := by
  rw [skipLWS]; split
  · rename_i hc; rw [h] at hc; cases hc
  · rename_i c' hc; rw [h] at hc; cases hc
    simp only [hws, hcr, Bool.false_eq_true, if_false, if_true]
    split
    · rename_i heq; rw [hs] at heq; cases heq
      split
      · rename_i hc2; rw [hn] at hc2; cases hc2
      · rename_i c3 hc3; rw [hn] at hc3; cases hc3; simp only [hws2, Bool.false_eq_true, if_false]
    · rename_i hne heq; rw [hs] at heq; cases heq; exact (hne rfl).elim

/-! ### skipLWS: stability -/

/-- a result other than MoreBytes does not change when the buffer grows (without the end-of-input flag) -/
theorem skipLWS_stable (b s : Buf) (i flags : Nat) {n crl : Nat} {e : Err}
    (h : skipLWS b i flags = (n, crl, e)) (he : e ≠ .moreBytes) (hf : hasFlag flags POptInputEndF = false) :
    skipLWS (b ++ s) i flags = (n, crl, e) := by
  fun_induction skipLWS b i flags with
  | case1 i hb => cases h; exact absurd rfl he
  | case2 i c hb hws ih => rw [skipLWS_ws (get?_app hb) hws]; exact ih h
  | case3 i c hb hws hcr n' crl' hs hb2 hfl => rw [hf] at hfl; cases hfl
  | case4 i c hb hws hcr n' crl' hs hb2 hfl => cases h; exact absurd rfl he
  | case5 i c hb hws hcr n' crl' hs c2 hb2 hws2 ih =>
    rw [skipLWS_crlf_ws (get?_app hb) (by simpa using hws) hcr (skipCRLF_stable b s i hs (by simp)) (get?_app hb2) hws2]
    exact ih h
  | case6 i c hb hws hcr n' crl' hs c2 hb2 hws2 =>
    rw [skipLWS_crlf_eoh (get?_app hb) (by simpa using hws) hcr (skipCRLF_stable b s i hs (by simp)) (get?_app hb2)
      (by simpa using hws2)]
    exact h
  | case7 i c hb hws hcr n' crl' e' hne hs =>
    cases h
    rw [skipLWS_crlf_err (get?_app hb) (by simpa using hws) hcr (skipCRLF_stable b s i hs he) (fun h => hne h)]
  | case8 i c hb hws hcr =>
    rw [skipLWS_other (get?_app hb) (by simpa using hws) (by simpa using hcr)]; exact h

/-! ### skipLWS: restart after MoreBytes, ranges, progress -/

/-- after `MoreBytes` the returned offset is a valid restart point: scanning the extended buffer from it
    gives the same result as scanning from the original offset -/
theorem skipLWS_restart (b s : Buf) (i flags : Nat) {n crl : Nat}
    (h : skipLWS b i flags = (n, crl, .moreBytes)) (hf : hasFlag flags POptInputEndF = false) :
    skipLWS (b ++ s) n flags = skipLWS (b ++ s) i flags ∧ i ≤ n := by
  fun_induction skipLWS b i flags with
  | case1 i hb => cases h; exact ⟨rfl, Nat.le_refl _⟩
  | case2 i c hb hws ih =>
    rw [skipLWS_ws (get?_app hb) hws]
    have := ih h; exact ⟨this.1, by omega⟩
  | case3 i c hb hws hcr n' crl' hs hb2 hfl => rw [hf] at hfl; cases hfl
  | case4 i c hb hws hcr n' crl' hs hb2 hfl => cases h; exact ⟨rfl, Nat.le_refl _⟩
  | case5 i c hb hws hcr n' crl' hs c2 hb2 hws2 ih =>
    rw [skipLWS_crlf_ws (get?_app hb) (by simpa using hws) hcr (skipCRLF_stable b s i hs (by simp)) (get?_app hb2) hws2]
    have := ih h
    have := skipCRLF_ok_gt hs
    exact ⟨‹_ ∧ _›.1, by omega⟩
  | case6 i c hb hws hcr n' crl' hs c2 hb2 hws2 => cases h
  | case7 i c hb hws hcr n' crl' e' hne hs =>
    cases h
    have := skipCRLF_moreBytes_pos hs
    rw [this.1]; exact ⟨rfl, Nat.le_refl _⟩
  | case8 i c hb hws hcr => cases h

/-- the result offset is never before the start offset nor beyond the buffer end (+1 never) -/
theorem skipLWS_range (b : Buf) (i flags : Nat) {n crl : Nat} {e : Err}
    (h : skipLWS b i flags = (n, crl, e)) : i ≤ n ∧ (i ≤ b.size → n ≤ b.size) := by
  fun_induction skipLWS b i flags with
  | case1 i hb => cases h; exact ⟨Nat.le_refl _, id⟩
  | case2 i c hb hws ih =>
    have h1 := ih h; have h2 := get?_lt hb
    exact ⟨by omega, fun _ => h1.2 (by omega)⟩
  | case3 i c hb hws hcr n' crl' hs hb2 hfl =>
    cases h
    have := skipCRLF_range hs
    exact ⟨this.1, fun _ => (this.2.2.1 rfl).1⟩
  | case4 i c hb hws hcr n' crl' hs hb2 hfl => cases h; exact ⟨Nat.le_refl _, id⟩
  | case5 i c hb hws hcr n' crl' hs c2 hb2 hws2 ih =>
    have h1 := ih h; have h2 := skipCRLF_ok_gt hs; have h3 := get?_lt hb2
    exact ⟨by omega, fun _ => h1.2 (by omega)⟩
  | case6 i c hb hws hcr n' crl' hs c2 hb2 hws2 => cases h; exact ⟨Nat.le_refl _, id⟩
  | case7 i c hb hws hcr n' crl' e' hne hs =>
    cases h
    have := skipCRLF_range hs
    have h2 := this.2.2.2 (fun he => hne he)
    rw [h2.1]; exact ⟨Nat.le_refl _, id⟩
  | case8 i c hb hws hcr => cases h; exact ⟨Nat.le_refl _, id⟩

/-- on `Ok` the scan stopped at a byte that is not white space; it moved iff it started on white space -/
theorem skipLWS_ok (b : Buf) (i flags : Nat) {n crl : Nat} (h : skipLWS b i flags = (n, crl, .ok)) :
    crl = 0 ∧ ∃ c, b[n]? = some c ∧ isLWSch c = false := by
  fun_induction skipLWS b i flags with
  | case1 i hb => cases h
  | case2 i c hb hws ih => exact ih h
  | case3 i c hb hws hcr n' crl' hs hb2 hfl => cases h
  | case4 i c hb hws hcr n' crl' hs hb2 hfl => cases h
  | case5 i c hb hws hcr n' crl' hs c2 hb2 hws2 ih => exact ih h
  | case6 i c hb hws hcr n' crl' hs c2 hb2 hws2 => cases h
  | case7 i c hb hws hcr n' crl' e' hne hs => cases h; exact (hne rfl).elim
  | case8 i c hb hws hcr =>
    cases h
    refine ⟨rfl, c, hb, ?_⟩
    simp only [isWS, isCRLFch, isLWSch, Bool.or_eq_true, beq_iff_eq, not_or] at hws hcr ⊢
    simp [hws.1, hws.2, hcr.1, hcr.2]

theorem skipLWS_ok_gt (b : Buf) (i flags : Nat) {n crl : Nat} {c : UInt8} (hb : b[i]? = some c)
    (hc : isLWSch c = true) (h : skipLWS b i flags = (n, crl, .ok)) : i < n := by
  have hr := skipLWS_range b i flags h
  obtain ⟨_, c', hc', hl⟩ := skipLWS_ok b i flags h
  rcases Nat.lt_or_ge i n with h' | h'
  · exact h'
  · have : n = i := by omega
    subst this; rw [hb] at hc'; cases hc'; rw [hc] at hl; cases hl

/-- on end-of-header (without the end-of-input flag) the line end lies inside the buffer and a further byte
    follows it -/
theorem skipLWS_eoh_range (b : Buf) (i flags : Nat) {n crl : Nat} (h : skipLWS b i flags = (n, crl, .eoh))
    (hf : hasFlag flags POptInputEndF = false) : i ≤ n ∧ n + crl < b.size ∧ 1 ≤ crl := by
  fun_induction skipLWS b i flags with
  | case1 i hb => cases h
  | case2 i c hb hws ih => have := ih h; omega
  | case3 i c hb hws hcr n' crl' hs hb2 hfl => rw [hf] at hfl; cases hfl
  | case4 i c hb hws hcr n' crl' hs hb2 hfl => cases h
  | case5 i c hb hws hcr n' crl' hs c2 hb2 hws2 ih =>
    have := ih h; have := skipCRLF_ok_gt hs; omega
  | case6 i c hb hws hcr n' crl' hs c2 hb2 hws2 =>
    cases h
    have h1 := (skipCRLF_range hs).2.2.1 rfl
    have h2 := get?_lt hb2
    omega
  | case7 i c hb hws hcr n' crl' e' hne hs =>
    cases h
    have := skipCRLF_verdicts hs
    simp at this
  | case8 i c hb hws hcr => cases h

end Sipsp
